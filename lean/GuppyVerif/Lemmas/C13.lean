import GuppyVerif.Spec.C13
/-! Helper lemmas for C13, part 1: the `Instantiator` on closed arguments and the substitution
    (composition) lemma. -/
namespace GuppyVerif.Instantiate
open GuppyVerif

/-! ## lookups in a complete instantiation -/

theorem lookTy_full (σ : List Arg) (n : String) (i : Nat) (c d : Bool) :
    lookTy (full σ) false n i c d =
      if i < σ.length then
        match σ[i]? with
        | some (.ty t) => some (some t)
        | _ => none
      else some (some (.bvar n (i - σ.length) c d)) := by
  unfold lookTy full
  simp only [List.length_map, List.getElem?_map]
  split
  · cases h : σ[i]? with
    | none => simp
    | some x => cases x <;> simp
  · rfl

theorem higherRank_of_closed : ∀ (as : List Arg), argClosedL as = true → higherRank as = false
  | [], _ => rfl
  | a :: as, h => by
    simp only [argClosedL, Bool.and_eq_true] at h
    have ih := higherRank_of_closed as h.2
    unfold higherRank at ih ⊢
    simp only [List.any_cons, ih, Bool.or_false]
    cases a with
    | const c => rfl
    | ty t =>
      cases t with
      | func ins o ps cs =>
        cases ps with
        | nil => rfl
        | cons p ps => simp [argClosed, tyClosed] at h
      | _ => rfl

theorem rootC_closed (σ : PInst) (ap : Bool) (t : Ty) (h : tyClosed t = true) : rootC σ ap t = some t := by
  cases t with
  | bvar n i c d => simp [tyClosed] at h
  | func ins o ps cs =>
    simp only [tyClosed, Bool.and_eq_true] at h
    simp [rootC, h.1.1.1]
  | _ => rfl

/-! ## the Instantiator is the identity on closed arguments -/
mutual
theorem instTy_closed (σ : PInst) (ap : Bool) : ∀ (t : Ty), tyClosed t = true → instTy σ ap t = some t
  | .num _, _ => rfl
  | .none _, _ => rfl
  | .evar _ _ _ _, _ => rfl
  | .bvar _ _ _ _, h => by simp [tyClosed] at h
  | .tuple ts p, h => by
    simp only [tyClosed] at h
    simp [instTy, instTyL_closed σ ap ts h]
  | .func ins o ps cs, h => by
    simp only [tyClosed, Bool.and_eq_true] at h
    obtain ⟨⟨⟨h1, h2⟩, h3⟩, h4⟩ := h
    have hp : ps = [] := by cases ps <;> simp_all
    subst hp
    simp [instTy, instInL_closed σ ap ins h2, instTy_closed σ ap o h3, instConstL_closed σ ap cs h4]
  | .opaque n as, h => by
    simp only [tyClosed] at h
    simp [instTy, instArgL_closed σ ap as h, higherRank_of_closed as h]
  | .struct n as fs, h => by
    simp only [tyClosed] at h
    simp [instTy, instArgL_closed σ ap as h, higherRank_of_closed as h]
theorem instTyL_closed (σ : PInst) (ap : Bool) : ∀ (ts : List Ty), tyClosedL ts = true → instTyL σ ap ts = some ts
  | [], _ => rfl
  | t :: ts, h => by
    simp only [tyClosedL, Bool.and_eq_true] at h
    simp [instTyL, instTy_closed σ ap t h.1, instTyL_closed σ ap ts h.2]
theorem instIn_closed (σ : PInst) (ap : Bool) : ∀ (t : FuncIn), inClosed t = true → instIn σ ap t = some t
  | .mk t f, h => by
    simp only [inClosed] at h
    simp [instIn, instTy_closed σ ap t h]
theorem instInL_closed (σ : PInst) (ap : Bool) : ∀ (ts : List FuncIn), inClosedL ts = true → instInL σ ap ts = some ts
  | [], _ => rfl
  | t :: ts, h => by
    simp only [inClosedL, Bool.and_eq_true] at h
    simp [instInL, instIn_closed σ ap t h.1, instInL_closed σ ap ts h.2]
theorem instArg_closed (σ : PInst) (ap : Bool) : ∀ (t : Arg), argClosed t = true → instArg σ ap t = some t
  | .ty t, h => by
    simp only [argClosed] at h
    simp [instArg, instTy_closed σ ap t h]
  | .const c, h => by
    simp only [argClosed] at h
    simp [instArg, instConst_closed σ ap c h]
theorem instArgL_closed (σ : PInst) (ap : Bool) : ∀ (ts : List Arg), argClosedL ts = true → instArgL σ ap ts = some ts
  | [], _ => rfl
  | t :: ts, h => by
    simp only [argClosedL, Bool.and_eq_true] at h
    simp [instArgL, instArg_closed σ ap t h.1, instArgL_closed σ ap ts h.2]
theorem instConst_closed (σ : PInst) (ap : Bool) : ∀ (t : Const), constClosed t = true → instConst σ ap t = some t
  | .val _ _, _ => rfl
  | .bvar _ _ _, h => by simp [constClosed] at h
  | .evar t n i, h => by
    simp only [constClosed] at h
    simp [instConst, rootC_closed σ ap t h]
theorem instConstL_closed (σ : PInst) (ap : Bool) : ∀ (ts : List Const), constClosedL ts = true → instConstL σ ap ts = some ts
  | [], _ => rfl
  | t :: ts, h => by
    simp only [constClosedL, Bool.and_eq_true] at h
    simp [instConstL, instConst_closed σ ap t h.1, instConstL_closed σ ap ts h.2]
end

/-! ## the substitution lemma

`Rel σ τ ρ`: instantiating with `σ` and then with `τ` is described pointwise by `ρ` — every entry of `σ`
is either closed (and `ρ` has the same entry) or a bare bound variable `k` (and `ρ` has `τ[k]`). -/

def IsVarAt (k : Nat) : Arg → Prop
  | .ty (.bvar _ j _ _) => j = k
  | .const (.bvar _ _ j) => j = k
  | _ => False

structure Rel (σ τ ρ : List Arg) : Prop where
  len : ρ.length = σ.length
  pt : ∀ (i : Nat) (x : Arg), σ[i]? = some x →
    (argClosed x = true ∧ ρ[i]? = some x) ∨ (∃ (k : Nat) (y : Arg), IsVarAt k x ∧ τ[k]? = some y ∧ ρ[i]? = some y)

theorem comp_var {σ τ ρ : List Arg} (R : Rel σ τ ρ) (n : String) (i : Nat) (c d : Bool) (t' : Ty)
    (hi : i < σ.length) (h : instTy (full σ) false (.bvar n i c d) = some t') :
    instTy (full τ) false t' = instTy (full ρ) false (.bvar n i c d) := by
  have hρ : i < ρ.length := R.len ▸ hi
  simp only [instTy, lookTy_full, hi, hρ, ↓reduceIte] at h ⊢
  cases hx : σ[i]? with
  | none => simp [hx] at h
  | some x =>
    cases x with
    | const cc => simp [hx] at h
    | ty s =>
      simp only [hx, Option.some.injEq] at h
      subst h
      rcases R.pt i _ hx with ⟨hc, hr⟩ | ⟨k, y, hv, hτ, hr⟩
      · simp only [argClosed] at hc
        simp [hr, instTy_closed _ _ _ hc]
      · cases s with
        | bvar n' j c' d' =>
          simp only [IsVarAt] at hv
          subst hv
          have hk : j < τ.length := by
            rcases Nat.lt_or_ge j τ.length with h | h
            · exact h
            · simp [List.getElem?_eq_none h] at hτ
          simp only [instTy, lookTy_full, hk, ↓reduceIte, hτ, hr]
          cases y <;> rfl
        | _ => simp [IsVarAt] at hv

theorem instConst_full_bvar (σ : List Arg) (t : Ty) (n : String) (i : Nat) :
    instConst (full σ) false (.bvar t n i) =
      if i < σ.length then
        match σ[i]? with
        | some (.const c) => some c
        | _ => none
      else some (.bvar t n (i - σ.length)) := by
  simp only [instConst, full, List.length_map, List.getElem?_map]
  split
  · cases h : σ[i]? with
    | none => simp
    | some x => cases x <;> simp
  · rfl

theorem comp_cvar {σ τ ρ : List Arg} (R : Rel σ τ ρ) (t : Ty) (n : String) (i : Nat) (c' : Const)
    (hi : i < σ.length) (h : instConst (full σ) false (.bvar t n i) = some c') :
    instConst (full τ) false c' = instConst (full ρ) false (.bvar t n i) := by
  have hρ : i < ρ.length := R.len ▸ hi
  simp only [instConst_full_bvar, hi, hρ, ↓reduceIte] at h ⊢
  cases hx : σ[i]? with
  | none => simp [hx] at h
  | some x =>
    cases x with
    | ty s => simp [hx] at h
    | const s =>
      simp only [hx, Option.some.injEq] at h
      subst h
      rcases R.pt i _ hx with ⟨hc, hr⟩ | ⟨k, y, hv, hτ, hr⟩
      · simp only [argClosed] at hc
        simp [hr, instConst_closed _ _ _ hc]
      · cases s with
        | bvar t' n' j =>
          simp only [IsVarAt] at hv
          subst hv
          have hk : j < τ.length := by
            rcases Nat.lt_or_ge j τ.length with h | h
            · exact h
            · simp [List.getElem?_eq_none h] at hτ
          simp only [instConst_full_bvar, hk, ↓reduceIte, hτ, hr]
        | _ => simp [IsVarAt] at hv

theorem rootC_nonvar (σ : PInst) (ap : Bool) (t : Ty) (h : tyClosed t = true) : rootC σ ap t = some t :=
  rootC_closed σ ap t h

theorem rootC_full_bvar (σ : List Arg) (n : String) (i : Nat) (c d : Bool) :
    rootC (full σ) false (.bvar n i c d) =
      if i < σ.length then
        match σ[i]? with
        | some (.ty s) => if tyUnsolved s then none else some s
        | _ => none
      else some (.bvar n (i - σ.length) c d) := by
  simp only [rootC, lookTy_full]
  by_cases hi : i < σ.length
  · simp only [hi, ↓reduceIte]
    cases h : σ[i]? with
    | none => rfl
    | some x => cases x <;> rfl
  · simp [hi, tyUnsolved]

theorem comp_root {σ τ ρ : List Arg} (R : Rel σ τ ρ) (t t1 : Ty) (hs : tyScoped σ.length t = true)
    (h : rootC (full σ) false t = some t1) : rootC (full τ) false t1 = rootC (full ρ) false t := by
  cases t with
  | bvar n i c d =>
    simp only [tyScoped, decide_eq_true_eq] at hs
    have hρ : i < ρ.length := R.len ▸ hs
    simp only [rootC_full_bvar, hs, hρ, ↓reduceIte] at h ⊢
    cases hx : σ[i]? with
    | none => simp [hx] at h
    | some x =>
      cases x with
      | const cc => simp [hx] at h
      | ty s =>
        simp only [hx] at h
        split at h
        · cases h
        · simp only [Option.some.injEq] at h
          subst h
          rename_i hu
          rcases R.pt i _ hx with ⟨hc, hr⟩ | ⟨k, y, hv, hτ, hr⟩
          · simp only [argClosed] at hc
            rw [rootC_closed _ _ _ hc]
            simp [hr, hu]
          · cases s with
            | bvar n' j c' d' =>
              simp only [IsVarAt] at hv
              subst hv
              have hk : j < τ.length := by
                rcases Nat.lt_or_ge j τ.length with h | h
                · exact h
                · simp [List.getElem?_eq_none h] at hτ
              simp only [rootC_full_bvar, hk, ↓reduceIte, hτ, hr]
            | _ => simp [IsVarAt] at hv
  | func ins o ps cs =>
    simp only [rootC] at h ⊢
    split at h
    · cases h; simp [*]
    · cases h
  | num k => cases h; rfl
  | none p => cases h; rfl
  | evar n i c d => cases h; rfl
  | tuple ts p => cases h; rfl
  | «opaque» n as => cases h; rfl
  | struct n as fs => cases h; rfl

/-- helper: `do let x ← a; some (f x)` equals `some r` -/
theorem bind_some_eq {α β : Type} {a : Option α} {f : α → β} {r : β}
    (h : (do let x ← a; some (f x)) = some r) : ∃ x, a = some x ∧ f x = r := by
  cases a with
  | none => cases h
  | some x => exact ⟨x, rfl, by simpa using h⟩

section comp
set_option linter.unusedSectionVars false
variable {σ τ ρ : List Arg} (R : Rel σ τ ρ)
include R

mutual
theorem comp_ty : ∀ (t t' : Ty), tyScoped σ.length t = true → instTy (full σ) false t = some t' →
    instTy (full τ) false t' = instTy (full ρ) false t
  | .num _, t', _, h => by cases h; rfl
  | .none _, t', _, h => by cases h; rfl
  | .evar _ _ _ _, t', _, h => by cases h; rfl
  | .bvar n i c d, t', hs, h => by
    simp only [tyScoped, decide_eq_true_eq] at hs
    exact comp_var R n i c d t' hs h
  | .tuple ts p, t', hs, h => by
    simp only [tyScoped] at hs
    simp only [instTy] at h
    obtain ⟨ts', h1, h2⟩ := bind_some_eq h
    subst h2
    simp only [instTy, comp_tyL ts ts' hs h1]
  | .func ins o ps cs, t', hs, h => by
    simp only [tyScoped, Bool.and_eq_true] at hs
    obtain ⟨⟨hs1, hs2⟩, hs3⟩ := hs
    cases ps with
    | cons p ps => simp [instTy] at h
    | nil =>
      simp only [instTy, List.isEmpty_nil, ↓reduceIte] at h ⊢
      cases h1 : instInL (full σ) false ins with
      | none => simp [h1] at h
      | some ins' =>
        cases h2 : instTy (full σ) false o with
        | none => simp [h1, h2] at h
        | some o' =>
          cases h3 : instConstL (full σ) false cs with
          | none => simp [h1, h2, h3] at h
          | some cs' =>
            simp only [h1, h2, h3, Option.bind_eq_bind, Option.bind_some, Option.some.injEq] at h
            subst h
            simp only [instTy, List.isEmpty_nil, ↓reduceIte, comp_inL ins ins' hs1 h1, comp_ty o o' hs2 h2,
              comp_constL cs cs' hs3 h3]
  | .opaque n as, t', hs, h => by
    simp only [tyScoped] at hs
    simp only [instTy] at h
    cases h1 : instArgL (full σ) false as with
    | none => simp [h1] at h
    | some as' =>
      simp only [h1, Option.bind_eq_bind, Option.bind_some] at h
      split at h
      · cases h
      · cases h
        simp only [instTy, comp_argL as as' hs h1]
  | .struct n as fs, t', hs, h => by
    simp only [tyScoped] at hs
    simp only [instTy] at h
    cases h1 : instArgL (full σ) false as with
    | none => simp [h1] at h
    | some as' =>
      simp only [h1, Option.bind_eq_bind, Option.bind_some] at h
      split at h
      · cases h
      · cases h
        simp only [instTy, comp_argL as as' hs h1]
theorem comp_tyL : ∀ (ts ts' : List Ty), tyScopedL σ.length ts = true → instTyL (full σ) false ts = some ts' →
    instTyL (full τ) false ts' = instTyL (full ρ) false ts
  | [], ts', _, h => by cases h; rfl
  | t :: ts, ts', hs, h => by
    simp only [tyScopedL, Bool.and_eq_true] at hs
    simp only [instTyL] at h
    cases h1 : instTy (full σ) false t with
    | none => simp [h1] at h
    | some t1 =>
      cases h2 : instTyL (full σ) false ts with
      | none => simp [h1, h2] at h
      | some ts1 =>
        simp only [h1, h2, Option.bind_eq_bind, Option.bind_some, Option.some.injEq] at h
        subst h
        simp only [instTyL, comp_ty t t1 hs.1 h1, comp_tyL ts ts1 hs.2 h2]
theorem comp_in : ∀ (t t' : FuncIn), inScoped σ.length t = true → instIn (full σ) false t = some t' →
    instIn (full τ) false t' = instIn (full ρ) false t
  | .mk t f, t', hs, h => by
    simp only [inScoped] at hs
    simp only [instIn] at h
    obtain ⟨t1, h1, h2⟩ := bind_some_eq h
    subst h2
    simp only [instIn, comp_ty t t1 hs h1]
theorem comp_inL : ∀ (ts ts' : List FuncIn), inScopedL σ.length ts = true → instInL (full σ) false ts = some ts' →
    instInL (full τ) false ts' = instInL (full ρ) false ts
  | [], ts', _, h => by cases h; rfl
  | t :: ts, ts', hs, h => by
    simp only [inScopedL, Bool.and_eq_true] at hs
    simp only [instInL] at h
    cases h1 : instIn (full σ) false t with
    | none => simp [h1] at h
    | some t1 =>
      cases h2 : instInL (full σ) false ts with
      | none => simp [h1, h2] at h
      | some ts1 =>
        simp only [h1, h2, Option.bind_eq_bind, Option.bind_some, Option.some.injEq] at h
        subst h
        simp only [instInL, comp_in t t1 hs.1 h1, comp_inL ts ts1 hs.2 h2]
theorem comp_arg : ∀ (t t' : Arg), argScoped σ.length t = true → instArg (full σ) false t = some t' →
    instArg (full τ) false t' = instArg (full ρ) false t
  | .ty t, t', hs, h => by
    simp only [argScoped] at hs
    simp only [instArg] at h
    obtain ⟨t1, h1, h2⟩ := bind_some_eq h
    subst h2
    simp only [instArg, comp_ty t t1 hs h1]
  | .const c, t', hs, h => by
    simp only [argScoped] at hs
    simp only [instArg] at h
    obtain ⟨t1, h1, h2⟩ := bind_some_eq h
    subst h2
    simp only [instArg, comp_const c t1 hs h1]
theorem comp_argL : ∀ (ts ts' : List Arg), argScopedL σ.length ts = true → instArgL (full σ) false ts = some ts' →
    instArgL (full τ) false ts' = instArgL (full ρ) false ts
  | [], ts', _, h => by cases h; rfl
  | t :: ts, ts', hs, h => by
    simp only [argScopedL, Bool.and_eq_true] at hs
    simp only [instArgL] at h
    cases h1 : instArg (full σ) false t with
    | none => simp [h1] at h
    | some t1 =>
      cases h2 : instArgL (full σ) false ts with
      | none => simp [h1, h2] at h
      | some ts1 =>
        simp only [h1, h2, Option.bind_eq_bind, Option.bind_some, Option.some.injEq] at h
        subst h
        simp only [instArgL, comp_arg t t1 hs.1 h1, comp_argL ts ts1 hs.2 h2]
theorem comp_const : ∀ (t t' : Const), constScoped σ.length t = true → instConst (full σ) false t = some t' →
    instConst (full τ) false t' = instConst (full ρ) false t
  | .val _ _, t', _, h => by cases h; rfl
  | .bvar t n i, t', hs, h => by
    simp only [constScoped, Bool.and_eq_true, decide_eq_true_eq] at hs
    exact comp_cvar R t n i t' hs.1 h
  | .evar t n i, t', hs, h => by
    simp only [constScoped] at hs
    simp only [instConst] at h
    obtain ⟨t1, h1, h2⟩ := bind_some_eq h
    subst h2
    simp only [instConst, comp_root R t t1 hs h1]
theorem comp_constL : ∀ (ts ts' : List Const), constScopedL σ.length ts = true →
    instConstL (full σ) false ts = some ts' → instConstL (full τ) false ts' = instConstL (full ρ) false ts
  | [], ts', _, h => by cases h; rfl
  | t :: ts, ts', hs, h => by
    simp only [constScopedL, Bool.and_eq_true] at hs
    simp only [instConstL] at h
    cases h1 : instConst (full σ) false t with
    | none => simp [h1] at h
    | some t1 =>
      cases h2 : instConstL (full σ) false ts with
      | none => simp [h1, h2] at h
      | some ts1 =>
        simp only [h1, h2, Option.bind_eq_bind, Option.bind_some, Option.some.injEq] at h
        subst h
        simp only [instConstL, comp_const t t1 hs.1 h1, comp_constL ts ts1 hs.2 h2]
end
end comp

end GuppyVerif.Instantiate
