import GuppyVerif.Spec.C13
/-! Helper lemmas for C13, part 3: un-monomorphized positions, `compile_variable_idx`, `rem_args`. -/
namespace GuppyVerif.Instantiate
open GuppyVerif

/-! ## `keptFrom` -/

theorem keptFrom_ge : ∀ (m : PInst) (k i : Nat), i ∈ keptFrom k m → k ≤ i
  | [], _, _, h => by simp [keptFrom] at h
  | none :: m, k, i, h => by
    simp only [keptFrom, List.mem_cons] at h
    rcases h with h | h
    · omega
    · have := keptFrom_ge m (k + 1) i h; omega
  | some _ :: m, k, i, h => by
    simp only [keptFrom] at h
    have := keptFrom_ge m (k + 1) i h; omega

theorem keptFrom_sorted : ∀ (m : PInst) (k : Nat), (keptFrom k m).Pairwise (· < ·)
  | [], _ => by simp [keptFrom]
  | none :: m, k => by
    simp only [keptFrom, List.pairwise_cons]
    exact ⟨fun i hi => by have := keptFrom_ge m (k + 1) i hi; omega, keptFrom_sorted m (k + 1)⟩
  | some _ :: m, k => by
    simp only [keptFrom]
    exact keptFrom_sorted m (k + 1)

/-- the `j`-th kept position is `i` iff `m[i]` is `None` and exactly `j` entries before it are `None` -/
theorem keptFrom_get : ∀ (m : PInst) (k j i : Nat),
    (keptFrom k m)[j]? = some i ↔
      (k ≤ i ∧ m[i - k]? = some none ∧ (m.take (i - k)).countP Option.isNone = j)
  | [], k, j, i => by simp [keptFrom]
  | none :: m, k, j, i => by
    simp only [keptFrom]
    cases j with
    | zero =>
      simp only [List.getElem?_cons_zero, Option.some.injEq]
      constructor
      · intro h; subst h; simp
      · rintro ⟨h1, h2, h3⟩
        rcases Nat.lt_or_ge k i with hlt | hge
        · obtain ⟨s, hs⟩ : ∃ s, i - k = s + 1 := ⟨i - k - 1, by omega⟩
          rw [hs] at h3
          simp [List.take_succ_cons] at h3
        · omega
    | succ j =>
      simp only [List.getElem?_cons_succ]
      rw [keptFrom_get m (k + 1) j i]
      constructor
      · rintro ⟨h1, h2, h3⟩
        obtain ⟨s, hs⟩ : ∃ s, i - k = s + 1 := ⟨i - k - 1, by omega⟩
        have hs' : i - (k + 1) = s := by omega
        rw [hs'] at h2 h3
        rw [hs]
        refine ⟨by omega, by simpa using h2, ?_⟩
        simp [List.take_succ_cons, h3]
      · rintro ⟨h1, h2, h3⟩
        rcases Nat.lt_or_ge k i with hlt | hge
        · obtain ⟨s, hs⟩ : ∃ s, i - k = s + 1 := ⟨i - k - 1, by omega⟩
          have hs' : i - (k + 1) = s := by omega
          rw [hs] at h2 h3
          rw [hs']
          simp only [List.getElem?_cons_succ] at h2
          simp only [List.take_succ_cons, List.countP_cons, Option.isNone_none, ↓reduceIte,
            Nat.add_right_cancel_iff] at h3
          exact ⟨by omega, h2, h3⟩
        · have : i - k = 0 := by omega
          rw [this] at h3
          simp at h3
  | some v :: m, k, j, i => by
    simp only [keptFrom]
    rw [keptFrom_get m (k + 1) j i]
    constructor
    · rintro ⟨h1, h2, h3⟩
      obtain ⟨s, hs⟩ : ∃ s, i - k = s + 1 := ⟨i - k - 1, by omega⟩
      have hs' : i - (k + 1) = s := by omega
      rw [hs'] at h2 h3
      rw [hs]
      refine ⟨by omega, by simpa using h2, ?_⟩
      simp [List.take_succ_cons, h3]
    · rintro ⟨h1, h2, h3⟩
      rcases Nat.lt_or_ge k i with hlt | hge
      · obtain ⟨s, hs⟩ : ∃ s, i - k = s + 1 := ⟨i - k - 1, by omega⟩
        have hs' : i - (k + 1) = s := by omega
        rw [hs] at h2 h3
        rw [hs']
        simp only [List.getElem?_cons_succ] at h2
        simp only [List.take_succ_cons, List.countP_cons, Option.isNone_some, Bool.false_eq_true,
          ↓reduceIte, Nat.add_zero] at h3
        exact ⟨by omega, h2, h3⟩
      · have : i - k = 0 := by omega
        rw [this] at h2
        simp at h2

theorem compileVariableIdx_iff (m : PInst) (i j : Nat) :
    compileVariableIdx i m = some j ↔ (keptIdx m)[j]? = some i := by
  unfold keptIdx
  rw [keptFrom_get]
  simp only [Nat.zero_le, Nat.sub_zero, true_and]
  unfold compileVariableIdx
  cases h : m[i]? with
  | none => simp
  | some x =>
    cases x with
    | none => simp
    | some a => simp

theorem mem_keptIdx (m : PInst) (i : Nat) : i ∈ keptIdx m ↔ m[i]? = some none := by
  rw [List.mem_iff_getElem?]
  constructor
  · rintro ⟨j, hj⟩
    have := (keptFrom_get m 0 j i).mp hj
    simpa using this.2.1
  · intro h
    exact ⟨_, (keptFrom_get m 0 _ i).mpr ⟨Nat.zero_le _, by simpa using h, rfl⟩⟩

/-! ## `rem_args` -/

theorem remArgs_get : ∀ (args : List Arg) (m : PInst) (k j i : Nat), args.length = m.length →
    (keptFrom k m)[j]? = some i → (remArgs args m)[j]? = args[i - k]? ∧ (args[i - k]?).isSome
  | [], [], _, _, _, _, h => by simp [keptFrom] at h
  | [], _ :: _, _, _, _, hl, _ => by simp at hl
  | _ :: _, [], _, _, _, hl, _ => by simp at hl
  | a :: args, none :: m, k, j, i, hl, h => by
    simp only [keptFrom] at h
    simp only [remArgs, Option.isNone_none, ↓reduceIte]
    cases j with
    | zero =>
      simp only [List.getElem?_cons_zero, Option.some.injEq] at h
      subst h
      simp
    | succ j =>
      simp only [List.getElem?_cons_succ] at h ⊢
      have hge : k + 1 ≤ i := keptFrom_ge m (k + 1) i (List.mem_of_getElem? h)
      have := remArgs_get args m (k + 1) j i (by simpa using hl) h
      obtain ⟨s, hs⟩ : ∃ s, i - k = s + 1 := ⟨i - k - 1, by omega⟩
      have hs' : i - (k + 1) = s := by omega
      rw [hs'] at this
      rw [hs]
      simpa using this
  | a :: args, some v :: m, k, j, i, hl, h => by
    simp only [keptFrom] at h
    simp only [remArgs, Option.isNone_some, Bool.false_eq_true, ↓reduceIte]
    have hge : k + 1 ≤ i := keptFrom_ge m (k + 1) i (List.mem_of_getElem? h)
    have := remArgs_get args m (k + 1) j i (by simpa using hl) h
    obtain ⟨s, hs⟩ : ∃ s, i - k = s + 1 := ⟨i - k - 1, by omega⟩
    have hs' : i - (k + 1) = s := by omega
    rw [hs'] at this
    rw [hs]
    simpa using this

theorem remArgs_length : ∀ (args : List Arg) (m : PInst) (k : Nat), args.length = m.length →
    (remArgs args m).length = (keptFrom k m).length
  | [], [], _, _ => rfl
  | [], _ :: _, _, hl => by simp at hl
  | _ :: _, [], _, hl => by simp at hl
  | a :: args, none :: m, k, hl => by
    simp only [remArgs, keptFrom, Option.isNone_none, ↓reduceIte, List.length_cons]
    rw [remArgs_length args m (k + 1) (by simpa using hl)]
  | a :: args, some v :: m, k, hl => by
    simp only [remArgs, keptFrom, Option.isNone_some, Bool.false_eq_true, ↓reduceIte]
    exact remArgs_length args m (k + 1) (by simpa using hl)

end GuppyVerif.Instantiate
