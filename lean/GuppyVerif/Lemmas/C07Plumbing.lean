import GuppyVerif.Lemmas.C07Wire
namespace GuppyVerif.Places

/-! ## Wire level, struct / tuple projections: the `DFContainer` plumbing -/

mutual
/-- the place `p` of type `ty` is stored leaf by leaf (every struct/tuple level unpacked) and
    the leaves carry the parts of `v` -/
def Unpacked (cs : CS) (env : List W) : Ty → PlaceId → V → Prop
  | .tup ts, p, v => cs.find p = none ∧ ∃ vs, v = .tup vs ∧ UnpackedL cs env ts p 0 vs
  | .q, p, v => ∃ w, cs.find p = some w ∧ env[w]? = some (.val v)
  | .c, p, v => ∃ w, cs.find p = some w ∧ env[w]? = some (.val v)
  | .arr _, p, v => ∃ w, cs.find p = some w ∧ env[w]? = some (.val v)
def UnpackedL (cs : CS) (env : List W) : List Ty → PlaceId → Nat → List V → Prop
  | [], _, _, [] => True
  | t :: ts, p, k, v :: vs => Unpacked cs env t (p ++ [.proj k]) v ∧ UnpackedL cs env ts p (k + 1) vs
  | [], _, _, _ :: _ => False
  | _ :: _, _, _, [] => False
end

mutual
/-- `v` has the tuple structure of `ty` down to its leaf places (arrays and qubits are leaves) -/
def Shape : Ty → V → Prop
  | .tup ts, v => ∃ vs, v = .tup vs ∧ ShapeL ts vs
  | .q, _ => True
  | .c, _ => True
  | .arr _, _ => True
def ShapeL : List Ty → List V → Prop
  | [], [] => True
  | t :: ts, v :: vs => Shape t v ∧ ShapeL ts vs
  | [], _ :: _ => False
  | _ :: _, [] => False
end

theorem ShapeL_length : ∀ (ts : List Ty) (vs : List V), ShapeL ts vs → vs.length = ts.length
  | [], [], _ => rfl
  | t :: ts, v :: vs, h => by
    simp only [ShapeL] at h
    simp [ShapeL_length ts vs h.2]
  | [], _ :: _, h => by simp [ShapeL] at h
  | _ :: _, [], h => by simp [ShapeL] at h

/-- `q` is `p` followed by struct/tuple projections only (no subscript) -/
def ProjExt (p q : PlaceId) : Prop := ∃ ks : List Nat, q = p ++ ks.map .proj

theorem ProjExt.refl (p : PlaceId) : ProjExt p p := ⟨[], by simp⟩
theorem ProjExt.prefix {p q : PlaceId} (h : ProjExt p q) : p <+: q := by
  obtain ⟨ks, rfl⟩ := h; exact List.prefix_append _ _
theorem ProjExt.of_snoc {p q : PlaceId} {k : Nat} (h : ProjExt (p ++ [.proj k]) q) : ProjExt p q := by
  obtain ⟨ks, rfl⟩ := h; exact ⟨k :: ks, by simp⟩

mutual
theorem Unpacked_frame (cs cs' : CS) (env d : List W) :
    ∀ (ty : Ty) (p : PlaceId) (v : V), (∀ q, ProjExt p q → cs'.find q = cs.find q) →
      Unpacked cs env ty p v → Unpacked cs' (env ++ d) ty p v
  | .tup ts, p, v, hf, h => by
    simp only [Unpacked] at h ⊢
    obtain ⟨h0, vs, hv, hl⟩ := h
    exact ⟨by rw [hf p (ProjExt.refl p)]; exact h0, vs, hv,
      UnpackedL_frame cs cs' env d ts p 0 vs
        (fun q k' _ hq => hf q hq.of_snoc) hl⟩
  | .q, p, v, hf, h => by
    simp only [Unpacked] at h ⊢
    obtain ⟨w, h1, h2⟩ := h
    exact ⟨w, by rw [hf p (ProjExt.refl p)]; exact h1, getElem?_append_some' h2⟩
  | .c, p, v, hf, h => by
    simp only [Unpacked] at h ⊢
    obtain ⟨w, h1, h2⟩ := h
    exact ⟨w, by rw [hf p (ProjExt.refl p)]; exact h1, getElem?_append_some' h2⟩
  | .arr _, p, v, hf, h => by
    simp only [Unpacked] at h ⊢
    obtain ⟨w, h1, h2⟩ := h
    exact ⟨w, by rw [hf p (ProjExt.refl p)]; exact h1, getElem?_append_some' h2⟩
theorem UnpackedL_frame (cs cs' : CS) (env d : List W) :
    ∀ (ts : List Ty) (p : PlaceId) (k : Nat) (vs : List V),
      (∀ q k', k ≤ k' → ProjExt (p ++ [.proj k']) q → cs'.find q = cs.find q) →
      UnpackedL cs env ts p k vs → UnpackedL cs' (env ++ d) ts p k vs
  | [], _, _, [], _, _ => by simp [UnpackedL]
  | t :: ts, p, k, v :: vs, hf, h => by
    simp only [UnpackedL] at h ⊢
    exact ⟨Unpacked_frame cs cs' env d t (p ++ [.proj k]) v
        (fun q hq => hf q k (Nat.le_refl k) hq) h.1,
      UnpackedL_frame cs cs' env d ts p (k + 1) vs
        (fun q k' hk' hq => hf q k' (by omega) hq) h.2⟩
  | [], _, _, _ :: _, _, h => by simp [UnpackedL] at h
  | _ :: _, _, _, [], _, h => by simp [UnpackedL] at h
end

theorem CS.find_pop (s : CS) (p q : PlaceId) :
    (s.pop p).find q = if q = p then none else s.find q := by
  unfold CS.find CS.pop
  by_cases h : q = p
  · subst h
    simp only [↓reduceIte, Option.map_eq_none_iff, List.find?_eq_none]
    intro x hx
    simp at hx
    simp [hx.2]
  · simp only [h, ↓reduceIte]
    rw [List.find?_filter]
    have : (fun a : PlaceId × Nat => decide ((a.1 != p) = true ∧ (a.1 == q) = true))
        = (fun a => a.1 == q) := by
      funext a
      by_cases ha : a.1 = q
      · simp [ha, h]
      · simp [ha]
    rw [this]

theorem prefix_snoc_inj {β} {p q : List β} {a b : β} (h1 : (p ++ [a]) <+: q) (h2 : (p ++ [b]) <+: q) :
    a = b := by
  obtain ⟨r1, rfl⟩ := h1
  obtain ⟨r2, h⟩ := h2
  have := congrArg (fun l => l[p.length]?) h
  simp at this
  exact this.symm

theorem range_wires (env : List W) (l : List W) :
    ((List.range l.length).map (· + env.length)).map (fun w => (env ++ l)[w]?) = l.map some := by
  apply List.ext_getElem?
  intro i
  simp only [List.getElem?_map, List.getElem?_range]
  by_cases hi : i < l.length
  · simp [hi, List.getElem?_append_right, Nat.add_comm]
  · simp [hi]

theorem Sem_set {f : V → V} {inputs : List W} {cs : CS} {env : List W} (p : PlaceId) (w : Nat)
    (h : Sem f inputs cs env) : Sem f inputs (cs.set p w) env := h
theorem Sem_pop {f : V → V} {inputs : List W} {cs : CS} {env : List W} (p : PlaceId)
    (h : Sem f inputs cs env) : Sem f inputs (cs.pop p) env := h

section plumbing
variable (f : V → V) (inputs : List W)

mutual
/-- `DFContainer.__setitem__`: binding a place of struct/tuple type to a wire unpacks it down to
    its leaves; nothing outside the place is touched -/
theorem dset_spec : ∀ (ty : Ty) (p : PlaceId) (w : Nat) (cs : CS) (env : List W) (v : V),
    Sem f inputs cs env → env[w]? = some (.val v) → Shape ty v →
    ∃ d, Sem f inputs (dset ty p w cs) (env ++ d) ∧ Unpacked (dset ty p w cs) (env ++ d) ty p v ∧
      (dset ty p w cs).bad = cs.bad ∧ ∀ q, ¬ p <+: q → (dset ty p w cs).find q = cs.find q
  | .tup ts, p, w, cs, env, v, hS, hw, hsh => by
    simp only [Shape] at hsh
    obtain ⟨vs, rfl, hshl⟩ := hsh
    have hlen := ShapeL_length ts vs hshl
    obtain ⟨S1, o1⟩ := Sem_addOp f inputs cs env .unpack [w] ts.length [.val (.tup vs)]
      (vs.map .val) hS (lookupW_of _ _ _ (by simp only [List.map_cons, List.map_nil, hw]))
      rfl (by simp [hlen])
    have hws : ((cs.addOp .unpack [w] ts.length).2).map (fun x => (env ++ vs.map W.val)[x]?)
        = vs.map (fun v => some (W.val v)) := by
      rw [o1, ← hlen]
      have := range_wires env (vs.map W.val)
      simp only [List.length_map, List.map_map] at this
      simpa [Function.comp_def] using this
    obtain ⟨d2, S2, U2, b2, F2⟩ := dsetChildren_spec ts p 0 _ _ _ vs S1 hws hshl
    refine ⟨vs.map .val ++ d2, ?_, ?_, ?_, ?_⟩
    · simp only [dset]; rw [← List.append_assoc]; exact Sem_pop p S2
    · simp only [dset, Unpacked]
      refine ⟨by simp [CS.find_pop], vs, rfl, ?_⟩
      rw [← List.append_assoc]
      have := UnpackedL_frame _ ((dsetChildren ts p 0 (cs.addOp .unpack [w] ts.length).2
          (cs.addOp .unpack [w] ts.length).1).pop p) _ [] ts p 0 vs
        (fun q k' _ hq => by
          rw [CS.find_pop, if_neg]
          intro e
          subst e
          have := List.IsPrefix.length_le hq.prefix
          simp at this
          omega) U2
      simpa using this
    · simp only [dset]; exact b2
    · intro q hq
      simp only [dset]
      rw [CS.find_pop, if_neg (fun e => hq (by subst e; exact List.prefix_refl _)),
        F2 q (fun k' _ hk' => hq (List.IsPrefix.trans (List.prefix_append p _) hk'))]
      rfl
  | .q, p, w, cs, env, v, hS, hw, _ => by
    refine ⟨[], by simpa [dset] using Sem_set p w hS, ?_, rfl, ?_⟩
    · simp only [dset, Unpacked]
      exact ⟨w, by simp [CS.find_set], by simpa using hw⟩
    · intro q hq
      simp only [dset]
      rw [CS.find_set, if_neg (fun e => hq (by subst e; exact List.prefix_refl _))]
  | .c, p, w, cs, env, v, hS, hw, _ => by
    refine ⟨[], by simpa [dset] using Sem_set p w hS, ?_, rfl, ?_⟩
    · simp only [dset, Unpacked]
      exact ⟨w, by simp [CS.find_set], by simpa using hw⟩
    · intro q hq
      simp only [dset]
      rw [CS.find_set, if_neg (fun e => hq (by subst e; exact List.prefix_refl _))]
  | .arr _, p, w, cs, env, v, hS, hw, _ => by
    refine ⟨[], by simpa [dset] using Sem_set p w hS, ?_, rfl, ?_⟩
    · simp only [dset, Unpacked]
      exact ⟨w, by simp [CS.find_set], by simpa using hw⟩
    · intro q hq
      simp only [dset]
      rw [CS.find_set, if_neg (fun e => hq (by subst e; exact List.prefix_refl _))]
theorem dsetChildren_spec : ∀ (ts : List Ty) (p : PlaceId) (k : Nat) (ws : List Nat) (cs : CS)
    (env : List W) (vs : List V), Sem f inputs cs env →
    ws.map (fun x => env[x]?) = vs.map (fun v => some (W.val v)) → ShapeL ts vs →
    ∃ d, Sem f inputs (dsetChildren ts p k ws cs) (env ++ d) ∧
      UnpackedL (dsetChildren ts p k ws cs) (env ++ d) ts p k vs ∧
      (dsetChildren ts p k ws cs).bad = cs.bad ∧
      ∀ q, (∀ k', k ≤ k' → ¬ (p ++ [.proj k']) <+: q) → (dsetChildren ts p k ws cs).find q = cs.find q
  | [], p, k, ws, cs, env, [], hS, _, _ => by
    exact ⟨[], by simpa [dsetChildren] using hS, by simp [UnpackedL], rfl, fun _ _ => rfl⟩
  | t :: ts, p, k, ws, cs, env, v :: vs, hS, hws, hsh => by
    simp only [ShapeL] at hsh
    cases ws with
    | nil => simp at hws
    | cons w0 ws' =>
      simp only [List.map_cons, List.cons.injEq] at hws
      obtain ⟨d1, S1, U1, b1, F1⟩ := dset_spec t (p ++ [.proj k]) w0 cs env v hS hws.1 hsh.1
      have hws' : ws'.map (fun x => (env ++ d1)[x]?) = vs.map (fun v => some (W.val v)) := by
        rw [← hws.2]
        apply List.map_congr_left
        intro x hx
        have : (ws'.map (fun x => env[x]?)) = vs.map (fun v => some (W.val v)) := hws.2
        have hx' : env[x]? ∈ ws'.map (fun x => env[x]?) := List.mem_map_of_mem hx
        rw [this] at hx'
        obtain ⟨v', _, hv'⟩ := List.mem_map.mp hx'
        rw [← hv']; exact getElem?_append_some' hv'.symm
      obtain ⟨d2, S2, U2, b2, F2⟩ := dsetChildren_spec ts p (k + 1) ws' _ _ vs S1 hws' hsh.2
      refine ⟨d1 ++ d2, ?_, ?_, ?_, ?_⟩
      · simp only [dsetChildren, List.headD_cons, List.tail_cons]
        rw [← List.append_assoc]; exact S2
      · simp only [dsetChildren, List.headD_cons, List.tail_cons, UnpackedL]
        rw [← List.append_assoc]
        refine ⟨?_, U2⟩
        exact Unpacked_frame _ _ _ d2 t (p ++ [.proj k]) v
          (fun q hq => F2 q (fun k' hk' hk'q => by
            have := prefix_snoc_inj hq.prefix hk'q
            simp at this; omega)) U1
      · simp only [dsetChildren, List.headD_cons, List.tail_cons]; rw [b2, b1]
      · intro q hq
        simp only [dsetChildren, List.headD_cons, List.tail_cons]
        rw [F2 q (fun k' hk' => hq k' (by omega)), F1 q (hq k (Nat.le_refl k))]
  | [], _, _, _, _, _, _ :: _, _, _, hsh => by simp [ShapeL] at hsh
  | _ :: _, _, _, _, _, _, [], _, _, hsh => by simp [ShapeL] at hsh
end

theorem valsOf_vals : ∀ (vs : List V), valsOf (vs.map W.val) = some vs
  | [] => rfl
  | v :: vs => by simp [valsOf, valsOf_vals vs]

theorem stepW_pack (vs : List V) : stepW f .pack (vs.map W.val) = .ok [.val (.tup vs)] := by
  simp [stepW, valsOf_vals vs, pure, Except.pure]

theorem popLin_find : ∀ (ts : List Ty) (p : PlaceId) (k : Nat) (s : CS) (q : PlaceId), ¬ p <+: q →
    (popLin ts p k s).find q = s.find q
  | [], _, _, _, _, _ => rfl
  | t :: ts, p, k, s, q, hq => by
    simp only [popLin]
    rw [popLin_find ts p (k + 1) _ q hq]
    by_cases ht : t.lin
    · simp only [ht, ↓reduceIte]
      rw [CS.find_pop, if_neg]
      intro e
      exact hq (e ▸ List.prefix_append p _)
    · simp [ht]

theorem popLin_same : ∀ (ts : List Ty) (p : PlaceId) (k : Nat) (s : CS),
    (popLin ts p k s).instrs = s.instrs ∧ (popLin ts p k s).next = s.next ∧
    (popLin ts p k s).bad = s.bad
  | [], _, _, _ => ⟨rfl, rfl, rfl⟩
  | t :: ts, p, k, s => by
    simp only [popLin]
    obtain ⟨h1, h2, h3⟩ := popLin_same ts p (k + 1) (if t.lin then s.pop (p ++ [.proj k]) else s)
    by_cases ht : t.lin <;> simp only [ht, ↓reduceIte, Bool.false_eq_true] at h1 h2 h3 ⊢ <;>
      exact ⟨h1, h2, h3⟩

theorem Sem_popLin {cs : CS} {env : List W} (ts : List Ty) (p : PlaceId) (k : Nat)
    (h : Sem f inputs cs env) : Sem f inputs (popLin ts p k cs) env := by
  obtain ⟨h1, h2, _⟩ := popLin_same ts p k cs
  unfold Sem at h ⊢
  rw [h1, h2]; exact h

mutual
/-- `DFContainer.__getitem__` on a place stored leaf by leaf: the struct/tuple levels are packed
    again, the resulting wire carries the value; nothing outside the place is touched -/
theorem dget_spec : ∀ (ty : Ty) (p : PlaceId) (cs : CS) (env : List W) (v : V),
    Sem f inputs cs env → Unpacked cs env ty p v →
    ∃ d, Sem f inputs (dget ty p cs).1 (env ++ d) ∧
      (env ++ d)[(dget ty p cs).2]? = some (.val v) ∧ (dget ty p cs).1.bad = cs.bad ∧
      ∀ q, ¬ p <+: q → (dget ty p cs).1.find q = cs.find q
  | .tup ts, p, cs, env, v, hS, hU => by
    simp only [Unpacked] at hU
    obtain ⟨hnone, vs, rfl, hUL⟩ := hU
    obtain ⟨d1, S1, hws, b1, F1⟩ := dgetChildren_spec ts p 0 cs env vs hS hUL
    obtain ⟨S2, o2⟩ := Sem_addOp f inputs _ _ .pack (dgetChildren ts p 0 cs).2 1 (vs.map .val)
      [.val (.tup vs)] S1 (lookupW_of _ _ _ (by rw [hws]; simp [Function.comp_def]))
      (stepW_pack f vs) rfl
    have ho : ((dgetChildren ts p 0 cs).1.addOp .pack (dgetChildren ts p 0 cs).2 1).2.headD 0
        = (env ++ d1).length := by rw [o2]; simp
    refine ⟨d1 ++ [.val (.tup vs)], ?_, ?_, ?_, ?_⟩
    · simp only [dget, hnone]
      rw [← List.append_assoc]
      exact Sem_set _ _ (Sem_popLin f inputs ts p 0 S2)
    · simp only [dget, hnone, ho]
      rw [← List.append_assoc]
      exact app_idx0 _ _
    · simp only [dget, hnone]
      rw [CS.set_bad, (popLin_same ts p 0 _).2.2]; exact b1
    · intro q hq
      simp only [dget, hnone]
      rw [CS.find_set, if_neg (fun e => hq (by subst e; exact List.prefix_refl _)),
        popLin_find ts p 0 _ q hq]
      exact F1 q (fun k' _ hk' => hq (List.IsPrefix.trans (List.prefix_append p _) hk'))
  | .q, p, cs, env, v, hS, hU => by
    simp only [Unpacked] at hU
    obtain ⟨w, h1, h2⟩ := hU
    exact ⟨[], by simpa [dget_found _ _ _ _ h1] using hS, by simpa [dget_found _ _ _ _ h1] using h2,
      by simp [dget_found _ _ _ _ h1], fun q _ => by simp [dget_found _ _ _ _ h1]⟩
  | .c, p, cs, env, v, hS, hU => by
    simp only [Unpacked] at hU
    obtain ⟨w, h1, h2⟩ := hU
    exact ⟨[], by simpa [dget_found _ _ _ _ h1] using hS, by simpa [dget_found _ _ _ _ h1] using h2,
      by simp [dget_found _ _ _ _ h1], fun q _ => by simp [dget_found _ _ _ _ h1]⟩
  | .arr _, p, cs, env, v, hS, hU => by
    simp only [Unpacked] at hU
    obtain ⟨w, h1, h2⟩ := hU
    exact ⟨[], by simpa [dget_found _ _ _ _ h1] using hS, by simpa [dget_found _ _ _ _ h1] using h2,
      by simp [dget_found _ _ _ _ h1], fun q _ => by simp [dget_found _ _ _ _ h1]⟩
theorem dgetChildren_spec : ∀ (ts : List Ty) (p : PlaceId) (k : Nat) (cs : CS) (env : List W)
    (vs : List V), Sem f inputs cs env → UnpackedL cs env ts p k vs →
    ∃ d, Sem f inputs (dgetChildren ts p k cs).1 (env ++ d) ∧
      (dgetChildren ts p k cs).2.map (fun x => (env ++ d)[x]?) = vs.map (fun v => some (W.val v)) ∧
      (dgetChildren ts p k cs).1.bad = cs.bad ∧
      ∀ q, (∀ k', k ≤ k' → ¬ (p ++ [.proj k']) <+: q) → (dgetChildren ts p k cs).1.find q = cs.find q
  | [], p, k, cs, env, [], hS, _ => by
    exact ⟨[], by simpa [dgetChildren] using hS, by simp [dgetChildren], rfl, fun _ _ => rfl⟩
  | t :: ts, p, k, cs, env, v :: vs, hS, hU => by
    simp only [UnpackedL] at hU
    obtain ⟨d1, S1, hw, b1, F1⟩ := dget_spec t (p ++ [.proj k]) cs env v hS hU.1
    have hU' : UnpackedL (dget t (p ++ [.proj k]) cs).1 (env ++ d1) ts p (k + 1) vs :=
      UnpackedL_frame _ _ _ d1 ts p (k + 1) vs
        (fun q k' hk' hq => F1 q (fun hk => by
          have := prefix_snoc_inj hk hq.prefix
          simp at this; omega)) hU.2
    obtain ⟨d2, S2, hws, b2, F2⟩ := dgetChildren_spec ts p (k + 1) _ _ vs S1 hU'
    refine ⟨d1 ++ d2, ?_, ?_, ?_, ?_⟩
    · simp only [dgetChildren]; rw [← List.append_assoc]; exact S2
    · simp only [dgetChildren, List.map_cons]
      rw [← List.append_assoc, hws, getElem?_append_some' hw]
    · simp only [dgetChildren]; rw [b2, b1]
    · intro q hq
      simp only [dgetChildren]
      rw [F2 q (fun k' hk' => hq k' (by omega)), F1 q (hq k (Nat.le_refl k))]
  | [], _, _, _, _, _ :: _, _, hU => by simp [UnpackedL] at hU
  | _ :: _, _, _, _, _, [], _, hU => by simp [UnpackedL] at hU
end

end plumbing

/-! ### looking at / updating a sub-place of an unpacked container -/

theorem UnpackedL_get (cs : CS) (env : List W) : ∀ (ts : List Ty) (p : PlaceId) (k0 : Nat) (vs : List V)
    (i : Nat) (t : Ty), UnpackedL cs env ts p k0 vs → ts[i]? = some t →
    ∃ vi, vs[i]? = some vi ∧ Unpacked cs env t (p ++ [.proj (k0 + i)]) vi
  | [], _, _, _, i, t, _, ht => by simp at ht
  | t0 :: ts, p, k0, [], i, t, h, _ => by simp [UnpackedL] at h
  | t0 :: ts, p, k0, v :: vs, 0, t, h, ht => by
    simp only [UnpackedL] at h
    simp at ht; subst ht
    exact ⟨v, rfl, by simpa using h.1⟩
  | t0 :: ts, p, k0, v :: vs, i + 1, t, h, ht => by
    simp only [UnpackedL] at h
    obtain ⟨vi, h1, h2⟩ := UnpackedL_get cs env ts p (k0 + 1) vs i t h.2 (by simpa using ht)
    exact ⟨vi, by simpa using h1, by
      have : k0 + 1 + i = k0 + (i + 1) := by omega
      rw [this] at h2; exact h2⟩

/-- focus: a sub-place (reached by projections) of an unpacked place is unpacked -/
theorem Unpacked_focus (cs : CS) (env : List W) : ∀ (projs : List Nat) (ty ty' : Ty) (p : PlaceId) (v : V),
    tyProj ty projs = some ty' → Unpacked cs env ty p v →
    ∃ v', getP (projs.map .proj) v = some v' ∧ Unpacked cs env ty' (p ++ projs.map .proj) v'
  | [], ty, ty', p, v, ht, h => by
    simp [tyProj] at ht; subst ht
    exact ⟨v, rfl, by simpa using h⟩
  | k :: r, ty, ty', p, v, ht, h => by
    cases ty with
    | tup ts =>
      simp only [tyProj] at ht
      cases htk : ts[k]? with
      | none => simp [htk] at ht
      | some tk =>
        simp only [htk] at ht
        simp only [Unpacked] at h
        obtain ⟨_, vs, rfl, hl⟩ := h
        obtain ⟨vk, hvk, hUk⟩ := UnpackedL_get cs env ts p 0 vs k tk hl htk
        simp only [Nat.zero_add] at hUk
        obtain ⟨v', hg, hU⟩ := Unpacked_focus cs env r tk ty' (p ++ [.proj k]) vk ht hUk
        exact ⟨v', by simp [getP, hvk, hg], by simpa [List.append_assoc] using hU⟩
    | q => simp [tyProj] at ht
    | c => simp [tyProj] at ht
    | arr _ => simp [tyProj] at ht

theorem not_prefix_of_snoc_ne {p q : PlaceId} {a b : Nat} (hab : a ≠ b)
    (h : ProjExt (p ++ [.proj a]) q) : ¬ (p ++ [.proj b]) <+: q := by
  intro hb
  have := prefix_snoc_inj h.prefix hb
  simp at this; exact hab this

theorem UnpackedL_set (cs cs' : CS) (env d : List W) : ∀ (ts : List Ty) (p : PlaceId) (k0 : Nat)
    (vs : List V) (i : Nat) (ti : Ty) (vi2 : V), UnpackedL cs env ts p k0 vs → ts[i]? = some ti →
    (∀ q, ¬ (p ++ [.proj (k0 + i)]) <+: q → cs'.find q = cs.find q) →
    Unpacked cs' (env ++ d) ti (p ++ [.proj (k0 + i)]) vi2 →
    UnpackedL cs' (env ++ d) ts p k0 (vs.set i vi2)
  | [], _, _, _, i, _, _, _, ht, _, _ => by simp at ht
  | t0 :: ts, p, k0, [], i, _, _, h, _, _, _ => by simp [UnpackedL] at h
  | t0 :: ts, p, k0, v :: vs, 0, ti, vi2, h, ht, hf, hn => by
    simp only [UnpackedL] at h
    simp at ht; subst ht
    simp only [List.set_cons_zero, UnpackedL]
    refine ⟨by simpa using hn, ?_⟩
    exact UnpackedL_frame cs cs' env d ts p (k0 + 1) vs
      (fun q k' hk' hq => hf q (by simpa using not_prefix_of_snoc_ne (by omega) hq)) h.2
  | t0 :: ts, p, k0, v :: vs, i + 1, ti, vi2, h, ht, hf, hn => by
    simp only [UnpackedL] at h
    simp only [List.set_cons_succ, UnpackedL]
    have e : k0 + 1 + i = k0 + (i + 1) := by omega
    refine ⟨?_, ?_⟩
    · exact Unpacked_frame cs cs' env d t0 (p ++ [.proj k0]) v
        (fun q hq => hf q (not_prefix_of_snoc_ne (by omega) hq)) h.1
    · exact UnpackedL_set cs cs' env d ts p (k0 + 1) vs i ti vi2 h.2 (by simpa using ht)
        (by rw [e]; exact hf) (by rw [e]; exact hn)

/-- update: re-binding a sub-place of an unpacked place yields the place unpacked with the lens update -/
theorem Unpacked_update (cs cs' : CS) (env d : List W) : ∀ (projs : List Nat) (ty ty' : Ty) (p : PlaceId)
    (v new : V), tyProj ty projs = some ty' → Unpacked cs env ty p v →
    (∀ q, ¬ (p ++ projs.map .proj) <+: q → cs'.find q = cs.find q) →
    Unpacked cs' (env ++ d) ty' (p ++ projs.map .proj) new →
    ∃ v2, putP (projs.map .proj) new v = some v2 ∧ Unpacked cs' (env ++ d) ty p v2
  | [], ty, ty', p, v, new, ht, _, _, hn => by
    simp [tyProj] at ht; subst ht
    exact ⟨new, rfl, by simpa using hn⟩
  | k :: r, ty, ty', p, v, new, ht, h, hf, hn => by
    cases ty with
    | tup ts =>
      simp only [tyProj] at ht
      cases htk : ts[k]? with
      | none => simp [htk] at ht
      | some tk =>
        simp only [htk] at ht
        simp only [Unpacked] at h
        obtain ⟨hnone, vs, rfl, hl⟩ := h
        obtain ⟨vk, hvk, hUk⟩ := UnpackedL_get cs env ts p 0 vs k tk hl htk
        simp only [Nat.zero_add] at hUk
        have hassoc : p ++ [PStep.proj k] ++ r.map PStep.proj = p ++ (k :: r).map PStep.proj := by simp
        obtain ⟨vk2, hput, hU2⟩ := Unpacked_update cs cs' env d r tk ty' (p ++ [.proj k]) vk new ht hUk
          (by rw [hassoc]; exact hf) (by rw [hassoc]; exact hn)
        refine ⟨.tup (vs.set k vk2), by simp [putP, hvk, hput], ?_⟩
        simp only [Unpacked]
        refine ⟨?_, vs.set k vk2, rfl, ?_⟩
        · rw [hf p (fun hp => by
            have := List.IsPrefix.length_le hp
            simp at this; omega)]
          exact hnone
        · have := UnpackedL_set cs cs' env d ts p 0 vs k tk vk2 hl htk
            (fun q hq => hf q (fun hp => hq (by
              rw [← hassoc] at hp
              simpa using List.IsPrefix.trans (List.prefix_append _ _) hp)))
            (by simpa using hU2)
          exact this
    | q => simp [tyProj] at ht
    | c => simp [tyProj] at ht
    | arr _ => simp [tyProj] at ht

/-! ### stores that conform to a type (below array boundaries as well) -/

mutual
/-- `v` is a value of type `ty`: tuples have the right components, every array cell is lent (`hole`)
    or conforms to the element type; leaves are opaque -/
def Conf : Ty → V → Prop
  | .tup ts, v => ∃ vs, v = .tup vs ∧ ConfL ts vs
  | .q, _ => True
  | .c, _ => True
  | .arr t, v => ∃ cells, v = .arr cells ∧ ∀ c ∈ cells, c.isHole = true ∨ Conf t c
def ConfL : List Ty → List V → Prop
  | [], [] => True
  | t :: ts, v :: vs => Conf t v ∧ ConfL ts vs
  | [], _ :: _ => False
  | _ :: _, [] => False
end

mutual
theorem Conf_shape : ∀ (ty : Ty) (v : V), Conf ty v → Shape ty v
  | .tup ts, v, h => by
    simp only [Conf] at h
    obtain ⟨vs, rfl, hl⟩ := h
    simp only [Shape]
    exact ⟨vs, rfl, ConfL_shape ts vs hl⟩
  | .q, _, _ => by simp [Shape]
  | .c, _, _ => by simp [Shape]
  | .arr _, _, _ => by simp [Shape]
theorem ConfL_shape : ∀ (ts : List Ty) (vs : List V), ConfL ts vs → ShapeL ts vs
  | [], [], _ => by simp [ShapeL]
  | t :: ts, v :: vs, h => by
    simp only [ConfL] at h
    simp only [ShapeL]
    exact ⟨Conf_shape t v h.1, ConfL_shape ts vs h.2⟩
  | [], _ :: _, h => by simp [ConfL] at h
  | _ :: _, [], h => by simp [ConfL] at h
end

theorem ConfL_get : ∀ (ts : List Ty) (vs : List V) (i : Nat) (t : Ty), ConfL ts vs → ts[i]? = some t →
    ∃ vi, vs[i]? = some vi ∧ Conf t vi
  | [], _, i, t, _, ht => by simp at ht
  | _ :: _, [], _, _, h, _ => by simp [ConfL] at h
  | t0 :: ts, v :: vs, 0, t, h, ht => by
    simp only [ConfL] at h; simp at ht; subst ht; exact ⟨v, rfl, h.1⟩
  | t0 :: ts, v :: vs, i + 1, t, h, ht => by
    simp only [ConfL] at h
    obtain ⟨vi, h1, h2⟩ := ConfL_get ts vs i t h.2 (by simpa using ht)
    exact ⟨vi, by simpa using h1, h2⟩

theorem ConfL_set : ∀ (ts : List Ty) (vs : List V) (i : Nat) (t : Ty) (vi : V), ConfL ts vs →
    ts[i]? = some t → Conf t vi → ConfL ts (vs.set i vi)
  | [], _, i, t, _, _, ht, _ => by simp at ht
  | _ :: _, [], _, _, _, h, _, _ => by simp [ConfL] at h
  | t0 :: ts, v :: vs, 0, t, vi, h, ht, hc => by
    simp only [ConfL] at h; simp at ht; subst ht
    simp only [List.set_cons_zero, ConfL]; exact ⟨hc, h.2⟩
  | t0 :: ts, v :: vs, i + 1, t, vi, h, ht, hc => by
    simp only [ConfL] at h
    simp only [List.set_cons_succ, ConfL]
    exact ⟨h.1, ConfL_set ts vs i t vi h.2 (by simpa using ht) hc⟩

/-- projections of a conforming value conform -/
theorem Conf_focus : ∀ (projs : List Nat) (ty ty' : Ty) (v v' : V), tyProj ty projs = some ty' →
    Conf ty v → getP (projs.map .proj) v = some v' → Conf ty' v'
  | [], ty, ty', v, v', ht, h, hg => by
    simp [tyProj] at ht; subst ht
    simp [getP] at hg; subst hg; exact h
  | k :: r, ty, ty', v, v', ht, h, hg => by
    cases ty with
    | tup ts =>
      simp only [tyProj] at ht
      cases htk : ts[k]? with
      | none => simp [htk] at ht
      | some tk =>
        simp only [htk] at ht
        simp only [Conf] at h
        obtain ⟨vs, rfl, hl⟩ := h
        obtain ⟨vk, hvk, hck⟩ := ConfL_get ts vs k tk hl htk
        simp only [List.map_cons, getP, hvk] at hg
        exact Conf_focus r tk ty' vk v' ht hck hg
    | q => simp [tyProj] at ht
    | c => simp [tyProj] at ht
    | arr _ => simp [tyProj] at ht

/-- replacing a projection of a conforming value by a conforming value conforms -/
theorem Conf_update : ∀ (projs : List Nat) (ty ty' : Ty) (v new v2 : V), tyProj ty projs = some ty' →
    Conf ty v → Conf ty' new → putP (projs.map .proj) new v = some v2 → Conf ty v2
  | [], ty, ty', v, new, v2, ht, _, hn, hp => by
    simp [tyProj] at ht; subst ht
    simp [putP] at hp; subst hp; exact hn
  | k :: r, ty, ty', v, new, v2, ht, h, hn, hp => by
    cases ty with
    | tup ts =>
      simp only [tyProj] at ht
      cases htk : ts[k]? with
      | none => simp [htk] at ht
      | some tk =>
        simp only [htk] at ht
        simp only [Conf] at h
        obtain ⟨vs, rfl, hl⟩ := h
        obtain ⟨vk, hvk, hck⟩ := ConfL_get ts vs k tk hl htk
        simp only [List.map_cons, putP, hvk] at hp
        cases hpk : putP (r.map .proj) new vk with
        | none => simp [hpk] at hp
        | some vk2 =>
          simp only [hpk, Option.some.injEq] at hp
          subst hp
          simp only [Conf]
          exact ⟨vs.set k vk2, rfl, ConfL_set ts vs k tk vk2 hl htk
            (Conf_update r tk ty' vk new vk2 ht hck hn hpk)⟩
    | q => simp [tyProj] at ht
    | c => simp [tyProj] at ht
    | arr _ => simp [tyProj] at ht

theorem Conf_arr_cell (t : Ty) (cells : List V) (i : Nat) (e : V) (h : Conf (.arr t) (.arr cells))
    (hc : cells[i]? = some e) (he : e.isHole = false) : Conf t e := by
  simp only [Conf] at h
  obtain ⟨cells', hcs, hall⟩ := h
  cases hcs
  rcases hall e (List.mem_of_getElem? hc) with h1 | h1
  · rw [he] at h1; cases h1
  · exact h1

theorem Conf_arr_set (t : Ty) (cells : List V) (i : Nat) (new : V) (h : Conf (.arr t) (.arr cells))
    (hn : new.isHole = true ∨ Conf t new) : Conf (.arr t) (.arr (cells.set i new)) := by
  simp only [Conf] at h ⊢
  obtain ⟨cells', hcs, hall⟩ := h
  cases hcs
  refine ⟨_, rfl, fun c hc => ?_⟩
  rcases List.mem_or_eq_of_mem_set hc with h1 | h1
  · exact hall c h1
  · rw [h1]; exact hn

/-! ### levels of an arbitrary path -/

/-- type of container `k` (`0` = root, `k` = element lent at subscript `k`) -/
def cTyAt : Ty → List Chunk → Nat → Ty
  | t, _, 0 => t
  | t, [], _ + 1 => t
  | t, c :: cs, k + 1 => cTyAt ((arrElemTy ((tyProj t c.projs).getD .q)).getD .q) cs k

/-- place id of container `k` -/
def cIdAt : PlaceId → Nat → List Chunk → Nat → PlaceId
  | pid, _, _, 0 => pid
  | pid, _, [], _ + 1 => pid
  | pid, j0, c :: cs, k + 1 => cIdAt (pid ++ c.projs.map .proj ++ [.sub j0]) (j0 + 1) cs k

theorem mkLevels_get : ∀ (cs : List Chunk) (t : Ty) (pid : PlaceId) (j0 k : Nat) (c : Chunk),
    cs[k]? = some c →
    (mkLevels t pid cs j0)[k]? = some ⟨cIdAt pid j0 cs k, cTyAt t cs k, c.projs, j0 + k⟩
  | [], _, _, _, k, c, h => by simp at h
  | c0 :: cs, t, pid, j0, 0, c, h => by
    simp at h; subst h; simp [mkLevels, cIdAt, cTyAt]
  | c0 :: cs, t, pid, j0, k + 1, c, h => by
    have ih := mkLevels_get cs ((arrElemTy ((tyProj t c0.projs).getD .q)).getD .q)
      (pid ++ c0.projs.map .proj ++ [.sub j0]) (j0 + 1) k c (by simpa using h)
    have e : j0 + 1 + k = j0 + (k + 1) := by omega
    simp only [mkLevels, List.getElem?_cons_succ, Level.elemTy, Level.arrTy, cIdAt, cTyAt]
    rw [ih, e]

/-- the path is well typed under a root of type `t`; `pty` is the type of the place itself -/
def WT : Ty → List Chunk → List Nat → Ty → Prop
  | t, [], tail, pty => tyProj t tail = some pty
  | t, c :: cs, tail, pty => ∃ te, tyProj t c.projs = some (.arr te) ∧ WT te cs tail pty

/-- the executable check used by the harness on every probe is sound for `WT` -/
theorem wtCheck_sound : ∀ (cs : List Chunk) (t : Ty) (tail : List Nat) (pty : Ty),
    wtCheck t cs tail = some pty → WT t cs tail pty
  | [], t, tail, pty, h => by simpa [wtCheck, WT] using h
  | c :: cs, t, tail, pty, h => by
    simp only [wtCheck] at h
    cases hp : tyProj t c.projs with
    | none => simp [hp] at h
    | some ty =>
      cases ty with
      | arr te =>
        simp only [hp] at h
        exact ⟨te, hp, wtCheck_sound cs te tail pty h⟩
      | q => simp [hp] at h
      | c => simp [hp] at h
      | tup _ => simp [hp] at h

theorem cIdAt_succ : ∀ (cs : List Chunk) (pid : PlaceId) (j0 k : Nat) (c : Chunk), cs[k]? = some c →
    cIdAt pid j0 cs (k + 1) = cIdAt pid j0 cs k ++ c.projs.map .proj ++ [.sub (j0 + k)]
  | [], _, _, k, c, h => by simp at h
  | c0 :: cs, pid, j0, 0, c, h => by
    simp at h; subst h; cases cs <;> simp [cIdAt]
  | c0 :: cs, pid, j0, k + 1, c, h => by
    have ih := cIdAt_succ cs (pid ++ c0.projs.map .proj ++ [.sub j0]) (j0 + 1) k c (by simpa using h)
    have e : j0 + 1 + k = j0 + (k + 1) := by omega
    simp only [cIdAt]
    rw [ih, e]

theorem WT_level : ∀ (cs : List Chunk) (t : Ty) (tail : List Nat) (pty : Ty) (k : Nat) (c : Chunk),
    WT t cs tail pty → cs[k]? = some c →
    tyProj (cTyAt t cs k) c.projs = some (.arr (cTyAt t cs (k + 1)))
  | [], _, _, _, k, c, _, h => by simp at h
  | c0 :: cs, t, tail, pty, 0, c, hw, h => by
    simp at h; subst h
    simp only [WT] at hw
    obtain ⟨te, h1, _⟩ := hw
    cases cs <;> simp [cTyAt, h1, arrElemTy]
  | c0 :: cs, t, tail, pty, k + 1, c, hw, h => by
    simp only [WT] at hw
    obtain ⟨te, h1, h2⟩ := hw
    have := WT_level cs te tail pty k c h2 (by simpa using h)
    simpa [cTyAt, h1, arrElemTy] using this

theorem WT_tail : ∀ (cs : List Chunk) (t : Ty) (tail : List Nat) (pty : Ty), WT t cs tail pty →
    tyProj (cTyAt t cs cs.length) tail = some pty
  | [], t, tail, pty, hw => by simpa [WT, cTyAt] using hw
  | c0 :: cs, t, tail, pty, hw => by
    simp only [WT] at hw
    obtain ⟨te, h1, h2⟩ := hw
    have := WT_tail cs te tail pty h2
    simpa [cTyAt, h1, arrElemTy] using this

/-! ### abstract side, arbitrary paths -/

theorem stepA_borrow_inv' (f : V → V) (p : CPath) (j : Nat) (s s2 : Slots)
    (h : stepA f p s (.borrow (j + 1)) = .ok s2) :
    ∃ c e cont, p.chunks[j]? = some c ∧ getP c.steps (s j) = some e ∧ e.isHole = false ∧
      putP c.steps .hole (s j) = some cont ∧ s2 = upd (upd s j cont) (j + 1) e := by
  simp only [stepA, Nat.add_sub_cancel] at h
  cases hc : p.chunks[j]? with
  | none => simp [hc] at h
  | some c =>
    simp only [hc] at h
    cases hg : getP c.steps (s j) with
    | none => simp [hg] at h
    | some e =>
      simp only [hg] at h
      cases he : e.isHole with
      | true => simp [he] at h
      | false =>
        simp only [he, Bool.false_eq_true, ↓reduceIte] at h
        cases hp : putP c.steps .hole (s j) with
        | none => simp [hp] at h
        | some cont =>
          simp only [hp, pure, Except.pure, Except.ok.injEq] at h
          exact ⟨c, e, cont, rfl, hg, he, hp, h.symm⟩

theorem stepA_ret_inv' (f : V → V) (p : CPath) (j : Nat) (s s2 : Slots)
    (h : stepA f p s (.ret (j + 1)) = .ok s2) :
    ∃ c cont, p.chunks[j]? = some c ∧ getP c.steps (s j) = some .hole ∧
      putP c.steps (s (j + 1)) (s j) = some cont ∧ s2 = upd s j cont := by
  simp only [stepA, Nat.add_sub_cancel] at h
  cases hc : p.chunks[j]? with
  | none => simp [hc] at h
  | some c =>
    simp only [hc] at h
    cases hg : getP c.steps (s j) with
    | none => simp [hg] at h
    | some e =>
      simp only [hg] at h
      cases e with
      | hole =>
        simp only [V.isHole, Bool.not_true, Bool.false_eq_true, ↓reduceIte] at h
        cases hp : putP c.steps (s (j + 1)) (s j) with
        | none => simp [hp] at h
        | some cont =>
          simp only [hp, pure, Except.pure, Except.ok.injEq] at h
          exact ⟨c, cont, rfl, hg, hp, h.symm⟩
      | _ => simp [V.isHole] at h

theorem stepA_call_inv' (f : V → V) (p : CPath) (s s2 : Slots) (h : stepA f p s .call = .ok s2) :
    ∃ v cont, getP p.tailSteps (s p.chunks.length) = some v ∧
      putP p.tailSteps (f v) (s p.chunks.length) = some cont ∧ s2 = upd s p.chunks.length cont := by
  simp only [stepA] at h
  cases hg : getP p.tailSteps (s p.chunks.length) with
  | none => simp [hg] at h
  | some v =>
    simp only [hg] at h
    cases hp : putP p.tailSteps (f v) (s p.chunks.length) with
    | none => simp [hp] at h
    | some cont =>
      simp only [hp, pure, Except.pure, Except.ok.injEq] at h
      exact ⟨v, cont, by first | rfl | exact hg, by first | exact hp | rfl, h.symm⟩

theorem ls_frame' (f : V → V) (p : CPath) : ∀ j,
    (∀ s s', runA f p (load j) s = .ok s' → ∀ k, j < k → s' k = s k) ∧
    (∀ s s', runA f p (store j) s = .ok s' → ∀ k, j < k → s' k = s k) := by
  intro j
  induction j with
  | zero =>
    constructor <;> intro s s' h k _ <;> simp [load, store, loadStore, runA, pure, Except.pure] at h <;>
      rw [← h]
  | succ j ih =>
    obtain ⟨ihL, ihS⟩ := ih
    constructor
    · intro s s' h k hk
      rw [load_succ] at h
      obtain ⟨s2, h12, h3⟩ := runA_append_ok _ _ _ _ _ _ h
      obtain ⟨s1, h1, h2⟩ := runA_append_ok _ _ _ _ _ _ h12
      obtain ⟨c, e, cont, _, _, _, _, rfl⟩ := stepA_borrow_inv' _ _ _ _ _ (runA_single_ok _ _ _ _ _ h2)
      rw [ihS _ _ h3 k (by omega), upd_other _ _ _ _ (by omega), upd_other _ _ _ _ (by omega),
        ihL _ _ h1 k (by omega)]
    · intro s s' h k hk
      rw [store_succ] at h
      obtain ⟨s2, h12, h3⟩ := runA_append_ok _ _ _ _ _ _ h
      obtain ⟨s1, h1, h2⟩ := runA_append_ok _ _ _ _ _ _ h12
      obtain ⟨c, cont, _, _, _, rfl⟩ := stepA_ret_inv' _ _ _ _ _ (runA_single_ok _ _ _ _ _ h2)
      rw [ihS _ _ h3 k (by omega), upd_other _ _ _ _ (by omega), ihL _ _ h1 k (by omega)]

/-- a chunk `.p…[i]` read through: the array at `.p…` and its cell `i` -/
theorem chunk_get (c : Chunk) (x e : V) (h : getP c.steps x = some e) :
    ∃ cells, getP (c.projs.map .proj) x = some (.arr cells) ∧ cells[c.idx]? = some e := by
  unfold Chunk.steps at h
  rw [getP_append] at h
  cases ha : getP (c.projs.map .proj) x with
  | none => simp [ha] at h
  | some a =>
    simp only [ha, Option.bind_some] at h
    obtain ⟨cells, rfl, hc⟩ := getP_idx _ _ _ h
    exact ⟨cells, rfl, hc⟩

theorem chunk_put (c : Chunk) (x new x' : V) (cells : List V)
    (ha : getP (c.projs.map .proj) x = some (.arr cells)) (hi : c.idx < cells.length)
    (h : putP c.steps new x = some x') :
    putP (c.projs.map .proj) (.arr (cells.set c.idx new)) x = some x' := by
  unfold Chunk.steps at h
  rw [putP_append _ _ _ _ _ ha] at h
  simpa [putP, List.getElem?_eq_getElem hi] using h

/-! ### ids below a subscript are disjoint from the root's leaf places -/

theorem projExt_nil_all_proj {q : PlaceId} (h : ProjExt [] q) : ∀ x ∈ q, ∃ n, x = PStep.proj n := by
  obtain ⟨ks, rfl⟩ := h
  intro x hx
  simp at hx
  obtain ⟨n, _, rfl⟩ := hx
  exact ⟨n, rfl⟩

theorem root_disjoint (cs : List Chunk) (k : Nat) (c : Chunk) (hc : cs[k]? = some c) (q : PlaceId)
    (hq : ProjExt [] q) : ¬ (cIdAt [] 1 cs (k + 1)) <+: q := by
  intro hp
  rw [cIdAt_succ cs [] 1 k c hc] at hp
  obtain ⟨r, rfl⟩ := hp
  obtain ⟨n, hn⟩ := projExt_nil_all_proj hq (.sub (1 + k)) (by simp)
  cases hn

/-- the same for any id that extends a container id below a subscript -/
theorem root_disjoint' (cs : List Chunk) (k : Nat) (c : Chunk) (hc : cs[k]? = some c) (x q : PlaceId)
    (hq : ProjExt [] q) : q ≠ cIdAt [] 1 cs (k + 1) ++ x := by
  intro e
  exact root_disjoint cs k c hc q hq (e ▸ List.prefix_append _ _)

/-! ### array access steps at wire level, general level records -/

section gensteps
variable (f : V → V) (inputs : List W)

theorem borrowStepW_gen (l : Level) (te : Ty) (cs : CS) (env : List W) (aw i : Nat)
    (cells : List V) (e : V) (hat : l.arrTy = .arr te) (hS : Sem f inputs cs env)
    (hf : cs.find l.arrId = some aw) (ha : env[aw]? = some (.val (.arr cells)))
    (hi : env[l.idxWire]? = some (.int i)) (hc : cells[i]? = some e) (he : e.isHole = false) :
    Sem f inputs (borrowStepW l cs).1 (env ++ [.usize i] ++ [.val (.arr (cells.set i .hole)), .val e]) ∧
      (∀ q, (borrowStepW l cs).1.find q = if q = l.arrId then some (env.length + 1) else cs.find q) ∧
      (borrowStepW l cs).2 = env.length + 2 ∧ (borrowStepW l cs).1.bad = cs.bad := by
  obtain ⟨h2, w2⟩ := wstep_borrow f inputs cs env l.idxWire aw i cells e hS ha hi hc he
  have heq : borrowStepW l cs =
      (((cs.addOp .itousize [l.idxWire] 1).1.addOp .borrow
          [aw, (cs.addOp .itousize [l.idxWire] 1).2.headD 0] 2).1.set l.arrId
        (((cs.addOp .itousize [l.idxWire] 1).1.addOp .borrow
          [aw, (cs.addOp .itousize [l.idxWire] 1).2.headD 0] 2).2.headD 0),
       ((cs.addOp .itousize [l.idxWire] 1).1.addOp .borrow
          [aw, (cs.addOp .itousize [l.idxWire] 1).2.headD 0] 2).2.tail.headD 0) := by
    unfold borrowStepW
    simp only [hat, dget_found _ _ _ _ hf, dset]
  rw [heq, w2]
  refine ⟨⟨h2.1, h2.2⟩, ?_, rfl, rfl⟩
  intro q
  rw [CS.find_set]
  by_cases hq : q = l.arrId <;> simp [hq, CS.addOp_find]

theorem retStepW_gen (l : Level) (te : Ty) (cs : CS) (env : List W) (aw tw i : Nat)
    (cells : List V) (v : V) (hat : l.arrTy = .arr te) (hS : Sem f inputs cs env)
    (hf : cs.find l.arrId = some aw) (ha : env[aw]? = some (.val (.arr cells)))
    (hi : env[l.idxWire]? = some (.int i)) (ht : env[tw]? = some (.val v))
    (hc : cells[i]? = some .hole) :
    Sem f inputs (retStepW l tw cs) (env ++ [.usize i] ++ [.val (.arr (cells.set i v))]) ∧
      (∀ q, (retStepW l tw cs).find q = if q = l.arrId then some (env.length + 1) else cs.find q) ∧
      (retStepW l tw cs).bad = cs.bad := by
  obtain ⟨h2, w2⟩ := wstep_ret f inputs cs env l.idxWire aw tw i cells v hS ha hi ht hc
  have heq : retStepW l tw cs =
      ((cs.addOp .itousize [l.idxWire] 1).1.addOp .ret
          [aw, (cs.addOp .itousize [l.idxWire] 1).2.headD 0, tw] 1).1.set l.arrId
        (((cs.addOp .itousize [l.idxWire] 1).1.addOp .ret
          [aw, (cs.addOp .itousize [l.idxWire] 1).2.headD 0, tw] 1).2.headD 0) := by
    unfold retStepW
    simp only [hat, dget_found _ _ _ _ hf, dset]
  rw [heq, w2]
  refine ⟨⟨h2.1, h2.2⟩, ?_, rfl⟩
  intro q
  rw [CS.find_set]
  by_cases hq : q = l.arrId <;> simp [hq, CS.addOp_find]

end gensteps

/-! ### the general simulation -/

section gensim
variable (f : V → V) (t : Ty) (p : CPath) (pty : Ty)

/-- container `k` is stored leaf by leaf with the abstract slot value, and that value is well typed -/
def Live (cs : CS) (env : List W) (s : Slots) (k : Nat) : Prop :=
  Unpacked cs env (cTyAt t p.chunks k) (cIdAt [] 1 p.chunks k) (s k) ∧ Conf (cTyAt t p.chunks k) (s k)

def IdxOK' (env : List W) : Prop := ∀ k c, p.chunks[k]? = some c → env[k + 1]? = some (.int c.idx)

theorem IdxOK'_ext {env d : List W} (h : IdxOK' p env) : IdxOK' p (env ++ d) :=
  fun k c hk => getElem?_append_some' (h k c hk)

/-- the level record of subscript `j+1` -/
def lvlG (j : Nat) (c : Chunk) : Level :=
  ⟨cIdAt [] 1 p.chunks j, cTyAt t p.chunks j, c.projs, j + 1⟩

theorem lvG_get (j : Nat) (c : Chunk) (hc : p.chunks[j]? = some c) :
    (mkLevels t [] p.chunks 1)[j]? = some (lvlG t p j c) := by
  have := mkLevels_get p.chunks t [] 1 j c hc
  rw [Nat.add_comm 1 j] at this
  exact this

theorem lvlG_arrId (j : Nat) (c : Chunk) :
    (lvlG t p j c).arrId = cIdAt [] 1 p.chunks j ++ c.projs.map .proj := rfl

theorem lvlG_arrTy (hWT : WT t p.chunks p.tail pty) (j : Nat) (c : Chunk) (hc : p.chunks[j]? = some c) :
    (lvlG t p j c).arrTy = .arr (cTyAt t p.chunks (j + 1)) := by
  simp [lvlG, Level.arrTy, WT_level p.chunks t p.tail pty j c hWT hc]

theorem lvlG_elemTy (hWT : WT t p.chunks p.tail pty) (j : Nat) (c : Chunk) (hc : p.chunks[j]? = some c) :
    (lvlG t p j c).elemTy = cTyAt t p.chunks (j + 1) := by
  simp [Level.elemTy, lvlG_arrTy t p pty hWT j c hc, arrElemTy]

theorem lvlG_subId (j : Nat) (c : Chunk) (hc : p.chunks[j]? = some c) :
    subId (lvlG t p j c) (j + 1) = cIdAt [] 1 p.chunks (j + 1) := by
  rw [cIdAt_succ p.chunks [] 1 j c hc, Nat.add_comm 1 j]
  rfl

/-- re-binding the array place of level `j+1` (after a borrow or a return) keeps the root and
    container `j` live, with the lens-updated value in container `j` -/
theorem live_update (hWT : WT t p.chunks p.tail pty) (cs cs' : CS) (env d : List W) (s1 s2 : Slots)
    (j : Nat) (c : Chunk) (cells cells' : List V) (cont : V) (w' : Nat)
    (hc : p.chunks[j]? = some c) (L0 : Live t p cs env s1 0) (Lj : Live t p cs env s1 j)
    (hget : getP (c.projs.map .proj) (s1 j) = some (.arr cells))
    (hput : putP (c.projs.map .proj) (.arr cells') (s1 j) = some cont)
    (hF : ∀ q, cs'.find q
      = if q = cIdAt [] 1 p.chunks j ++ c.projs.map .proj then some w' else cs.find q)
    (hw' : (env ++ d)[w']? = some (.val (.arr cells')))
    (hconf : Conf (.arr (cTyAt t p.chunks (j + 1))) (.arr cells'))
    (h2j : s2 j = cont) (h20 : j ≠ 0 → s2 0 = s1 0) :
    Live t p cs' (env ++ d) s2 0 ∧ Live t p cs' (env ++ d) s2 j := by
  have hty := WT_level p.chunks t p.tail pty j c hWT hc
  obtain ⟨v2, hv2, hU2⟩ := Unpacked_update cs cs' env d c.projs (cTyAt t p.chunks j)
    (.arr (cTyAt t p.chunks (j + 1))) (cIdAt [] 1 p.chunks j) (s1 j) (.arr cells') hty Lj.1
    (fun q hq => by
      rw [hF, if_neg]
      intro e; exact hq (e ▸ List.prefix_refl _))
    (by
      simp only [Unpacked]
      exact ⟨w', by simp [hF], hw'⟩)
  have hv : v2 = cont := by rw [hput] at hv2; exact (Option.some.inj hv2).symm
  subst hv
  have hC : Conf (cTyAt t p.chunks j) v2 :=
    Conf_update c.projs _ _ (s1 j) (.arr cells') v2 hty Lj.2 hconf hput
  have Lj' : Live t p cs' (env ++ d) s2 j := by
    unfold Live; rw [h2j]; exact ⟨hU2, hC⟩
  refine ⟨?_, Lj'⟩
  by_cases hj0 : j = 0
  · subst hj0; exact Lj'
  · obtain ⟨j', rfl⟩ := Nat.exists_eq_succ_of_ne_zero hj0
    have hlt : j' < p.chunks.length := by
      have := (List.getElem?_eq_some_iff.mp hc).1; omega
    have hc' : p.chunks[j']? = some p.chunks[j'] := List.getElem?_eq_getElem hlt
    unfold Live
    rw [h20 hj0]
    refine ⟨Unpacked_frame cs cs' env d _ _ _ (fun q hq => ?_) L0.1, L0.2⟩
    rw [hF, if_neg]
    exact root_disjoint' p.chunks j' _ hc' _ q hq

theorem live_root_frame (cs cs' : CS) (env d : List W) (s : Slots) (k : Nat) (c : Chunk)
    (hc : p.chunks[k]? = some c) (L0 : Live t p cs env s 0)
    (hF : ∀ q, ¬ (cIdAt [] 1 p.chunks (k + 1)) <+: q → cs'.find q = cs.find q) :
    Live t p cs' (env ++ d) s 0 :=
  ⟨Unpacked_frame cs cs' env d _ _ _ (fun q hq => hF q (root_disjoint p.chunks k c hc q hq)) L0.1, L0.2⟩

theorem simLS_gen (inputs : List W) (hWT : WT t p.chunks p.tail pty) : ∀ j, j ≤ p.chunks.length →
    (∀ (s s' : Slots) (cs : CS) (env : List W),
      runA f p (load j) s = .ok s' → Sem f inputs cs env → cs.bad = false → IdxOK' p env →
      Live t p cs env s 0 →
      ∃ d, Sem f inputs ((loadStoreW (mkLevels t [] p.chunks 1) j).1 cs) (env ++ d) ∧
        ((loadStoreW (mkLevels t [] p.chunks 1) j).1 cs).bad = false ∧
        Live t p ((loadStoreW (mkLevels t [] p.chunks 1) j).1 cs) (env ++ d) s' 0 ∧
        Live t p ((loadStoreW (mkLevels t [] p.chunks 1) j).1 cs) (env ++ d) s' j) ∧
    (∀ (s s' : Slots) (cs : CS) (env : List W),
      runA f p (store j) s = .ok s' → Sem f inputs cs env → cs.bad = false → IdxOK' p env →
      Live t p cs env s 0 → Live t p cs env s j →
      ∃ d, Sem f inputs ((loadStoreW (mkLevels t [] p.chunks 1) j).2 cs) (env ++ d) ∧
        ((loadStoreW (mkLevels t [] p.chunks 1) j).2 cs).bad = false ∧
        Live t p ((loadStoreW (mkLevels t [] p.chunks 1) j).2 cs) (env ++ d) s' 0) := by
  intro j
  induction j with
  | zero =>
    intro _
    constructor
    · intro s s' cs env h hS hb _ hL
      simp [load, loadStore, runA, pure, Except.pure] at h
      subst h
      exact ⟨[], by simpa [loadStoreW] using hS, by simpa [loadStoreW] using hb,
        by simpa [loadStoreW] using hL, by simpa [loadStoreW] using hL⟩
    · intro s s' cs env h hS hb _ hL _
      simp [store, loadStore, runA, pure, Except.pure] at h
      subst h
      exact ⟨[], by simpa [loadStoreW] using hS, by simpa [loadStoreW] using hb,
        by simpa [loadStoreW] using hL⟩
  | succ j ih =>
    intro hle
    have hj : j < p.chunks.length := hle
    obtain ⟨ihL, ihS⟩ := ih (Nat.le_of_lt hj)
    have hc : p.chunks[j]? = some p.chunks[j] := List.getElem?_eq_getElem hj
    have hl := lvG_get t p j _ hc
    have hat := lvlG_arrTy t p pty hWT j _ hc
    have het := lvlG_elemTy t p pty hWT j _ hc
    have hsub := lvlG_subId t p j _ hc
    have hty := WT_level p.chunks t p.tail pty j _ hWT hc
    obtain ⟨frL, frS⟩ := ls_frame' f p j
    constructor
    · -- load (j+1)
      intro s s' cs env h hS hb hI hL0
      rw [load_succ] at h
      obtain ⟨s2, h12, h3⟩ := runA_append_ok _ _ _ _ _ _ h
      obtain ⟨s1, h1, h2⟩ := runA_append_ok _ _ _ _ _ _ h12
      obtain ⟨c', e, cont, hc', hge, he, hpe, hs2⟩ :=
        stepA_borrow_inv' _ _ _ _ _ (runA_single_ok _ _ _ _ _ h2)
      rw [hc] at hc'; cases hc'
      obtain ⟨cells, hga, hce⟩ := chunk_get _ _ _ hge
      have hilt : p.chunks[j].idx < cells.length := (List.getElem?_eq_some_iff.mp hce).1
      have hpa := chunk_put _ _ _ _ cells hga hilt hpe
      obtain ⟨d1, S1, b1, L01, Lj1⟩ := ihL s s1 cs env h1 hS hb hI hL0
      -- the array place of container j
      obtain ⟨va, hva, hUa⟩ := Unpacked_focus _ _ p.chunks[j].projs _ _ _ _ hty Lj1.1
      rw [hga] at hva; cases hva
      simp only [Unpacked] at hUa
      obtain ⟨aw, hfa, hea⟩ := hUa
      have hI1 := IdxOK'_ext p (d := d1) hI
      obtain ⟨SB, FB, wB, bB⟩ := borrowStepW_gen f inputs (lvlG t p j p.chunks[j]) _ _ _ aw
        p.chunks[j].idx cells e hat S1 (by rw [lvlG_arrId]; exact hfa) hea (hI1 j _ hc) hce he
      have hCa : Conf (.arr (cTyAt t p.chunks (j + 1))) (.arr cells) :=
        Conf_focus _ _ _ _ _ hty Lj1.2 hga
      obtain ⟨L02, Lj2⟩ := live_update t p pty hWT _ _ _
        ([W.usize p.chunks[j].idx] ++ [W.val (V.arr (cells.set p.chunks[j].idx V.hole)), W.val e])
        s1 s2 j _ cells (cells.set p.chunks[j].idx .hole) cont ((env ++ d1).length + 1) hc L01 Lj1 hga hpa
        (by intro q; rw [FB, lvlG_arrId])
        (by rw [← List.append_assoc]; exact app_idx1 _ _ _ _)
        (Conf_arr_set _ _ _ _ hCa (Or.inl rfl))
        (by rw [hs2, upd_other _ _ _ _ (by omega), upd_same])
        (fun hj0 => by rw [hs2, upd_other _ _ _ _ (by omega), upd_other _ _ _ _ (Ne.symm hj0)])
      rw [← List.append_assoc] at L02 Lj2
      have hI3 := IdxOK'_ext p (d := [W.val (V.arr (cells.set p.chunks[j].idx V.hole)), W.val e])
        (IdxOK'_ext p (d := [W.usize p.chunks[j].idx]) hI1)
      obtain ⟨d3, S3, b3, L03⟩ := ihS s2 s' _ _ h3 SB (by rw [bB]; exact b1) hI3 L02 Lj2
      -- settle: bind the element place
      have hCe : Conf (cTyAt t p.chunks (j + 1)) e := Conf_arr_cell _ _ _ _ hCa hce he
      have hev : (env ++ d1 ++ [W.usize p.chunks[j].idx]
          ++ [W.val (V.arr (cells.set p.chunks[j].idx V.hole)), W.val e] ++ d3)[(env ++ d1).length + 2]?
          = some (.val e) := getElem?_append_some' (app_idx2 _ _ _ _)
      obtain ⟨d6, S6, U6, b6, F6⟩ := dset_spec f inputs (cTyAt t p.chunks (j + 1))
        (cIdAt [] 1 p.chunks (j + 1)) ((env ++ d1).length + 2) _ _ e S3 hev (Conf_shape _ _ hCe)
      rw [loadW_succ_eq _ j _ hl, het, hsub, wB]
      refine ⟨d1 ++ ([W.usize p.chunks[j].idx]
        ++ ([W.val (V.arr (cells.set p.chunks[j].idx V.hole)), W.val e] ++ (d3 ++ d6))), ?_, ?_, ?_, ?_⟩
      · have : env ++ (d1 ++ ([W.usize p.chunks[j].idx]
            ++ ([W.val (V.arr (cells.set p.chunks[j].idx V.hole)), W.val e] ++ (d3 ++ d6))))
            = env ++ d1 ++ [W.usize p.chunks[j].idx]
              ++ [W.val (V.arr (cells.set p.chunks[j].idx V.hole)), W.val e] ++ d3 ++ d6 := by simp
        rw [this]; exact S6
      · rw [b6]; exact b3
      · have : env ++ (d1 ++ ([W.usize p.chunks[j].idx]
            ++ ([W.val (V.arr (cells.set p.chunks[j].idx V.hole)), W.val e] ++ (d3 ++ d6))))
            = env ++ d1 ++ [W.usize p.chunks[j].idx]
              ++ [W.val (V.arr (cells.set p.chunks[j].idx V.hole)), W.val e] ++ d3 ++ d6 := by simp
        rw [this]
        exact live_root_frame t p _ _ _ d6 s' j _ hc L03 F6
      · have : env ++ (d1 ++ ([W.usize p.chunks[j].idx]
            ++ ([W.val (V.arr (cells.set p.chunks[j].idx V.hole)), W.val e] ++ (d3 ++ d6))))
            = env ++ d1 ++ [W.usize p.chunks[j].idx]
              ++ [W.val (V.arr (cells.set p.chunks[j].idx V.hole)), W.val e] ++ d3 ++ d6 := by simp
        rw [this]
        unfold Live
        rw [frS _ _ h3 (j + 1) (by omega), hs2, upd_same]
        exact ⟨U6, hCe⟩
    · -- store (j+1)
      intro s s' cs env h hS hb hI hL0 hLj1
      rw [store_succ] at h
      obtain ⟨s2, h12, h3⟩ := runA_append_ok _ _ _ _ _ _ h
      obtain ⟨s1, h1, h2⟩ := runA_append_ok _ _ _ _ _ _ h12
      obtain ⟨c', cont, hc', hge, hpe, hs2⟩ :=
        stepA_ret_inv' _ _ _ _ _ (runA_single_ok _ _ _ _ _ h2)
      rw [hc] at hc'; cases hc'
      obtain ⟨cells, hga, hce⟩ := chunk_get _ _ _ hge
      have hilt : p.chunks[j].idx < cells.length := (List.getElem?_eq_some_iff.mp hce).1
      have hpa := chunk_put _ _ _ _ cells hga hilt hpe
      have hs1j1 : s1 (j + 1) = s (j + 1) := frL _ _ h1 (j + 1) (by omega)
      -- gather: pack the element
      obtain ⟨d0, S0, hv0, b0, F0⟩ := dget_spec f inputs (cTyAt t p.chunks (j + 1))
        (cIdAt [] 1 p.chunks (j + 1)) cs env (s (j + 1)) hS hLj1.1
      have L00 := live_root_frame t p cs _ env d0 s j _ hc hL0 F0
      obtain ⟨d1, S1, b1, L01, Lj1⟩ := ihL s s1 _ _ h1 S0 (by rw [b0]; exact hb)
        (IdxOK'_ext p hI) L00
      obtain ⟨va, hva, hUa⟩ := Unpacked_focus _ _ p.chunks[j].projs _ _ _ _ hty Lj1.1
      rw [hga] at hva; cases hva
      simp only [Unpacked] at hUa
      obtain ⟨aw, hfa, hea⟩ := hUa
      have hI1 := IdxOK'_ext p (d := d1) (IdxOK'_ext p (d := d0) hI)
      have htw : (env ++ d0 ++ d1)[(dget (cTyAt t p.chunks (j + 1)) (cIdAt [] 1 p.chunks (j + 1)) cs).2]?
          = some (.val (s1 (j + 1))) := by rw [hs1j1]; exact getElem?_append_some' hv0
      obtain ⟨SR, FR, bR⟩ := retStepW_gen f inputs (lvlG t p j p.chunks[j]) _ _ _ aw _
        p.chunks[j].idx cells (s1 (j + 1)) hat S1 (by rw [lvlG_arrId]; exact hfa) hea (hI1 j _ hc)
        htw hce
      have hCa : Conf (.arr (cTyAt t p.chunks (j + 1))) (.arr cells) :=
        Conf_focus _ _ _ _ _ hty Lj1.2 hga
      obtain ⟨L02, Lj2⟩ := live_update t p pty hWT _ _ _
        ([W.usize p.chunks[j].idx] ++ [W.val (V.arr (cells.set p.chunks[j].idx (s1 (j + 1))))])
        s1 s2 j _ cells (cells.set p.chunks[j].idx (s1 (j + 1))) cont ((env ++ d0 ++ d1).length + 1)
        hc L01 Lj1 hga hpa
        (by intro q; rw [FR, lvlG_arrId])
        (by rw [← List.append_assoc]; exact app_idx1' _ _ _)
        (Conf_arr_set _ _ _ _ hCa (Or.inr (by rw [hs1j1]; exact hLj1.2)))
        (by rw [hs2, upd_same])
        (fun hj0 => by rw [hs2, upd_other _ _ _ _ (Ne.symm hj0)])
      rw [← List.append_assoc] at L02 Lj2
      have hI2 := IdxOK'_ext p (d := [W.val (V.arr (cells.set p.chunks[j].idx (s1 (j + 1))))])
        (IdxOK'_ext p (d := [W.usize p.chunks[j].idx]) hI1)
      obtain ⟨d3, S3, b3, L03⟩ := ihS s2 s' _ _ h3 SR (by rw [bR]; exact b1) hI2 L02 Lj2
      rw [storeW_succ_eq _ j _ hl, het, hsub]
      refine ⟨d0 ++ (d1 ++ ([W.usize p.chunks[j].idx]
        ++ ([W.val (V.arr (cells.set p.chunks[j].idx (s1 (j + 1))))] ++ d3))), ?_, b3, ?_⟩
      · have : env ++ (d0 ++ (d1 ++ ([W.usize p.chunks[j].idx]
            ++ ([W.val (V.arr (cells.set p.chunks[j].idx (s1 (j + 1))))] ++ d3))))
            = env ++ d0 ++ d1 ++ [W.usize p.chunks[j].idx]
              ++ [W.val (V.arr (cells.set p.chunks[j].idx (s1 (j + 1))))] ++ d3 := by simp
        rw [this]; exact S3
      · have : env ++ (d0 ++ (d1 ++ ([W.usize p.chunks[j].idx]
            ++ ([W.val (V.arr (cells.set p.chunks[j].idx (s1 (j + 1))))] ++ d3))))
            = env ++ d0 ++ d1 ++ [W.usize p.chunks[j].idx]
              ++ [W.val (V.arr (cells.set p.chunks[j].idx (s1 (j + 1))))] ++ d3 := by simp
        rw [this]; exact L03

theorem Live.intro' {cs : CS} {env : List W} (s : Slots) (k : Nat)
    (h1 : Unpacked cs env (cTyAt t p.chunks k) (cIdAt [] 1 p.chunks k) (s k))
    (h2 : Conf (cTyAt t p.chunks k) (s k)) : Live t p cs env s k := ⟨h1, h2⟩

/-- after an update inside container `m` (ids below `cId m ++ tail`), the root is still live -/
theorem live0_after (cs1 cs4 : CS) (env1 d : List W) (s1 s2 : Slots) (x : PlaceId)
    (L01 : Live t p cs1 env1 s1 0) (Lm2 : Live t p cs4 (env1 ++ d) s2 p.chunks.length)
    (hs20 : p.chunks.length ≠ 0 → s2 0 = s1 0)
    (hF : ∀ q, ¬ (cIdAt [] 1 p.chunks p.chunks.length ++ x) <+: q → cs4.find q = cs1.find q) :
    Live t p cs4 (env1 ++ d) s2 0 := by
  by_cases hm0 : p.chunks.length = 0
  · have := Lm2; rw [hm0] at this; exact this
  · obtain ⟨m', hm'⟩ := Nat.exists_eq_succ_of_ne_zero hm0
    have hlt : m' < p.chunks.length := by omega
    have hc' : p.chunks[m']? = some p.chunks[m'] := List.getElem?_eq_getElem hlt
    unfold Live
    rw [hs20 hm0]
    refine ⟨Unpacked_frame cs1 cs4 env1 d _ _ _ (fun q hq => hF q ?_) L01.1, L01.2⟩
    intro hp
    rw [hm'] at hp
    exact root_disjoint p.chunks m' _ hc' q hq (List.IsPrefix.trans (List.prefix_append _ _) hp)

theorem cTyAt_zero (t : Ty) (cs : List Chunk) : cTyAt t cs 0 = t := by cases cs <;> rfl
theorem cIdAt_zero (pid : PlaceId) (j0 : Nat) (cs : List Chunk) : cIdAt pid j0 cs 0 = pid := by
  cases cs <;> rfl

theorem lastPlace_gen (hWT : WT t p.chunks p.tail pty) :
    lastPlace t (mkLevels t [] p.chunks 1) p.chunks.length
      = (cIdAt [] 1 p.chunks p.chunks.length, cTyAt t p.chunks p.chunks.length) := by
  unfold lastPlace
  by_cases hpos : 0 < p.chunks.length
  · have hlt : p.chunks.length - 1 < p.chunks.length := by omega
    have hc : p.chunks[p.chunks.length - 1]? = some p.chunks[p.chunks.length - 1] :=
      List.getElem?_eq_getElem hlt
    have e1 : p.chunks.length = (p.chunks.length - 1) + 1 := by omega
    rw [lvG_get t p _ _ hc]
    simp only
    have h1 := lvlG_subId t p _ _ hc
    have h2 := lvlG_elemTy t p pty hWT _ _ hc
    rw [← e1] at h1 h2
    rw [h1, h2]
  · have : p.chunks = [] := List.eq_nil_of_length_eq_zero (by omega)
    simp [this, mkLevels, cIdAt, cTyAt]

/-- **wire level, arbitrary paths**: whenever the place-level sequence for `callee(π)` succeeds with
    result `X'` on a well-typed store, the SSA op list emitted for the path (tuple unpack/pack
    plumbing of `DFContainer`, `itousize`, `borrow`/`return`, `Call`, with all wiring) computes
    exactly `X'` from the inputs `x, i₁, …, i_m`. -/
theorem wire_sim_gen (c : String) (X X' : V) (hWT : WT t p.chunks p.tail pty) (hX : Conf t X)
    (hfc : ∀ v, Conf pty v → Conf pty (f v)) (h : callBorrowA f p X = .ok X') :
    runW f (emitW t p c) (.val X :: p.chunks.map (fun c => W.int c.idx)) = .ok [.val X'] := by
  -- abstract run
  unfold callBorrowA at h
  cases hr : runA f p (emitAbs p.chunks.length) (initSlots X) with
  | error e => simp [hr, bind, Except.bind] at h
  | ok s3 =>
    simp only [hr, bind, Except.bind, pure, Except.pure, Except.ok.injEq] at h
    subst h
    unfold emitAbs at hr
    obtain ⟨s2, h12, h3⟩ := runA_append_ok _ _ _ _ _ _ hr
    obtain ⟨s1, h1, h2⟩ := runA_append_ok _ _ _ _ _ _ h12
    obtain ⟨v, cont, hgv, hpv, hs2⟩ := stepA_call_inv' _ _ _ _ (runA_single_ok _ _ _ _ _ h2)
    obtain ⟨simL, simS⟩ := simLS_gen f t p pty (.val X :: p.chunks.map (fun c => W.int c.idx)) hWT
      p.chunks.length (Nat.le_refl _)
    -- entry: the root parameter is unpacked
    have Sinit : Sem f (.val X :: p.chunks.map (fun c => W.int c.idx))
        ({ next := p.chunks.length + 1 } : CS) (.val X :: p.chunks.map (fun c => W.int c.idx)) :=
      ⟨rfl, by simp⟩
    obtain ⟨d0, S0, U0, b0, _⟩ := dset_spec f _ t [] 0 _ _ X Sinit (by simp) (Conf_shape _ _ hX)
    have I0 : IdxOK' p ((W.val X :: p.chunks.map (fun c => W.int c.idx)) ++ d0) := by
      intro k c hk
      apply getElem?_append_some'
      simp [hk]
    have L0 : Live t p (dset t [] 0 ({ next := p.chunks.length + 1 } : CS))
        ((W.val X :: p.chunks.map (fun c => W.int c.idx)) ++ d0) (initSlots X) 0 := by
      unfold Live
      rw [cTyAt_zero, cIdAt_zero]
      exact ⟨by simpa [initSlots] using U0, by simpa [initSlots] using hX⟩
    obtain ⟨d1, S1, b1, L01, Lm1⟩ := simL _ s1 _ _ h1 S0 (by rw [b0]) I0 L0
    -- the call on the place
    have htail := WT_tail p.chunks t p.tail pty hWT
    obtain ⟨v', hv', hUp⟩ := Unpacked_focus _ _ p.tail _ pty _ _ htail Lm1.1
    have hvv : v' = v := by
      have : getP p.tailSteps (s1 p.chunks.length) = some v' := hv'
      rw [hgv] at this; exact (Option.some.inj this).symm
    subst hvv
    have hCv : Conf pty v' := Conf_focus _ _ _ _ _ htail Lm1.2 hv'
    obtain ⟨d2, S2, hw2, b2, F2⟩ := dget_spec f _ pty
      (cIdAt [] 1 p.chunks p.chunks.length ++ p.tail.map .proj) _ _ v' S1 hUp
    obtain ⟨S3, o3⟩ := Sem_addOp f _ _ _ (.call c)
      [(dget pty (cIdAt [] 1 p.chunks p.chunks.length ++ p.tail.map .proj)
        ((loadStoreW (mkLevels t [] p.chunks 1) p.chunks.length).1
          (dset t [] 0 ({ next := p.chunks.length + 1 } : CS)))).2] 1 [.val v'] [.val (f v')] S2
      (lookupW_of _ _ _ (by simp only [List.map_cons, List.map_nil, hw2])) rfl rfl
    have ho3 : ((dget pty (cIdAt [] 1 p.chunks p.chunks.length ++ p.tail.map .proj)
        ((loadStoreW (mkLevels t [] p.chunks 1) p.chunks.length).1
          (dset t [] 0 ({ next := p.chunks.length + 1 } : CS)))).1.addOp (.call c)
        [(dget pty (cIdAt [] 1 p.chunks p.chunks.length ++ p.tail.map .proj)
          ((loadStoreW (mkLevels t [] p.chunks 1) p.chunks.length).1
            (dset t [] 0 ({ next := p.chunks.length + 1 } : CS)))).2] 1).2.headD 0
        = ((W.val X :: p.chunks.map (fun c => W.int c.idx)) ++ d0 ++ d1 ++ d2).length := by
      rw [o3]; simp
    obtain ⟨d4, S4, U4, b4, F4⟩ := dset_spec f _ pty
      (cIdAt [] 1 p.chunks p.chunks.length ++ p.tail.map .proj)
      ((W.val X :: p.chunks.map (fun c => W.int c.idx)) ++ d0 ++ d1 ++ d2).length _ _ (f v') S3
      (app_idx0 _ _) (Conf_shape _ _ (hfc v' hCv))
    -- container m (and the root) after the call
    obtain ⟨v2, hv2, hU2⟩ := Unpacked_update _ _ _ (d2 ++ ([W.val (f v')] ++ d4)) p.tail _ pty _ _
      (f v') htail Lm1.1
      (fun q hq => by rw [F4 q hq]; exact F2 q hq)
      (by
        have : (W.val X :: p.chunks.map (fun c => W.int c.idx)) ++ d0 ++ d1 ++ (d2 ++ ([W.val (f v')] ++ d4))
            = (W.val X :: p.chunks.map (fun c => W.int c.idx)) ++ d0 ++ d1 ++ d2 ++ [W.val (f v')] ++ d4 := by
          simp
        rw [this]; exact U4)
    have hv2c : v2 = cont := by
      have : putP p.tailSteps (f v') (s1 p.chunks.length) = some v2 := hv2
      rw [hpv] at this; exact (Option.some.inj this).symm
    subst hv2c
    have henv4 : (W.val X :: p.chunks.map (fun c => W.int c.idx)) ++ d0 ++ d1 ++ (d2 ++ ([W.val (f v')] ++ d4))
        = (W.val X :: p.chunks.map (fun c => W.int c.idx)) ++ d0 ++ d1 ++ d2 ++ [W.val (f v')] ++ d4 := by
      simp
    have hs2m : s2 p.chunks.length = v2 := by rw [hs2, upd_same]
    have hC2 : Conf (cTyAt t p.chunks p.chunks.length) (s2 p.chunks.length) := by
      rw [hs2m]; exact Conf_update _ _ _ _ _ _ htail Lm1.2 (hfc v' hCv) hv2
    rw [← hs2m] at hU2
    have Lm2 := Live.intro' t p s2 p.chunks.length hU2 hC2
    have L02 := live0_after t p _ _ _ _ s1 s2 (p.tail.map .proj) L01 Lm2
      (fun hm0 => by rw [hs2, upd_other _ _ _ _ (Ne.symm hm0)])
      (fun q hq => by rw [F4 q hq]; exact F2 q hq)
    rw [henv4] at Lm2 L02
    obtain ⟨d5, S5, b5, L05⟩ := simS s2 s3 _ _ h3 S4 (by rw [b4]; simpa [CS.addOp_bad, b2] using b1)
      (IdxOK'_ext p (IdxOK'_ext p (IdxOK'_ext p (IdxOK'_ext p I0)))) L02 Lm2
    -- exit: the borrowed root is packed again
    have U5 := L05.1
    rw [cTyAt_zero, cIdAt_zero] at U5
    obtain ⟨d6, S6, hw6, b6, _⟩ := dget_spec f _ t [] _ _ (s3 0) S5 U5
    -- unfold the emission
    unfold emitW
    simp only [lastPlace_gen t p pty hWT, htail, Option.getD_some, ho3]
    simp only [b6, b5, Bool.false_eq_true, ↓reduceIte]
    unfold runW
    simp only [List.length_cons, List.length_map, ne_eq, not_true_eq_false, ↓reduceIte, S6.1, bind,
      Except.bind]
    exact lookupW_of _ _ _ (by simp only [List.map_cons, List.map_nil, hw6])

end gensim

end GuppyVerif.Places
