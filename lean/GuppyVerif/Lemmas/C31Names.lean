import GuppyVerif.Spec.C31
import Std.Data.String.ToNat
/-! Helper lemmas for C31, part 2: the fresh-name scheme and the names of variable occurrences. -/
namespace GuppyVerif.Print

/-! ## Strings: `d'k` determines `d` and `k` when `d` has no quote -/
theorem split_at_first {α} (c : α) : ∀ (a b x y : List α), c ∉ a → c ∉ b → a ++ c :: x = b ++ c :: y →
    a = b ∧ x = y
  | [], [], _, _, _, _, h => by simpa using h
  | [], e :: b, _, _, _, hb, h => by
      simp only [List.nil_append, List.cons_append, List.cons.injEq] at h
      exact absurd (by simp [h.1]) hb
  | e :: a, [], _, _, ha, _, h => by
      simp only [List.nil_append, List.cons_append, List.cons.injEq] at h
      exact absurd (by simp [h.1]) ha
  | e :: a, e' :: b, x, y, ha, hb, h => by
      simp only [List.cons_append, List.cons.injEq] at h
      have := split_at_first c a b x y (by simp_all) (by simp_all) h.2
      simp [h.1, this.1, this.2]

theorem indexed_toList (d : String) (k : Nat) :
    (indexed d k).toList = d.toList ++ '\'' :: (Nat.repr k).toList := by
  simp [indexed, String.toList_append]

theorem indexed_inj (d e : String) (k j : Nat) (hd : NoQuote d) (he : NoQuote e)
    (h : indexed d k = indexed e j) : d = e ∧ k = j := by
  have h' := congrArg String.toList h
  rw [indexed_toList, indexed_toList] at h'
  obtain ⟨h1, h2⟩ := split_at_first '\'' _ _ _ _ hd he h'
  exact ⟨String.toList_inj.mp h1, Nat.repr_inj.mp (String.toList_inj.mp h2)⟩

theorem indexed_ne (d e : String) (k : Nat) (he : NoQuote e) : indexed d k ≠ e := by
  intro h
  have : '\'' ∈ e.toList := by rw [← h, indexed_toList]; simp
  exact he this

theorem digit_ne_qmark (k : Nat) : '?' ∉ (Nat.repr k).toList := by
  intro h
  rw [Nat.toList_repr] at h
  have := Nat.isDigit_of_mem_toDigits (by decide) (by decide) h
  simp [Char.isDigit] at this

/-- the `k`-th name issued for display name `d`: `d`, `d'1`, `d'2`, … -/
def mkName (d : String) (k : Nat) : String := if k = 0 then d else indexed d k

theorem mkName_inj (d e : String) (k j : Nat) (hd : NoQuote d) (he : NoQuote e)
    (h : mkName d k = mkName e j) : d = e ∧ k = j := by
  unfold mkName at h
  by_cases hk : k = 0 <;> by_cases hj : j = 0 <;> simp only [hk, hj, ↓reduceIte] at h
  · exact ⟨h, by omega⟩
  · exact absurd h.symm (indexed_ne e d j hd)
  · exact absurd h (indexed_ne d e k he)
  · exact indexed_inj d e k j hd he h

theorem mkName_no_qmark (d : String) (k : Nat) (hd : '?' ∉ d.toList) : '?' ∉ (mkName d k).toList := by
  unfold mkName
  split
  · exact hd
  · rw [indexed_toList]
    simp only [List.mem_append, List.mem_cons, not_or]
    exact ⟨hd, by decide, digit_ne_qmark k⟩

/-! ## The printer state invariant -/
def cnt (st : PState) (d : String) : Nat := (st.counter.lookup d).getD 0

/-- every name handed out so far -/
def issuedNames (st : PState) : List String := st.exist.map (·.2) ++ st.bound

/-- `Q` = what is known about display names (at least: no quote) -/
structure Inv (Q : String → Prop) (st : PState) : Prop where
  issued : ∀ s ∈ issuedNames st, ∃ d k, Q d ∧ s = mkName d k ∧ k < cnt st d
  nodup : (issuedNames st).Nodup
  keys : (st.exist.map (·.1)).Nodup
  pos : ∀ d k, st.counter.lookup d = some k → 1 ≤ k

theorem inv_init (Q : String → Prop) : Inv Q .init :=
  ⟨by simp [issuedNames, PState.init], by simp [issuedNames, PState.init], by simp [PState.init],
    by simp [PState.init]⟩

theorem freshName_fst (st : PState) (d : String) (hpos : ∀ d k, st.counter.lookup d = some k → 1 ≤ k) :
    (freshName st d).1 = mkName d (cnt st d) := by
  unfold freshName cnt mkName
  cases h : st.counter.lookup d with
  | none => simp
  | some k =>
    have := hpos d k h
    simp only [Option.getD_some]
    rw [if_neg (by omega)]

theorem freshName_cnt (st : PState) (d e : String) :
    cnt (freshName st d).2 e = if e = d then cnt st d + 1 else cnt st e := by
  unfold freshName cnt
  cases h : st.counter.lookup d with
  | none =>
    by_cases he : e = d
    · subst he; simp
    · have : (e == d) = false := by simpa using he
      simp [List.lookup_cons, this, he]
  | some k =>
    by_cases he : e = d
    · subst he; simp
    · have : (e == d) = false := by simpa using he
      simp [List.lookup_cons, this, he]

theorem freshName_bound (st : PState) (d : String) : (freshName st d).2.bound = st.bound := by
  unfold freshName; split <;> rfl

theorem freshName_exist (st : PState) (d : String) : (freshName st d).2.exist = st.exist := by
  unfold freshName; split <;> rfl

theorem freshName_pos (st : PState) (d : String) (hpos : ∀ d k, st.counter.lookup d = some k → 1 ≤ k) :
    ∀ e k, (freshName st d).2.counter.lookup e = some k → 1 ≤ k := by
  intro e k
  unfold freshName
  cases h : st.counter.lookup d with
  | none =>
    simp only [List.lookup_cons]
    split
    · intro h'; simp at h'; omega
    · exact hpos e k
  | some k0 =>
    simp only [List.lookup_cons]
    split
    · intro h'; simp at h'; omega
    · exact hpos e k

/-- the new name has not been issued before, and everything issued before stays issued -/
theorem freshName_spec (Q : String → Prop) (hQ : ∀ d, Q d → NoQuote d) (st : PState) (d : String)
    (hd : Q d) (hinv : Inv Q st) :
    (freshName st d).1 ∉ issuedNames st ∧
      (∀ s, (s ∈ issuedNames st ∨ s = (freshName st d).1) →
        ∃ d' k, Q d' ∧ s = mkName d' k ∧ k < cnt (freshName st d).2 d') := by
  have hfst := freshName_fst st d hinv.pos
  constructor
  · intro hmem
    obtain ⟨d', k, hd', hs, hk⟩ := hinv.issued _ hmem
    rw [hfst] at hs
    obtain ⟨rfl, rfl⟩ := mkName_inj _ _ _ _ (hQ _ hd) (hQ _ hd') hs
    omega
  · intro s hs
    rcases hs with hs | hs
    · obtain ⟨d', k, hd', hs', hk⟩ := hinv.issued _ hs
      refine ⟨d', k, hd', hs', ?_⟩
      rw [freshName_cnt]
      split
      · subst_vars; omega
      · exact hk
    · refine ⟨d, cnt st d, hd, by rw [hs, hfst], ?_⟩
      rw [freshName_cnt]
      simp


theorem nodup_snoc {α} (l : List α) (a : α) : (l ++ [a]).Nodup ↔ l.Nodup ∧ a ∉ l := by
  rw [List.nodup_append]
  simp only [List.nodup_cons, List.not_mem_nil, not_false_eq_true, List.nodup_nil, and_self, true_and,
    List.mem_cons, or_false, ne_eq, forall_eq]
  constructor
  · rintro ⟨h1, h2⟩; exact ⟨h1, fun h => h2 a h rfl⟩
  · rintro ⟨h1, h2⟩; exact ⟨h1, fun b hb e => h2 (e ▸ hb)⟩

/-- `self.bound_names.append(self._fresh_name(d))` -/
def pushBound (st : PState) (d : String) : PState :=
  { (freshName st d).2 with bound := (freshName st d).2.bound ++ [(freshName st d).1] }

theorem inv_pushBound (Q : String → Prop) (hQ : ∀ d, Q d → NoQuote d) (st : PState) (d : String)
    (hd : Q d) (hinv : Inv Q st) : Inv Q (pushBound st d) := by
  obtain ⟨hnew, hold⟩ := freshName_spec Q hQ st d hd hinv
  have hiss : issuedNames (pushBound st d) = issuedNames st ++ [(freshName st d).1] := by
    simp [issuedNames, pushBound, freshName_bound, freshName_exist]
  refine ⟨?_, ?_, ?_, ?_⟩
  · intro s hs
    rw [hiss] at hs
    have := hold s (by simpa using hs)
    simpa [pushBound, cnt] using this
  · rw [hiss, nodup_snoc]; exact ⟨hinv.nodup, hnew⟩
  · simpa [pushBound, freshName_exist] using hinv.keys
  · simpa [pushBound] using freshName_pos st d hinv.pos

theorem pushParams_eq (st : PState) : ∀ ds : List String, pushParams st ds = ds.foldl pushBound st
  | [] => by simp [pushParams]
  | d :: ds => by
      simp only [pushParams, List.foldl_cons]
      exact pushParams_eq _ ds

theorem pushBound_bound_length (st : PState) (d : String) :
    (pushBound st d).bound.length = st.bound.length + 1 := by
  simp [pushBound, freshName_bound]

theorem pushBound_exist (st : PState) (d : String) : (pushBound st d).exist = st.exist := by
  simp [pushBound, freshName_exist]

theorem inv_pushParams (Q : String → Prop) (hQ : ∀ d, Q d → NoQuote d) :
    ∀ (ds : List String) (st : PState), (∀ d ∈ ds, Q d) → Inv Q st →
      Inv Q (pushParams st ds) ∧ (pushParams st ds).bound.length = st.bound.length + ds.length ∧
        (pushParams st ds).exist = st.exist
  | [], st, _, h => by simp [pushParams, h]
  | d :: ds, st, hds, h => by
      have h1 := inv_pushBound Q hQ st d (hds d (by simp)) h
      obtain ⟨a, b, c⟩ := inv_pushParams Q hQ ds (pushBound st d) (fun e he => hds e (by simp [he])) h1
      have : pushParams st (d :: ds) = pushParams (pushBound st d) ds := by simp [pushParams, pushBound]
      rw [this]
      refine ⟨a, ?_, ?_⟩
      · rw [b, pushBound_bound_length]; simp; omega
      · rw [c, pushBound_exist]


/-! ## Variable occurrences -/
theorem varOccs_append : ∀ (xs ys : List Tok), varOccs (xs ++ ys) = varOccs xs ++ varOccs ys
  | [], _ => by simp [varOccs]
  | t :: xs, ys => by
      have ih := varOccs_append xs ys
      cases t with
      | ident s v => cases v <;> simp [varOccs, ih]
      | _ => simp [varOccs, ih]

@[simp] theorem varOccs_sepToks (b : Bool) : varOccs (sepToks b) = [] := by
  cases b <;> simp [sepToks, varOccs]

@[simp] theorem varOccs_flagToks (f : Flags) : varOccs (flagToks f) = [] := by
  unfold flagToks
  cases f.owned <;> cases f.comptime <;> simp [varOccs]

@[simp] theorem varOccs_wrap (b : Bool) (xs : List Tok) : varOccs (wrap b xs) = varOccs xs := by
  cases b <;> simp [wrap, varOccs, varOccs_append]

@[simp] theorem varOccs_soleTupleComma (as : List Arg) : varOccs (soleTupleComma as) = [] := by
  unfold soleTupleComma
  split <;> simp [varOccs]

@[simp] theorem varOccs_valToks (v : PyVal) : varOccs (valToks v) = [] := by
  cases v with
  | int v => simp only [valToks]; split <;> simp [varOccs]
  | bool b => cases b <;> simp [valToks, varOccs]
  | float r =>
    simp only [valToks, floatToks]
    split
    · split <;> simp [varOccs]
    · split <;> simp [varOccs]
  | other r => simp [valToks, varOccs]

/-- what is claimed about one occurrence: a bound variable is printed with its entry of the name
    table, an existential variable with `?` + its recorded name -/
def Good (tbl : List String) (st : PState) : VarId × String → Prop
  | (.bound i, s) => tbl[i]? = some s
  | (.exist id, s) => ∃ s', s = "?" ++ s' ∧ (id, s') ∈ st.exist

/-- one printing step: invariant kept, `bound_names` untouched, `existential_names` only extended,
    all produced occurrences good -/
structure Step (tbl : List String) (st st' : PState) (occs : List (VarId × String)) : Prop where
  inv : Inv IdentLike st'
  bound : st'.bound = st.bound
  ext : ∀ p ∈ st.exist, p ∈ st'.exist
  good : ∀ o ∈ occs, Good tbl st' o

theorem Good.mono {tbl : List String} {st st' : PState} (h : ∀ p ∈ st.exist, p ∈ st'.exist)
    {o : VarId × String} (ho : Good tbl st o) : Good tbl st' o := by
  obtain ⟨v, s⟩ := o
  cases v with
  | bound i => exact ho
  | exist id =>
    obtain ⟨s', h1, h2⟩ := ho
    exact ⟨s', h1, h _ h2⟩

theorem Step.refl {tbl : List String} {st : PState} (h : Inv IdentLike st) : Step tbl st st [] :=
  ⟨h, rfl, fun _ hp => hp, by simp⟩

theorem Step.trans {tbl : List String} {st st1 st2 : PState} {a b : List (VarId × String)}
    (h1 : Step tbl st st1 a) (h2 : Step tbl st1 st2 b) : Step tbl st st2 (a ++ b) := by
  refine ⟨h2.inv, h2.bound.trans h1.bound, fun p hp => h2.ext p (h1.ext p hp), ?_⟩
  intro o ho
  rcases List.mem_append.mp ho with ho | ho
  · exact Good.mono h2.ext (h1.good o ho)
  · exact h2.good o ho

theorem lookup_mem {α β} [BEq α] [LawfulBEq α] (a : α) (b : β) :
    ∀ l : List (α × β), l.lookup a = some b → (a, b) ∈ l
  | [], h => by simp at h
  | (k, v) :: l, h => by
      simp only [List.lookup_cons] at h
      split at h
      · rename_i he
        simp only [beq_iff_eq] at he
        simp only [Option.some.injEq] at h
        simp [he, h]
      · exact List.mem_cons_of_mem _ (lookup_mem a b l h)

theorem lookup_none {α β} [BEq α] [LawfulBEq α] (a : α) :
    ∀ l : List (α × β), l.lookup a = none → a ∉ l.map (·.1)
  | [], _ => by simp
  | (k, v) :: l, h => by
      simp only [List.lookup_cons] at h
      split at h
      · simp at h
      · rename_i he
        have := lookup_none a l h
        simp only [List.map_cons, List.mem_cons, not_or]
        refine ⟨?_, this⟩
        intro e; subst e; simp at he

theorem ident_q : ∀ d, IdentLike d → NoQuote d := fun _ h => h.1

theorem step_exist (tbl : List String) (st : PState) (id : Nat) (n : String) (hinv : Inv IdentLike st)
    (hn : IdentLike n) :
    Step tbl st (existName st id n).2 [(.exist id, "?" ++ (existName st id n).1)] := by
  unfold existName
  cases h : st.exist.lookup id with
  | some s =>
    refine ⟨hinv, rfl, fun _ hp => hp, ?_⟩
    intro o ho
    simp only [List.mem_singleton] at ho
    subst ho
    exact ⟨s, rfl, lookup_mem id s _ h⟩
  | none =>
    obtain ⟨hnew, hold⟩ := freshName_spec IdentLike ident_q st n hn hinv
    have hkey := lookup_none id _ h
    refine ⟨⟨?_, ?_, ?_, ?_⟩, by simp [freshName_bound], ?_, ?_⟩
    · intro s hs
      have : s ∈ issuedNames st ∨ s = (freshName st n).1 := by
        simp only [issuedNames, freshName_exist, freshName_bound, List.map_cons, List.cons_append,
          List.mem_cons] at hs
        rcases hs with hs | hs
        · exact Or.inr hs
        · exact Or.inl (by simpa [issuedNames] using hs)
      simpa [cnt] using hold s this
    · simp only [issuedNames, freshName_exist, freshName_bound, List.map_cons, List.cons_append,
        List.nodup_cons]
      exact ⟨by simpa [issuedNames] using hnew, by simpa [issuedNames] using hinv.nodup⟩
    · simp only [freshName_exist, List.map_cons, List.nodup_cons]
      exact ⟨hkey, hinv.keys⟩
    · simpa using freshName_pos st n hinv.pos
    · intro p hp
      simp only [freshName_exist, List.mem_cons]
      exact Or.inr hp
    · intro o ho
      simp only [List.mem_singleton] at ho
      subst ho
      exact ⟨_, rfl, by simp⟩


/-! ## Printing a rank-1 body -/
/-- the name table agrees with what `_visit_BoundVar` prints for every admitted occurrence -/
def TableOK (tbl B : List String) (P : String → Nat → Prop) : Prop :=
  ∀ n i, P n i → tbl[i]? = some (match B[i]? with | some s => s | none => n)

theorem step_bound (tbl B : List String) (P : String → Nat → Prop) (HP : TableOK tbl B P) (st : PState)
    (hinv : Inv IdentLike st) (hb : st.bound = B) (n : String) (i : Nat) (hp : P n i) :
    Step tbl st st (varOccs [boundTok st n i]) := by
  refine ⟨hinv, rfl, fun _ h => h, ?_⟩
  intro o ho
  simp only [boundTok, varOccs, List.mem_singleton] at ho
  subst ho
  simp only [Good, hb]
  exact HP n i hp

theorem step_const (tbl B : List String) (P : String → Nat → Prop) (HP : TableOK tbl B P) (st : PState)
    (hinv : Inv IdentLike st) (hb : st.bound = B) (c : Const) (h : BodyConst P c) :
    Step tbl st (visitConst st c).2 (varOccs (visitConst st c).1) := by
  cases c with
  | val t v => simpa [visitConst] using Step.refl hinv
  | bvar t n i => simpa [visitConst] using step_bound tbl B P HP st hinv hb n i h
  | evar t n id => simpa [visitConst, varOccs] using step_exist tbl st id n hinv h

mutual
theorem step_ty (tbl B : List String) (P : String → Nat → Prop) (HP : TableOK tbl B P) :
    (t : Ty) → ∀ (st : PState) (b : Bool), Inv IdentLike st → st.bound = B → Body P t →
      Step tbl st (visitTy st t b).2 (varOccs (visitTy st t b).1)
  | .num _, st, _, hi, _, _ => by simpa [visitTy, varOccs] using Step.refl hi
  | .none _, st, _, hi, _, _ => by simpa [visitTy, varOccs] using Step.refl hi
  | .bvar n i _ _, st, _, hi, hb, h => by
      simpa [visitTy] using step_bound tbl B P HP st hi hb n i h
  | .evar n id _ _, st, _, hi, _, h => by
      simpa [visitTy, varOccs] using step_exist tbl st id n hi h
  | .tuple ts _, st, _, hi, hb, h => by
      have := step_tys tbl B P HP ts st false hi hb (by simpa [Body] using h)
      have e : varOccs (if ts.length = 1 then [Tok.comma] else []) = [] := by split <;> simp [varOccs]
      simpa [visitTy, varOccs, varOccs_append, e] using this
  | .opaque n as, st, _, hi, hb, h => by
      simp only [visitTy]
      split
      · simpa [varOccs] using Step.refl hi
      · have := step_args tbl B P HP as st false hi hb (by simpa [Body] using h)
        simpa [varOccs, varOccs_append] using this
  | .struct n as _, st, _, hi, hb, h => by
      simp only [visitTy]
      split
      · simpa [varOccs] using Step.refl hi
      · have := step_args tbl B P HP as st false hi hb (by simpa [Body] using h)
        simpa [varOccs, varOccs_append] using this
  | .func ins o ps cs, st, inside, hi, hb, h => by
      simp only [Body] at h
      obtain ⟨rfl, hins, ho⟩ := h
      have h1 := step_ins tbl B P HP ins st false hi hb hins
      have h2 := step_ty tbl B P HP o (visitIns st false ins).2 true h1.inv (h1.bound.trans hb) ho
      have h3 := Step.trans h1 h2
      simp only [visitTy, List.isEmpty_nil, ↓reduceIte, varOccs_wrap]
      by_cases hl : ins.length = 1
      · simpa [hl, varOccs, varOccs_append] using h3
      · simpa [hl, varOccs, varOccs_append] using h3
theorem step_tys (tbl B : List String) (P : String → Nat → Prop) (HP : TableOK tbl B P) :
    (ts : List Ty) → ∀ (st : PState) (sep : Bool), Inv IdentLike st → st.bound = B → BodyTys P ts →
      Step tbl st (visitTys st sep ts).2 (varOccs (visitTys st sep ts).1)
  | [], st, _, hi, _, _ => by simpa [visitTys, varOccs] using Step.refl hi
  | t :: ts, st, sep, hi, hb, h => by
      simp only [BodyTys] at h
      have h1 := step_ty tbl B P HP t st true hi hb h.1
      have h2 := step_tys tbl B P HP ts (visitTy st t true).2 true h1.inv (h1.bound.trans hb) h.2
      simpa [visitTys, varOccs_append] using Step.trans h1 h2
theorem step_arg (tbl B : List String) (P : String → Nat → Prop) (HP : TableOK tbl B P) :
    (a : Arg) → ∀ (st : PState), Inv IdentLike st → st.bound = B → BodyArg P a →
      Step tbl st (visitArg st a).2 (varOccs (visitArg st a).1)
  | .ty t, st, hi, hb, h => by
      simpa [visitArg] using step_ty tbl B P HP t st true hi hb (by simpa [BodyArg] using h)
  | .const c, st, hi, hb, h => by
      simpa [visitArg] using step_const tbl B P HP st hi hb c (by simpa [BodyArg] using h)
theorem step_args (tbl B : List String) (P : String → Nat → Prop) (HP : TableOK tbl B P) :
    (as : List Arg) → ∀ (st : PState) (sep : Bool), Inv IdentLike st → st.bound = B → BodyArgs P as →
      Step tbl st (visitArgs st sep as).2 (varOccs (visitArgs st sep as).1)
  | [], st, _, hi, _, _ => by simpa [visitArgs, varOccs] using Step.refl hi
  | a :: as, st, sep, hi, hb, h => by
      simp only [BodyArgs] at h
      have h1 := step_arg tbl B P HP a st hi hb h.1
      have h2 := step_args tbl B P HP as (visitArg st a).2 true h1.inv (h1.bound.trans hb) h.2
      simpa [visitArgs, varOccs_append] using Step.trans h1 h2
theorem step_in (tbl B : List String) (P : String → Nat → Prop) (HP : TableOK tbl B P) :
    (i : FuncIn) → ∀ (st : PState), Inv IdentLike st → st.bound = B → BodyIn P i →
      Step tbl st (visitIn st i).2 (varOccs (visitIn st i).1)
  | .mk t f, st, hi, hb, h => by
      simpa [visitIn, varOccs_append] using step_ty tbl B P HP t st true hi hb (by simpa [BodyIn] using h)
theorem step_ins (tbl B : List String) (P : String → Nat → Prop) (HP : TableOK tbl B P) :
    (is : List FuncIn) → ∀ (st : PState) (sep : Bool), Inv IdentLike st → st.bound = B → BodyIns P is →
      Step tbl st (visitIns st sep is).2 (varOccs (visitIns st sep is).1)
  | [], st, _, hi, _, _ => by simpa [visitIns, varOccs] using Step.refl hi
  | i :: is, st, sep, hi, hb, h => by
      simp only [BodyIns] at h
      have h1 := step_in tbl B P HP i st hi hb h.1
      have h2 := step_ins tbl B P HP is (visitIn st i).2 true h1.inv (h1.bound.trans hb) h.2
      simpa [visitIns, varOccs_append] using Step.trans h1 h2
end


/-! ## From good occurrences to "same name iff same variable" -/
theorem nodup_map_inj {α β} (f : α → β) : ∀ (l : List α), (l.map f).Nodup → ∀ x ∈ l, ∀ y ∈ l, f x = f y → x = y
  | [], _, _, hx, _, _, _ => by simp at hx
  | a :: l, h, x, hx, y, hy, e => by
      simp only [List.map_cons, List.nodup_cons, List.mem_map, not_exists, not_and] at h
      rcases List.mem_cons.mp hx with rfl | hx' <;> rcases List.mem_cons.mp hy with rfl | hy'
      · rfl
      · exact absurd e.symm (h.1 y hy')
      · exact absurd e (h.1 x hx')
      · exact nodup_map_inj f l h.2 x hx' y hy' e

theorem qmark_prefix_mem (b : String) : '?' ∈ ("?" ++ b).toList := by
  simp [String.toList_append]

theorem good_iff (tbl : List String) (st : PState) (hinv : Inv IdentLike st) (htbl : tbl.Nodup)
    (hq : ∀ s ∈ tbl, '?' ∉ s.toList) (o1 o2 : VarId × String) (h1 : Good tbl st o1) (h2 : Good tbl st o2) :
    o1.2 = o2.2 ↔ o1.1 = o2.1 := by
  have hnames : (st.exist.map (·.2)).Nodup := (List.nodup_append.mp hinv.nodup).1
  obtain ⟨v1, s1⟩ := o1
  obtain ⟨v2, s2⟩ := o2
  cases v1 with
  | bound i =>
    cases v2 with
    | bound j =>
      simp only [Good] at h1 h2
      have hi : i < tbl.length := by
        rcases Nat.lt_or_ge i tbl.length with h | h
        · exact h
        · simp [List.getElem?_eq_none h] at h1
      simp only [VarId.bound.injEq]
      rw [← List.getElem?_inj hi htbl, h1, h2]
      simp
    | exist id =>
      simp only [Good] at h1 h2
      obtain ⟨b, rfl, _⟩ := h2
      have hmem : s1 ∈ tbl := List.mem_of_getElem? h1
      constructor
      · intro e
        have e' : s1 = "?" ++ b := e
        exact absurd (by rw [e']; exact qmark_prefix_mem b) (hq s1 hmem)
      · intro e; simp at e
  | exist id =>
    cases v2 with
    | bound j =>
      simp only [Good] at h1 h2
      obtain ⟨b, rfl, _⟩ := h1
      have hmem : s2 ∈ tbl := List.mem_of_getElem? h2
      constructor
      · intro e
        have e' : s2 = "?" ++ b := e.symm
        exact absurd (by rw [e']; exact qmark_prefix_mem b) (hq s2 hmem)
      · intro e; simp at e
    | exist id' =>
      simp only [Good] at h1 h2
      obtain ⟨a, rfl, ha⟩ := h1
      obtain ⟨b, rfl, hb⟩ := h2
      simp only [String.append_right_inj, VarId.exist.injEq]
      constructor
      · intro e
        have := nodup_map_inj (·.2) _ hnames _ ha _ hb e
        simpa using congrArg Prod.fst this
      · intro e
        have := nodup_map_inj (·.1) _ hinv.keys _ ha _ hb e
        simpa using congrArg Prod.snd this

theorem issued_no_qmark (st : PState) (hinv : Inv IdentLike st) : ∀ s ∈ st.bound, '?' ∉ s.toList := by
  intro s hs
  obtain ⟨d, k, hd, rfl, _⟩ := hinv.issued s (by simp [issuedNames, hs])
  exact mkName_no_qmark d k hd.2

theorem bound_nodup {Q : String → Prop} (st : PState) (hinv : Inv Q st) : st.bound.Nodup :=
  (List.nodup_append.mp hinv.nodup).2.1

/-! ## The quantifier list -/
theorem step_params (B : List String) (P : String → Nat → Prop) (HP : TableOK B B P) :
    ∀ (ps : List Param) (k : Nat) (st : PState) (sep : Bool), Inv IdentLike st → st.bound = B →
      ParamsOK P k ps → k + ps.length ≤ B.length →
      Step B st (visitParams st sep ps).2 (varOccs (visitParams st sep ps).1)
  | [], _, st, _, hi, _, _, _ => by simpa [visitParams, varOccs] using Step.refl hi
  | p :: ps, k, st, sep, hi, hb, h, hk => by
      simp only [ParamsOK] at h
      obtain ⟨_, hidx, hty, hrest⟩ := h
      simp only [List.length_cons] at hk
      simp only [visitParams]
      split
      · exact step_params B P HP ps (k + 1) st sep hi hb hrest (by omega)
      · have hklt : k < B.length := by omega
        have hget : B[k]? = some B[k] := List.getElem?_eq_getElem hklt
        cases p with
        | ty idx n c d =>
          simp only [paramIdx] at hidx
          subst hidx
          have h2 := step_params B P HP ps (idx + 1) st true hi hb hrest (by omega)
          have h1 : Step B st st [(.bound idx, B[idx])] :=
            ⟨hi, rfl, fun _ hp => hp, by intro o ho; simp only [List.mem_singleton] at ho; subst ho; exact hget⟩
          simpa [visitParam, paramTok, hb, hget, varOccs, varOccs_append] using Step.trans h1 h2
        | const idx n ty fc =>
          simp only [paramIdx] at hidx
          subst hidx
          simp only [paramTyBody] at hty
          have h1 := step_ty B B P HP ty st true hi hb hty
          have hb1 := h1.bound.trans hb
          have h1' : Step B (visitTy st ty true).2 (visitTy st ty true).2 [(.bound idx, B[idx])] :=
            ⟨h1.inv, rfl, fun _ hp => hp, by intro o ho; simp only [List.mem_singleton] at ho; subst ho; exact hget⟩
          have h2 := step_params B P HP ps (idx + 1) (visitTy st ty true).2 true h1.inv hb1 hrest (by omega)
          have h3 := Step.trans (Step.trans h1 h1') h2
          refine ⟨by simpa [visitParam] using h3.inv, by simpa [visitParam] using h3.bound,
            by simpa [visitParam] using h3.ext, ?_⟩
          intro o ho
          have hg := h3.good o
          simp only [visitParam, paramTok, hb1, hget, varOccs, varOccs_append, varOccs_sepToks,
            List.nil_append, List.mem_cons, List.mem_append] at ho
          simp only [List.mem_append, List.mem_singleton, visitParam] at hg ⊢
          apply hg
          rcases ho with (ho | ho) | ho
          · exact Or.inl (Or.inr ho)
          · exact Or.inl (Or.inl ho)
          · exact Or.inr ho


/-! ## Assembly -/
theorem paramsOK_names (P : String → Nat → Prop) : ∀ (ps : List Param) (k : Nat), ParamsOK P k ps →
    ∀ d ∈ ps.map paramName, IdentLike d
  | [], _, _ => by simp
  | p :: ps, k, h => by
      simp only [ParamsOK] at h
      intro d hd
      simp only [List.map_cons, List.mem_cons] at hd
      rcases hd with rfl | hd
      · exact h.1
      · exact paramsOK_names P ps (k + 1) h.2.2.2 d hd

theorem names_open (ctxNames : List String) (t : Ty) (h : OpenOK ctxNames t) :
    ∀ o1 ∈ varOccs (printToks t), ∀ o2 ∈ varOccs (printToks t), (o1.2 = o2.2 ↔ o1.1 = o2.1) := by
  obtain ⟨hnd, hid, hbody⟩ := h
  have HP : TableOK ctxNames [] (fun n i => ctxNames[i]? = some n) := by
    intro n i h; simpa using h
  have hs := step_ty ctxNames [] _ HP t .init false (inv_init _) rfl hbody
  intro o1 h1 o2 h2
  exact good_iff ctxNames _ hs.inv hnd (fun s hs' => (hid s hs').2) o1 o2 (hs.good o1 h1) (hs.good o2 h2)

theorem names_generic (ins : List FuncIn) (o : Ty) (ps : List Param) (cs : List Const) (hne : ps ≠ [])
    (hps : ParamsOK (fun _ i => i < ps.length) 0 ps) (hins : BodyIns (fun _ i => i < ps.length) ins)
    (ho : Body (fun _ i => i < ps.length) o) :
    ∀ o1 ∈ varOccs (printToks (.func ins o ps cs)), ∀ o2 ∈ varOccs (printToks (.func ins o ps cs)),
      (o1.2 = o2.2 ↔ o1.1 = o2.1) := by
  obtain ⟨hi1, hlen, _⟩ := inv_pushParams IdentLike ident_q (ps.map paramName) .init
    (paramsOK_names _ ps 0 hps) (inv_init _)
  generalize hst1 : pushParams PState.init (ps.map paramName) = st1 at hi1 hlen
  simp only [PState.init, List.length_nil, List.length_map, Nat.zero_add] at hlen
  have HP : TableOK st1.bound st1.bound (fun _ i => i < ps.length) := by
    intro n i hi
    have : i < st1.bound.length := by omega
    simp [List.getElem?_eq_getElem this]
  have h1 := step_ins st1.bound st1.bound _ HP ins st1 false hi1 rfl hins
  have h2 := step_ty st1.bound st1.bound _ HP o (visitIns st1 false ins).2 true h1.inv h1.bound ho
  have h3 := step_params st1.bound _ HP ps 0 (visitTy (visitIns st1 false ins).2 o true).2 false h2.inv
    (h2.bound.trans h1.bound) hps (by omega)
  have hall := Step.trans (Step.trans h1 h2) h3
  have hE : ps.isEmpty = false := by cases ps <;> simp_all
  have hocc : ∀ x ∈ varOccs (printToks (.func ins o ps cs)),
      x ∈ varOccs (visitIns st1 false ins).1 ++ varOccs (visitTy (visitIns st1 false ins).2 o true).1 ++
        varOccs (visitParams (visitTy (visitIns st1 false ins).2 o true).2 false ps).1 := by
    intro x hx
    simp only [printToks, visitTy, hE, Bool.false_eq_true, ↓reduceIte, hst1, wrap] at hx
    by_cases hl : ins.length = 1
    · simp only [hl, ↓reduceIte, varOccs, varOccs_append, List.mem_append] at hx
      simp only [List.mem_append]
      rcases hx with (hx | hx) | hx
      · exact Or.inr hx
      · exact Or.inl (Or.inl hx)
      · exact Or.inl (Or.inr hx)
    · simp only [hl, ↓reduceIte, varOccs, varOccs_append, List.mem_append, List.cons_append,
        List.not_mem_nil, or_false] at hx
      simp only [List.mem_append]
      rcases hx with (hx | hx) | hx
      · exact Or.inr hx
      · exact Or.inl (Or.inl hx)
      · exact Or.inl (Or.inr hx)
  intro o1 ho1 o2 ho2
  exact good_iff st1.bound _ hall.inv
    (bound_nodup _ hi1)
    (by
      have := issued_no_qmark _ hall.inv
      rw [hall.bound] at this
      exact this)
    o1 o2 (hall.good o1 (hocc o1 ho1)) (hall.good o2 (hocc o2 ho2))

/-- the names `bound_names` receives for a list of display names -/
theorem fresh_bound (Q : String → Prop) (hQ : ∀ d, Q d → NoQuote d) (ds : List String) (h : ∀ d ∈ ds, Q d) :
    (pushParams .init ds).bound.Nodup ∧ (pushParams .init ds).bound.length = ds.length := by
  obtain ⟨hi, hl, _⟩ := inv_pushParams Q hQ ds .init h (inv_init Q)
  exact ⟨bound_nodup _ hi, by simpa [PState.init] using hl⟩

end GuppyVerif.Print
