import GuppyVerif.Lemmas.C07
namespace GuppyVerif.Places

/-! ## Wire level, nested-subscript paths `x[i₁]…[i_m]` of any depth -/

/-- place id of `s_j` on a pure-subscript path -/
def sid : Nat → PlaceId
  | 0 => []
  | j + 1 => sid j ++ [.sub (j + 1)]

def arrN : Nat → Ty
  | 0 => .q
  | n + 1 => .arr (arrN n)

def subPath (is : List Nat) : CPath := ⟨is.map (fun i => ⟨[], i⟩), []⟩

theorem sid_length (j : Nat) : (sid j).length = j := by
  induction j with
  | zero => rfl
  | succ j ih => simp [sid, ih]

theorem sid_inj {j k : Nat} (h : sid j = sid k) : j = k := by
  have := congrArg List.length h
  simpa [sid_length] using this

/-! ### compile-state bookkeeping -/

theorem CS.find_set (s : CS) (p q : PlaceId) (w : Nat) :
    (s.set p w).find q = if q = p then some w else s.find q := by
  unfold CS.find CS.set
  by_cases h : q = p
  · subst h; simp
  · simp only [h, ↓reduceIte]
    rw [List.find?_cons_of_neg (by simp [Ne.symm h]), List.find?_filter]
    have : (fun a : PlaceId × Nat => decide ((a.1 != p) = true ∧ (a.1 == q) = true))
        = (fun a => a.1 == q) := by
      funext a
      by_cases ha : a.1 = q
      · simp [ha, h]
      · simp [ha]
    rw [this]

theorem CS.addOp_find (s : CS) (op : Op) (args : List Nat) (n : Nat) (q : PlaceId) :
    (s.addOp op args n).1.find q = s.find q := rfl

theorem CS.addOp_bad (s : CS) (op : Op) (args : List Nat) (n : Nat) :
    (s.addOp op args n).1.bad = s.bad := rfl

theorem CS.set_bad (s : CS) (p : PlaceId) (w : Nat) : (s.set p w).bad = s.bad := rfl

/-! ### running what has been emitted so far -/

theorem runInstrsW_append (f : V → V) (a b : List Instr) (env : List W) :
    runInstrsW f (a ++ b) env = (runInstrsW f a env >>= runInstrsW f b) := by
  induction a generalizing env with
  | nil => rfl
  | cons i is ih =>
    simp only [List.cons_append, runInstrsW]
    cases lookupW env i.args with
    | error e => rfl
    | ok args =>
      simp only [bind, Except.bind]
      cases stepW f i.op args with
      | error e => rfl
      | ok outs =>
        simp only
        by_cases h : outs.length = i.nout
        · simp only [h, ↓reduceIte]; exact ih _
        · simp only [h, ↓reduceIte]; rfl

theorem getElem?_append_some' {β} {l m : List β} {w : Nat} {v : β} (h : l[w]? = some v) :
    (l ++ m)[w]? = some v := by
  have hw : w < l.length := by
    rcases Nat.lt_or_ge w l.length with h' | h'
    · exact h'
    · rw [List.getElem?_eq_none h'] at h; cases h
  rw [List.getElem?_append_left hw]; exact h

theorem lookupW_of (env : List W) (ws : List Nat) (vs : List W)
    (h : ws.map (fun w => env[w]?) = vs.map some) : lookupW env ws = .ok vs := by
  induction ws generalizing vs with
  | nil => cases vs with
    | nil => rfl
    | cons v vs => simp at h
  | cons w ws ih =>
    cases vs with
    | nil => simp at h
    | cons v vs =>
      simp only [List.map_cons, List.cons.injEq] at h
      simp only [lookupW, h.1, ih vs h.2, bind, Except.bind, pure, Except.pure]

/-- the instructions emitted so far, run on the inputs, produce `env`; wires are allocated densely -/
def Sem (f : V → V) (inputs : List W) (cs : CS) (env : List W) : Prop :=
  runInstrsW f cs.instrs.reverse inputs = .ok env ∧ env.length = cs.next

theorem Sem_addOp (f : V → V) (inputs : List W) (cs : CS) (env : List W) (op : Op)
    (args : List Nat) (n : Nat) (vals outs : List W) (h : Sem f inputs cs env)
    (hl : lookupW env args = .ok vals) (hs : stepW f op vals = .ok outs) (hn : outs.length = n) :
    Sem f inputs (cs.addOp op args n).1 (env ++ outs) ∧
      (cs.addOp op args n).2 = (List.range n).map (· + env.length) := by
  obtain ⟨hrun, hlen⟩ := h
  refine ⟨⟨?_, ?_⟩, ?_⟩
  · simp only [CS.addOp, List.reverse_cons, runInstrsW_append, hrun, bind, Except.bind, runInstrsW,
      hl, hs, hn, ↓reduceIte]
    rfl
  · simp [CS.addOp, hlen, hn]
  · simp [CS.addOp, hlen]

/-! ### abstract side: inversion and frames on pure-subscript paths -/

theorem runA_append_ok (f : V → V) (p : CPath) (a b : List AOp) (s s' : Slots)
    (h : runA f p (a ++ b) s = .ok s') : ∃ s1, runA f p a s = .ok s1 ∧ runA f p b s1 = .ok s' := by
  rw [runA_append] at h
  cases h1 : runA f p a s with
  | error e => simp [h1, bind, Except.bind] at h
  | ok s1 => exact ⟨s1, rfl, by simpa [h1, bind, Except.bind] using h⟩

theorem runA_single_ok (f : V → V) (p : CPath) (o : AOp) (s s' : Slots)
    (h : runA f p [o] s = .ok s') : stepA f p s o = .ok s' := by
  simp only [runA, bind, Except.bind] at h
  cases h1 : stepA f p s o with
  | error e => simp [h1] at h
  | ok s1 => simp [h1, pure, Except.pure] at h; rw [h]

theorem subPath_chunk (is : List Nat) (j : Nat) :
    (subPath is).chunks[j]? = (is[j]?).map (fun i => ⟨[], i⟩) := by
  simp [subPath]

theorem getP_idx (i : Nat) (x e : V) (h : getP [.idx i] x = some e) :
    ∃ cs, x = .arr cs ∧ cs[i]? = some e := by
  cases x <;> simp [getP] at h
  rename_i cs
  cases hc : cs[i]? with
  | none => simp [hc] at h
  | some c => simp [hc, getP] at h; exact ⟨cs, rfl, by rw [hc, h]⟩

theorem stepA_borrow_inv (f : V → V) (is : List Nat) (j : Nat) (s s2 : Slots)
    (h : stepA f (subPath is) s (.borrow (j + 1)) = .ok s2) :
    ∃ i cs e, is[j]? = some i ∧ s j = .arr cs ∧ cs[i]? = some e ∧ e.isHole = false ∧
      s2 = upd (upd s j (.arr (cs.set i .hole))) (j + 1) e := by
  simp only [stepA, Nat.add_sub_cancel, subPath_chunk] at h
  cases hi : is[j]? with
  | none => simp [hi] at h
  | some i =>
    simp only [hi, Option.map_some, Chunk.steps, List.map_nil, List.nil_append] at h
    cases hg : getP [.idx i] (s j) with
    | none => simp [hg] at h
    | some e =>
      obtain ⟨cs, hs, hc⟩ := getP_idx i _ _ hg
      simp only [hg] at h
      cases he : e.isHole with
      | true => simp [he] at h
      | false =>
        simp only [he, Bool.false_eq_true, ↓reduceIte, hs, putP, hc, pure, Except.pure,
          Except.ok.injEq] at h
        exact ⟨i, cs, e, rfl, hs, hc, he, h.symm⟩

theorem stepA_ret_inv (f : V → V) (is : List Nat) (j : Nat) (s s2 : Slots)
    (h : stepA f (subPath is) s (.ret (j + 1)) = .ok s2) :
    ∃ i cs, is[j]? = some i ∧ s j = .arr cs ∧ cs[i]? = some .hole ∧
      s2 = upd s j (.arr (cs.set i (s (j + 1)))) := by
  simp only [stepA, Nat.add_sub_cancel, subPath_chunk] at h
  cases hi : is[j]? with
  | none => simp [hi] at h
  | some i =>
    simp only [hi, Option.map_some, Chunk.steps, List.map_nil, List.nil_append] at h
    cases hg : getP [.idx i] (s j) with
    | none => simp [hg] at h
    | some e =>
      obtain ⟨cs, hs, hc⟩ := getP_idx i _ _ hg
      simp only [hg] at h
      cases e with
      | hole =>
        simp only [V.isHole, Bool.not_true, Bool.false_eq_true, ↓reduceIte, hs, putP, hc, pure,
          Except.pure, Except.ok.injEq] at h
        exact ⟨i, cs, rfl, hs, hc, h.symm⟩
      | _ => simp [V.isHole] at h

theorem stepA_call_inv (f : V → V) (is : List Nat) (s s2 : Slots)
    (h : stepA f (subPath is) s .call = .ok s2) :
    s2 = upd s is.length (f (s is.length)) := by
  simp [stepA, subPath, CPath.tailSteps, getP, putP, pure, Except.pure] at h
  exact h.symm

theorem ls_frame (f : V → V) (is : List Nat) : ∀ j,
    (∀ s s', runA f (subPath is) (load j) s = .ok s' → ∀ k, j < k → s' k = s k) ∧
    (∀ s s', runA f (subPath is) (store j) s = .ok s' → ∀ k, j < k → s' k = s k) := by
  intro j
  induction j with
  | zero =>
    constructor <;> intro s s' h k _ <;> simp [load, store, loadStore, runA, pure, Except.pure] at h <;>
      rw [← h]
  | succ j ih =>
    obtain ⟨ihL, ihS⟩ := ih
    constructor
    · intro s s' h k hk
      rw [load_succ] at h
      obtain ⟨s2, h12, h3⟩ := runA_append_ok _ _ _ _ _ _ h
      obtain ⟨s1, h1, h2⟩ := runA_append_ok _ _ _ _ _ _ h12
      obtain ⟨i, cs, e, _, _, _, _, rfl⟩ := stepA_borrow_inv _ _ _ _ _ (runA_single_ok _ _ _ _ _ h2)
      rw [ihS _ _ h3 k (by omega), upd_other _ _ _ _ (by omega), upd_other _ _ _ _ (by omega),
        ihL _ _ h1 k (by omega)]
    · intro s s' h k hk
      rw [store_succ] at h
      obtain ⟨s2, h12, h3⟩ := runA_append_ok _ _ _ _ _ _ h
      obtain ⟨s1, h1, h2⟩ := runA_append_ok _ _ _ _ _ _ h12
      obtain ⟨i, cs, _, _, _, rfl⟩ := stepA_ret_inv _ _ _ _ _ (runA_single_ok _ _ _ _ _ h2)
      rw [ihS _ _ h3 k (by omega), upd_other _ _ _ _ (by omega), ihL _ _ h1 k (by omega)]

/-! ### levels of a pure-subscript path -/

theorem arrN_succ_sub (m k : Nat) (h : k < m) : arrN (m - k) = .arr (arrN (m - k - 1)) := by
  have : m - k = (m - k - 1) + 1 := by omega
  rw [this]; simp [arrN]

theorem mkLevels_sub : ∀ (is : List Nat) (j0 k : Nat),
    (mkLevels (arrN is.length) (sid j0) (is.map fun i => (⟨[], i⟩ : Chunk)) (j0 + 1))[k]? =
      if k < is.length then some ⟨sid (j0 + k), arrN (is.length - k), [], j0 + k + 1⟩ else none
  | [], j0, k => by simp [mkLevels]
  | i :: is, j0, 0 => by simp [mkLevels]
  | i :: is, j0, k + 1 => by
    have ih := mkLevels_sub is (j0 + 1) k
    have e1 : j0 + 1 + k = j0 + (k + 1) := by omega
    have e2 : j0 + 1 + k + 1 = j0 + (k + 1) + 1 := by omega
    simp only [List.map_cons, mkLevels, List.length_cons, List.getElem?_cons_succ, Level.elemTy,
      Level.arrTy, tyProj, Option.getD_some, arrN, arrElemTy, List.map_nil, List.append_nil]
    have hs : sid j0 ++ [PStep.sub (j0 + 1)] = sid (j0 + 1) := rfl
    rw [hs, ih, e1]
    simp

theorem dget_found (ty : Ty) (p : PlaceId) (s : CS) (w : Nat) (h : s.find p = some w) :
    dget ty p s = (s, w) := by
  cases ty <;> simp [dget, h]

theorem dset_arrN (n : Nat) (p : PlaceId) (w : Nat) (s : CS) : dset (arrN n) p w s = s.set p w := by
  cases n <;> simp [arrN, dset]

/-! ### one array access at wire level -/

section wire
variable (f : V → V) (inputs : List W)

theorem wstep_borrow (cs : CS) (env : List W) (iw aw i : Nat) (cells : List V) (e : V)
    (hS : Sem f inputs cs env) (ha : env[aw]? = some (.val (.arr cells)))
    (hi : env[iw]? = some (.int i)) (hc : cells[i]? = some e) (he : e.isHole = false) :
    Sem f inputs ((cs.addOp .itousize [iw] 1).1.addOp .borrow
        [aw, (cs.addOp .itousize [iw] 1).2.headD 0] 2).1
      (env ++ [.usize i] ++ [.val (.arr (cells.set i .hole)), .val e]) ∧
    ((cs.addOp .itousize [iw] 1).1.addOp .borrow [aw, (cs.addOp .itousize [iw] 1).2.headD 0] 2).2
      = [env.length + 1, env.length + 2] := by
  obtain ⟨h1, w1⟩ := Sem_addOp f inputs cs env .itousize [iw] 1 [.int i] [.usize i] hS
    (lookupW_of _ _ _ (by simp [hi])) rfl rfl
  have hu : (cs.addOp .itousize [iw] 1).2.headD 0 = env.length := by rw [w1]; simp
  rw [hu]
  obtain ⟨h2, w2⟩ := Sem_addOp f inputs _ _ .borrow [aw, env.length] 2
    [.val (.arr cells), .usize i] [.val (.arr (cells.set i .hole)), .val e] h1
    (lookupW_of _ _ _ (by simp [getElem?_append_some' ha]))
    (by simp [stepW, hc, he, pure, Except.pure]) rfl
  refine ⟨h2, ?_⟩
  rw [w2]; simp [List.range_succ]; omega

theorem wstep_ret (cs : CS) (env : List W) (iw aw tw i : Nat) (cells : List V) (v : V)
    (hS : Sem f inputs cs env) (ha : env[aw]? = some (.val (.arr cells)))
    (hi : env[iw]? = some (.int i)) (ht : env[tw]? = some (.val v))
    (hc : cells[i]? = some .hole) :
    Sem f inputs ((cs.addOp .itousize [iw] 1).1.addOp .ret
        [aw, (cs.addOp .itousize [iw] 1).2.headD 0, tw] 1).1
      (env ++ [.usize i] ++ [.val (.arr (cells.set i v))]) ∧
    ((cs.addOp .itousize [iw] 1).1.addOp .ret [aw, (cs.addOp .itousize [iw] 1).2.headD 0, tw] 1).2
      = [env.length + 1] := by
  obtain ⟨h1, w1⟩ := Sem_addOp f inputs cs env .itousize [iw] 1 [.int i] [.usize i] hS
    (lookupW_of _ _ _ (by simp [hi])) rfl rfl
  have hu : (cs.addOp .itousize [iw] 1).2.headD 0 = env.length := by rw [w1]; simp
  rw [hu]
  obtain ⟨h2, w2⟩ := Sem_addOp f inputs _ _ .ret [aw, env.length, tw] 1
    [.val (.arr cells), .usize i, .val v] [.val (.arr (cells.set i v))] h1
    (lookupW_of _ _ _ (by simp [getElem?_append_some' ha, getElem?_append_some' ht]))
    (by simp [stepW, hc, V.isHole, pure, Except.pure]) rfl
  refine ⟨h2, ?_⟩
  rw [w2]; simp

end wire

/-! ### the cascade at wire level simulates the place level -/

theorem loadW_succ_eq (lv : List Level) (j : Nat) (l : Level) (h : lv[j]? = some l) (cs : CS) :
    (loadStoreW lv (j + 1)).1 cs =
      dset l.elemTy (subId l (j + 1)) (borrowStepW l ((loadStoreW lv j).1 cs)).2
        ((loadStoreW lv j).2 (borrowStepW l ((loadStoreW lv j).1 cs)).1) := by
  simp only [loadStoreW, h]

theorem storeW_succ_eq (lv : List Level) (j : Nat) (l : Level) (h : lv[j]? = some l) (cs : CS) :
    (loadStoreW lv (j + 1)).2 cs =
      (loadStoreW lv j).2 (retStepW l (dget l.elemTy (subId l (j + 1)) cs).2
        ((loadStoreW lv j).1 (dget l.elemTy (subId l (j + 1)) cs).1)) := by
  simp only [loadStoreW, h]

section sim
variable (f : V → V) (is : List Nat) (inputs : List W)

/-- the index variables are the inputs `1 … m` -/
def IdxOK (env : List W) : Prop := ∀ k i, is[k]? = some i → env[k + 1]? = some (.int i)

/-- containers `0 … J` are bound to wires that carry the abstract slot values -/
def RepUpTo (cs : CS) (env : List W) (s : Slots) (J : Nat) : Prop :=
  ∀ k, k ≤ J → ∃ w, cs.find (sid k) = some w ∧ env[w]? = some (.val (s k))

theorem IdxOK_ext {env d : List W} (h : IdxOK is env) : IdxOK is (env ++ d) :=
  fun k i hk => getElem?_append_some' (h k i hk)

theorem RepUpTo_ext {cs : CS} {env d : List W} {s : Slots} {J : Nat} (h : RepUpTo cs env s J) :
    RepUpTo cs (env ++ d) s J :=
  fun k hk => by obtain ⟨w, h1, h2⟩ := h k hk; exact ⟨w, h1, getElem?_append_some' h2⟩

/-- the level record of subscript `k+1` on a pure-subscript path -/
def lvl (k : Nat) : Level := ⟨sid k, arrN (is.length - k), [], k + 1⟩

theorem lv_get (k : Nat) (h : k < is.length) :
    (mkLevels (arrN is.length) [] (subPath is).chunks 1)[k]? = some (lvl is k) := by
  have := mkLevels_sub is 0 k
  simpa [sid, h, subPath, lvl] using this

theorem lvl_arrId (k : Nat) : (lvl is k).arrId = sid k := by simp [lvl, Level.arrId]
theorem lvl_arrTy (k : Nat) : (lvl is k).arrTy = arrN (is.length - k) := by
  simp [lvl, Level.arrTy, tyProj]
theorem lvl_elemTy (k : Nat) (h : k < is.length) : (lvl is k).elemTy = arrN (is.length - k - 1) := by
  simp [Level.elemTy, lvl_arrTy, arrN_succ_sub _ _ h, arrElemTy]
theorem lvl_subId (k : Nat) : subId (lvl is k) (k + 1) = sid (k + 1) := by
  simp [subId, lvl_arrId, sid]

theorem borrowStepW_eq (cs : CS) (k aw : Nat) (hf : cs.find (sid k) = some aw) :
    borrowStepW (lvl is k) cs =
      (((cs.addOp .itousize [k + 1] 1).1.addOp .borrow
          [aw, (cs.addOp .itousize [k + 1] 1).2.headD 0] 2).1.set (sid k)
        (((cs.addOp .itousize [k + 1] 1).1.addOp .borrow
          [aw, (cs.addOp .itousize [k + 1] 1).2.headD 0] 2).2.headD 0),
       ((cs.addOp .itousize [k + 1] 1).1.addOp .borrow
          [aw, (cs.addOp .itousize [k + 1] 1).2.headD 0] 2).2.tail.headD 0) := by
  unfold borrowStepW
  simp only [lvl_arrId, lvl_arrTy, dget_found _ _ _ _ hf, dset_arrN]
  rfl

theorem retStepW_eq (cs : CS) (k aw tmp : Nat) (hf : cs.find (sid k) = some aw) :
    retStepW (lvl is k) tmp cs =
      ((cs.addOp .itousize [k + 1] 1).1.addOp .ret
          [aw, (cs.addOp .itousize [k + 1] 1).2.headD 0, tmp] 1).1.set (sid k)
        (((cs.addOp .itousize [k + 1] 1).1.addOp .ret
          [aw, (cs.addOp .itousize [k + 1] 1).2.headD 0, tmp] 1).2.headD 0) := by
  unfold retStepW
  simp only [lvl_arrId, lvl_arrTy, dget_found _ _ _ _ hf, dset_arrN]
  rfl

/-- `borrowStepW` at level `k+1` when container `k` is bound to an array wire -/
theorem borrowStepW_spec (cs : CS) (env : List W) (k aw i : Nat) (cells : List V) (e : V)
    (hS : Sem f inputs cs env) (hf : cs.find (sid k) = some aw)
    (ha : env[aw]? = some (.val (.arr cells))) (hi : env[k + 1]? = some (.int i))
    (hc : cells[i]? = some e) (he : e.isHole = false) :
    Sem f inputs (borrowStepW (lvl is k) cs).1
        (env ++ [.usize i] ++ [.val (.arr (cells.set i .hole)), .val e]) ∧
      (∀ q, (borrowStepW (lvl is k) cs).1.find q
        = if q = sid k then some (env.length + 1) else cs.find q) ∧
      (borrowStepW (lvl is k) cs).2 = env.length + 2 ∧
      (borrowStepW (lvl is k) cs).1.bad = cs.bad := by
  obtain ⟨h2, w2⟩ := wstep_borrow f inputs cs env (k + 1) aw i cells e hS ha hi hc he
  rw [borrowStepW_eq is cs k aw hf, w2]
  refine ⟨⟨h2.1, h2.2⟩, ?_, rfl, rfl⟩
  intro q
  rw [CS.find_set]
  by_cases hq : q = sid k <;> simp [hq, CS.addOp_find]

theorem retStepW_spec (cs : CS) (env : List W) (k aw tw i : Nat) (cells : List V) (v : V)
    (hS : Sem f inputs cs env) (hf : cs.find (sid k) = some aw)
    (ha : env[aw]? = some (.val (.arr cells))) (hi : env[k + 1]? = some (.int i))
    (ht : env[tw]? = some (.val v)) (hc : cells[i]? = some .hole) :
    Sem f inputs (retStepW (lvl is k) tw cs) (env ++ [.usize i] ++ [.val (.arr (cells.set i v))]) ∧
      (∀ q, (retStepW (lvl is k) tw cs).find q
        = if q = sid k then some (env.length + 1) else cs.find q) ∧
      (retStepW (lvl is k) tw cs).bad = cs.bad := by
  obtain ⟨h2, w2⟩ := wstep_ret f inputs cs env (k + 1) aw tw i cells v hS ha hi ht hc
  rw [retStepW_eq is cs k aw tw hf, w2]
  refine ⟨⟨h2.1, h2.2⟩, ?_, rfl⟩
  intro q
  rw [CS.find_set]
  by_cases hq : q = sid k <;> simp [hq, CS.addOp_find]

theorem app_idx1 {β} (l : List β) (a b c : β) : (l ++ [a] ++ [b, c])[l.length + 1]? = some b := by
  simp [List.getElem?_append_right]
theorem app_idx2 {β} (l : List β) (a b c : β) : (l ++ [a] ++ [b, c])[l.length + 2]? = some c := by
  simp [List.getElem?_append_right]
theorem app_idx0 {β} (l : List β) (a : β) : (l ++ [a])[l.length]? = some a := by simp
theorem app_idx1' {β} (l : List β) (a b : β) : (l ++ [a] ++ [b])[l.length + 1]? = some b := by
  simp [List.getElem?_append_right]

theorem RepUpTo_mono {cs : CS} {env : List W} {s : Slots} {J J' : Nat} (h : RepUpTo cs env s J)
    (hJ : J' ≤ J) : RepUpTo cs env s J' := fun k hk => h k (Nat.le_trans hk hJ)

theorem sid_ne {j k : Nat} (h : j ≠ k) : sid j ≠ sid k := fun e => h (sid_inj e)

theorem simLS : ∀ j, j ≤ is.length →
    (∀ (s s' : Slots) (cs : CS) (env : List W),
      runA f (subPath is) (load j) s = .ok s' → Sem f inputs cs env → cs.bad = false →
      IdxOK is env → RepUpTo cs env s 0 →
      ∃ d, Sem f inputs ((loadStoreW (mkLevels (arrN is.length) [] (subPath is).chunks 1) j).1 cs) (env ++ d) ∧
        ((loadStoreW (mkLevels (arrN is.length) [] (subPath is).chunks 1) j).1 cs).bad = false ∧
        RepUpTo ((loadStoreW (mkLevels (arrN is.length) [] (subPath is).chunks 1) j).1 cs) (env ++ d) s' j ∧
        ∀ k, j < k →
          ((loadStoreW (mkLevels (arrN is.length) [] (subPath is).chunks 1) j).1 cs).find (sid k)
            = cs.find (sid k)) ∧
    (∀ (s s' : Slots) (cs : CS) (env : List W),
      runA f (subPath is) (store j) s = .ok s' → Sem f inputs cs env → cs.bad = false →
      IdxOK is env → RepUpTo cs env s j →
      ∃ d, Sem f inputs ((loadStoreW (mkLevels (arrN is.length) [] (subPath is).chunks 1) j).2 cs) (env ++ d) ∧
        ((loadStoreW (mkLevels (arrN is.length) [] (subPath is).chunks 1) j).2 cs).bad = false ∧
        RepUpTo ((loadStoreW (mkLevels (arrN is.length) [] (subPath is).chunks 1) j).2 cs) (env ++ d) s' j ∧
        ∀ k, j < k →
          ((loadStoreW (mkLevels (arrN is.length) [] (subPath is).chunks 1) j).2 cs).find (sid k)
            = cs.find (sid k)) := by
  intro j
  induction j with
  | zero =>
    intro _
    constructor
    · intro s s' cs env h hS hb _ hR
      simp [load, loadStore, runA, pure, Except.pure] at h
      subst h
      exact ⟨[], by simpa [loadStoreW] using hS, by simpa [loadStoreW] using hb,
        by simpa [loadStoreW] using hR, fun _ _ => rfl⟩
    · intro s s' cs env h hS hb _ hR
      simp [store, loadStore, runA, pure, Except.pure] at h
      subst h
      exact ⟨[], by simpa [loadStoreW] using hS, by simpa [loadStoreW] using hb,
        by simpa [loadStoreW] using hR, fun _ _ => rfl⟩
  | succ j ih =>
    intro hle
    have hj : j < is.length := hle
    obtain ⟨ihL, ihS⟩ := ih (Nat.le_of_lt hj)
    have hl := lv_get is j hj
    obtain ⟨frL, frS⟩ := ls_frame f is j
    constructor
    · -- load (j+1)
      intro s s' cs env h hS hb hI hR
      rw [load_succ] at h
      obtain ⟨s2, h12, h3⟩ := runA_append_ok _ _ _ _ _ _ h
      obtain ⟨s1, h1, h2⟩ := runA_append_ok _ _ _ _ _ _ h12
      obtain ⟨i, cells, e, hi, hs1j, hc, he, hs2⟩ :=
        stepA_borrow_inv _ _ _ _ _ (runA_single_ok _ _ _ _ _ h2)
      obtain ⟨d1, S1, b1, R1, F1⟩ := ihL s s1 cs env h1 hS hb hI hR
      obtain ⟨aw, hf, ha⟩ := R1 j (Nat.le_refl j)
      rw [hs1j] at ha
      have hI1 := IdxOK_ext is (d := d1) hI
      obtain ⟨SB, FB, wB, bB⟩ := borrowStepW_spec f is inputs _ _ j aw i cells e S1 hf ha
        (hI1 j i hi) hc he
      have hI3 := IdxOK_ext is (d := [W.val (V.arr (cells.set i V.hole)), W.val e])
        (IdxOK_ext is (d := [W.usize i]) hI1)
      have R2 : RepUpTo (borrowStepW (lvl is j)
          ((loadStoreW (mkLevels (arrN is.length) [] (subPath is).chunks 1) j).1 cs)).1
          (env ++ d1 ++ [W.usize i] ++ [W.val (V.arr (cells.set i V.hole)), W.val e]) s2 j := by
        intro k hk
        rw [FB]
        by_cases hkj : k = j
        · subst hkj
          refine ⟨(env ++ d1).length + 1, by simp, ?_⟩
          rw [app_idx1, hs2, upd_other _ _ _ _ (by omega), upd_same]
        · obtain ⟨w, hw1, hw2⟩ := R1 k (by omega)
          refine ⟨w, by simp [sid_ne hkj, hw1], ?_⟩
          rw [hs2, upd_other _ _ _ _ (by omega), upd_other _ _ _ _ hkj]
          exact getElem?_append_some' (getElem?_append_some' hw2)
      obtain ⟨d3, S3, b3, R3, F3⟩ := ihS s2 s' _ _ h3 SB (by rw [bB]; exact b1) hI3 R2
      rw [loadW_succ_eq _ j (lvl is j) hl, lvl_elemTy is j hj, lvl_subId, dset_arrN, wB]
      refine ⟨d1 ++ ([W.usize i] ++ ([W.val (V.arr (cells.set i V.hole)), W.val e] ++ d3)), ?_, ?_, ?_, ?_⟩
      · have : env ++ (d1 ++ ([W.usize i] ++ ([W.val (V.arr (cells.set i V.hole)), W.val e] ++ d3)))
            = env ++ d1 ++ [W.usize i] ++ [W.val (V.arr (cells.set i V.hole)), W.val e] ++ d3 := by
          simp
        rw [this]; exact S3
      · exact b3
      · have henv : env ++ (d1 ++ ([W.usize i] ++ ([W.val (V.arr (cells.set i V.hole)), W.val e] ++ d3)))
            = env ++ d1 ++ [W.usize i] ++ [W.val (V.arr (cells.set i V.hole)), W.val e] ++ d3 := by
          simp
        rw [henv]
        intro k hk
        rw [CS.find_set]
        by_cases hkj : k = j + 1
        · subst hkj
          refine ⟨(env ++ d1).length + 2, by simp, ?_⟩
          rw [frS _ _ h3 (j + 1) (by omega), hs2, upd_same]
          exact getElem?_append_some' (app_idx2 _ _ _ _)
        · obtain ⟨w, hw1, hw2⟩ := R3 k (by omega)
          exact ⟨w, by simp [sid_ne hkj, hw1], hw2⟩
      · intro k hk
        rw [CS.find_set, if_neg (sid_ne (by omega)), F3 k (by omega), FB,
          if_neg (sid_ne (by omega)), F1 k (by omega)]
    · -- store (j+1)
      intro s s' cs env h hS hb hI hR
      rw [store_succ] at h
      obtain ⟨s2, h12, h3⟩ := runA_append_ok _ _ _ _ _ _ h
      obtain ⟨s1, h1, h2⟩ := runA_append_ok _ _ _ _ _ _ h12
      obtain ⟨i, cells, hi, hs1j, hc, hs2⟩ :=
        stepA_ret_inv _ _ _ _ _ (runA_single_ok _ _ _ _ _ h2)
      obtain ⟨tw, hft, hat⟩ := hR (j + 1) (Nat.le_refl _)
      obtain ⟨d1, S1, b1, R1, F1⟩ := ihL s s1 cs env h1 hS hb hI (RepUpTo_mono hR (by omega))
      obtain ⟨aw, hf, ha⟩ := R1 j (Nat.le_refl j)
      rw [hs1j] at ha
      have hI1 := IdxOK_ext is (d := d1) hI
      have hat1 : (env ++ d1)[tw]? = some (W.val (s1 (j + 1))) := by
        rw [frL _ _ h1 (j + 1) (by omega)]; exact getElem?_append_some' hat
      obtain ⟨S2, F2, b2⟩ := retStepW_spec f is inputs _ _ j aw tw i cells (s1 (j + 1)) S1 hf ha
        (hI1 j i hi) hat1 hc
      have hI2 := IdxOK_ext is (d := [W.val (V.arr (cells.set i (s1 (j + 1))))])
        (IdxOK_ext is (d := [W.usize i]) hI1)
      have hft1 : ((loadStoreW (mkLevels (arrN is.length) [] (subPath is).chunks 1) j).1 cs).find
          (sid (j + 1)) = some tw := by rw [F1 (j + 1) (by omega)]; exact hft
      have R2 : RepUpTo (retStepW (lvl is j) tw
          ((loadStoreW (mkLevels (arrN is.length) [] (subPath is).chunks 1) j).1 cs))
          (env ++ d1 ++ [W.usize i] ++ [W.val (V.arr (cells.set i (s1 (j + 1))))]) s2 (j + 1) := by
        intro k hk
        rw [F2]
        by_cases hkj : k = j
        · subst hkj
          refine ⟨(env ++ d1).length + 1, by simp, ?_⟩
          rw [app_idx1', hs2, upd_same]
        · by_cases hkj1 : k = j + 1
          · subst hkj1
            refine ⟨tw, by simp [sid_ne hkj, hft1], ?_⟩
            rw [hs2, upd_other _ _ _ _ hkj]
            exact getElem?_append_some' (getElem?_append_some' hat1)
          · obtain ⟨w, hw1, hw2⟩ := R1 k (by omega)
            refine ⟨w, by simp [sid_ne hkj, hw1], ?_⟩
            rw [hs2, upd_other _ _ _ _ hkj]
            exact getElem?_append_some' (getElem?_append_some' hw2)
      obtain ⟨d3, S3, b3, R3, F3⟩ := ihS s2 s' _ _ h3 S2 (by rw [b2]; exact b1) hI2
        (RepUpTo_mono R2 (by omega))
      rw [storeW_succ_eq _ j (lvl is j) hl, lvl_elemTy is j hj, lvl_subId,
        dget_found _ _ _ _ hft]
      refine ⟨d1 ++ ([W.usize i] ++ ([W.val (V.arr (cells.set i (s1 (j + 1))))] ++ d3)), ?_, b3, ?_, ?_⟩
      · have : env ++ (d1 ++ ([W.usize i] ++ ([W.val (V.arr (cells.set i (s1 (j + 1))))] ++ d3)))
            = env ++ d1 ++ [W.usize i] ++ [W.val (V.arr (cells.set i (s1 (j + 1))))] ++ d3 := by simp
        rw [this]; exact S3
      · have henv : env ++ (d1 ++ ([W.usize i] ++ ([W.val (V.arr (cells.set i (s1 (j + 1))))] ++ d3)))
            = env ++ d1 ++ [W.usize i] ++ [W.val (V.arr (cells.set i (s1 (j + 1))))] ++ d3 := by simp
        rw [henv]
        intro k hk
        by_cases hkj1 : k = j + 1
        · subst hkj1
          obtain ⟨w, hw1, hw2⟩ := R2 (j + 1) (Nat.le_refl _)
          refine ⟨w, by rw [F3 (j + 1) (by omega)]; exact hw1, ?_⟩
          rw [frS _ _ h3 (j + 1) (by omega)]
          exact getElem?_append_some' hw2
        · exact R3 k (by omega)
      · intro k hk
        rw [F3 k (by omega), F2, if_neg (sid_ne (by omega)), F1 k (by omega)]

/-- **wire level, nested subscripts**: whenever the place-level sequence for `callee(x[i₁]…[i_m])`
    succeeds with result `X'`, the wire-level op list the model emits (borrow/return operands and
    results, `itousize` of the right index variable, re-binding of the array places) computes
    exactly `X'` from the inputs `x, i₁, …, i_m`. -/
theorem wire_sim_subscripts (c : String) (X X' : V)
    (h : callBorrowA f (subPath is) X = .ok X') :
    runW f (emitW (arrN is.length) (subPath is) c) (.val X :: is.map .int) = .ok [.val X'] := by
  have hm : (subPath is).chunks.length = is.length := by simp [subPath]
  -- abstract run
  unfold callBorrowA at h
  rw [hm] at h
  cases hr : runA f (subPath is) (emitAbs is.length) (initSlots X) with
  | error e => simp [hr, bind, Except.bind] at h
  | ok s3 =>
    simp only [hr, bind, Except.bind, pure, Except.pure, Except.ok.injEq] at h
    subst h
    unfold emitAbs at hr
    obtain ⟨s2, h12, h3⟩ := runA_append_ok _ _ _ _ _ _ hr
    obtain ⟨s1, h1, h2⟩ := runA_append_ok _ _ _ _ _ _ h12
    have hs2 := stepA_call_inv _ _ _ _ (runA_single_ok _ _ _ _ _ h2)
    obtain ⟨simL, simS⟩ := simLS f is (.val X :: is.map .int) is.length (Nat.le_refl _)
    -- initial wire state
    let cs0 : CS := ({ next := is.length + 1 } : CS).set [] 0
    have S0 : Sem f (.val X :: is.map .int) cs0 (.val X :: is.map .int) := by
      constructor
      · rfl
      · simp [cs0, CS.set]
    have I0 : IdxOK is (.val X :: is.map .int) := by
      intro k i hk; simp [hk]
    have R0 : RepUpTo cs0 (.val X :: is.map .int) (initSlots X) 0 := by
      intro k hk
      have : k = 0 := by omega
      subst this
      exact ⟨0, by simp [cs0, CS.find_set, sid], by simp [initSlots]⟩
    obtain ⟨d1, S1, b1, R1, _⟩ := simL _ s1 cs0 _ h1 S0 rfl I0 R0
    -- the call
    obtain ⟨w, hfw, haw⟩ := R1 is.length (Nat.le_refl _)
    obtain ⟨S2, o2⟩ := Sem_addOp f _ _ _ (.call c) [w] 1 [.val (s1 is.length)]
      [.val (f (s1 is.length))] S1
      (lookupW_of _ _ _ (by simp only [List.map_cons, List.map_nil, haw])) rfl rfl
    have R2 : RepUpTo
        ((((loadStoreW (mkLevels (arrN is.length) [] (subPath is).chunks 1) is.length).1 cs0).addOp
          (.call c) [w] 1).1.set (sid is.length) ((W.val X :: is.map W.int) ++ d1).length)
        ((W.val X :: is.map W.int) ++ d1 ++ [.val (f (s1 is.length))]) s2 is.length := by
      intro k hk
      rw [CS.find_set]
      by_cases hkm : k = is.length
      · subst hkm
        exact ⟨((W.val X :: is.map W.int) ++ d1).length, by simp,
          by rw [hs2, upd_same]; exact app_idx0 _ _⟩
      · obtain ⟨w', hw1, hw2⟩ := R1 k hk
        refine ⟨w', by simp [sid_ne hkm, CS.addOp_find, hw1], ?_⟩
        rw [hs2, upd_other _ _ _ _ hkm]
        exact getElem?_append_some' hw2
    have S2' : Sem f (W.val X :: is.map W.int)
        ((((loadStoreW (mkLevels (arrN is.length) [] (subPath is).chunks 1) is.length).1 cs0).addOp
          (.call c) [w] 1).1.set (sid is.length) ((W.val X :: is.map W.int) ++ d1).length)
        ((W.val X :: is.map W.int) ++ d1 ++ [.val (f (s1 is.length))]) := S2
    obtain ⟨d3, S3, b3, R3, _⟩ := simS s2 s3 _ _ h3 S2' (by simpa [CS.set_bad, CS.addOp_bad] using b1)
      (IdxOK_ext is (IdxOK_ext is I0)) R2
    obtain ⟨w0, hf0, ha0⟩ := R3 0 (Nat.zero_le _)
    -- unfold the emission
    have hlast : (mkLevels (arrN is.length) [] (subPath is).chunks 1)[is.length - 1]? =
        if 0 < is.length then some (lvl is (is.length - 1)) else none := by
      by_cases hpos : 0 < is.length
      · simp only [hpos, ↓reduceIte]; exact lv_get is _ (by omega)
      · have : is = [] := List.eq_nil_of_length_eq_zero (by omega)
        subst this; simp [mkLevels, subPath]
    have hpid : lastPlace (arrN is.length) (mkLevels (arrN is.length) [] (subPath is).chunks 1)
        is.length = (sid is.length, arrN 0) := by
      unfold lastPlace
      rw [hlast]
      by_cases hpos : 0 < is.length
      · simp only [hpos, ↓reduceIte]
        have e1 : is.length = (is.length - 1) + 1 := by omega
        have := lvl_subId is (is.length - 1)
        rw [← e1] at this
        rw [this, lvl_elemTy is _ (by omega)]
        congr 2; omega
      · have : is = [] := List.eq_nil_of_length_eq_zero (by omega)
        subst this; rfl
    have htail : (subPath is).tail = [] := rfl
    unfold emitW
    simp only [hm, htail, List.map_nil, List.append_nil]
    rw [hpid]
    simp only [tyProj, Option.getD_some, dset_arrN]
    rw [dget_found _ _ _ _ hfw]
    simp only [o2, List.range_one, List.map_cons, List.map_nil, Nat.zero_add, List.headD_cons,
      dset_arrN]
    rw [dget_found _ ([] : PlaceId) _ _ hf0]
    simp only [b3, Bool.false_eq_true, ↓reduceIte]
    unfold runW
    simp only [List.length_cons, List.length_map, ne_eq, not_true_eq_false, ↓reduceIte, S3.1, bind,
      Except.bind]
    exact lookupW_of _ _ _ (by simp only [List.map_cons, List.map_nil, ha0])

end sim

end GuppyVerif.Places
