import GuppyVerif.Spec.C28
/-! Helper lemmas for C28. -/
namespace GuppyVerif.EmuConfig

open Spec

theorem argsOf_append (heap extra : List Sim) (c : Inst) (h : c.sim < heap.length) :
    argsOf (heap ++ extra) c = argsOf heap c := by
  unfold argsOf
  rw [List.getElem?_append_left h]

theorem argsOf_isSome (heap : List Sim) (c : Inst) (h : c.sim < heap.length) :
    (argsOf heap c).isSome = true := by
  unfold argsOf
  rw [List.getElem?_eq_getElem h]; rfl

/-- the repaired `derive` only ever appends to the heap, and the new instance refers to a live object -/
theorem derive_fixed_heap (heap : List Sim) (c : Inst) (d : Deriv) (h' : List Sim) (c' : Inst)
    (hc : c.sim < heap.length) (hd : derive true heap c d = some (h', c')) :
    (∃ extra, h' = heap ++ extra) ∧ c'.sim < h'.length := by
  cases d <;> simp only [derive] at hd
  case seed v =>
    rw [List.getElem?_eq_getElem hc] at hd
    simp only [↓reduceIte, Option.some.injEq, Prod.mk.injEq] at hd
    obtain ⟨rfl, rfl⟩ := hd
    exact ⟨⟨_, rfl⟩, by simp⟩
  case simulator sid =>
    split at hd
    · simp only [Option.some.injEq, Prod.mk.injEq] at hd
      obtain ⟨rfl, rfl⟩ := hd
      exact ⟨⟨[], by simp⟩, by assumption⟩
    · cases hd
  all_goals
    simp only [Option.some.injEq, Prod.mk.injEq] at hd
    obtain ⟨rfl, rfl⟩ := hd
    first
      | exact ⟨⟨[], by simp⟩, hc⟩
      | exact ⟨⟨_, rfl⟩, by simp⟩

theorem step_fixed (s s' : State) (op : Op) (hw : WF s) (hs : step true s op = some s') :
    WF s' ∧ (∃ extra, s'.heap = s.heap ++ extra) ∧ (∃ more, s'.insts = s.insts ++ more) ∧
    (∃ more, s'.log = s.log ++ more) := by
  cases op with
  | newSim k sd =>
    simp only [step, Option.some.injEq] at hs
    subst hs
    refine ⟨?_, ⟨_, rfl⟩, ⟨[], by simp⟩, ⟨[], by simp⟩⟩
    intro c hc; have := hw c hc; simp; omega
  | derive i d =>
    simp only [step] at hs
    cases hi : s.insts[i]? with
    | none => simp [hi] at hs
    | some c =>
      simp only [hi] at hs
      have hcm : c ∈ s.insts := List.mem_of_getElem? hi
      cases hd : derive true s.heap c d with
      | none => simp [hd] at hs
      | some r =>
        obtain ⟨h', c'⟩ := r
        simp only [hd, Option.some.injEq] at hs
        subst hs
        obtain ⟨⟨extra, he⟩, hc'⟩ := derive_fixed_heap s.heap c d h' c' (hw c hcm) hd
        refine ⟨?_, ⟨extra, he⟩, ⟨[c'], rfl⟩, ⟨[], by simp⟩⟩
        intro x hx
        simp only [List.mem_append, List.mem_singleton] at hx
        rcases hx with hx | rfl
        · have := hw x hx; simp only [he, List.length_append]; omega
        · exact hc'
  | run i =>
    simp only [step] at hs
    cases hv : view s i with
    | none => simp [hv] at hs
    | some a =>
      simp only [hv, Option.some.injEq] at hs
      subst hs
      exact ⟨hw, ⟨[], by simp⟩, ⟨[], by simp⟩, ⟨_, rfl⟩⟩

theorem view_stable (s s' : State) (hw : WF s) (extra : List Sim) (more : List Inst)
    (hh : s'.heap = s.heap ++ extra) (hi : s'.insts = s.insts ++ more) (j : Nat)
    (hj : j < s.insts.length) : view s' j = view s j := by
  unfold view
  rw [hi, List.getElem?_append_left hj, hh]
  rw [List.getElem?_eq_getElem hj]
  exact argsOf_append _ _ _ (hw _ (List.getElem_mem hj))

theorem step_view (s s' : State) (op : Op) (hw : WF s) (hs : step true s op = some s') (j : Nat)
    (hj : j < s.insts.length) : view s' j = view s j := by
  obtain ⟨_, ⟨extra, hh⟩, ⟨more, hi⟩, _⟩ := step_fixed s s' op hw hs
  exact view_stable s s' hw extra more hh hi j hj

theorem runOps_fixed (ops : List Op) : ∀ (s s' : State), WF s → runOps true s ops = some s' →
    WF s' ∧ s.insts.length ≤ s'.insts.length ∧
    (∀ j, j < s.insts.length → view s' j = view s j) := by
  induction ops with
  | nil => intro s s' hw h; simp only [runOps, Option.some.injEq] at h; subst h; exact ⟨hw, Nat.le_refl _, fun _ _ => rfl⟩
  | cons op ops ih =>
    intro s s' hw h
    simp only [runOps] at h
    cases hs : step true s op with
    | none => simp [hs] at h
    | some s₁ =>
      simp only [hs] at h
      obtain ⟨hw₁, _, ⟨more, hi⟩, _⟩ := step_fixed s s₁ op hw hs
      obtain ⟨hw', hlen, hv⟩ := ih s₁ s' hw₁ h
      have hl : s.insts.length ≤ s₁.insts.length := by rw [hi]; simp
      refine ⟨hw', Nat.le_trans hl hlen, fun j hj => ?_⟩
      rw [hv j (Nat.lt_of_lt_of_le hj hl)]
      exact step_view s s₁ op hw hs j hj

/-- log invariant: everything logged for instance `j` is what `j` shows now -/
def LogOK (s : State) : Prop := ∀ e ∈ s.log, e.1 < s.insts.length ∧ view s e.1 = some e.2

theorem step_logOK (s s' : State) (op : Op) (hw : WF s) (hl : LogOK s) (hs : step true s op = some s') :
    LogOK s' := by
  obtain ⟨_, ⟨extra, hh⟩, ⟨more, hi⟩, _⟩ := step_fixed s s' op hw hs
  have old : ∀ e ∈ s.log, e.1 < s'.insts.length ∧ view s' e.1 = some e.2 := by
    intro e he
    obtain ⟨h1, h2⟩ := hl e he
    refine ⟨by rw [hi]; simp; omega, ?_⟩
    rw [view_stable s s' hw extra more hh hi e.1 h1]; exact h2
  cases op with
  | newSim k sd =>
    simp only [step, Option.some.injEq] at hs; subst hs; exact old
  | derive i d =>
    have hlog : s'.log = s.log := by
      simp only [step] at hs
      cases h1 : s.insts[i]? with
      | none => simp [h1] at hs
      | some c =>
        simp only [h1] at hs
        cases h2 : derive true s.heap c d with
        | none => simp [h2] at hs
        | some r => simp only [h2, Option.some.injEq] at hs; subst hs; rfl
    intro e he; rw [hlog] at he; exact old e he
  | run i =>
    simp only [step] at hs
    cases hv : view s i with
    | none => simp [hv] at hs
    | some a =>
      simp only [hv, Option.some.injEq] at hs
      subst hs
      intro e he
      simp only [List.mem_append, List.mem_singleton] at he
      rcases he with he | rfl
      · exact hl e he
      · have hi' : i < s.insts.length := by
          unfold view at hv
          cases h1 : s.insts[i]? with
          | none => simp [h1] at hv
          | some c => exact (List.getElem?_eq_some_iff.mp h1).1
        exact ⟨hi', hv⟩

theorem runOps_logOK (ops : List Op) : ∀ (s s' : State), WF s → LogOK s → runOps true s ops = some s' →
    LogOK s' := by
  induction ops with
  | nil => intro s s' _ hl h; simp only [runOps, Option.some.injEq] at h; subst h; exact hl
  | cons op ops ih =>
    intro s s' hw hl h
    simp only [runOps] at h
    cases hs : step true s op with
    | none => simp [hs] at h
    | some s₁ =>
      simp only [hs] at h
      exact ih s₁ s' (step_fixed s s₁ op hw hs).1 (step_logOK s s₁ op hw hl hs) h

end GuppyVerif.EmuConfig
