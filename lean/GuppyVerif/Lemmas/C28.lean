import GuppyVerif.Spec.C28
/-! Helper lemmas for C28. -/
namespace GuppyVerif.EmuConfig

open Spec

/-- what `WF` says about one instance -/
def RefsOK (heap : List Sim) (comps : List (Option Nat)) (c : Inst) : Prop :=
  c.sim < heap.length ∧ c.runtime < comps.length ∧ c.errorModel < comps.length ∧ c.eventHook < comps.length

theorem argsOf_append (heap extra : List Sim) (comps cx : List (Option Nat)) (c : Inst)
    (h : RefsOK heap comps c) : argsOf (heap ++ extra) (comps ++ cx) c = argsOf heap comps c := by
  obtain ⟨h1, h2, h3, h4⟩ := h
  unfold argsOf
  rw [List.getElem?_append_left h1, List.getElem?_append_left h2, List.getElem?_append_left h3,
    List.getElem?_append_left h4]

theorem argsOf_isSome (heap : List Sim) (comps : List (Option Nat)) (c : Inst) (h : RefsOK heap comps c) :
    (argsOf heap comps c).isSome = true := by
  obtain ⟨h1, h2, h3, h4⟩ := h
  unfold argsOf
  rw [List.getElem?_eq_getElem h1, List.getElem?_eq_getElem h2, List.getElem?_eq_getElem h3,
    List.getElem?_eq_getElem h4]; rfl

/-- the repaired `derive` only ever appends to the heap, the new instance refers to live
    objects and keeps its origin -/
theorem derive_fixed_heap (heap : List Sim) (comps : List (Option Nat)) (c : Inst) (d : Deriv)
    (h' : List Sim) (c' : Inst) (hc : RefsOK heap comps c) (hd : derive true heap comps c d = some (h', c')) :
    (∃ extra, h' = heap ++ extra) ∧ RefsOK h' comps c' ∧ c'.origin = c.origin := by
  obtain ⟨h1, h2, h3, h4⟩ := hc
  cases d <;> simp only [derive] at hd
  case seed v =>
    rw [List.getElem?_eq_getElem h1] at hd
    simp only [↓reduceIte, Option.some.injEq, Prod.mk.injEq] at hd
    obtain ⟨rfl, rfl⟩ := hd
    exact ⟨⟨_, rfl⟩, ⟨by simp, h2, h3, h4⟩, rfl⟩
  case simulator sid =>
    split at hd
    · simp only [Option.some.injEq, Prod.mk.injEq] at hd
      obtain ⟨rfl, rfl⟩ := hd
      exact ⟨⟨[], by simp⟩, ⟨by assumption, h2, h3, h4⟩, rfl⟩
    · cases hd
  case runtime r =>
    split at hd
    · simp only [Option.some.injEq, Prod.mk.injEq] at hd
      obtain ⟨rfl, rfl⟩ := hd
      exact ⟨⟨[], by simp⟩, ⟨h1, by assumption, h3, h4⟩, rfl⟩
    · cases hd
  case errorModel r =>
    split at hd
    · simp only [Option.some.injEq, Prod.mk.injEq] at hd
      obtain ⟨rfl, rfl⟩ := hd
      exact ⟨⟨[], by simp⟩, ⟨h1, h2, by assumption, h4⟩, rfl⟩
    · cases hd
  case eventHook r =>
    split at hd
    · simp only [Option.some.injEq, Prod.mk.injEq] at hd
      obtain ⟨rfl, rfl⟩ := hd
      exact ⟨⟨[], by simp⟩, ⟨h1, h2, h3, by assumption⟩, rfl⟩
    · cases hd
  all_goals
    simp only [Option.some.injEq, Prod.mk.injEq] at hd
    obtain ⟨rfl, rfl⟩ := hd
    first
      | exact ⟨⟨[], by simp⟩, ⟨h1, h2, h3, h4⟩, rfl⟩
      | exact ⟨⟨_, rfl⟩, ⟨by simp, h2, h3, h4⟩, rfl⟩

theorem RefsOK.mono {heap x : List Sim} {comps cx : List (Option Nat)} {c : Inst}
    (h : RefsOK heap comps c) : RefsOK (heap ++ x) (comps ++ cx) c := by
  obtain ⟨h1, h2, h3, h4⟩ := h
  refine ⟨?_, ?_, ?_, ?_⟩ <;> simp only [List.length_append] <;> omega

/-- every list of the state only grows -/
structure Ext (s s' : State) : Prop where
  heap : ∃ x, s'.heap = s.heap ++ x
  comps : ∃ x, s'.comps = s.comps ++ x
  insts : ∃ x, s'.insts = s.insts ++ x
  log : ∃ x, s'.log = s.log ++ x
  builders : ∃ x, s'.builders = s.builders ++ x
  blog : ∃ x, s'.blog = s.blog ++ x

theorem Ext.refl (s : State) : Ext s s :=
  ⟨⟨[], by simp⟩, ⟨[], by simp⟩, ⟨[], by simp⟩, ⟨[], by simp⟩, ⟨[], by simp⟩, ⟨[], by simp⟩⟩

theorem Ext.trans {a b c : State} (h₁ : Ext a b) (h₂ : Ext b c) : Ext a c := by
  obtain ⟨⟨x1, e1⟩, ⟨x0, e0⟩, ⟨x2, e2⟩, ⟨x3, e3⟩, ⟨x4, e4⟩, ⟨x5, e5⟩⟩ := h₁
  obtain ⟨⟨y1, f1⟩, ⟨y0, f0⟩, ⟨y2, f2⟩, ⟨y3, f3⟩, ⟨y4, f4⟩, ⟨y5, f5⟩⟩ := h₂
  exact ⟨⟨x1 ++ y1, by rw [f1, e1, List.append_assoc]⟩, ⟨x0 ++ y0, by rw [f0, e0, List.append_assoc]⟩,
    ⟨x2 ++ y2, by rw [f2, e2, List.append_assoc]⟩,
    ⟨x3 ++ y3, by rw [f3, e3, List.append_assoc]⟩, ⟨x4 ++ y4, by rw [f4, e4, List.append_assoc]⟩,
    ⟨x5 ++ y5, by rw [f5, e5, List.append_assoc]⟩⟩

theorem WF_ext_old {s s' : State} (hw : WF s) (he : Ext s s') :
    s'.comps[0]? = some none ∧ ∀ c ∈ s.insts, RefsOK s'.heap s'.comps c ∧ ∀ o, c.origin = some o → o < s'.blog.length := by
  obtain ⟨x, hx⟩ := he.heap
  obtain ⟨cx, hcx⟩ := he.comps
  obtain ⟨bx, hbx⟩ := he.blog
  refine ⟨?_, fun c hc => ?_⟩
  · have h0 : 0 < s.comps.length := by
      have := hw.1; exact (List.getElem?_eq_some_iff.mp this).1
    rw [hcx, List.getElem?_append_left h0]; exact hw.1
  · obtain ⟨r, o⟩ := hw.2 c hc
    rw [hx, hcx, hbx]
    exact ⟨RefsOK.mono r, fun k hk => by have := o k hk; simp only [List.length_append]; omega⟩

theorem step_fixed (s s' : State) (op : Op) (hw : WF s) (hs : step true s op = some s') :
    WF s' ∧ Ext s s' := by
  have key : ∀ (he : Ext s s'), (∀ c ∈ s'.insts, c ∈ s.insts ∨
      (RefsOK s'.heap s'.comps c ∧ ∀ o, c.origin = some o → o < s'.blog.length)) → WF s' ∧ Ext s s' := by
    intro he hn
    obtain ⟨h0, hold⟩ := WF_ext_old hw he
    refine ⟨⟨h0, fun c hc => ?_⟩, he⟩
    rcases hn c hc with h | h
    · exact hold c h
    · exact h
  cases op with
  | newSim k sd =>
    simp only [step, Option.some.injEq] at hs
    subst hs
    exact key ⟨⟨_, rfl⟩, ⟨[], by simp⟩, ⟨[], by simp⟩, ⟨[], by simp⟩, ⟨[], by simp⟩, ⟨[], by simp⟩⟩
      (fun c hc => Or.inl hc)
  | newComp sd =>
    simp only [step, Option.some.injEq] at hs
    subst hs
    exact key ⟨⟨[], by simp⟩, ⟨_, rfl⟩, ⟨[], by simp⟩, ⟨[], by simp⟩, ⟨[], by simp⟩, ⟨[], by simp⟩⟩
      (fun c hc => Or.inl hc)
  | derive i d =>
    simp only [step] at hs
    cases hi : s.insts[i]? with
    | none => simp [hi] at hs
    | some c =>
      simp only [hi] at hs
      have hcm : c ∈ s.insts := List.mem_of_getElem? hi
      cases hd : derive true s.heap s.comps c d with
      | none => simp [hd] at hs
      | some r =>
        obtain ⟨h', c'⟩ := r
        simp only [hd, Option.some.injEq] at hs
        subst hs
        obtain ⟨⟨extra, he⟩, hc', ho⟩ := derive_fixed_heap s.heap s.comps c d h' c' (hw.2 c hcm).1 hd
        refine key ⟨⟨extra, he⟩, ⟨[], by simp⟩, ⟨[c'], rfl⟩, ⟨[], by simp⟩, ⟨[], by simp⟩, ⟨[], by simp⟩⟩ ?_
        intro x hx
        simp only [List.mem_append, List.mem_singleton] at hx
        rcases hx with hx | rfl
        · exact Or.inl hx
        · exact Or.inr ⟨hc', by rw [ho]; exact (hw.2 c hcm).2⟩
  | run i =>
    simp only [step] at hs
    cases hv : view s i with
    | none => simp [hv] at hs
    | some a =>
      simp only [hv, Option.some.injEq] at hs
      subst hs
      exact key ⟨⟨[], by simp⟩, ⟨[], by simp⟩, ⟨[], by simp⟩, ⟨_, rfl⟩, ⟨[], by simp⟩, ⟨[], by simp⟩⟩
        (fun c hc => Or.inl hc)
  | bderive i d =>
    simp only [step] at hs
    cases hb : s.builders[i]? with
    | none => simp [hb] at hs
    | some b =>
      simp only [hb, Option.some.injEq] at hs
      subst hs
      exact key ⟨⟨[], by simp⟩, ⟨[], by simp⟩, ⟨[], by simp⟩, ⟨[], by simp⟩, ⟨_, rfl⟩, ⟨[], by simp⟩⟩
        (fun c hc => Or.inl hc)
  | build i n =>
    simp only [step] at hs
    cases hb : s.builders[i]? with
    | none => simp [hb] at hs
    | some b =>
      simp only [hb, Option.some.injEq] at hs
      subst hs
      refine key ⟨⟨_, rfl⟩, ⟨[], by simp⟩, ⟨_, rfl⟩, ⟨[], by simp⟩, ⟨[], by simp⟩, ⟨_, rfl⟩⟩ ?_
      intro x hx
      simp only [List.mem_append, List.mem_singleton] at hx
      rcases hx with hx | rfl
      · exact Or.inl hx
      · have h0 : 0 < s.comps.length := (List.getElem?_eq_some_iff.mp hw.1).1
        exact Or.inr ⟨⟨by simp [defaultInst], h0, h0, h0⟩,
          fun o ho => by simp [defaultInst] at ho; subst ho; simp⟩

theorem view_stable (s s' : State) (hw : WF s) (he : Ext s s') (j : Nat)
    (hj : j < s.insts.length) : view s' j = view s j := by
  obtain ⟨extra, hh⟩ := he.heap
  obtain ⟨cx, hc⟩ := he.comps
  obtain ⟨more, hi⟩ := he.insts
  unfold view
  rw [hi, List.getElem?_append_left hj, hh, hc]
  rw [List.getElem?_eq_getElem hj]
  exact argsOf_append _ _ _ _ _ (hw.2 _ (List.getElem_mem hj)).1

theorem originArgs_stable (s s' : State) (hw : WF s) (he : Ext s s') (j : Nat)
    (hj : j < s.insts.length) : originArgs s' j = originArgs s j := by
  obtain ⟨more, hi⟩ := he.insts
  obtain ⟨mb, hb⟩ := he.blog
  unfold originArgs
  rw [hi, List.getElem?_append_left hj, List.getElem?_eq_getElem hj]
  cases ho : (s.insts[j]).origin with
  | none => simp only [ho]
  | some o =>
    have := (hw.2 _ (List.getElem_mem hj)).2 o ho
    simp only [ho, hb, List.getElem?_append_left this]

theorem bview_stable (s s' : State) (he : Ext s s') (j : Nat) (hj : j < s.builders.length) :
    bview s' j = bview s j := by
  obtain ⟨mb, hb⟩ := he.builders
  unfold bview
  rw [hb, List.getElem?_append_left hj]

theorem runOps_fixed (ops : List Op) : ∀ (s s' : State), WF s → runOps true s ops = some s' →
    WF s' ∧ Ext s s' := by
  induction ops with
  | nil => intro s s' hw h; simp only [runOps, Option.some.injEq] at h; subst h; exact ⟨hw, Ext.refl s⟩
  | cons op ops ih =>
    intro s s' hw h
    simp only [runOps] at h
    cases hs : step true s op with
    | none => simp [hs] at h
    | some s₁ =>
      simp only [hs] at h
      obtain ⟨hw₁, e₁⟩ := step_fixed s s₁ op hw hs
      obtain ⟨hw', e'⟩ := ih s₁ s' hw₁ h
      exact ⟨hw', e₁.trans e'⟩

/-- log invariant: everything logged for instance `j` is what `j` shows now -/
def LogOK (s : State) : Prop := ∀ e ∈ s.log, e.1 < s.insts.length ∧ view s e.1 = some e.2

theorem step_logOK (s s' : State) (op : Op) (hw : WF s) (hl : LogOK s) (hs : step true s op = some s') :
    LogOK s' := by
  obtain ⟨_, he⟩ := step_fixed s s' op hw hs
  have old : ∀ e ∈ s.log, e.1 < s'.insts.length ∧ view s' e.1 = some e.2 := by
    intro e hel
    obtain ⟨h1, h2⟩ := hl e hel
    obtain ⟨more, hi⟩ := he.insts
    refine ⟨by rw [hi]; simp; omega, ?_⟩
    rw [view_stable s s' hw he e.1 h1]; exact h2
  cases op with
  | newSim k sd =>
    simp only [step, Option.some.injEq] at hs; subst hs; exact old
  | newComp sd =>
    simp only [step, Option.some.injEq] at hs; subst hs; exact old
  | derive i d =>
    have hlog : s'.log = s.log := by
      simp only [step] at hs
      cases h1 : s.insts[i]? with
      | none => simp [h1] at hs
      | some c =>
        simp only [h1] at hs
        cases h2 : derive true s.heap s.comps c d with
        | none => simp [h2] at hs
        | some r => simp only [h2, Option.some.injEq] at hs; subst hs; rfl
    intro e hel; rw [hlog] at hel; exact old e hel
  | bderive i d =>
    have hlog : s'.log = s.log := by
      simp only [step] at hs
      cases h1 : s.builders[i]? with
      | none => simp [h1] at hs
      | some c => simp only [h1, Option.some.injEq] at hs; subst hs; rfl
    intro e hel; rw [hlog] at hel; exact old e hel
  | build i n =>
    have hlog : s'.log = s.log := by
      simp only [step] at hs
      cases h1 : s.builders[i]? with
      | none => simp [h1] at hs
      | some c => simp only [h1, Option.some.injEq] at hs; subst hs; rfl
    intro e hel; rw [hlog] at hel; exact old e hel
  | run i =>
    simp only [step] at hs
    cases hv : view s i with
    | none => simp [hv] at hs
    | some a =>
      simp only [hv, Option.some.injEq] at hs
      subst hs
      intro e hel
      simp only [List.mem_append, List.mem_singleton] at hel
      rcases hel with hel | rfl
      · exact hl e hel
      · have hi' : i < s.insts.length := by
          unfold view at hv
          cases h1 : s.insts[i]? with
          | none => simp [h1] at hv
          | some c => exact (List.getElem?_eq_some_iff.mp h1).1
        exact ⟨hi', hv⟩

theorem runOps_logOK (ops : List Op) : ∀ (s s' : State), WF s → LogOK s → runOps true s ops = some s' →
    LogOK s' := by
  induction ops with
  | nil => intro s s' _ hl h; simp only [runOps, Option.some.injEq] at h; subst h; exact hl
  | cons op ops ih =>
    intro s s' hw hl h
    simp only [runOps] at h
    cases hs : step true s op with
    | none => simp [hs] at h
    | some s₁ =>
      simp only [hs] at h
      exact ih s₁ s' (step_fixed s s₁ op hw hs).1 (step_logOK s s₁ op hw hl hs) h


theorem view_isSome (s : State) (hw : WF s) (j : Nat) (hj : j < s.insts.length) :
    (view s j).isSome = true := by
  unfold view
  rw [List.getElem?_eq_getElem hj]
  exact argsOf_isSome _ _ _ (hw.2 _ (List.getElem_mem hj)).1

/-- one derivation step seen by value (parent's view ↦ child's view), origin inherited -/
theorem derive_step_pure (s s' : State) (i : Nat) (d : Deriv) (hw : WF s)
    (hs : step true s (.derive i d) = some s') :
    view s' s.insts.length =
      (view s i).bind (fun a => applyD (fun k => s.heap[k]?) (fun k => s.comps[k]?) a d) ∧
    originArgs s' s.insts.length = originArgs s i ∧ i < s.insts.length := by
  simp only [step] at hs
  cases hi : s.insts[i]? with
  | none => simp [hi] at hs
  | some c =>
    have hil : i < s.insts.length := (List.getElem?_eq_some_iff.mp hi).1
    obtain ⟨hc, h2, h3, h4⟩ := (hw.2 c (List.mem_of_getElem? hi)).1
    simp only [hi] at hs
    cases hd : derive true s.heap s.comps c d with
    | none => simp [hd] at hs
    | some r =>
      obtain ⟨h', c'⟩ := r
      simp only [hd, Option.some.injEq] at hs
      subst hs
      obtain ⟨_, _, ho⟩ := derive_fixed_heap s.heap s.comps c d h' c' ⟨hc, h2, h3, h4⟩ hd
      refine ⟨?_, ?_, hil⟩
      · simp only [view, hi, List.getElem?_concat_length]
        cases d <;> simp only [derive] at hd
        case seed v =>
          rw [List.getElem?_eq_getElem hc] at hd
          simp only [↓reduceIte, Option.some.injEq, Prod.mk.injEq] at hd
          obtain ⟨rfl, rfl⟩ := hd
          simp [argsOf, List.getElem?_eq_getElem hc, List.getElem?_eq_getElem h2,
            List.getElem?_eq_getElem h3, List.getElem?_eq_getElem h4, applyD]
        case simulator sid =>
          split at hd
          · rename_i hsid
            simp only [Option.some.injEq, Prod.mk.injEq] at hd
            obtain ⟨rfl, rfl⟩ := hd
            simp [argsOf, List.getElem?_eq_getElem hc, List.getElem?_eq_getElem hsid,
              List.getElem?_eq_getElem h2, List.getElem?_eq_getElem h3, List.getElem?_eq_getElem h4, applyD]
          · cases hd
        case runtime r =>
          split at hd
          · rename_i hr
            simp only [Option.some.injEq, Prod.mk.injEq] at hd
            obtain ⟨rfl, rfl⟩ := hd
            simp [argsOf, List.getElem?_eq_getElem hc, List.getElem?_eq_getElem hr,
              List.getElem?_eq_getElem h2, List.getElem?_eq_getElem h3, List.getElem?_eq_getElem h4, applyD]
          · cases hd
        case errorModel r =>
          split at hd
          · rename_i hr
            simp only [Option.some.injEq, Prod.mk.injEq] at hd
            obtain ⟨rfl, rfl⟩ := hd
            simp [argsOf, List.getElem?_eq_getElem hc, List.getElem?_eq_getElem hr,
              List.getElem?_eq_getElem h2, List.getElem?_eq_getElem h3, List.getElem?_eq_getElem h4, applyD]
          · cases hd
        case eventHook r =>
          split at hd
          · rename_i hr
            simp only [Option.some.injEq, Prod.mk.injEq] at hd
            obtain ⟨rfl, rfl⟩ := hd
            simp [argsOf, List.getElem?_eq_getElem hc, List.getElem?_eq_getElem hr,
              List.getElem?_eq_getElem h2, List.getElem?_eq_getElem h3, List.getElem?_eq_getElem h4, applyD]
          · cases hd
        all_goals
          simp only [Option.some.injEq, Prod.mk.injEq] at hd
          obtain ⟨rfl, rfl⟩ := hd
          simp [argsOf, List.getElem?_eq_getElem hc, List.getElem?_eq_getElem h2,
            List.getElem?_eq_getElem h3, List.getElem?_eq_getElem h4, applyD]
      · simp only [originArgs, hi, List.getElem?_concat_length, ho]

theorem lookup_ext {α : Type} (l x : List α) (k : Nat) (v : α) (h : l[k]? = some v) :
    (l ++ x)[k]? = some v := by
  rw [List.getElem?_append_left (List.getElem?_eq_some_iff.mp h).1]; exact h

theorem applyD_look_ext (heap x : List Sim) (comps cx : List (Option Nat)) (a r : RunArgs) (d : Deriv)
    (h : applyD (fun k => heap[k]?) (fun k => comps[k]?) a d = some r) :
    applyD (fun k => (heap ++ x)[k]?) (fun k => (comps ++ cx)[k]?) a d = some r := by
  cases d <;> simp only [applyD] at h ⊢ <;> try exact h
  case simulator sid =>
    cases hk : heap[sid]? with
    | none => simp [hk] at h
    | some v => rw [lookup_ext heap x sid v hk]; rw [hk] at h; exact h
  case runtime k =>
    cases hk : comps[k]? with
    | none => simp [hk] at h
    | some v => rw [lookup_ext comps cx k v hk]; rw [hk] at h; exact h
  case errorModel k =>
    cases hk : comps[k]? with
    | none => simp [hk] at h
    | some v => rw [lookup_ext comps cx k v hk]; rw [hk] at h; exact h
  case eventHook k =>
    cases hk : comps[k]? with
    | none => simp [hk] at h
    | some v => rw [lookup_ext comps cx k v hk]; rw [hk] at h; exact h

theorem foldD_look_ext (heap x : List Sim) (comps cx : List (Option Nat)) (ds : List Deriv) :
    ∀ (a r : RunArgs), foldD (fun k => heap[k]?) (fun k => comps[k]?) a ds = some r →
      foldD (fun k => (heap ++ x)[k]?) (fun k => (comps ++ cx)[k]?) a ds = some r := by
  induction ds with
  | nil => intro a r h; exact h
  | cons d ds ih =>
    intro a r h
    simp only [foldD] at h ⊢
    cases ha : applyD (fun k => heap[k]?) (fun k => comps[k]?) a d with
    | none => simp [ha] at h
    | some a' =>
      simp only [ha] at h
      rw [applyD_look_ext heap x comps cx a a' d ha]
      exact ih a' r h

/-- following an instance derivation path (with arbitrary operations in between): the final
    instance shows the fold of the path over what the start instance showed -/
theorem chainD_pure (path : List (List Op × Deriv)) : ∀ (s sf : State) (i j : Nat) (a : RunArgs),
    WF s → i < s.insts.length → view s i = some a → chainD s i path = some (sf, j) →
    WF sf ∧ Ext s sf ∧ j < sf.insts.length ∧
    (∃ r, view sf j = some r ∧
      foldD (fun k => sf.heap[k]?) (fun k => sf.comps[k]?) a (path.map (·.2)) = some r) ∧
    originArgs sf j = originArgs s i := by
  induction path with
  | nil =>
    intro s sf i j a hw hi hv h
    simp only [chainD, Option.some.injEq, Prod.mk.injEq] at h
    obtain ⟨rfl, rfl⟩ := h
    exact ⟨hw, Ext.refl _, hi, ⟨a, hv, rfl⟩, rfl⟩
  | cons jd rest ih =>
    intro s sf i j a hw hi hv h
    obtain ⟨junk, d⟩ := jd
    simp only [chainD] at h
    cases h1 : runOps true s junk with
    | none => simp [h1] at h
    | some s₁ =>
      simp only [h1] at h
      cases h2 : step true s₁ (.derive i d) with
      | none => simp [h2] at h
      | some s₂ =>
        simp only [h2] at h
        obtain ⟨hw₁, e₁⟩ := runOps_fixed junk s s₁ hw h1
        obtain ⟨hw₂, e₂⟩ := step_fixed s₁ s₂ _ hw₁ h2
        obtain ⟨p1, p2, _⟩ := derive_step_pure s₁ s₂ i d hw₁ h2
        have hv₁ : view s₁ i = some a := by rw [view_stable s s₁ hw e₁ i hi]; exact hv
        have hnew : s₁.insts.length < s₂.insts.length := by
          obtain ⟨x, hx⟩ := e₂.insts
          have : step true s₁ (.derive i d) = some s₂ := h2
          simp only [step] at this
          cases hq : s₁.insts[i]? with
          | none => simp [hq] at this
          | some c =>
            simp only [hq] at this
            cases hd : derive true s₁.heap s₁.comps c d with
            | none => simp [hd] at this
            | some r => simp only [hd, Option.some.injEq] at this; subst this; simp
        rw [hv₁] at p1
        simp only [Option.bind_some] at p1
        have hsome := view_isSome s₂ hw₂ _ hnew
        cases hv₂ : view s₂ s₁.insts.length with
        | none => simp [hv₂] at hsome
        | some a₂ =>
          rw [hv₂] at p1
          obtain ⟨hwf, ef, hj, ⟨r, hr1, hr2⟩, ho⟩ := ih s₂ sf s₁.insts.length j a₂ hw₂ hnew hv₂ h
          refine ⟨hwf, (e₁.trans e₂).trans ef, hj, ⟨r, hr1, ?_⟩, ?_⟩
          · simp only [List.map_cons, foldD]
            obtain ⟨x, hx⟩ := (e₂.trans ef).heap
            obtain ⟨cx, hcx⟩ := (e₂.trans ef).comps
            rw [hx, hcx, applyD_look_ext s₁.heap x s₁.comps cx a a₂ d p1.symm]
            rw [← hx, ← hcx]; exact hr2
          · rw [ho, p2]; exact originArgs_stable s s₁ hw e₁ i hi

/-- one builder derivation seen by value -/
theorem bderive_step_pure (s s' : State) (i : Nat) (d : BDeriv)
    (hs : step true s (.bderive i d) = some s') :
    bview s' s.builders.length = (bview s i).map (fun a => applyB a d) ∧ i < s.builders.length := by
  simp only [step] at hs
  cases hb : s.builders[i]? with
  | none => simp [hb] at hs
  | some b =>
    simp only [hb, Option.some.injEq] at hs
    subst hs
    refine ⟨?_, (List.getElem?_eq_some_iff.mp hb).1⟩
    simp only [bview, hb, List.getElem?_concat_length, Option.map_some, Option.some.injEq]
    cases d <;> simp only [bderive, buildArgs, applyB]
    case buildArg k v => cases b.args <;> simp [dictSet]

theorem chainB_pure (path : List (List Op × BDeriv)) : ∀ (s sf : State) (i j : Nat) (a : BuildArgs),
    WF s → i < s.builders.length → bview s i = some a → chainB s i path = some (sf, j) →
    WF sf ∧ Ext s sf ∧ j < sf.builders.length ∧
    bview sf j = some ((path.map (·.2)).foldl applyB a) := by
  induction path with
  | nil =>
    intro s sf i j a hw hi hv h
    simp only [chainB, Option.some.injEq, Prod.mk.injEq] at h
    obtain ⟨rfl, rfl⟩ := h
    exact ⟨hw, Ext.refl _, hi, hv⟩
  | cons jd rest ih =>
    intro s sf i j a hw hi hv h
    obtain ⟨junk, d⟩ := jd
    simp only [chainB] at h
    cases h1 : runOps true s junk with
    | none => simp [h1] at h
    | some s₁ =>
      simp only [h1] at h
      cases h2 : step true s₁ (.bderive i d) with
      | none => simp [h2] at h
      | some s₂ =>
        simp only [h2] at h
        obtain ⟨hw₁, e₁⟩ := runOps_fixed junk s s₁ hw h1
        obtain ⟨hw₂, e₂⟩ := step_fixed s₁ s₂ _ hw₁ h2
        obtain ⟨p1, _⟩ := bderive_step_pure s₁ s₂ i d h2
        have hv₁ : bview s₁ i = some a := by rw [bview_stable s s₁ e₁ i hi]; exact hv
        rw [hv₁] at p1
        have hnew : s₁.builders.length < s₂.builders.length := by
          have : step true s₁ (.bderive i d) = some s₂ := h2
          simp only [step] at this
          cases hq : s₁.builders[i]? with
          | none => simp [hq] at this
          | some c => simp only [hq, Option.some.injEq] at this; subst this; simp
        obtain ⟨hwf, ef, hj, hr⟩ := ih s₂ sf s₁.builders.length j (applyB a d) hw₂ hnew p1 h
        exact ⟨hwf, (e₁.trans e₂).trans ef, hj, by simpa using hr⟩

/-- `build`: the new instance shows the defaults and remembers the builder's by-value arguments -/
theorem build_step_pure (s s' : State) (i n : Nat) (hw : WF s) (hs : step true s (.build i n) = some s') :
    view s' s.insts.length = some (defaultArgs n) ∧
    originArgs s' s.insts.length = (bview s i).map some ∧ i < s.builders.length := by
  simp only [step] at hs
  cases hb : s.builders[i]? with
  | none => simp [hb] at hs
  | some b =>
    simp only [hb, Option.some.injEq] at hs
    subst hs
    refine ⟨?_, ?_, (List.getElem?_eq_some_iff.mp hb).1⟩
    · simp [view, argsOf, defaultInst, defaultArgs, hw.1]
    · simp [originArgs, defaultInst, bview, hb]

end GuppyVerif.EmuConfig
