import GuppyVerif.Lemmas.C06Local
import GuppyVerif.Props.C09
/-! C06 helper lemmas, part 2: what an accepting run of `checkCfg` establishes —
    the scope table, the facts of the two pass-2 checks, and the place-level liveness
    (through the C09 theorems) as fixpoint equations and as paths. -/
namespace GuppyVerif.Linearity

open GuppyVerif.Dataflow (Cfg LiveSpec LivePath InfPath Edge PEdge liveRun liveInit liveRun_correct)

/-! ### monadic list helpers -/

theorem bind_ok_unit {x y : R Unit} : (x >>= fun _ => y) = .ok () ↔ x = .ok () ∧ y = .ok () := by
  cases x with
  | error e => simp [bind, Except.bind]
  | ok u => cases u; simp [bind, Except.bind]

inductive All2 {α β : Type} (R : α → β → Prop) : List α → List β → Prop
  | nil : All2 R [] []
  | cons {a b l l'} : R a b → All2 R l l' → All2 R (a :: l) (b :: l')

theorem forM_ok {α : Type} (f : α → R Unit) : ∀ (l : List α), l.forM f = .ok () ↔ ∀ a ∈ l, f a = .ok () := by
  intro l
  induction l with
  | nil => simp [pure, Except.pure]
  | cons a l ih =>
    have : (a :: l).forM f = (f a >>= fun _ => l.forM f) := rfl
    rw [this, bind_ok_unit, ih]
    simp

theorem mapM_ok {α β : Type} (f : α → R β) : ∀ (l : List α) (l' : List β), l.mapM f = .ok l' →
    All2 (fun a b => f a = .ok b) l l' := by
  intro l
  induction l with
  | nil =>
    intro l' h
    simp [pure, Except.pure] at h
    subst h
    exact .nil
  | cons a l ih =>
    intro l' h
    rw [List.mapM_cons] at h
    cases h1 : f a with
    | error e => simp [h1, bind, Except.bind] at h
    | ok b =>
      cases h2 : l.mapM f with
      | error e => simp [h1, h2, bind, Except.bind] at h
      | ok bs =>
        simp [h1, h2, bind, Except.bind, pure, Except.pure] at h
        subst h
        exact .cons h1 (ih bs h2)

/-! ### the scope table -/

/-- what the table holds for block `b`: the scope after pass 1, amended by the implicit use of
    the borrowed leaves if `b` is the exit -/
def IsScope (P : Prog) (b : Blk) (s : Scope) : Prop :=
  ∃ s0, checkBlock P b = .ok s0 ∧ (if b = P.exit then exitUse P s0 = .ok s else s = s0)

theorem isScope_fun {P : Prog} {b : Blk} {s s' : Scope} (h : IsScope P b s) (h' : IsScope P b s') : s = s' := by
  obtain ⟨s0, h0, h1⟩ := h
  obtain ⟨s0', h0', h1'⟩ := h'
  rw [h0] at h0'
  cases h0'
  by_cases hb : b = P.exit
  · simp only [hb, if_true] at h1 h1'
    rw [h1] at h1'
    cases h1'; rfl
  · simp only [hb, if_false] at h1 h1'
    rw [h1, h1']

theorem lookup_cons (q : Blk × Scope) (tbl : List (Blk × Scope)) (b : Blk) :
    lookup (q :: tbl) b = if q.1 = b then q.2 else lookup tbl b := by
  unfold lookup
  by_cases h : q.1 = b
  · simp [List.find?_cons, h]
  · simp [List.find?_cons, h]

theorem lookup_of_forall₂ {P : Prog} : ∀ (bs : List Blk) (tbl : List (Blk × Scope)),
    All2 (fun b q => q.1 = b ∧ IsScope P b q.2) bs tbl →
    (∀ b ∈ bs, IsScope P b (lookup tbl b)) ∧ (∀ q ∈ tbl, q.1 ∈ bs ∧ q.2 = lookup tbl q.1) ∧
      (∀ b ∈ bs, ∃ q ∈ tbl, q.1 = b) := by
  intro bs tbl h
  induction h with
  | nil => simp
  | @cons b q bs tbl hq _ ih =>
    obtain ⟨hq1, hq2⟩ := hq
    refine ⟨?_, ?_, ?_⟩
    rotate_left 2
    · intro b' hb'
      rcases List.mem_cons.mp hb' with rfl | hb'
      · exact ⟨q, List.mem_cons_self, hq1⟩
      · obtain ⟨q', m, e⟩ := ih.2.2 b' hb'
        exact ⟨q', List.mem_cons_of_mem _ m, e⟩
    · intro b' hb'
      rw [lookup_cons]
      by_cases hb : q.1 = b'
      · simp only [hb, if_true]
        rw [← hb, hq1]; exact hq2
      · simp only [hb, if_false]
        rcases List.mem_cons.mp hb' with rfl | hb'
        · exact absurd hq1 hb
        · exact ih.1 b' hb'
    · intro q' hq'
      rw [lookup_cons]
      rcases List.mem_cons.mp hq' with rfl | hq'
      · simp [hq1]
      · obtain ⟨m, e⟩ := ih.2.1 q' hq'
        refine ⟨List.mem_cons_of_mem _ m, ?_⟩
        by_cases hb : q.1 = q'.1
        · simp only [hb, if_true]
          have h1 : IsScope P q'.1 q.2 := by rw [← hb, hq1]; exact hq2
          have h2 : IsScope P q'.1 (lookup tbl q'.1) := ih.1 _ m
          rw [e]; exact isScope_fun h2 h1
        · simp only [hb, if_false]; exact e

theorem forall₂_comp {α β γ : Type} {R : α → β → Prop} {S : β → γ → Prop} {T : α → γ → Prop}
    (hc : ∀ a b c, R a b → S b c → T a c) :
    ∀ {l1 : List α} {l2 : List β} {l3 : List γ}, All2 R l1 l2 → All2 S l2 l3 → All2 T l1 l3 := by
  intro l1 l2 l3 h1
  induction h1 generalizing l3 with
  | nil => intro h2; cases h2; exact .nil
  | cons hr _ ih =>
    intro h2
    cases h2 with
    | cons hs h2 => exact .cons (hc _ _ _ hr hs) (ih h2)

theorem scopes_ok {P : Prog} {tbl : List (Blk × Scope)} (h : scopes P = .ok tbl) :
    (∀ b ∈ P.blocks, IsScope P b (lookup tbl b)) ∧ (∀ q ∈ tbl, q.1 ∈ P.blocks ∧ q.2 = lookup tbl q.1) ∧
      (∀ b ∈ P.blocks, ∃ q ∈ tbl, q.1 = b) := by
  unfold scopes at h
  cases h1 : pass1 P with
  | error e => simp [h1, bind, Except.bind] at h
  | ok tbl1 =>
    simp only [h1, bind, Except.bind] at h
    have f1 := mapM_ok _ _ _ h1
    have f2 := mapM_ok _ _ _ h
    apply lookup_of_forall₂
    refine forall₂_comp ?_ f1 f2
    intro b p q hp hq
    cases h0 : checkBlock P b with
    | error e => simp [h0, Except.map] at hp
    | ok s0 =>
      simp [h0, Except.map] at hp
      subst hp
      unfold amendExit at hq
      by_cases hb : b = P.exit
      · simp only [hb, if_true] at hq
        cases h2 : exitUse P s0 with
        | error e => simp [h2, Except.map] at hq
        | ok s2 =>
          simp [h2, Except.map] at hq
          subst hq
          exact ⟨hb.symm ▸ rfl, s0, h0, by simp [hb, h2]⟩
      · simp [hb] at hq
        subst hq
        exact ⟨rfl, s0, h0, by simp [hb]⟩

/-! ### place-level liveness -/

theorem flow_edge {P : Prog} {sc : Blk → Scope} {b c : Blk} :
    Edge (flowCfg P sc) b c ↔ b ∈ P.blocks ∧ c ∈ P.succ b := by
  unfold Edge flowCfg
  by_cases hb : b ∈ P.blocks
  · simp [hb]
  · simp [hb]

theorem flow_pedge {P : Prog} {sc : Blk → Scope} {b c : Blk} :
    PEdge (flowCfg P sc) b c ↔ b ∈ P.blocks ∧ c ∈ P.succ b := by
  unfold PEdge flowCfg
  simp [List.mem_filter]

theorem flowCfg_wf (P : Prog) (hc : ∀ b ∈ P.blocks, ∀ c ∈ P.succ b, c ∈ P.blocks) (sc : Blk → Scope) :
    (flowCfg P sc).WF := by
  refine ⟨?_, ?_, ?_⟩
  · intro b hb c he
    exact hc b hb c (flow_edge.mp he).2
  · intro b _ c he
    exact (flow_pedge.mp he).1
  · intro b c
    rw [flow_edge, flow_pedge]

/-- the liveness result the pass-2 checks read: exactly the C09 path characterisation -/
def LiveOK (P : Prog) (sc : Blk → Scope) (init : List Leaf) (live : Blk → List Leaf) : Prop :=
  ∀ b ∈ P.blocks, ∀ x, x ∈ live b ↔ LiveSpec (flowCfg P sc) init x b

theorem liveOK_of_run {P : Prog} (hc : ∀ b ∈ P.blocks, ∀ c ∈ P.succ b, c ∈ P.blocks) (sc : Blk → Scope)
    (init : List Leaf) (sched : List Blk → Blk) (fuel : Nat) (t : Dataflow.LSt)
    (h : liveRun (flowCfg P sc) sched fuel (liveInit (flowCfg P sc) init) = some t) :
    LiveOK P sc init t.vals := by
  intro b hb x
  exact liveRun_correct (flowCfg P sc) (flowCfg_wf P hc sc) init sched fuel t h b hb x

theorem infPath_prepend {g : Cfg} {x : Nat} {b c : Nat} (hna : x ∉ g.assigned b) (he : Edge g b c)
    (h : InfPath g x c) : InfPath g x b := by
  obtain ⟨f, f0, hf⟩ := h
  refine ⟨fun i => match i with | 0 => b | i + 1 => f i, rfl, ?_⟩
  intro i
  cases i with
  | zero => simp only; rw [f0]; exact ⟨hna, he⟩
  | succ i => exact hf i

theorem infPath_tail {g : Cfg} {x : Nat} {b : Nat} (h : InfPath g x b) :
    x ∉ g.assigned b ∧ ∃ c, Edge g b c ∧ InfPath g x c := by
  obtain ⟨f, f0, hf⟩ := h
  refine ⟨f0 ▸ (hf 0).1, f 1, f0 ▸ (hf 0).2, fun i => f (i + 1), rfl, fun i => hf (i + 1)⟩

section
variable {P : Prog} {sc : Blk → Scope} {init : List Leaf} {live : Blk → List Leaf}

theorem live_of_used (hl : LiveOK P sc init live) {b : Blk} (hb : b ∈ P.blocks) {x : Leaf}
    (hx : x ∈ (sc b).usedParent) : x ∈ live b :=
  (hl b hb x).mpr (Or.inl (LivePath.use hx))

theorem live_of_succ (hl : LiveOK P sc init live) (hc : ∀ b ∈ P.blocks, ∀ c ∈ P.succ b, c ∈ P.blocks)
    {b c : Blk} (hb : b ∈ P.blocks) (hcb : c ∈ P.succ b) {x : Leaf} (hx : x ∈ live c)
    (hna : x ∉ (sc b).vars) : x ∈ live b := by
  have he : Edge (flowCfg P sc) b c := flow_edge.mpr ⟨hb, hcb⟩
  rcases (hl c (hc b hb c hcb) x).mp hx with h | ⟨hi, h⟩
  · exact (hl b hb x).mpr (Or.inl (LivePath.step hna he h))
  · exact (hl b hb x).mpr (Or.inr ⟨hi, infPath_prepend hna he h⟩)

theorem live_inv (hl : LiveOK P sc init live) (hc : ∀ b ∈ P.blocks, ∀ c ∈ P.succ b, c ∈ P.blocks)
    {b : Blk} (hb : b ∈ P.blocks) {x : Leaf} (hx : x ∈ live b) :
    x ∈ (sc b).usedParent ∨ (x ∉ (sc b).vars ∧ ∃ c ∈ P.succ b, x ∈ live c) := by
  rcases (hl b hb x).mp hx with h | ⟨hi, h⟩
  · cases h with
    | use hu => exact Or.inl hu
    | step hna he h' =>
      obtain ⟨_, hcb⟩ := flow_edge.mp he
      exact Or.inr ⟨hna, _, hcb, (hl _ (hc b hb _ hcb) x).mpr (Or.inl h')⟩
  · obtain ⟨hna, c, he, h'⟩ := infPath_tail h
    obtain ⟨_, hcb⟩ := flow_edge.mp he
    exact Or.inr ⟨hna, c, hcb, (hl _ (hc b hb _ hcb) x).mpr (Or.inr ⟨hi, h'⟩)⟩

end

/-! ### the pass-2 checks -/

theorem checkLiveUsed_ok {P : Prog} {c : Blk} {s : Scope} {x : Leaf} (h : checkLiveUsed P c s x = .ok ())
    (hl : x ∈ P.rowLin c) : s.used x = some false := by
  unfold checkLiveUsed at h
  have hl' : (P.rowLin c).contains x = true := by simpa using hl
  simp only [hl', if_true] at h
  cases hu : s.used x with
  | none => simp [hu] at h
  | some u => cases u with
    | true => simp [hu] at h
    | false => rfl

theorem checkLeak_ok {P : Prog} {live : Blk → List Leaf} {b : Blk} {s : Scope} {x : Leaf} {lin : Bool}
    (h : checkLeak P live b s lin x = .ok ()) (hl : lin = true) (hlive : x ∈ live b ∨ x ∈ s.vars)
    (hu : s.used x = some false) : ∀ c ∈ P.succ b, x ∈ live c := by
  unfold checkLeak at h
  have h1 : (!(live b).contains x && !s.vars.contains x) = false := by
    rcases hlive with h' | h' <;> simp [h']
  simp only [h1, hu, hl] at h
  intro c hc
  by_cases hall : ((P.succ b).all fun c => (live c).contains x) = true
  · have := List.all_eq_true.mp hall c hc
    simpa using this
  · simp only [hall] at h
    simp at h

theorem checkEdges_ok {P : Prog} {live : Blk → List Leaf} {b : Blk} {s : Scope}
    (h : checkEdges P live b s = .ok ()) :
    (∀ c ∈ P.succ b, ∀ x ∈ live c, x ∈ P.rowLin c → s.used x = some false) ∧
    (∀ x ∈ s.vars, x ∈ s.linVars → s.used x = some false → ∀ c ∈ P.succ b, x ∈ live c) ∧
    (∀ x ∈ s.parent, x ∉ s.vars → x ∈ s.linParent → x ∈ live b → s.used x = some false →
      ∀ c ∈ P.succ b, x ∈ live c) ∧
    (b ≠ P.entry → b ≠ P.exit → ∀ x ∈ live b, x ∈ s.parent) := by
  unfold checkEdges at h
  rw [bind_ok_unit, bind_ok_unit, bind_ok_unit, bind_ok_unit] at h
  obtain ⟨h1, h2, h3, h4, _⟩ := h
  rw [forM_ok] at h1 h2 h3
  refine ⟨?_, ?_, ?_, ?_⟩
  · intro c hc x hx hl
    have := h1 c hc
    rw [forM_ok] at this
    exact checkLiveUsed_ok (this x hx) hl
  · intro x hx hl hu
    exact checkLeak_ok (h2 x hx) (by simpa using hl) (Or.inr hx) hu
  · intro x hx hv hl hlive hu
    exact checkLeak_ok (h3 x (List.mem_filter.mpr ⟨hx, by simpa using hv⟩)) (by simpa using hl) (Or.inl hlive) hu
  · intro he hx x hxl
    unfold checkInRow at h4
    have : ¬ (b = P.entry ∨ b = P.exit) := fun h' => h'.elim he hx
    simp only [this, if_false] at h4
    rw [forM_ok] at h4
    have := h4 x hxl
    split at this
    · rename_i hc; simpa using hc
    · cases this

/-! ### the implicit use of the borrowed leaves at the exit -/

theorem exitUse_spec : ∀ (ls : List Leaf) (s s' : Scope), s.vars = [] → ls.foldlM Scope.use s = .ok s' →
    s'.vars = [] ∧ s'.usedLocal = s.usedLocal ∧ s'.parent = s.parent ∧
      (∀ y, y ∈ s'.usedParent ↔ y ∈ s.usedParent ∨ y ∈ ls) ∧ (∀ y ∈ ls, y ∈ s.parent) ∧
      s'.linParent = s.linParent ∧ s'.linVars = s.linVars := by
  intro ls
  induction ls with
  | nil =>
    intro s s' hv h
    simp [pure, Except.pure] at h
    subst h
    simp [hv]
  | cons x ls ih =>
    intro s s' hv h
    rw [List.foldlM_cons] at h
    unfold Scope.use at h
    simp only [hv, List.contains_nil, Bool.false_eq_true, if_false] at h
    by_cases hp : s.parent.contains x = true
    · simp only [hp, if_true, bind, Except.bind] at h
      obtain ⟨a1, a2, a3, a4, a5, a6, a7⟩ := ih _ s' (by simpa using hv) h
      refine ⟨a1, a2, a3, ?_, ?_, a6, a7⟩
      · intro y
        rw [a4]
        simp only [mem_ins, List.mem_cons]
        constructor
        · rintro ((h' | h') | h') <;> simp [h']
        · rintro (h' | h' | h') <;> simp [h']
      · intro y hy
        rcases List.mem_cons.mp hy with rfl | hy
        · simpa using hp
        · exact a5 y hy
    · have hp' : x ∉ s.parent := by simpa using hp
      simp [hp', bind, Except.bind] at h

/-- summary of pass 1 (+ exit amendment) for one leaf of one block: the bookkeeping ran
    successfully over exactly the leaf's events of the block -/
theorem block_proj {P : Prog} (hw : P.WF) {l : Leaf} {b : Blk} {s : Scope} (h : IsScope P b s) :
    (s.parent = (initScope P b).parent ∧ s.linParent = (initScope P b).linParent) ∧
      crun ((initScope P b).parent.contains l) ((initScope P b).proj l) (P.blockEvs l b) = some (s.proj l) ∧
      ∀ st ∈ P.stmts b, st.StaticOK P := by
  obtain ⟨s0, h0, h1⟩ := h
  obtain ⟨p1, p2, p3⟩ := checkBlock_proj (l := l) h0
  by_cases hb : b = P.exit
  · subst hb
    simp only [if_true] at h1
    have hne : P.exit ≠ P.entry := fun e => hw.entryNeExit e.symm
    have hs0 : s0 = initScope P P.exit := by
      unfold checkBlock at h0
      rw [hw.exitStmts] at h0
      simpa [pure, Except.pure] using h0.symm
    have hv0 : s0.vars = [] := by rw [hs0]; simp [initScope, hne]
    unfold exitUse at h1
    obtain ⟨a1, a2, a3, a4, a5, a6, a7⟩ := exitUse_spec _ _ _ hv0 h1
    refine ⟨⟨a3.trans p1.1, a6.trans p1.2⟩, ?_, p3⟩
    unfold Prog.blockEvs
    rw [hw.exitStmts]
    simp only [List.flatMap_nil, List.nil_append, true_and]
    have hlv : l ∉ s.linVars := by rw [a7, hs0]; simp [initScope, hne]
    by_cases hbl : l ∈ P.borrowedLeaves
    · have hpar : l ∈ (initScope P P.exit).parent := by rw [← hs0]; exact a5 l hbl
      have hup : l ∈ s.usedParent := (a4 l).mpr (Or.inr hbl)
      have hul : l ∉ s.usedLocal := by rw [a2, hs0]; simp [initScope, hne]
      simp only [hbl, if_true]
      simp [initScope, hne] at hpar
      simp [crun, cstep, Scope.proj, initScope, hne, a1, hup, hul, hpar, hlv]
    · have hup : l ∉ s.usedParent := by
        rw [a4]; rw [hs0]; simp [initScope, hne, hbl]
      have hul : l ∉ s.usedLocal := by rw [a2, hs0]; simp [initScope, hne]
      simp only [hbl, if_false]
      simp [crun, Scope.proj, initScope, hne, a1, hup, hul, hlv]
  · simp only [hb, if_false] at h1
    subst h1
    refine ⟨p1, ?_, p3⟩
    unfold Prog.blockEvs
    simp only [hb, false_and, if_false, List.append_nil]
    exact p2

end GuppyVerif.Linearity
