import GuppyVerif.Lemmas.C12GenCallTup
/-! Lemmas for C12, part 17: completeness of `check_call` (checking position): parameters may occur in the
    return type only. -/
namespace GuppyVerif.Unify

theorem erase_instB (ρ : List Tm) : ∀ t : Tm, erase (instB ρ t) = instB (ρ.map erase) (erase t) := by
  intro t
  induction t using Tm.induct with
  | var v => simp [instB, erase]
  | atom a =>
    cases a with
    | bvar i => simp only [instB, erase, List.length_map]; split <;> simp [erase, List.getElem_map]
    | cbvar i => simp only [instB, erase, List.length_map]; split <;> simp [erase, List.getElem_map]
    | num k => simp [instB, erase]
    | none => simp [instB, erase]
    | cval a b => simp [instB, erase]
  | node h as ih =>
    simp only [instB, erase, instBList_eq, eraseList_eq, List.map_map]
    congr 1
    apply List.map_congr_left
    intro a ha
    exact ih a ha
  | targ t ih => simp only [instB, erase]; rw [ih]
  | carg t ih => simp only [instB, erase]; rw [ih]

theorem all2_flagEq_map {xs ys : List Tm} (h : All2 FlagEq xs ys) : xs.map erase = ys.map erase := by
  induction h with
  | nil => rfl
  | cons h1 _ ih => simp only [List.map_cons, ih]; unfold FlagEq at h1; rw [h1]

theorem instB_flagEq {xs ys : List Tm} (h : All2 FlagEq xs ys) (t : Tm) : FlagEq (instB xs t) (instB ys t) := by
  unfold FlagEq
  rw [erase_instB, erase_instB, all2_flagEq_map h]

/-- `finishCall` once the argument loop has succeeded -/
theorem finishCall_eval (E : Env) (sg : Sig) (fresh : List V) (es : List Ex) (σ₀ σ : Subst)
    (hout : sg.out.vars = [])
    (hck : checkList E es (sg.inputs.map (instB (fresh.map Tm.var))) σ₀ = .ok σ) :
    ((∀ f ∈ fresh, ∃ u, lookup σ f = some u) →
      finishCall E sg fresh es σ₀ =
        if boundsOk E sg.bounds (fresh.map (asFun σ)) then
          .accept (fresh.map (asFun σ)) (instB (fresh.map (asFun σ)) sg.out) else .bounds) ∧
    ((∃ f ∈ fresh, lookup σ f = none) → finishCall E sg fresh es σ₀ = .infer) := by
  constructor
  · intro hb
    have h1 : ((instB (fresh.map Tm.var) sg.out).vars.all fun v => (lookup σ v).isSome) = true := by
      rw [List.all_eq_true]
      intro z hz
      obtain ⟨u, hu⟩ := hb z (vars_instB_fresh fresh sg.out hout z hz)
      simp [hu]
    have h2 : (fresh.all fun v => (lookup σ v).isSome) = true := by
      rw [List.all_eq_true]
      intro z hz
      obtain ⟨u, hu⟩ := hb z hz
      simp [hu]
    simp only [finishCall, hck, h1, h2, Bool.not_true, Bool.false_eq_true, if_false]
    have : apply σ (instB (fresh.map Tm.var) sg.out) = instB (fresh.map (asFun σ)) sg.out := by
      unfold apply; rw [inst_instB (asFun σ) fresh sg.out hout]
    rw [this]
  · rintro ⟨f, hf, hn⟩
    have h2 : (fresh.all fun v => (lookup σ v).isSome) = false := by
      rw [List.all_eq_false]
      exact ⟨f, hf, by simp [hn]⟩
    simp only [finishCall, hck, h2, Bool.not_false, if_true]
    split <;> rfl

/-- the argument loop under a global solution: it succeeds, agrees with the solution, and solves every fresh
    variable that occurs in an input -/
theorem args_complete (E : Env) (hE : NoLinear E) (sg : Sig) (fresh : List V) (es : List Ex) (ρ : List Tm)
    (θ : V → Tm) (σ₀ : Subst) (hθρ : fresh.map θ = ρ) (hσ₀ : Agree θ σ₀)
    (hin : ∀ p ∈ sg.inputs, p.vars = [] ∧ p.wf = true)
    (hes : ∀ e ∈ es, e.Closed ∧ e.synth.wf = true)
    (hfit : All2 (fun e p => FlagEq (instB ρ p) e.synth) es sg.inputs) :
    ∃ σ, checkList E es (sg.inputs.map (instB (fresh.map Tm.var))) σ₀ = .ok σ ∧ Agree θ σ ∧
      (∀ v u, lookup σ₀ v = some u → lookup σ v = some u) ∧
      (∀ f ∈ fresh, (∃ p ∈ sg.inputs, f ∈ (instB (fresh.map Tm.var) p).vars) → ∃ u, lookup σ f = some u) := by
  have hfit' : All2 (fun e p => FlagEq (inst θ p) e.synth) es (sg.inputs.map (instB (fresh.map Tm.var))) := by
    have : ∀ {as : List Ex} {ps : List Tm}, (∀ p ∈ ps, p.vars = []) → All2 (fun e p => FlagEq (instB ρ p) e.synth) as ps →
        All2 (fun e p => FlagEq (inst θ p) e.synth) as (ps.map (instB (fresh.map Tm.var))) := by
      intro as ps hps h
      induction h with
      | nil => exact .nil
      | @cons a p as' ps' h1 _ ih =>
        refine .cons ?_ (ih (fun q hq => hps q (by simp [hq])))
        rw [inst_instB θ fresh p (hps p (by simp)), hθρ]; exact h1
    exact this (fun p hp => (hin p hp).1) hfit
  have hwfp : ∀ p ∈ sg.inputs.map (instB (fresh.map Tm.var)), p.wf = true := by
    intro p hp
    obtain ⟨q, hq, rfl⟩ := List.mem_map.mp hp
    exact (wf_instB_aux _ (fun r hr => by obtain ⟨v, _, rfl⟩ := List.mem_map.mp hr; rfl) q).1 (hin q hq).2
  obtain ⟨σ, hck, hag⟩ := checkList_complete_of E θ es (fun e _ => checkEx_complete E hE θ e) _ σ₀ hσ₀ hes hwfp hfit'
  have hcl : ∀ e ∈ es, e.Closed := fun e he => (hes e he).1
  have r := checkList_sound_of E es (fun e _ ty s => checkEx_sound E e ty s) _ σ₀ σ hcl hσ₀.closed hck
  refine ⟨σ, hck, hag, r.ext, ?_⟩
  intro f _ hocc
  obtain ⟨p, hp, hfp⟩ := hocc
  have : ∀ {es : List Ex} {ps : List Tm}, All2 (fun e p => FlagEq (apply σ p) e.synth) es ps →
      (∀ e ∈ es, e.Closed) → ∀ q ∈ ps, (apply σ q).vars = [] := by
    intro es ps h
    induction h with
    | nil => intro _ q hq; cases hq
    | cons h1 _ ih =>
      intro hc q hq
      cases hq with
      | head => exact closed_of_flagEq h1 (hc _ (by simp))
      | tail _ hq => exact ih (fun e he => hc e (by simp [he])) q hq
  have hclosed := this r.eq hcl (instB (fresh.map Tm.var) p) (List.mem_map.mpr ⟨p, hp, rfl⟩)
  cases hl : lookup σ f with
  | some u => exact ⟨u, rfl⟩
  | none =>
    have : f ∈ (apply σ (instB (fresh.map Tm.var) p)).vars :=
      mem_vars_inst' (θ := asFun σ) _ hfp (by simp [asFun, hl, Tm.vars])
    rw [hclosed] at this; cases this

/-- the instantiation read off a substitution that agrees with `θ` and solves all fresh variables -/
theorem ins_agree {θ : V → Tm} {σ : Subst} {fresh : List V} {ρ : List Tm} (hθρ : fresh.map θ = ρ) (hag : Agree θ σ)
    (hb : ∀ f ∈ fresh, ∃ u, lookup σ f = some u) : All2 FlagEq (fresh.map (asFun σ)) ρ := by
  rw [← hθρ]
  apply all2_of_map (by simp)
  intro i h1 h2
  simp only [List.getElem_map]
  have hi : i < fresh.length := by simpa using h1
  obtain ⟨u, hu⟩ := hb (fresh[i]'hi) (List.getElem_mem _)
  have := hag.agr _ u hu
  simp only [asFun, hu]
  exact this.symm

theorem ins_wf_closed {σ : Subst} {fresh : List V} (hc : ClosedImgs σ) (hw : WfSubst σ)
    (hb : ∀ f ∈ fresh, ∃ u, lookup σ f = some u) : ∀ t ∈ fresh.map (asFun σ), t.wf = true ∧ t.vars = [] := by
  intro t ht
  obtain ⟨f, hf, rfl⟩ := List.mem_map.mp ht
  obtain ⟨u, hu⟩ := hb f hf
  simp only [asFun, hu]
  exact ⟨hw f u hu, hc f u hu⟩

/-- completeness of `check_call` against a closed expected type -/
theorem checkCall_complete (E : Env) (hE : NoLinear E) (sg : Sig) (fresh fresh₂ : List V) (es : List Ex) (ty : Tm)
    (ρ : List Tm)
    (hin : ∀ p ∈ sg.inputs, p.vars = [] ∧ p.wf = true) (hout : sg.out.vars = []) (houtw : sg.out.wf = true)
    (hes : ∀ e ∈ es, e.Closed ∧ e.synth.wf = true) (hty : ty.vars = []) (htyw : ty.wf = true)
    (hf1 : fresh.Nodup) (hf2 : fresh₂.Nodup) (hl1 : ρ.length = fresh.length) (hl2 : ρ.length = fresh₂.length)
    (hocc : ∀ f ∈ fresh₂, (∃ p ∈ sg.inputs, f ∈ (instB (fresh₂.map Tm.var) p).vars) ∨
        f ∈ (instB (fresh₂.map Tm.var) sg.out).vars)
    (hfit : All2 (fun e p => FlagEq (instB ρ p) e.synth) es sg.inputs)
    (hret : FlagEq ty (instB ρ sg.out))
    (hb : boundsOk E sg.bounds ρ = true) :
    ∃ ins, checkCall E sg fresh fresh₂ es ty = .accept ins (instB ins sg.out) ∧ All2 FlagEq ins ρ := by
  have hlen : es.length = sg.inputs.length := all2_length hfit
  unfold checkCall
  simp only [hlen, ne_eq, not_true_eq_false, if_false]
  -- first path
  let θ : V → Tm := asFun (fresh.zip ρ)
  have hθρ : fresh.map θ = ρ := map_asFun_zip fresh ρ hf1 hl1
  obtain ⟨σ, hck, hag, _, _⟩ := args_complete E hE sg fresh es ρ θ [] hθρ (Agree.nil θ) hin hes hfit
  have hev := finishCall_eval E sg fresh es [] σ hout hck
  by_cases hall : ∀ f ∈ fresh, ∃ u, lookup σ f = some u
  · -- synthesis succeeds
    have hins := ins_agree hθρ hag hall
    have hbo : boundsOk E sg.bounds (fresh.map (asFun σ)) = true := by
      rw [boundsOk_congr E sg.bounds _ _ hins]; exact hb
    rw [hev.1 hall]
    simp only [hbo, if_true]
    have hwc := ins_wf_closed hag.closed hag.wf hall
    have hrc : (instB (fresh.map (asFun σ)) sg.out).vars = [] :=
      vars_instB_closed _ (fun r hr => (hwc r hr).2) _ hout
    have hrw : (instB (fresh.map (asFun σ)) sg.out).wf = true :=
      (wf_instB_aux _ (fun r hr => (hwc r hr).1) sg.out).1 houtw
    have hfe : FlagEq (inst (fun v => Tm.var v) ty) (instB (fresh.map (asFun σ)) sg.out) := by
      rw [inst_id_of ty _ (fun _ _ => rfl)]
      exact hret.trans (instB_flagEq hins sg.out).symm
    obtain ⟨s, hs, _⟩ := unifyT_complete E hE (fun v => Tm.var v) htyw hrw hrc hfe
    simp only [hs]
    exact ⟨_, rfl, hins⟩
  · -- synthesis cannot infer every parameter: expected return type first
    have hex : ∃ f ∈ fresh, lookup σ f = none := Classical.byContradiction fun hne => hall (fun f hf => by
      cases hl : lookup σ f with
      | some u => exact ⟨u, rfl⟩
      | none => exact absurd ⟨f, hf, hl⟩ hne)
    rw [hev.2 hex]
    simp only []
    let θ₂ : V → Tm := asFun (fresh₂.zip ρ)
    have hθρ₂ : fresh₂.map θ₂ = ρ := map_asFun_zip fresh₂ ρ hf2 hl2
    have hout₂ : inst θ₂ (instB (fresh₂.map Tm.var) sg.out) = instB ρ sg.out := by
      rw [inst_instB θ₂ fresh₂ sg.out hout, hθρ₂]
    have hout₂w : (instB (fresh₂.map Tm.var) sg.out).wf = true :=
      (wf_instB_aux _ (fun r hr => by obtain ⟨v, _, rfl⟩ := List.mem_map.mp hr; rfl) sg.out).1 houtw
    -- unify(ty, out')
    have hun : Unifies θ₂ ty (instB (fresh₂.map Tm.var) sg.out) := by
      unfold Unifies
      rw [inst_id_of ty θ₂ (fun y hy => by rw [hty] at hy; cases hy), hout₂]
      exact hret
    have hnilw : WfSubst [] := fun _ _ h => by simp [lookup] at h
    have hnils : Solves θ₂ [] := fun _ _ h => by simp [lookup] at h
    have hne := unify_fuelBound E ty (instB (fresh₂.map Tm.var) sg.out) [] acyclic_nil _ (Nat.le_refl _)
    obtain ⟨hnf, hok⟩ := unify_compl E hE θ₂ _ ty _ [] htyw hout₂w hnilw hnils hun
    unfold unifyT
    cases hres : unify E (fuelBound ty (instB (fresh₂.map Tm.var) sg.out) []) ty
        (instB (fresh₂.map Tm.var) sg.out) [] with
    | oof => exact absurd hres hne
    | fail => exact absurd hres hnf
    | ok σ₀ =>
      simp only []
      obtain ⟨hs₀, hw₀⟩ := hok σ₀ hres
      have hc₀ : ClosedImgs σ₀ := unify_closed2 E _ _ _ [] σ₀ hres hty (fun _ _ h' => by simp [lookup] at h')
      have hag₀ : Agree θ₂ σ₀ := ⟨hc₀, hw₀, fun v u hv => by
        have := hs₀ v u hv
        rw [inst_id_of u θ₂ (fun y hy => by rw [hc₀ v u hv] at hy; cases hy)] at this
        exact this⟩
      -- every variable of out' is solved by σ₀
      have g := unify_good E _ ty _ [] σ₀ hres
      have hfe := g.eq (asFun σ₀) (asFun_solves_closed hc₀)
      rw [inst_id_of ty _ (fun y hy => by rw [hty] at hy; cases hy)] at hfe
      have houtc : (inst (asFun σ₀) (instB (fresh₂.map Tm.var) sg.out)).vars = [] :=
        closed_of_flagEq hfe.symm hty
      obtain ⟨σ', hck', hag', hext', hbin⟩ := args_complete E hE sg fresh₂ es ρ θ₂ σ₀ hθρ₂ hag₀ hin hes hfit
      have hall' : ∀ f ∈ fresh₂, ∃ u, lookup σ' f = some u := by
        intro f hf
        cases hocc f hf with
        | inl h => exact hbin f hf h
        | inr h =>
          cases hl : lookup σ₀ f with
          | some u => exact ⟨u, hext' f u hl⟩
          | none =>
            have : f ∈ (inst (asFun σ₀) (instB (fresh₂.map Tm.var) sg.out)).vars :=
              mem_vars_inst' (θ := asFun σ₀) _ h (by simp [asFun, hl, Tm.vars])
            rw [houtc] at this; cases this
      have hev' := finishCall_eval E sg fresh₂ es σ₀ σ' hout hck'
      have hins' := ins_agree hθρ₂ hag' hall'
      have hbo' : boundsOk E sg.bounds (fresh₂.map (asFun σ')) = true := by
        rw [boundsOk_congr E sg.bounds _ _ hins']; exact hb
      rw [hev'.1 hall']
      simp only [hbo', if_true]
      exact ⟨_, rfl, hins'⟩

end GuppyVerif.Unify
