import GuppyVerif.Spec.C08
import GuppyVerif.Lemmas.C09Live
/-! Helper lemmas for C08: typing contexts, block signatures, the BFS invariant. -/
namespace GuppyVerif.UseDef
open GuppyVerif.Dataflow

theorem lookup_filter_ne {x y : Var} (h : x ≠ y) (env : Row) :
    lookup x (env.filter (·.1 != y)) = lookup x env := by
  induction env with
  | nil => rfl
  | cons e env ih =>
    obtain ⟨z, t⟩ := e
    by_cases hz : z = y
    · subst hz
      have : x ≠ z := h
      simp [List.filter, lookup, this, ih]
    · have hzy : (z != y) = true := by simpa using hz
      simp only [List.filter, hzy, lookup]
      by_cases hxz : x = z
      · simp [hxz]
      · simp [hxz, ih]

theorem lookup_runEvents (x : Var) (env : Row) (es : List Ev) :
    lookup x (runEvents env es) = exitTy es (lookup x env) x := by
  induction es generalizing env with
  | nil => simp [runEvents, exitTy, lastAsg]
  | cons e es ih =>
    cases e with
    | use y => simp only [runEvents, exitTy, lastAsg]; exact ih env
    | asg y t =>
      simp only [runEvents]
      rw [ih]
      unfold exitTy
      simp only [lastAsg]
      cases h : lastAsg x es with
      | some t' => rfl
      | none =>
        by_cases hxy : x = y
        · subst hxy; simp [lookup]
        · simp [lookup, hxy, lookup_filter_ne hxy]

theorem lastAsg_isSome_iff (x : Var) (es : List Ev) :
    (lastAsg x es).isSome ↔ x ∈ assignedOf es := by
  induction es with
  | nil => simp [lastAsg, assignedOf]
  | cons e es ih =>
    cases e with
    | use y =>
      simp only [lastAsg]
      rw [ih]; simp [assignedOf]
    | asg y t =>
      simp only [lastAsg]
      have : x ∈ assignedOf (Ev.asg y t :: es) ↔ x = y ∨ x ∈ assignedOf es := by
        simp [assignedOf]
      rw [this, ← ih]
      cases h : lastAsg x es with
      | some t' => simp
      | none => by_cases hxy : x = y <;> simp [hxy]

theorem lookup_runEvents_isSome (x : Var) (env : Row) (es : List Ev) :
    (lookup x (runEvents env es)).isSome ↔ (lookup x env).isSome ∨ x ∈ assignedOf es := by
  rw [lookup_runEvents, ← lastAsg_isSome_iff]
  unfold exitTy
  cases h : lastAsg x es <;> simp

theorem lookup_isSome_iff_mem (x : Var) (r : Row) : (lookup x r).isSome ↔ x ∈ r.map (·.1) := by
  induction r with
  | nil => simp [lookup]
  | cons e r ih =>
    obtain ⟨y, t⟩ := e
    simp only [lookup, List.map_cons, List.mem_cons]
    by_cases h : x = y
    · simp [h]
    · simp [h, ih]

theorem lookup_filterMap_row (x : Var) (env : Row) (l : List Var) :
    lookup x (l.filterMap fun y => (lookup y env).map fun t => (y, t)) =
      if x ∈ l then lookup x env else none := by
  induction l with
  | nil => simp [lookup]
  | cons y l ih =>
    simp only [List.filterMap_cons]
    cases hy : lookup y env with
    | none =>
      simp only [Option.map_none, ih, List.mem_cons]
      by_cases hxy : x = y
      · subst hxy; simp [hy]
      · simp [hxy]
    | some t =>
      simp only [Option.map_some, lookup, ih, List.mem_cons]
      by_cases hxy : x = y
      · subst hxy; simp [hy]
      · simp [hxy]

theorem lookup_rowFor (A : Ana) (env : Row) (s : Blk) (x : Var) :
    lookup x (rowFor A env s) = if x ∈ A.live s then lookup x env else none :=
  lookup_filterMap_row x env (A.live s)

theorem assigned_sub_AS {U : UCfg} {b : Blk} (hb : b ∈ U.blocks) {x : Var}
    (hx : x ∈ assignedOf (U.events b)) : x ∈ U.assignedSomewhere := by
  unfold UCfg.assignedSomewhere
  exact List.mem_append_right _ (List.mem_flatMap.mpr ⟨b, hb, hx⟩)

theorem args_sub_AS {U : UCfg} {x : Var} (hx : x ∈ U.argNames) : x ∈ U.assignedSomewhere :=
  List.mem_append_left _ hx

theorem defCheck_none_iff (U : UCfg) (env : Row) (x : Var) :
    defCheck U env x = none ↔
      (x ∈ U.assignedSomewhere → (lookup x env).isSome) ∧ (x ∉ U.assignedSomewhere → x ∈ U.globals) := by
  unfold defCheck
  by_cases h : x ∈ U.assignedSomewhere
  · have hc : U.assignedSomewhere.contains x = true := by simpa using h
    simp only [hc, ↓reduceIte, h, forall_const, not_true_eq_false, false_imp_iff, and_true]
    cases lookup x env <;> simp
  · have hc : U.assignedSomewhere.contains x = false := by simpa using h
    simp only [hc, Bool.false_eq_true, ↓reduceIte, h, false_imp_iff, not_false_eq_true,
      forall_const, true_and]
    by_cases hg : x ∈ U.globals
    · simp [hg]
    · have : U.globals.contains x = false := by simpa using hg
      simp [this, hg]

theorem defCheck_some (U : UCfg) (env : Row) (x : Var) (e : Err) (h : defCheck U env x = some e) :
    e = .notDefined x := by
  unfold defCheck at h
  split at h
  · split at h
    · cases h
    · exact (Option.some.inj h).symm
  · split at h
    · cases h
    · exact (Option.some.inj h).symm

/-- liveness equation (a consequence of the path characterisation) -/
theorem live_of_succ {U : UCfg} (hU : U.WF) {A : Ana} (hA : AnaOK U A) {b s : Blk}
    (hb : b ∈ U.blocks) (hs : s ∈ U.succ b ++ U.dsucc b) {x : Var} (hx : x ∈ A.live s)
    (hn : x ∉ assignedOf (U.events b)) : x ∈ A.live b := by
  have hsb : s ∈ U.blocks := hU.cfg.closed b hb s hs
  exact (hA.live b hb x).mpr (.step hn hs ((hA.live s hsb x).mp hx))

/-- a row that can flow into block `b` -/
structure RowOK (U : UCfg) (A : Ana) (b : Blk) (row : Row) : Prop where
  locals : ∀ x ∈ A.live b, x ∈ U.assignedSomewhere → (lookup x row).isSome
  globals : ∀ x ∈ A.live b, x ∉ U.assignedSomewhere → x ∈ U.globals
  sub : ∀ x, (lookup x row).isSome → x ∈ U.assignedSomewhere ∧ (b ≠ U.entry → x ∈ A.live b)

def outsOf (U : UCfg) (A : Ana) (b : Blk) (row : Row) : List Row :=
  (U.succ b ++ U.dsucc b).map (rowFor A (runEvents row (U.events b)))

theorem env_sub_AS {U : UCfg} {A : Ana} {b : Blk} (hb : b ∈ U.blocks) {row : Row}
    (hr : RowOK U A b row) {x : Var} (h : (lookup x (runEvents row (U.events b))).isSome) :
    x ∈ U.assignedSomewhere := by
  rw [lookup_runEvents_isSome] at h
  rcases h with h | h
  · exact (hr.sub x h).1
  · exact assigned_sub_AS hb h

/-- `check_bb` of a non-entry block fed with a good row cannot fail, and hands good rows on. -/
theorem checkBB_ok {U : UCfg} (hU : U.WF) {A : Ana} (hA : AnaOK U A) {b : Blk} (hb : b ∈ U.blocks)
    (hne : b ≠ U.entry) {row : Row} (hr : RowOK U A b row) :
    checkBB U A b row = .ok (outsOf U A b row) ∧
      ∀ s ∈ U.succ b ++ U.dsucc b, RowOK U A s (rowFor A (runEvents row (U.events b)) s) := by
  have key : ∀ s ∈ U.succ b ++ U.dsucc b, ∀ x ∈ A.live s,
      defCheck U (runEvents row (U.events b)) x = none := by
    intro s hs x hx
    rw [defCheck_none_iff]
    constructor
    · intro hAS
      rw [lookup_runEvents_isSome]
      by_cases ha : x ∈ assignedOf (U.events b)
      · exact Or.inr ha
      · exact Or.inl (hr.locals x (live_of_succ hU hA hb hs hx ha) hAS)
    · intro hAS
      have ha : x ∉ assignedOf (U.events b) := fun h => hAS (assigned_sub_AS hb h)
      exact hr.globals x (live_of_succ hU hA hb hs hx ha) hAS
  constructor
  · unfold checkBB
    simp only [hne, ↓reduceIte, List.isEmpty_nil, Bool.not_true, Bool.false_eq_true]
    have : ((U.succ b ++ U.dsucc b).flatMap fun s =>
        (A.live s).filterMap (defCheck U (runEvents row (U.events b)))) = [] := by
      rw [List.flatMap_eq_nil_iff]
      intro s hs
      rw [List.filterMap_eq_nil_iff]
      exact fun x hx => key s hs x hx
    simp [this, outsOf]
  · intro s hs
    have hsne : s ≠ U.entry := by
      intro e
      have : b ∈ U.pred s ++ U.dpred s := (hU.cfg.conv b s).mp hs
      rw [e, hU.entry_root] at this
      exact absurd this List.not_mem_nil
    refine ⟨?_, ?_, ?_⟩
    · intro x hx hAS
      rw [lookup_rowFor]; simp only [hx, ↓reduceIte]
      exact ((defCheck_none_iff U _ x).mp (key s hs x hx)).1 hAS
    · intro x hx hAS
      exact ((defCheck_none_iff U _ x).mp (key s hs x hx)).2 hAS
    · intro x hx
      rw [lookup_rowFor] at hx
      by_cases hl : x ∈ A.live s
      · simp only [hl, ↓reduceIte] at hx
        exact ⟨env_sub_AS hb hr hx, fun _ => hl⟩
      · simp [hl] at hx

end GuppyVerif.UseDef
