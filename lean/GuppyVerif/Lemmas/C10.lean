import GuppyVerif.Spec.C10
/-! Invariants of the `update_reachable` worklist for every pop order; sorting facts. -/
namespace GuppyVerif.Determ
open GuppyVerif.Dataflow

theorem mem_filter_ne' {q : List Blk} {b c : Blk} : c ∈ q.filter (· != b) ↔ c ∈ q ∧ c ≠ b := by
  simp [List.mem_filter]

structure RInv (succ : Blk → List Blk) (entry : Blk) (s : RSt) : Prop where
  sound : ∀ b, s.reach b = true → Path succ entry b
  qsound : ∀ c ∈ s.queue, Path succ entry c
  closed : ∀ b, s.reach b = true → ∀ c ∈ succ b, s.reach c = true ∨ c ∈ s.queue
  entryc : s.reach entry = true ∨ entry ∈ s.queue

theorem rinv_init (succ : Blk → List Blk) (entry : Blk) : RInv succ entry (reachInit entry) := by
  refine ⟨?_, ?_, ?_, Or.inr (by simp [reachInit])⟩
  · intro b h; simp [reachInit] at h
  · intro c hc; simp [reachInit] at hc; subst hc; exact .refl
  · intro b h; simp [reachInit] at h

theorem rinv_step (succ : Blk → List Blk) (entry : Blk) (s : RSt) (b : Blk) (hb : b ∈ s.queue)
    (hi : RInv succ entry s) : RInv succ entry (reachStep succ s b) := by
  unfold reachStep
  by_cases hr : s.reach b = true
  · simp only [hr, ↓reduceIte]
    refine ⟨hi.sound, fun c hc => hi.qsound c (mem_filter_ne'.mp hc).1, ?_, ?_⟩
    · intro b' hb' c hc
      rcases hi.closed b' hb' c hc with h | h
      · exact Or.inl h
      · by_cases hcb : c = b
        · subst hcb; exact Or.inl hr
        · exact Or.inr (mem_filter_ne'.mpr ⟨h, hcb⟩)
    · rcases hi.entryc with h | h
      · exact Or.inl h
      · by_cases he : entry = b
        · subst he; exact Or.inl hr
        · exact Or.inr (mem_filter_ne'.mpr ⟨h, he⟩)
  · simp only [hr, Bool.false_eq_true, ↓reduceIte]
    have hpb : Path succ entry b := hi.qsound b hb
    have hmono : ∀ c, s.reach c = true → upd s.reach b true c = true := by
      intro c hc; unfold upd; split <;> simp [hc]
    have hself : upd s.reach b true b = true := by simp [upd]
    refine ⟨?_, ?_, ?_, ?_⟩
    · intro c hc
      by_cases e : c = b
      · subst e; exact hpb
      · have : s.reach c = true := by simpa [upd, e] using hc
        exact hi.sound c this
    · intro c hc
      rw [List.mem_append] at hc
      rcases hc with hc | hc
      · exact hi.qsound c (mem_filter_ne'.mp hc).1
      · exact .tail hpb hc
    · intro b' hb' c hc
      by_cases hbb : b' = b
      · subst hbb; exact Or.inr (List.mem_append_right _ hc)
      · have hb'' : s.reach b' = true := by simpa [upd, hbb] using hb'
        rcases hi.closed b' hb'' c hc with h | h
        · exact Or.inl (hmono c h)
        · by_cases hcb : c = b
          · subst hcb; exact Or.inl hself
          · exact Or.inr (List.mem_append_left _ (mem_filter_ne'.mpr ⟨h, hcb⟩))
    · rcases hi.entryc with h | h
      · exact Or.inl (hmono _ h)
      · by_cases he : entry = b
        · subst he; exact Or.inl hself
        · exact Or.inr (List.mem_append_left _ (mem_filter_ne'.mpr ⟨h, he⟩))

theorem rinv_reach (succ : Blk → List Blk) (entry : Blk) {s t : RSt} (h : RReach succ s t)
    (hi : RInv succ entry s) : RInv succ entry t := by
  induction h with
  | refl => exact hi
  | step b hb _ ih => exact ih (rinv_step succ entry _ b hb hi)

theorem reachRun_reach (succ : Blk → List Blk) (sched : List Blk → Blk) :
    ∀ (fuel : Nat) (s t : RSt), reachRun succ sched fuel s = some t → RReach succ s t ∧ t.queue = [] := by
  intro fuel
  induction fuel with
  | zero =>
    intro s t h
    unfold reachRun at h
    split at h
    · cases h; exact ⟨.refl _, by simpa using ‹s.queue.isEmpty = true›⟩
    · cases h
  | succ n ih =>
    intro s t h
    unfold reachRun at h
    split at h
    · cases h; exact ⟨.refl _, ‹s.queue = []›⟩
    · rename_i hd tl hq
      simp only at h
      obtain ⟨hr, he⟩ := ih _ _ h
      refine ⟨.step _ ?_ hr, he⟩
      split
      · rename_i hc; simpa using hc
      · rw [hq]; exact List.mem_cons_self

theorem natLe_trans : ∀ (a b c : Nat), decide (a ≤ b) = true → decide (b ≤ c) = true → decide (a ≤ c) = true := by
  intro a b c h1 h2; simp at *; omega
theorem natLe_total : ∀ (a b : Nat), (decide (a ≤ b) || decide (b ≤ a)) = true := by
  intro a b; simp; omega

theorem varLe_trans (d : Nat → Bool) : ∀ (a b c : Nat), varLe d a b = true → varLe d b c = true → varLe d a c = true := by
  intro a b c
  unfold varLe
  cases d a <;> cases d b <;> cases d c <;> simp <;> omega
theorem varLe_total (d : Nat → Bool) : ∀ (a b : Nat), (varLe d a b || varLe d b a) = true := by
  intro a b
  unfold varLe
  cases d a <;> cases d b <;> simp <;> omega
theorem varLe_antisymm (d : Nat → Bool) : ∀ (a b : Nat), varLe d a b = true → varLe d b a = true → a = b := by
  intro a b
  unfold varLe
  cases d a <;> cases d b <;> simp <;> omega

end GuppyVerif.Determ
