import GuppyVerif.Spec.C23
/-! Helper lemmas for C23. -/
namespace GuppyVerif.MockBuiltins

open Spec

theorem Globals.ext' {a b : Globals} (h1 : a.order = b.order) (h2 : ∀ n, a.val n = b.val n) : a = b := by
  cases a; cases b; simp only [Globals.mk.injEq]; exact ⟨h1, funext h2⟩

theorem not_mem_of_absent {g : Globals} (h : WF g) {n : Name} (hn : g.val n = none) : n ∉ g.order := by
  intro hm; have := (h.2 n).mp hm; simp [hn] at this

/-- one bracket of `mock_builtins` around a body that leaves the dict alone gives the dict back
    exactly (order included) and the `finally` block does not raise -/
theorem restore_save (g : Globals) (h : WF g) :
    restore (save g) (updateAll mockDict g) = (g, true) := by
  have nf := @not_mem_of_absent g h .float
  have ni := @not_mem_of_absent g h .int
  have nl := @not_mem_of_absent g h .len
  cases hf : g.val .float <;> cases hi : g.val .int <;> cases hl : g.val .len <;>
    simp only [hf, hi, hl, forall_const] at nf ni nl <;>
    simp [restore, restoreDel, save, updateAll, mockDict, mockNames, hasKey, Globals.set, Globals.del,
      Globals.contains, hf, hi, hl, List.erase_append_right, nf, ni, nl] <;>
    (apply Globals.ext' <;> first
      | (intro n; by_cases h1 : n = .float <;> by_cases h2 : n = .int <;> by_cases h3 : n = .len <;>
          simp_all)
      | simp_all [List.erase_append_right])
