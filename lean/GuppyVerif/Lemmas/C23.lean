import GuppyVerif.Spec.C23
/-! Helper lemmas for C23. -/
namespace GuppyVerif.MockBuiltins

open Spec

theorem Globals.ext' {a b : Globals} (h1 : a.order = b.order) (h2 : ∀ n, a.val n = b.val n) : a = b := by
  cases a; cases b; simp only [Globals.mk.injEq]; exact ⟨h1, funext h2⟩

theorem not_mem_of_absent {g : Globals} (h : WF g) {n : Name} (hn : g.val n = none) : n ∉ g.order := by
  intro hm; have := (h.2 n).mp hm; simp [hn] at this

/-- one bracket of `mock_builtins` around a body that leaves the dict alone gives the dict back
    exactly (order included) and the `finally` block does not raise -/
theorem restore_save (g : Globals) (h : WF g) :
    restore (save g) (updateAll mockDict g) = (g, true) := by
  have nf := @not_mem_of_absent g h .float
  have ni := @not_mem_of_absent g h .int
  have nl := @not_mem_of_absent g h .len
  cases hf : g.val .float <;> cases hi : g.val .int <;> cases hl : g.val .len <;>
    simp only [hf, hi, hl, forall_const] at nf ni nl <;>
    simp [restore, restoreDel, save, updateAll, mockDict, mockNames, hasKey, Globals.set, Globals.del,
      Globals.contains, hf, hi, hl, List.erase_append_right, nf, ni, nl] <;>
    (apply Globals.ext' <;> first
      | (intro n; by_cases h1 : n = .float <;> by_cases h2 : n = .int <;> by_cases h3 : n = .len <;>
          simp_all)
      | simp_all)

theorem WF_set {g : Globals} (h : WF g) (n : Name) (v : Val) : WF (g.set n v) := by
  obtain ⟨hnd, hm⟩ := h
  unfold Globals.set Globals.contains
  cases hc : (g.val n).isSome
  · have hn : n ∉ g.order := by intro hmem; have := (hm n).mp hmem; simp [hc] at this
    refine ⟨?_, ?_⟩
    · simp only [Bool.false_eq_true, ↓reduceIte]
      exact List.nodup_append.mpr ⟨hnd, by simp, by intro a ha b hb; simp at hb; subst hb; intro e; subst e; exact hn ha⟩
    · intro k
      by_cases hk : k = n
      · subst hk; simp
      · simp [hk, hm k]
  · have hn : n ∈ g.order := (hm n).mpr hc
    refine ⟨by simpa using hnd, ?_⟩
    intro k
    by_cases hk : k = n
    · subst hk; simp [hn]
    · simp [hk, hm k]

theorem WF_update (g : Globals) (h : WF g) : WF (updateAll mockDict g) := by
  simp only [updateAll, mockDict, mockNames, List.map, List.foldl]
  exact WF_set (WF_set (WF_set h _ _) _ _) _ _

theorem update_val (g : Globals) (n : Name) :
    (updateAll mockDict g).val n =
      if n = .len then some (.mock .len) else if n = .int then some (.mock .int)
      else if n = .float then some (.mock .float) else g.val n := by
  simp [updateAll, mockDict, mockNames, Globals.set]

theorem update_idem (g : Globals) :
    updateAll mockDict (updateAll mockDict g) = updateAll mockDict g := by
  apply Globals.ext'
  · simp [updateAll, mockDict, mockNames, Globals.set, Globals.contains]
  · intro n
    rw [update_val, update_val]
    by_cases h1 : n = .len <;> by_cases h2 : n = .int <;> by_cases h3 : n = .float <;> simp [h1, h2, h3]

theorem setMod_same (σ : Mods) (m : Nat) (g : Globals) : setMod (setMod σ m g) m (σ m) = σ := by
  funext j; unfold setMod; by_cases h : j = m <;> simp [h]

theorem WF_setMod {σ : Mods} (h : ∀ j, WF (σ j)) (m : Nat) {g : Globals} (hg : WF g) :
    ∀ j, WF (setMod σ m g j) := by
  intro j; unfold setMod; by_cases hj : j = m <;> simp [hj, hg, h j]

/-- every (nested, possibly failing) compilation leaves every module exactly as it was and the
    `finally` block of `mock_builtins` never fails -/
theorem exec_mods (K : Nat) (p : Prog) : ∀ σ : Mods, (∀ j, WF (σ j)) → (exec K p σ).mods = σ := by
  induction p with
  | skip => intro σ _; rfl
  | seq p q ihp ihq =>
    intro σ h
    simp only [exec]
    cases hr : (exec K p σ).raised
    · simp only [Bool.false_eq_true, ↓reduceIte]
      rw [ihp σ h]; exact ihq σ h
    · simp only [↓reduceIte]; exact ihp σ h
  | probe => intro σ _; rfl
  | raise => intro σ _; rfl
  | trace m body retOk ih =>
    intro σ h
    simp only [exec]
    rw [ih _ (WF_setMod h m (WF_update _ (h m)))]
    have : setMod σ m (updateAll mockDict (σ m)) m = updateAll mockDict (σ m) := by simp [setMod]
    rw [this, restore_save _ (h m)]
    exact setMod_same σ m _
  | «catch» p ih => intro σ h; simp only [exec]; exact ih σ h

def mockAll (act : List Nat) (σ₀ : Mods) : Mods :=
  fun j => if j ∈ act then updateAll mockDict (σ₀ j) else σ₀ j

theorem WF_mockAll {σ₀ : Mods} (h : ∀ j, WF (σ₀ j)) (act : List Nat) : ∀ j, WF (mockAll act σ₀ j) := by
  intro j; unfold mockAll; by_cases hj : j ∈ act <;> simp [hj, h j, WF_update]

theorem mockAll_cons (act : List Nat) (σ₀ : Mods) (m : Nat) :
    setMod (mockAll act σ₀) m (updateAll mockDict (mockAll act σ₀ m)) = mockAll (m :: act) σ₀ := by
  funext j
  unfold setMod mockAll
  by_cases hj : j = m
  · subst hj
    by_cases ha : j ∈ act <;> simp [ha, update_idem]
  · simp [hj]

theorem observe_mockAll (K : Nat) (act : List Nat) (σ₀ : Mods) :
    observe K (mockAll act σ₀) = Spec.observe K σ₀ act := by
  unfold observe Spec.observe view mockAll
  apply List.map_congr_left
  intro j _
  by_cases ha : j ∈ act <;> simp [ha, update_val]

theorem exec_denote (K : Nat) (σ₀ : Mods) (h : ∀ j, WF (σ₀ j)) (p : Prog) : ∀ act : List Nat,
    (exec K p (mockAll act σ₀)).trace = (denote K σ₀ act p).1 ∧
    (exec K p (mockAll act σ₀)).raised = (denote K σ₀ act p).2 := by
  induction p with
  | skip => intro act; simp [exec, denote]
  | seq p q ihp ihq =>
    intro act
    obtain ⟨h1, h2⟩ := ihp act
    simp only [exec, denote]
    cases hr : (exec K p (mockAll act σ₀)).raised
    · have hd : (denote K σ₀ act p).2 = false := by rw [← h2]; exact hr
      have : denote K σ₀ act p = ((denote K σ₀ act p).1, false) := by rw [← hd]
      rw [this]
      rw [exec_mods K p _ (WF_mockAll h act)]
      obtain ⟨g1, g2⟩ := ihq act
      simp [h1, g1, g2]
    · have hd : (denote K σ₀ act p).2 = true := by rw [← h2]; exact hr
      have : denote K σ₀ act p = ((denote K σ₀ act p).1, true) := by rw [← hd]
      rw [this]
      simp [h1, hr]
  | probe => intro act; simp [exec, denote, observe_mockAll]
  | raise => intro act; simp [exec, denote]
  | trace m body retOk ih =>
    intro act
    simp only [exec, denote]
    rw [mockAll_cons]
    obtain ⟨h1, h2⟩ := ih (m :: act)
    rw [exec_mods K body _ (WF_mockAll h (m :: act))]
    have hm : mockAll (m :: act) σ₀ m = updateAll mockDict (mockAll act σ₀ m) := by
      rw [← mockAll_cons]; simp [setMod]
    rw [hm, restore_save _ (WF_mockAll h act m)]
    simp [h1, h2]
  | «catch» p ih =>
    intro act
    obtain ⟨h1, _⟩ := ih act
    simp [exec, denote, h1]

end GuppyVerif.MockBuiltins
