import GuppyVerif.Lemmas.C09Run
/-! Termination of the liveness worklist under every scheduler: an explicit fuel bound.
    Potential: (number of (block, variable) memberships that can still flip) × (N+1) + (number
    of queued blocks).  Non-initial variables only ever enter a block's live set, initially-live
    ones only ever leave it. -/
namespace GuppyVerif.Dataflow

theorem countP_lt_of_imp {α : Type} (p q : α → Bool) (l : List α)
    (himp : ∀ a ∈ l, p a = true → q a = true) (hex : ∃ a ∈ l, q a = true ∧ p a = false) :
    l.countP p < l.countP q := by
  induction l with
  | nil => obtain ⟨a, ha, _⟩ := hex; cases ha
  | cons x l ih =>
    obtain ⟨a, ha, hq, hp⟩ := hex
    have hle : l.countP p ≤ l.countP q :=
      List.countP_mono_left fun b hb => himp b (List.mem_cons_of_mem _ hb)
    rw [List.mem_cons] at ha
    rcases ha with rfl | ha
    · simp only [List.countP_cons, hq, hp]; simp; omega
    · have := ih (fun b hb => himp b (List.mem_cons_of_mem _ hb)) ⟨a, ha, hq, hp⟩
      simp only [List.countP_cons]
      have hx := himp x List.mem_cons_self
      cases hpx : p x <;> cases hqx : q x <;> simp_all <;> omega

/-- universe of variables the analysis can ever mention -/
def liveUniv (g : Cfg) (init : List Var) : List Var := init ++ g.blocks.flatMap g.used

def livePairs (g : Cfg) (init : List Var) : List (Blk × Var) :=
  g.blocks.flatMap fun b => (liveUniv g init).map fun x => (b, x)

/-- a membership that can still flip: an initially-live variable still present, or another
    variable still absent -/
def pending (init : List Var) (vals : Blk → List Var) (p : Blk × Var) : Bool :=
  if init.contains p.2 then (vals p.1).contains p.2 else !(vals p.1).contains p.2

def livePot (g : Cfg) (init : List Var) (s : LSt) : Nat :=
  (livePairs g init).countP (pending init s.vals) * (g.blocks.length + 1) +
    g.blocks.countP (fun b => s.queue.contains b)

structure LTInv (g : Cfg) (init : List Var) (s : LSt) : Prop where
  qsub : ∀ c ∈ s.queue, c ∈ g.blocks
  univ : ∀ b x, x ∈ s.vals b → x ∈ liveUniv g init
  inc : ∀ b x, x ∉ init → x ∈ s.vals b → x ∈ liveF g s.vals b
  dec : ∀ b x, x ∈ init → x ∈ liveF g s.vals b → x ∈ s.vals b

theorem ltinv_init (g : Cfg) (init : List Var) : LTInv g init (liveInit g init) := by
  refine ⟨fun c hc => hc, fun b x hx => List.mem_append_left _ hx, ?_, fun b x hx _ => hx⟩
  intro b x hn hx; exact absurd hx hn

/-- membership of `x` in `liveF` depends monotonically on membership of `x` in the values -/
theorem liveF_mono_var {g : Cfg} {v w : Blk → List Var} {x : Var} (h : ∀ c, x ∈ v c → x ∈ w c)
    {b : Blk} (hx : x ∈ liveF g v b) : x ∈ liveF g w b := by
  rw [mem_liveF] at hx ⊢
  rcases hx with hu | ⟨hn, c, he, hc⟩
  · exact Or.inl hu
  · exact Or.inr ⟨hn, c, he, h c hc⟩

theorem used_sub_univ {g : Cfg} {init : List Var} {b : Blk} (hb : b ∈ g.blocks) {x : Var}
    (hx : x ∈ g.used b) : x ∈ liveUniv g init :=
  List.mem_append_right _ (List.mem_flatMap.mpr ⟨b, hb, hx⟩)

theorem liveF_sub_univ {g : Cfg} {init : List Var} {s : LSt} (hi : LTInv g init s) {b : Blk}
    (hb : b ∈ g.blocks) {x : Var} (hx : x ∈ liveF g s.vals b) : x ∈ liveUniv g init := by
  rw [mem_liveF] at hx
  rcases hx with hu | ⟨_, c, _, hc⟩
  · exact used_sub_univ hb hu
  · exact hi.univ c x hc

theorem ltinv_step (g : Cfg) (hg : g.WF) (init : List Var) (s : LSt) (b : Blk) (hbq : b ∈ s.queue)
    (hi : LTInv g init s) : LTInv g init (liveStep g s b) := by
  have hb : b ∈ g.blocks := hi.qsub b hbq
  unfold liveStep
  by_cases e : sameSet (s.vals b) (liveF g s.vals b) = true
  · simp only [e, ↓reduceIte]
    exact ⟨fun c hc => hi.qsub c (mem_filter_ne.mp hc).1, hi.univ, hi.inc, hi.dec⟩
  · simp only [e, Bool.false_eq_true, ↓reduceIte]
    -- per-variable comparison of old and new values
    have up : ∀ x, x ∉ init → ∀ c, x ∈ s.vals c → x ∈ upd s.vals b (liveF g s.vals b) c := by
      intro x hx c hc
      by_cases hcb : c = b
      · subst hcb; simp only [upd, ↓reduceIte]; exact hi.inc _ x hx hc
      · simp only [upd, hcb, ↓reduceIte]; exact hc
    have down : ∀ x, x ∈ init → ∀ c, x ∈ upd s.vals b (liveF g s.vals b) c → x ∈ s.vals c := by
      intro x hx c hc
      by_cases hcb : c = b
      · subst hcb; simp only [upd, ↓reduceIte] at hc; exact hi.dec _ x hx hc
      · simp only [upd, hcb, ↓reduceIte] at hc; exact hc
    refine ⟨?_, ?_, ?_, ?_⟩
    · intro c hc
      rw [List.mem_append] at hc
      rcases hc with hc | hc
      · exact hi.qsub c (mem_filter_ne.mp hc).1
      · exact hg.pclosed b hb c hc
    · intro c x hx
      by_cases hcb : c = b
      · subst hcb; simp only [upd, ↓reduceIte] at hx; exact liveF_sub_univ hi hb hx
      · simp only [upd, hcb, ↓reduceIte] at hx; exact hi.univ c x hx
    · intro c x hn hx
      apply liveF_mono_var (up x hn)
      by_cases hcb : c = b
      · subst hcb; simp only [upd, ↓reduceIte] at hx; exact hx
      · simp only [upd, hcb, ↓reduceIte] at hx; exact hi.inc c x hn hx
    · intro c x hx hf
      have hf' : x ∈ liveF g s.vals c := liveF_mono_var (down x hx) hf
      by_cases hcb : c = b
      · subst hcb; simp only [upd, ↓reduceIte]; exact hf'
      · simp only [upd, hcb, ↓reduceIte]; exact hi.dec c x hx hf'

theorem countP_queue_le (g : Cfg) (q : List Blk) : g.blocks.countP (fun b => q.contains b) ≤ g.blocks.length :=
  List.countP_le_length

/-- every step strictly decreases the potential -/
theorem livePot_step (g : Cfg) (init : List Var) (s : LSt) (b : Blk) (hbq : b ∈ s.queue)
    (hi : LTInv g init s) : livePot g init (liveStep g s b) < livePot g init s := by
  have hb : b ∈ g.blocks := hi.qsub b hbq
  unfold livePot liveStep
  by_cases e : sameSet (s.vals b) (liveF g s.vals b) = true
  · simp only [e, ↓reduceIte]
    have : g.blocks.countP (fun c => (s.queue.filter (· != b)).contains c) <
        g.blocks.countP (fun c => s.queue.contains c) := by
      apply countP_lt_of_imp
      · intro c _ hc
        simp only [List.contains_iff_mem] at hc ⊢
        exact (mem_filter_ne.mp hc).1
      · refine ⟨b, hb, by simpa using hbq, ?_⟩
        simp [List.mem_filter]
    omega
  · simp only [e, Bool.false_eq_true, ↓reduceIte]
    have hlt : (livePairs g init).countP (pending init (upd s.vals b (liveF g s.vals b))) <
        (livePairs g init).countP (pending init s.vals) := by
      apply countP_lt_of_imp
      · rintro ⟨c, x⟩ _ hp
        unfold pending at hp ⊢
        simp only at hp ⊢
        by_cases hx : x ∈ init
        · have hc : init.contains x = true := by simpa using hx
          simp only [hc, ↓reduceIte, List.contains_iff_mem] at hp ⊢
          by_cases hcb : c = b
          · subst hcb; simp only [upd, ↓reduceIte] at hp; exact hi.dec _ x hx hp
          · simpa [upd, hcb] using hp
        · have hc : init.contains x = false := by simpa using hx
          simp only [hc, Bool.false_eq_true, ↓reduceIte, Bool.not_eq_true',
            List.contains_eq_mem, decide_eq_false_iff_not] at hp ⊢
          by_cases hcb : c = b
          · subst hcb; simp only [upd, ↓reduceIte] at hp
            exact fun h => hp (hi.inc _ x hx h)
          · simpa [upd, hcb] using hp
      · -- some membership at `b` flips
        have hne : ¬ SetEq (s.vals b) (liveF g s.vals b) := fun h => e ((sameSet_iff _ _).mpr h)
        have : ∃ x, ¬ (x ∈ s.vals b ↔ x ∈ liveF g s.vals b) := Classical.not_forall.mp hne
        obtain ⟨x, hx⟩ := this
        have hxu : x ∈ liveUniv g init := by
          by_cases h1 : x ∈ s.vals b
          · exact hi.univ b x h1
          · have h2 : x ∈ liveF g s.vals b := Classical.not_not.mp fun h2 => hx ⟨fun h => absurd h h1, fun h => absurd h h2⟩
            exact liveF_sub_univ hi hb h2
        refine ⟨(b, x), ?_, ?_, ?_⟩
        · unfold livePairs
          exact List.mem_flatMap.mpr ⟨b, hb, List.mem_map.mpr ⟨x, hxu, rfl⟩⟩
        · unfold pending
          simp only
          by_cases hxi : x ∈ init
          · have hc : init.contains x = true := by simpa using hxi
            simp only [hc, ↓reduceIte, List.contains_iff_mem]
            exact Classical.not_not.mp fun h1 => hx ⟨fun h => absurd h h1, fun h => hi.dec b x hxi h⟩
          · have hc : init.contains x = false := by simpa using hxi
            simp only [hc, Bool.false_eq_true, ↓reduceIte, Bool.not_eq_true', List.contains_eq_mem,
              decide_eq_false_iff_not]
            intro h1; exact hx ⟨fun _ => hi.inc b x hxi h1, fun _ => h1⟩
        · unfold pending
          simp only [upd, ↓reduceIte]
          by_cases hxi : x ∈ init
          · have hc : init.contains x = true := by simpa using hxi
            simp only [hc, ↓reduceIte, List.contains_eq_mem, decide_eq_false_iff_not]
            intro h2; exact hx ⟨fun _ => h2, fun _ => hi.dec b x hxi h2⟩
          · have hc : init.contains x = false := by simpa using hxi
            simp only [hc, Bool.false_eq_true, ↓reduceIte, Bool.not_eq_false', List.contains_iff_mem]
            exact Classical.not_not.mp fun h2 => hx ⟨fun h => hi.inc b x hxi h, fun h => absurd h h2⟩
    have hq := countP_queue_le g (s.queue.filter (· != b) ++ (g.pred b ++ g.dpred b))
    have : (livePairs g init).countP (pending init (upd s.vals b (liveF g s.vals b))) + 1 ≤
        (livePairs g init).countP (pending init s.vals) := hlt
    calc _ ≤ (livePairs g init).countP (pending init (upd s.vals b (liveF g s.vals b))) *
            (g.blocks.length + 1) + g.blocks.length := by omega
      _ < ((livePairs g init).countP (pending init (upd s.vals b (liveF g s.vals b))) + 1) *
            (g.blocks.length + 1) := by rw [Nat.add_mul]; omega
      _ ≤ (livePairs g init).countP (pending init s.vals) * (g.blocks.length + 1) :=
            Nat.mul_le_mul_right _ this
      _ ≤ _ := Nat.le_add_right _ _

theorem liveRun_isSome (g : Cfg) (hg : g.WF) (init : List Var) (sched : List Blk → Blk) :
    ∀ (fuel : Nat) (s : LSt), LTInv g init s → livePot g init s ≤ fuel →
      (liveRun g sched fuel s).isSome = true := by
  intro fuel
  induction fuel with
  | zero =>
    intro s hi hp
    unfold liveRun
    cases hq : s.queue with
    | nil => simp
    | cons c q =>
      exfalso
      have hc : c ∈ s.queue := by rw [hq]; exact List.mem_cons_self
      have hcb := hi.qsub c hc
      have : 0 < g.blocks.countP (fun b => s.queue.contains b) :=
        List.countP_pos_iff.mpr ⟨c, hcb, by simpa using hc⟩
      unfold livePot at hp; omega
  | succ n ih =>
    intro s hi hp
    unfold liveRun
    cases hq : s.queue with
    | nil => simp
    | cons c q =>
      simp only
      have hmem : (if (c :: q).contains (sched (c :: q)) = true then sched (c :: q) else c) ∈ s.queue := by
        rw [hq]
        split
        · rename_i h; simpa using h
        · exact List.mem_cons_self
      apply ih _ (ltinv_step g hg init s _ hmem hi)
      have := livePot_step g init s _ hmem hi
      omega

end GuppyVerif.Dataflow
