import GuppyVerif.Spec.C22
/-! Invariant of the tracer's ownership bookkeeping, preserved by every step. -/
namespace GuppyVerif.TraceOwn

/-- * ids at or beyond `next` are unallocated;
    * the dict holds exactly the non-droppable, not-yet-used objects;
    * for a non-copyable object the flag `used` says exactly "one use since creation / reset", and there
      is never more than one. -/
structure Inv (s : State) : Prop where
  fresh : ∀ i, s.next ≤ i → s.objs i = none
  dict : ∀ i, s.unused i = true ↔ ∃ o, s.objs i = some o ∧ o.droppable = false ∧ o.used = false
  once : ∀ i o, s.objs i = some o → o.copyable = false → o.uses ≤ 1 ∧ (o.used = true ↔ o.uses = 1)

theorem inv_empty : Inv State.empty := by
  refine ⟨fun _ _ => rfl, fun i => ?_, fun i o h => ?_⟩
  · simp [State.empty]
  · simp [State.empty] at h

@[simp] theorem upd_same {α} (f : Nat → α) (i : Nat) (v : α) : upd f i v i = v := by simp [upd]
theorem upd_other {α} (f : Nat → α) (i j : Nat) (v : α) (h : j ≠ i) : upd f i v j = f j := by simp [upd, h]

theorem inv_create {s : State} (h : Inv s) (c d : Bool) : Inv (create s c d) := by
  refine ⟨fun i hi => ?_, fun i => ?_, fun i o ho hc => ?_⟩
  · have : i ≠ s.next := by simp [create] at hi; omega
    simp only [create, upd_other _ _ _ _ this]
    exact h.fresh i (by simp [create] at hi; omega)
  · by_cases e : i = s.next
    · subst e; simp [create]
    · simp only [create, upd_other _ _ _ _ e]; exact h.dict i
  · by_cases e : i = s.next
    · subst e; simp [create] at ho; subst ho; simp
    · simp only [create, upd_other _ _ _ _ e] at ho; exact h.once i o ho hc

theorem inv_useObj {s s' : State} (h : Inv s) (id : Nat) (hs : useObj s id = .ok s') : Inv s' := by
  unfold useObj at hs
  split at hs
  · cases hs
  · rename_i o ho
    split at hs
    · cases hs
    · rename_i hnu
      have hnext : s'.next = s.next := by
        split at hs <;> (cases hs; rfl)
      have hobjs : s'.objs = upd s.objs id (some { o with used := true, uses := o.uses + 1 }) := by
        split at hs <;> (cases hs; rfl)
      refine ⟨fun i hi => ?_, fun i => ?_, fun i o' ho' hc => ?_⟩
      · rw [hobjs]
        by_cases e : i = id
        · subst e; rw [h.fresh i (hnext ▸ hi)] at ho; cases ho
        · rw [upd_other _ _ _ _ e]; exact h.fresh i (hnext ▸ hi)
      · rw [hobjs]
        by_cases e : i = id
        · subst e
          simp only [upd_same, Option.some.injEq, exists_eq_left', Bool.true_eq_false, and_false, iff_false,
            Bool.not_eq_true]
          split at hs
          · rename_i hd; cases hs
            cases hu : s.unused i
            · rfl
            · exact absurd ((h.dict i).mp hu) (by rintro ⟨o2, h2, hd2, _⟩; rw [ho] at h2; cases h2; simp [hd] at hd2)
          · cases hs; simp
        · rw [upd_other _ _ _ _ e]
          have : s'.unused i = s.unused i := by
            split at hs
            · cases hs; rfl
            · cases hs; simp [upd_other _ _ _ _ e]
          rw [this]; exact h.dict i
      · rw [hobjs] at ho'
        by_cases e : i = id
        · subst e
          simp only [upd_same, Option.some.injEq] at ho'
          subst ho'
          simp only at hc ⊢
          have hu : o.used = false := by
            cases hu : o.used
            · rfl
            · exact absurd ⟨hu, by simp [hc]⟩ hnu
          have := h.once i o ho hc
          rw [hu] at this
          have h0 : o.uses = 0 := by
            rcases this with ⟨hle, hiff⟩
            rcases Nat.lt_or_ge o.uses 1 with hlt | hge
            · omega
            · have : o.uses = 1 := by omega
              exact absurd (hiff.mpr this) (by simp)
          simp [h0]
        · rw [upd_other _ _ _ _ e] at ho'; exact h.once i o' ho' hc

theorem inv_reset {s s' : State} (h : Inv s) (id : Nat) (hs : reset s id = .ok s') : Inv s' := by
  unfold reset at hs
  split at hs
  · cases hs
  · rename_i o ho
    cases hs
    refine ⟨fun i hi => ?_, fun i => ?_, fun i o' ho' hc => ?_⟩
    · by_cases e : i = id
      · subst e; rw [h.fresh i hi] at ho; cases ho
      · simp only [upd_other _ _ _ _ e]; exact h.fresh i hi
    · by_cases e : i = id
      · subst e
        simp only [upd_same, Option.some.injEq, exists_eq_left', and_true]
        by_cases hc : (!o.droppable) = true ∧ o.used = true
        · simp only [hc, and_self, ↓reduceIte, upd_same, true_iff]; simpa using hc.1
        · simp only [hc, ↓reduceIte]
          rw [h.dict i]
          simp only [ho, Option.some.injEq, exists_eq_left']
          constructor
          · exact fun x => x.1
          · intro hd; refine ⟨hd, ?_⟩
            cases hu : o.used
            · rfl
            · exact absurd ⟨by simpa using hd, hu⟩ hc
      · simp only [upd_other _ _ _ _ e]
        have : (if (!o.droppable) = true ∧ o.used = true then upd s.unused id true else s.unused) i = s.unused i := by
          split
          · exact upd_other _ _ _ _ e
          · rfl
        rw [this]; exact h.dict i
    · by_cases e : i = id
      · subst e; simp only [upd_same, Option.some.injEq] at ho'; subst ho'; simp
      · simp only [upd_other _ _ _ _ e] at ho'; exact h.once i o' ho' hc

theorem inv_borrow {s s' : State} (h : Inv s) (id : Nat) (hs : borrow s id = .ok s') : Inv s' := by
  unfold borrow at hs
  split at hs
  · cases hs
  · rename_i o ho
    simp only [bind, Except.bind] at hs
    split at hs
    · cases hs
    · rename_i s1 h1
      split at hs
      · cases hs
      · rename_i s3 h3
        exact inv_reset (inv_useObj (inv_create (inv_useObj h id h1) _ _) _ h3) id hs

theorem inv_step {s s' : State} (h : Inv s) (op : Op) (hs : step s op = .ok s') : Inv s' := by
  cases op with
  | create c d => cases hs; exact inv_create h c d
  | use id => exact inv_useObj h id hs
  | borrow id => exact inv_borrow h id hs
  | reset id => exact inv_reset h id hs
  | mutate f =>
    simp only [step] at hs
    split at hs
    · cases hs
    · cases hs; exact h

theorem inv_run {s s' : State} (h : Inv s) (ops : List Op) (hs : run s ops = .ok s') : Inv s' := by
  induction ops generalizing s with
  | nil => cases hs; exact h
  | cons op ops ih =>
    simp only [run] at hs
    split at hs
    · rename_i s1 h1; exact ih (inv_step h op h1) hs
    · cases hs

end GuppyVerif.TraceOwn
