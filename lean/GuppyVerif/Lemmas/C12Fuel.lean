import GuppyVerif.Lemmas.C12Term
import GuppyVerif.Lemmas.C12Bound
/-! Lemmas for C12, part 13: an explicit fuel bound for `unify` on acyclic priors.

    Parameters fixed along a run: the finite universe `U` of variables, the list `KK` of possible keys
    (`keys σ₀ ++ U`), a bound `Z0` on the size of every term in play.  With `L = |KK|` (ranks are compressed to
    `< L`), `A = 2·Z0+2`, `K2 = 2·L+2`, `B = K2·A + A`, `O = L+2`, a call at a substitution with `c` unbound
    universe positions needs at most `c·(B+1) + O + M·A + Z` fuel where `M`/`Z` bound the rank/size sums. -/
namespace GuppyVerif.Unify

/-! ### sizes of images stay bounded -/

def SizeIn (Z0 : Nat) (σ : Subst) : Prop := ∀ v u, lookup σ v = some u → u.size ≤ Z0

def SzFn (Z0 : Nat) (u : Tm → Tm → Subst → Res) : Prop :=
  ∀ x y σ σ', u x y σ = .ok σ' → x.size ≤ Z0 → y.size ≤ Z0 → SizeIn Z0 σ → SizeIn Z0 σ'

theorem loop_sz {Z0 : Nat} {u : Tm → Tm → Subst → Res} (hu : SzFn Z0 u) :
    ∀ (as bs : List Tm) (σ σ' : Subst), unifyArgsLoop u as bs σ = .ok σ' →
      (∀ a ∈ as, a.size ≤ Z0) → (∀ b ∈ bs, b.size ≤ Z0) → SizeIn Z0 σ → SizeIn Z0 σ' := by
  intro as
  induction as with
  | nil =>
    intro bs σ σ' h _ _ hs
    cases bs with
    | nil => simp only [unifyArgsLoop, Res.ok.injEq] at h; subst h; exact hs
    | cons b bs => simp [unifyArgsLoop] at h
  | cons a as ih =>
    intro bs σ σ' h ha hb hs
    cases bs with
    | nil => simp [unifyArgsLoop] at h
    | cons b bs =>
      cases a <;> cases b <;> simp only [unifyArgsLoop] at h <;> try (exact absurd h (by simp))
      all_goals
        rename_i x y
        cases hres : u x y σ with
        | oof => simp [hres] at h
        | fail => simp [hres] at h
        | ok σ₁ =>
          simp only [hres] at h
          have hx := ha _ (List.mem_cons_self ..)
          have hy := hb _ (List.mem_cons_self ..)
          simp only [Tm.size] at hx hy
          exact ih bs σ₁ σ' h (fun a h' => ha a (by simp [h'])) (fun b h' => hb b (by simp [h']))
            (hu x y σ σ₁ hres (by omega) (by omega) hs)

theorem var_sz {Z0 : Nat} {u : Tm → Tm → Subst → Res} {o : Subst → V → Tm → Option Bool} (hu : SzFn Z0 u)
    {v : V} {t : Tm} {σ σ' : Subst} (h : unifyVarWith u o v t σ = .ok σ') (ht : t.size ≤ Z0) (hZ : 1 ≤ Z0)
    (hs : SizeIn Z0 σ) : SizeIn Z0 σ' := by
  have bindCase :
      (match o σ v t with
        | none => Res.oof
        | some true => Res.fail
        | some false => Res.ok ((v, t) :: σ)) = .ok σ' → SizeIn Z0 σ' := by
    intro hb
    cases ho : o σ v t with
    | none => simp [ho] at hb
    | some b =>
      cases b with
      | true => simp [ho] at hb
      | false =>
        simp only [ho, Res.ok.injEq] at hb
        subst hb
        intro x w hx
        rw [lookup_cons] at hx
        by_cases e : v = x
        · simp only [e, if_true, Option.some.injEq] at hx; subst hx; exact ht
        · simp only [e, if_false] at hx; exact hs x w hx
  unfold unifyVarWith at h
  cases hl : lookup σ v with
  | some sv => simp only [hl] at h; exact hu _ _ _ _ h (hs v sv hl) ht hs
  | none =>
    simp only [hl] at h
    cases t with
    | var w =>
      simp only at h
      cases hw : lookup σ w with
      | some tw => simp only [hw] at h; exact hu _ _ _ _ h (by simp [Tm.size]; exact hZ) (hs w tw hw) hs
      | none => simp only [hw] at h; exact bindCase h
    | atom a => exact bindCase h
    | node hd as => exact bindCase h
    | targ x => exact bindCase h
    | carg x => exact bindCase h

theorem unify_sz (E : Env) (Z0 : Nat) (hZ : 1 ≤ Z0) : ∀ n, SzFn Z0 (unify E n) := by
  intro n
  induction n with
  | zero => intro x y σ σ' h; simp [unify] at h
  | succ n ih =>
    intro s t σ σ' h hs ht hsz
    rw [unify_succ] at h
    cases hsh : shape E s t with
    | same => simp only [hsh, runShape, Res.ok.injEq] at h; subst h; exact hsz
    | fail => simp [hsh, runShape] at h
    | viaVar v t' =>
      simp only [hsh, runShape] at h
      obtain ⟨_, hc⟩ := shape_viaVar hsh
      have : t'.size ≤ Z0 := by
        cases hc with
        | inl e => obtain ⟨rfl, rfl⟩ := e; exact ht
        | inr e => obtain ⟨rfl, rfl⟩ := e; exact hs
      exact var_sz ih h this hZ hsz
    | viaArgs as bs =>
      simp only [hsh, runShape] at h
      obtain ⟨h₁, h₂, rfl, rfl, _⟩ := shape_viaArgs hsh
      unfold unifyArgsWith at h
      split at h
      · cases h
      · simp only [Tm.size] at hs ht
        exact loop_sz ih as bs σ σ' h
          (fun a ha => by have := size_le_sizeList ha; omega)
          (fun b hb => by have := size_le_sizeList hb; omega) hsz

/-! ### keys stay inside a fixed list; ranks compressed relative to it -/

def KeysIn (KK : List V) (σ : Subst) : Prop := ∀ v, lookup σ v ≠ none → v ∈ KK

def krank (KK : List V) (r : V → Nat) (v : V) : Nat := (KK.filter (fun w => decide (r w < r v))).length

theorem krank_lt_length {KK : List V} {r : V → Nat} {v : V} (hv : v ∈ KK) : krank KK r v < KK.length := by
  have := filter_length_lt (fun w => decide (r w < r v)) (fun _ => true) KK (fun _ _ _ => rfl) ⟨v, hv, rfl, by simp⟩
  have e : (KK.filter (fun _ => true)).length = KK.length := by rw [List.filter_eq_self.mpr (fun _ _ => rfl)]
  unfold krank; omega

theorem krank_lt {KK : List V} {r : V → Nat} {y v : V} (hy : y ∈ KK) (h : r y < r v) : krank KK r y < krank KK r v := by
  apply filter_length_lt
  · intro x _ hx; simp only [decide_eq_true_eq] at hx ⊢; omega
  · exact ⟨y, hy, by simpa using h, by simp⟩

/-- one more than the largest compressed rank of a *bound* variable of `t` -/
def bmr (σ : Subst) (c : V → Nat) (t : Tm) : Nat :=
  maxL ((t.vars.filter (fun y => (lookup σ y).isSome)).map (fun y => c y + 1))

theorem le_bmr {σ : Subst} {c : V → Nat} {t : Tm} {y : V} (h : y ∈ t.vars) (hb : lookup σ y ≠ none) :
    c y + 1 ≤ bmr σ c t := by
  apply le_maxL
  refine List.mem_map.mpr ⟨y, List.mem_filter.mpr ⟨h, ?_⟩, rfl⟩
  cases hl : lookup σ y with
  | none => exact absurd hl hb
  | some _ => rfl

theorem bmr_le {σ : Subst} {c : V → Nat} {t : Tm} {k : Nat}
    (h : ∀ y ∈ t.vars, lookup σ y ≠ none → c y + 1 ≤ k) : bmr σ c t ≤ k := by
  apply maxL_le
  intro a ha
  obtain ⟨y, hy, rfl⟩ := List.mem_map.mp ha
  obtain ⟨hy1, hy2⟩ := List.mem_filter.mp hy
  exact h y hy1 (by intro e; rw [e] at hy2; cases hy2)

theorem bmr_mono {σ : Subst} {c : V → Nat} {a b : Tm} (h : ∀ y ∈ a.vars, y ∈ b.vars) : bmr σ c a ≤ bmr σ c b :=
  bmr_le (fun y hy hb => le_bmr (h y hy) hb)

theorem bmr_var_le {σ : Subst} {c : V → Nat} (v : V) : bmr σ c (.var v) ≤ c v + 1 :=
  bmr_le (fun y hy _ => by simp [Tm.vars] at hy; subst hy; exact Nat.le_refl _)

/-- occurs check: fuel `bmr + 1` suffices -/
theorem occurs_term' {σ : Subst} {c : V → Nat}
    (hc : ∀ v u, lookup σ v = some u → ∀ y ∈ u.vars, lookup σ y ≠ none → c y < c v)
    (v : V) : ∀ (m : Nat) (t : Tm), bmr σ c t ≤ m → occurs (m + 1) σ v t ≠ none := by
  intro m
  induction m with
  | zero =>
    intro t ht
    simp only [occurs]
    apply firstM_ne_none
    intro y hy
    by_cases e : y = v
    · simp [e]
    · simp only [e, if_false]
      cases hl : lookup σ y with
      | none => simp
      | some u => have := le_bmr (c := c) hy (by rw [hl]; simp); omega
  | succ m ih =>
    intro t ht
    simp only [occurs]
    apply firstM_ne_none
    intro y hy
    by_cases e : y = v
    · simp [e]
    · simp only [e, if_false]
      cases hl : lookup σ y with
      | none => simp
      | some u =>
        simp only []
        apply ih u
        have h1 := le_bmr (c := c) hy (by rw [hl]; simp)
        have h2 : bmr σ c u ≤ c y := bmr_le (fun z hz hzb => hc y u hl z hz hzb)
        omega

/-! ### the invariant bundle and its preservation -/

structure InvS (U KK : List V) (Z0 : Nat) (σ : Subst) : Prop where
  acyc : Acyclic σ
  rng : RngIn U σ
  sz : SizeIn Z0 σ
  keys : KeysIn KK σ

def InB (U : List V) (Z0 : Nat) (t : Tm) : Prop := VarsIn U t ∧ t.size ≤ Z0

theorem inv_step (E : Env) {U KK : List V} {Z0 : Nat} (hZ : 1 ≤ Z0) (hUK : ∀ v ∈ U, v ∈ KK)
    {n : Nat} {x y : Tm} {σ σ₁ : Subst} (hinv : InvS U KK Z0 σ) (hx : InB U Z0 x) (hy : InB U Z0 y)
    (h : unify E n x y σ = .ok σ₁) :
    InvS U KK Z0 σ₁ ∧ Extends σ σ₁ ∧ (σ₁ = σ ∨ cnt U σ₁ < cnt U σ) := by
  have g := unify_good E n x y σ σ₁ h
  obtain ⟨p, _⟩ := unify_prog E U n x y σ σ₁ h hx.1 hy.1 hinv.rng
  refine ⟨⟨g.acyc hinv.acyc, p.rng, unify_sz E Z0 hZ n x y σ σ₁ h hx.2 hy.2 hinv.sz, ?_⟩, g.ext, ?_⟩
  · intro v hv
    cases p.keys v hv with
    | inl h' => exact hinv.keys v h'
    | inr h' => exact hUK v h'
  · cases p.grew with
    | inl e => exact Or.inl e
    | inr hw => obtain ⟨v, hv, h1, h2⟩ := hw; exact Or.inr (cnt_lt g.ext hv h1 h2)

/-! ### loops with one fixed fuel -/

theorem loop_less (E : Env) {U KK : List V} {Z0 : Nat} (hZ : 1 ≤ Z0) (hUK : ∀ v ∈ U, v ∈ KK) (n c : Nat)
    (hless : ∀ σ₁, InvS U KK Z0 σ₁ → cnt U σ₁ < c → ∀ x y, InB U Z0 x → InB U Z0 y → unify E n x y σ₁ ≠ .oof) :
    ∀ (as bs : List Tm) (σ₁ : Subst), InvS U KK Z0 σ₁ → cnt U σ₁ < c →
      (∀ a ∈ as, InB U Z0 a) → (∀ b ∈ bs, InB U Z0 b) → unifyArgsLoop (unify E n) as bs σ₁ ≠ .oof := by
  intro as
  induction as with
  | nil => intro bs σ₁ _ _ _ _; cases bs <;> simp [unifyArgsLoop]
  | cons a as ih =>
    intro bs σ₁ hinv hc ha hb
    cases bs with
    | nil => simp [unifyArgsLoop]
    | cons b bs =>
      have key : ∀ x y, InB U Z0 x → InB U Z0 y →
          (unifyArgsLoop (unify E n) (a :: as) (b :: bs) σ₁ =
            match unify E n x y σ₁ with
            | .ok σ' => unifyArgsLoop (unify E n) as bs σ'
            | r => r) → unifyArgsLoop (unify E n) (a :: as) (b :: bs) σ₁ ≠ .oof := by
        intro x y hx hy heq
        rw [heq]
        cases hres : unify E n x y σ₁ with
        | oof => exact absurd hres (hless σ₁ hinv hc x y hx hy)
        | fail => simp
        | ok σ₂ =>
          obtain ⟨hinv₂, hext, _⟩ := inv_step E hZ hUK hinv hx hy hres
          have : cnt U σ₂ ≤ cnt U σ₁ := cnt_le hext
          exact ih bs σ₂ hinv₂ (by omega) (fun a h' => ha a (by simp [h'])) (fun b h' => hb b (by simp [h']))
      have hpay : ∀ (c' : Tm) (z : Tm), InB U Z0 c' → (c' = .targ z ∨ c' = .carg z) → InB U Z0 z := by
        intro c' z hc' hz
        cases hz with
        | inl e => subst e; exact ⟨fun w hw => hc'.1 w (by simpa [Tm.vars] using hw), by have := hc'.2; simp only [Tm.size] at this; omega⟩
        | inr e => subst e; exact ⟨fun w hw => hc'.1 w (by simpa [Tm.vars] using hw), by have := hc'.2; simp only [Tm.size] at this; omega⟩
      cases a <;> cases b <;> (try (simp [unifyArgsLoop]; done))
      · rename_i x y
        exact key x y (hpay _ x (ha _ (List.mem_cons_self ..)) (Or.inl rfl)) (hpay _ y (hb _ (List.mem_cons_self ..)) (Or.inl rfl))
          (by simp only [unifyArgsLoop]; rfl)
      · rename_i x y
        exact key x y (hpay _ x (ha _ (List.mem_cons_self ..)) (Or.inr rfl)) (hpay _ y (hb _ (List.mem_cons_self ..)) (Or.inr rfl))
          (by simp only [unifyArgsLoop]; rfl)

theorem loop_same (E : Env) {U KK : List V} {Z0 : Nat} (hZ : 1 ≤ Z0) (hUK : ∀ v ∈ U, v ∈ KK) (n : Nat)
    (σ : Subst) (hinv : InvS U KK Z0 σ)
    (hless : ∀ σ₁, InvS U KK Z0 σ₁ → cnt U σ₁ < cnt U σ → ∀ x y, InB U Z0 x → InB U Z0 y → unify E n x y σ₁ ≠ .oof) :
    ∀ (as bs : List Tm), (∀ a ∈ as, InB U Z0 a) → (∀ b ∈ bs, InB U Z0 b) →
      (∀ a ∈ as, ∀ b ∈ bs, ∀ x y, (a = .targ x ∧ b = .targ y) ∨ (a = .carg x ∧ b = .carg y) → unify E n x y σ ≠ .oof) →
      unifyArgsLoop (unify E n) as bs σ ≠ .oof := by
  intro as
  induction as with
  | nil => intro bs _ _ _; cases bs <;> simp [unifyArgsLoop]
  | cons a as ih =>
    intro bs ha hb P1
    cases bs with
    | nil => simp [unifyArgsLoop]
    | cons b bs =>
      have hpay : ∀ (c' : Tm) (z : Tm), InB U Z0 c' → (c' = .targ z ∨ c' = .carg z) → InB U Z0 z := by
        intro c' z hc' hz
        cases hz with
        | inl e => subst e; exact ⟨fun w hw => hc'.1 w (by simpa [Tm.vars] using hw), by have := hc'.2; simp only [Tm.size] at this; omega⟩
        | inr e => subst e; exact ⟨fun w hw => hc'.1 w (by simpa [Tm.vars] using hw), by have := hc'.2; simp only [Tm.size] at this; omega⟩
      have key : ∀ x y, InB U Z0 x → InB U Z0 y → unify E n x y σ ≠ .oof →
          (unifyArgsLoop (unify E n) (a :: as) (b :: bs) σ =
            match unify E n x y σ with
            | .ok σ' => unifyArgsLoop (unify E n) as bs σ'
            | r => r) → unifyArgsLoop (unify E n) (a :: as) (b :: bs) σ ≠ .oof := by
        intro x y hx hy hne heq
        rw [heq]
        cases hres : unify E n x y σ with
        | oof => exact absurd hres hne
        | fail => simp
        | ok σ₂ =>
          obtain ⟨hinv₂, _, hgrew⟩ := inv_step E hZ hUK hinv hx hy hres
          cases hgrew with
          | inl e =>
            subst e
            exact ih bs (fun a h' => ha a (by simp [h'])) (fun b h' => hb b (by simp [h']))
              (fun a' ha' b' hb' => P1 a' (by simp [ha']) b' (by simp [hb']))
          | inr hlt =>
            exact loop_less E hZ hUK n (cnt U σ) hless as bs σ₂ hinv₂ hlt
              (fun a h' => ha a (by simp [h'])) (fun b h' => hb b (by simp [h']))
      cases a <;> cases b <;> (try (simp [unifyArgsLoop]; done))
      · rename_i x y
        exact key x y (hpay _ x (ha _ (List.mem_cons_self ..)) (Or.inl rfl)) (hpay _ y (hb _ (List.mem_cons_self ..)) (Or.inl rfl))
          (P1 _ (List.mem_cons_self ..) _ (List.mem_cons_self ..) x y (Or.inl ⟨rfl, rfl⟩)) (by simp only [unifyArgsLoop]; rfl)
      · rename_i x y
        exact key x y (hpay _ x (ha _ (List.mem_cons_self ..)) (Or.inr rfl)) (hpay _ y (hb _ (List.mem_cons_self ..)) (Or.inr rfl))
          (P1 _ (List.mem_cons_self ..) _ (List.mem_cons_self ..) x y (Or.inr ⟨rfl, rfl⟩)) (by simp only [unifyArgsLoop]; rfl)

theorem var_termN (E : Env) {n : Nat} {σ : Subst} {v : V} {t : Tm}
    (h1 : ∀ sv, lookup σ v = some sv → unify E n sv t σ ≠ .oof)
    (h2 : ∀ w tw, t = .var w → lookup σ w = some tw → unify E n (.var v) tw σ ≠ .oof)
    (h3 : occurs n σ v t ≠ none) :
    unifyVarWith (unify E n) (occurs n) v t σ ≠ .oof := by
  have bindCase : (match occurs n σ v t with
        | none => Res.oof
        | some true => Res.fail
        | some false => Res.ok ((v, t) :: σ)) ≠ .oof := by
    cases ho : occurs n σ v t with
    | none => exact absurd ho h3
    | some b => cases b <;> simp
  unfold unifyVarWith
  cases hl : lookup σ v with
  | some sv => simp only []; exact h1 sv hl
  | none =>
    simp only []
    cases t with
    | var w =>
      simp only
      cases hw : lookup σ w with
      | some tw => simp only []; exact h2 w tw rfl hw
      | none => simp only []; exact bindCase
    | atom a => exact bindCase
    | node hd as => exact bindCase
    | targ x => exact bindCase
    | carg x => exact bindCase

/-! ### the explicit induction -/

/-- one level: everything at strictly fewer unbound positions is assumed to terminate with the fuel left -/
theorem term_level_aux (E : Env) {U KK : List V} {Z0 : Nat} (hZ : 1 ≤ Z0) (hUK : ∀ v ∈ U, v ∈ KK)
    (A B K2 O : Nat) (hA : 2 * Z0 + 2 ≤ A) (hK : 2 * KK.length + 2 ≤ K2) (hB : K2 * A + A ≤ B)
    (hO : KK.length + 2 ≤ O) (c : Nat) (σ : Subst) (hinv : InvS U KK Z0 σ) (hc : cnt U σ ≤ c)
    (hlessN : ∀ n', c * (B + 1) + O ≤ n' + 1 → ∀ σ₁, InvS U KK Z0 σ₁ → cnt U σ₁ < cnt U σ →
      ∀ x y, InB U Z0 x → InB U Z0 y → unify E n' x y σ₁ ≠ .oof) :
    ∀ s t, InB U Z0 s → InB U Z0 t → ∀ n, c * (B + 1) + O + K2 * A + A ≤ n → unify E n s t σ ≠ .oof := by
  obtain ⟨r, hr⟩ := hinv.acyc
  have hcr : ∀ v u, lookup σ v = some u → ∀ y ∈ u.vars, lookup σ y ≠ none → krank KK r y < krank KK r v :=
    fun v u hl y hy hb => krank_lt (hinv.keys y hb) (hr v u hl y hy)
  have hbL : ∀ t : Tm, bmr σ (krank KK r) t ≤ KK.length :=
    fun t => bmr_le (fun y _ hb => by have := krank_lt_length (r := r) (hinv.keys y hb); omega)
  have inner : ∀ M Z s t, InB U Z0 s → InB U Z0 t →
      bmr σ (krank KK r) s + bmr σ (krank KK r) t < M → s.size + t.size < Z →
      ∀ n, c * (B + 1) + O + M * A + Z ≤ n → unify E n s t σ ≠ .oof := by
    intro M
    induction M with
    | zero => intro Z s t _ _ h; omega
    | succ M ihM =>
      intro Z
      induction Z with
      | zero => intro s t _ _ _ h; omega
      | succ Z ihZ =>
        intro s t hs ht hM hZs n hn
        rw [Nat.succ_mul] at hn
        obtain ⟨n', rfl⟩ : ∃ n', n = n' + 1 := ⟨n - 1, by omega⟩
        rw [unify_succ]
        cases hsh : shape E s t with
        | same => simp [runShape]
        | fail => simp [runShape]
        | viaVar v t' =>
          simp only [runShape]
          obtain ⟨_, hcs⟩ := shape_viaVar hsh
          have hv : v ∈ U ∧ InB U Z0 t' ∧
              bmr σ (krank KK r) (.var v) + bmr σ (krank KK r) t' < M + 1 := by
            cases hcs with
            | inl e => obtain ⟨rfl, rfl⟩ := e; exact ⟨hs.1 v (by simp [Tm.vars]), ht, hM⟩
            | inr e => obtain ⟨rfl, rfl⟩ := e; exact ⟨ht.1 v (by simp [Tm.vars]), hs, by omega⟩
          obtain ⟨hvU, ht', hm⟩ := hv
          have hvv : InB U Z0 (.var v) :=
            ⟨fun y hy => by simp [Tm.vars] at hy; subst hy; exact hvU, by simp [Tm.size]; exact hZ⟩
          apply var_termN E
          · intro sv hl
            have h1 : bmr σ (krank KK r) sv ≤ krank KK r v := bmr_le (fun z hz hzb => hcr v sv hl z hz hzb)
            have h2 : krank KK r v + 1 ≤ bmr σ (krank KK r) (.var v) :=
              le_bmr (by simp [Tm.vars]) (by rw [hl]; simp)
            have hsv : InB U Z0 sv := ⟨hinv.rng v sv hl, hinv.sz v sv hl⟩
            have := hsv.2; have := ht'.2
            exact ihM A sv t' hsv ht' (by omega) (by omega) n' (by omega)
          · intro w tw e hw
            subst e
            have h1 : bmr σ (krank KK r) tw ≤ krank KK r w := bmr_le (fun z hz hzb => hcr w tw hw z hz hzb)
            have h2 : krank KK r w + 1 ≤ bmr σ (krank KK r) (.var w) :=
              le_bmr (by simp [Tm.vars]) (by rw [hw]; simp)
            have htw : InB U Z0 tw := ⟨hinv.rng w tw hw, hinv.sz w tw hw⟩
            have := htw.2; have := hvv.2
            exact ihM A (.var v) tw hvv htw (by omega) (by omega) n' (by omega)
          · have h0 := occurs_term' hcr v (bmr σ (krank KK r) t') t' (Nat.le_refl _)
            have hle : bmr σ (krank KK r) t' + 1 ≤ n' := by have := hbL t'; omega
            rw [occurs_mono hle σ v t' h0]; exact h0
        | viaArgs as bs =>
          simp only [runShape]
          obtain ⟨h₁, h₂, rfl, rfl, _⟩ := shape_viaArgs hsh
          unfold unifyArgsWith
          by_cases hlen : as.length ≠ bs.length
          · simp [hlen]
          · simp only [hlen, if_false]
            have hsub : ∀ (c' : Tm) (l : List Tm) (hd : Head) (z : Tm), c' ∈ l → (c' = .targ z ∨ c' = .carg z) →
                (∀ w ∈ z.vars, w ∈ (Tm.node hd l).vars) ∧ z.size + 2 ≤ (Tm.node hd l).size := by
              intro c' l hd z hc' hz
              have hsz := size_le_sizeList hc'
              constructor
              · intro w hw
                simp only [Tm.vars]
                refine mem_varsList.mpr ⟨c', hc', ?_⟩
                cases hz with
                | inl e => subst e; simpa [Tm.vars] using hw
                | inr e => subst e; simpa [Tm.vars] using hw
              · simp only [Tm.size]
                cases hz with
                | inl e => subst e; simp only [Tm.size] at hsz; omega
                | inr e => subst e; simp only [Tm.size] at hsz; omega
            have hel : ∀ (l : List Tm) (hd : Head), InB U Z0 (.node hd l) → ∀ a ∈ l, InB U Z0 a := by
              intro l hd h a ha
              refine ⟨h.1.arg a ha, ?_⟩
              have := size_le_sizeList ha
              have := h.2
              simp only [Tm.size] at this
              omega
            apply loop_same E hZ hUK n' σ hinv (hlessN n' (by omega)) as bs (hel as h₁ hs) (hel bs h₂ ht)
            intro a ha' b hb' x y hxy
            have hx := hsub a as h₁ x ha' (by cases hxy with | inl e => exact Or.inl e.1 | inr e => exact Or.inr e.1)
            have hy := hsub b bs h₂ y hb' (by cases hxy with | inl e => exact Or.inl e.2 | inr e => exact Or.inr e.2)
            have m1 := bmr_mono (σ := σ) (c := krank KK r) hx.1
            have m2 := bmr_mono (σ := σ) (c := krank KK r) hy.1
            have := hs.2; have := ht.2
            exact ihZ x y ⟨fun w hw => hs.1 w (hx.1 w hw), by omega⟩ ⟨fun w hw => ht.1 w (hy.1 w hw), by omega⟩
              (by omega) (by omega) n' (by rw [Nat.succ_mul]; omega)
  intro s t hs ht n hn
  have h1 := hbL s
  have h2 := hbL t
  have := hs.2; have := ht.2
  exact inner K2 A s t hs ht (by omega) (by omega) n (by omega)


theorem term_level (E : Env) {U KK : List V} {Z0 : Nat} (hZ : 1 ≤ Z0) (hUK : ∀ v ∈ U, v ∈ KK)
    (A B K2 O : Nat) (hA : 2 * Z0 + 2 ≤ A) (hK : 2 * KK.length + 2 ≤ K2) (hB : K2 * A + A ≤ B)
    (hO : KK.length + 2 ≤ O) :
    ∀ c σ, InvS U KK Z0 σ → cnt U σ ≤ c → ∀ s t, InB U Z0 s → InB U Z0 t →
      ∀ n, c * (B + 1) + O + K2 * A + A ≤ n → unify E n s t σ ≠ .oof := by
  intro c
  induction c with
  | zero =>
    intro σ hinv hc s t hs ht n hn
    exact term_level_aux E hZ hUK A B K2 O hA hK hB hO 0 σ hinv hc
      (fun n' _ σ₁ _ h1 => by omega) s t hs ht n hn
  | succ c ih =>
    intro σ hinv hc s t hs ht n hn
    refine term_level_aux E hZ hUK A B K2 O hA hK hB hO (c + 1) σ hinv hc ?_ s t hs ht n hn
    intro n' hn' σ₁ hinv₁ hlt x y hx hy
    apply ih σ₁ hinv₁ (by omega) x y hx hy n'
    rw [Nat.succ_mul] at hn'
    omega

theorem size_pos (t : Tm) : 1 ≤ t.size := by cases t <;> simp [Tm.size] <;> omega

theorem image_size_le {σ : Subst} {v : V} {u : Tm} (h : lookup σ v = some u) :
    u.size ≤ (σ.map (fun p => p.2.size)).sum := by
  have hm := lookup_mem h
  have : ∀ (l : Subst), (v, u) ∈ l → u.size ≤ (l.map (fun p => p.2.size)).sum := by
    intro l
    induction l with
    | nil => intro h; cases h
    | cons p l ih =>
      intro h
      simp only [List.map_cons, List.sum_cons]
      cases h with
      | head => show u.size ≤ u.size + _; omega
      | tail _ h => have := ih h; omega
  exact this σ hm

/-- **explicit fuel**: `fuelBound s t σ` (and anything larger) suffices on an acyclic substitution -/
theorem unify_fuelBound (E : Env) (s t : Tm) (σ : Subst) (ha : Acyclic σ) (n : Nat) (hn : fuelBound s t σ ≤ n) :
    unify E n s t σ ≠ .oof := by
  let U : List V := s.vars ++ t.vars ++ σ.flatMap (fun p => p.2.vars)
  let KK : List V := σ.map Prod.fst ++ U
  let Z0 : Nat := s.size + t.size + (σ.map (fun p => p.2.size)).sum
  have hZ : 1 ≤ Z0 := by have := size_pos s; show 1 ≤ s.size + t.size + _; omega
  have hUK : ∀ v ∈ U, v ∈ KK := fun v hv => by simp only [KK, List.mem_append]; exact Or.inr (by simpa [U] using hv)
  have hinv : InvS U KK Z0 σ := by
    refine ⟨ha, ?_, ?_, ?_⟩
    · intro v u hl y hy
      simp only [U, List.mem_append, List.mem_flatMap]
      exact Or.inr ⟨(v, u), lookup_mem hl, hy⟩
    · intro v u hl
      have := image_size_le hl
      show u.size ≤ s.size + t.size + _
      omega
    · intro v hv
      cases hl : lookup σ v with
      | none => exact absurd hl hv
      | some u => simp only [KK, List.mem_append]; exact Or.inl (lookup_mem_keys hl)
  have hcnt : cnt U σ ≤ U.length := by unfold cnt; exact List.length_filter_le _ _
  have hKK : KK.length = σ.length + U.length := by simp [KK]
  have hs : InB U Z0 s := ⟨fun y hy => by simp [U, hy], by show s.size ≤ s.size + t.size + _; omega⟩
  have ht : InB U Z0 t := ⟨fun y hy => by simp [U, hy], by show t.size ≤ s.size + t.size + _; omega⟩
  apply term_level E hZ hUK (2 * Z0 + 2) ((2 * KK.length + 2) * (2 * Z0 + 2) + (2 * Z0 + 2)) (2 * KK.length + 2)
    (KK.length + 2) (Nat.le_refl _) (Nat.le_refl _) (Nat.le_refl _) (Nat.le_refl _) U.length σ hinv hcnt s t hs ht n
  rw [hKK]
  exact hn

end GuppyVerif.Unify
