import GuppyVerif.Model.CopyDrop
/-! Inversion lemmas for `toHugrE` on opaque types, one per `Shape`. -/
namespace GuppyVerif.CopyDrop
open GuppyVerif

variable {D : List OpaqueDef} {ρ : List EnvE} {n : String} {as : List Arg} {d : OpaqueDef} {h : HTy}

theorem unpackRow_some {h : HTy} {r : List HTy} (hu : unpackRow h = some r) : h = tupleOf r := by
  unfold unpackRow at hu
  split at hu
  · simp at hu; subst hu; rfl
  · simp at hu

/-- unless the type is a bound variable, its row is either the unpacked tuple or the singleton -/
theorem toRowE_cases {D : List OpaqueDef} {ρ : List EnvE} {t : Ty} {r : List HTy}
    (hnb : ∀ n i c d, t ≠ .bvar n i c d) (hr : toRowE D ρ t = some r) :
    ∃ h, toHugrE D ρ t = some h ∧ (h = tupleOf r ∨ r = [h]) := by
  unfold toRowE rowOf at hr
  cases hh : toHugrE D ρ t with
  | none =>
    rw [hh] at hr
    split at hr
    · simp at hr
    · simp at hr
    · rename_i n i c d; exact absurd rfl (hnb n i c d)
    · simp at hr
  | some h =>
    rw [hh] at hr
    refine ⟨h, rfl, ?_⟩
    split at hr
    · left; exact unpackRow_some (by simpa using hr)
    · left; exact unpackRow_some (by simpa using hr)
    · rename_i n i c d; exact absurd rfl (hnb n i c d)
    · right; simp at hr; exact hr.symm

theorem inv_lookup (hh : toHugrE D ρ (.opaque n as) = some h) : ∃ d, lookup D n = some d := by
  cases hl : lookup D n with
  | none => simp [toHugrE, hl] at hh
  | some d => exact ⟨d, rfl⟩

theorem inv_static {h0 : HTy} (hl : lookup D n = some d) (hs : d.shape = .static h0)
    (hh : toHugrE D ρ (.opaque n as) = some h) : as = [] ∧ h = h0 := by
  simp only [toHugrE, hl, hs] at hh
  split at hh <;> simp_all

theorem inv_listOpt {e : String} {r : ExtRule} (hl : lookup D n = some d) (hs : d.shape = .listOpt e r)
    (hh : toHugrE D ρ (.opaque n as) = some h) :
    ∃ t ht, ∃ lin : Bool, as = [.ty t] ∧ toHugrE D ρ t = some ht ∧
      h = .ext e r [.ty (if lin then optionOf ht else ht)] := by
  simp only [toHugrE, hl, hs] at hh
  split at hh <;> try (simp_all; done)
  rename_i heq; cases heq
  simp only [Option.bind_eq_bind, Option.bind_eq_some_iff, Option.some.injEq] at hh
  obtain ⟨x, hx, rfl⟩ := hh
  exact ⟨_, x, _, rfl, hx, rfl⟩

theorem inv_array {e : String} {r : ExtRule} (hl : lookup D n = some d) (hs : d.shape = .array e r)
    (hh : toHugrE D ρ (.opaque n as) = some h) :
    ∃ t c ht a, as = [.ty t, .const c] ∧ toHugrE D ρ t = some ht ∧ h = .ext e r [a, .ty ht] := by
  simp only [toHugrE, hl, hs] at hh
  split at hh <;> try (simp_all; done)
  rename_i heq; cases heq
  simp [Option.bind_eq_some_iff] at hh
  obtain ⟨x, hx, a, _, rfl⟩ := hh
  exact ⟨_, _, x, a, rfl, hx, rfl⟩

theorem inv_staticArray {e : String} {r : ExtRule} (hl : lookup D n = some d)
    (hs : d.shape = .staticArray e r) (hh : toHugrE D ρ (.opaque n as) = some h) :
    ∃ t c ht, as = [.ty t, .const c] ∧ toHugrE D ρ t = some ht ∧ typeBound ht = .copyable ∧
      h = .ext e r [.ty ht] := by
  simp only [toHugrE, hl, hs] at hh
  split at hh <;> try (simp_all; done)
  rename_i heq; cases heq
  simp [Option.bind_eq_some_iff] at hh
  obtain ⟨x, hx, hb, rfl⟩ := hh
  exact ⟨_, _, x, rfl, hx, hb, rfl⟩

theorem inv_underlying (hl : lookup D n = some d) (hs : d.shape = .underlying)
    (hh : toHugrE D ρ (.opaque n as) = some h) :
    ∃ t c, as = [.ty t, .const c] ∧ toHugrE D ρ t = some h := by
  simp only [toHugrE, hl, hs] at hh
  split at hh <;> simp_all

theorem inv_option (hl : lookup D n = some d) (hs : d.shape = .option)
    (hh : toHugrE D ρ (.opaque n as) = some h) :
    ∃ t ht, as = [.ty t] ∧ toHugrE D ρ t = some ht ∧ h = optionOf ht := by
  simp only [toHugrE, hl, hs] at hh
  split at hh <;> try (simp_all; done)
  simp [Option.bind_eq_some_iff] at hh
  obtain ⟨x, hx, rfl⟩ := hh
  exact ⟨_, x, rfl, hx, rfl⟩

theorem inv_either (hl : lookup D n = some d) (hs : d.shape = .either)
    (hh : toHugrE D ρ (.opaque n as) = some h) :
    ∃ l r ls rs, as = [.ty l, .ty r] ∧ toRowE D ρ l = some ls ∧ toRowE D ρ r = some rs ∧
      h = .sum [.mk ls, .mk rs] := by
  simp only [toHugrE, hl, hs] at hh
  split at hh <;> try (simp_all; done)
  rename_i l r _
  simp [Option.bind_eq_some_iff] at hh
  obtain ⟨ls, h1, rs, h2, rfl⟩ := hh
  exact ⟨l, r, ls, rs, rfl, h1, h2, rfl⟩

theorem inv_ext1 {e : String} {r : ExtRule} (hl : lookup D n = some d) (hs : d.shape = .ext1 e r)
    (hh : toHugrE D ρ (.opaque n as) = some h) :
    ∃ t ht, as = [.ty t] ∧ toHugrE D ρ t = some ht ∧ h = .ext e r [.ty ht] := by
  simp only [toHugrE, hl, hs] at hh
  split at hh <;> try (simp_all; done)
  rename_i heq; cases heq
  simp [Option.bind_eq_some_iff] at hh
  obtain ⟨x, hx, rfl⟩ := hh
  exact ⟨_, x, rfl, hx, rfl⟩

theorem inv_unknown (hl : lookup D n = some d) (hs : d.shape = .unknown)
    (hh : toHugrE D ρ (.opaque n as) = some h) : False := by
  simp only [toHugrE, hl, hs] at hh
  simp_all

theorem lookup_mem {D : List OpaqueDef} {n : String} {d : OpaqueDef} (hl : lookup D n = some d) : d ∈ D := by
  unfold lookup at hl
  exact List.mem_of_find?_eq_some hl

end GuppyVerif.CopyDrop
