import GuppyVerif.Lemmas.C07Plumbing
/-! Wire level of the assignment variant `π = v` (`StmtCompiler._assign_place`, `emitAssignW`). -/
namespace GuppyVerif.Places

theorem dset_leaf (ty : Ty) (hleaf : ∀ ts, ty ≠ .tup ts) (p : PlaceId) (w : Nat) (s : CS) :
    dset ty p w s = s.set p w := by
  cases ty with
  | tup ts => exact absurd rfl (hleaf ts)
  | q => simp [dset]
  | c => simp [dset]
  | arr _ => simp [dset]

theorem Unpacked_leaf (cs : CS) (env : List W) (ty : Ty) (hleaf : ∀ ts, ty ≠ .tup ts) (p : PlaceId)
    (v : V) : Unpacked cs env ty p v ↔ ∃ w, cs.find p = some w ∧ env[w]? = some (.val v) := by
  cases ty with
  | tup ts => exact absurd rfl (hleaf ts)
  | q => simp [Unpacked]
  | c => simp [Unpacked]
  | arr _ => simp [Unpacked]

/-- **wire level of `π = v`**: for a well-typed path that ends in at least one projection and whose
    target has a leaf type, on a conforming store and with a conforming new value, the SSA op list
    `emitAssignW` (cascade + binding of the place to the input wire + `drop` of the replaced value)
    computes the result of the place-level sequence from the inputs `x, i₁ … i_m, v`.  (The op list
    contains no `Call`; the interpreter's callee parameter is instantiated with the constant
    function used at the place level.) -/
theorem wire_sim_assign (t pty : Ty) (p : CPath) (X X' v : V)
    (hWT : WT t p.chunks p.tail pty) (hleaf : ∀ ts, pty ≠ .tup ts) (htl : p.tail ≠ [])
    (hX : Conf t X) (hv : Conf pty v) (h : callBorrowA (fun _ => v) p X = .ok X') :
    runW (fun _ => v) (emitAssignW t p)
      (.val X :: (p.chunks.map (fun c => W.int c.idx) ++ [.val v])) = .ok [.val X'] := by
  unfold callBorrowA at h
  cases hr : runA (fun _ => v) p (emitAbs p.chunks.length) (initSlots X) with
  | error e => simp [hr, bind, Except.bind] at h
  | ok s3 =>
    simp only [hr, bind, Except.bind, pure, Except.pure, Except.ok.injEq] at h
    subst h
    unfold emitAbs at hr
    obtain ⟨s2, h12, h3⟩ := runA_append_ok _ _ _ _ _ _ hr
    obtain ⟨s1, h1, h2⟩ := runA_append_ok _ _ _ _ _ _ h12
    obtain ⟨vold, cont, hgv, hpv, hs2⟩ := stepA_call_inv' _ _ _ _ (runA_single_ok _ _ _ _ _ h2)
    obtain ⟨simL, simS⟩ := simLS_gen (fun _ => v) t p pty
      (.val X :: (p.chunks.map (fun c => W.int c.idx) ++ [.val v])) hWT p.chunks.length (Nat.le_refl _)
    have Sinit : Sem (fun _ => v) (.val X :: (p.chunks.map (fun c => W.int c.idx) ++ [.val v]))
        ({ next := p.chunks.length + 2 } : CS)
        (.val X :: (p.chunks.map (fun c => W.int c.idx) ++ [.val v])) := ⟨rfl, by simp⟩
    obtain ⟨d0, S0, U0, b0, _⟩ := dset_spec (fun _ => v) _ t [] 0 _ _ X Sinit (by simp)
      (Conf_shape _ _ hX)
    have I0 : IdxOK' p ((W.val X :: (p.chunks.map (fun c => W.int c.idx) ++ [.val v])) ++ d0) := by
      intro k c hk
      apply getElem?_append_some'
      obtain ⟨hlt, he⟩ := List.getElem?_eq_some_iff.mp hk
      simp [List.getElem?_append_left, hlt, he]
    have hvin : ((W.val X :: (p.chunks.map (fun c => W.int c.idx) ++ [.val v])) ++ d0)[p.chunks.length + 1]?
        = some (.val v) := by
      apply getElem?_append_some'
      simp [List.getElem?_append_right]
    have L0 : Live t p (dset t [] 0 ({ next := p.chunks.length + 2 } : CS))
        ((W.val X :: (p.chunks.map (fun c => W.int c.idx) ++ [.val v])) ++ d0) (initSlots X) 0 := by
      unfold Live
      rw [cTyAt_zero, cIdAt_zero]
      exact ⟨by simpa [initSlots] using U0, by simpa [initSlots] using hX⟩
    obtain ⟨d1, S1, b1, L01, Lm1⟩ := simL _ s1 _ _ h1 S0 (by rw [b0]) I0 L0
    have htail := WT_tail p.chunks t p.tail pty hWT
    obtain ⟨v', hv', hUp⟩ := Unpacked_focus _ _ p.tail _ pty _ _ htail Lm1.1
    have hvv : v' = vold := by
      have : getP p.tailSteps (s1 p.chunks.length) = some v' := hv'
      rw [hgv] at this; exact (Option.some.inj this).symm
    subst hvv
    obtain ⟨wold, hfold, heold⟩ := (Unpacked_leaf _ _ pty hleaf _ _).mp hUp
    -- bind the place to the input wire
    have hUnew : Unpacked
        (((loadStoreW (mkLevels t [] p.chunks 1) p.chunks.length).1
          (dset t [] 0 ({ next := p.chunks.length + 2 } : CS))).set
          (cIdAt [] 1 p.chunks p.chunks.length ++ p.tail.map .proj) (p.chunks.length + 1))
        ((W.val X :: (p.chunks.map (fun c => W.int c.idx) ++ [.val v])) ++ d0 ++ d1 ++ [])
        pty (cIdAt [] 1 p.chunks p.chunks.length ++ p.tail.map .proj) v :=
      (Unpacked_leaf _ _ pty hleaf _ _).mpr ⟨p.chunks.length + 1, by simp [CS.find_set],
        by simpa using getElem?_append_some' (m := d1) hvin⟩
    have hFset : ∀ q, ¬ (cIdAt [] 1 p.chunks p.chunks.length ++ p.tail.map PStep.proj) <+: q →
        (((loadStoreW (mkLevels t [] p.chunks 1) p.chunks.length).1
          (dset t [] 0 ({ next := p.chunks.length + 2 } : CS))).set
          (cIdAt [] 1 p.chunks p.chunks.length ++ p.tail.map .proj) (p.chunks.length + 1)).find q
        = ((loadStoreW (mkLevels t [] p.chunks 1) p.chunks.length).1
          (dset t [] 0 ({ next := p.chunks.length + 2 } : CS))).find q := by
      intro q hq
      rw [CS.find_set, if_neg]
      intro e; exact hq (e ▸ List.prefix_refl _)
    obtain ⟨v2, hv2, hU2⟩ := Unpacked_update _ _ _ [] p.tail _ pty _ _ v htail Lm1.1 hFset hUnew
    have hv2c : v2 = cont := by
      have : putP p.tailSteps v (s1 p.chunks.length) = some v2 := hv2
      rw [hpv] at this; exact (Option.some.inj this).symm
    subst hv2c
    have hs2m : s2 p.chunks.length = v2 := by rw [hs2, upd_same]
    have hC2 : Conf (cTyAt t p.chunks p.chunks.length) (s2 p.chunks.length) := by
      rw [hs2m]; exact Conf_update _ _ _ _ _ _ htail Lm1.2 hv hv2
    rw [← hs2m] at hU2
    have Lm2 := Live.intro' t p s2 p.chunks.length hU2 hC2
    have L02 := live0_after t p _ _ _ _ s1 s2 (p.tail.map .proj) L01 Lm2
      (fun hm0 => by rw [hs2, upd_other _ _ _ _ (Ne.symm hm0)]) hFset
    rw [List.append_nil] at Lm2 L02
    have S1' : Sem (fun _ => v) (.val X :: (p.chunks.map (fun c => W.int c.idx) ++ [.val v]))
        (((loadStoreW (mkLevels t [] p.chunks 1) p.chunks.length).1
          (dset t [] 0 ({ next := p.chunks.length + 2 } : CS))).set
          (cIdAt [] 1 p.chunks p.chunks.length ++ p.tail.map .proj) (p.chunks.length + 1))
        ((W.val X :: (p.chunks.map (fun c => W.int c.idx) ++ [.val v])) ++ d0 ++ d1) := S1
    obtain ⟨d5, S5, b5, L05⟩ := simS s2 s3 _ _ h3 S1' (by simpa [CS.set_bad] using b1)
      (IdxOK'_ext p I0) L02 Lm2
    have U5 := L05.1
    rw [cTyAt_zero, cIdAt_zero] at U5
    obtain ⟨d6, S6, hw6, b6, _⟩ := dget_spec (fun _ => v) _ t [] _ _ (s3 0) S5 U5
    -- the replaced value is dropped
    obtain ⟨S7, _⟩ := Sem_addOp (fun _ => v) _ _ _ .drop [wold] 0 [.val v'] [] S6
      (lookupW_of _ _ _ (by
        simp only [List.map_cons, List.map_nil]
        rw [getElem?_append_some' (getElem?_append_some' heold)])) rfl rfl
    have hne : p.tail.isEmpty = false := by
      cases hp : p.tail with
      | nil => exact absurd hp htl
      | cons _ _ => rfl
    unfold emitAssignW
    simp only [lastPlace_gen t p pty hWT, htail, Option.getD_some, hfold, dset_leaf pty hleaf]
    simp only [CS.addOp_bad, b6, b5, hne, Bool.or_self, Bool.false_eq_true, ↓reduceIte]
    unfold runW
    have hlen : (W.val X :: (List.map (fun c => W.int c.idx) p.chunks ++ [W.val v])).length
        = p.chunks.length + 2 := by simp
    simp only [hlen, ne_eq, not_true_eq_false, ↓reduceIte, S7.1, bind, Except.bind]
    exact lookupW_of _ _ _ (by
      simp only [List.map_cons, List.map_nil, List.append_nil]; rw [hw6])

/-- place level of `xs…[i_m] = v` for a copyable element: the sequence `load (m-1); set; store (m-1)`
    turns the store into `store[π := v]` -/
theorem assignSet_run (f : V → V) (π : CPath) (x old v : V) (hm : 0 < π.chunks.length)
    (htl : π.tail = []) (hget : getP π.steps x = some old) (hold : old.isHole = false) :
    ∃ x', putP π.steps v x = some x' ∧ assignSetA f π x v = .ok x' := by
  obtain ⟨j, hj⟩ : ∃ j, π.chunks.length = j + 1 := ⟨π.chunks.length - 1, by omega⟩
  have hjlt : j < π.chunks.length := by omega
  have hc : π.chunks[j]? = some π.chunks[j] := List.getElem?_eq_getElem hjlt
  have hsteps : π.steps = pathTo π.chunks j ++ π.chunks[j].steps := by
    unfold CPath.steps CPath.tailSteps
    rw [htl, ← pathTo_succ π.chunks j _ hc, ← hj]
    simp [pathTo]
  obtain ⟨hL, hS⟩ := loadStore_spec f π j (by omega)
  rw [hsteps, getP_append] at hget
  cases hEj : getP (pathTo π.chunks j) x with
  | none => simp [hEj] at hget
  | some Ej =>
    simp only [hEj, Option.bind_some] at hget
    have hEjn := not_hole_of_getP_chunk _ _ _ hget
    have hs00 : upd (initSlots x) π.chunks.length v 0 = x := by
      rw [upd_other _ _ _ _ (by omega)]; simp [initSlots]
    obtain ⟨s1, hrun1, hs1j, _, hroot1, hk1⟩ := hL (upd (initSlots x) π.chunks.length v) Ej
      (by rw [hs00]; exact hEj) (fun _ => hEjn)
    obtain ⟨Ej', hput⟩ := putP_isSome_of_getP _ v _ _ hget
    have hs1m : s1 (j + 1) = v := by
      rw [hk1 (j + 1) (by omega), hj, upd_same]
    have hstep : stepA f π s1 (.cset (j + 1)) = .ok (upd s1 j Ej') := by
      simp [stepA, hc, hs1j, hget, hold, hs1m, hput, pure, Except.pure]
    obtain ⟨s3, hrun3, hroot3, _⟩ := finish f π j hS (upd (initSlots x) π.chunks.length v) s1
      (upd s1 j Ej') Ej' hroot1 (upd_same _ _ _) (fun h => upd_other _ _ _ _ (by omega))
    rw [hs00] at hroot3
    refine ⟨s3 0, ?_, ?_⟩
    · rw [hsteps, putP_append _ _ _ _ _ hEj, hput]; exact hroot3
    · unfold assignSetA emitAssignSetAbs
      rw [hj] at hrun1
      rw [hj, Nat.add_sub_cancel, runA_append, runA_append, hrun1]
      simp only [bind, Except.bind, runA, hstep, hrun3, pure, Except.pure]

end GuppyVerif.Places
