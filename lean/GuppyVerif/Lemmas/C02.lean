import GuppyVerif.Model.Check02
/-! Helper lemmas for C02. -/
namespace GuppyVerif.C02

theorem zipStrict_eq_zip {α β : Type} : ∀ (xs : List α) (ys : List β), xs.length = ys.length →
    zipStrict xs ys = .ok (xs.zip ys)
  | [], [], _ => rfl
  | x :: xs, y :: ys, h => by
    have ih := zipStrict_eq_zip xs ys (by simpa using h)
    simp [zipStrict, ih]
  | [], _ :: _, h => by simp at h
  | _ :: _, [], h => by simp at h

theorem zipStrict_internal_of_ne {α β : Type} : ∀ (xs : List α) (ys : List β), xs.length ≠ ys.length →
    ∃ s, zipStrict xs ys = .error (.internal s)
  | [], [], h => by simp at h
  | x :: xs, y :: ys, h => by
    obtain ⟨s, hs⟩ := zipStrict_internal_of_ne xs ys (by simpa using h)
    exact ⟨s, by simp [zipStrict, hs]⟩
  | [], _ :: _, _ => ⟨_, rfl⟩
  | _ :: _, [], _ => ⟨_, rfl⟩

/-- the name is known to the context: a local, a generic parameter or a global -/
def Known (sc : Scope) (x : Nat) : Prop :=
  x ∈ sc.locals ∨ lookup x sc.generic ≠ none ∨ lookup x sc.globals ≠ none

theorem visitName_acceptable_iff (sc : Scope) (x : Nat) : Acceptable (visitName sc x) ↔ Known sc x := by
  unfold visitName Known
  by_cases hl : x ∈ sc.locals
  · simp [hl, Acceptable]
  · cases hg : lookup x sc.generic with
    | some b => cases b <;> simp [hl, Acceptable]
    | none =>
      cases hgl : lookup x sc.globals with
      | some k => cases k <;> simp [hl, Acceptable]
      | none => simp [hl, Acceptable]

theorem visitName_place_of_local {sc : Scope} {x : Nat} (h : x ∈ sc.locals) :
    visitName sc x = .ok (.place x) := by simp [visitName, h]

theorem entryCheck_ok {used assBefore asg : List Nat} {sc : Scope}
    (h : entryCheck used assBefore asg sc = .ok ()) :
    ∀ x ∈ used, assBefore.contains x = true ∨
      (lookup x sc.globals ≠ none ∨ lookup x sc.generic ≠ none) := by
  induction used with
  | nil => intro x hx; cases hx
  | cons y rest ih =>
    intro x hx
    simp only [entryCheck] at h
    split at h
    · cases h
    · rename_i hc
      rcases List.mem_cons.mp hx with rfl | hx'
      · by_cases ha : assBefore.contains x = true
        · exact Or.inl ha
        · right
          simp only [ha, Bool.not_false, Bool.true_and, Bool.or_eq_true, Bool.and_eq_true,
            not_or, not_and, Bool.not_eq_true] at hc
          by_cases hg : lookup x sc.globals = none
          · right
            have := hc.2 (by simp [hg])
            intro hn
            simp [hn] at this
          · exact Or.inl hg
      · exact ih h x hx'

theorem succCheck_ok {live asg maybe : List Nat} {sc : Scope}
    (h : succCheck live asg maybe sc = .ok ()) :
    ∀ x ∈ live, (asg.contains x = true → sc.locals.contains x = true) ∧
      (asg.contains x = false → (lookup x sc.globals ≠ none ∨ lookup x sc.generic ≠ none)) := by
  induction live with
  | nil => intro x hx; cases hx
  | cons y rest ih =>
    intro x hx
    simp only [succCheck] at h
    rcases List.mem_cons.mp hx with rfl | hx'
    · split at h
      · rename_i ha
        split at h
        · cases h
        · rename_i hl
          refine ⟨fun _ => by simpa using hl, fun hf => by rw [ha] at hf; cases hf⟩
      · rename_i ha
        split at h
        · cases h
        · rename_i hg
          refine ⟨fun ht => absurd ht ha, fun _ => ?_⟩
          simp only [Bool.and_eq_true, not_and, Bool.not_eq_true] at hg
          by_cases hgl : lookup x sc.globals = none
          · right
            have := hg (by simp [hgl])
            intro hn
            simp [hn] at this
          · exact Or.inl hgl
    · split at h
      · split at h
        · cases h
        · exact ih h x hx'
      · split at h
        · cases h
        · exact ih h x hx'

theorem rowLookup_isSome_iff (x : Nat) (r : Row) : (rowLookup x r).isSome = (r.map (·.1)).contains x := by
  induction r with
  | nil => rfl
  | cons p rest ih =>
    obtain ⟨y, t⟩ := p
    simp only [rowLookup, List.map_cons, List.contains_cons]
    by_cases h : y = x
    · simp [h]
    · have : (x == y) = false := by simp [Ne.symm h]
      simp [h, this, ih]

/-- the names of an output row: the live names that are locals -/
theorem outputRow_names (live : List Nat) (locals : Row) :
    (outputRow live locals).map (·.1) = live.filter (fun x => (locals.map (·.1)).contains x) := by
  induction live with
  | nil => rfl
  | cons x rest ih =>
    simp only [outputRow, List.filterMap_cons, List.filter_cons] at ih ⊢
    rw [← rowLookup_isSome_iff]
    cases h : rowLookup x locals with
    | none => simpa using ih
    | some t => simpa using ih

theorem rowLookup_outputRow_of_mem {live : List Nat} {locals : Row} {x : Nat}
    (h : x ∈ (outputRow live locals).map (·.1)) : ∃ t, rowLookup x (outputRow live locals) = some t := by
  have := rowLookup_isSome_iff x (outputRow live locals)
  have hc : ((outputRow live locals).map (·.1)).contains x = true := by simpa using h
  rw [hc] at this
  exact Option.isSome_iff_exists.mp this

theorem rowsMatchOn_acceptable (names : List Nat) (r1 r2 : Row)
    (h1 : ∀ x ∈ names, ∃ t, rowLookup x r1 = some t) (h2 : ∀ x ∈ names, ∃ t, rowLookup x r2 = some t) :
    Acceptable (rowsMatchOn names r1 r2) := by
  induction names with
  | nil => simp [rowsMatchOn, Acceptable]
  | cons x rest ih =>
    obtain ⟨t1, e1⟩ := h1 x (by simp)
    obtain ⟨t2, e2⟩ := h2 x (by simp)
    simp only [rowsMatchOn, e1, e2]
    split
    · exact ih (fun y hy => h1 y (by simp [hy])) (fun y hy => h2 y (by simp [hy]))
    · simp [Acceptable]

theorem known_mono {sc : Scope} {x y : Nat} (h : Known sc y) : Known { sc with locals := x :: sc.locals } y := by
  rcases h with h | h | h
  · exact Or.inl (List.mem_cons_of_mem _ h)
  · exact Or.inr (Or.inl h)
  · exact Or.inr (Or.inr h)

/-- the invariant behind `block_names_resolved`: with `asg` the names assigned so far in the block (all in
    `ctx.locals`), if every name of `usedFirst` is known then no read reaches the internal branch -/
theorem runBlock_acceptable : ∀ (evs : List Ev) (asg : List Nat) (sc : Scope),
    (∀ x ∈ usedFirst evs asg, Known sc x) → (∀ x ∈ asg, x ∈ sc.locals) → Acceptable (runBlock sc evs)
  | [], _, sc, _, _ => by simp [runBlock, Acceptable]
  | .use x :: r, asg, sc, hu, ha => by
    simp only [runBlock]
    by_cases hx : x ∈ asg
    · have hl : x ∈ sc.locals := ha x hx
      rw [visitName_place_of_local hl]
      exact runBlock_acceptable r asg sc (fun y hy => hu y (by simp [usedFirst, hx, hy])) ha
    · have hk : Known sc x := hu x (by simp [usedFirst, hx])
      have hacc := (visitName_acceptable_iff sc x).mpr hk
      cases hv : visitName sc x with
      | ok v => exact runBlock_acceptable r asg sc (fun y hy => hu y (by simp [usedFirst, hx, hy])) ha
      | error e =>
        rw [hv] at hacc
        cases e with
        | user u => simp [Acceptable]
        | internal st => exact absurd hacc (by simp [Acceptable])
  | .assign x :: r, asg, sc, hu, ha => by
    simp only [runBlock]
    apply runBlock_acceptable r (x :: asg) { sc with locals := x :: sc.locals }
    · intro y hy
      exact known_mono (hu y (by simpa [usedFirst] using hy))
    · intro y hy
      rcases List.mem_cons.mp hy with rfl | h
      · exact List.mem_cons_self
      · exact List.mem_cons_of_mem _ (ha y h)

theorem entryCheck_acceptable (used assBefore asg : List Nat) (sc : Scope) :
    Acceptable (entryCheck used assBefore asg sc) := by
  induction used with
  | nil => simp [entryCheck, Acceptable]
  | cons y rest ih =>
    simp only [entryCheck]
    split
    · simp [Acceptable]
    · exact ih

theorem succCheck_acceptable (live asg maybe : List Nat) (sc : Scope) :
    Acceptable (succCheck live asg maybe sc) := by
  induction live with
  | nil => simp [succCheck, Acceptable]
  | cons y rest ih =>
    simp only [succCheck]
    split
    · split
      · simp [Acceptable]
      · exact ih
    · split
      · simp [Acceptable]
      · exact ih

end GuppyVerif.C02
