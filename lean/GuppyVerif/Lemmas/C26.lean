import GuppyVerif.Spec.C26
import Mathlib.Data.String.Basic
import Mathlib.Data.List.Lex
/-! Helper lemmas for C26. -/
namespace GuppyVerif.Pytket

/-! ### rank in a strictly increasing list -/

/-- in a list that is pairwise related by an irreflexive, asymmetric relation, exactly the
    first `i` elements are smaller than the `i`-th one -/
theorem countP_lt_getElem {α} (r : α → α → Prop) [DecidableRel r]
    (irr : ∀ a, ¬ r a a) (asym : ∀ a b, r a b → ¬ r b a) :
    ∀ (l : List α), l.Pairwise r → ∀ (i : Nat) (h : i < l.length),
      l.countP (fun y => decide (r y l[i])) = i
  | [], _, i, h => by simp at h
  | a :: t, hp, 0, _ => by
    rw [List.pairwise_cons] at hp
    simp only [List.getElem_cons_zero, List.countP_cons, irr a, decide_false, Bool.false_eq_true,
      ↓reduceIte, Nat.add_zero]
    rw [List.countP_eq_zero]
    intro y hy
    simp [asym _ _ (hp.1 y hy)]
  | a :: t, hp, i + 1, h => by
    rw [List.pairwise_cons] at hp
    have hi : i < t.length := by simpa using h
    simp only [List.getElem_cons_succ, List.countP_cons]
    rw [countP_lt_getElem r irr asym t hp.2 i hi]
    simp [hp.1 _ (List.getElem_mem hi)]

theorem strLt_irrefl (a : String) : ¬ a < a := lt_irrefl a
theorem strLt_asymm (a b : String) : a < b → ¬ b < a := fun h => lt_asymm h

theorem UnitLt.irrefl (a : UnitId) : ¬ UnitLt a a := by
  rintro (h | ⟨_, h⟩)
  · exact lt_irrefl _ h
  · exact lt_irrefl _ h

theorem UnitLt.asymm (a b : UnitId) : UnitLt a b → ¬ UnitLt b a := by
  rintro (h | ⟨e, h⟩) (h' | ⟨e', h'⟩)
  · exact lt_asymm h h'
  · rw [e'] at h; exact lt_irrefl _ h
  · rw [e] at h'; exact lt_irrefl _ h'
  · exact lt_asymm h h'

/-- the `i`-th unit of an increasing list has rank `i` -/
theorem unitRank_getElem (l : List UnitId) (hp : l.Pairwise UnitLt) (i : Nat) (h : i < l.length) :
    unitRank l l[i] = i :=
  countP_lt_getElem UnitLt UnitLt.irrefl UnitLt.asymm l hp i h

/-! ### the executable order check -/

theorem natListLt_iff : ∀ (a b : List Nat), natListLt a b = true ↔ a < b
  | [], [] => by simp [natListLt]
  | [], _ :: _ => by simp [natListLt]
  | _ :: _, [] => by simp [natListLt]
  | x :: xs, y :: ys => by
    rw [natListLt, List.cons_lt_cons_iff]
    by_cases h1 : x < y
    · simp [h1]
    · by_cases h2 : y < x
      · simp only [h1, h2, ↓reduceIte, Bool.false_eq_true, false_or, false_iff]
        rintro ⟨e, _⟩; omega
      · have e : x = y := by omega
        simp [e, natListLt_iff xs ys]

theorem UnitId.lt_iff (a b : UnitId) : a.lt b = true ↔ UnitLt a b := by
  unfold UnitId.lt UnitLt
  by_cases h1 : a.name < b.name
  · simp [h1]
  · by_cases h2 : b.name < a.name
    · simp only [h1, h2, ↓reduceIte, Bool.false_eq_true, false_or, false_iff]
      rintro ⟨e, _⟩; rw [e] at h2; exact lt_irrefl _ h2
    · have e : a.name = b.name := by
        rcases lt_trichotomy a.name b.name with h | h | h
        · exact absurd h h1
        · exact h
        · exact absurd h h2
      simp [e, natListLt_iff]

theorem strictlyIncreasing_pairwise : ∀ (l : List UnitId), strictlyIncreasing l = true → l.Pairwise UnitLt
  | [], _ => List.Pairwise.nil
  | a :: t, h => by
    simp only [strictlyIncreasing, Bool.and_eq_true, List.all_eq_true] at h
    exact List.Pairwise.cons (fun b hb => (UnitId.lt_iff a b).mp (h.1 b hb))
      (strictlyIncreasing_pairwise t h.2)

theorem isSubseq_sublist : ∀ (xs ys : List UnitId), isSubseq xs ys = true → xs.Sublist ys
  | [], ys, _ => List.nil_sublist ys
  | _ :: _, [], h => by simp [isSubseq] at h
  | x :: xs, y :: ys, h => by
    unfold isSubseq at h
    by_cases e : x = y
    · simp only [e, ↓reduceIte] at h
      rw [e]; exact (isSubseq_sublist xs ys h).cons_cons y
    · simp only [e, ↓reduceIte] at h
      exact (isSubseq_sublist (x :: xs) ys h).cons y

/-! ### Python's `sorted` on names, and the `name_to_param` dictionary -/

theorem mem_insertSorted {α} (lt : α → α → Bool) (x z : α) :
    ∀ l : List α, z ∈ insertSorted lt x l ↔ z = x ∨ z ∈ l
  | [] => by simp [insertSorted]
  | y :: ys => by
    unfold insertSorted
    split
    · simp only [List.mem_cons, mem_insertSorted lt x z ys]; tauto
    · simp

theorem insertSorted_perm {α} (lt : α → α → Bool) (x : α) :
    ∀ l : List α, (insertSorted lt x l).Perm (x :: l)
  | [] => by simp [insertSorted]
  | y :: ys => by
    unfold insertSorted
    split
    · exact ((insertSorted_perm lt x ys).cons y).trans (List.Perm.swap x y ys)
    · exact List.Perm.refl _

theorem sorted_perm {α} (lt : α → α → Bool) : ∀ l : List α, (sorted lt l).Perm l
  | [] => by simp [sorted]
  | x :: xs => (insertSorted_perm lt x _).trans ((sorted_perm lt xs).cons x)

theorem insertSorted_pairwise (x : String) :
    ∀ l : List String, l.Pairwise (· < ·) → x ∉ l → (insertSorted strLt x l).Pairwise (· < ·)
  | [], _, _ => by simp [insertSorted]
  | y :: ys, hp, hx => by
    rw [List.pairwise_cons] at hp
    have hxy : x ≠ y := fun e => hx (e ▸ List.mem_cons_self)
    have hxs : x ∉ ys := fun h => hx (List.mem_cons_of_mem _ h)
    unfold insertSorted
    by_cases h : y < x
    · simp only [strLt, h, decide_true, ↓reduceIte]
      refine List.Pairwise.cons ?_ (insertSorted_pairwise x ys hp.2 hxs)
      intro z hz
      rcases (mem_insertSorted _ _ _ _).mp hz with e | hz
      · exact e ▸ h
      · exact hp.1 z hz
    · simp only [strLt, h, decide_false, Bool.false_eq_true, ↓reduceIte]
      have hlt : x < y := by
        rcases lt_trichotomy x y with h' | h' | h'
        · exact h'
        · exact absurd h' hxy
        · exact absurd h' h
      refine List.Pairwise.cons ?_ (List.Pairwise.cons hp.1 hp.2)
      intro z hz
      rcases List.mem_cons.mp hz with e | hz
      · exact e ▸ hlt
      · exact lt_trans hlt (hp.1 z hz)

theorem sorted_pairwise : ∀ l : List String, l.Nodup → (sorted strLt l).Pairwise (· < ·)
  | [], _ => by simp [sorted]
  | x :: xs, hn => by
    rw [List.nodup_cons] at hn
    exact insertSorted_pairwise x _ (sorted_pairwise xs hn.2)
      (fun h => hn.1 ((sorted_perm strLt xs).mem_iff.mp h))

/-- in `sorted l` (names distinct) every name sits at the index given by its rank in `l` -/
theorem sorted_getElem_lexRank (l : List String) (hn : l.Nodup) (x : String) (hx : x ∈ l) :
    ∃ h : lexRank l x < (sorted strLt l).length, (sorted strLt l)[lexRank l x] = x := by
  have hp := sorted_pairwise l hn
  have hx' : x ∈ sorted strLt l := (sorted_perm strLt l).mem_iff.mpr hx
  obtain ⟨i, hi, e⟩ := List.getElem_of_mem hx'
  have hc := countP_lt_getElem (· < ·) strLt_irrefl strLt_asymm _ hp i hi
  rw [e, (sorted_perm strLt l).countP_eq] at hc
  have : lexRank l x = i := hc
  rw [this]
  exact ⟨hi, e⟩

theorem dictGet_not_mem {β} (key : String) :
    ∀ (ks : List String) (vs : List β), key ∉ ks → dictGet (ks.zip vs) key = none
  | [], _, _ => by simp [dictGet]
  | _ :: _, [], _ => by simp [dictGet]
  | k :: ks, v :: vs, h => by
    have h1 : k ≠ key := fun e => h (e ▸ List.mem_cons_self)
    have h2 : key ∉ ks := fun h' => h (List.mem_cons_of_mem _ h')
    simp [dictGet, dictGet_not_mem key ks vs h2, h1]

theorem dictGet_zip_getElem {β} :
    ∀ (ks : List String) (vs : List β), ks.Nodup → ks.length = vs.length →
      ∀ (i : Nat) (h : i < ks.length), dictGet (ks.zip vs) ks[i] = vs[i]?
  | [], _, _, _, i, h => by simp at h
  | _ :: _, [], _, hl, _, _ => by simp at hl
  | k :: ks, v :: vs, hn, hl, 0, _ => by
    rw [List.nodup_cons] at hn
    simp [dictGet, dictGet_not_mem k ks vs hn.1]
  | k :: ks, v :: vs, hn, hl, i + 1, h => by
    rw [List.nodup_cons] at hn
    have hi : i < ks.length := by simpa using h
    have hl' : ks.length = vs.length := by simpa using hl
    have := dictGet_zip_getElem ks vs hn.2 hl' i hi
    have hv : i < vs.length := hl' ▸ hi
    simp only [List.zip_cons_cons, dictGet, List.getElem_cons_succ, this, List.getElem?_cons_succ]
    rw [List.getElem?_eq_getElem hv]

theorem mapM_except_ok {ε α β} (f : α → Except ε β) (g : α → β) :
    ∀ l : List α, (∀ a ∈ l, f a = .ok (g a)) → l.mapM f = .ok (l.map g)
  | [], _ => rfl
  | a :: l, h => by
    rw [List.mapM_cons, h a List.mem_cons_self,
      mapM_except_ok f g l (fun b hb => h b (List.mem_cons_of_mem _ hb))]
    rfl

/-! ### register flattening -/

theorem total_cons (r : Reg) (rs : List Reg) : total (r :: rs) = r.size + total rs := by
  simp [total, sizes]

theorem sizes_cons (r : Reg) (rs : List Reg) : sizes (r :: rs) = r.size :: sizes rs := rfl

theorem flatPos_zero (szs : List Nat) (e : Nat) : flatPos szs 0 e = e := by simp [flatPos]

theorem flatPos_succ (sz : Nat) (szs : List Nat) (r e : Nat) :
    flatPos (sz :: szs) (r + 1) e = sz + flatPos szs r e := by
  simp [flatPos, Nat.add_assoc]

theorem regUnits_length : ∀ rs : List Reg, (regUnits rs).length = total rs
  | [] => rfl
  | r :: rs => by simp [regUnits, total_cons, regUnits_length rs]

theorem unpackAll_length : ∀ (i : Nat) (rs : List Reg), (unpackAll i rs).length = total rs
  | _, [] => rfl
  | i, r :: rs => by simp [unpackAll, total_cons, unpackAll_length (i + 1) rs]

theorem flatPos_lt_total : ∀ (rs : List Reg) (r : Nat) (hr : r < rs.length) (e : Nat),
    e < rs[r].size → flatPos (sizes rs) r e < total rs
  | [], r, hr, _, _ => by simp at hr
  | r0 :: rs, 0, _, e, he => by
    simp only [List.getElem_cons_zero] at he
    rw [flatPos_zero, total_cons]; omega
  | r0 :: rs, r + 1, hr, e, he => by
    have hr' : r < rs.length := by simpa using hr
    simp only [List.getElem_cons_succ] at he
    have := flatPos_lt_total rs r hr' e he
    rw [sizes_cons, flatPos_succ, total_cons]; omega

theorem regUnits_getElem? : ∀ (rs : List Reg) (r : Nat) (hr : r < rs.length) (e : Nat),
    e < rs[r].size → (regUnits rs)[flatPos (sizes rs) r e]? = some ⟨rs[r].name, [e]⟩
  | [], r, hr, _, _ => by simp at hr
  | r0 :: rs, 0, _, e, he => by
    simp only [List.getElem_cons_zero] at he ⊢
    rw [flatPos_zero, regUnits, List.getElem?_append_left (by simpa using he)]
    simp [he]
  | r0 :: rs, r + 1, hr, e, he => by
    have hr' : r < rs.length := by simpa using hr
    simp only [List.getElem_cons_succ] at he ⊢
    rw [sizes_cons, flatPos_succ, regUnits, List.getElem?_append_right (by simp)]
    simp only [List.length_map, List.length_range, Nat.add_sub_cancel_left]
    exact regUnits_getElem? rs r hr' e he

theorem unpackAll_getElem? : ∀ (rs : List Reg) (i r : Nat) (hr : r < rs.length) (e : Nat),
    e < rs[r].size →
      (unpackAll i rs)[flatPos (sizes rs) r e]? = some (.port (.unpack .qubit rs[r].size (i + r) e))
  | [], _, r, hr, _, _ => by simp at hr
  | r0 :: rs, i, 0, _, e, he => by
    simp only [List.getElem_cons_zero] at he ⊢
    rw [flatPos_zero, unpackAll, List.getElem?_append_left (by simpa using he)]
    simp [he]
  | r0 :: rs, i, r + 1, hr, e, he => by
    have hr' : r < rs.length := by simpa using hr
    simp only [List.getElem_cons_succ] at he ⊢
    rw [sizes_cons, flatPos_succ, unpackAll, List.getElem?_append_right (by simp)]
    simp only [List.length_map, List.length_range, Nat.add_sub_cancel_left]
    have := unpackAll_getElem? rs (i + 1) r hr' e he
    rw [this, Nat.add_assoc, Nat.add_comm 1 r]

theorem packFrom_length (elem : Elem) (wires : List OutLeaf) :
    ∀ (idx : Nat) (rs : List Reg), (packFrom elem wires idx rs).length = rs.length
  | _, [] => rfl
  | idx, r :: rs => by simp [packFrom, packFrom_length elem wires (idx + r.size) rs]

theorem packFrom_getElem? (elem : Elem) (wires : List OutLeaf) :
    ∀ (rs : List Reg) (idx r : Nat) (hr : r < rs.length),
      (packFrom elem wires idx rs)[r]? =
        some (.newArray elem rs[r].size ((wires.drop (idx + flatPos (sizes rs) r 0)).take rs[r].size))
  | [], _, r, hr => by simp at hr
  | r0 :: rs, idx, 0, _ => by simp [packFrom, flatPos]
  | r0 :: rs, idx, r + 1, hr => by
    have hr' : r < rs.length := by simpa using hr
    simp only [packFrom, List.getElem?_cons_succ, List.getElem_cons_succ]
    rw [packFrom_getElem? elem wires rs (idx + r0.size) r hr', sizes_cons, flatPos_succ]
    simp only [Nat.add_assoc]

/-- every flat position below the total is the position of some register element -/
theorem exists_flatPos : ∀ (rs : List Reg) (i : Nat), i < total rs →
    ∃ (r : Nat) (hr : r < rs.length) (e : Nat), e < rs[r].size ∧ flatPos (sizes rs) r e = i
  | [], i, h => by simp [total, sizes] at h
  | r0 :: rs, i, h => by
    rw [total_cons] at h
    by_cases hi : i < r0.size
    · exact ⟨0, by simp, i, by simpa using hi, flatPos_zero _ _⟩
    · obtain ⟨r, hr, e, he, hp⟩ := exists_flatPos rs (i - r0.size) (by omega)
      refine ⟨r + 1, by simpa using hr, e, by simpa using he, ?_⟩
      rw [sizes_cons, flatPos_succ]; omega

/-! ### the output rotation -/

theorem outWires_ok (c : Circ) (outs : List PortTy) (h : InnerOutsOk c outs) :
    outWires c outs =
      (List.range c.nBits).map (fun b => OutLeaf.opaque (c.nQubits + b)) ++
        (List.range c.nQubits).map OutLeaf.call := by
  unfold InnerOutsOk at h
  subst h
  unfold outWires
  have hl : (List.replicate c.nQubits PortTy.qubit ++ List.replicate c.nBits PortTy.bool).length =
      c.nQubits + c.nBits := by simp
  simp only [hl, List.range_add, List.map_append]
  rw [List.drop_append_of_le_length (by simp), List.take_append_of_le_length (by simp)]
  have e1 : (List.range c.nQubits).drop c.nQubits = [] := by simp
  have e2 : (List.range c.nQubits).take c.nQubits = List.range c.nQubits := by simp
  simp only [e1, e2, List.nil_append, List.map_map]
  congr 1
  · apply List.map_congr_left
    intro b hb
    have hb' : b < c.nBits := List.mem_range.mp hb
    simp only [Function.comp]
    rw [List.getElem?_append_right (by simp)]
    simp [hb']
  · apply List.map_congr_left
    intro i hi
    have hi' : i < c.nQubits := List.mem_range.mp hi
    rw [List.getElem?_append_left (by simpa using hi')]
    simp [hi']

/-! ### unfolding `loadPytket` -/

theorem loadPytket_ok {c : Circ} {ua : Bool} {md : Option (List String)} {outs : List PortTy}
    {sig : Sig} {w : Wiring} (h : loadPytket c ua md outs = .ok (sig, w)) :
    signatureFromCircuit c ua = .ok sig ∧ compileOuter c ua sig.inputs.length md outs = .ok w := by
  unfold loadPytket at h
  split at h
  · cases h
  · rename_i sig' hs
    split at h
    · cases h
    · rename_i w' hw
      cases h
      exact ⟨hs, hw⟩

theorem compileOuter_flat {c : Circ} {n : Nat} {md : Option (List String)} {outs : List PortTy}
    {w : Wiring} (h : compileOuter c false n md outs = .ok w) :
    ∃ ps, paramArgs c false n md = .ok ps ∧
      w.callArgs = ((List.range n).take c.nQubits).map (fun k => Src.port (.input k)) ++
        List.replicate c.nBits Src.falseConst ++ ps ∧
      w.outputs = (outWires c outs).map Out.wire := by
  unfold compileOuter at h
  simp only [Bool.false_and, Bool.false_eq_true, ↓reduceIte] at h
  split at h
  · cases h
  · rename_i ps hps
    cases h
    exact ⟨ps, hps, rfl, rfl⟩

theorem compileOuter_arrays {c : Circ} {n : Nat} {md : Option (List String)} {outs : List PortTy}
    {w : Wiring} (h : compileOuter c true n md outs = .ok w) :
    ∃ ps, paramArgs c true n md = .ok ps ∧
      w.callArgs = unpackAll 0 c.qregs ++ List.replicate c.nBits Src.falseConst ++ ps ∧
      w.outputs = packFrom .bool (outWires c outs) 0 c.cregs ++
        packFrom .qubit (outWires c outs) (total c.cregs) c.qregs := by
  unfold compileOuter at h
  simp only [Bool.true_and, ↓reduceIte] at h
  split at h
  · cases h
  · split at h
    · cases h
    · rename_i ps hps
      cases h
      exact ⟨ps, hps, rfl, rfl⟩

theorem signatureFromCircuit_arrays {c : Circ} {sig : Sig}
    (h : signatureFromCircuit c true = .ok sig) :
    total c.qregs = c.nQubits ∧ total c.cregs = c.nBits ∧
      sig.inputs = (c.qregs.map fun r => (⟨.array .qubit r.size, .inout⟩ : FuncInput)) ++
        (if c.nSyms ≠ 0 then [⟨.array .angle c.nSyms, .noFlags⟩] else []) ∧
      sig.output = rowToType (c.cregs.map fun r => Leaf.array .bool r.size) := by
  unfold signatureFromCircuit at h
  simp only [↓reduceIte] at h
  split at h
  · cases h
  · rename_i hc
    simp only [ne_eq, Bool.or_eq_true, decide_eq_true_eq, not_or, Decidable.not_not] at hc
    cases h
    refine ⟨hc.1, hc.2, ?_, rfl⟩
    by_cases hs : c.nSyms = 0 <;> simp [hs]

theorem range_add_drop (a m : Nat) : (List.range (a + m)).drop a = (List.range m).map (a + ·) := by
  rw [List.range_add, List.drop_append_of_le_length (by simp)]
  simp

theorem range_add_take (a m : Nat) : (List.range (a + m)).take a = List.range a := by
  rw [List.range_add, List.take_append_of_le_length (by simp)]
  simp

theorem lexParamPorts_flat (c : Circ) (m : Nat) :
    lexParamPorts c false (c.nQubits + m) =
      .ok ((List.range m).map fun k => Port.input (c.nQubits + k)) := by
  unfold lexParamPorts
  simp [range_add_drop]

theorem lexParamPorts_arrays (c : Circ) :
    lexParamPorts c true (c.qregs.length + 1) =
      .ok ((List.range c.nSyms).map fun e => Port.unpack .angle c.nSyms c.qregs.length e) := by
  unfold lexParamPorts
  simp [range_add_drop]

theorem wireParams_ok (po : List String) (hn : po.Nodup) (P : Nat → Port) (m : Nat)
    (ps : List Src) (h : wireParams po ((List.range m).map P) = .ok ps) :
    po.length = m ∧ ps = po.map fun name => Src.untuple (P (lexRank po name)) := by
  unfold wireParams at h
  simp only [List.length_map, List.length_range, ne_eq] at h
  split at h
  · cases h
  · rename_i hl
    have hlen : (sorted strLt po).length = m := Decidable.not_not.mp hl
    have hpo : po.length = m := (sorted_perm strLt po).length_eq ▸ hlen
    refine ⟨hpo, ?_⟩
    have hnd : (sorted strLt po).Nodup := (sorted_perm strLt po).nodup_iff.mpr hn
    have hm := mapM_except_ok (bindParam ((sorted strLt po).zip ((List.range m).map P)))
      (fun name => Src.untuple (P (lexRank po name))) po (by
        intro name hname
        obtain ⟨hi, e⟩ := sorted_getElem_lexRank po hn name hname
        have hd := dictGet_zip_getElem (sorted strLt po) ((List.range m).map P) hnd (by simp [hlen])
          (lexRank po name) hi
        rw [e] at hd
        have hlt : lexRank po name < m := hlen ▸ hi
        unfold bindParam
        rw [hd]
        simp [hlt])
    rw [hm] at h
    exact (Except.ok.inj h).symm

/-! ### flattening the outputs -/

theorem outLeaves_append : ∀ (a b : List Out), outLeaves (a ++ b) = outLeaves a ++ outLeaves b
  | [], b => rfl
  | .wire l :: a, b => by simp [outLeaves, outLeaves_append a b]
  | .newArray _ _ ls :: a, b => by simp [outLeaves, outLeaves_append a b]

theorem outLeaves_map_wire : ∀ (ls : List OutLeaf), outLeaves (ls.map Out.wire) = ls
  | [] => rfl
  | l :: ls => by simp [outLeaves, outLeaves_map_wire ls]

theorem outLeaves_packFrom (elem : Elem) (wires : List OutLeaf) :
    ∀ (idx : Nat) (rs : List Reg),
      outLeaves (packFrom elem wires idx rs) = (wires.drop idx).take (total rs)
  | _, [] => by simp [packFrom, outLeaves, total, sizes]
  | idx, r :: rs => by
    rw [packFrom, outLeaves, outLeaves_packFrom elem wires (idx + r.size) rs, total_cons,
      List.take_add, List.drop_drop]

/-! ### stubs -/

theorem rowToType_replicate_matches : ∀ n, OutputMatches n (rowToType (List.replicate n (.scalar .bool)))
  | 0 => rfl
  | 1 => rfl
  | n + 2 => ⟨List.replicate (n + 2) (.scalar .bool), rfl, by simp, fun l hl => (List.mem_replicate.mp hl).2⟩

theorem outputMatches_unique : ∀ n t, OutputMatches n t → t = rowToType (List.replicate n (.scalar .bool))
  | 0, _, h => h
  | 1, _, h => h
  | n + 2, t, ⟨ls, ht, hl, hall⟩ => by
    have : ls = List.replicate (n + 2) (.scalar .bool) := List.eq_replicate_iff.mpr ⟨hl, hall⟩
    rw [ht, this]; rfl

theorem stubMatches_iff (c : Circ) (s : Sig) :
    StubMatches c s ↔ (signatureFlat c).inputs = s.inputs ∧ (signatureFlat c).output = s.output := by
  constructor
  · intro h
    refine ⟨?_, (outputMatches_unique _ _ h.output).symm⟩
    apply List.ext_getElem?
    intro n
    simp only [signatureFlat]
    by_cases h1 : n < c.nQubits
    · rw [h.qubits n h1, List.getElem?_append_left (by simpa using h1)]
      simp [h1]
    · by_cases h2 : n < c.nQubits + c.nSyms
      · have := h.angles (n - c.nQubits) (by omega)
        rw [show c.nQubits + (n - c.nQubits) = n by omega] at this
        rw [this, List.getElem?_append_right (by simp; omega)]
        rw [List.getElem?_replicate, if_pos (by simp; omega)]
      · rw [List.getElem?_eq_none (by simp; omega), List.getElem?_eq_none (by rw [h.arity]; omega)]
  · rintro ⟨hi, ho⟩
    refine ⟨?_, ?_, ?_, ?_⟩
    · rw [← hi]; simp [signatureFlat]
    · intro i h1
      rw [← hi]; simp only [signatureFlat]
      rw [List.getElem?_append_left (by simpa using h1)]
      simp [h1]
    · intro k h1
      rw [← hi]; simp only [signatureFlat]
      rw [List.getElem?_append_right (by simp)]
      simp [h1]
    · rw [← ho]; exact rowToType_replicate_matches _

/-! ### sessions -/

/-- without a cache the results are computed load by load from each load's own snapshot -/
theorem runSession_false : ∀ (cache : ConvCache) (evs : List Event),
    runSession false cache evs =
      evs.filterMap fun | .load _ s => some (compileSnapshot s) | .other => none
  | _, [] => rfl
  | cache, .other :: evs => by simp [runSession, runSession_false cache evs]
  | cache, .load obj s :: evs => by
    simp [runSession, convertVia, compileSnapshot, runSession_false cache evs]

theorem length_filterMap_loads : ∀ evs : List Event,
    (evs.filterMap fun | .load _ s => some (compileSnapshot s) | .other => none).length = loadsIn evs
  | [] => rfl
  | .other :: evs => by simp [loadsIn, length_filterMap_loads evs]
  | .load _ _ :: evs => by simp [loadsIn, length_filterMap_loads evs]

end GuppyVerif.Pytket
