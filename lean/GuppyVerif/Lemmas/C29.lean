import GuppyVerif.Spec.C29
/-! Helper lemmas for C29: the wrapping pipeline (`splitChunks`, `fill`, `stepLine`, `wrapChunks`). -/
namespace GuppyVerif.Render

/-! ### chunks -/

theorem splitChunks_flatten (s : Str) : (splitChunks s).flatten = s := by
  induction s with
  | nil => simp [splitChunks]
  | cons c cs ih =>
    unfold splitChunks
    split
    · rename_i d ds rest h
      rw [h] at ih
      split <;> simp_all
    · rename_i h
      -- splitChunks cs is [] or starts with []: then cs = [] (chunks are non-empty) — handled via ih
      cases hs : splitChunks cs with
      | nil => rw [hs] at ih; simp at ih; simp [ih]
      | cons x xs =>
        cases x with
        | nil =>
          -- impossible: chunks are non-empty; prove by the non-emptiness lemma below (inlined)
          exfalso
          clear ih h
          induction cs generalizing xs with
          | nil => simp [splitChunks] at hs
          | cons e es ihe =>
            unfold splitChunks at hs
            split at hs
            · split at hs <;> simp at hs
            · simp at hs
        | cons y ys => exact absurd hs (h y ys xs)

/-- every chunk is non-empty -/
theorem splitChunks_ne_nil (s : Str) : ∀ c ∈ splitChunks s, c ≠ [] := by
  induction s with
  | nil => simp [splitChunks]
  | cons c cs ih =>
    unfold splitChunks
    split
    · rename_i d ds rest h
      rw [h] at ih
      split
      · intro x hx
        simp only [List.mem_cons] at hx
        rcases hx with rfl | hx
        · simp
        · exact ih x (by simp [hx])
      · intro x hx
        simp only [List.mem_cons] at hx
        rcases hx with rfl | rfl | hx
        · simp
        · simp
        · exact ih x (by simp [hx])
    · simp

/-- every chunk is all whitespace or all non-whitespace -/
theorem splitChunks_pure (s : Str) :
    ∀ c ∈ splitChunks s, c.all isWs = true ∨ c.all (fun x => !isWs x) = true := by
  induction s with
  | nil => simp [splitChunks]
  | cons c cs ih =>
    unfold splitChunks
    split
    · rename_i d ds rest h
      rw [h] at ih
      have hd := ih (d :: ds) (by simp)
      split
      · rename_i heq
        intro x hx
        simp only [List.mem_cons] at hx
        rcases hx with rfl | hx
        · simp only [List.all_cons, Bool.and_eq_true] at hd ⊢
          have : isWs c = isWs d := by simpa using heq
          rw [this]
          rcases hd with hd | hd
          · left; exact ⟨hd.1, hd.1, hd.2⟩
          · right; exact ⟨hd.1, hd.1, hd.2⟩
        · exact ih x (by simp [hx])
      · intro x hx
        simp only [List.mem_cons] at hx
        rcases hx with rfl | rfl | hx
        · cases hc : isWs c <;> simp [hc]
        · exact hd
        · exact ih x (by simp [hx])
    · intro x hx
      simp only [List.mem_singleton] at hx
      subst hx
      cases hc : isWs c <;> simp [hc]

/-! ### visible characters -/

theorem vis_append (a b : Str) : vis (a ++ b) = vis a ++ vis b := by simp [vis]

theorem vis_flatten_cons (a : Str) (l : List Str) : vis (a :: l).flatten = vis a ++ vis l.flatten := by
  simp [vis]

theorem vis_blank (c : Str) (h : isBlank c = true) : vis c = [] := by
  unfold isBlank at h
  unfold vis sep
  rw [List.filter_eq_nil_iff]
  intro x hx
  have := List.all_eq_true.mp h x hx
  simp [this]

/-! ### `fill` -/

theorem fill_append (w : Nat) (cs : List Str) (n : Nat) : (fill w cs n).1 ++ (fill w cs n).2 = cs := by
  induction cs generalizing n with
  | nil => simp [fill]
  | cons c cs ih =>
    unfold fill
    split
    · simp [ih]
    · simp

theorem fill_len (w : Nat) (cs : List Str) (n : Nat) (hn : n ≤ w) :
    n + (fill w cs n).1.flatten.length ≤ w := by
  induction cs generalizing n with
  | nil => simp [fill]; exact hn
  | cons c cs ih =>
    unfold fill
    split
    · rename_i h
      have := ih (n + c.length) h
      simp only [List.flatten_cons, List.length_append]
      omega
    · simpa using hn

/-! ### `dropLastBlank`, `stepCore`, `stepLine` -/

theorem dropLastBlank_spec (cur : List Str) :
    ∃ post, cur = dropLastBlank cur ++ post ∧ (post = [] ∨ ∃ l, post = [l] ∧ isBlank l = true) := by
  unfold dropLastBlank
  split
  · rename_i l hl
    split
    · rename_i hb
      refine ⟨[l], ?_, Or.inr ⟨l, rfl, hb⟩⟩
      exact (List.dropLast_append_getLast? l hl).symm
    · exact ⟨[], by simp, Or.inl rfl⟩
  · exact ⟨[], by simp, Or.inl rfl⟩

/-- after `dropLastBlank` the line does not end in a blank chunk -/
theorem dropLastBlank_subset (cur : List Str) : ∀ x ∈ dropLastBlank cur, x ∈ cur := by
  obtain ⟨post, h, _⟩ := dropLastBlank_spec cur
  intro x hx
  rw [h]; simp [hx]

theorem stepCore_append (w : Nat) (ch : List Str) : (stepCore w ch).1 ++ (stepCore w ch).2 = ch := by
  unfold stepCore
  simp only
  have h := fill_append w ch 0
  split
  · rename_i x xs hx
    split
    · rename_i hc
      have he : (fill w ch 0).1 = [] := by simpa using hc.2
      rw [he, hx] at h
      simpa using h
    · exact h
  · exact h

/-- the chunks put on a line fit the width, or the line is one single too-long chunk -/
theorem stepCore_width (w : Nat) (ch : List Str) :
    (stepCore w ch).1.flatten.length ≤ w ∨ ∃ x, (stepCore w ch).1 = [x] ∧ w < x.length ∧ x ∈ ch := by
  unfold stepCore
  simp only
  have hl := fill_len w ch 0 (Nat.zero_le _)
  have ha := fill_append w ch 0
  split
  · rename_i x xs hx
    split
    · rename_i hc
      right
      refine ⟨x, rfl, hc.1, ?_⟩
      rw [← ha, hx]; simp
    · left; omega
  · left; omega

theorem stepLine_spec (w : Nat) (c : Str) (cs : List Str) (b : Bool) :
    ∃ pre post, c :: cs = pre ++ (stepLine w c cs b).1 ++ post ++ (stepLine w c cs b).2 ∧
      (pre = [] ∨ (pre = [c] ∧ isBlank c = true)) ∧ (post = [] ∨ ∃ l, post = [l] ∧ isBlank l = true) := by
  unfold stepLine
  simp only
  split
  · rename_i hb
    obtain ⟨post, hp, hpost⟩ := dropLastBlank_spec (stepCore w cs).1
    refine ⟨[c], post, ?_, Or.inr ⟨rfl, by simp_all⟩, hpost⟩
    have := stepCore_append w cs
    rw [hp] at this
    simp only [List.cons_append, List.nil_append, List.append_assoc] at this ⊢
    rw [this]
  · obtain ⟨post, hp, hpost⟩ := dropLastBlank_spec (stepCore w (c :: cs)).1
    refine ⟨[], post, ?_, Or.inl rfl, hpost⟩
    have := stepCore_append w (c :: cs)
    rw [hp] at this
    simp only [List.nil_append, List.append_assoc] at this ⊢
    exact this.symm

theorem stepLine_vis (w : Nat) (c : Str) (cs : List Str) (b : Bool) :
    vis (c :: cs).flatten = vis (stepLine w c cs b).1.flatten ++ vis (stepLine w c cs b).2.flatten := by
  obtain ⟨pre, post, h, hpre, hpost⟩ := stepLine_spec w c cs b
  rw [h]
  simp only [List.flatten_append, vis_append]
  have h1 : vis pre.flatten = [] := by
    rcases hpre with rfl | ⟨rfl, hb⟩
    · rfl
    · simp [vis_blank c hb]
  have h2 : vis post.flatten = [] := by
    rcases hpost with rfl | ⟨l, rfl, hb⟩
    · rfl
    · simp [vis_blank l hb]
  simp [h1, h2]

/-- width of a finished line -/
theorem stepLine_width (w : Nat) (c : Str) (cs : List Str) (b : Bool) :
    (stepLine w c cs b).1.flatten.length ≤ w ∨
      ∃ x, (stepLine w c cs b).1 = [x] ∧ w < x.length ∧ x ∈ c :: cs ∧ isBlank x = false := by
  unfold stepLine
  simp only
  generalize hch : (if (isBlank c && b) = true then cs else c :: cs) = ch
  have hsub : ∀ x ∈ ch, x ∈ c :: cs := by
    intro x hx; subst hch; split at hx <;> simp_all
  obtain ⟨post, hp, hpost⟩ := dropLastBlank_spec (stepCore w ch).1
  rcases stepCore_width w ch with h | ⟨x, hx, hw, hm⟩
  · left
    have : (stepCore w ch).1.flatten.length = (dropLastBlank (stepCore w ch).1).flatten.length + post.flatten.length := by
      conv => lhs; rw [hp]
      simp
    omega
  · by_cases hb : isBlank x = true
    · left
      have : dropLastBlank (stepCore w ch).1 = [] := by
        rw [hx]; simp [dropLastBlank, hb]
      rw [this]; simp
    · right
      refine ⟨x, ?_, hw, hsub x hm, by simpa using hb⟩
      rw [hx]; simp [dropLastBlank, hb]

/-! ### `wrapChunks` -/

theorem wrapChunks_nil (w : Nat) (b : Bool) : wrapChunks w [] b = [] := by
  rw [wrapChunks]

theorem wrapChunks_cons (w : Nat) (c : Str) (cs : List Str) (b : Bool) :
    wrapChunks w (c :: cs) b =
      if (stepLine w c cs b).1.isEmpty then wrapChunks w (stepLine w c cs b).2 b
      else (stepLine w c cs b).1.flatten :: wrapChunks w (stepLine w c cs b).2 true := by
  rw [wrapChunks]

/-- visible characters survive `_wrap_chunks` -/
theorem wrapChunks_vis (w : Nat) (cs : List Str) (b : Bool) :
    vis (wrapChunks w cs b).flatten = vis cs.flatten := by
  generalize hn : cs.length = n
  induction n using Nat.strongRecOn generalizing cs b with
  | _ n ih =>
    cases cs with
    | nil => simp [wrapChunks_nil]
    | cons c cs =>
      rw [wrapChunks_cons, stepLine_vis w c cs b]
      have hd := stepLine_decreases w c cs b
      split
      · rename_i he
        have : (stepLine w c cs b).1 = [] := by simpa using he
        rw [this]
        simp only [List.flatten_nil, vis, List.filter_nil, List.nil_append]
        exact ih _ (by omega) _ _ rfl
      · rw [vis_flatten_cons]
        congr 1
        exact ih _ (by omega) _ _ rfl

/-- every produced line fits the width or is a single non-blank chunk -/
theorem wrapChunks_width (w : Nat) (cs : List Str) (b : Bool) :
    ∀ l ∈ wrapChunks w cs b, l.length ≤ w ∨ (w < l.length ∧ l ∈ cs ∧ isBlank l = false) := by
  generalize hn : cs.length = n
  induction n using Nat.strongRecOn generalizing cs b with
  | _ n ih =>
    cases cs with
    | nil => simp [wrapChunks_nil]
    | cons c cs =>
      have hd := stepLine_decreases w c cs b
      obtain ⟨pre, post, hsp, _, _⟩ := stepLine_spec w c cs b
      have hsub : ∀ x ∈ (stepLine w c cs b).2, x ∈ c :: cs := by
        intro x hx; rw [hsp]; simp [hx]
      intro l hl
      rw [wrapChunks_cons] at hl
      have rec_case : ∀ b', l ∈ wrapChunks w (stepLine w c cs b).2 b' →
          l.length ≤ w ∨ (w < l.length ∧ l ∈ c :: cs ∧ isBlank l = false) := by
        intro b' h
        rcases ih _ (by omega) _ b' rfl l h with h | ⟨h1, h2, h3⟩
        · exact Or.inl h
        · exact Or.inr ⟨h1, hsub l h2, h3⟩
      split at hl
      · exact rec_case _ hl
      · simp only [List.mem_cons] at hl
        rcases hl with rfl | hl
        · rcases stepLine_width w c cs b with h | ⟨x, hx, hw, hm, hb⟩
          · exact Or.inl h
          · right; rw [hx]; simp only [List.flatten_cons, List.flatten_nil, List.append_nil]
            exact ⟨hw, hm, hb⟩
        · exact rec_case _ hl

end GuppyVerif.Render
