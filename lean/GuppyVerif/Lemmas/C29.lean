import GuppyVerif.Spec.C29
/-! Helper lemmas for C29: the wrapping pipeline (`splitChunks`, `fill`, `stepLine`, `wrapChunks`). -/
namespace GuppyVerif.Render

/-! ### chunks -/

theorem splitChunks_flatten (s : Str) : (splitChunks s).flatten = s := by
  induction s with
  | nil => simp [splitChunks]
  | cons c cs ih =>
    unfold splitChunks
    split
    · rename_i d ds rest h
      rw [h] at ih
      split <;> simp_all
    · rename_i h
      -- splitChunks cs is [] or starts with []: then cs = [] (chunks are non-empty) — handled via ih
      cases hs : splitChunks cs with
      | nil => rw [hs] at ih; simp at ih; simp [ih]
      | cons x xs =>
        cases x with
        | nil =>
          -- impossible: chunks are non-empty; prove by the non-emptiness lemma below (inlined)
          exfalso
          clear ih h
          induction cs generalizing xs with
          | nil => simp [splitChunks] at hs
          | cons e es ihe =>
            unfold splitChunks at hs
            split at hs
            · split at hs <;> simp at hs
            · simp at hs
        | cons y ys => exact absurd hs (h y ys xs)

/-- every chunk is non-empty -/
theorem splitChunks_ne_nil (s : Str) : ∀ c ∈ splitChunks s, c ≠ [] := by
  induction s with
  | nil => simp [splitChunks]
  | cons c cs ih =>
    unfold splitChunks
    split
    · rename_i d ds rest h
      rw [h] at ih
      split
      · intro x hx
        simp only [List.mem_cons] at hx
        rcases hx with rfl | hx
        · simp
        · exact ih x (by simp [hx])
      · intro x hx
        simp only [List.mem_cons] at hx
        rcases hx with rfl | rfl | hx
        · simp
        · simp
        · exact ih x (by simp [hx])
    · simp

/-- every chunk is all whitespace or all non-whitespace -/
theorem splitChunks_pure (s : Str) :
    ∀ c ∈ splitChunks s, c.all isWs = true ∨ c.all (fun x => !isWs x) = true := by
  induction s with
  | nil => simp [splitChunks]
  | cons c cs ih =>
    unfold splitChunks
    split
    · rename_i d ds rest h
      rw [h] at ih
      have hd := ih (d :: ds) (by simp)
      split
      · rename_i heq
        intro x hx
        simp only [List.mem_cons] at hx
        rcases hx with rfl | hx
        · simp only [List.all_cons, Bool.and_eq_true] at hd ⊢
          have : isWs c = isWs d := by simpa using heq
          rw [this]
          rcases hd with hd | hd
          · left; exact ⟨hd.1, hd.1, hd.2⟩
          · right; exact ⟨hd.1, hd.1, hd.2⟩
        · exact ih x (by simp [hx])
      · intro x hx
        simp only [List.mem_cons] at hx
        rcases hx with rfl | rfl | hx
        · cases hc : isWs c <;> simp [hc]
        · exact hd
        · exact ih x (by simp [hx])
    · intro x hx
      simp only [List.mem_singleton] at hx
      subst hx
      cases hc : isWs c <;> simp [hc]

/-! ### visible characters -/

theorem vis_append (a b : Str) : vis (a ++ b) = vis a ++ vis b := by simp [vis]

theorem vis_flatten_cons (a : Str) (l : List Str) : vis (a :: l).flatten = vis a ++ vis l.flatten := by
  simp [vis]

theorem vis_blank (c : Str) (h : isBlank c = true) : vis c = [] := by
  unfold isBlank at h
  unfold vis sep
  rw [List.filter_eq_nil_iff]
  intro x hx
  have := List.all_eq_true.mp h x hx
  simp [this]

/-! ### `fill` -/

theorem fill_append (w : Nat) (cs : List Str) (n : Nat) : (fill w cs n).1 ++ (fill w cs n).2 = cs := by
  induction cs generalizing n with
  | nil => simp [fill]
  | cons c cs ih =>
    unfold fill
    split
    · simp [ih]
    · simp

theorem fill_len (w : Nat) (cs : List Str) (n : Nat) (hn : n ≤ w) :
    n + (fill w cs n).1.flatten.length ≤ w := by
  induction cs generalizing n with
  | nil => simp [fill]; exact hn
  | cons c cs ih =>
    unfold fill
    split
    · rename_i h
      have := ih (n + c.length) h
      simp only [List.flatten_cons, List.length_append]
      omega
    · simpa using hn

/-! ### `dropLastBlank`, `stepCore`, `stepLine` -/

theorem dropLastBlank_spec (cur : List Str) :
    ∃ post, cur = dropLastBlank cur ++ post ∧ (post = [] ∨ ∃ l, post = [l] ∧ isBlank l = true) := by
  unfold dropLastBlank
  split
  · rename_i l hl
    split
    · rename_i hb
      refine ⟨[l], ?_, Or.inr ⟨l, rfl, hb⟩⟩
      have hne : cur ≠ [] := by intro h; simp [h] at hl
      have hg : cur.getLast hne = l := by
        rw [List.getLast?_eq_getLast hne] at hl; exact Option.some.inj hl
      rw [← hg]; exact (List.dropLast_concat_getLast hne).symm
    · exact ⟨[], by simp, Or.inl rfl⟩
  · exact ⟨[], by simp, Or.inl rfl⟩

/-- after `dropLastBlank` the line does not end in a blank chunk -/
theorem dropLastBlank_subset (cur : List Str) : ∀ x ∈ dropLastBlank cur, x ∈ cur := by
  obtain ⟨post, h, _⟩ := dropLastBlank_spec cur
  intro x hx
  rw [h]; simp [hx]

theorem stepCore_append (w : Nat) (ch : List Str) : (stepCore w ch).1 ++ (stepCore w ch).2 = ch := by
  unfold stepCore
  simp only
  have h := fill_append w ch 0
  split
  · rename_i x xs hx
    split
    · rename_i hc
      have he : (fill w ch 0).1 = [] := by simpa using hc.2
      rw [he, hx] at h
      simpa using h
    · exact h
  · exact h

/-- the chunks put on a line fit the width, or the line is one single too-long chunk -/
theorem stepCore_width (w : Nat) (ch : List Str) :
    (stepCore w ch).1.flatten.length ≤ w ∨ ∃ x, (stepCore w ch).1 = [x] ∧ w < x.length ∧ x ∈ ch := by
  unfold stepCore
  simp only
  have hl := fill_len w ch 0 (Nat.zero_le _)
  have ha := fill_append w ch 0
  split
  · rename_i x xs hx
    split
    · rename_i hc
      right
      refine ⟨x, rfl, hc.1, ?_⟩
      rw [← ha, hx]; simp
    · left; omega
  · left; omega

theorem stepLine_spec (w : Nat) (c : Str) (cs : List Str) (b : Bool) :
    ∃ pre post, c :: cs = pre ++ (stepLine w c cs b).1 ++ post ++ (stepLine w c cs b).2 ∧
      (pre = [] ∨ (pre = [c] ∧ isBlank c = true)) ∧ (post = [] ∨ ∃ l, post = [l] ∧ isBlank l = true) := by
  unfold stepLine
  simp only
  split
  · rename_i hb
    obtain ⟨post, hp, hpost⟩ := dropLastBlank_spec (stepCore w cs).1
    refine ⟨[c], post, ?_, Or.inr ⟨rfl, by simp_all⟩, hpost⟩
    have := stepCore_append w cs
    rw [hp] at this
    simp only [List.cons_append, List.nil_append, List.append_assoc] at this ⊢
    rw [this]
  · obtain ⟨post, hp, hpost⟩ := dropLastBlank_spec (stepCore w (c :: cs)).1
    refine ⟨[], post, ?_, Or.inl rfl, hpost⟩
    have := stepCore_append w (c :: cs)
    rw [hp] at this
    simp only [List.nil_append, List.append_assoc] at this ⊢
    exact this.symm

theorem stepLine_vis (w : Nat) (c : Str) (cs : List Str) (b : Bool) :
    vis (c :: cs).flatten = vis (stepLine w c cs b).1.flatten ++ vis (stepLine w c cs b).2.flatten := by
  obtain ⟨pre, post, h, hpre, hpost⟩ := stepLine_spec w c cs b
  rw [h]
  simp only [List.flatten_append, vis_append]
  have h1 : vis pre.flatten = [] := by
    rcases hpre with rfl | ⟨rfl, hb⟩
    · rfl
    · simp [vis_blank c hb]
  have h2 : vis post.flatten = [] := by
    rcases hpost with rfl | ⟨l, rfl, hb⟩
    · rfl
    · simp [vis_blank l hb]
  simp [h1, h2]

/-- width of a finished line -/
theorem stepLine_width (w : Nat) (c : Str) (cs : List Str) (b : Bool) :
    (stepLine w c cs b).1.flatten.length ≤ w ∨
      ∃ x, (stepLine w c cs b).1 = [x] ∧ w < x.length ∧ x ∈ c :: cs ∧ isBlank x = false := by
  unfold stepLine
  simp only
  generalize hch : (if (isBlank c && b) = true then cs else c :: cs) = ch
  have hsub : ∀ x ∈ ch, x ∈ c :: cs := by
    intro x hx; subst hch; split at hx <;> simp_all
  obtain ⟨post, hp, hpost⟩ := dropLastBlank_spec (stepCore w ch).1
  rcases stepCore_width w ch with h | ⟨x, hx, hw, hm⟩
  · left
    have : (stepCore w ch).1.flatten.length = (dropLastBlank (stepCore w ch).1).flatten.length + post.flatten.length := by
      conv => lhs; rw [hp]
      simp
    omega
  · by_cases hb : isBlank x = true
    · left
      have : dropLastBlank (stepCore w ch).1 = [] := by
        rw [hx]; simp [dropLastBlank, hb]
      rw [this]; simp
    · right
      refine ⟨x, ?_, hw, hsub x hm, by simpa using hb⟩
      rw [hx]; simp [dropLastBlank, hb]

/-! ### `wrapChunks` -/

theorem wrapChunks_nil (w : Nat) (b : Bool) : wrapChunks w [] b = [] := by
  rw [wrapChunks]

theorem wrapChunks_cons (w : Nat) (c : Str) (cs : List Str) (b : Bool) :
    wrapChunks w (c :: cs) b =
      if (stepLine w c cs b).1.isEmpty then wrapChunks w (stepLine w c cs b).2 b
      else (stepLine w c cs b).1.flatten :: wrapChunks w (stepLine w c cs b).2 true := by
  rw [wrapChunks]

/-- visible characters survive `_wrap_chunks` -/
theorem wrapChunks_vis (w : Nat) (cs : List Str) (b : Bool) :
    vis (wrapChunks w cs b).flatten = vis cs.flatten := by
  generalize hn : cs.length = n
  induction n using Nat.strongRecOn generalizing cs b with
  | _ n ih =>
    cases cs with
    | nil => simp [wrapChunks_nil]
    | cons c cs =>
      rw [wrapChunks_cons, stepLine_vis w c cs b]
      have hd := stepLine_decreases w c cs b
      split
      · rename_i he
        have : (stepLine w c cs b).1 = [] := by simpa using he
        rw [this]
        simp only [List.flatten_nil, vis, List.filter_nil, List.nil_append]
        exact ih _ (by omega) _ _ rfl
      · rw [vis_flatten_cons]
        congr 1
        exact ih _ (by omega) _ _ rfl

/-- every produced line fits the width or is a single non-blank chunk -/
theorem wrapChunks_width (w : Nat) (cs : List Str) (b : Bool) :
    ∀ l ∈ wrapChunks w cs b, l.length ≤ w ∨ (w < l.length ∧ l ∈ cs ∧ isBlank l = false) := by
  generalize hn : cs.length = n
  induction n using Nat.strongRecOn generalizing cs b with
  | _ n ih =>
    cases cs with
    | nil => simp [wrapChunks_nil]
    | cons c cs =>
      have hd := stepLine_decreases w c cs b
      obtain ⟨pre, post, hsp, _, _⟩ := stepLine_spec w c cs b
      have hsub : ∀ x ∈ (stepLine w c cs b).2, x ∈ c :: cs := by
        intro x hx; rw [hsp]; simp [hx]
      intro l hl
      rw [wrapChunks_cons] at hl
      have rec_case : ∀ b', l ∈ wrapChunks w (stepLine w c cs b).2 b' →
          l.length ≤ w ∨ (w < l.length ∧ l ∈ c :: cs ∧ isBlank l = false) := by
        intro b' h
        rcases ih _ (by omega) _ b' rfl l h with h | ⟨h1, h2, h3⟩
        · exact Or.inl h
        · exact Or.inr ⟨h1, hsub l h2, h3⟩
      split at hl
      · exact rec_case _ hl
      · simp only [List.mem_cons] at hl
        rcases hl with rfl | hl
        · rcases stepLine_width w c cs b with h | ⟨x, hx, hw, hm, hb⟩
          · exact Or.inl h
          · right; rw [hx]; simp only [List.flatten_cons, List.flatten_nil, List.append_nil]
            exact ⟨hw, hm, hb⟩
        · exact rec_case _ hl

/-! ### text level: `expandtabs`, `munge`, `splitlines`, `wrapLines` preserve visible characters -/

theorem isWs_sep {c : Char} (h : isWs c = true) : sep c = true := by simp [sep, h]

theorem vis_replicate_space (n : Nat) : vis (List.replicate n ' ') = [] := by
  unfold vis
  rw [List.filter_eq_nil_iff]
  intro x hx
  have := List.eq_of_mem_replicate hx
  subst this
  decide

theorem vis_cons (c : Char) (s : Str) : vis (c :: s) = if sep c then vis s else c :: vis s := by
  unfold vis
  rw [List.filter_cons]
  cases sep c <;> simp

theorem vis_expandtabs (p : Str) (n : Nat) : vis (expandtabs p n) = vis p := by
  induction p generalizing n with
  | nil => simp [expandtabs]
  | cons c cs ih =>
    unfold expandtabs
    split
    · rename_i h
      have hc : c = '\t' := by simpa using h
      subst hc
      rw [vis_append, vis_replicate_space, ih, vis_cons]
      simp [show sep '\t' = true by decide]
    · split
      · rw [vis_cons, vis_cons, ih]
      · rw [vis_cons, vis_cons, ih]

theorem vis_munge (p : Str) : vis (munge p) = vis p := by
  induction p with
  | nil => simp [munge]
  | cons c cs ih =>
    unfold munge at ih ⊢
    rw [List.map_cons, vis_cons, vis_cons, ih]
    by_cases h : isWs c = true
    · simp [h, isWs_sep h, show sep ' ' = true by decide]
    · simp [h]

theorem vis_splitlinesAux (s cur : Str) :
    vis (splitlinesAux s cur).flatten = vis (cur.reverse ++ s) := by
  fun_induction splitlinesAux s cur with
  | case1 cur h => simp_all [vis]
  | case2 cur h => simp [vis]
  | case3 c cur h =>
    have : sep c = true := by simp [sep, h]
    simp [vis_append, vis_cons, this, vis]
  | case4 c cur h => simp [vis]
  | case5 c d rest cur h ih =>
    have h' : c = '\r' ∧ d = '\n' := by simpa using h
    obtain ⟨rfl, rfl⟩ := h'
    rw [vis_flatten_cons, ih]
    simp [vis_append, vis_cons, show sep '\r' = true by decide, show sep '\n' = true by decide, vis]
  | case6 c d rest cur h hb ih =>
    have : sep c = true := by simp [sep, hb]
    rw [vis_flatten_cons, ih]
    simp [vis_append, vis_cons, this, vis]
  | case7 c d rest cur h hb ih =>
    rw [ih]; simp [vis_append]

theorem vis_textwrap (w : Nat) (p : Str) : vis (textwrap w p).flatten = vis p := by
  unfold textwrap
  rw [wrapChunks_vis, splitChunks_flatten, vis_munge, vis_expandtabs]

theorem vis_orEmptyLine (ls : List Str) : vis (orEmptyLine ls).flatten = vis ls.flatten := by
  unfold orEmptyLine; split <;> simp

theorem vis_wrapLines (text : Str) (w : Nat) : vis (wrapLines text w).flatten = vis text := by
  unfold wrapLines
  have key : ∀ ps : List Str, vis (ps.flatMap fun p => orEmptyLine (textwrap w p)).flatten
      = vis ps.flatten := by
    intro ps
    induction ps with
    | nil => simp
    | cons p ps ih =>
      rw [List.flatMap_cons, List.flatten_append, vis_append, ih, vis_flatten_cons,
        vis_orEmptyLine, vis_textwrap]
  have hs := vis_splitlinesAux text []
  simp only [List.reverse_nil, List.nil_append] at hs
  rw [key, vis_orEmptyLine]
  exact hs

/-! ### width at text level -/

theorem mem_orEmptyLine {l : Str} {ls : List Str} (h : l ∈ orEmptyLine ls) : l = [] ∨ l ∈ ls := by
  unfold orEmptyLine at h
  split at h
  · left; simpa using h
  · right; exact h

theorem wrapLines_width (text : Str) (w : Nat) :
    ∀ l ∈ wrapLines text w, l.length ≤ w ∨ (∀ c ∈ l, isWs c = false) := by
  intro l hl
  unfold wrapLines at hl
  rw [List.mem_flatMap] at hl
  obtain ⟨p, _, hl⟩ := hl
  rcases mem_orEmptyLine hl with rfl | hl
  · left; simp
  · unfold textwrap at hl
    rcases wrapChunks_width w _ false l hl with h | ⟨_, hm, hb⟩
    · exact Or.inl h
    · right
      rcases splitChunks_pure _ l hm with hp | hp
      · unfold isBlank at hb; rw [hp] at hb; cases hb
      · intro c hc
        have := List.all_eq_true.mp hp c hc
        simpa using this

/-! ### words -/

theorem segments_ne_nil (s : Str) : segments s ≠ [] := by
  cases s with
  | nil => simp [segments]
  | cons c cs =>
    unfold segments
    split
    · simp
    · split <;> simp

theorem segments_cons_sep (c : Char) (cs : Str) (h : sep c = true) :
    segments (c :: cs) = [] :: segments cs := by
  rw [segments]; simp [h]

theorem segments_cons_nsep (c : Char) (cs : Str) (h : sep c = false) (hd : Str) (tl : List Str)
    (hs : segments cs = hd :: tl) : segments (c :: cs) = (c :: hd) :: tl := by
  rw [segments]; simp [h, hs]

/-- splitting at a separator character -/
theorem segments_append_sep (a b : Str) (c : Char) (hc : sep c = true) :
    segments (a ++ c :: b) = segments a ++ segments b := by
  induction a with
  | nil => rw [List.nil_append, segments_cons_sep c b hc]; simp [segments]
  | cons x a ih =>
    rw [List.cons_append]
    cases hx : sep x with
    | true => rw [segments_cons_sep x _ hx, segments_cons_sep x _ hx, ih]; simp
    | false =>
      cases hsa : segments a with
      | nil => exact absurd hsa (segments_ne_nil a)
      | cons h t =>
        rw [segments_cons_nsep x a hx h t hsa,
          segments_cons_nsep x (a ++ c :: b) hx h (t ++ segments b) (by rw [ih, hsa]; simp)]
        simp

theorem words_append_sep (a b : Str) (c : Char) (hc : sep c = true) :
    words (a ++ c :: b) = words a ++ words b := by
  unfold words; rw [segments_append_sep a b c hc, List.filter_append]

theorem words_nil : words [] = [] := by simp [words, segments]

theorem words_sep_cons (c : Char) (b : Str) (hc : sep c = true) : words (c :: b) = words b := by
  have := words_append_sep [] b c hc
  simpa [words_nil] using this

theorem words_concat_sep (a : Str) (c : Char) (hc : sep c = true) : words (a ++ [c]) = words a := by
  have := words_append_sep a [] c hc
  simpa [words_nil] using this

/-- a text can be cut into two pieces without changing its words wherever a separator is adjacent
    to the cut -/
theorem words_append_of_boundary (a b : Str)
    (h : a = [] ∨ b = [] ∨ (∃ c, a.getLast? = some c ∧ sep c = true) ∨ (∃ c, b.head? = some c ∧ sep c = true)) :
    words (a ++ b) = words a ++ words b := by
  rcases h with rfl | rfl | ⟨c, hl, hc⟩ | ⟨c, hh, hc⟩
  · simp [words_nil]
  · simp [words_nil]
  · have hne : a ≠ [] := by intro h; simp [h] at hl
    have : a = a.dropLast ++ [c] := by
      have hg : a.getLast hne = c := by
        rw [List.getLast?_eq_getLast hne] at hl; exact Option.some.inj hl
      rw [← hg]; exact (List.dropLast_concat_getLast hne).symm
    rw [this, List.append_assoc, List.singleton_append, words_append_sep _ _ _ hc, words_concat_sep _ _ hc]
  · cases b with
    | nil => simp at hh
    | cons d b =>
      have : d = c := by simpa using hh
      subst this
      rw [words_append_sep _ _ _ hc, words_sep_cons _ _ hc]

theorem words_blank (c : Str) (h : isBlank c = true) : words c = [] := by
  induction c with
  | nil => exact words_nil
  | cons x c ih =>
    unfold isBlank at h ih
    simp only [List.all_cons, Bool.and_eq_true] at h
    rw [words_sep_cons _ _ (isWs_sep h.1)]
    exact ih h.2

/-- chunk lists in which every cut between neighbours is adjacent to a separator -/
def Bok : List Str → Prop
  | [] => True
  | [x] => x ≠ []
  | x :: y :: r => x ≠ [] ∧ ((∃ c, x.getLast? = some c ∧ sep c = true) ∨ (∃ c, y.head? = some c ∧ sep c = true)) ∧ Bok (y :: r)

theorem Bok.tail {x : Str} {r : List Str} (h : Bok (x :: r)) : Bok r := by
  cases r with
  | nil => trivial
  | cons y r => exact h.2.2

theorem Bok.head_ne {x : Str} {r : List Str} (h : Bok (x :: r)) : x ≠ [] := by
  cases r with
  | nil => exact h
  | cons y r => exact h.1

theorem Bok.flatMap_words : ∀ (cs : List Str), Bok cs → words cs.flatten = cs.flatMap words
  | [], _ => by simp [words_nil]
  | [x], _ => by simp
  | x :: y :: r, h => by
    have ih := Bok.flatMap_words (y :: r) h.2.2
    rw [List.flatten_cons, List.flatMap_cons, ← ih]
    apply words_append_of_boundary
    rcases h.2.1 with hl | ⟨c, hh, hc⟩
    · exact Or.inr (Or.inr (Or.inl hl))
    · refine Or.inr (Or.inr (Or.inr ⟨c, ?_, hc⟩))
      have hy : y ≠ [] := Bok.head_ne h.2.2
      cases y with
      | nil => exact absurd rfl hy
      | cons d y => simpa using hh

theorem Bok.suffix : ∀ (a b : List Str), Bok (a ++ b) → Bok b
  | [], _, h => h
  | x :: a, b, h => Bok.suffix a b (Bok.tail h)

theorem Bok.prefix : ∀ (a b : List Str), Bok (a ++ b) → Bok a
  | [], _, _ => trivial
  | [x], b, h => Bok.head_ne h
  | x :: y :: a, b, h => ⟨h.1, h.2.1, Bok.prefix (y :: a) b h.2.2⟩

/-- the chunks produced by `splitChunks` have a separator next to every cut -/
theorem splitChunks_bok (s : Str) : Bok (splitChunks s) := by
  induction s with
  | nil => simp [splitChunks, Bok]
  | cons c cs ih =>
    unfold splitChunks
    split
    · rename_i d ds rest h
      rw [h] at ih
      split
      · -- c joins the first chunk
        cases rest with
        | nil => simp [Bok]
        | cons y r =>
          refine ⟨by simp, ?_, ih.2.2⟩
          rcases ih.2.1 with ⟨e, hl, he⟩ | hr
          · left; exact ⟨e, by simpa using hl, he⟩
          · right; exact hr
      · rename_i hne
        refine ⟨by simp, ?_, ih⟩
        cases hc : isWs c with
        | true => left; exact ⟨c, by simp, isWs_sep hc⟩
        | false =>
          right
          refine ⟨d, by simp, isWs_sep ?_⟩
          cases hd : isWs d with
          | true => rfl
          | false => simp [hc, hd] at hne
    · simp [Bok]

/-- the words of the lines produced by `_wrap_chunks` are the words of the chunks, in order -/
theorem wrapChunks_words (w : Nat) (cs : List Str) (b : Bool) (hb : Bok cs) :
    (wrapChunks w cs b).flatMap words = cs.flatMap words := by
  generalize hn : cs.length = n
  induction n using Nat.strongRecOn generalizing cs b with
  | _ n ih =>
    cases cs with
    | nil => simp [wrapChunks_nil]
    | cons c cs =>
      have hd := stepLine_decreases w c cs b
      obtain ⟨pre, post, hsp, hpre, hpost⟩ := stepLine_spec w c cs b
      rw [wrapChunks_cons]
      have hbok := hb
      rw [hsp] at hbok
      have hrest : Bok (stepLine w c cs b).2 := Bok.suffix _ _ hbok
      have hline : Bok (stepLine w c cs b).1 :=
        Bok.suffix _ _ (Bok.prefix _ _ (Bok.prefix _ _ hbok))
      have hpre0 : pre.flatMap words = [] := by
        rcases hpre with rfl | ⟨rfl, hbl⟩
        · rfl
        · simp [words_blank c hbl]
      have hpost0 : post.flatMap words = [] := by
        rcases hpost with rfl | ⟨l, rfl, hbl⟩
        · rfl
        · simp [words_blank l hbl]
      have total : (c :: cs).flatMap words =
          (stepLine w c cs b).1.flatMap words ++ (stepLine w c cs b).2.flatMap words := by
        conv => lhs; rw [hsp]
        simp only [List.flatMap_append, hpre0, hpost0, List.nil_append, List.append_nil]
      rw [total]
      split
      · rename_i he
        have : (stepLine w c cs b).1 = [] := by simpa using he
        rw [this]
        simp only [List.flatMap_nil, List.nil_append]
        exact ih _ (by omega) _ _ hrest rfl
      · rw [List.flatMap_cons, Bok.flatMap_words _ hline]
        congr 1
        exact ih _ (by omega) _ _ hrest rfl

/-! ### words at text level -/

/-- two texts have the same first segment and the same non-empty later segments -/
def SegRel (A B : Str) : Prop :=
  ∃ h tA tB, segments A = h :: tA ∧ segments B = h :: tB ∧
    tA.filter (fun w => !w.isEmpty) = tB.filter (fun w => !w.isEmpty)

theorem SegRel.words_eq {A B : Str} (h : SegRel A B) : words A = words B := by
  obtain ⟨h, tA, tB, hA, hB, ht⟩ := h
  unfold words
  rw [hA, hB, List.filter_cons, List.filter_cons, ht]

theorem SegRel.nil : SegRel [] [] := ⟨[], [], [], by simp [segments], by simp [segments], rfl⟩

theorem SegRel.cons_sep {A B : Str} (h : SegRel A B) (c d : Char) (hc : sep c = true) (hd : sep d = true) :
    SegRel (c :: A) (d :: B) := by
  obtain ⟨h, tA, tB, hA, hB, ht⟩ := h
  refine ⟨[], h :: tA, h :: tB, by rw [segments_cons_sep c A hc, hA], by rw [segments_cons_sep d B hd, hB], ?_⟩
  rw [List.filter_cons, List.filter_cons, ht]

theorem SegRel.cons_nsep {A B : Str} (h : SegRel A B) (c : Char) (hc : sep c = false) :
    SegRel (c :: A) (c :: B) := by
  obtain ⟨h, tA, tB, hA, hB, ht⟩ := h
  exact ⟨c :: h, tA, tB, segments_cons_nsep c A hc h tA hA, segments_cons_nsep c B hc h tB hB, ht⟩

theorem SegRel.spaces_right {A B : Str} (h : SegRel A B) (n : Nat) :
    SegRel (' ' :: A) (List.replicate (n + 1) ' ' ++ B) := by
  induction n with
  | zero => exact h.cons_sep ' ' ' ' (by decide) (by decide)
  | succ n ih =>
    obtain ⟨h, tA, tB, hA, hB, ht⟩ := ih
    refine ⟨h, tA, [] :: tB, hA, ?_, ?_⟩
    · rw [List.replicate_succ, List.cons_append, segments_cons_sep ' ' _ (by decide), hB]
      have : h = [] := by
        rw [segments_cons_sep ' ' A (by decide)] at hA
        exact (List.cons.inj hA).1.symm
      rw [this]
    · rw [List.filter_cons]; simpa using ht

theorem munge_append (a b : Str) : munge (a ++ b) = munge a ++ munge b := by simp [munge]

theorem munge_replicate_space (n : Nat) : munge (List.replicate n ' ') = List.replicate n ' ' := by
  simp [munge, show isWs ' ' = true by decide]

theorem segRel_expand (p : Str) (n : Nat) : SegRel p (munge (expandtabs p n)) := by
  induction p generalizing n with
  | nil => simpa [expandtabs, munge] using SegRel.nil
  | cons c cs ih =>
    unfold expandtabs
    split
    · rename_i h
      have hc : c = '\t' := by simpa using h
      subst hc
      rw [munge_append, munge_replicate_space]
      generalize hK : 8 - n % 8 = K
      obtain ⟨k, rfl⟩ : ∃ k, K = k + 1 := ⟨K - 1, by omega⟩
      have := (ih (n + (k + 1))).spaces_right k
      -- replace the leading ' ' by the tab on the left: both are separators
      obtain ⟨h, tA, tB, hA, hB, ht⟩ := this
      refine ⟨h, tA, tB, ?_, hB, ht⟩
      rw [segments_cons_sep '\t' cs (by decide)]
      rw [segments_cons_sep ' ' cs (by decide)] at hA
      exact hA
    · split
      · rename_i h
        have hws : isWs c = true := by
          rcases (by simpa using h : c = '\n' ∨ c = '\r') with rfl | rfl <;> decide
        simp only [munge, List.map_cons, hws, ↓reduceIte]
        exact (ih 0).cons_sep c ' ' (isWs_sep hws) (by decide)
      · simp only [munge, List.map_cons]
        by_cases hws : isWs c = true
        · simp only [hws, ↓reduceIte]
          exact (ih (n + 1)).cons_sep c ' ' (isWs_sep hws) (by decide)
        · simp only [hws, Bool.false_eq_true, ↓reduceIte]
          cases hs : sep c with
          | true => exact (ih (n + 1)).cons_sep c c hs hs
          | false => exact (ih (n + 1)).cons_nsep c hs

theorem words_expand (p : Str) (n : Nat) : words (munge (expandtabs p n)) = words p :=
  (segRel_expand p n).words_eq.symm

theorem words_textwrap (w : Nat) (p : Str) : (textwrap w p).flatMap words = words p := by
  unfold textwrap
  rw [wrapChunks_words _ _ _ (splitChunks_bok _), ← Bok.flatMap_words _ (splitChunks_bok _),
    splitChunks_flatten, words_expand]

theorem words_orEmptyLine (ls : List Str) : (orEmptyLine ls).flatMap words = ls.flatMap words := by
  unfold orEmptyLine; split <;> simp [words_nil]

theorem words_splitlinesAux (s cur : Str) :
    (splitlinesAux s cur).flatMap words = words (cur.reverse ++ s) := by
  fun_induction splitlinesAux s cur with
  | case1 cur h =>
    have : cur = [] := by simpa using h
    subst this; simp [words_nil]
  | case2 cur h => simp
  | case3 c cur h =>
    have : sep c = true := by simp [sep, h]
    simp [words_concat_sep _ _ this]
  | case4 c cur h => simp
  | case5 c d rest cur h ih =>
    have h' : c = '\r' ∧ d = '\n' := by simpa using h
    obtain ⟨rfl, rfl⟩ := h'
    rw [List.flatMap_cons, ih,
      words_append_sep _ _ _ (show sep '\r' = true by decide),
      words_sep_cons _ _ (show sep '\n' = true by decide)]
    simp
  | case6 c d rest cur h hb ih =>
    have : sep c = true := by simp [sep, hb]
    rw [List.flatMap_cons, ih, words_append_sep _ _ _ this]
    simp
  | case7 c d rest cur h hb ih =>
    rw [ih]; simp

/-- **words are preserved whole and in order** by `diagnostic.wrap`'s line list -/
theorem words_wrapLines (text : Str) (w : Nat) : (wrapLines text w).flatMap words = words text := by
  unfold wrapLines
  have key : ∀ ps : List Str, (ps.flatMap fun p => orEmptyLine (textwrap w p)).flatMap words
      = ps.flatMap words := by
    intro ps
    induction ps with
    | nil => simp
    | cons p ps ih =>
      rw [List.flatMap_cons, List.flatMap_append, ih, List.flatMap_cons, words_orEmptyLine, words_textwrap]
  rw [key, words_orEmptyLine]
  have := words_splitlinesAux text []
  simpa [splitlines] using this

end GuppyVerif.Render
