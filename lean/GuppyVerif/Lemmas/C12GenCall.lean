import GuppyVerif.Model.GenCall
import GuppyVerif.Lemmas.C12CallIff
import GuppyVerif.Lemmas.C12Fuel
/-! Lemmas for C12, part 14: soundness of the call-path model (`checkEx`, `checkList`, `synthCall`). -/
namespace GuppyVerif.Unify

theorem Ex.induct {P : Ex → Prop} (val : ∀ a, P (.val a)) (tup : ∀ es, (∀ e ∈ es, P e) → P (.tup es)) :
    ∀ e, P e := by
  intro e
  refine Ex.rec (motive_1 := P) (motive_2 := fun es => ∀ e ∈ es, P e) val ?_ ?_ ?_ e
  · intro es ih; exact tup es ih
  · intro e he; cases he
  · intro e es ihe ihes b hb
    cases hb with
    | head => exact ihe
    | tail _ h => exact ihes b h

/-- pointwise relation of two lists of equal length -/
inductive All2 {α β : Type} (R : α → β → Prop) : List α → List β → Prop
  | nil : All2 R [] []
  | cons {a : α} {b : β} {as : List α} {bs : List β} : R a b → All2 R as bs → All2 R (a :: as) (b :: bs)

/-- every synthesised type inside the expression is free of inference variables -/
def Ex.Closed : Ex → Prop := fun e => e.synth.vars = []

theorem synthList_eq (es : List Ex) : synthList es = es.map (fun e => Tm.targ e.synth) := by
  induction es with
  | nil => rfl
  | cons e es ih => simp [synthList, ih]

theorem Ex.Closed.tup {es : List Ex} (h : (Ex.tup es).Closed) : ∀ e ∈ es, e.Closed := by
  intro e he
  unfold Ex.Closed at *
  simp only [Ex.synth, Tm.vars, synthList_eq] at h
  have := varsList_nil h (.targ e.synth) (List.mem_map.mpr ⟨e, he, rfl⟩)
  simpa [Tm.vars] using this

def ClosedImgs (σ : Subst) : Prop := ∀ v u, lookup σ v = some u → u.vars = []

theorem lookup_append (s σ : Subst) (v : V) :
    lookup (s ++ σ) v = match lookup s v with | some u => some u | none => lookup σ v := by
  induction s with
  | nil => rfl
  | cons p s ih =>
    obtain ⟨w, t⟩ := p
    simp only [List.cons_append, lookup_cons]
    split
    · rfl
    · exact ih

/-! ### unification against a closed term produces closed solutions -/

def ClosedFn (u : Tm → Tm → Subst → Res) : Prop :=
  ∀ x y σ σ', u x y σ = .ok σ' → y.vars = [] → ClosedImgs σ → ClosedImgs σ'

theorem loop_closed {u : Tm → Tm → Subst → Res} (hu : ClosedFn u) :
    ∀ (as bs : List Tm) (σ σ' : Subst), unifyArgsLoop u as bs σ = .ok σ' →
      (∀ b ∈ bs, b.vars = []) → ClosedImgs σ → ClosedImgs σ' := by
  intro as
  induction as with
  | nil =>
    intro bs σ σ' h _ hs
    cases bs with
    | nil => simp only [unifyArgsLoop, Res.ok.injEq] at h; subst h; exact hs
    | cons b bs => simp [unifyArgsLoop] at h
  | cons a as ih =>
    intro bs σ σ' h hb hs
    cases bs with
    | nil => simp [unifyArgsLoop] at h
    | cons b bs =>
      cases a <;> cases b <;> simp only [unifyArgsLoop] at h <;> try (exact absurd h (by simp))
      all_goals
        rename_i x y
        cases hres : u x y σ with
        | oof => simp [hres] at h
        | fail => simp [hres] at h
        | ok σ₁ =>
          simp only [hres] at h
          have hy := hb _ (List.mem_cons_self ..)
          simp only [Tm.vars] at hy
          exact ih bs σ₁ σ' h (fun b h' => hb b (by simp [h'])) (hu x y σ σ₁ hres hy hs)

theorem var_closed {u : Tm → Tm → Subst → Res} {o : Subst → V → Tm → Option Bool} (hu : ClosedFn u)
    {v : V} {t : Tm} {σ σ' : Subst} (h : unifyVarWith u o v t σ = .ok σ') (ht : t.vars = [])
    (hs : ClosedImgs σ) : ClosedImgs σ' := by
  have bindCase :
      (match o σ v t with
        | none => Res.oof
        | some true => Res.fail
        | some false => Res.ok ((v, t) :: σ)) = .ok σ' → ClosedImgs σ' := by
    intro hb
    cases ho : o σ v t with
    | none => simp [ho] at hb
    | some b =>
      cases b with
      | true => simp [ho] at hb
      | false =>
        simp only [ho, Res.ok.injEq] at hb
        subst hb
        intro x w hx
        rw [lookup_cons] at hx
        by_cases e : v = x
        · simp only [e, if_true, Option.some.injEq] at hx; subst hx; exact ht
        · simp only [e, if_false] at hx; exact hs x w hx
  unfold unifyVarWith at h
  cases hl : lookup σ v with
  | some sv => simp only [hl] at h; exact hu _ _ _ _ h ht hs
  | none =>
    simp only [hl] at h
    cases t with
    | var w => simp [Tm.vars] at ht
    | atom a => exact bindCase h
    | node hd as => exact bindCase h
    | targ x => exact bindCase h
    | carg x => exact bindCase h

theorem unify_closed (E : Env) : ∀ n, ClosedFn (unify E n) := by
  intro n
  induction n with
  | zero => intro x y σ σ' h; simp [unify] at h
  | succ n ih =>
    intro s t σ σ' h ht hs
    rw [unify_succ] at h
    cases hsh : shape E s t with
    | same => simp only [hsh, runShape, Res.ok.injEq] at h; subst h; exact hs
    | fail => simp [hsh, runShape] at h
    | viaVar v t' =>
      simp only [hsh, runShape] at h
      obtain ⟨_, hc⟩ := shape_viaVar hsh
      cases hc with
      | inl e => obtain ⟨rfl, rfl⟩ := e; exact var_closed ih h ht hs
      | inr e => obtain ⟨rfl, rfl⟩ := e; simp [Tm.vars] at ht
    | viaArgs as bs =>
      simp only [hsh, runShape] at h
      obtain ⟨h₁, h₂, rfl, rfl, _⟩ := shape_viaArgs hsh
      unfold unifyArgsWith at h
      split at h
      · cases h
      · simp only [Tm.vars] at ht
        exact loop_closed ih as bs σ σ' h (varsList_nil ht) hs

/-! ### one pass of a substitution with closed solutions -/

theorem asFun_solves_closed {σ : Subst} (h : ClosedImgs σ) : Solves (asFun σ) σ := by
  intro v u hv
  unfold FlagEq
  have : inst (asFun σ) u = u := inst_id_of u _ (fun y hy => by rw [h v u hv] at hy; cases hy)
  rw [this]
  simp [asFun, hv]

theorem vars_apply_closed {σ : Subst} (h : ClosedImgs σ) {p : Tm} {z : V} (hz : z ∈ (apply σ p).vars) :
    lookup σ z = none ∧ z ∈ p.vars := by
  obtain ⟨y, hy, hzy⟩ := mem_vars_inst (θ := asFun σ) p hz
  unfold asFun at hzy
  cases hl : lookup σ y with
  | some u => rw [hl] at hzy; simp only [] at hzy; rw [h y u hl] at hzy; cases hzy
  | none => rw [hl] at hzy; simp [Tm.vars] at hzy; subst hzy; exact ⟨hl, hy⟩

theorem apply_closed_term (σ : Subst) {p : Tm} (h : p.vars = []) : apply σ p = p :=
  inst_id_of p _ (fun y hy => by rw [h] at hy; cases hy)

theorem apply_append {s σ : Subst} (hσ : ClosedImgs σ) (hd : ∀ v, lookup s v ≠ none → lookup σ v = none) (p : Tm) :
    apply (s ++ σ) p = apply s (apply σ p) := by
  unfold apply
  rw [inst_inst]
  apply inst_congr
  intro v _
  unfold asFun
  rw [lookup_append]
  cases hs : lookup s v with
  | some u =>
    simp only []
    rw [hd v (by rw [hs]; simp)]
    simp [inst, asFun, hs]
  | none =>
    simp only []
    cases hl : lookup σ v with
    | some w => simp only []; exact (inst_id_of w _ (fun y hy => by rw [hσ v w hl] at hy; cases hy)).symm
    | none => simp [inst, asFun, hs]

theorem closed_of_flagEq {a b : Tm} (h : FlagEq a b) (hb : b.vars = []) : a.vars = [] := by
  unfold FlagEq at h
  rw [← vars_erase, h, vars_erase, hb]

/-! ### `check` is sound -/

structure CkOk (s : Subst) (ty target : Tm) : Prop where
  closed : ClosedImgs s
  keys : ∀ v, lookup s v ≠ none → v ∈ ty.vars
  eq : FlagEq (apply s ty) target

theorem unifyT_sound (E : Env) {ty a : Tm} {s : Subst} (ha : a.vars = []) (h : unifyT E ty a [] = .ok s) :
    CkOk s ty a := by
  unfold unifyT at h
  have hc : ClosedImgs s := unify_closed E _ ty a [] s h ha (fun _ _ h' => by simp [lookup] at h')
  have g := unify_good E _ ty a [] s h
  refine ⟨hc, ?_, ?_⟩
  · intro v hv
    obtain ⟨p, _⟩ := unify_prog E (ty.vars ++ a.vars) _ ty a [] s h (fun y hy => by simp [hy])
      (fun y hy => by simp [hy]) (fun _ _ h' => by simp [lookup] at h')
    cases p.keys v hv with
    | inl h' => simp [lookup] at h'
    | inr h' => rw [ha] at h'; simpa using h'
  · have := g.eq (asFun s) (asFun_solves_closed hc)
    have e : inst (asFun s) a = a := inst_id_of a _ (fun y hy => by rw [ha] at hy; cases hy)
    rw [e] at this
    exact this

theorem payloads_eq : ∀ {args tys : List Tm}, payloads args = some tys → args = tys.map Tm.targ := by
  intro args
  induction args with
  | nil => intro tys h; simp [payloads] at h; subst h; rfl
  | cons a as ih =>
    intro tys h
    cases a <;> simp only [payloads] at h <;> try (cases h; done)
    rename_i x
    cases hp : payloads as with
    | none => simp [hp] at h
    | some l => simp only [hp, Option.map, Option.some.injEq] at h; subst h; simp [ih hp]

/-- what a successful `checkList` establishes -/
structure CkListOk (σ₀ σ : Subst) (es : List Ex) (ps : List Tm) : Prop where
  closed : ClosedImgs σ
  keys : ∀ v, lookup σ v ≠ none → lookup σ₀ v ≠ none ∨ ∃ p ∈ ps, v ∈ p.vars
  ext : ∀ v u, lookup σ₀ v = some u → lookup σ v = some u
  eq : All2 (fun e p => FlagEq (apply σ p) e.synth) es ps

theorem checkList_sound_of (E : Env) : ∀ (es : List Ex),
    (∀ e ∈ es, ∀ ty s, e.Closed → checkEx E e ty = .ok s → CkOk s ty e.synth) →
    ∀ (ps : List Tm) (σ₀ σ : Subst), (∀ e ∈ es, e.Closed) → ClosedImgs σ₀ →
      checkList E es ps σ₀ = .ok σ → CkListOk σ₀ σ es ps := by
  intro es
  induction es with
  | nil =>
    intro _ ps σ₀ σ _ h0 h
    cases ps with
    | nil => simp only [checkList, Res.ok.injEq] at h; subst h; exact ⟨h0, fun v hv => Or.inl hv, fun _ _ h' => h', .nil⟩
    | cons p ps => simp [checkList] at h
  | cons e es ih =>
    intro hP ps σ₀ σ hcl h0 h
    cases ps with
    | nil => simp [checkList] at h
    | cons p ps =>
      simp only [checkList] at h
      cases hres : checkEx E e (apply σ₀ p) with
      | oof => simp [hres] at h
      | fail => simp [hres] at h
      | ok s =>
        simp only [hres] at h
        have hecl := hcl e (by simp)
        have ck := hP e (by simp) _ _ hecl hres
        have hdis : ∀ v, lookup s v ≠ none → lookup σ₀ v = none := fun v hv => (vars_apply_closed h0 (ck.keys v hv)).1
        have h1 : ClosedImgs (s ++ σ₀) := by
          intro v u hv
          rw [lookup_append] at hv
          cases hs : lookup s v with
          | some w => rw [hs] at hv; simp only [Option.some.injEq] at hv; subst hv; exact ck.closed v w hs
          | none => rw [hs] at hv; exact h0 v u hv
        have happ := apply_append h0 hdis p
        have heq1 : FlagEq (apply (s ++ σ₀) p) e.synth := by rw [happ]; exact ck.eq
        have hcl1 : (apply (s ++ σ₀) p).vars = [] := closed_of_flagEq heq1 hecl
        have r := ih (fun e' he' => hP e' (by simp [he'])) ps (s ++ σ₀) σ (fun e' he' => hcl e' (by simp [he'])) h1 h
        refine ⟨r.closed, ?_, ?_, ?_⟩
        · intro v hv
          cases r.keys v hv with
          | inl h' =>
            rw [lookup_append] at h'
            cases hs : lookup s v with
            | some w =>
              have := (vars_apply_closed h0 (ck.keys v (by rw [hs]; simp))).2
              exact Or.inr ⟨p, by simp, this⟩
            | none => rw [hs] at h'; exact Or.inl h'
          | inr h' => obtain ⟨q, hq, hv'⟩ := h'; exact Or.inr ⟨q, by simp [hq], hv'⟩
        · intro v u hv
          apply r.ext
          rw [lookup_append]
          cases hs : lookup s v with
          | some w => have := hdis v (by rw [hs]; simp); rw [this] at hv; cases hv
          | none => exact hv
        · refine .cons ?_ r.eq
          have : apply σ p = apply (s ++ σ₀) p := by
            unfold apply
            apply inst_congr
            intro y hy
            -- every variable of `p` is bound in `s ++ σ₀` (its instance is closed), and `σ` extends that
            cases hl : lookup (s ++ σ₀) y with
            | none =>
              have : y ∈ (apply (s ++ σ₀) p).vars :=
                mem_vars_inst' (θ := asFun (s ++ σ₀)) p hy (by simp [asFun, hl, Tm.vars])
              rw [hcl1] at this; cases this
            | some w => simp [asFun, hl, r.ext y w hl]
          rw [this]; exact heq1

theorem all2_map {σ : Subst} {es : List Ex} {tys : List Tm}
    (h : All2 (fun e p => FlagEq (apply σ p) e.synth) es tys) :
    tys.map (fun p => erase (inst (asFun σ) (Tm.targ p))) = es.map (fun e => erase (Tm.targ e.synth)) := by
  induction h with
  | nil => rfl
  | cons hh _ iht =>
    simp only [List.map_cons, List.cons.injEq]
    refine ⟨?_, iht⟩
    simp only [inst, erase]
    unfold FlagEq apply at hh
    rw [hh]

theorem checkEx_sound (E : Env) : ∀ (e : Ex) (ty : Tm) (s : Subst), e.Closed → checkEx E e ty = .ok s →
    CkOk s ty e.synth := by
  intro e
  induction e using Ex.induct with
  | val a => intro ty s hc h; simp only [checkEx] at h; exact unifyT_sound E hc h
  | tup es ih =>
    intro ty s hc h
    cases ty with
    | var v =>
      simp only [checkEx, Res.ok.injEq] at h
      subst h
      refine ⟨?_, ?_, ?_⟩
      · intro x w hx
        rw [lookup_cons] at hx
        by_cases e : v = x
        · simp only [e, if_true, Option.some.injEq] at hx; subst hx; exact hc
        · simp [e, lookup] at hx
      · intro x hx
        rw [lookup_cons] at hx
        by_cases e : v = x
        · subst e; simp [Tm.vars]
        · simp [e, lookup] at hx
      · simp [apply, inst, asFun, lookup_cons, Ex.synth, FlagEq]
    | atom a => simp [checkEx] at h
    | targ x => simp [checkEx] at h
    | carg x => simp [checkEx] at h
    | node hd args =>
      cases hd <;> simp only [checkEx] at h <;> try (cases h; done)
      cases hp : payloads args with
      | none => simp [hp] at h
      | some tys =>
        simp only [hp] at h
        split at h
        · cases h
        · have r := checkList_sound_of E es (fun e he => ih e he) tys [] s hc.tup
            (fun _ _ h' => by simp [lookup] at h') h
          have hargs := payloads_eq hp
          subst hargs
          refine ⟨r.closed, ?_, ?_⟩
          · intro v hv
            cases r.keys v hv with
            | inl h' => simp [lookup] at h'
            | inr h' =>
              obtain ⟨q, hq, hv'⟩ := h'
              simp only [Tm.vars]
              exact mem_varsList.mpr ⟨.targ q, List.mem_map.mpr ⟨q, hq, rfl⟩, by simpa [Tm.vars] using hv'⟩
          · unfold FlagEq
            simp only [apply, inst, erase, Ex.synth, instList_eq, eraseList_eq, synthList_eq, List.map_map]
            congr 1
            simpa [Function.comp_def] using all2_map r.eq

/-! ### closed left-hand side (expected return type against the unquantified return type) -/

def ClosedFn2 (u : Tm → Tm → Subst → Res) : Prop :=
  ∀ x y σ σ', u x y σ = .ok σ' → x.vars = [] → ClosedImgs σ → ClosedImgs σ'

theorem loop_closed2 {u : Tm → Tm → Subst → Res} (hu : ClosedFn2 u) :
    ∀ (as bs : List Tm) (σ σ' : Subst), unifyArgsLoop u as bs σ = .ok σ' →
      (∀ a ∈ as, a.vars = []) → ClosedImgs σ → ClosedImgs σ' := by
  intro as
  induction as with
  | nil =>
    intro bs σ σ' h _ hs
    cases bs with
    | nil => simp only [unifyArgsLoop, Res.ok.injEq] at h; subst h; exact hs
    | cons b bs => simp [unifyArgsLoop] at h
  | cons a as ih =>
    intro bs σ σ' h ha hs
    cases bs with
    | nil => simp [unifyArgsLoop] at h
    | cons b bs =>
      cases a <;> cases b <;> simp only [unifyArgsLoop] at h <;> try (exact absurd h (by simp))
      all_goals
        rename_i x y
        cases hres : u x y σ with
        | oof => simp [hres] at h
        | fail => simp [hres] at h
        | ok σ₁ =>
          simp only [hres] at h
          have hx := ha _ (List.mem_cons_self ..)
          simp only [Tm.vars] at hx
          exact ih bs σ₁ σ' h (fun a h' => ha a (by simp [h'])) (hu x y σ σ₁ hres hx hs)

theorem unify_closed2 (E : Env) : ∀ n, ClosedFn2 (unify E n) := by
  intro n
  induction n with
  | zero => intro x y σ σ' h; simp [unify] at h
  | succ n ih =>
    intro s t σ σ' h hsv hs
    rw [unify_succ] at h
    cases hsh : shape E s t with
    | same => simp only [hsh, runShape, Res.ok.injEq] at h; subst h; exact hs
    | fail => simp [hsh, runShape] at h
    | viaVar v t' =>
      simp only [hsh, runShape] at h
      obtain ⟨_, hc⟩ := shape_viaVar hsh
      cases hc with
      | inl e => obtain ⟨rfl, rfl⟩ := e; simp [Tm.vars] at hsv
      | inr e => obtain ⟨rfl, rfl⟩ := e; exact var_closed (unify_closed E n) h hsv hs
    | viaArgs as bs =>
      simp only [hsh, runShape] at h
      obtain ⟨h₁, h₂, rfl, rfl, _⟩ := shape_viaArgs hsh
      unfold unifyArgsWith at h
      split at h
      · cases h
      · simp only [Tm.vars] at hsv
        exact loop_closed2 ih as bs σ σ' h (varsList_nil hsv) hs

/-! ### `synthesize_call` / `check_call` -/

theorem all2_map_right {α β γ : Type} {R : α → γ → Prop} (f : β → γ) : ∀ {as : List α} {bs : List β},
    All2 R as (bs.map f) → All2 (fun a b => R a (f b)) as bs := by
  intro as
  induction as with
  | nil => intro bs h; cases bs with | nil => exact .nil | cons _ _ => cases h
  | cons a as ih =>
    intro bs h
    cases bs with
    | nil => cases h
    | cons b bs => cases h with | cons h1 h2 => exact .cons h1 (ih h2)

theorem all2_length {α β : Type} {R : α → β → Prop} {as : List α} {bs : List β} (h : All2 R as bs) :
    as.length = bs.length := by
  induction h with
  | nil => rfl
  | cons _ _ ih => simp [ih]

theorem all2_imp {α β : Type} {R S : α → β → Prop} {as : List α} {bs : List β} (h : All2 R as bs)
    (hi : ∀ a b, R a b → S a b) : All2 S as bs := by
  induction h with
  | nil => exact .nil
  | cons h1 _ ih => exact .cons (hi _ _ h1) ih

theorem all2_imp_mem {α β : Type} {R S : α → β → Prop} {as : List α} {bs : List β} (h : All2 R as bs)
    (hi : ∀ a b, b ∈ bs → R a b → S a b) : All2 S as bs := by
  induction h with
  | nil => exact .nil
  | cons h1 _ ih => exact .cons (hi _ _ (by simp) h1) (ih (fun a b hb => hi a b (by simp [hb])))

theorem vars_instB_closed (ρ : List Tm) (hρ : ∀ r ∈ ρ, r.vars = []) : ∀ t : Tm, t.vars = [] → (instB ρ t).vars = [] := by
  intro t
  induction t using Tm.induct with
  | var v => intro h; simp [Tm.vars] at h
  | atom a =>
    intro _
    cases a with
    | bvar i => simp only [instB]; split <;> first | exact hρ _ (List.getElem_mem _) | rfl
    | cbvar i => simp only [instB]; split <;> first | exact hρ _ (List.getElem_mem _) | rfl
    | num k => rfl
    | none => rfl
    | cval a b => rfl
  | node h as ih =>
    intro hv
    simp only [Tm.vars] at hv
    have hn := varsList_nil hv
    simp only [instB, Tm.vars, instBList_eq, varsList_eq, List.flatMap_map]
    apply List.flatMap_eq_nil_iff.mpr
    intro a ha
    exact ih a ha (hn a ha)
  | targ t ih => intro hv; simpa [instB, Tm.vars] using ih (by simpa [Tm.vars] using hv)
  | carg t ih => intro hv; simpa [instB, Tm.vars] using ih (by simpa [Tm.vars] using hv)

/-- what an accepted call establishes (synthesis part) -/
structure CallOk (E : Env) (sg : Sig) (fresh : List V) (es : List Ex) (ins : List Tm) (ret : Tm) : Prop where
  len : ins.length = fresh.length
  closed : ∀ t ∈ ins, t.vars = []
  bounds : boundsOk E sg.bounds ins = true
  fits : All2 (fun e p => FlagEq (instB ins p) e.synth) es sg.inputs
  ret : ret = instB ins sg.out

theorem finishCall_sound (E : Env) (sg : Sig) (fresh : List V) (es : List Ex) (σ₀ : Subst) (ins : List Tm) (ret : Tm)
    (hin : ∀ a ∈ sg.inputs, a.vars = []) (hout : sg.out.vars = []) (hes : ∀ e ∈ es, e.Closed)
    (h0 : ClosedImgs σ₀) (h : finishCall E sg fresh es σ₀ = .accept ins ret) :
    CallOk E sg fresh es ins ret ∧
      ∃ σ, ClosedImgs σ ∧ (∀ v u, lookup σ₀ v = some u → lookup σ v = some u) ∧
        ret = apply σ (instB (fresh.map .var) sg.out) := by
  simp only [finishCall] at h
  cases hc : checkList E es (sg.inputs.map (instB (fresh.map .var))) σ₀ with
  | oof => simp [hc] at h
  | fail => simp [hc] at h
  | ok σ =>
    simp only [hc] at h
    split at h
    · cases h
    · split at h
      · cases h
      · rename_i hall
        split at h
        · rename_i hb
          simp only [CallOut.accept.injEq] at h
          obtain ⟨hi, hr⟩ := h
          have r := checkList_sound_of E es (fun e _ ty s => checkEx_sound E e ty s) _ σ₀ σ hes h0 hc
          have hθ : ∀ t : Tm, t.vars = [] → apply σ (instB (fresh.map .var) t) = instB ins t := by
            intro t ht
            unfold apply
            rw [inst_instB (asFun σ) fresh t ht, hi]
          refine ⟨⟨by rw [← hi]; simp, ?_, by rw [← hi]; exact hb, ?_, by rw [← hr]; exact hθ _ hout⟩,
            σ, r.closed, r.ext, hr.symm⟩
          · intro t ht
            rw [← hi] at ht
            obtain ⟨f, hf, rfl⟩ := List.mem_map.mp ht
            simp only [Bool.not_eq_true, Bool.not_eq_false', List.all_eq_true] at hall
            have hsome := hall f hf
            unfold asFun
            cases hl : lookup σ f with
            | none => simp [hl] at hsome
            | some u => simp only []; exact r.closed f u hl
          · have := all2_map_right (instB (fresh.map .var)) r.eq
            refine all2_imp_mem this ?_
            intro e p hpm hp
            rw [hθ p (hin p hpm)] at hp
            exact hp
        · cases h

end GuppyVerif.Unify
