import GuppyVerif.Lemmas.C27
/-! Helper lemmas for C27 (PriorityQueue).

Two-layer refinement.  Layer 1 (`RepH`, `siftUp_refines`, `pickChild_refines`, `siftDown_refines`,
`PQRep.push_ok`, `PQRep.pop_ok`): on a buffer that represents an entry list `a` (possibly with
taken cells = holes), the concrete `Except` loops of `Model/Coll.lean` succeed and compute the pure
loops `siftUpP` / `siftDownP` on `a`.  Layer 2 (`siftUpP_heap`, `siftDownP_heap`, `…_perm`): the pure
loops restore heap order and permute the entries. -/
namespace GuppyVerif.Coll
variable {β : Type}

/-- representation with holes: cells whose index is in `H` have been taken (`nothing`), the
    others are as in `Rep`.  The value of `a` at a hole is irrelevant. -/
def RepH (cap : Nat) (buf : List (Option β)) (a : List β) (H : List Nat) : Prop :=
  buf.length = cap ∧ a.length ≤ cap ∧ ∀ j, j < cap → buf[j]? = some (if j ∈ H then none else a[j]?)

theorem repH_nil {cap : Nat} {buf : List (Option β)} {a : List β} : RepH cap buf a [] ↔ Rep cap buf a := by
  simp [RepH, Rep]

theorem RepH.congr {cap : Nat} {buf : List (Option β)} {a : List β} {H H' : List Nat}
    (h : RepH cap buf a H) (hH : ∀ j, j ∈ H ↔ j ∈ H') : RepH cap buf a H' := by
  refine ⟨h.1, h.2.1, fun j hj => ?_⟩
  rw [h.2.2 j hj]
  simp [hH j]

theorem RepH.take {cap : Nat} {buf : List (Option β)} {a : List β} {H : List Nat} {i : Nat} {x : β}
    (h : RepH cap buf a H) (hi : a[i]? = some x) (hH : i ∉ H) :
    takeUnwrap buf i = .ok (x, buf.set i none) ∧ RepH cap (buf.set i none) a (i :: H) := by
  obtain ⟨h1, h2, h3⟩ := h
  have hil : i < a.length := (List.getElem?_eq_some_iff.mp hi).1
  have hg : buf[i]? = some (some x) := by rw [h3 i (by omega)]; simp [hH, hi]
  refine ⟨takeUnwrap_of_get hg, by simpa using h1, h2, fun j hj => ?_⟩
  rw [List.getElem?_set]
  by_cases e : i = j
  · subst e; simp [h1]; omega
  · have e' : ¬ j = i := fun h => e h.symm
    simp only [e, if_false, List.mem_cons, e', false_or]
    exact h3 j hj

theorem RepH.put {cap : Nat} {buf : List (Option β)} {a : List β} {H : List Nat} {i : Nat} (x : β)
    (h : RepH cap buf a H) (hi : i < a.length) (hH : i ∈ H) :
    put buf i x = .ok (buf.set i (some x)) ∧
      RepH cap (buf.set i (some x)) (a.set i x) (H.filter (· ≠ i)) := by
  obtain ⟨h1, h2, h3⟩ := h
  have hg : buf[i]? = some none := by rw [h3 i (by omega)]; simp [hH]
  refine ⟨put_of_get hg, by simpa using h1, by simpa using h2, fun j hj => ?_⟩
  rw [List.getElem?_set, List.getElem?_set]
  by_cases e : i = j
  · subst e; simp [h1, hi]; omega
  · have e' : ¬ j = i := fun h => e h.symm
    simp only [e, if_false]
    rw [h3 j hj]
    simp [e']

/-- the content of `a` at a hole is irrelevant -/
theorem RepH.set_hole {cap : Nat} {buf : List (Option β)} {a : List β} {H : List Nat} {i : Nat} (z : β)
    (h : RepH cap buf a H) (hH : i ∈ H) : RepH cap buf (a.set i z) H := by
  obtain ⟨h1, h2, h3⟩ := h
  refine ⟨h1, by simpa using h2, fun j hj => ?_⟩
  rw [h3 j hj, List.getElem?_set]
  by_cases e : i = j
  · subst e; simp [hH]
  · simp [e]

/-- a hole in the last position can be dropped from the list -/
theorem RepH.dropLast {cap : Nat} {buf : List (Option β)} {a : List β} {H : List Nat}
    (h : RepH cap buf a H) (hH : a.length - 1 ∈ H) : RepH cap buf a.dropLast (H.filter (· ≠ a.length - 1)) := by
  obtain ⟨h1, h2, h3⟩ := h
  refine ⟨h1, by simp; omega, fun j hj => ?_⟩
  rw [h3 j hj]
  by_cases e : j = a.length - 1
  · subst e; simp [hH]
  · simp only [List.mem_filter, ne_eq, e, not_false_eq_true, decide_true, and_true]
    by_cases hm : j ∈ H
    · simp [hm]
    · simp only [hm, if_false]
      rw [List.getElem?_dropLast]  
      by_cases hl : j < a.length - 1
      · simp [hl]
      · simp [hl]; omega

variable {α : Type}

/-- priority stored at index `j` (0 beyond the end; only used at valid indices) -/
def pr (a : List (Int × α)) (j : Nat) : Int := match a[j]? with | some x => x.1 | none => 0

theorem pr_of_get {a : List (Int × α)} {j : Nat} {x : Int × α} (h : a[j]? = some x) : pr a j = x.1 := by
  simp [pr, h]

theorem pr_set (a : List (Int × α)) (i j : Nat) (x : Int × α) (hi : i < a.length) :
    pr (a.set i x) j = if i = j then x.1 else pr a j := by
  unfold pr
  rw [List.getElem?_set]
  by_cases h : i = j
  · subst h; simp [hi]
  · simp [h]

def IsHeap (a : List (Int × α)) : Prop := ∀ j, 0 < j → j < a.length → pr a ((j - 1) / 2) ≤ pr a j

/-- pure sift-up on the entry list -/
def siftUpP : Nat → List (Int × α) → Nat → List (Int × α)
  | 0, a, _ => a
  | f + 1, a, i =>
    if i > 0 then
      match a[i]?, a[(i - 1) / 2]? with
      | some x, some y =>
        if x.1 ≥ y.1 then a else siftUpP f ((a.set i y).set ((i - 1) / 2) x) ((i - 1) / 2)
      | _, _ => a
    else a

/-- heap order everywhere except possibly between `i` and its parent; grandparent ≤ children of `i` -/
def HeapExcept (a : List (Int × α)) (i : Nat) : Prop :=
  (∀ j, 0 < j → j < a.length → j ≠ i → pr a ((j - 1) / 2) ≤ pr a j) ∧
  (∀ j, 0 < j → j < a.length → (j - 1) / 2 = i → 0 < i → pr a ((i - 1) / 2) ≤ pr a j)

theorem siftUpP_length (f : Nat) (a : List (Int × α)) (i : Nat) : (siftUpP f a i).length = a.length := by
  induction f generalizing a i with
  | zero => rfl
  | succ f ih =>
    unfold siftUpP
    split
    · split
      · split
        · rfl
        · rw [ih]; simp
      · rfl
    · rfl

theorem siftUpP_heap (f : Nat) : ∀ (a : List (Int × α)) (i : Nat), HeapExcept a i → i < a.length → i < f →
    IsHeap (siftUpP f a i) := by
  induction f with
  | zero => intro a i _ _ h; omega
  | succ f ih =>
    intro a i hex hi hf
    unfold siftUpP
    by_cases h0 : i > 0
    · simp only [h0, if_true]
      have hp : (i - 1) / 2 < a.length := by omega
      have hpi : (i - 1) / 2 < i := by omega
      obtain ⟨x, hx⟩ : ∃ x, a[i]? = some x := ⟨a[i], List.getElem?_eq_getElem hi⟩
      obtain ⟨y, hy⟩ : ∃ y, a[(i - 1) / 2]? = some y := ⟨_, List.getElem?_eq_getElem hp⟩
      rw [hx, hy]
      simp only
      have pri : pr a i = x.1 := pr_of_get hx
      have prp : pr a ((i - 1) / 2) = y.1 := pr_of_get hy
      by_cases hc : x.1 ≥ y.1
      · simp only [hc, if_true]
        intro j hj0 hjl
        by_cases hji : j = i
        · subst hji; rw [pri, prp]; exact hc
        · exact hex.1 j hj0 hjl hji
      · simp only [hc, if_false]
        have hlt : x.1 < y.1 := by omega
        apply ih
        · -- HeapExcept for the swapped list at the parent
          have prs : ∀ j, pr ((a.set i y).set ((i - 1) / 2) x) j =
              if (i - 1) / 2 = j then x.1 else if i = j then y.1 else pr a j := by
            intro j
            rw [pr_set _ _ _ _ (by simpa using hp), pr_set _ _ _ _ hi]
          constructor
          · intro j hj0 hjl hjp
            simp only [List.length_set] at hjl
            rw [prs, prs]
            by_cases e1 : j = i
            · subst e1
              have : ¬ (j - 1) / 2 = j := by omega
              simp [this]; omega
            · have e1' : ¬ i = j := fun h => e1 h.symm
              have e2 : ¬ (i - 1) / 2 = j := fun h => hjp h.symm
              simp only [e1', e2, if_false]
              by_cases e3 : (i - 1) / 2 = (j - 1) / 2
              · -- sibling of i
                simp only [e3, if_true]
                have := hex.1 j hj0 hjl e1
                rw [← e3, prp] at this
                omega
              · simp only [e3, if_false]
                by_cases e4 : i = (j - 1) / 2
                · simp only [e4, if_true]
                  have := hex.2 j hj0 hjl e4.symm h0
                  rw [prp] at this
                  exact this
                · simp only [e4, if_false]
                  exact hex.1 j hj0 hjl e1
          · intro j hj0 hjl hjp hp0
            simp only [List.length_set] at hjl
            rw [prs, prs]
            have e0 : ¬ (i - 1) / 2 = ((i - 1) / 2 - 1) / 2 := by omega
            have e0' : ¬ i = ((i - 1) / 2 - 1) / 2 := by omega
            simp only [e0, e0', if_false]
            have e2 : ¬ (i - 1) / 2 = j := by omega
            simp only [e2, if_false]
            have hgp := hex.1 ((i - 1) / 2) hp0 hp (by omega)
            by_cases e1 : i = j
            · subst e1
              simp only [if_true]
              rw [prp] at hgp; exact hgp
            · simp only [e1, if_false]
              have := hex.1 j hj0 hjl (fun h => e1 h.symm)
              rw [hjp] at this
              omega
        · simpa using hp
        · omega
    · simp only [h0, if_false]
      intro j hj0 hjl
      by_cases hji : j = i
      · omega
      · exact hex.1 j hj0 hjl hji

/-! ### sift-down -/

/-- index of the child the loop of `pop` selects (right child only if strictly smaller) -/
def minChild (b : List (Int × α)) (i : Nat) : Nat :=
  if 2 * i + 2 < b.length then (if pr b (2 * i + 2) < pr b (2 * i + 1) then 2 * i + 2 else 2 * i + 1)
  else 2 * i + 1

/-- pure sift-down with a hole at `i` (the content of `b` at `i` is irrelevant); returns the list
    and the final hole index -/
def siftDownP : Nat → List (Int × α) → Int → Nat → List (Int × α) × Nat
  | 0, b, _, i => (b, i)
  | f + 1, b, d, i =>
    if 2 * i + 1 ≥ b.length then (b, i)
    else match b[minChild b i]? with
      | some e => if d ≤ e.1 then (b, i) else siftDownP f (b.set i e) d (minChild b i)
      | none => (b, i)

def HoleInv (b : List (Int × α)) (i : Nat) (d : Int) : Prop :=
  (∀ j, 0 < j → j < b.length → j ≠ i → (j - 1) / 2 ≠ i → pr b ((j - 1) / 2) ≤ pr b j) ∧
  (0 < i → pr b ((i - 1) / 2) ≤ d) ∧
  (∀ j, 0 < j → j < b.length → (j - 1) / 2 = i → 0 < i → pr b ((i - 1) / 2) ≤ pr b j)

theorem minChild_spec (b : List (Int × α)) (i : Nat) (h : 2 * i + 1 < b.length) :
    (minChild b i = 2 * i + 1 ∨ minChild b i = 2 * i + 2) ∧ minChild b i < b.length ∧
    ∀ j, 0 < j → j < b.length → (j - 1) / 2 = i → pr b (minChild b i) ≤ pr b j := by
  unfold minChild
  by_cases h2 : 2 * i + 2 < b.length
  · simp only [h2, if_true]
    by_cases hc : pr b (2 * i + 2) < pr b (2 * i + 1)
    · simp only [hc, if_true]
      refine ⟨Or.inr (by first | rfl | trivial), h2, fun j hj0 hjl hjp => ?_⟩
      have : j = 2 * i + 1 ∨ j = 2 * i + 2 := by omega
      rcases this with rfl | rfl <;> omega
    · simp only [hc, if_false]
      refine ⟨Or.inl (by first | rfl | trivial), h, fun j hj0 hjl hjp => ?_⟩
      have : j = 2 * i + 1 ∨ j = 2 * i + 2 := by omega
      rcases this with rfl | rfl <;> omega
  · simp only [h2, if_false]
    refine ⟨Or.inl (by first | rfl | trivial), h, fun j hj0 hjl hjp => ?_⟩
    have : j = 2 * i + 1 := by omega
    subst this; omega

theorem siftDownP_heap (f : Nat) : ∀ (b : List (Int × α)) (d : Int) (i : Nat) (e : Int × α), e.1 = d →
    HoleInv b i d → i < b.length → b.length - i ≤ f →
    IsHeap ((siftDownP f b d i).1.set (siftDownP f b d i).2 e) ∧ (siftDownP f b d i).2 < b.length ∧
      (siftDownP f b d i).1.length = b.length := by
  induction f with
  | zero => intro b d i e _ _ hi hf; omega
  | succ f ih =>
    intro b d i e he hinv hi hf
    unfold siftDownP
    by_cases hleaf : 2 * i + 1 ≥ b.length
    · simp only [hleaf, if_true]
      refine ⟨fun j hj0 hjl => ?_, hi, (by first | rfl | trivial)⟩
      simp only [List.length_set] at hjl
      rw [pr_set _ _ _ _ hi, pr_set _ _ _ _ hi]
      have e1 : ¬ i = (j - 1) / 2 := by omega
      simp only [e1, if_false]
      by_cases e2 : i = j
      · subst e2; simp only [if_true]; rw [he]; exact hinv.2.1 hj0
      · simp only [e2, if_false]
        exact hinv.1 j hj0 hjl (fun h => e2 h.symm) (fun h => e1 h.symm)
    · simp only [hleaf, if_false]
      have hl : 2 * i + 1 < b.length := by omega
      obtain ⟨hcases, hclt, hcmin⟩ := minChild_spec b i hl
      obtain ⟨c, hc⟩ : ∃ c, b[minChild b i]? = some c := ⟨_, List.getElem?_eq_getElem hclt⟩
      have prc : pr b (minChild b i) = c.1 := pr_of_get hc
      rw [hc]
      simp only
      by_cases hle : d ≤ c.1
      · simp only [hle, if_true]
        refine ⟨fun j hj0 hjl => ?_, hi, (by first | rfl | trivial)⟩
        simp only [List.length_set] at hjl
        rw [pr_set _ _ _ _ hi, pr_set _ _ _ _ hi]
        by_cases e1 : i = (j - 1) / 2
        · have e2 : ¬ i = j := by omega
          simp only [e1, if_true]
          have := hcmin j hj0 hjl e1.symm
          rw [he]; omega
        · simp only [e1, if_false]
          by_cases e2 : i = j
          · subst e2; simp only [if_true]; rw [he]; exact hinv.2.1 hj0
          · simp only [e2, if_false]
            exact hinv.1 j hj0 hjl (fun h => e2 h.symm) (fun h => e1 h.symm)
      · simp only [hle, if_false]
        have hgt : c.1 < d := by omega
        have hci : i < minChild b i := by omega
        have hcpar : (minChild b i - 1) / 2 = i := by omega
        have key := ih (b.set i c) d (minChild b i) e he ?_ (by simpa using hclt) (by simp; omega)
        · simpa using key
        · -- HoleInv for the new hole
          have prs : ∀ j, pr (b.set i c) j = if i = j then c.1 else pr b j := fun j => pr_set _ _ _ _ hi
          refine ⟨fun j hj0 hjl hjc hjpc => ?_, fun _ => ?_, fun j hj0 hjl hjp _ => ?_⟩
          · simp only [List.length_set] at hjl
            rw [prs, prs]
            by_cases e1 : i = (j - 1) / 2
            · have e2 : ¬ i = j := by omega
              simp only [e1, if_true]
              have := hcmin j hj0 hjl e1.symm
              omega
            · simp only [e1, if_false]
              by_cases e2 : i = j
              · subst e2
                simp only [if_true]
                have := hinv.2.2 (minChild b i) (by omega) hclt hcpar hj0
                omega
              · simp only [e2, if_false]
                exact hinv.1 j hj0 hjl (fun h => e2 h.symm) (fun h => e1 h.symm)
          · rw [prs, hcpar]; simp only [if_true]; omega
          · simp only [List.length_set] at hjl
            rw [prs, prs, hcpar]
            have e2 : ¬ i = j := by omega
            simp only [if_true, e2, if_false]
            have := hinv.1 j hj0 hjl (by omega) (by omega)
            rw [hjp, prc] at this
            exact this

/-! ### refinement of the concrete loops to the pure ones -/

theorem siftUp_refines {cap : Nat} (f : Nat) : ∀ (buf : List (Option (Int × α))) (a : List (Int × α)) (i : Nat),
    Rep cap buf a → i < a.length → i < f →
    ∃ buf', PQ.siftUp f buf i = .ok buf' ∧ Rep cap buf' (siftUpP f a i) := by
  induction f with
  | zero => intro _ _ i _ _ h; omega
  | succ f ih =>
    intro buf a i hrep hi hf
    unfold PQ.siftUp siftUpP
    by_cases h0 : i > 0
    · simp only [h0, if_true]
      have hp : (i - 1) / 2 < a.length := by omega
      have hpi : (i - 1) / 2 ≠ i := by omega
      obtain ⟨⟨xp, xv⟩, hx⟩ : ∃ x, a[i]? = some x := ⟨a[i], List.getElem?_eq_getElem hi⟩
      obtain ⟨⟨yp, yv⟩, hy⟩ : ∃ y, a[(i - 1) / 2]? = some y := ⟨_, List.getElem?_eq_getElem hp⟩
      rw [hx, hy]
      simp only
      obtain ⟨t1, r1⟩ := (repH_nil.mpr hrep).take hx (by simp)
      obtain ⟨t2, r2⟩ := r1.take hy (by simpa using hpi)
      simp only [t1, t2, bind, Except.bind]
      by_cases hc : xp ≥ yp
      · simp only [hc, if_true]
        obtain ⟨p1, r3⟩ := r2.put (xp, xv) hi (by simp)
        obtain ⟨p2, r4⟩ := r3.put (yp, yv) (by simpa using hp) (by simp [hpi])
        simp only [p1, p2]
        refine ⟨_, rfl, ?_⟩
        have e1 : a.set i (xp, xv) = a := by
          rw [← (List.getElem?_eq_some_iff.mp hx).2]; exact List.set_getElem_self _
        have e2 : a.set ((i - 1) / 2) (yp, yv) = a := by
          rw [← (List.getElem?_eq_some_iff.mp hy).2]; exact List.set_getElem_self _
        rw [e1, e2] at r4
        exact repH_nil.mp (r4.congr (by intro j; simp))
      · simp only [hc, if_false]
        obtain ⟨p1, r3⟩ := r2.put (yp, yv) hi (by simp)
        obtain ⟨p2, r4⟩ := r3.put (xp, xv) (by simpa using hp) (by simp [hpi])
        simp only [p1, p2]
        have r5 := repH_nil.mp (r4.congr (H' := []) (by intro j; simp))
        exact ih _ _ _ r5 (by simpa using hp) (by omega)
    · simp only [h0, if_false]
      exact ⟨buf, rfl, hrep⟩

theorem pickChild_refines {cap : Nat} {buf : List (Option (Int × α))} {b : List (Int × α)} {i : Nat}
    {c : Int × α} (h : RepH cap buf b [i]) (hl : 2 * i + 1 < b.length) (hc : b[minChild b i]? = some c) :
    ∃ buf', PQ.pickChild buf b.length (2 * i + 1) = .ok (minChild b i, c, buf') ∧
      RepH cap buf' b [minChild b i, i] := by
  unfold PQ.pickChild
  obtain ⟨⟨lp, lv⟩, hlft⟩ : ∃ x, b[2 * i + 1]? = some x := ⟨_, List.getElem?_eq_getElem hl⟩
  by_cases h2 : 2 * i + 1 + 1 < b.length
  · simp only [h2, if_true]
    obtain ⟨⟨rp, rv⟩, hrgt⟩ : ∃ x, b[2 * i + 1 + 1]? = some x := ⟨_, List.getElem?_eq_getElem h2⟩
    obtain ⟨t1, r1⟩ := h.take hlft (by simp; omega)
    obtain ⟨t2, r2⟩ := r1.take hrgt (by simp; omega)
    simp only [t1, t2, bind, Except.bind]
    have prl : pr b (2 * i + 1) = lp := pr_of_get hlft
    have prr : pr b (2 * i + 2) = rp := pr_of_get hrgt
    have h2' : 2 * i + 2 < b.length := h2
    by_cases hlt : rp < lp
    · have hm : minChild b i = 2 * i + 2 := by simp [minChild, h2', prl, prr, hlt]
      simp only [hlt, if_true]
      obtain ⟨p1, r3⟩ := r2.put (lp, lv) hl (by simp)
      have e1 : b.set (2 * i + 1) (lp, lv) = b := by
        rw [← (List.getElem?_eq_some_iff.mp hlft).2]; exact List.set_getElem_self _
      rw [e1] at r3
      rw [hm] at hc ⊢
      have : c = (rp, rv) := by
        have : b[2 * i + 1 + 1]? = some c := hc
        rw [hrgt] at this; exact (Option.some.inj this).symm
      subst this
      simp only [p1, pure, Except.pure]
      exact ⟨_, rfl, r3.congr (by intro j; simp; omega)⟩
    · have hm : minChild b i = 2 * i + 1 := by simp [minChild, h2', prl, prr, hlt]
      simp only [hlt, if_false]
      obtain ⟨p1, r3⟩ := r2.put (rp, rv) h2 (by simp)
      have e1 : b.set (2 * i + 1 + 1) (rp, rv) = b := by
        rw [← (List.getElem?_eq_some_iff.mp hrgt).2]; exact List.set_getElem_self _
      rw [e1] at r3
      rw [hm] at hc ⊢
      have : c = (lp, lv) := by
        rw [hlft] at hc; exact (Option.some.inj hc).symm
      subst this
      simp only [p1, pure, Except.pure]
      exact ⟨_, rfl, r3.congr (by intro j; simp; omega)⟩
  · have h2' : ¬ 2 * i + 2 < b.length := h2
    have hm : minChild b i = 2 * i + 1 := by simp [minChild, h2']
    simp only [h2, if_false]
    obtain ⟨t1, r1⟩ := h.take hlft (by simp; omega)
    rw [hm] at hc ⊢
    have : c = (lp, lv) := by
      rw [hlft] at hc; exact (Option.some.inj hc).symm
    subst this
    simp only [t1, bind, Except.bind, pure, Except.pure]
    exact ⟨_, rfl, r1⟩

theorem siftDown_refines {cap : Nat} (f : Nat) : ∀ (buf : List (Option (Int × α))) (b : List (Int × α)) (d : Int)
    (i : Nat), RepH cap buf b [i] → i < b.length → b.length - i ≤ f →
    ∃ buf', PQ.siftDown f buf b.length d i = .ok (buf', (siftDownP f b d i).2) ∧
      RepH cap buf' (siftDownP f b d i).1 [(siftDownP f b d i).2] := by
  induction f with
  | zero => intro _ b _ i _ hi hf; omega
  | succ f ih =>
    intro buf b d i hrep hi hf
    unfold PQ.siftDown siftDownP
    by_cases hleaf : 2 * i + 1 ≥ b.length
    · simp only [hleaf, if_true, bind, Except.bind, pure, Except.pure]
      exact ⟨buf, rfl, hrep⟩
    · simp only [hleaf, if_false]
      have hl : 2 * i + 1 < b.length := by omega
      obtain ⟨hcases, hclt, hcmin⟩ := minChild_spec b i hl
      obtain ⟨⟨cp, cv⟩, hc⟩ : ∃ c, b[minChild b i]? = some c := ⟨_, List.getElem?_eq_getElem hclt⟩
      obtain ⟨buf1, pk, r1⟩ := pickChild_refines hrep hl hc
      rw [hc]
      simp only [pk, bind, Except.bind]
      have hmi : minChild b i ≠ i := by omega
      by_cases hle : d ≤ cp
      · simp only [hle, if_true]
        obtain ⟨p1, r2⟩ := r1.put (cp, cv) hclt (by simp)
        have e1 : b.set (minChild b i) (cp, cv) = b := by
          rw [← (List.getElem?_eq_some_iff.mp hc).2]; exact List.set_getElem_self _
        rw [e1] at r2
        simp only [p1, pure, Except.pure]
        exact ⟨_, rfl, r2.congr (by intro j; simp; omega)⟩
      · simp only [hle, if_false]
        obtain ⟨p1, r2⟩ := r1.put (cp, cv) hi (by simp)
        simp only [p1]
        have r3 : RepH cap (buf1.set i (some (cp, cv))) (b.set i (cp, cv)) [minChild b i] :=
          r2.congr (by intro j; simp; omega)
        have := ih _ (b.set i (cp, cv)) d (minChild b i) r3 (by simpa using hclt) (by simp; omega)
        simpa using this

/-! ### heap facts -/

theorem IsHeap.root_min {a : List (Int × α)} (h : IsHeap a) : ∀ j, j < a.length → pr a 0 ≤ pr a j := by
  intro j
  induction j using Nat.strongRecOn with
  | _ j ih =>
    intro hj
    by_cases h0 : j = 0
    · subst h0; exact Int.le_refl _
    · have := ih ((j - 1) / 2) (by omega) (by omega)
      have := h j (by omega) hj
      omega

theorem pr_append_left {a : List (Int × α)} {x : Int × α} {j : Nat} (hj : j < a.length) :
    pr (a ++ [x]) j = pr a j := by
  simp [pr, List.getElem?_append_left hj]

theorem heapExcept_snoc {a : List (Int × α)} (h : IsHeap a) (x : Int × α) : HeapExcept (a ++ [x]) a.length := by
  constructor
  · intro j hj0 hjl hne
    simp at hjl
    have hj : j < a.length := by omega
    rw [pr_append_left hj, pr_append_left (by omega)]
    exact h j hj0 hj
  · intro j hj0 hjl hp _
    simp at hjl
    omega

theorem pr_dropLast {a : List (Int × α)} {j : Nat} (hj : j < a.length - 1) : pr a.dropLast j = pr a j := by
  have hj' : j < a.length := by omega
  simp [pr, hj, List.getElem?_eq_getElem hj']

theorem IsHeap.dropLast {a : List (Int × α)} (h : IsHeap a) : IsHeap a.dropLast := by
  intro j hj0 hjl
  simp at hjl
  rw [pr_dropLast hjl, pr_dropLast (by omega)]
  exact h j hj0 (by omega)

theorem holeInv_root {b : List (Int × α)} (h : IsHeap b) (d : Int) : HoleInv b 0 d := by
  refine ⟨fun j hj0 hjl _ _ => h j hj0 hjl, fun h0 => by omega, fun _ _ _ _ h0 => by omega⟩

/-! ### multiset preservation -/

theorem swap_perm' {β : Type} {a : List β} {i j : Nat} {x y : β} (hx : a[i]? = some x) (hy : a[j]? = some y) :
    ((a.set i y).set j x).Perm a := by
  obtain ⟨hi, rfl⟩ := List.getElem?_eq_some_iff.mp hx
  obtain ⟨hj, rfl⟩ := List.getElem?_eq_some_iff.mp hy
  exact List.set_set_perm hi hj

theorem siftUpP_perm (f : Nat) : ∀ (a : List (Int × α)) (i : Nat), (siftUpP f a i).Perm a := by
  induction f with
  | zero => intro a i; exact List.Perm.refl _
  | succ f ih =>
    intro a i
    unfold siftUpP
    split
    · split
      · rename_i x y hx hy
        split
        · exact List.Perm.refl _
        · exact (ih _ _).trans (swap_perm' hx hy)
      · exact List.Perm.refl _
    · exact List.Perm.refl _

theorem siftDownP_perm (f : Nat) : ∀ (b : List (Int × α)) (d : Int) (i : Nat) (e : Int × α), i < b.length →
    ((siftDownP f b d i).1.set (siftDownP f b d i).2 e).Perm (b.set i e) := by
  induction f with
  | zero => intro b d i e _; exact List.Perm.refl _
  | succ f ih =>
    intro b d i e hi
    unfold siftDownP
    split
    · exact List.Perm.refl _
    · rename_i hleaf
      have hl : 2 * i + 1 < b.length := by omega
      obtain ⟨hcases, hclt, _⟩ := minChild_spec b i hl
      split
      · rename_i c hc
        split
        · exact List.Perm.refl _
        · refine (ih (b.set i c) d (minChild b i) e (by simpa using hclt)).trans ?_
          -- (b.set i c).set m e  ~  b.set i e   (swap of positions i and m in `b.set i e`)
          have hne : i ≠ minChild b i := by omega
          have h1 : (b.set i e)[i]? = some e := by simp [hi]
          have h2 : (b.set i e)[minChild b i]? = some c := by
            rw [List.getElem?_set]; simp [hne, hc]
          have := swap_perm' h1 h2
          rw [List.set_set] at this
          exact this
      · exact List.Perm.refl _

theorem siftDownP_bounds (f : Nat) : ∀ (b : List (Int × α)) (d : Int) (i : Nat), i < b.length →
    (siftDownP f b d i).2 < b.length ∧ (siftDownP f b d i).1.length = b.length := by
  induction f with
  | zero => intro b d i hi; exact ⟨hi, rfl⟩
  | succ f ih =>
    intro b d i hi
    unfold siftDownP
    split
    · exact ⟨hi, rfl⟩
    · rename_i hleaf
      have hl : 2 * i + 1 < b.length := by omega
      obtain ⟨_, hclt, _⟩ := minChild_spec b i hl
      split
      · rename_i c hc
        split
        · exact ⟨hi, rfl⟩
        · have := ih (b.set i c) d (minChild b i) (by simpa using hclt)
          simpa using this
      · exact ⟨hi, rfl⟩

/-! ### the queue operations on represented states -/

/-- a queue state represents the entry list `a` (heap array order) -/
def PQRep (cap : Nat) (q : PQ α) (a : List (Int × α)) : Prop := q.size = a.length ∧ Rep cap q.buf a

/-- pure `push` on the entry list -/
def pushP (a : List (Int × α)) (v : α) (p : Int) : List (Int × α) :=
  siftUpP (a.length + 1) (a ++ [(p, v)]) a.length

/-- pure `pop` on the entry list: the remaining entries -/
def popP (a : List (Int × α)) : List (Int × α) :=
  if a.length - 1 = 0 then []
  else match a[a.length - 1]? with
    | some de => ((siftDownP a.length a.dropLast de.1 0).1.set (siftDownP a.length a.dropLast de.1 0).2 de)
    | none => []

theorem PQRep.empty (cap : Nat) : PQRep cap (PQ.empty cap : PQ α) [] := ⟨rfl, Rep.empty cap⟩

theorem PQRep.push_full {cap : Nat} {q : PQ α} {a : List (Int × α)} (h : PQRep cap q a)
    (hl : cap ≤ a.length) (v : α) (p : Int) : q.push cap v p = .error .capacity := by
  have : q.size ≥ cap := by rw [h.1]; exact hl
  simp [PQ.push, this, bind, Except.bind, throw, throwThe, MonadExceptOf.throw]

theorem PQRep.push_ok {cap : Nat} {q : PQ α} {a : List (Int × α)} (h : PQRep cap q a)
    (hl : a.length < cap) (v : α) (p : Int) :
    ∃ q', q.push cap v p = .ok q' ∧ PQRep cap q' (pushP a v p) := by
  obtain ⟨hs, hr⟩ := h
  obtain ⟨hp, hr'⟩ := hr.push hl (p, v)
  obtain ⟨buf', hsu, hr''⟩ := siftUp_refines (a.length + 1) _ _ a.length hr' (by simp) (by omega)
  have : ¬ q.size ≥ cap := by rw [hs]; omega
  refine ⟨⟨buf', q.size + 1⟩, ?_, ?_, hr''⟩
  · simp [PQ.push, hs, hp, hsu, bind, Except.bind, pure, Except.pure]
    omega
  · simp [pushP, siftUpP_length, hs]

theorem PQRep.pop_empty {cap : Nat} {q : PQ α} (h : PQRep cap q []) :
    q.pop = .error .empty ∧ q.peek = .error .empty ∧ q.next = .ok none := by
  obtain ⟨hs, hr⟩ := h
  simp at hs
  refine ⟨?_, ?_, ?_⟩
  · simp [PQ.pop, hs, bind, Except.bind, throw, throwThe, MonadExceptOf.throw]
  · simp [PQ.peek, hs, bind, Except.bind, throw, throwThe, MonadExceptOf.throw]
  · simp [PQ.next, PQ.len, PQ.discardEmpty, hs, hr.nil_eq, allNothing_replicate, bind,
      Except.bind, pure, Except.pure]

theorem PQRep.peek_ok {cap : Nat} {q : PQ α} {a : List (Int × α)} {r : Int × α} (h : PQRep cap q a)
    (hr0 : a[0]? = some r) : q.peek = .ok (r.1, r.2, q) := by
  obtain ⟨hs, hr⟩ := h
  have hl : 0 < a.length := (List.getElem?_eq_some_iff.mp hr0).1
  have h0 : ¬ q.size ≤ 0 := by omega
  have hg : q.buf[0]? = some (some r) := by rw [hr.2.2 0 (by have := hr.2.1; omega), hr0]
  obtain ⟨rp, rv⟩ := r
  simp [PQ.peek, h0, read_of_get hg, unwrap, bind, Except.bind, pure, Except.pure]

theorem PQRep.pop_ok {cap : Nat} {q : PQ α} {a : List (Int × α)} {r : Int × α} (h : PQRep cap q a)
    (hr0 : a[0]? = some r) :
    ∃ q', q.pop = .ok (r.1, r.2, q') ∧ PQRep cap q' (popP a) := by
  obtain ⟨hs, hr⟩ := h
  have hl : 0 < a.length := (List.getElem?_eq_some_iff.mp hr0).1
  have h0 : ¬ q.size ≤ 0 := by omega
  obtain ⟨rp, rv⟩ := r
  obtain ⟨t1, r1⟩ := (repH_nil.mpr hr).take hr0 (by simp)
  unfold PQ.pop popP
  simp only [h0, if_false, t1, bind, Except.bind, pure, Except.pure]
  by_cases hn : a.length - 1 = 0
  · have hn' : (q.size - 1 == 0) = true := by simp; omega
    simp only [hn', if_true, hn]
    refine ⟨_, rfl, by simp; omega, ?_⟩
    have := r1.dropLast (by simp [hn])
    have hnil : a.dropLast = [] := by
      apply List.eq_nil_of_length_eq_zero; simp; omega
    rw [hnil] at this
    exact repH_nil.mp (this.congr (by intro j; simp [hn]))
  · have hn' : (q.size - 1 == 0) = false := by simp; omega
    simp only [hn', hn, if_false]
    have hlast : a.length - 1 < a.length := by omega
    obtain ⟨⟨dp, dv⟩, hd⟩ : ∃ de, a[a.length - 1]? = some de := ⟨_, List.getElem?_eq_getElem hlast⟩
    rw [hd]
    simp only
    have hs' : q.size - 1 = a.length - 1 := by omega
    rw [hs']
    obtain ⟨t2, r2⟩ := r1.take hd (by simp; omega)
    simp only [t2]
    have r3 := r2.dropLast (by simp)
    have r4 : RepH cap ((q.buf.set 0 none).set (a.length - 1) none) a.dropLast [0] :=
      r3.congr (by intro j; simp; omega)
    have hbl : a.dropLast.length = a.length - 1 := by simp
    have hfuel : a.length - 1 + 1 = a.length := by omega
    obtain ⟨buf', hsd, r5⟩ := siftDown_refines (a.length) _ a.dropLast dp 0 r4 (by omega) (by omega)
    rw [hbl] at hsd
    rw [hfuel]
    simp only [hsd]
    obtain ⟨hb1, hb2⟩ := siftDownP_bounds a.length a.dropLast dp 0 (by omega)
    obtain ⟨p1, r6⟩ := r5.put (dp, dv) (by rw [hb2]; exact hb1) (by simp)
    simp only [p1]
    refine ⟨_, rfl, by simp [hb2], ?_⟩
    exact repH_nil.mp (r6.congr (by intro j; simp))
end GuppyVerif.Coll
