import GuppyVerif.Lemmas.C03For
/-! # C03 helper lemmas, part 5: structural invariants of `build` (CFGBuilder statements) -/
namespace GuppyVerif.Builder
open GuppyVerif.Surface

/-- the part of a block that execution looks at (dummy edges and the reachability flag are not) -/
def Block.core (B : Block) : List BStmt × Option Expr × List Nat := (B.stmts, B.pred, B.succs)

/-- like `Touch`, but other blocks may have received dummy edges -/
structure TouchS (σ : BState) (b : Nat) (σ' : BState) : Prop where
  len : σ.len ≤ σ'.len
  tmp : σ.nextTmp ≤ σ'.nextTmp
  frame : ∀ i, i < σ.len → i ≠ b → (σ'.blk i).core = (σ.blk i).core
  pre : (σ.blk b).stmts <+: (σ'.blk b).stmts

theorem Touch.toS {σ σ' : BState} {b : Nat} (h : Touch σ b σ') : TouchS σ b σ' :=
  ⟨h.len, h.tmp, fun i hi hne => by rw [h.frame i hi hne], h.pre⟩

theorem TouchS.refl (σ : BState) (b : Nat) : TouchS σ b σ := (Touch.refl σ b).toS

theorem core_stmts {A B : Block} (h : A.core = B.core) : A.stmts = B.stmts := congrArg (·.1) h
theorem core_pred {A B : Block} (h : A.core = B.core) : A.pred = B.pred := congrArg (·.2.1) h
theorem core_succs {A B : Block} (h : A.core = B.core) : A.succs = B.succs := congrArg (·.2.2) h

theorem TouchS.trans {σ σ1 σ2 : BState} {b b1 : Nat} (h1 : TouchS σ b σ1) (h2 : TouchS σ1 b1 σ2)
    (hb : b < σ.len) (hb1 : b1 = b ∨ σ.len ≤ b1) : TouchS σ b σ2 := by
  refine ⟨Nat.le_trans h1.len h2.len, Nat.le_trans h1.tmp h2.tmp, ?_, ?_⟩
  · intro i hi hne
    rw [h2.frame i (Nat.lt_of_lt_of_le hi h1.len) (by omega), h1.frame i hi hne]
  · rcases hb1 with rfl | hge
    · exact h1.pre.trans h2.pre
    · rw [core_stmts (h2.frame b (Nat.lt_of_lt_of_le hb h1.len) (by omega))]; exact h1.pre

/-- composition when the first step touched nothing that exists (`b ≥ σ.len`) is not needed; but a step
    on a block that is fresh for `σ` leaves all of `σ` alone -/
theorem TouchS.fresh {σ σ1 σ2 : BState} {b b1 : Nat} (h1 : TouchS σ b σ1) (h2 : TouchS σ1 b1 σ2)
    (hb1 : σ.len ≤ b1) (hb : b < σ.len) : TouchS σ b σ2 := h1.trans h2 hb (Or.inr hb1)

theorem TouchS.ext {σ σ' : BState} {b : Nat} (h : TouchS σ b σ') (ho : (σ.blk b).succs = []) : Ext σ σ'.blocks := by
  refine ⟨h.len, ?_, ?_⟩
  · intro i hi
    by_cases hb : i = b
    · subst hb; exact h.pre
    · show _ <+: (σ'.blk i).stmts; rw [core_stmts (h.frame i hi hb)]; exact List.prefix_refl _
  · intro i hi hc
    by_cases hb : i = b
    · subst hb; exact absurd ho hc
    · have := h.frame i hi hb
      exact ⟨core_stmts this, core_succs this, core_pred this⟩

theorem Ext.stepS {σ σ' : BState} {b : Nat} {bl : List Block} (h : TouchS σ b σ') (ho : (σ.blk b).succs = [])
    (hx : Ext σ' bl) : Ext σ bl := (h.ext ho).trans hx

/-- a dummy edge from any block leaves every core alone -/
theorem touchS_dummyLink (a n b : Nat) (σ : BState) : TouchS σ b (dummyLink a n σ) := by
  refine ⟨by simp, by simp, ?_, ?_⟩
  · intro i hi _
    by_cases h : i = a
    · subst h; rw [blk_dummyLink_same _ _ _ hi]; rfl
    · rw [blk_dummyLink_other _ _ _ _ h]
  · by_cases h : b = a
    · subst h
      by_cases hb : b < σ.len
      · rw [blk_dummyLink_same _ _ _ hb]; exact List.prefix_refl _
      · have := (touch_dummyLink b n σ).pre; exact this
    · rw [blk_dummyLink_other _ _ _ _ h]; exact List.prefix_refl _

theorem touchS_internal (σ : BState) (b : Nat) : TouchS σ b { σ with internal := true } :=
  ⟨Nat.le_refl _, Nat.le_refl _, fun _ _ _ => rfl, List.prefix_refl _⟩
theorem touchS_bad (σ : BState) (b : Nat) : TouchS σ b { σ with bad := true } :=
  ⟨Nat.le_refl _, Nat.le_refl _, fun _ _ _ => rfl, List.prefix_refl _⟩

/-- result of building a statement from the open block `b` -/
structure GoodS (σ : BState) (b : Nat) (r : BState × Option Nat) : Prop where
  touch : TouchS σ b r.1
  cur : ∀ b', r.2 = some b' → (b' = b ∨ σ.len ≤ b') ∧ b' < r.1.len ∧ (r.1.blk b').succs = []

theorem GoodV.toS {σ σ' : BState} {b b' : Nat} (h : GoodV σ b b' σ') : GoodS σ b (σ', some b') :=
  ⟨h.touch.toS, fun _ hb => by cases hb; exact ⟨h.cur, h.lt, h.opn⟩⟩

theorem build_ensure (s : Stmt) (hs : s ≠ .nil) (prev : Nat) (cur : Option Nat) (J : Jumps) (σ : BState) :
    build s prev cur J σ = build s prev (some (ensure prev cur σ).1) J (ensure prev cur σ).2 := by
  cases cur with
  | some b => rfl
  | none => cases s <;> first | exact absurd rfl hs | rfl

theorem ensure_some (prev b : Nat) (σ : BState) : ensure prev (some b) σ = (b, σ) := rfl
theorem ensure_none (prev : Nat) (σ : BState) : ensure prev none σ = (σ.len, dummyLink prev σ.len (newBB σ).2) := rfl

theorem TouchS.trans_same {σ σ1 σ2 : BState} {b : Nat} (h1 : TouchS σ b σ1) (h2 : TouchS σ1 b σ2) : TouchS σ b σ2 := by
  refine ⟨Nat.le_trans h1.len h2.len, Nat.le_trans h1.tmp h2.tmp, ?_, h1.pre.trans h2.pre⟩
  intro i hi hne
  rw [h2.frame i (Nat.lt_of_lt_of_le hi h1.len) hne, h1.frame i hi hne]

theorem GoodS.mk_none {σ σ' : BState} {b : Nat} (h : TouchS σ b σ') : GoodS σ b (σ', none) :=
  ⟨h, fun _ hb => by cases hb⟩

/-- state after the loop head, body and tail blocks of a `while` were created and the condition built -/
def whS0 (b : Nat) (σ : BState) : BState := (newBB (newBB (link b σ.len (newBB σ).2)).2).2
def whS1 (c : Expr) (b : Nat) (σ : BState) : BState :=
  (bld c (.br (σ.len + 1) (σ.len + 2)) σ.len (whS0 b σ)).2.2

theorem whS0_facts {b : Nat} {σ : BState} (hb : b < σ.len) (ho : (σ.blk b).succs = []) :
    (whS0 b σ).len = σ.len + 3 ∧ (whS0 b σ).nextTmp = σ.nextTmp ∧
    (whS0 b σ).blk b = { σ.blk b with succs := [σ.len] } ∧
    (whS0 b σ).blk σ.len = {} ∧ (whS0 b σ).blk (σ.len + 1) = {} ∧ (whS0 b σ).blk (σ.len + 2) = {} ∧
    (∀ i, i < σ.len → i ≠ b → (whS0 b σ).blk i = σ.blk i) := by
  have l1 : (link b σ.len (newBB σ).2).len = σ.len + 1 := by simp
  have l2 : (newBB (link b σ.len (newBB σ).2)).2.len = σ.len + 2 := by simp
  refine ⟨by simp [whS0], rfl, ?_, ?_, ?_, ?_, ?_⟩
  · simp only [whS0]
    rw [blk_newBB_old _ _ (by omega), blk_newBB_old _ _ (by omega), blk_link_same _ _ _ (by simp; omega),
      blk_newBB_old _ _ hb, ho]; rfl
  · simp only [whS0]
    rw [blk_newBB_old _ _ (by omega), blk_newBB_old _ _ (by omega), blk_link_other _ _ _ _ (by omega),
      blk_newBB_new]
  · simp only [whS0]
    rw [blk_newBB_old _ _ (by omega)]
    have := blk_newBB_new (link b σ.len (newBB σ).2)
    rw [l1] at this; exact this
  · simp only [whS0]
    have := blk_newBB_new (newBB (link b σ.len (newBB σ).2)).2
    rw [l2] at this; exact this
  · intro i hi hne
    simp only [whS0]
    rw [blk_newBB_old _ _ (by omega), blk_newBB_old _ _ (by omega), blk_link_other _ _ _ _ hne,
      blk_newBB_old _ _ hi]

theorem whS1_facts (c : Expr) {b : Nat} {σ : BState} (hb : b < σ.len) (ho : (σ.blk b).succs = []) :
    Touch (whS0 b σ) σ.len (whS1 c b σ) ∧ σ.len + 3 ≤ (whS1 c b σ).len ∧
    (whS1 c b σ).blk b = { σ.blk b with succs := [σ.len] } ∧
    (whS1 c b σ).blk (σ.len + 1) = {} ∧ (whS1 c b σ).blk (σ.len + 2) = {} ∧
    TouchS σ b (whS1 c b σ) := by
  obtain ⟨l0, n0, fb, fh, fbb, ftl, fo⟩ := whS0_facts hb ho
  have t1 : Touch (whS0 b σ) σ.len (whS1 c b σ) :=
    bld_good c (.br (σ.len + 1) (σ.len + 2)) σ.len (whS0 b σ) (by omega) (by rw [fh])
  have hl := t1.len
  refine ⟨t1, by omega, ?_, ?_, ?_, ?_⟩
  · rw [t1.frame b (by omega) (by omega), fb]
  · rw [t1.frame (σ.len + 1) (by omega) (by omega), fbb]
  · rw [t1.frame (σ.len + 2) (by omega) (by omega), ftl]
  · refine ⟨by omega, by rw [← n0]; exact t1.tmp, ?_, ?_⟩
    · intro i hi hne
      rw [t1.frame i (by omega) (by omega), fo i hi hne]
    · rw [t1.frame b (by omega) (by omega), fb]; exact List.prefix_refl _


/-- facts about the state in which the body of a `for` loop is built -/
theorem forS7_facts (x : Var) (e : Expr) {b : Nat} {σ : BState} (hb : b < σ.len) (ho : (σ.blk b).succs = []) :
    TouchS σ b (forS7 x e b σ) ∧ σ.len ≤ (forS1 e b σ).len ∧ (forS7 x e b σ).len = (forS1 e b σ).len + 5 ∧
    (forS7 x e b σ).nextTmp = (forS1 e b σ).nextTmp ∧
    (forS7 x e b σ).blk (forA e b σ).2.1 = { (forS1 e b σ).blk (forA e b σ).2.1 with succs := [(forS1 e b σ).len] } ∧
    (forS7 x e b σ).blk (forS1 e b σ).len = { succs := [(forS1 e b σ).len + 1], dsuccs := [(forS1 e b σ).len + 2] } ∧
    (forS7 x e b σ).blk ((forS1 e b σ).len + 1) =
      { stmts := [.assign (.tmp (σ.nextTmp + 1)) (eIterNext σ.nextTmp)], pred := some (eIsSome (σ.nextTmp + 1)),
        succs := [(forS1 e b σ).len + 3, (forS1 e b σ).len + 4] } ∧
    (forS7 x e b σ).blk ((forS1 e b σ).len + 2) = {} ∧
    (forS7 x e b σ).blk ((forS1 e b σ).len + 3) =
      { stmts := [.expr (eUnwrapNothing (σ.nextTmp + 1))], succs := [(forS1 e b σ).len + 2] } ∧
    (forS7 x e b σ).blk ((forS1 e b σ).len + 4) = { stmts := [.assign2 x (.tmp σ.nextTmp) (eUnwrap (σ.nextTmp + 1))] } := by
  have gA : GoodV (freshTmp (freshTmp σ).2).2 b (forA e b σ).2.1 (forA e b σ).2.2 :=
    bld_good e .val b (freshTmp (freshTmp σ).2).2 hb ho
  have g1 : GoodV (freshTmp (freshTmp σ).2).2 b (forA e b σ).2.1 (forS1 e b σ) :=
    GoodV.step (σ := (freshTmp (freshTmp σ).2).2) hb gA (touch_addStmt _ _ _)
      (by show ((addStmt _ _ _).blk _).succs = []; rw [blk_addStmt_same _ _ _ gA.lt]; exact gA.opn)
  have hls : σ.len ≤ (forS1 e b σ).len := g1.touch.len
  obtain ⟨f1, f2, f3, f4, f5, f6, f7, f8, f9⟩ :=
    forTpl_facts x σ.nextTmp (σ.nextTmp + 1) g1.lt g1.opn
  unfold forS7
  refine ⟨?_, hls, f1, f2, f3, f4, f5, f6, f7, f8⟩
  have hcur : (forA e b σ).2.1 = b ∨ σ.len ≤ (forA e b σ).2.1 := g1.cur
  have hfr : ∀ i, i < σ.len → i ≠ b → (forS1 e b σ).blk i = σ.blk i := fun i hi hne => by
    have := g1.touch.frame i hi hne
    simp only [blk_freshTmp] at this
    exact this
  have hp : (σ.blk b).stmts <+: ((forS1 e b σ).blk b).stmts := by
    have := g1.touch.pre
    simp only [blk_freshTmp] at this
    exact this
  have htm : σ.nextTmp ≤ (forS1 e b σ).nextTmp := by
    have := g1.touch.tmp
    simp only [tmp_freshTmp] at this
    omega
  refine ⟨by rw [f1]; omega, by rw [f2]; exact htm, ?_, ?_⟩
  · intro i hi hne
    rw [f9 i (by omega) (by rcases hcur with h | h <;> omega), hfr i hi hne]
  · by_cases hab : (forA e b σ).2.1 = b
    · rw [hab] at f3 ⊢
      rw [f3]
      exact hp
    · rw [f9 b (by omega) (fun h => hab h.symm)]
      exact hp

theorem build_good (s : Stmt) : ∀ (prev b : Nat) (J : Jumps) (σ : BState), b < σ.len →
    (σ.blk b).succs = [] → GoodS σ b (build s prev (some b) J σ) := by
  induction s with
  | nil => intro prev b J σ hb ho; exact (GoodV.refl hb ho).toS
  | pass => intro prev b J σ hb ho; exact (GoodV.refl hb ho).toS
  | cons s rest ihs ihr =>
    intro prev b J σ hb ho
    simp only [build, ensure_some]
    have g1 := ihs b b J σ hb ho
    cases hr : (build s b (some b) J σ).2 with
    | some b1 =>
      obtain ⟨c1, c2, c3⟩ := g1.cur b1 hr
      have g2 := ihr b b1 J _ c2 c3
      refine ⟨g1.touch.trans g2.touch hb c1, ?_⟩
      intro b' hb'
      obtain ⟨d1, d2, d3⟩ := g2.cur b' hb'
      have := g1.touch.len
      exact ⟨by rcases d1 with h | h <;> rcases c1 with h' | h' <;> omega, d2, d3⟩
    | none =>
      by_cases hnil : rest = .nil
      · subst hnil; simp only [build]
        exact ⟨g1.touch, fun _ h => by cases h⟩
      · rw [build_ensure rest hnil, ensure_none]
        have hl1 := g1.touch.len
        have hn' : (build s b (some b) J σ).1.len < (dummyLink b (build s b (some b) J σ).1.len
            (newBB (build s b (some b) J σ).1).2).len := by simp
        have hno : ((dummyLink b (build s b (some b) J σ).1.len (newBB (build s b (some b) J σ).1).2).blk
            (build s b (some b) J σ).1.len).succs = [] := by
          rw [blk_dummyLink_other _ _ _ _ (by omega), blk_newBB_new]
        have g2 := ihr b _ J _ hn' hno
        have t0 : TouchS (build s b (some b) J σ).1 (build s b (some b) J σ).1.len
            (dummyLink b (build s b (some b) J σ).1.len (newBB (build s b (some b) J σ).1).2) :=
          (touch_newBB _ _).toS.trans_same (touchS_dummyLink _ _ _ _)
        have t1 := t0.trans_same g2.touch
        refine ⟨g1.touch.trans t1 hb (Or.inr hl1), ?_⟩
        intro b' hb'
        obtain ⟨d1, d2, d3⟩ := g2.cur b' hb'
        simp only [len_dummyLink, len_newBB] at d1
        exact ⟨Or.inr (by rcases d1 with h | h <;> omega), d2, d3⟩
  | assign x e =>
    intro prev b J σ hb ho
    simp only [build, ensure_some, buildE]
    have g := bld_good e .val b σ hb ho
    exact (GoodV.step hb g (touch_addStmt _ _ _) (by rw [blk_addStmt_same _ _ _ g.lt]; exact g.opn)).toS
  | aug x op e =>
    intro prev b J σ hb ho
    simp only [build, ensure_some, buildE]
    split
    · have g0 : GoodV σ b b (preBind true (.var x) b σ).2 := preBind_good hb (GoodV.refl hb ho) true (.var x)
      simp only [preBind, if_true] at g0
      have g1 := bld_good e .val b _ g0.lt g0.opn
      have g := GoodV.trans hb g0 g1
      exact (GoodV.step hb g (touch_addStmt _ _ _) (by rw [blk_addStmt_same _ _ _ g.lt]; exact g.opn)).toS
    · have g := bld_good e .val b σ hb ho
      exact (GoodV.step hb g (touch_addStmt _ _ _) (by rw [blk_addStmt_same _ _ _ g.lt]; exact g.opn)).toS
  | expr e =>
    intro prev b J σ hb ho
    simp only [build, ensure_some, buildE]
    have g : GoodV σ b (bld e .val b σ).2.1 (bld e .val b σ).2.2 := bld_good e .val b σ hb ho
    cases isTmpVar (bld e .val b σ).1
    · exact (GoodV.step hb g (touch_addStmt _ _ _) (by rw [blk_addStmt_same _ _ _ g.lt]; exact g.opn)).toS
    · exact g.toS
  | brk =>
    intro prev b J σ hb ho
    simp only [build, ensure_some]
    split
    · exact GoodS.mk_none (touch_link _ _ _).toS
    · exact GoodS.mk_none (touchS_internal _ _)
  | cont =>
    intro prev b J σ hb ho
    simp only [build, ensure_some]
    split
    · exact GoodS.mk_none (touch_link _ _ _).toS
    · exact GoodS.mk_none (touchS_internal _ _)
  | ret e =>
    intro prev b J σ hb ho
    simp only [build, ensure_some, buildE]
    have g := bld_good e .val b σ hb ho
    exact GoodS.mk_none (((g.touch.trans (touch_addStmt _ _ _) hb g.cur).trans (touch_link _ _ _) hb g.cur).toS)
  | ret0 =>
    intro prev b J σ hb ho
    simp only [build, ensure_some]
    exact GoodS.mk_none (((touch_addStmt _ _ _).trans (touch_link _ _ _) hb (Or.inl rfl)).toS)
  | ite c t e iht ihe =>
    intro prev b J σ hb ho
    obtain ⟨t1, hl1, htb, heb, _, _, _⟩ := itS1_facts c hb ho
    have t01 : TouchS σ b (itS1 c b σ) := ((touch_scPre_val σ b hb).trans t1 hb (Or.inl rfl)).toS
    have gt := iht σ.len σ.len J (itS1 c b σ) (by omega) (by rw [htb])
    have hlt := gt.touch.len
    have heb2 : ((build t σ.len (some σ.len) J (itS1 c b σ)).1.blk (σ.len + 1)).succs = [] := by
      rw [core_succs (gt.touch.frame (σ.len + 1) (by omega) (by omega)), heb]
    have ge := ihe (σ.len + 1) (σ.len + 1) J _ (by omega) heb2
    have hle := ge.touch.len
    have t02 : TouchS σ b (build e (σ.len + 1) (some (σ.len + 1)) J (build t σ.len (some σ.len) J (itS1 c b σ)).1).1 :=
      (t01.trans gt.touch hb (Or.inr (Nat.le_refl _))).trans ge.touch hb (Or.inr (by omega))
    have hbuild : build (.ite c t e) prev (some b) J σ =
        match (build t σ.len (some σ.len) J (itS1 c b σ)).2,
          (build e (σ.len + 1) (some (σ.len + 1)) J (build t σ.len (some σ.len) J (itS1 c b σ)).1).2 with
        | none, r => ((build e (σ.len + 1) (some (σ.len + 1)) J (build t σ.len (some σ.len) J (itS1 c b σ)).1).1, r)
        | some a, none => ((build e (σ.len + 1) (some (σ.len + 1)) J (build t σ.len (some σ.len) J (itS1 c b σ)).1).1, some a)
        | some a, some b2 =>
          ((newBB2 a b2 (build e (σ.len + 1) (some (σ.len + 1)) J (build t σ.len (some σ.len) J (itS1 c b σ)).1).1).2,
            some (newBB2 a b2 (build e (σ.len + 1) (some (σ.len + 1)) J (build t σ.len (some σ.len) J (itS1 c b σ)).1).1).1) := by
      simp only [build, ensure_some, fst_newBB, len_newBB, branchE]; rfl
    rw [hbuild]
    cases hrt : (build t σ.len (some σ.len) J (itS1 c b σ)).2 with
    | none =>
      simp only []
      refine ⟨t02, ?_⟩
      intro b' hb'
      obtain ⟨d1, d2, d3⟩ := ge.cur b' hb'
      exact ⟨Or.inr (by rcases d1 with h | h <;> omega), d2, d3⟩
    | some a =>
      obtain ⟨a1, a2, a3⟩ := gt.cur a hrt
      have ha : σ.len ≤ a := by rcases a1 with h | h <;> omega
      have hae : a ≠ σ.len + 1 := by rcases a1 with h | h <;> omega
      have a3' : ((build e (σ.len + 1) (some (σ.len + 1)) J (build t σ.len (some σ.len) J (itS1 c b σ)).1).1.blk a).succs = [] := by
        rw [core_succs (ge.touch.frame a a2 hae)]; exact a3
      cases hre : (build e (σ.len + 1) (some (σ.len + 1)) J (build t σ.len (some σ.len) J (itS1 c b σ)).1).2 with
      | none =>
        simp only []
        refine ⟨t02, ?_⟩
        intro b' hb'; cases hb'
        exact ⟨Or.inr ha, by dsimp only; omega, a3'⟩
      | some b2 =>
        obtain ⟨d1, d2, d3⟩ := ge.cur b2 hre
        have hb2 : σ.len ≤ b2 := by rcases d1 with h | h <;> omega
        simp only [newBB2, fst_newBB]
        refine ⟨?_, ?_⟩
        · exact ((t02.trans (touch_newBB _ b).toS hb (Or.inl rfl)).trans (touch_link a _ _).toS hb (Or.inr ha)).trans
            (touch_link b2 _ _).toS hb (Or.inr hb2)
        · intro b' hb'; cases hb'
          refine ⟨Or.inr (by omega), by simp, ?_⟩
          rw [blk_link_other _ _ _ _ (by omega), blk_link_other _ _ _ _ (by omega), blk_newBB_new]
  | «while» c body ih =>
    intro prev b J σ hb ho
    obtain ⟨t1, hl1, fb, fbb, ftl, t01⟩ := whS1_facts c hb ho
    have gb := ih (σ.len + 1) (σ.len + 1) ⟨J.ret, some σ.len, some (σ.len + 2)⟩ (whS1 c b σ) (by omega) (by rw [fbb])
    have hlb := gb.touch.len
    have ftl2 : ((build body (σ.len + 1) (some (σ.len + 1)) ⟨J.ret, some σ.len, some (σ.len + 2)⟩ (whS1 c b σ)).1.blk
        (σ.len + 2)).succs = [] := by
      rw [core_succs (gb.touch.frame (σ.len + 2) (by omega) (by omega)), ftl]
    have t02 := t01.trans gb.touch hb (Or.inr (by omega))
    have hbuild : build (.while c body) prev (some b) J σ =
        match (build body (σ.len + 1) (some (σ.len + 1)) ⟨J.ret, some σ.len, some (σ.len + 2)⟩ (whS1 c b σ)).2 with
        | some e => (link e σ.len (build body (σ.len + 1) (some (σ.len + 1)) ⟨J.ret, some σ.len, some (σ.len + 2)⟩ (whS1 c b σ)).1,
            some (σ.len + 2))
        | none => ((build body (σ.len + 1) (some (σ.len + 1)) ⟨J.ret, some σ.len, some (σ.len + 2)⟩ (whS1 c b σ)).1,
            some (σ.len + 2)) := by
      simp only [build, ensure_some, newBB1, fst_newBB, len_newBB, len_link, branchE]; rfl
    rw [hbuild]
    cases hrb : (build body (σ.len + 1) (some (σ.len + 1)) ⟨J.ret, some σ.len, some (σ.len + 2)⟩ (whS1 c b σ)).2 with
    | none =>
      simp only []
      refine ⟨t02, ?_⟩
      intro b' hb'; cases hb'
      exact ⟨Or.inr (by omega), by dsimp only; omega, ftl2⟩
    | some e =>
      obtain ⟨e1, e2, e3⟩ := gb.cur e hrb
      have he : σ.len ≤ e := by rcases e1 with h | h <;> omega
      have hetl : e ≠ σ.len + 2 := by rcases e1 with h | h <;> omega
      simp only []
      refine ⟨t02.trans (touch_link e _ _).toS hb (Or.inr he), ?_⟩
      intro b' hb'; cases hb'
      refine ⟨Or.inr (by omega), by simp; omega, ?_⟩
      rw [blk_link_other _ _ _ _ (Ne.symm hetl)]; exact ftl2
  | «for» x e body ih =>
    intro prev b J σ hb ho
    obtain ⟨t07, hls, hl7, _, _, _, _, ftl, _, feb⟩ := forS7_facts x e hb ho
    have gb : GoodS (forS7 x e b σ) ((forS1 e b σ).len + 4) (forRB x e body b J σ) :=
      ih _ _ (forJ J e b σ) (forS7 x e b σ) (by omega) (by rw [feb])
    have hlb := gb.touch.len
    have ctl := gb.touch.frame ((forS1 e b σ).len + 2) (by omega) (by omega)
    have ftl2 : ((forRB x e body b J σ).1.blk ((forS1 e b σ).len + 2)).succs = [] := by
      rw [core_succs ctl, ftl]
    have t02 := t07.trans gb.touch hb (Or.inr (by omega))
    rw [build_for_eq]
    cases hrb : (forRB x e body b J σ).2 with
    | none =>
      simp only [loopFin, hrb]
      refine ⟨t02, ?_⟩
      intro b' hb'; cases hb'
      exact ⟨Or.inr (by omega), by dsimp only; omega, ftl2⟩
    | some e' =>
      obtain ⟨e1, e2, e3⟩ := gb.cur e' hrb
      have he : σ.len ≤ e' := by rcases e1 with h | h <;> omega
      have hetl : e' ≠ (forS1 e b σ).len + 2 := by rcases e1 with h | h <;> omega
      simp only [loopFin, hrb]
      refine ⟨t02.trans (touch_link e' _ _).toS hb (Or.inr he), ?_⟩
      intro b' hb'; cases hb'
      refine ⟨Or.inr (by omega), by simp; omega, ?_⟩
      rw [blk_link_other _ _ _ _ (Ne.symm hetl)]; exact ftl2
  | forFrom x n m body ih =>
    intro prev b J σ hb ho
    simp only [build, ensure_some]
    exact ⟨touchS_bad σ b, fun b' hb' => by cases hb'; exact ⟨Or.inl rfl, hb, ho⟩⟩

end GuppyVerif.Builder
