import GuppyVerif.Lemmas.C12Sound
import GuppyVerif.Lemmas.C12Bound
/-! Lemmas for C12, part 11: `check_type_against` for generic function values. -/
namespace GuppyVerif.Unify

theorem instBList_eq (ρ : List Tm) (as : List Tm) : instBList ρ as = as.map (instB ρ) := by
  induction as with
  | nil => rfl
  | cons a as ih => simp [instBList, ih]

theorem varsList_nil {as : List Tm} (h : varsList as = []) : ∀ a ∈ as, a.vars = [] := by
  intro a ha
  rw [varsList_eq] at h
  have := List.flatMap_eq_nil_iff.mp h a ha
  exact this

/-- instantiating the fresh variables of `unquantified()` afterwards = instantiating the parameters directly
    (for a body without inference variables) -/
theorem inst_instB (θ : V → Tm) (fresh : List V) : ∀ t : Tm, t.vars = [] →
    inst θ (instB (fresh.map .var) t) = instB (fresh.map θ) t := by
  intro t
  induction t using Tm.induct with
  | var v => intro h; simp [Tm.vars] at h
  | atom a =>
    intro _
    cases a with
    | bvar i =>
      simp only [instB, List.length_map]
      split
      · rename_i h; simp [inst, List.getElem_map]
      · simp [inst]
    | cbvar i =>
      simp only [instB, List.length_map]
      split
      · rename_i h; simp [inst, List.getElem_map]
      · simp [inst]
    | num k => simp [instB, inst]
    | none => simp [instB, inst]
    | cval a b => simp [instB, inst]
  | node h as ih =>
    intro hv
    simp only [Tm.vars] at hv
    have hn := varsList_nil hv
    simp only [instB, inst, instBList_eq, instList_eq, List.map_map]
    congr 1
    apply List.map_congr_left
    intro a ha
    exact ih a ha (hn a ha)
  | targ t ih => intro hv; simp only [instB, inst]; rw [ih (by simpa [Tm.vars] using hv)]
  | carg t ih => intro hv; simp only [instB, inst]; rw [ih (by simpa [Tm.vars] using hv)]

theorem lookup_map_snd (g : Tm → Tm) : ∀ (l : Subst) (v : V),
    lookup (l.map fun p => (p.1, g p.2)) v = (lookup l v).map g := by
  intro l
  induction l with
  | nil => intro v; rfl
  | cons p l ih =>
    intro v
    obtain ⟨w, t⟩ := p
    simp only [List.map_cons, lookup_cons]
    split
    · rfl
    · exact ih v

theorem lookup_resolve (σ : Subst) (v : V) : lookup (resolve σ) v = (lookup σ v).map (applyStar σ) :=
  lookup_map_snd (applyStar σ) σ v

theorem lookup_filter (P : V → Bool) : ∀ (l : Subst) (v : V),
    lookup (l.filter fun p => P p.1) v = if P v then lookup l v else none := by
  intro l
  induction l with
  | nil => intro v; simp [lookup]
  | cons p l ih =>
    intro v
    obtain ⟨w, t⟩ := p
    simp only [List.filter_cons]
    by_cases hw : P w = true
    · simp only [hw, if_true, lookup_cons]
      by_cases e : w = v
      · subst e; simp [hw]
      · simp only [e, if_false]; exact ih v
    · have hw' : P w = false := by simpa using hw
      simp only [hw', lookup_cons, Bool.false_eq_true, if_false]
      by_cases e : w = v
      · subst e; simp only [if_true]; rw [ih w]; simp [hw']
      · simp only [e, if_false]; exact ih v

/-- one pass of the resolved substitution = `|σ|+1` passes of the triangular one -/
theorem passes_eq_resolve (σ : Subst) (y : V) : passes σ (σ.length + 1) y = asFun (resolve σ) y := by
  rw [passes_succ']
  unfold asFun
  rw [lookup_resolve]
  cases hl : lookup σ y with
  | none => simp only [Option.map]; simp [inst, passes_unbound hl]
  | some u =>
    simp only [Option.map]
    unfold applyStar
    rw [applyN_eq_inst]

theorem firstBad_none {σ : Subst} : ∀ (fresh : List V) (i : Nat), firstBad σ i fresh = none →
    ∀ f ∈ fresh, ∃ u, lookup σ f = some u ∧ u.vars = [] := by
  intro fresh
  induction fresh with
  | nil => intro _ _ f hf; cases hf
  | cons g fresh ih =>
    intro i h f hf
    simp only [firstBad] at h
    cases hl : lookup σ g with
    | none => simp [hl] at h
    | some u =>
      simp only [hl] at h
      split at h
      · rename_i he
        cases hf with
        | head => exact ⟨u, hl, by simpa using he⟩
        | tail _ hf => exact ih (i + 1) h f hf
      · cases h

theorem firstBad_not_ok {σ : Subst} : ∀ (fresh : List V) (i : Nat) (ins : List Tm) (σ' : Subst),
    firstBad σ i fresh ≠ some (.ok ins σ') := by
  intro fresh
  induction fresh with
  | nil => intro i ins σ' h; simp [firstBad] at h
  | cons g fresh ih =>
    intro i ins σ' h
    simp only [firstBad] at h
    cases hl : lookup σ g with
    | none => simp [hl] at h
    | some u =>
      simp only [hl] at h
      split at h
      · exact ih (i + 1) ins σ' h
      · simp at h

theorem acyclic_nil : Acyclic [] := ⟨fun _ => 0, fun _ _ h => by simp [lookup] at h⟩

/-- soundness of `check_type_against` on a generic function value -/
theorem checkAgainst_sound (E : Env) (fuel p0 : Nat) (exp : Tm) (fresh : List V) (fl : List Nat) (p : Nat)
    (args ins : List Tm) (σ' : Subst) (hact : ∀ a ∈ args, a.vars = [])
    (h : checkAgainst E fuel p0 exp fresh (.node (.func fl p) args) = .ok ins σ') :
    FlagEq (apply σ' exp) (.node (.func fl p0) (instBList ins args)) ∧
      ins.length = fresh.length ∧ ∀ t ∈ ins, t.vars = [] := by
  simp only [checkAgainst] at h
  cases hu : unify E fuel exp (.node (.func fl p0) (instBList (fresh.map .var) args)) [] with
  | oof => simp [hu] at h
  | fail => simp [hu] at h
  | ok σ =>
    simp only [hu] at h
    cases hb : firstBad (resolve σ) 0 fresh with
    | some r => simp only [hb] at h; subst h; exact absurd hb (firstBad_not_ok fresh 0 ins σ')
    | none =>
      simp only [hb, CallRes.ok.injEq] at h
      obtain ⟨hinst, hσ'⟩ := h
      have g := unify_good E fuel _ _ [] σ hu
      have ha : Acyclic σ := g.acyc acyclic_nil
      have hsolved := firstBad_none fresh 0 hb
      -- the assignment: |σ|+1 passes
      have hθ : Solves (passes σ (σ.length + 1)) σ := fun v u hv => by
        unfold FlagEq; rw [passes_len_solves ha (σ.length + 1) (by omega) v u hv]
      have hinst' : ins = fresh.map (passes σ (σ.length + 1)) := by
        rw [← hinst]
        apply List.map_congr_left
        intro f _
        rw [passes_eq_resolve]; rfl
      refine ⟨?_, by rw [hinst']; simp, ?_⟩
      · have e1 : apply σ' exp = inst (passes σ (σ.length + 1)) exp := by
          unfold apply
          apply inst_congr
          intro y hy
          rw [passes_eq_resolve, ← hσ']
          unfold asFun
          rw [lookup_filter (fun v => exp.vars.contains v)]
          simp [hy]
        have e2 : inst (passes σ (σ.length + 1)) (.node (.func fl p0) (instBList (fresh.map .var) args)) =
            .node (.func fl p0) (instBList ins args) := by
          simp only [inst, instList_eq, instBList_eq, List.map_map, hinst']
          congr 1
          apply List.map_congr_left
          intro a ha'
          exact inst_instB _ fresh a (hact a ha')
        rw [e1, ← e2]
        exact g.eq _ hθ
      · intro t ht
        rw [← hinst] at ht
        obtain ⟨f, hf, rfl⟩ := List.mem_map.mp ht
        obtain ⟨u, hl, hv⟩ := hsolved f hf
        simp only [hl]; exact hv

end GuppyVerif.Unify
