import GuppyVerif.Lemmas.C06Complete
/-! C06 helper lemmas, part 8: the internal outcome `crash` (a place that is in no scope) cannot
    occur on a well-kinded CFG (`KindsOK` makes the block signatures cover what is read:
    `willUse_row`).  For this the scope bookkeeping is projected once more on an arbitrary leaf,
    keeping only what decides crashes and the liveness statistics (`nrun`: in `vars`? in
    `used_parent`?) — no kinds, no failure but the crash. -/
namespace GuppyVerif.Linearity

open GuppyVerif.Dataflow (LiveSpec LivePath InfPath Edge)

structure NSt where
  inVars : Bool
  usedParent : Bool
  deriving DecidableEq, Repr

def Scope.nproj (s : Scope) (l : Leaf) : NSt := ⟨s.vars.contains l, s.usedParent.contains l⟩

/-- `none` = the place is in no scope (`crash`) -/
def nstep (inPar : Bool) (c : NSt) (e : Ev) : Option NSt :=
  match e.op with
  | .use => if c.inVars then some c else if inPar then some { c with usedParent := true } else none
  | .give => some { c with inVars := true }
  | .asg => some { c with inVars := true }

def nrun (inPar : Bool) (c : NSt) : List Ev → Option NSt
  | [] => some c
  | e :: es => match nstep inPar c e with
    | none => none
    | some c' => nrun inPar c' es

theorem nrun_append (inPar : Bool) (c : NSt) (es fs : List Ev) :
    nrun inPar c (es ++ fs) = (nrun inPar c es).bind fun c' => nrun inPar c' fs := by
  induction es generalizing c with
  | nil => simp [nrun]
  | cons e es ih =>
    simp only [List.cons_append, nrun]
    cases nstep inPar c e with
    | none => simp
    | some c' => simpa using ih c'

/-- the coarse bookkeeping is what the fine one (`cstep`) does to `vars` / `used_parent` -/
def LSt.coarse (c : LSt) : NSt := ⟨c.inVars, c.usedParent⟩

theorem nstep_of_cstep {inPar : Bool} {c c' : LSt} {e : Ev} (h : cstep inPar c e = some c') :
    nstep inPar c.coarse e = some c'.coarse := by
  rcases c with ⟨a, k, b, d⟩
  rcases e with ⟨op, el⟩
  cases op <;> cases a <;> cases b <;> cases d <;> cases inPar <;> cases el <;> cases k <;>
    simp [cstep] at h <;> subst h <;> simp [nstep, LSt.coarse]

theorem nrun_of_crun {inPar : Bool} : ∀ (es : List Ev) (c c1 : LSt), crun inPar c es = some c1 →
    nrun inPar c.coarse es = some c1.coarse := by
  intro es
  induction es with
  | nil => intro c c1 h; simp [crun] at h; subst h; rfl
  | cons e es ih =>
    intro c c1 h
    simp only [crun] at h
    cases h1 : cstep inPar c e with
    | none => simp [h1] at h
    | some c' =>
      simp only [h1] at h
      simp only [nrun, nstep_of_cstep h1]
      exact ih c' c1 h

theorem nproj_eq (s : Scope) (l : Leaf) : s.nproj l = (s.proj l).coarse := rfl

/-! ### where pass 1 can crash -/

/-- the bookkeeping of leaf `l`, started in scope `s`, reaches within `evs` a `use` of the leaf
    while it is neither in `vars` nor in the parent scope -/
def Crashes (l : Leaf) (s : Scope) (evs : List Ev) : Prop :=
  ∃ pre post c k, evs = pre ++ ⟨Op.use, k⟩ :: post ∧ nrun (s.parent.contains l) (s.nproj l) pre = some c ∧
    c.inVars = false ∧ s.parent.contains l = false

theorem Crashes.append_right {l : Leaf} {s : Scope} {evs : List Ev} (more : List Ev) (h : Crashes l s evs) :
    Crashes l s (evs ++ more) := by
  obtain ⟨pre, post, c, k, h1, h2, h3, h4⟩ := h
  exact ⟨pre, post ++ more, c, k, by simp [h1], h2, h3, h4⟩

theorem Crashes.prepend {l : Leaf} {s s1 : Scope} {evs0 evs : List Ev} (hp : s1.parent = s.parent)
    (h0 : crun (s.parent.contains l) (s.proj l) evs0 = some (s1.proj l)) (h : Crashes l s1 evs) :
    Crashes l s (evs0 ++ evs) := by
  obtain ⟨pre, post, c, k, h1, h2, h3, h4⟩ := h
  refine ⟨evs0 ++ pre, post, c, k, by simp [h1], ?_, h3, by rw [← hp]; exact h4⟩
  rw [nrun_append, nproj_eq, nrun_of_crun _ _ _ h0]
  simp only [Option.bind]
  rw [← hp]; exact h2

theorem foldlM_crash {α : Type} (f : Scope → α → R Scope) (ev : Leaf → α → List Ev)
    (hok : ∀ s s' a, f s a = .ok s' → s'.parent = s.parent ∧
      ∀ l, crun (s.parent.contains l) (s.proj l) (ev l a) = some (s'.proj l))
    (herr : ∀ s a, f s a = .error .crash → ∃ l, Crashes l s (ev l a)) :
    ∀ (as : List α) (s : Scope), as.foldlM f s = .error .crash → ∃ l, Crashes l s (as.flatMap (ev l)) := by
  intro as
  induction as with
  | nil => intro s h; simp [pure, Except.pure] at h
  | cons a as ih =>
    intro s h
    rw [List.foldlM_cons] at h
    cases h1 : f s a with
    | error e1 =>
      rw [h1] at h
      simp only [bind, Except.bind] at h
      cases h
      obtain ⟨l, hc⟩ := herr s a h1
      exact ⟨l, by simpa [List.flatMap_cons] using hc.append_right _⟩
    | ok s1 =>
      rw [h1] at h
      obtain ⟨hp, hc⟩ := hok s s1 a h1
      obtain ⟨l, hcr⟩ := ih s1 h
      exact ⟨l, by simpa [List.flatMap_cons] using hcr.prepend hp (hc l)⟩

theorem useLeaf_crash {s : Scope} {xk : Leaf × Bool} (h : useLeaf s xk = .error .crash) :
    ∃ l, Crashes l s (if xk.1 = l then [⟨Op.use, xk.2⟩] else []) := by
  obtain ⟨x, k⟩ := xk
  refine ⟨x, [], [], s.nproj x, k, by simp, by simp [nrun], ?_, ?_⟩
  all_goals
    unfold useLeaf Scope.used Scope.use at h
    simp only at h
    by_cases hv : x ∈ s.vars
    · by_cases hu : x ∈ s.usedLocal <;> cases k <;> simp [hv, hu] at h
    · by_cases hp : x ∈ s.parent
      · by_cases hu : x ∈ s.usedParent <;> cases k <;> simp [hv, hp, hu] at h
      · simp [Scope.nproj, hv, hp]

theorem visitPlace_crash {P : Prog} {borrow : Bool} {s : Scope} {p : Place}
    (h : visitPlace P borrow s p = .error .crash) : ∃ l, Crashes l s (leafEvs .use l p.leaves) := by
  unfold visitPlace at h
  split at h
  · cases h
  · exact foldlM_crash useLeaf (fun l xk => if xk.1 = l then [⟨Op.use, xk.2⟩] else [])
      (fun s s' x hx => ⟨(useLeaf_parent hx).1, fun l => crun_ite _ _ _ _ _ _ (useLeaf_proj hx)⟩)
      (fun s x hx => useLeaf_crash hx) p.leaves s h

theorem doAct_crash {P : Prog} {s : Scope} {a : Act} (h : doAct P s a = .error .crash) :
    ∃ l, Crashes l s (a.evs l) := by
  cases a with
  | use p borrow => simp only [doAct] at h; exact visitPlace_crash h
  | give p => simp [doAct] at h
  | dropAfter => simp [doAct] at h
  | moveOut => simp [doAct] at h

theorem assignTargets_no_crash {P : Prog} {s : Scope} {tgts : List Place} :
    assignTargets P s tgts ≠ .error .crash := by
  intro h
  rcases assignTargets_err h with h' | ⟨t, _, _⟩ | ⟨l, pre, e, post, c, _, _, hf⟩
  · -- the only errors raised here are BorrowShadowed and PlaceNotUsed
    unfold assignTargets at h
    cases h1 : tgts.foldlM (assignTarget P) s with
    | error e1 =>
      simp only [h1, bind, Except.bind] at h
      cases h
      have : ∀ (ts : List Place) (s : Scope), ts.foldlM (assignTarget P) s ≠ .error .crash := by
        intro ts
        induction ts with
        | nil => intro s h; simp [pure, Except.pure] at h
        | cons t ts ih =>
          intro s h
          rw [List.foldlM_cons] at h
          cases h2 : assignTarget P s t with
          | error e2 =>
            rw [h2] at h
            simp only [bind, Except.bind] at h
            cases h
            unfold assignTarget at h2
            split at h2
            · cases h2
            · have : ∀ (ls : List (Leaf × Bool)) (s : Scope), ls.foldlM assignLeaf s ≠ .error .crash := by
                intro ls
                induction ls with
                | nil => intro s h; simp [pure, Except.pure] at h
                | cons x ls ih2 =>
                  intro s h
                  rw [List.foldlM_cons] at h
                  unfold assignLeaf at h
                  split at h
                  · simp [bind, Except.bind] at h
                  · exact ih2 _ h
              exact this _ _ h2
          | ok s1 => rw [h2] at h; exact ih s1 h
      exact this tgts s h1
    | ok s1 =>
      simp only [h1, bind, Except.bind] at h
      split at h <;> cases h
  all_goals
    unfold assignTargets at h
    cases h1 : tgts.foldlM (assignTarget P) s with
    | error e1 =>
      simp only [h1, bind, Except.bind] at h
      cases h
      have : ∀ (ts : List Place) (s : Scope), ts.foldlM (assignTarget P) s ≠ .error .crash := by
        intro ts
        induction ts with
        | nil => intro s h; simp [pure, Except.pure] at h
        | cons t ts ih =>
          intro s h
          rw [List.foldlM_cons] at h
          cases h2 : assignTarget P s t with
          | error e2 =>
            rw [h2] at h
            simp only [bind, Except.bind] at h
            cases h
            unfold assignTarget at h2
            split at h2
            · cases h2
            · have : ∀ (ls : List (Leaf × Bool)) (s : Scope), ls.foldlM assignLeaf s ≠ .error .crash := by
                intro ls
                induction ls with
                | nil => intro s h; simp [pure, Except.pure] at h
                | cons x ls ih2 =>
                  intro s h
                  rw [List.foldlM_cons] at h
                  unfold assignLeaf at h
                  split at h
                  · simp [bind, Except.bind] at h
                  · exact ih2 _ h
              exact this _ _ h2
          | ok s1 => rw [h2] at h; exact ih s1 h
      exact this tgts s h1
    | ok s1 =>
      simp only [h1, bind, Except.bind] at h
      split at h <;> cases h

theorem checkStmt_crash {P : Prog} {s : Scope} {st : Stmt} (h : checkStmt P s st = .error .crash) :
    ∃ l, Crashes l s (st.evs l) := by
  unfold checkStmt at h
  cases h1 : st.acts.foldlM (doAct P) s with
  | error e1 =>
    simp only [h1, bind, Except.bind] at h
    cases h
    obtain ⟨l, hc⟩ := foldlM_crash (doAct P) (fun l a => a.evs l)
      (fun s s' a ha => ⟨(doAct_proj (l := 0) ha).1.1, fun l => (doAct_proj ha).2.1⟩)
      (fun s a ha => doAct_crash ha) st.acts s h1
    exact ⟨l, hc.append_right _⟩
  | ok s1 =>
    simp only [h1, bind, Except.bind] at h
    split at h
    · cases h
    · exact absurd h assignTargets_no_crash

theorem checkBlock_crash {P : Prog} {b : Blk} (h : checkBlock P b = .error .crash) :
    ∃ l, Crashes l (initScope P b) ((P.stmts b).flatMap (Stmt.evs l)) := by
  unfold checkBlock at h
  exact foldlM_crash (checkStmt P) (fun l st => st.evs l)
    (fun s s' st hs => ⟨(checkStmt_proj (l := 0) hs).1.1, fun l => (checkStmt_proj hs).2.1⟩)
    (fun s st hs => checkStmt_crash hs) (P.stmts b) _ h

/-! ### facts about `nrun` -/

theorem nstep_mono {inPar : Bool} {c c' : NSt} {e : Ev} (h : nstep inPar c e = some c') :
    (c.inVars = true → c'.inVars = true) := by
  rcases c with ⟨a, d⟩
  rcases e with ⟨op, el⟩
  cases op <;> cases a <;> cases d <;> cases inPar <;> simp [nstep] at h <;> subst h <;> simp

theorem nrun_mono {inPar : Bool} {es : List Ev} {c c1 : NSt} (h : nrun inPar c es = some c1) :
    (c.inVars = true → c1.inVars = true) := by
  induction es generalizing c with
  | nil => simp [nrun] at h; subst h; simp
  | cons e es ih =>
    simp only [nrun] at h
    cases h1 : nstep inPar c e with
    | none => simp [h1] at h
    | some c' =>
      simp only [h1] at h
      exact fun x => ih h (nstep_mono h1 x)

/-! ### no crash on a well-kinded CFG -/

theorem all2_mem {α β : Type} {R : α → β → Prop} {l : List α} {l' : List β} (h : All2 R l l') {q : β}
    (hq : q ∈ l') : ∃ a ∈ l, R a q := by
  induction h with
  | nil => cases hq
  | cons hr _ ih =>
    rcases List.mem_cons.mp hq with rfl | hq
    · exact ⟨_, List.mem_cons_self, hr⟩
    · obtain ⟨a, ha, hr'⟩ := ih hq
      exact ⟨a, List.mem_cons_of_mem _ ha, hr'⟩

theorem use_parent_ok {s : Scope} {x : Leaf} (hv : s.vars = []) (hx : x ∈ s.parent) :
    s.use x = .ok { s with usedParent := ins x s.usedParent } := by
  unfold Scope.use
  simp [hv, hx]

theorem checkBlock_no_crash {P : Prog} (hw : P.WF) (hk : P.KindsOK) {b : Blk} (hb : b ∈ P.blocks) :
    checkBlock P b ≠ .error .crash := by
  intro h
  obtain ⟨l, pre, post, c, k, h1, h2, h3, h4⟩ := checkBlock_crash h
  have hv0 : ((initScope P b).nproj l).inVars = false := by
    cases hc : ((initScope P b).nproj l).inVars with
    | false => rfl
    | true => have := nrun_mono h2 hc; rw [h3] at this; cases this
  have hpre : pre = [] := by
    cases pre with
    | nil => rfl
    | cons e es =>
      exfalso
      rw [h4] at h2
      simp only [nrun] at h2
      rcases e with ⟨op, el⟩
      cases op with
      | use => simp [nstep, hv0] at h2
      | give =>
        simp only [nstep] at h2
        have := nrun_mono h2 rfl
        rw [h3] at this; cases this
      | asg =>
        simp only [nstep] at h2
        have := nrun_mono h2 rfl
        rw [h3] at this; cases this
  subst hpre
  have hhead : (P.blockEvs l b).head?.map Ev.isUse = some true := by
    unfold Prog.blockEvs
    rw [h1]; rfl
  have hrow := willUse_row hw hk hb (.here hhead)
  by_cases he : b = P.entry
  · subst he
    simp [initScope, Scope.nproj, hrow] at hv0
  · simp [initScope, he, hrow] at h4

theorem scopes_no_crash {P : Prog} (hw : P.WF) (hk : P.KindsOK) : scopes P ≠ .error .crash := by
  intro h
  unfold scopes at h
  cases h1 : pass1 P with
  | error e1 =>
    simp only [h1, bind, Except.bind] at h
    cases h
    unfold pass1 at h1
    obtain ⟨b, hb, hf⟩ := mapM_err _ _ h1
    cases h2 : checkBlock P b with
    | error e2 =>
      simp [h2, Except.map] at hf
      subst hf
      exact checkBlock_no_crash hw hk hb h2
    | ok s => simp [h2, Except.map] at hf
  | ok tbl1 =>
    simp only [h1, bind, Except.bind] at h
    have f1 := mapM_ok _ _ _ h1
    obtain ⟨q, hq, hf⟩ := mapM_err _ _ h
    have hq' : q.1 ∈ P.blocks ∧ checkBlock P q.1 = .ok q.2 := by
      obtain ⟨b, hb, hbp⟩ := all2_mem f1 hq
      cases h0 : checkBlock P b with
      | error e => simp [h0, Except.map] at hbp
      | ok s0 =>
        simp [h0, Except.map] at hbp
        subst hbp
        exact ⟨hb, h0⟩
    unfold amendExit at hf
    split at hf
    · rename_i hex
      cases h2 : exitUse P q.2 with
      | error e2 =>
        simp [h2, Except.map] at hf
        subst hf
        have hne : P.exit ≠ P.entry := fun e => hw.entryNeExit e.symm
        have hs0 : q.2 = initScope P P.exit := by
          have := hq'.2
          rw [hex] at this
          unfold checkBlock at this
          rw [hw.exitStmts] at this
          simpa [pure, Except.pure] using this.symm
        have : ∀ (ls : List Leaf) (s : Scope), s.vars = [] → (∀ x ∈ ls, x ∈ s.parent) →
            ls.foldlM Scope.use s ≠ .error .crash := by
          intro ls
          induction ls with
          | nil => intro s _ _ h; simp [pure, Except.pure] at h
          | cons x ls ih =>
            intro s hv hall h
            have hx : x ∈ s.parent := hall x List.mem_cons_self
            rw [List.foldlM_cons, use_parent_ok hv hx] at h
            simp only [bind, Except.bind] at h
            exact ih { s with usedParent := ins x s.usedParent } hv
              (fun y hy => hall y (List.mem_cons_of_mem _ hy)) h
        refine this P.borrowedLeaves q.2 (by rw [hs0]; simp [initScope, hne]) ?_ h2
        intro x hx
        rw [hs0]
        simp only [initScope, hne, if_false]
        refine willUse_row hw hk (hex ▸ hq'.1) (.here ?_)
        unfold Prog.blockEvs
        rw [hw.exitStmts]
        simp [hx, Ev.isUse]
      | ok s => simp [h2, Except.map] at hf
    · cases hf

theorem checkEdges_no_crash {P : Prog} (hw : P.WF) (hk : P.KindsOK) (hg : Good P) (hgap : NoGap P)
    (C : PreCert P) (hi : C.init = [])
    {b : Blk} (hb : b ∈ P.blocks) : checkEdges P C.live b (C.sc b) ≠ .error .crash := by
  intro h
  obtain ⟨hpar, _⟩ := blk_run hw C (l := 0) hb
  have hin : ∀ x, x ∈ C.live b → x ∈ (C.sc b).vars ∨ x ∈ (C.sc b).parent := by
    intro x hx
    have hrow := willUse_row hw hk hb (live_willUse hw hk hg hgap C hi hb hx)
    by_cases he : b = P.entry
    · subst he
      left
      obtain ⟨_, h2x⟩ := blk_run hw C (l := x) hb
      have : ((initScope P P.entry).proj x).inVars = true := by simp [initScope, Scope.proj, hrow]
      simpa [Scope.proj] using (crun_mono h2x).1 this
    · right
      rw [hpar.1]
      simp [initScope, he, hrow]
  have hsucc : ∀ c ∈ P.succ b, ∀ x, x ∈ C.live c → x ∈ (C.sc b).vars ∨ x ∈ (C.sc b).parent := by
    intro c hc x hx
    by_cases hv : x ∈ (C.sc b).vars
    · exact Or.inl hv
    · exact hin x (live_of_succ C.liveOK hw.closed hb hc hx hv)
  have hused : ∀ x, x ∈ (C.sc b).vars ∨ x ∈ (C.sc b).parent → (C.sc b).used x ≠ none := by
    intro x hx hu
    unfold Scope.used at hu
    rcases hx with hv | hp
    · simp [hv] at hu
    · by_cases hv : x ∈ (C.sc b).vars <;> simp [hv, hp] at hu
  unfold checkEdges at h
  rcases bind_err_unit h with h | ⟨_, h⟩
  · obtain ⟨c, hc, h⟩ := forM_err _ _ h
    obtain ⟨x, hx, h⟩ := forM_err _ _ h
    unfold checkLiveUsed at h
    split at h
    · cases hu : (C.sc b).used x with
      | none => exact hused x (hsucc c hc x hx) hu
      | some u => cases u <;> simp [hu] at h
    · cases h
  · rcases bind_err_unit h with h | ⟨_, h⟩
    · obtain ⟨x, hx, h⟩ := forM_err _ _ h
      unfold checkLeak at h
      split at h
      · cases h
      · cases hu : (C.sc b).used x with
        | none => exact hused x (Or.inl hx) hu
        | some u =>
          simp only [hu] at h
          split at h <;> cases h
    · rcases bind_err_unit h with h | ⟨_, h⟩
      · obtain ⟨x, hx, h⟩ := forM_err _ _ h
        unfold checkLeak at h
        split at h
        · cases h
        · cases hu : (C.sc b).used x with
          | none => exact hused x (Or.inr (List.mem_filter.mp hx).1) hu
          | some u =>
            simp only [hu] at h
            split at h <;> cases h
      · rcases bind_err_unit h with h | ⟨_, h⟩
        · unfold checkInRow at h
          split at h
          · cases h
          · rename_i hbe
            obtain ⟨x, hx, h⟩ := forM_err _ _ h
            split at h
            · cases h
            · rename_i hnp
              have hbe' : b ≠ P.entry := fun e => hbe (Or.inl e)
              have hrow := willUse_row hw hk hb (live_willUse hw hk hg hgap C hi hb hx)
              rw [hpar.1] at hnp
              simp [initScope, hbe', hrow] at hnp
        · unfold checkOutRows at h
          obtain ⟨c, hc, h⟩ := forM_err _ _ h
          split at h
          · cases h
          · obtain ⟨x, hx, h⟩ := forM_err _ _ h
            split at h
            · cases h
            · rename_i hnp
              rcases hsucc c hc x hx with hv | hp
              · simp [hv] at hnp
              · simp [hp] at hnp

/-- **`checkCfg` cannot crash** on a good, well-kinded program outside the known gaps -/
theorem checkCfg_no_crash {P : Prog} (hw : P.WF) (hk : P.KindsOK) (hg : Good P) (hgap : NoGap P) :
    checkCfg P ≠ .error .crash := by
  intro h
  unfold checkCfg at h
  cases h1 : scopes P with
  | error e1 =>
    simp only [h1, bind, Except.bind] at h
    cases h
    exact scopes_no_crash hw hk h1
  | ok tbl =>
    simp only [h1, bind, Except.bind] at h
    obtain ⟨s1, s2, _⟩ := scopes_ok h1
    cases h2 : Dataflow.liveRun (flowCfg P (lookup tbl)) headSched
        (liveFuel (flowCfg P (lookup tbl)) (liveDefault P))
        (Dataflow.liveInit (flowCfg P (lookup tbl)) (liveDefault P)) with
    | none => simp [h2] at h
    | some t =>
      simp only [h2] at h
      obtain ⟨q, hq, h⟩ := forM_err _ _ h
      let C : PreCert P := ⟨lookup tbl, t.vals, liveDefault P, s1, liveOK_of_run hw.closed _ _ _ _ _ h2,
        by rw [liveDefault_nil hgap]; intro x hx; cases hx⟩
      have h' : checkEdges P C.live q.1 (C.sc q.1) = .error .crash := by
        show checkEdges P t.vals q.1 (lookup tbl q.1) = .error .crash
        rw [← (s2 q hq).2]; exact h
      exact checkEdges_no_crash hw hk hg hgap C (liveDefault_nil hgap) (s2 q hq).1 h'

end GuppyVerif.Linearity
