import GuppyVerif.Lemmas.C06Complete
/-! C06 helper lemmas, part 8: the internal outcome `crash` (a place that is in no scope) cannot
    occur when the block signatures cover what is read (`RowsOK`: what the type checker's
    variable-level liveness guarantees).  For this the scope bookkeeping is projected on an
    arbitrary leaf, linear or not, keeping only what decides crashes and the liveness statistics
    (`nrun`: in `vars`? in `used_parent`?). -/
namespace GuppyVerif.Linearity

open GuppyVerif.Dataflow (LiveSpec LivePath InfPath Edge)

structure NSt where
  inVars : Bool
  usedParent : Bool
  deriving DecidableEq, Repr

def Scope.nproj (s : Scope) (l : Leaf) : NSt := ⟨s.vars.contains l, s.usedParent.contains l⟩

/-- `none` = the place is in no scope (`crash`) -/
def nstep (inPar : Bool) (c : NSt) : Ev → Option NSt
  | .use => if c.inVars then some c else if inPar then some { c with usedParent := true } else none
  | .give => some { c with inVars := true }
  | .asg => some { c with inVars := true }

def nrun (inPar : Bool) (c : NSt) : List Ev → Option NSt
  | [] => some c
  | e :: es => match nstep inPar c e with
    | none => none
    | some c' => nrun inPar c' es

theorem nrun_append (inPar : Bool) (c : NSt) (es fs : List Ev) :
    nrun inPar c (es ++ fs) = (nrun inPar c es).bind fun c' => nrun inPar c' fs := by
  induction es generalizing c with
  | nil => simp [nrun]
  | cons e es ih =>
    simp only [List.cons_append, nrun]
    cases nstep inPar c e with
    | none => simp
    | some c' => simpa using ih c'

theorem nrun_ite (inPar : Bool) (c c' : NSt) (e : Ev) (x l : Leaf)
    (h : if x = l then nstep inPar c e = some c' else c' = c) :
    nrun inPar c (if x = l then [e] else []) = some c' := by
  by_cases hx : x = l
  · simp only [hx, if_true] at h ⊢
    simp [nrun, h]
  · simp only [hx, if_false] at h ⊢
    simp [nrun, h]

/-! ### successful steps, for any leaf -/

theorem useLeaf_nproj {P : Prog} (l : Leaf) {s s' : Scope} {x : Leaf} (h : useLeaf P s x = .ok s') :
    if x = l then nstep (s.parent.contains l) (s.nproj l) .use = some (s'.nproj l) else s'.nproj l = s.nproj l := by
  rcases useLeaf_ok h with ⟨hv, _, rfl⟩ | ⟨hv, hp, _, rfl⟩
  · by_cases hxl : x = l
    · subst hxl; simp [Scope.nproj, nstep, hv]
    · simp [Scope.nproj, hxl]
  · by_cases hxl : x = l
    · subst hxl; simp [Scope.nproj, nstep, hv, hp]
    · have : l ≠ x := fun e => hxl e.symm
      simp [Scope.nproj, hxl, this]

theorem assignLeaf_nproj {P : Prog} (l : Leaf) {s s' : Scope} {x : Leaf} (h : assignLeaf P s x = .ok s') :
    if x = l then nstep (s.parent.contains l) (s.nproj l) .asg = some (s'.nproj l) else s'.nproj l = s.nproj l := by
  unfold assignLeaf at h
  split at h
  · cases h
  · cases h
    by_cases hxl : x = l
    · subst hxl; simp [Scope.nproj, Scope.assign, nstep]
    · have : l ≠ x := fun e => hxl e.symm
      simp [Scope.nproj, Scope.assign, hxl, this]

theorem assign_nproj (l : Leaf) (s : Scope) (x : Leaf) :
    if x = l then nstep (s.parent.contains l) (s.nproj l) .give = some ((s.assign x).nproj l)
    else (s.assign x).nproj l = s.nproj l := by
  by_cases hxl : x = l
  · subst hxl; simp [Scope.nproj, Scope.assign, nstep]
  · have : l ≠ x := fun e => hxl e.symm
    simp [Scope.nproj, Scope.assign, hxl, this]

theorem foldlM_nproj {α : Type} (l : Leaf) (f : Scope → α → R Scope) (ev : α → List Ev)
    (hf : ∀ s s' a, f s a = .ok s' →
      s'.parent = s.parent ∧ nrun (s.parent.contains l) (s.nproj l) (ev a) = some (s'.nproj l)) :
    ∀ (as : List α) (s s' : Scope), as.foldlM f s = .ok s' →
      s'.parent = s.parent ∧ nrun (s.parent.contains l) (s.nproj l) (as.flatMap ev) = some (s'.nproj l) := by
  intro as
  induction as with
  | nil =>
    intro s s' h
    simp [pure, Except.pure] at h
    subst h
    simp [nrun]
  | cons a as ih =>
    intro s s' h
    rw [List.foldlM_cons] at h
    cases h1 : f s a with
    | error e => rw [h1] at h; cases h
    | ok s1 =>
      rw [h1] at h
      obtain ⟨hp1, hc1⟩ := hf s s1 a h1
      obtain ⟨hp2, hc2⟩ := ih s1 s' h
      refine ⟨hp2.trans hp1, ?_⟩
      rw [List.flatMap_cons, nrun_append, hc1]
      simp only [Option.bind]
      rw [← hp1]; exact hc2

theorem foldl_nproj {α : Type} (l : Leaf) (f : Scope → α → Scope) (ev : α → List Ev)
    (hf : ∀ s a, (f s a).parent = s.parent ∧ nrun (s.parent.contains l) (s.nproj l) (ev a) = some ((f s a).nproj l)) :
    ∀ (as : List α) (s : Scope),
      (as.foldl f s).parent = s.parent ∧
        nrun (s.parent.contains l) (s.nproj l) (as.flatMap ev) = some ((as.foldl f s).nproj l) := by
  intro as
  induction as with
  | nil => intro s; simp [nrun]
  | cons a as ih =>
    intro s
    obtain ⟨hp1, hc1⟩ := hf s a
    obtain ⟨hp2, hc2⟩ := ih (f s a)
    refine ⟨by simpa using hp2.trans hp1, ?_⟩
    rw [List.flatMap_cons, nrun_append, hc1]
    simp only [Option.bind, List.foldl_cons]
    rw [← hp1]; exact hc2

theorem visitPlace_nproj {P : Prog} (l : Leaf) {borrow : Bool} {s s' : Scope} {p : Place}
    (h : visitPlace P borrow s p = .ok s') :
    s'.parent = s.parent ∧ nrun (s.parent.contains l) (s.nproj l) (leafEvs .use l p.leaves) = some (s'.nproj l) := by
  have hp := visitPlace_parent h
  unfold visitPlace at h
  split at h
  · cases h
  · exact foldlM_nproj l (useLeaf P) (fun x => if x = l then [Ev.use] else [])
      (fun s s' x hx => ⟨useLeaf_parent hx, nrun_ite _ _ _ _ _ _ (useLeaf_nproj l hx)⟩) p.leaves s s' h

theorem assignTarget_nproj {P : Prog} (l : Leaf) {s s' : Scope} {t : Place} (h : assignTarget P s t = .ok s') :
    s'.parent = s.parent ∧ nrun (s.parent.contains l) (s.nproj l) (leafEvs .asg l t.leaves) = some (s'.nproj l) := by
  unfold assignTarget at h
  split at h
  · cases h
  · exact foldlM_nproj l (assignLeaf P) (fun x => if x = l then [Ev.asg] else [])
      (fun s s' x hx => ⟨assignLeaf_parent hx, nrun_ite _ _ _ _ _ _ (assignLeaf_nproj l hx)⟩) t.leaves s s' h

theorem assignTargets_nproj {P : Prog} (l : Leaf) {s s' : Scope} {tgts : List Place}
    (h : assignTargets P s tgts = .ok s') :
    s'.parent = s.parent ∧ nrun (s.parent.contains l) (s.nproj l) (placesEvs .asg l tgts) = some (s'.nproj l) := by
  unfold assignTargets at h
  cases h1 : tgts.foldlM (assignTarget P) s with
  | error e => simp [h1, bind, Except.bind] at h
  | ok s1 =>
    simp only [h1, bind, Except.bind] at h
    split at h
    · cases h
    · obtain rfl : s1 = s' := by simpa using h
      exact foldlM_nproj l (assignTarget P) (fun t => leafEvs .asg l t.leaves)
        (fun s s' t ht => assignTarget_nproj l ht) tgts s s1 h1

theorem reassignInout_nproj (l : Leaf) (s : Scope) (args : List Arg) :
    (reassignInout s args).parent = s.parent ∧
      nrun (s.parent.contains l) (s.nproj l) (placesEvs .give l ((args.filter Arg.isInout).map Arg.place)) =
        some ((reassignInout s args).nproj l) := by
  have h := foldl_nproj l (fun s (a : Arg) => if a.isInout then a.place.leaves.foldl Scope.assign s else s)
    (fun a => if a.isInout then leafEvs .give l a.place.leaves else [])
    (fun s a => by
      by_cases ha : a.isInout = true
      · simp only [ha, if_true]
        exact foldl_nproj l Scope.assign (fun x => if x = l then [Ev.give] else [])
          (fun s x => ⟨rfl, nrun_ite _ _ _ _ _ _ (assign_nproj l s x)⟩) a.place.leaves s
      · simp [ha, nrun]) args s
  unfold reassignInout
  rw [giveEvs_eq]
  exact h

theorem useEvs_eq (l : Leaf) (args : List Arg) :
    placesEvs .use l (args.map Arg.place) = args.flatMap fun a => leafEvs .use l a.place.leaves := by
  unfold placesEvs; simp [List.flatMap_map]

theorem checkStmt_nproj {P : Prog} (l : Leaf) {s s' : Scope} {st : Stmt} (h : checkStmt P s st = .ok s') :
    s'.parent = s.parent ∧ nrun (s.parent.contains l) (s.nproj l) (st.evs l) = some (s'.nproj l) := by
  cases st with
  | move tgts srcs =>
    simp only [checkStmt] at h
    cases h1 : srcs.foldlM (visitPlace P false) s with
    | error e => simp [h1, bind, Except.bind] at h
    | ok s1 =>
      simp only [h1, bind, Except.bind] at h
      have a := foldlM_nproj l (visitPlace P false) (fun p => leafEvs .use l p.leaves)
        (fun s s' p hp => visitPlace_nproj l hp) srcs s s1 h1
      obtain ⟨b1, b2⟩ := assignTargets_nproj l h
      refine ⟨b1.trans a.1, ?_⟩
      simp only [Stmt.evs, nrun_append]
      unfold placesEvs
      rw [a.2]
      simp only [Option.bind]
      rw [← a.1]; exact b2
  | call tgts args d =>
    simp only [checkStmt] at h
    cases h1 : visitArgs P s args with
    | error e => simp [h1, bind, Except.bind] at h
    | ok s1 =>
      simp only [h1, bind, Except.bind] at h
      split at h
      · cases h
      · have a := foldlM_nproj l (fun s (a : Arg) => visitPlace P a.isInout s a.place)
          (fun a => leafEvs .use l a.place.leaves) (fun s s' a hp => visitPlace_nproj l hp) args s s1 h1
        obtain ⟨r1, r2⟩ := reassignInout_nproj l s1 args
        obtain ⟨b1, b2⟩ := assignTargets_nproj l h
        refine ⟨(b1.trans r1).trans a.1, ?_⟩
        simp only [Stmt.evs, nrun_append]
        rw [useEvs_eq, a.2]
        simp only [Option.bind]
        rw [← a.1, r2]
        simp only [Option.bind]
        rw [← r1]; exact b2
  | ret srcs =>
    simp only [checkStmt] at h
    exact foldlM_nproj l (visitPlace P false) (fun p => leafEvs .use l p.leaves)
      (fun s s' p hp => visitPlace_nproj l hp) srcs s s' h

theorem checkBlock_nproj {P : Prog} (l : Leaf) {b : Blk} {s : Scope} (h : checkBlock P b = .ok s) :
    s.parent = (initScope P b).parent ∧
      nrun ((initScope P b).parent.contains l) ((initScope P b).nproj l) ((P.stmts b).flatMap (Stmt.evs l)) =
        some (s.nproj l) := by
  unfold checkBlock at h
  exact foldlM_nproj l (checkStmt P) (Stmt.evs l) (fun s s' st hs => checkStmt_nproj l hs) (P.stmts b) _ s h

/-! ### facts about `nrun` -/

theorem nstep_mono {inPar : Bool} {c c' : NSt} {e : Ev} (h : nstep inPar c e = some c') :
    (c.inVars = true → c'.inVars = true) ∧ (c.usedParent = true → c'.usedParent = true) ∧
      (c.inVars = true → c'.usedParent = c.usedParent) ∧ (inPar = false → c'.usedParent = c.usedParent) := by
  rcases c with ⟨a, d⟩
  cases e <;> cases a <;> cases d <;> cases inPar <;> simp [nstep] at h <;> subst h <;> simp

theorem nrun_mono {inPar : Bool} {es : List Ev} {c c1 : NSt} (h : nrun inPar c es = some c1) :
    (c.inVars = true → c1.inVars = true) ∧ (c.usedParent = true → c1.usedParent = true) ∧
      (c.inVars = true → c1.usedParent = c.usedParent) ∧ (inPar = false → c1.usedParent = c.usedParent) := by
  induction es generalizing c with
  | nil => simp [nrun] at h; subst h; simp
  | cons e es ih =>
    simp only [nrun] at h
    cases h1 : nstep inPar c e with
    | none => simp [h1] at h
    | some c' =>
      simp only [h1] at h
      obtain ⟨a1, a2, a3, a4⟩ := nstep_mono h1
      obtain ⟨b1, b2, b3, b4⟩ := ih h
      exact ⟨fun x => b1 (a1 x), fun x => b2 (a2 x), fun x => (b3 (a1 x)).trans (a3 x),
        fun x => (b4 x).trans (a4 x)⟩

theorem nrun_usedParent_head {inPar : Bool} {es : List Ev} {c c1 : NSt} (h : nrun inPar c es = some c1)
    (hv : c.inVars = false) (hu : c.usedParent = false) (h1 : c1.usedParent = true) :
    es.head? = some Ev.use := by
  cases es with
  | nil => simp [nrun] at h; subst h; rw [hu] at h1; cases h1
  | cons e es =>
    simp only [nrun] at h
    cases hc : nstep inPar c e with
    | none => simp [hc] at h
    | some c' =>
      simp only [hc] at h
      cases e with
      | use => rfl
      | give =>
        simp [nstep] at hc
        have := (nrun_mono h).2.2.1 (by rw [← hc])
        rw [this, ← hc] at h1
        simp [hu] at h1
      | asg =>
        simp [nstep] at hc
        have := (nrun_mono h).2.2.1 (by rw [← hc])
        rw [this, ← hc] at h1
        simp [hu] at h1

theorem nrun_untouched {inPar : Bool} {es : List Ev} {c c1 : NSt} (h : nrun inPar c es = some c1)
    (hv1 : c1.inVars = false) (hu1 : c1.usedParent = false) (hv : c.inVars = false) : es = [] := by
  cases es with
  | nil => rfl
  | cons e es =>
    exfalso
    simp only [nrun] at h
    cases hc : nstep inPar c e with
    | none => simp [hc] at h
    | some c' =>
      simp only [hc] at h
      obtain ⟨b1, b2, _, _⟩ := nrun_mono h
      cases e with
      | use =>
        simp [nstep, hv] at hc
        obtain ⟨_, hc⟩ := hc
        have := b2 (by rw [← hc])
        rw [hu1] at this; cases this
      | give =>
        simp [nstep] at hc
        have := b1 (by rw [← hc])
        rw [hv1] at this; cases this
      | asg =>
        simp [nstep] at hc
        have := b1 (by rw [← hc])
        rw [hv1] at this; cases this

/-- from a start state without the leaf in `vars` and with no parent entry, a successful run saw
    no `use` before the first definition -/
theorem nrun_noPar_head {es : List Ev} {c c1 : NSt} (h : nrun false c es = some c1) (hv : c.inVars = false) :
    es.head? ≠ some Ev.use := by
  cases es with
  | nil => simp
  | cons e es =>
    simp only [nrun] at h
    cases e with
    | use => simp [nstep, hv] at h
    | give => simp
    | asg => simp

/-- summary of pass 1 (+ exit amendment) for an arbitrary leaf of one block -/
theorem block_nproj {P : Prog} (hw : P.WF) (l : Leaf) {b : Blk} {s : Scope} (h : IsScope P b s) :
    s.parent = (initScope P b).parent ∧
      nrun ((initScope P b).parent.contains l) ((initScope P b).nproj l) (P.blockEvs l b) = some (s.nproj l) := by
  obtain ⟨s0, h0, h1⟩ := h
  obtain ⟨p1, p2⟩ := checkBlock_nproj l h0
  by_cases hb : b = P.exit
  · subst hb
    simp only [if_true] at h1
    have hne : P.exit ≠ P.entry := fun e => hw.entryNeExit e.symm
    have hs0 : s0 = initScope P P.exit := by
      unfold checkBlock at h0
      rw [hw.exitStmts] at h0
      simpa [pure, Except.pure] using h0.symm
    have hv0 : s0.vars = [] := by rw [hs0]; simp [initScope, hne]
    unfold exitUse at h1
    obtain ⟨a1, _, a3, a4, a5⟩ := exitUse_spec _ _ _ hv0 h1
    refine ⟨a3.trans p1, ?_⟩
    unfold Prog.blockEvs
    rw [hw.exitStmts]
    simp only [List.flatMap_nil, List.nil_append, true_and]
    by_cases hbl : l ∈ P.borrowedLeaves
    · have hpar : l ∈ (initScope P P.exit).parent := by rw [← hs0]; exact a5 l hbl
      have hup : l ∈ s.usedParent := (a4 l).mpr (Or.inr hbl)
      simp only [hbl, if_true]
      simp [initScope, hne] at hpar
      simp [nrun, nstep, Scope.nproj, initScope, hne, a1, hup, hpar]
    · have hup : l ∉ s.usedParent := by
        rw [a4]; rw [hs0]; simp [initScope, hne, hbl]
      simp only [hbl, if_false]
      simp [nrun, Scope.nproj, initScope, hne, a1, hup]
  · simp only [hb, if_false] at h1
    subst h1
    refine ⟨p1, ?_⟩
    unfold Prog.blockEvs
    simp only [hb, false_and, if_false, List.append_nil]
    exact p2

/-! ### per-block facts and liveness, for any leaf -/

section
variable {P : Prog} (hw : P.WF) (C : PreCert P) (l : Leaf)
include hw

theorem nblk_run {b : Blk} (hb : b ∈ P.blocks) :
    (C.sc b).parent = (initScope P b).parent ∧
      nrun ((initScope P b).parent.contains l) ((initScope P b).nproj l) (P.blockEvs l b) = some ((C.sc b).nproj l) :=
  block_nproj hw l (C.scope b hb)

theorem n0_usedParent (b : Blk) : ((initScope P b).nproj l).usedParent = false := by
  by_cases hb : b = P.entry
  · subst hb; simp [initScope, Scope.nproj]
  · simp [initScope, Scope.nproj, hb]

theorem nblk_used_head {b : Blk} (hb : b ∈ P.blocks) (hu : l ∈ (C.sc b).usedParent) :
    (P.blockEvs l b).head? = some Ev.use := by
  obtain ⟨_, h2⟩ := nblk_run hw C l hb
  have hu1 : ((C.sc b).nproj l).usedParent = true := by simp [Scope.nproj, hu]
  by_cases he : b = P.entry
  · subst he
    have hp : (initScope P P.entry).parent.contains l = false := by simp [initScope]
    rw [hp] at h2
    have := (nrun_mono h2).2.2.2 rfl
    rw [n0_usedParent hw l, hu1] at this
    cases this
  · refine nrun_usedParent_head h2 ?_ (n0_usedParent hw l b) hu1
    simp [initScope, Scope.nproj, he]

theorem nblk_untouched {b : Blk} (hb : b ∈ P.blocks) (hv : l ∉ (C.sc b).vars) (hu : l ∉ (C.sc b).usedParent) :
    P.blockEvs l b = [] := by
  obtain ⟨_, h2⟩ := nblk_run hw C l hb
  refine nrun_untouched h2 (by simp [Scope.nproj, hv]) (by simp [Scope.nproj, hu]) ?_
  cases hc : ((initScope P b).nproj l).inVars with
  | false => rfl
  | true =>
    have := (nrun_mono h2).1 hc
    simp [Scope.nproj, hv] at this

theorem nwillUse_of_livePath {b : Blk} (hb : b ∈ P.blocks) (h : LivePath (flowCfg P C.sc) l b) :
    WillUse P l b := by
  induction h with
  | use hu => exact .here (nblk_used_head hw C l hb hu)
  | @step b c hna he _ ih =>
    obtain ⟨_, hcb⟩ := flow_edge.mp he
    by_cases hu : l ∈ (C.sc b).usedParent
    · exact .here (nblk_used_head hw C l hb hu)
    · exact .later (nblk_untouched hw C l hb hna hu) hcb (ih (hw.closed b hb c hcb))

theorem nlive_willUse (hi : C.init = []) {b : Blk} (hb : b ∈ P.blocks) (h : l ∈ C.live b) : WillUse P l b := by
  rcases (C.liveOK b hb l).mp h with h | ⟨h, _⟩
  · exact nwillUse_of_livePath hw C l hb h
  · rw [hi] at h; cases h

end

/-- **the block signatures cover what is read**: a leaf that some continuation from the start of
    a block reads before redefining it is in the block's input row (what the type checker's
    variable-level liveness and definite-assignment checks guarantee, C08) -/
def RowsOK (P : Prog) : Prop := ∀ b ∈ P.blocks, ∀ x, WillUse P x b → x ∈ P.row b

/-! ### where pass 1 can crash -/

/-- the bookkeeping of leaf `l`, started in scope `s`, reaches within `evs` a `use` of the leaf
    while it is neither in `vars` nor in the parent scope -/
def Crashes (l : Leaf) (s : Scope) (evs : List Ev) : Prop :=
  ∃ pre post c, evs = pre ++ Ev.use :: post ∧ nrun (s.parent.contains l) (s.nproj l) pre = some c ∧
    c.inVars = false ∧ s.parent.contains l = false

theorem Crashes.append_right {l : Leaf} {s : Scope} {evs : List Ev} (more : List Ev) (h : Crashes l s evs) :
    Crashes l s (evs ++ more) := by
  obtain ⟨pre, post, c, h1, h2, h3, h4⟩ := h
  exact ⟨pre, post ++ more, c, by simp [h1], h2, h3, h4⟩

theorem Crashes.prepend {l : Leaf} {s s1 : Scope} {evs0 evs : List Ev} (hp : s1.parent = s.parent)
    (h0 : nrun (s.parent.contains l) (s.nproj l) evs0 = some (s1.nproj l)) (h : Crashes l s1 evs) :
    Crashes l s (evs0 ++ evs) := by
  obtain ⟨pre, post, c, h1, h2, h3, h4⟩ := h
  refine ⟨evs0 ++ pre, post, c, by simp [h1], ?_, h3, by rw [← hp]; exact h4⟩
  rw [nrun_append, h0]
  simp only [Option.bind]
  rw [← hp]; exact h2

theorem foldlM_crash {α : Type} (f : Scope → α → R Scope) (ev : Leaf → α → List Ev)
    (hok : ∀ s s' a, f s a = .ok s' → s'.parent = s.parent ∧
      ∀ l, nrun (s.parent.contains l) (s.nproj l) (ev l a) = some (s'.nproj l))
    (herr : ∀ s a, f s a = .error .crash → ∃ l, Crashes l s (ev l a)) :
    ∀ (as : List α) (s : Scope), as.foldlM f s = .error .crash → ∃ l, Crashes l s (as.flatMap (ev l)) := by
  intro as
  induction as with
  | nil => intro s h; simp [pure, Except.pure] at h
  | cons a as ih =>
    intro s h
    rw [List.foldlM_cons] at h
    cases h1 : f s a with
    | error e1 =>
      rw [h1] at h
      simp only [bind, Except.bind] at h
      cases h
      obtain ⟨l, hc⟩ := herr s a h1
      exact ⟨l, by simpa [List.flatMap_cons] using hc.append_right _⟩
    | ok s1 =>
      rw [h1] at h
      obtain ⟨hp, hc⟩ := hok s s1 a h1
      obtain ⟨l, hcr⟩ := ih s1 h
      exact ⟨l, by simpa [List.flatMap_cons] using hcr.prepend hp (hc l)⟩

theorem useLeaf_crash {P : Prog} {s : Scope} {x : Leaf} (h : useLeaf P s x = .error .crash) :
    ∃ l, Crashes l s (if x = l then [Ev.use] else []) := by
  refine ⟨x, [], [], s.nproj x, by simp, by simp [nrun], ?_, ?_⟩
  all_goals
    unfold useLeaf Scope.used Scope.use at h
    by_cases hv : x ∈ s.vars
    · by_cases hu : x ∈ s.usedLocal ∧ P.lin x = true
      · simp [hv, hu.1, hu.2] at h
      · by_cases hu' : x ∈ s.usedLocal
        · have : P.lin x = false := by simpa using fun h' => hu ⟨hu', h'⟩
          simp [hv, hu', this] at h
        · simp [hv, hu'] at h
    · by_cases hp : x ∈ s.parent
      · by_cases hu : x ∈ s.usedParent ∧ P.lin x = true
        · simp [hv, hp, hu.1, hu.2] at h
        · by_cases hu' : x ∈ s.usedParent
          · have : P.lin x = false := by simpa using fun h' => hu ⟨hu', h'⟩
            simp [hv, hp, hu', this] at h
          · simp [hv, hp, hu'] at h
      · simp [Scope.nproj, hv, hp]

theorem visitPlace_crash {P : Prog} {borrow : Bool} {s : Scope} {p : Place}
    (h : visitPlace P borrow s p = .error .crash) : ∃ l, Crashes l s (leafEvs .use l p.leaves) := by
  unfold visitPlace at h
  split at h
  · cases h
  · exact foldlM_crash (useLeaf P) (fun l x => if x = l then [Ev.use] else [])
      (fun s s' x hx => ⟨useLeaf_parent hx, fun l => nrun_ite _ _ _ _ _ _ (useLeaf_nproj l hx)⟩)
      (fun s x hx => useLeaf_crash hx) p.leaves s h

theorem assignTargets_no_crash {P : Prog} {s : Scope} {tgts : List Place} :
    assignTargets P s tgts ≠ .error .crash := by
  intro h
  unfold assignTargets at h
  cases h1 : tgts.foldlM (assignTarget P) s with
  | error e1 =>
    simp only [h1, bind, Except.bind] at h
    cases h
    -- a failing `assignTarget` raises BorrowShadowed or PlaceNotUsed
    have : ∀ (ts : List Place) (s : Scope), ts.foldlM (assignTarget P) s ≠ .error .crash := by
      intro ts
      induction ts with
      | nil => intro s h; simp [pure, Except.pure] at h
      | cons t ts ih =>
        intro s h
        rw [List.foldlM_cons] at h
        cases h2 : assignTarget P s t with
        | error e2 =>
          rw [h2] at h
          simp only [bind, Except.bind] at h
          cases h
          unfold assignTarget at h2
          split at h2
          · cases h2
          · have : ∀ (ls : List Leaf) (s : Scope), ls.foldlM (assignLeaf P) s ≠ .error .crash := by
              intro ls
              induction ls with
              | nil => intro s h; simp [pure, Except.pure] at h
              | cons x ls ih2 =>
                intro s h
                rw [List.foldlM_cons] at h
                unfold assignLeaf at h
                split at h
                · simp [bind, Except.bind] at h
                · exact ih2 _ h
            exact this _ _ h2
        | ok s1 => rw [h2] at h; exact ih s1 h
    exact this tgts s h1
  | ok s1 =>
    simp only [h1, bind, Except.bind] at h
    split at h <;> cases h

theorem checkStmt_crash {P : Prog} {s : Scope} {st : Stmt} (h : checkStmt P s st = .error .crash) :
    ∃ l, Crashes l s (st.evs l) := by
  cases st with
  | move tgts srcs =>
    simp only [checkStmt] at h
    cases h1 : srcs.foldlM (visitPlace P false) s with
    | error e1 =>
      simp only [h1, bind, Except.bind] at h
      cases h
      obtain ⟨l, hc⟩ := foldlM_crash (visitPlace P false) (fun l p => leafEvs .use l p.leaves)
        (fun s s' p hp => ⟨visitPlace_parent hp, fun l => (visitPlace_nproj l hp).2⟩)
        (fun s p hp => visitPlace_crash hp) srcs s h1
      exact ⟨l, hc.append_right _⟩
    | ok s1 =>
      simp only [h1, bind, Except.bind] at h
      exact absurd h assignTargets_no_crash
  | call tgts args d =>
    simp only [checkStmt] at h
    cases h1 : visitArgs P s args with
    | error e1 =>
      simp only [h1, bind, Except.bind] at h
      cases h
      obtain ⟨l, hc⟩ := foldlM_crash (fun s (a : Arg) => visitPlace P a.isInout s a.place)
        (fun l a => leafEvs .use l a.place.leaves)
        (fun s s' a hp => ⟨visitPlace_parent hp, fun l => (visitPlace_nproj l hp).2⟩)
        (fun s a hp => visitPlace_crash hp) args s h1
      refine ⟨l, ?_⟩
      simp only [Stmt.evs, List.append_assoc]
      rw [useEvs_eq]
      exact hc.append_right _
    | ok s1 =>
      simp only [h1, bind, Except.bind] at h
      split at h
      · cases h
      · exact absurd h assignTargets_no_crash
  | ret srcs =>
    simp only [checkStmt] at h
    exact foldlM_crash (visitPlace P false) (fun l p => leafEvs .use l p.leaves)
      (fun s s' p hp => ⟨visitPlace_parent hp, fun l => (visitPlace_nproj l hp).2⟩)
      (fun s p hp => visitPlace_crash hp) srcs s h

theorem checkBlock_crash {P : Prog} {b : Blk} (h : checkBlock P b = .error .crash) :
    ∃ l, Crashes l (initScope P b) ((P.stmts b).flatMap (Stmt.evs l)) := by
  unfold checkBlock at h
  exact foldlM_crash (checkStmt P) (fun l st => st.evs l)
    (fun s s' st hs => ⟨checkStmt_parent hs, fun l => (checkStmt_nproj l hs).2⟩)
    (fun s st hs => checkStmt_crash hs) (P.stmts b) _ h

/-! ### no crash when the rows cover what is read -/

theorem all2_mem {α β : Type} {R : α → β → Prop} {l : List α} {l' : List β} (h : All2 R l l') {q : β}
    (hq : q ∈ l') : ∃ a ∈ l, R a q := by
  induction h with
  | nil => cases hq
  | cons hr _ ih =>
    rcases List.mem_cons.mp hq with rfl | hq
    · exact ⟨_, List.mem_cons_self, hr⟩
    · obtain ⟨a, ha, hr'⟩ := ih hq
      exact ⟨a, List.mem_cons_of_mem _ ha, hr'⟩

theorem use_parent_ok {s : Scope} {x : Leaf} (hv : s.vars = []) (hx : x ∈ s.parent) :
    s.use x = .ok { s with usedParent := ins x s.usedParent } := by
  unfold Scope.use
  simp [hv, hx]

theorem checkBlock_no_crash {P : Prog} (hw : P.WF) (hrows : RowsOK P) {b : Blk} (hb : b ∈ P.blocks) :
    checkBlock P b ≠ .error .crash := by
  intro h
  obtain ⟨l, pre, post, c, h1, h2, h3, h4⟩ := checkBlock_crash h
  -- nothing happened to `l` before the crashing use
  have hv0 : ((initScope P b).nproj l).inVars = false := by
    cases hc : ((initScope P b).nproj l).inVars with
    | false => rfl
    | true => have := (nrun_mono h2).1 hc; rw [h3] at this; cases this
  have hpre : pre = [] := by
    cases pre with
    | nil => rfl
    | cons e es =>
      exfalso
      rw [h4] at h2
      have hne := nrun_noPar_head h2 hv0
      simp only [nrun] at h2
      cases e with
      | use => simp at hne
      | give =>
        simp only [nstep] at h2
        have := (nrun_mono h2).1 rfl
        rw [h3] at this; cases this
      | asg =>
        simp only [nstep] at h2
        have := (nrun_mono h2).1 rfl
        rw [h3] at this; cases this
  subst hpre
  have hhead : (P.blockEvs l b).head? = some Ev.use := by
    unfold Prog.blockEvs
    rw [h1]; rfl
  have hrow := hrows b hb l (.here hhead)
  by_cases he : b = P.entry
  · subst he
    simp [initScope, Scope.nproj, hrow] at hv0
  · simp [initScope, he, hrow] at h4

theorem scopes_no_crash {P : Prog} (hw : P.WF) (hrows : RowsOK P) : scopes P ≠ .error .crash := by
  intro h
  unfold scopes at h
  cases h1 : pass1 P with
  | error e1 =>
    simp only [h1, bind, Except.bind] at h
    cases h
    unfold pass1 at h1
    obtain ⟨b, hb, hf⟩ := mapM_err _ _ h1
    cases h2 : checkBlock P b with
    | error e2 =>
      simp [h2, Except.map] at hf
      subst hf
      exact checkBlock_no_crash hw hrows hb h2
    | ok s => simp [h2, Except.map] at hf
  | ok tbl1 =>
    simp only [h1, bind, Except.bind] at h
    have f1 := mapM_ok _ _ _ h1
    obtain ⟨q, hq, hf⟩ := mapM_err _ _ h
    -- q = (exit, scope of the exit after pass 1)
    have hq' : q.1 ∈ P.blocks ∧ checkBlock P q.1 = .ok q.2 := by
      obtain ⟨b, hb, hbp⟩ := all2_mem f1 hq
      cases h0 : checkBlock P b with
      | error e => simp [h0, Except.map] at hbp
      | ok s0 =>
        simp [h0, Except.map] at hbp
        subst hbp
        exact ⟨hb, h0⟩
    unfold amendExit at hf
    split at hf
    · rename_i hex
      cases h2 : exitUse P q.2 with
      | error e2 =>
        simp [h2, Except.map] at hf
        subst hf
        -- some borrowed leaf is not in the exit block's row
        have hne : P.exit ≠ P.entry := fun e => hw.entryNeExit e.symm
        have hs0 : q.2 = initScope P P.exit := by
          have := hq'.2
          rw [hex] at this
          unfold checkBlock at this
          rw [hw.exitStmts] at this
          simpa [pure, Except.pure] using this.symm
        have : ∀ (ls : List Leaf) (s : Scope), s.vars = [] → (∀ x ∈ ls, x ∈ s.parent) →
            ls.foldlM Scope.use s ≠ .error .crash := by
          intro ls
          induction ls with
          | nil => intro s _ _ h; simp [pure, Except.pure] at h
          | cons x ls ih =>
            intro s hv hall h
            have hx : x ∈ s.parent := hall x List.mem_cons_self
            rw [List.foldlM_cons, use_parent_ok hv hx] at h
            simp only [bind, Except.bind] at h
            exact ih { s with usedParent := ins x s.usedParent } hv
              (fun y hy => hall y (List.mem_cons_of_mem _ hy)) h
        refine this P.borrowedLeaves q.2 (by rw [hs0]; simp [initScope, hne]) ?_ h2
        intro x hx
        rw [hs0]
        simp only [initScope, hne, if_false]
        refine hrows P.exit (hex ▸ hq'.1) x (.here ?_)
        unfold Prog.blockEvs
        rw [hw.exitStmts]
        simp [hx]
      | ok s => simp [h2, Except.map] at hf
    · cases hf

theorem checkEdges_no_crash {P : Prog} (hw : P.WF) (hrows : RowsOK P) (C : PreCert P) (hi : C.init = [])
    {b : Blk} (hb : b ∈ P.blocks) : checkEdges P C.live b (C.sc b) ≠ .error .crash := by
  intro h
  obtain ⟨hpar, h2⟩ := nblk_run hw C 0 hb
  -- a leaf live at the start of `b` is in `b`'s scope
  have hin : ∀ x, x ∈ C.live b → x ∈ (C.sc b).vars ∨ x ∈ (C.sc b).parent := by
    intro x hx
    have hrow := hrows b hb x (nlive_willUse hw C x hi hb hx)
    by_cases he : b = P.entry
    · subst he
      left
      obtain ⟨_, h2x⟩ := nblk_run hw C x hb
      have : ((initScope P P.entry).nproj x).inVars = true := by simp [initScope, Scope.nproj, hrow]
      simpa [Scope.nproj] using (nrun_mono h2x).1 this
    · right
      rw [hpar]
      simp [initScope, he, hrow]
  have hsucc : ∀ c ∈ P.succ b, ∀ x, x ∈ C.live c → x ∈ (C.sc b).vars ∨ x ∈ (C.sc b).parent := by
    intro c hc x hx
    by_cases hv : x ∈ (C.sc b).vars
    · exact Or.inl hv
    · exact hin x (live_of_succ C.liveOK hw.closed hb hc hx hv)
  unfold checkEdges at h
  rcases bind_err_unit h with h | ⟨_, h⟩
  · obtain ⟨c, hc, h⟩ := forM_err _ _ h
    obtain ⟨x, hx, h⟩ := forM_err _ _ h
    unfold checkLiveUsed at h
    split at h
    · cases hu : (C.sc b).used x with
      | none =>
        unfold Scope.used at hu
        rcases hsucc c hc x hx with hv | hp
        · simp [hv] at hu
        · by_cases hv : x ∈ (C.sc b).vars <;> simp [hv, hp] at hu
      | some u => cases u <;> simp [hu] at h
    · cases h
  · rcases bind_err_unit h with h | ⟨_, h⟩
    · obtain ⟨x, hx, h⟩ := forM_err _ _ h
      unfold checkLeak at h
      split at h
      · cases h
      · cases hu : (C.sc b).used x with
        | none =>
          unfold Scope.used at hu
          rcases List.mem_append.mp hx with hv | hp
          · simp [hv] at hu
          · have hp' := (List.mem_filter.mp hp).1
            by_cases hv : x ∈ (C.sc b).vars <;> simp [hv, hp'] at hu
        | some u =>
          simp only [hu] at h
          split at h <;> cases h
    · rcases bind_err_unit h with h | ⟨_, h⟩
      · unfold checkInRow at h
        split at h
        · cases h
        · rename_i hbe
          obtain ⟨x, hx, h⟩ := forM_err _ _ h
          split at h
          · cases h
          · rename_i hnp
            have hbe' : b ≠ P.entry := fun e => hbe (Or.inl e)
            have hrow := hrows b hb x (nlive_willUse hw C x hi hb hx)
            rw [hpar] at hnp
            simp [initScope, hbe', hrow] at hnp
      · unfold checkOutRows at h
        obtain ⟨c, hc, h⟩ := forM_err _ _ h
        split at h
        · cases h
        · obtain ⟨x, hx, h⟩ := forM_err _ _ h
          split at h
          · cases h
          · rename_i hnp
            rcases hsucc c hc x hx with hv | hp
            · simp [hv] at hnp
            · simp [hp] at hnp

/-- **`checkCfg` cannot crash** when the rows cover what is read and the liveness analysis starts
    from the empty set (`NoGap`) -/
theorem checkCfg_no_crash {P : Prog} (hw : P.WF) (hrows : RowsOK P) (hgap : NoGap P) :
    checkCfg P ≠ .error .crash := by
  intro h
  unfold checkCfg at h
  cases h1 : scopes P with
  | error e1 =>
    simp only [h1, bind, Except.bind] at h
    cases h
    exact scopes_no_crash hw hrows h1
  | ok tbl =>
    simp only [h1, bind, Except.bind] at h
    obtain ⟨s1, s2, _⟩ := scopes_ok h1
    cases h2 : Dataflow.liveRun (flowCfg P (lookup tbl)) headSched
        (liveFuel (flowCfg P (lookup tbl)) (liveDefault P))
        (Dataflow.liveInit (flowCfg P (lookup tbl)) (liveDefault P)) with
    | none => simp [h2] at h
    | some t =>
      simp only [h2] at h
      obtain ⟨q, hq, h⟩ := forM_err _ _ h
      let C : PreCert P := ⟨lookup tbl, t.vals, liveDefault P, s1, liveOK_of_run hw.closed _ _ _ _ _ h2,
        by rw [liveDefault_nil hgap]; intro x hx; cases hx⟩
      have h' : checkEdges P C.live q.1 (C.sc q.1) = .error .crash := by
        show checkEdges P t.vals q.1 (lookup tbl q.1) = .error .crash
        rw [← (s2 q hq).2]; exact h
      exact checkEdges_no_crash hw hrows C (liveDefault_nil hgap) (s2 q hq).1 h'

end GuppyVerif.Linearity
