import GuppyVerif.Lemmas.C03Top
/-! # C03 helper lemmas: every block has at most two successors, and two only with a branch predicate -/
namespace GuppyVerif.Builder
open GuppyVerif.Surface

/-- well-shaped block: at most two successors; two successors only together with a branch predicate -/
def okB (B : Block) : Prop := B.succs.length ≤ 2 ∧ (B.succs.length = 2 → B.pred ≠ none)

def AllOk (σ : BState) : Prop := ∀ i, okB (σ.blk i)

theorem okB_empty : okB {} := ⟨by decide, by intro h; cases h⟩

theorem allOk_newBB {σ : BState} (h : AllOk σ) : AllOk (newBB σ).2 := by
  intro i
  by_cases hi : i < σ.len
  · rw [blk_newBB_old σ i hi]; exact h i
  · by_cases hi' : i = σ.len
    · subst hi'; rw [blk_newBB_new]; exact okB_empty
    · rw [empty_of_ge _ (by simp; omega)]; exact okB_empty

theorem allOk_upd_core {σ : BState} (h : AllOk σ) (j : Nat) (f : Block → Block)
    (hf : ∀ B, (f B).succs = B.succs ∧ (f B).pred = B.pred) : AllOk (σ.upd j f) := by
  intro i
  by_cases hij : i = j
  · subst hij
    by_cases hl : i < σ.len
    · rw [blk_upd_same _ _ _ hl]
      have := h i
      unfold okB at this ⊢
      rw [(hf _).1, (hf _).2]; exact this
    · rw [empty_of_ge _ (by simp only [len_upd]; omega)]; exact okB_empty
  · rw [blk_upd_other _ _ _ _ hij]; exact h i

theorem allOk_addStmt {σ : BState} (h : AllOk σ) (b : Nat) (s : BStmt) : AllOk (addStmt b s σ) :=
  allOk_upd_core h b _ (fun _ => ⟨rfl, rfl⟩)
theorem allOk_dummyLink {σ : BState} (h : AllOk σ) (a b : Nat) : AllOk (dummyLink a b σ) :=
  allOk_upd_core h a _ (fun _ => ⟨rfl, rfl⟩)
theorem allOk_freshTmp {σ : BState} (h : AllOk σ) : AllOk (freshTmp σ).2 := h
theorem allOk_flags {σ : BState} (h : AllOk σ) (v w : Bool) : AllOk { σ with bad := v, internal := w } := h

theorem allOk_link {σ : BState} (h : AllOk σ) {a : Nat} (t : Nat) (ho : (σ.blk a).succs = []) : AllOk (link a t σ) := by
  intro i
  by_cases hia : i = a
  · subst hia
    by_cases hl : i < σ.len
    · rw [blk_link_same _ _ _ hl, ho]; exact ⟨by simp, by intro h; simp at h⟩
    · rw [empty_of_ge _ (by simp only [len_link]; omega)]; exact okB_empty
  · rw [blk_link_other _ _ _ _ hia]; exact h i

theorem allOk_branchOn {σ : BState} (h : AllOk σ) {b : Nat} (p : Expr) (t f : Nat) (ho : (σ.blk b).succs = []) :
    AllOk (branchOn b p t f σ) := by
  intro i
  by_cases hib : i = b
  · subst hib
    by_cases hl : i < σ.len
    · rw [blk_branchOn_same _ _ _ _ _ hl, ho]; exact ⟨by simp, by intro _; simp⟩
    · rw [empty_of_ge _ (by simp only [len_branchOn]; omega)]; exact okB_empty
  · rw [blk_branchOn_other _ _ _ _ _ _ hib]; exact h i

/-- the merge of two open blocks (`tmp = …` in each, then `new_bb(p, q)`) keeps all blocks well shaped -/
theorem allOk_mergeSt {σ2 : BState} (h : AllOk σ2) {p q : Nat} (ep eq : Expr) (hp : p < σ2.len) (hq : q < σ2.len)
    (hpq : p ≠ q) (hpo : (σ2.blk p).succs = []) (hqo : (σ2.blk q).succs = []) : AllOk (mergeSt p q ep eq σ2) := by
  unfold mergeSt
  have h1 := allOk_addStmt (allOk_freshTmp h) p (.assign (.tmp σ2.nextTmp) ep)
  have h2 := allOk_addStmt h1 q (.assign (.tmp σ2.nextTmp) eq)
  have h3 := allOk_newBB h2
  have op : ((newBB (addStmt q (.assign (.tmp σ2.nextTmp) eq)
      (addStmt p (.assign (.tmp σ2.nextTmp) ep) (freshTmp σ2).2))).2.blk p).succs = [] := by
    rw [blk_newBB_old _ _ (by simpa using hp), blk_addStmt_other _ _ _ _ hpq, blk_addStmt_same p _ (freshTmp σ2).2 hp]; exact hpo
  have h4 := allOk_link h3 σ2.len op
  have oq : ((link p σ2.len (newBB (addStmt q (.assign (.tmp σ2.nextTmp) eq)
      (addStmt p (.assign (.tmp σ2.nextTmp) ep) (freshTmp σ2).2))).2).blk q).succs = [] := by
    rw [blk_link_other _ _ _ _ (Ne.symm hpq), blk_newBB_old _ _ (by simpa using hq),
      blk_addStmt_same _ _ _ (by simpa using hq), blk_addStmt_other p q _ (freshTmp σ2).2 (Ne.symm hpq)]; exact hqo
  exact allOk_link h4 σ2.len oq

def ShapeE (e : Expr) : Prop := ∀ (m : Mode) (b : Nat) (σ : BState), b < σ.len → (σ.blk b).succs = [] →
  AllOk σ → AllOk (bld e m b σ).2.2

theorem shape_finish (m : Mode) (e : Expr) {b : Nat} {σ : BState} (h : AllOk σ) (ho : (σ.blk b).succs = []) :
    AllOk (finish m e b σ).2.2 := by
  cases m with
  | val => exact h
  | br t f => exact allOk_branchOn h e t f ho

/-- shape of `new x; F1 from b; F2 from x` -/
theorem shape_sc_body {σp : BState} {b : Nat} (hb : b < σp.len) (ho : (σp.blk b).succs = []) (hok : AllOk σp)
    (F1 F2 : BState → BState)
    (tF1 : ∀ σ, b < σ.len → (σ.blk b).succs = [] → Touch σ b (F1 σ))
    (hF1 : ∀ σ, b < σ.len → (σ.blk b).succs = [] → AllOk σ → AllOk (F1 σ))
    (hF2 : ∀ σ, σp.len < σ.len → (σ.blk σp.len).succs = [] → AllOk σ → AllOk (F2 σ)) :
    AllOk (F2 (F1 (newBB σp).2)) := by
  have hb' : b < (newBB σp).2.len := by simp; omega
  have ho' : ((newBB σp).2.blk b).succs = [] := by rw [blk_newBB_old σp b hb]; exact ho
  have t1 := tF1 _ hb' ho'
  have hl1 := t1.len
  simp only [len_newBB] at hl1
  have hxo : ((F1 (newBB σp).2).blk σp.len).succs = [] := by
    rw [t1.frame _ (by simp) (by omega), blk_newBB_new]
  exact hF2 _ (by omega) hxo (hF1 _ hb' ho' (allOk_newBB hok))

theorem shape_scPost_val {σ σ2 : BState} {b : Nat} (hb : b < σ.len) (hT : Touch (newBB (newBB σ).2).2 b σ2)
    (hok : AllOk σ2) : AllOk (scPost .val σ.len (σ.len + 1) b σ2).2.2 := by
  rw [scPost_val_eq]
  have hlen := hT.len
  simp only [len_newBB] at hlen
  have hte : σ2.blk σ.len = {} := by
    rw [hT.frame σ.len (by simp; omega) (by omega), blk_newBB_old _ _ (by simp), blk_newBB_new]
  have hfe : σ2.blk (σ.len + 1) = {} := by
    rw [hT.frame (σ.len + 1) (by simp) (by omega)]
    have := blk_newBB_new (newBB σ).2
    simp only [len_newBB] at this
    exact this
  exact allOk_mergeSt hok _ _ (by omega) (by omega) (by omega) (by rw [hte]) (by rw [hfe])

theorem allOk_preBind {σ : BState} (h : AllOk σ) (c : Bool) (e : Expr) (b : Nat) : AllOk (preBind c e b σ).2 := by
  cases c with
  | false => exact h
  | true =>
    simp only [preBind, if_true, bindTmp]
    exact allOk_addStmt (allOk_freshTmp h) _ _

theorem shape_cmp2_body {o1 o2 : CmpOp} {l mid r : Expr} (hl : ShapeE l) (hm : ShapeE mid) (hr : ShapeE r)
    {σp : BState} {b : Nat} (hb : b < σp.len) (ho : (σp.blk b).succs = []) (hok : AllOk σp) (t' f' : Nat) :
    AllOk (cmp2Body o1 o2 l mid r t' f' b σp) := by
  simp only [cmp2Body, fst_newBB]
  have hb' : b < (newBB σp).2.len := by simp; omega
  have ho' : ((newBB σp).2.blk b).succs = [] := by rw [blk_newBB_old σp b hb]; exact ho
  have ga : GoodV _ b (bld l .val b (newBB σp).2).2.1 (bld l .val b (newBB σp).2).2.2 := bld_good l .val b _ hb' ho'
  have ka := hl .val b _ hb' ho' (allOk_newBB hok)
  generalize bld l .val b (newBB σp).2 = a at *
  have gp := preBind_good hb' ga ((lifts mid || !atomicSyn mid) && needBind a.1 mid) a.1
  have kp := allOk_preBind ka ((lifts mid || !atomicSyn mid) && needBind a.1 mid) a.1 a.2.1
  generalize preBind ((lifts mid || !atomicSyn mid) && needBind a.1 mid) a.1 a.2.1 a.2.2 = p at *
  have gc : GoodV _ _ (bld mid .val a.2.1 p.2).2.1 (bld mid .val a.2.1 p.2).2.2 := bld_good mid .val _ _ gp.lt gp.opn
  have kc := hm .val _ _ gp.lt gp.opn kp
  have gac := GoodV.trans hb' gp gc
  generalize bld mid .val a.2.1 p.2 = c at *
  have gm := preBind_good hb' gac (!stable c.1 r) c.1
  have km := allOk_preBind kc (!stable c.1 r) c.1 c.2.1
  generalize preBind (!stable c.1 r) c.1 c.2.1 c.2.2 = pm at *
  have t1 : Touch (newBB σp).2 b (branchOn c.2.1 (.bi (.cmp o1) p.1 pm.1) σp.len f' pm.2) :=
    gm.touch.trans (touch_branchOn _ _ _ _ _) hb' gm.cur
  have k1 := allOk_branchOn km (.bi (.cmp o1) p.1 pm.1) σp.len f' gm.opn
  generalize hσ1 : branchOn c.2.1 (.bi (.cmp o1) p.1 pm.1) σp.len f' pm.2 = σ1 at *
  have hl1 := t1.len
  simp only [len_newBB] at hl1
  have hxo : (σ1.blk σp.len).succs = [] := by
    rw [t1.frame _ (by simp) (by omega), blk_newBB_new]
  have g0 : GoodV σ1 σp.len σp.len σ1 := GoodV.refl (by omega) hxo
  have gp2 := preBind_good (σ := σ1) (by omega) g0 (lifts r && needBind pm.1 r) pm.1
  have kp2 := allOk_preBind k1 (lifts r && needBind pm.1 r) pm.1 σp.len
  generalize preBind (lifts r && needBind pm.1 r) pm.1 σp.len σ1 = p2 at *
  have gd : GoodV _ _ (bld r .val σp.len p2.2).2.1 (bld r .val σp.len p2.2).2.2 := bld_good r .val _ _ gp2.lt gp2.opn
  have kd := hr .val _ _ gp2.lt gp2.opn kp2
  exact allOk_branchOn kd _ _ _ gd.opn

theorem shape_bld (e : Expr) : ShapeE e := by
  induction e with
  | var x => intro m b σ _ ho h; exact shape_finish m _ h ho
  | num n => intro m b σ _ ho h; exact shape_finish m _ h ho
  | call0 g => intro m b σ _ ho h; exact shape_finish m _ h ho
  | bool v =>
    intro m b σ _ ho h
    cases m with
    | val => exact h
    | br t f => simp only [bld]; exact allOk_dummyLink (allOk_link h _ ho) _ _
  | un o e ih =>
    intro m b σ hb ho h
    have g : GoodV σ b (bld e .val b σ).2.1 (bld e .val b σ).2.2 := bld_good e .val b σ hb ho
    have hv := ih .val b σ hb ho h
    cases hf : foldNeg o e with
    | some n =>
      have : bld (.un o e) m b σ = finish m (.num n) b σ ∨ (∃ t f, m = .br t f ∧ o = .not) := by
        cases o <;> cases m <;> simp [bld, hf]
      rcases this with h1 | ⟨t, f, rfl, rfl⟩
      · rw [h1]; exact shape_finish m _ h ho
      · simp only [bld]; exact ih (.br f t) b σ hb ho h
    | none =>
      have : bld (.un o e) m b σ = finish m (.un o (bld e .val b σ).1) (bld e .val b σ).2.1 (bld e .val b σ).2.2 ∨
          (∃ t f, m = .br t f ∧ o = .not) := by
        cases o <;> cases m <;> simp [bld, hf]
      rcases this with h1 | ⟨t, f, rfl, rfl⟩
      · rw [h1]; exact shape_finish m _ hv g.opn
      · simp only [bld]; exact ih (.br f t) b σ hb ho h
  | bi o l r ihl ihr =>
    intro m b σ hb ho h
    have ga : GoodV σ b (bld l .val b σ).2.1 (bld l .val b σ).2.2 := bld_good l .val b σ hb ho
    have ka := ihl .val b σ hb ho h
    simp only [bld]
    generalize bld l .val b σ = a at *
    have gp := preBind_good hb ga (lifts r && needBind a.1 r) a.1
    have kp := allOk_preBind ka (lifts r && needBind a.1 r) a.1 a.2.1
    generalize preBind (lifts r && needBind a.1 r) a.1 a.2.1 a.2.2 = p at *
    have gc : GoodV _ _ (bld r .val a.2.1 p.2).2.1 (bld r .val a.2.1 p.2).2.2 := bld_good r .val _ _ gp.lt gp.opn
    exact shape_finish m _ (ihr .val _ _ gp.lt gp.opn kp) gc.opn
  | walrus x e ih =>
    intro m b σ hb ho h
    have g : GoodV σ b (bld e .val b σ).2.1 (bld e .val b σ).2.2 := bld_good e .val b σ hb ho
    simp only [bld]
    exact shape_finish m _ (allOk_addStmt (ih .val b σ hb ho h) _ _)
      (by rw [blk_addStmt_same _ _ _ g.lt]; exact g.opn)
  | and l r ihl ihr =>
    intro m b σ hb ho h
    cases m with
    | br t f =>
      simp only [bld, scPre, scPost, fst_newBB]
      exact shape_sc_body hb ho h (fun s => (bld l (.br σ.len f) b s).2.2) (fun s => (bld r (.br t f) σ.len s).2.2)
        (fun s h1 h2 => bld_good l (.br σ.len f) b s h1 h2)
        (fun s h1 h2 h3 => ihl (.br σ.len f) b s h1 h2 h3) (fun s h1 h2 h3 => ihr (.br t f) σ.len s h1 h2 h3)
    | val =>
      simp only [bld, scPre_val, fst_newBB, len_newBB]
      have hb' : b < (newBB (newBB σ).2).2.len := by simp; omega
      have ho' : ((newBB (newBB σ).2).2.blk b).succs = [] := by
        rw [blk_newBB_old _ b (by simp; omega), blk_newBB_old σ b hb]; exact ho
      have hT := (sc_body hb' ho' (σ.len + 1 + 1) (by simp)
        (fun s => (bld l (.br (σ.len + 1 + 1) (σ.len + 1)) b s).2.2)
        (fun s => (bld r (.br σ.len (σ.len + 1)) (σ.len + 1 + 1) s).2.2)
        (fun s h1 h2 => bld_good l (.br _ _) b s h1 h2) (fun s h1 h2 => bld_good r (.br _ _) _ s h1 h2)).1
      have hok := shape_sc_body hb' ho' (allOk_newBB (allOk_newBB h))
        (fun s => (bld l (.br (σ.len + 1 + 1) (σ.len + 1)) b s).2.2)
        (fun s => (bld r (.br σ.len (σ.len + 1)) (σ.len + 1 + 1) s).2.2)
        (fun s h1 h2 => bld_good l (.br _ _) b s h1 h2)
        (fun s h1 h2 h3 => ihl (.br _ _) b s h1 h2 h3)
        (fun s h1 h2 h3 => ihr (.br _ _) _ s (by simpa using h1) (by simpa using h2) h3)
      exact shape_scPost_val hb hT hok
  | or l r ihl ihr =>
    intro m b σ hb ho h
    cases m with
    | br t f =>
      simp only [bld, scPre, scPost, fst_newBB]
      exact shape_sc_body hb ho h (fun s => (bld l (.br t σ.len) b s).2.2) (fun s => (bld r (.br t f) σ.len s).2.2)
        (fun s h1 h2 => bld_good l (.br t σ.len) b s h1 h2)
        (fun s h1 h2 h3 => ihl (.br t σ.len) b s h1 h2 h3) (fun s h1 h2 h3 => ihr (.br t f) σ.len s h1 h2 h3)
    | val =>
      simp only [bld, scPre_val, fst_newBB, len_newBB]
      have hb' : b < (newBB (newBB σ).2).2.len := by simp; omega
      have ho' : ((newBB (newBB σ).2).2.blk b).succs = [] := by
        rw [blk_newBB_old _ b (by simp; omega), blk_newBB_old σ b hb]; exact ho
      have hT := (sc_body hb' ho' (σ.len + 1 + 1) (by simp)
        (fun s => (bld l (.br σ.len (σ.len + 1 + 1)) b s).2.2)
        (fun s => (bld r (.br σ.len (σ.len + 1)) (σ.len + 1 + 1) s).2.2)
        (fun s h1 h2 => bld_good l (.br _ _) b s h1 h2) (fun s h1 h2 => bld_good r (.br _ _) _ s h1 h2)).1
      have hok := shape_sc_body hb' ho' (allOk_newBB (allOk_newBB h))
        (fun s => (bld l (.br σ.len (σ.len + 1 + 1)) b s).2.2)
        (fun s => (bld r (.br σ.len (σ.len + 1)) (σ.len + 1 + 1) s).2.2)
        (fun s h1 h2 => bld_good l (.br _ _) b s h1 h2)
        (fun s h1 h2 h3 => ihl (.br _ _) b s h1 h2 h3)
        (fun s h1 h2 h3 => ihr (.br _ _) _ s (by simpa using h1) (by simpa using h2) h3)
      exact shape_scPost_val hb hT hok
  | cmp2 o1 o2 l mid r ihl ihm ihr =>
    intro m b σ hb ho h
    cases m with
    | br t f =>
      simp only [bld, scPre, scPost]
      exact shape_cmp2_body ihl ihm ihr hb ho h t f
    | val =>
      simp only [bld, scPre_val]
      have hb' : b < (newBB (newBB σ).2).2.len := by simp; omega
      have ho' : ((newBB (newBB σ).2).2.blk b).succs = [] := by
        rw [blk_newBB_old _ b (by simp; omega), blk_newBB_old σ b hb]; exact ho
      have hT := (cmp2_body (o1 := o1) (o2 := o2) (bld_good l) (bld_good mid) (bld_good r) hb' ho' σ.len (σ.len + 1)).1
      have hok := shape_cmp2_body (o1 := o1) (o2 := o2) ihl ihm ihr hb' ho' (allOk_newBB (allOk_newBB h)) σ.len (σ.len + 1)
      exact shape_scPost_val hb hT hok
  | ite c x y ihc ihx ihy =>
    intro m b σ hb ho h
    obtain ⟨t1, hl1, htb, heb, hb', ho', _⟩ := itS1_facts c hb ho
    have k1 : AllOk (itS1 c b σ) := ihc (.br σ.len (σ.len + 1)) b _ hb' ho' (allOk_newBB (allOk_newBB h))
    cases m with
    | br t f =>
      rw [bld_ite_br]
      have t2 := bld_good x (.br t f) σ.len (itS1 c b σ) (by omega) (by rw [htb])
      have hl2 := t2.len
      have heb2 : (bld x (.br t f) σ.len (itS1 c b σ)).2.2.blk (σ.len + 1) = {} := by
        rw [t2.frame (σ.len + 1) (by omega) (by omega)]; exact heb
      exact ihy (.br t f) (σ.len + 1) (bld x (.br t f) σ.len (itS1 c b σ)).2.2 (by omega) (by rw [heb2])
        (ihx (.br t f) σ.len (itS1 c b σ) (by omega) (by rw [htb]) k1)
    | val =>
      rw [bld_ite_val, iteMerge_eq]
      have gu : GoodV (itS1 c b σ) σ.len (itU c x b σ).2.1 (itU c x b σ).2.2 :=
        bld_good x .val σ.len (itS1 c b σ) (by omega) (by rw [htb])
      have hlu := gu.touch.len
      have heb2 : (itU c x b σ).2.2.blk (σ.len + 1) = {} := by
        rw [gu.touch.frame (σ.len + 1) (by omega) (by omega)]; exact heb
      have gv : GoodV (itU c x b σ).2.2 (σ.len + 1) (itV c x y b σ).2.1 (itV c x y b σ).2.2 :=
        bld_good y .val (σ.len + 1) _ (by omega) (by rw [heb2])
      have hlv := gv.touch.len
      have hune : (itU c x b σ).2.1 ≠ σ.len + 1 := by rcases gu.cur with h | h <;> omega
      have hult := gu.lt
      have huv : (itU c x b σ).2.1 ≠ (itV c x y b σ).2.1 := by rcases gv.cur with h | h <;> omega
      have hvu : (itV c x y b σ).2.2.blk (itU c x b σ).2.1 = (itU c x b σ).2.2.blk (itU c x b σ).2.1 :=
        gv.touch.frame _ hult hune
      have ku : AllOk (itU c x b σ).2.2 := ihx .val σ.len (itS1 c b σ) (by omega) (by rw [htb]) k1
      have kv : AllOk (itV c x y b σ).2.2 := ihy .val (σ.len + 1) (itU c x b σ).2.2 (by omega) (by rw [heb2]) ku
      exact allOk_mergeSt kv _ _ (by omega) gv.lt huv (by rw [hvu]; exact gu.opn) gv.opn

theorem shape_build (s : Stmt) : ∀ (prev b : Nat) (J : Jumps) (σ : BState), b < σ.len →
    (σ.blk b).succs = [] → AllOk σ → AllOk (build s prev (some b) J σ).1 := by
  induction s with
  | nil => intro prev b J σ _ _ h; exact h
  | pass => intro prev b J σ _ _ h; exact h
  | cons s rest ihs ihr =>
    intro prev b J σ hb ho h
    simp only [build, ensure_some]
    have g1 := build_good s b b J σ hb ho
    have k1 := ihs b b J σ hb ho h
    cases hr : (build s b (some b) J σ).2 with
    | some b1 =>
      obtain ⟨_, c2, c3⟩ := g1.cur b1 hr
      exact ihr b b1 J _ c2 c3 k1
    | none =>
      by_cases hnil : rest = .nil
      · subst hnil; simp only [build]; exact k1
      · rw [build_ensure rest hnil, ensure_none]
        have hl1 := g1.touch.len
        exact ihr b _ J _ (by simp) (by rw [blk_dummyLink_other _ _ _ _ (by omega), blk_newBB_new])
          (allOk_dummyLink (allOk_newBB k1) _ _)
  | assign x e =>
    intro prev b J σ hb ho h
    simp only [build, ensure_some, buildE]
    exact allOk_addStmt (shape_bld e .val b σ hb ho h) _ _
  | aug x op e =>
    intro prev b J σ hb ho h
    simp only [build, ensure_some, buildE]
    split
    · have g0 : GoodV σ b b (preBind true (.var x) b σ).2 := preBind_good hb (GoodV.refl hb ho) true (.var x)
      have k0 := allOk_preBind h true (.var x) b
      simp only [preBind, if_true] at g0 k0
      exact allOk_addStmt (shape_bld e .val b _ g0.lt g0.opn k0) _ _
    · exact allOk_addStmt (shape_bld e .val b σ hb ho h) _ _
  | expr e =>
    intro prev b J σ hb ho h
    simp only [build, ensure_some, buildE]
    cases isTmpVar (bld e .val b σ).1
    · exact allOk_addStmt (shape_bld e .val b σ hb ho h) _ _
    · exact shape_bld e .val b σ hb ho h
  | brk =>
    intro prev b J σ hb ho h
    simp only [build, ensure_some]
    split
    · exact allOk_link h _ ho
    · exact h
  | cont =>
    intro prev b J σ hb ho h
    simp only [build, ensure_some]
    split
    · exact allOk_link h _ ho
    · exact h
  | ret e =>
    intro prev b J σ hb ho h
    simp only [build, ensure_some, buildE]
    have g : GoodV σ b (bld e .val b σ).2.1 (bld e .val b σ).2.2 := bld_good e .val b σ hb ho
    exact allOk_link (allOk_addStmt (shape_bld e .val b σ hb ho h) _ _) _
      (by rw [blk_addStmt_same _ _ _ g.lt]; exact g.opn)
  | ret0 =>
    intro prev b J σ hb ho h
    simp only [build, ensure_some]
    exact allOk_link (allOk_addStmt h _ _) _ (by rw [blk_addStmt_same _ _ _ hb]; exact ho)
  | ite c t e iht ihe =>
    intro prev b J σ hb ho h
    obtain ⟨t1, hl1, htb, heb, hb', ho', _⟩ := itS1_facts c hb ho
    have k1 : AllOk (itS1 c b σ) := shape_bld c (.br σ.len (σ.len + 1)) b _ hb' ho' (allOk_newBB (allOk_newBB h))
    have gt := build_good t σ.len σ.len J (itS1 c b σ) (by omega) (by rw [htb])
    have kt := iht σ.len σ.len J (itS1 c b σ) (by omega) (by rw [htb]) k1
    have hlt := gt.touch.len
    have hebc := gt.touch.frame (σ.len + 1) (by omega) (by omega)
    have heb2 : ((build t σ.len (some σ.len) J (itS1 c b σ)).1.blk (σ.len + 1)).succs = [] := by
      rw [core_succs hebc, heb]
    have ge := build_good e (σ.len + 1) (σ.len + 1) J _ (by omega) heb2
    have ke := ihe (σ.len + 1) (σ.len + 1) J _ (by omega) heb2 kt
    have hle := ge.touch.len
    rw [build_ite_eq]
    cases hrt : (build t σ.len (some σ.len) J (itS1 c b σ)).2 with
    | none => simp only [iteFin, hrt]; exact ke
    | some a =>
      obtain ⟨a1, a2, a3⟩ := gt.cur a hrt
      have hae : a ≠ σ.len + 1 := by rcases a1 with h | h <;> omega
      have hca := ge.touch.frame a a2 hae
      cases hre : (build e (σ.len + 1) (some (σ.len + 1)) J (build t σ.len (some σ.len) J (itS1 c b σ)).1).2 with
      | none => simp only [iteFin, hrt, hre]; exact ke
      | some b2 =>
        obtain ⟨d1, d2, d3⟩ := ge.cur b2 hre
        have hab : a ≠ b2 := by rcases d1 with h | h <;> omega
        simp only [iteFin, hrt, hre, newBB2, fst_newBB]
        exact allOk_link (allOk_link (allOk_newBB ke) _ (by
            rw [blk_newBB_old _ _ (by omega), core_succs hca]; exact a3)) _ (by
            rw [blk_link_other _ _ _ _ (Ne.symm hab), blk_newBB_old _ _ d2]; exact d3)
  | «while» c body ih =>
    intro prev b J σ hb ho h
    obtain ⟨l0, _, _, fh, _, _, _⟩ := whS0_facts hb ho
    obtain ⟨t1, hl1, fb, fbb, ftl, t01⟩ := whS1_facts c hb ho
    have k0 : AllOk (whS0 b σ) := by
      unfold whS0
      exact allOk_newBB (allOk_newBB (allOk_link (allOk_newBB h) _ (by rw [blk_newBB_old _ _ hb]; exact ho)))
    have k1 : AllOk (whS1 c b σ) := shape_bld c (.br (σ.len + 1) (σ.len + 2)) σ.len (whS0 b σ) (by omega) (by rw [fh]) k0
    have gb : GoodS (whS1 c b σ) (σ.len + 1) (whRB c body b J σ) :=
      build_good body (σ.len + 1) (σ.len + 1) (whJ J σ) (whS1 c b σ) (by omega) (by rw [fbb])
    have kb : AllOk (whRB c body b J σ).1 := ih (σ.len + 1) (σ.len + 1) (whJ J σ) (whS1 c b σ) (by omega) (by rw [fbb]) k1
    rw [build_while_eq]
    cases hrb : (whRB c body b J σ).2 with
    | none => simp only [loopFin, hrb]; exact kb
    | some e =>
      obtain ⟨_, _, e3⟩ := gb.cur e hrb
      simp only [loopFin, hrb]
      exact allOk_link kb _ e3
  | «for» x e body ih =>
    intro prev b J σ hb ho h
    have gA : GoodV (freshTmp (freshTmp σ).2).2 b (forA e b σ).2.1 (forA e b σ).2.2 :=
      bld_good e .val b (freshTmp (freshTmp σ).2).2 hb ho
    have kA : AllOk (forA e b σ).2.2 := shape_bld e .val b (freshTmp (freshTmp σ).2).2 hb ho h
    have k1 : AllOk (forS1 e b σ) := allOk_addStmt kA _ _
    have g1lt : (forA e b σ).2.1 < (forS1 e b σ).len := by
      show _ < (addStmt _ _ (forA e b σ).2.2).len
      simpa using gA.lt
    have g1o : ((forS1 e b σ).blk (forA e b σ).2.1).succs = [] := by
      show ((addStmt _ _ (forA e b σ).2.2).blk _).succs = []
      rw [blk_addStmt_same _ _ _ gA.lt]; exact gA.opn
    obtain ⟨f1, _, f3, f4, f5, f6, f7, f8, f9⟩ :=
      forTpl_facts x σ.nextTmp (σ.nextTmp + 1) g1lt g1o
    have k7 : AllOk (forS7 x e b σ) := by
      intro i
      show okB ((forTpl x σ.nextTmp (σ.nextTmp + 1) (forA e b σ).2.1 (forS1 e b σ)).blk i)
      by_cases h0 : i = (forA e b σ).2.1
      · rw [h0, f3]; exact ⟨by simp, by intro h; simp at h⟩
      by_cases h1 : i < (forS1 e b σ).len
      · rw [f9 i h1 h0]; exact k1 i
      by_cases h2 : i = (forS1 e b σ).len
      · rw [h2, f4]; exact ⟨by simp, by intro h; simp at h⟩
      by_cases h3 : i = (forS1 e b σ).len + 1
      · rw [h3, f5]; exact ⟨by simp, by intro _; simp⟩
      by_cases h4 : i = (forS1 e b σ).len + 2
      · rw [h4, f6]; exact okB_empty
      by_cases h5 : i = (forS1 e b σ).len + 3
      · rw [h5, f7]; exact ⟨by simp, by intro h; simp at h⟩
      by_cases h6 : i = (forS1 e b σ).len + 4
      · rw [h6, f8]; exact ⟨by simp, by intro h; simp at h⟩
      · rw [empty_of_ge _ (by rw [f1]; omega)]; exact okB_empty
    obtain ⟨_, _, hl7, _, _, _, _, _, _, feb⟩ := forS7_facts x e hb ho
    have gb : GoodS (forS7 x e b σ) ((forS1 e b σ).len + 4) (forRB x e body b J σ) :=
      build_good body _ _ (forJ J e b σ) (forS7 x e b σ) (by omega) (by rw [feb])
    have kb : AllOk (forRB x e body b J σ).1 := ih _ _ (forJ J e b σ) (forS7 x e b σ) (by omega) (by rw [feb]) k7
    rw [build_for_eq]
    cases hrb : (forRB x e body b J σ).2 with
    | none => simp only [loopFin, hrb]; exact kb
    | some e' =>
      obtain ⟨_, _, e3⟩ := gb.cur e' hrb
      simp only [loopFin, hrb]
      exact allOk_link kb _ e3
  | forFrom x n m body ih =>
    intro prev b J σ hb ho h
    simp only [build, ensure_some]
    exact h

theorem okB_of_core {A B : Block} (h : A.core = B.core) (hB : okB B) : okB A := by
  unfold okB at hB ⊢
  rw [core_succs h, core_pred h]; exact hB

theorem okB_prune (bl : List Block) (h : ∀ i, okB (blkL bl i)) (i : Nat) : okB (blkL (prune bl) i) := by
  by_cases hi : i < bl.length
  · rw [blkL_prune bl i hi]
    have := h i
    unfold okB at this ⊢
    simp only
    split
    · exact this
    · have hle : ((blkL bl i).succs.filter fun s => !(blkL bl s).reach).length ≤ (blkL bl i).succs.length :=
        List.length_filter_le _ _
      refine ⟨by omega, fun h2 => this.2 (by omega)⟩
  · have : blkL (prune bl) i = {} := by
      simp [blkL, List.getElem?_eq_none (show (prune bl).length ≤ i by rw [length_prune]; omega)]
    rw [this]; exact okB_empty

/-- **every block of a built CFG has at most two successors, and a block with two successors has a branch
    predicate** -/
theorem buildCfg_shape {p : Stmt} {rn : Bool} {g : Cfg} (hb : buildCfg rn p = .ok g) :
    ∀ i, okB (blkL g.blocks i) := by
  have h02 : (0 : Nat) < initState.len := by decide
  have ho0 : (initState.blk 0).succs = [] := by decide
  have hinit : AllOk initState := by
    intro i
    by_cases h0 : i = 0
    · subst h0; exact okB_empty
    · by_cases h1 : i = 1
      · subst h1; exact okB_empty
      · rw [empty_of_ge _ (by show 2 ≤ i; omega)]; exact okB_empty
  have gr := build_good p 0 0 ⟨1, none, none⟩ initState h02 ho0
  have kr := shape_build p 0 0 ⟨1, none, none⟩ initState h02 ho0 hinit
  simp only [buildCfg] at hb
  generalize build p 0 (some 0) ⟨1, none, none⟩ initState = r at *
  split at hb
  · cases hb
  split at hb
  · cases hb
  cases hreach : reachable r.1.blocks with
  | none => rw [hreach] at hb; cases hb
  | some rs =>
    rw [hreach] at hb
    simp only at hb
    have kR : AllOk ({ r.1 with blocks := setReach rs r.1.blocks } : BState) :=
      fun i => okB_of_core (blk_setReach_state r.1 rs i).1 (kr i)
    cases hr2 : r.2 with
    | none =>
      rw [hr2] at hb
      simp only [Except.ok.injEq] at hb
      subst hb
      exact okB_prune _ kR
    | some fin =>
      rw [hr2] at hb
      simp only at hb
      obtain ⟨_, f2, f3⟩ := gr.cur fin hr2
      have kL : AllOk (link fin 1 ({ r.1 with blocks := setReach rs r.1.blocks } : BState)) :=
        allOk_link kR 1 (by rw [core_succs (blk_setReach_state r.1 rs fin).1]; exact f3)
      split at hb
      · split at hb
        · simp only [Except.ok.injEq] at hb
          subst hb
          exact okB_prune _ (fun i => okB_of_core (core_upd_reach _ i 1).1 (kL i))
        · cases hb
      · simp only [Except.ok.injEq] at hb
        subst hb
        exact okB_prune _ kL

end GuppyVerif.Builder

