import GuppyVerif.Model.Session
import GuppyVerif.Spec.C11
/-! Helper lemmas for C11: a simulation between two runs of the session model that differ only in
    counters (`defCtr`, `store`, and — in the inexact variant `Rel false` — `tmpCtr` and the `base` of cached
    CFGs), and the session invariant (nothing leaked into the frame, tracing mode off, `parsing` empty). -/
namespace GuppyVerif.Session

/-! ## sorting is invariant under shifting the counters -/

theorem insertSorted_shift {lt : Nat → Nat → Bool} (h : ShiftInv lt) (b x : Nat) (l : List Nat) :
    insertSorted lt (b + x) (l.map (b + ·)) = (insertSorted lt x l).map (b + ·) := by
  induction l with
  | nil => rfl
  | cons y ys ih =>
    simp only [List.map_cons, insertSorted, h b x y]
    split
    · simp
    · simp [ih]

theorem isort_shift {lt : Nat → Nat → Bool} (h : ShiftInv lt) (b : Nat) (l : List Nat) :
    isort lt (l.map (b + ·)) = (isort lt l).map (b + ·) := by
  induction l with
  | nil => rfl
  | cons x xs ih => simp only [List.map_cons, isort, ih, insertSorted_shift h]

theorem sortRel_shift {lt : Nat → Nat → Bool} (h : ShiftInv lt) (b : Nat) (row : List Nat) :
    sortRel lt b row = isort lt row := by
  unfold sortRel
  rw [isort_shift h, List.map_map]
  conv => rhs; rw [← List.map_id (isort lt row)]
  apply List.map_congr_left
  intro a _
  simp

theorem natLt_shiftInv : ShiftInv natLt := by
  intro b i j
  simp [natLt]

/-! ## the simulation relation

`Rel x s s'`: the two states agree on everything but counters.  With `x = true` (exact) they also agree
on the `%tmp` counter and on the base of every cached CFG — then any order on generated names gives the
same rows; with `x = false` the order has to be invariant under renumbering. -/

inductive RelL (x : Bool) : List Checked → List Checked → Prop
  | nil : RelL x [] []
  | cons {c c' : Checked} {l l' : List Checked} : c.core = c'.core → (x = true → c.base = c'.base) →
      RelL x l l' → RelL x (c :: l) (c' :: l')

structure Rel (x : Bool) (s s' : State) : Prop where
  checked : RelL x s.checked s'.checked
  parsed : s.parsed = s'.parsed
  leaks : s.leaks = s'.leaks
  tracing : s.tracing = s'.tracing
  parsing : s.parsing = s'.parsing
  tmp : x = true → s.tmpCtr = s'.tmpCtr

theorem RelL.any_id {x : Bool} {l l' : List Checked} (h : RelL x l l') (n : Nat) :
    l.any (·.core.id == n) = l'.any (·.core.id == n) := by
  induction h with
  | nil => rfl
  | cons hc _ _ ih => simp [List.any_cons, hc, ih]

theorem RelL.append {x : Bool} {l l' m m' : List Checked} (h : RelL x l l') (hm : RelL x m m') :
    RelL x (l ++ m) (l' ++ m') := by
  induction h with
  | nil => simpa using hm
  | cons hc hb _ ih => exact RelL.cons hc hb ih

theorem Rel.hasChecked {x : Bool} {s s' : State} (h : Rel x s s') : s.hasChecked = s'.hasChecked := by
  funext n
  exact h.checked.any_id n

theorem Rel.resolve {x : Bool} {s s' : State} (h : Rel x s s') (P : Pool) (d : Nat) :
    resolve P s d = resolve P s' d := by
  unfold Session.resolve
  rw [h.leaks]

/-! ## `bumpNested` when nothing is bound in the frame -/

theorem bumpNested_frame (cfg : Config) (hc : cfg.nestedRecBindsInFrame = false) (s : State)
    (ns : List Nested) :
    (bumpNested cfg s ns).checked = s.checked ∧ (bumpNested cfg s ns).leaks = s.leaks ∧
      (bumpNested cfg s ns).tracing = s.tracing ∧ (bumpNested cfg s ns).tmpCtr = s.tmpCtr ∧
      (bumpNested cfg s ns).parsed = s.parsed ∧ (bumpNested cfg s ns).parsing = s.parsing := by
  induction ns generalizing s with
  | nil => simp [bumpNested]
  | cons nd rest ih =>
    simp only [bumpNested, hc]
    split
    · have := ih { s with defCtr := s.defCtr + 1, store := s.store + 1 }
      simpa using this
    · have := ih { s with defCtr := s.defCtr + 1 }
      simpa using this

/-! ## parsing -/

theorem parseDef_rel (cfg : Config) (P : Pool) (n : Nat) {x : Bool} {s s' : State} (h : Rel x s s') :
    Rel x (parseDef cfg P n s).1 (parseDef cfg P n s').1 ∧
      (parseDef cfg P n s).2 = (parseDef cfg P n s').2 := by
  unfold parseDef
  rw [h.parsing]
  split
  · exact ⟨h, rfl⟩
  · have hrel : Rel x (if cfg.parseRestores then s else { s with parsing := n :: s'.parsing })
        (if cfg.parseRestores then s' else { s' with parsing := n :: s'.parsing }) := by
      split
      · exact h
      · exact ⟨h.checked, h.parsed, h.leaks, h.tracing, rfl, h.tmp⟩
    simp only
    split
    · split <;> exact ⟨hrel, rfl⟩
    · exact ⟨hrel, rfl⟩

theorem getParsed_rel (cfg : Config) (P : Pool) (n : Nat) {x : Bool} {s s' : State} (h : Rel x s s') :
    Rel x (getParsed cfg P n s).1 (getParsed cfg P n s').1 ∧
      (getParsed cfg P n s).2 = (getParsed cfg P n s').2 := by
  unfold getParsed
  rw [h.parsed]
  split
  · exact ⟨h, rfl⟩
  · exact parseDef_rel cfg P n h

/-- a parse changes nothing but (possibly) `parsing` -/
theorem parseDef_frame (cfg : Config) (P : Pool) (n : Nat) (s : State) :
    (parseDef cfg P n s).1.leaks = s.leaks ∧ (parseDef cfg P n s).1.tracing = s.tracing := by
  unfold parseDef
  split
  · exact ⟨rfl, rfl⟩
  · simp only
    split
    · split <;> split <;> exact ⟨rfl, rfl⟩
    · split <;> exact ⟨rfl, rfl⟩

theorem getParsed_frame (cfg : Config) (P : Pool) (n : Nat) (s : State) :
    (getParsed cfg P n s).1.leaks = s.leaks ∧ (getParsed cfg P n s).1.tracing = s.tracing := by
  unfold getParsed
  split
  · exact ⟨rfl, rfl⟩
  · exact parseDef_frame cfg P n s

/-- with the `finally` in `_parse`, a parse — failing or not — leaves `parsing` as it was -/
theorem parseDef_parsing (cfg : Config) (hp : cfg.parseRestores = true) (P : Pool) (n : Nat) (s : State) :
    (parseDef cfg P n s).1 = s := by
  unfold parseDef
  split
  · rfl
  · simp only
    split
    · split <;> rfl
    · rfl

theorem getParsed_parsing (cfg : Config) (hp : cfg.parseRestores = true) (P : Pool) (n : Nat) (s : State) :
    (getParsed cfg P n s).1 = s := by
  unfold getParsed
  split
  · rfl
  · exact parseDef_parsing cfg hp P n s

/-! ## checking -/

theorem checkBody_rel (cfg : Config) (hc : cfg.nestedRecBindsInFrame = false) (P : Pool) (n : Nat)
    (r : RawDef) {x : Bool} {s s' : State} (h : Rel x s s') :
    Rel x (checkBody cfg P n r s).1 (checkBody cfg P n r s').1 ∧
      (checkBody cfg P n r s).2 = (checkBody cfg P n r s').2 := by
  unfold checkBody
  simp only
  have e1 : ∀ d, Session.resolve P s d = Session.resolve P s' d := h.resolve P
  have b := bumpNested_frame cfg hc (s.beginCheck n r.tmps) r.nested
  have b' := bumpNested_frame cfg hc (s'.beginCheck n r.tmps) r.nested
  have hrel : Rel x (bumpNested cfg (s.beginCheck n r.tmps) r.nested)
      (bumpNested cfg (s'.beginCheck n r.tmps) r.nested) :=
    ⟨by rw [b.1, b'.1]; exact h.checked,
     by rw [b.2.2.2.2.1, b'.2.2.2.2.1]; simp only [State.beginCheck, h.parsed],
     by rw [b.2.1, b'.2.1]; exact h.leaks,
     by rw [b.2.2.1, b'.2.2.1]; exact h.tracing,
     by rw [b.2.2.2.2.2, b'.2.2.2.2.2]; exact h.parsing,
     by intro hx; rw [b.2.2.2.1, b'.2.2.2.1]; simp only [State.beginCheck, h.tmp hx]⟩
  have hnew : RelL x [(⟨⟨n, 0, 0⟩, s.tmpCtr⟩ : Checked)] [⟨⟨n, 0, 0⟩, s'.tmpCtr⟩] :=
    RelL.cons rfl h.tmp RelL.nil
  simp only [e1]
  split
  · exact ⟨⟨hrel.checked.append hnew, hrel.parsed, hrel.leaks, hrel.tracing, hrel.parsing, hrel.tmp⟩, rfl⟩
  · split
    · exact ⟨hrel, rfl⟩
    · split
      · exact ⟨hrel, rfl⟩
      · split
        · exact ⟨hrel, by rw [hrel.tracing]⟩
        · split
          · exact ⟨hrel, rfl⟩
          · exact ⟨⟨hrel.checked.append hnew, hrel.parsed, hrel.leaks, hrel.tracing, hrel.parsing,
              hrel.tmp⟩, rfl⟩

theorem checkOne_rel (cfg : Config) (hc : cfg.nestedRecBindsInFrame = false) (P : Pool) (n : Nat)
    {x : Bool} {s s' : State} (h : Rel x s s') :
    Rel x (checkOne cfg P n s).1 (checkOne cfg P n s').1 ∧
      (checkOne cfg P n s).2 = (checkOne cfg P n s').2 := by
  unfold checkOne
  cases hp : P[n]? with
  | none => exact ⟨h, rfl⟩
  | some r =>
    simp only
    have hg := getParsed_rel cfg P n h
    rcases h1 : getParsed cfg P n s with ⟨t, o⟩
    rcases h2 : getParsed cfg P n s' with ⟨t', o'⟩
    rw [h1, h2] at hg
    obtain ⟨hrel, hres⟩ := hg
    simp only at hrel hres
    subst hres
    cases o with
    | error e => exact ⟨hrel, rfl⟩
    | ok u => exact checkBody_rel cfg hc P n r hrel

theorem checkLoop_rel (cfg : Config) (hc : cfg.nestedRecBindsInFrame = false) (P : Pool) (f : Nat)
    {x : Bool} :
    ∀ (work : List Nat) {s s' : State}, Rel x s s' →
      Rel x (checkLoop cfg P f work s).1 (checkLoop cfg P f work s').1 ∧
        (checkLoop cfg P f work s).2 = (checkLoop cfg P f work s').2 := by
  induction f with
  | zero =>
    intro work s s' h
    cases work <;> exact ⟨h, rfl⟩
  | succ f ih =>
    intro work s s' h
    cases work with
    | nil => exact ⟨h, rfl⟩
    | cons n rest =>
      simp only [checkLoop]
      rw [h.hasChecked]
      split
      · exact ih rest h
      · have hr := checkOne_rel cfg hc P n h
        rcases h1 : checkOne cfg P n s with ⟨t, r⟩
        rcases h2 : checkOne cfg P n s' with ⟨t', r'⟩
        rw [h1, h2] at hr
        obtain ⟨hrel, hres⟩ := hr
        simp only at hrel hres
        subst hres
        cases r with
        | error e => exact ⟨hrel, rfl⟩
        | ok deps =>
          simp only
          rw [hrel.parsed]
          exact ih _ ⟨hrel.checked, rfl, hrel.leaks, hrel.tracing, hrel.parsing, hrel.tmp⟩

/-- `check` from two states that agree on the frame, the tracing flag and — unless `reset()` empties it —
    on `parsing`.  The result is related exactly when `check` restarts the `%tmp` numbering. -/
theorem check_rel (cfg : Config) (hc : cfg.nestedRecBindsInFrame = false) (hr : cfg.checkResets = true)
    (hpc : cfg.resetClearsParsing = true) (P : Pool) (d : Nat) {s s' : State} (hl : s.leaks = s'.leaks)
    (ht : s.tracing = s'.tracing) :
    Rel cfg.checkRestartsTmp (check cfg P d s).1 (check cfg P d s').1 ∧
      (check cfg P d s).2 = (check cfg P d s').2 := by
  unfold check
  simp only [hr, ↓reduceIte]
  have h0 : Rel cfg.checkRestartsTmp
      (if cfg.checkRestartsTmp then { s.reset cfg with tmpCtr := 0 } else s.reset cfg)
      (if cfg.checkRestartsTmp then { s'.reset cfg with tmpCtr := 0 } else s'.reset cfg) := by
    cases hx : cfg.checkRestartsTmp with
    | true =>
      simp only [↓reduceIte]
      exact ⟨RelL.nil, rfl, hl, ht, by simp [State.reset, hpc], fun _ => rfl⟩
    | false =>
      simp only [Bool.false_eq_true, ↓reduceIte]
      exact ⟨RelL.nil, rfl, hl, ht, by simp [State.reset, hpc], fun h => by cases h⟩
  have hp := parseDef_rel cfg P d h0
  rcases h1 : parseDef cfg P d (if cfg.checkRestartsTmp then { s.reset cfg with tmpCtr := 0 } else s.reset cfg)
    with ⟨t, o⟩
  rcases h2 : parseDef cfg P d (if cfg.checkRestartsTmp then { s'.reset cfg with tmpCtr := 0 } else s'.reset cfg)
    with ⟨t', o'⟩
  rw [h1, h2] at hp
  obtain ⟨hrel, hres⟩ := hp
  simp only at hrel hres
  subst hres
  cases o with
  | error e => exact ⟨hrel, rfl⟩
  | ok u => exact checkLoop_rel cfg hc P _ _ hrel

/-! ## lowering -/

theorem findChecked_rel {x : Bool} {l l' : List Checked} (h : RelL x l l') (n : Nat) :
    (findChecked n l = none ∧ findChecked n l' = none) ∨
      ∃ c c', findChecked n l = some c ∧ findChecked n l' = some c' ∧ c.core = c'.core ∧
        (x = true → c.base = c'.base) := by
  induction h with
  | nil => exact Or.inl ⟨rfl, rfl⟩
  | @cons c c' l l' hcc hb _ ih =>
    simp only [findChecked, hcc]
    split
    · exact Or.inr ⟨c, c', rfl, rfl, hcc, hb⟩
    · exact ih

theorem updChecked_rel {x : Bool} {l l' : List Checked} (h : RelL x l l') (n : Nat) (f : CfgCore → CfgCore) :
    RelL x (updChecked n f l) (updChecked n f l') := by
  induction h with
  | nil => exact RelL.nil
  | @cons c c' l l' hcc hb _ ih =>
    simp only [updChecked, hcc]
    split
    · exact RelL.cons (by simp) hb ih
    · exact RelL.cons hcc hb ih

theorem ensureChecked_rel (cfg : Config) (hc : cfg.nestedRecBindsInFrame = false) (P : Pool) (n : Nat)
    {x : Bool} {s s' : State} (h : Rel x s s') :
    Rel x (ensureChecked cfg P n s).1 (ensureChecked cfg P n s').1 ∧
      (ensureChecked cfg P n s).2 = (ensureChecked cfg P n s').2 := by
  unfold ensureChecked
  rw [h.hasChecked]
  split
  · exact ⟨h, rfl⟩
  · have hr := checkOne_rel cfg hc P n h
    rcases h1 : checkOne cfg P n s with ⟨t, r⟩
    rcases h2 : checkOne cfg P n s' with ⟨t', r'⟩
    rw [h1, h2] at hr
    obtain ⟨hrel, hres⟩ := hr
    simp only at hrel hres
    subst hres
    cases r with
    | error e => exact ⟨hrel, rfl⟩
    | ok deps =>
      simp only
      rw [hrel.parsed]
      exact ⟨⟨hrel.checked, rfl, hrel.leaks, hrel.tracing, hrel.parsing, hrel.tmp⟩, by trivial⟩

theorem ensureAll_rel (cfg : Config) (hc : cfg.nestedRecBindsInFrame = false) (P : Pool) {x : Bool} :
    ∀ (ds : List Nat) {s s' : State}, Rel x s s' →
      Rel x (ensureAll cfg P ds s).1 (ensureAll cfg P ds s').1 ∧
        (ensureAll cfg P ds s).2 = (ensureAll cfg P ds s').2 := by
  intro ds
  induction ds with
  | nil => intro s s' h; exact ⟨h, rfl⟩
  | cons d ds ih =>
    intro s s' h
    simp only [ensureAll]
    have hr := ensureChecked_rel cfg hc P d h
    rcases h1 : ensureChecked cfg P d s with ⟨t, r⟩
    rcases h2 : ensureChecked cfg P d s' with ⟨t', r'⟩
    rw [h1, h2] at hr
    obtain ⟨hrel, hres⟩ := hr
    simp only at hrel hres
    subst hres
    cases r with
    | error e => exact ⟨hrel, rfl⟩
    | ok u => exact ih hrel

theorem compileOne_rel (cfg : Config) (hc : cfg.nestedRecBindsInFrame = false) {lt : Nat → Nat → Bool}
    {x : Bool} (hlt : x = true ∨ ShiftInv lt) (P : Pool) (n : Nat) {s s' : State} (h : Rel x s s') :
    Rel x (compileOne cfg lt P n s).1 (compileOne cfg lt P n s').1 ∧
      (compileOne cfg lt P n s).2 = (compileOne cfg lt P n s').2 := by
  unfold compileOne
  cases hp : P[n]? with
  | none => exact ⟨h, rfl⟩
  | some r =>
    rcases findChecked_rel h.checked n with ⟨e1, e2⟩ | ⟨c, c', e1, e2, hcc, hb⟩
    · rw [e1, e2]; exact ⟨h, rfl⟩
    · rw [e1, e2]
      simp only
      have e1 : ∀ d, Session.resolve P s d = Session.resolve P s' d := h.resolve P
      have htmp : ∀ k, x = true → s.tmpCtr + k = s'.tmpCtr + k := fun k hx => by rw [h.tmp hx]
      simp only [e1, hcc]
      split
      · -- comptime
        have h1 : Rel x { s with tracing := true, tmpCtr := s.tmpCtr + r.ctmps }
            { s' with tracing := true, tmpCtr := s'.tmpCtr + r.ctmps } :=
          ⟨h.checked, h.parsed, h.leaks, rfl, h.parsing, htmp _⟩
        split
        · exact ⟨⟨h.checked, h.parsed, h.leaks, by simp [h.tracing], h.parsing, htmp _⟩, rfl⟩
        · split
          · exact ⟨⟨h.checked, h.parsed, h.leaks, by simp [h.tracing], h.parsing, htmp _⟩, rfl⟩
          · have ha := ensureAll_rel cfg hc P r.deps h1
            rcases q1 : ensureAll cfg P r.deps { s with tracing := true, tmpCtr := s.tmpCtr + r.ctmps }
              with ⟨t, o⟩
            rcases q2 : ensureAll cfg P r.deps { s' with tracing := true, tmpCtr := s'.tmpCtr + r.ctmps }
              with ⟨t', o'⟩
            rw [q1, q2] at ha
            obtain ⟨hrel, hres⟩ := ha
            simp only at hrel hres
            subst hres
            cases o with
            | error e =>
              exact ⟨⟨hrel.checked, hrel.parsed, hrel.leaks, by simp [h.tracing], hrel.parsing, hrel.tmp⟩, rfl⟩
            | ok u =>
              exact ⟨⟨hrel.checked, hrel.parsed, hrel.leaks, h.tracing, hrel.parsing, hrel.tmp⟩, rfl⟩
      · -- ordinary function
        have h0 : ∀ g : CfgCore → CfgCore, Rel x { s with checked := updChecked n g s.checked }
            { s' with checked := updChecked n g s'.checked } := fun g =>
          ⟨updChecked_rel h.checked n g, h.parsed, h.leaks, h.tracing, h.parsing, h.tmp⟩
        have ha := ensureAll_rel cfg hc P r.deps (h0 (setRet (retAfter cfg c'.core)))
        rcases q1 : ensureAll cfg P r.deps
          { s with checked := updChecked n (setRet (retAfter cfg c'.core)) s.checked } with ⟨t, o⟩
        rcases q2 : ensureAll cfg P r.deps
          { s' with checked := updChecked n (setRet (retAfter cfg c'.core)) s'.checked } with ⟨t', o'⟩
        rw [q1, q2] at ha
        obtain ⟨hrel, hres⟩ := ha
        simp only at hrel hres
        subst hres
        cases o with
        | error e => exact ⟨hrel, rfl⟩
        | ok u =>
          refine ⟨⟨updChecked_rel hrel.checked n _, hrel.parsed, hrel.leaks, hrel.tracing, hrel.parsing,
            fun hx => by simp only [hrel.tmp hx]⟩, ?_⟩
          have e : sortRel lt c.base = sortRel lt c'.base := by
            rcases hlt with hx | hs
            · rw [hb hx]
            · funext row
              rw [sortRel_shift hs, sortRel_shift hs]
          simp only [e]

theorem compileLoop_rel (cfg : Config) (hc : cfg.nestedRecBindsInFrame = false)
    {lt : Nat → Nat → Bool} {x : Bool} (hlt : x = true ∨ ShiftInv lt) (P : Pool) (f : Nat) :
    ∀ (work done : List Nat) (acc : List OutEntry) {s s' : State}, Rel x s s' →
      Rel x (compileLoop cfg lt P f work done s acc).1 (compileLoop cfg lt P f work done s' acc).1 ∧
        (compileLoop cfg lt P f work done s acc).2 = (compileLoop cfg lt P f work done s' acc).2 := by
  induction f with
  | zero =>
    intro work done acc s s' h
    cases work <;> exact ⟨h, rfl⟩
  | succ f ih =>
    intro work done acc s s' h
    cases work with
    | nil => exact ⟨h, rfl⟩
    | cons n rest =>
      simp only [compileLoop]
      have hr := ensureChecked_rel cfg hc P n h
      rcases h1 : ensureChecked cfg P n s with ⟨t, r⟩
      rcases h2 : ensureChecked cfg P n s' with ⟨t', r'⟩
      rw [h1, h2] at hr
      obtain ⟨hrel, hres⟩ := hr
      simp only at hrel hres
      subst hres
      cases r with
      | error e => exact ⟨hrel, rfl⟩
      | ok u =>
        simp only
        have hr2 := compileOne_rel cfg hc hlt P n hrel
        rcases h3 : compileOne cfg lt P n t with ⟨u1, r1⟩
        rcases h4 : compileOne cfg lt P n t' with ⟨u1', r1'⟩
        rw [h3, h4] at hr2
        obtain ⟨hrel2, hres2⟩ := hr2
        simp only at hrel2 hres2
        subst hres2
        cases r1 with
        | error e => exact ⟨hrel2, rfl⟩
        | ok e => exact ih _ _ _ hrel2

/-- `compile d` gives the same result from any two states that agree on the frame and the tracing flag,
    if either `check` restarts the `%tmp` numbering or the order on generated names is shift invariant -/
theorem lower_rel (cfg : Config) (hc : cfg.nestedRecBindsInFrame = false) (hr : cfg.checkResets = true)
    (hpc : cfg.resetClearsParsing = true) {lt : Nat → Nat → Bool}
    (hlt : cfg.checkRestartsTmp = true ∨ ShiftInv lt) (P : Pool) (d : Nat) {s s' : State}
    (hl : s.leaks = s'.leaks) (ht : s.tracing = s'.tracing) :
    (lower cfg lt P d s).2 = (lower cfg lt P d s').2 := by
  unfold lower
  have h := check_rel cfg hc hr hpc P d hl ht
  rcases h1 : check cfg P d s with ⟨t, r⟩
  rcases h2 : check cfg P d s' with ⟨t', r'⟩
  rw [h1, h2] at h
  obtain ⟨hrel, hres⟩ := h
  simp only at hrel hres
  subst hres
  cases r with
  | error e => rfl
  | ok u => exact (compileLoop_rel cfg hc hlt P _ _ _ _ hrel).2

/-! ## the session invariant: nothing leaked, tracing off -/

def Clean (s : State) : Prop := s.leaks = [] ∧ s.tracing = false

theorem checkBody_clean (cfg : Config) (hc : cfg.nestedRecBindsInFrame = false) (P : Pool) (n : Nat)
    (r : RawDef) (s : State) :
    (checkBody cfg P n r s).1.leaks = s.leaks ∧ (checkBody cfg P n r s).1.tracing = s.tracing ∧
      (checkBody cfg P n r s).1.parsing = s.parsing := by
  unfold checkBody
  simp only
  have b := bumpNested_frame cfg hc (s.beginCheck n r.tmps) r.nested
  have b3 : (bumpNested cfg (s.beginCheck n r.tmps) r.nested).parsing = s.parsing := b.2.2.2.2.2
  split
  · exact ⟨b.2.1, b.2.2.1, b3⟩
  · split
    · exact ⟨b.2.1, b.2.2.1, b3⟩
    · split
      · exact ⟨b.2.1, b.2.2.1, b3⟩
      · split
        · exact ⟨b.2.1, b.2.2.1, b3⟩
        · split
          · exact ⟨b.2.1, b.2.2.1, b3⟩
          · exact ⟨b.2.1, b.2.2.1, b3⟩

theorem checkOne_clean (cfg : Config) (hc : cfg.nestedRecBindsInFrame = false) (P : Pool) (n : Nat)
    (s : State) :
    (checkOne cfg P n s).1.leaks = s.leaks ∧ (checkOne cfg P n s).1.tracing = s.tracing := by
  unfold checkOne
  cases hp : P[n]? with
  | none => exact ⟨rfl, rfl⟩
  | some r =>
    simp only
    have hg := getParsed_frame cfg P n s
    rcases h1 : getParsed cfg P n s with ⟨t, o⟩
    rw [h1] at hg
    simp only at hg
    cases o with
    | error e => exact hg
    | ok u =>
      have hb := checkBody_clean cfg hc P n r t
      exact ⟨hb.1.trans hg.1, hb.2.1.trans hg.2⟩

theorem checkOne_parsing (cfg : Config) (hc : cfg.nestedRecBindsInFrame = false)
    (hp : cfg.parseRestores = true) (P : Pool) (n : Nat) (s : State) :
    (checkOne cfg P n s).1.parsing = s.parsing := by
  unfold checkOne
  cases hq : P[n]? with
  | none => rfl
  | some r =>
    simp only
    have hg := getParsed_parsing cfg hp P n s
    rcases h1 : getParsed cfg P n s with ⟨t, o⟩
    rw [h1] at hg
    simp only at hg
    subst hg
    cases o with
    | error e => rfl
    | ok u => exact (checkBody_clean cfg hc P n r t).2.2

theorem checkLoop_clean (cfg : Config) (hc : cfg.nestedRecBindsInFrame = false) (P : Pool) (f : Nat) :
    ∀ (work : List Nat) (s : State),
      (checkLoop cfg P f work s).1.leaks = s.leaks ∧ (checkLoop cfg P f work s).1.tracing = s.tracing := by
  induction f with
  | zero => intro work s; cases work <;> exact ⟨rfl, rfl⟩
  | succ f ih =>
    intro work s
    cases work with
    | nil => exact ⟨rfl, rfl⟩
    | cons n rest =>
      simp only [checkLoop]
      split
      · exact ih rest s
      · have h := checkOne_clean cfg hc P n s
        rcases h1 : checkOne cfg P n s with ⟨t, r⟩
        rw [h1] at h
        simp only at h
        cases r with
        | error e => exact h
        | ok deps =>
          simp only
          have h2 := ih (pushNew deps t.parsed rest).2 { t with parsed := (pushNew deps t.parsed rest).1 }
          exact ⟨h2.1.trans h.1, h2.2.trans h.2⟩

theorem checkLoop_parsing (cfg : Config) (hc : cfg.nestedRecBindsInFrame = false)
    (hp : cfg.parseRestores = true) (P : Pool) (f : Nat) :
    ∀ (work : List Nat) (s : State), (checkLoop cfg P f work s).1.parsing = s.parsing := by
  induction f with
  | zero => intro work s; cases work <;> rfl
  | succ f ih =>
    intro work s
    cases work with
    | nil => rfl
    | cons n rest =>
      simp only [checkLoop]
      split
      · exact ih rest s
      · have h := checkOne_parsing cfg hc hp P n s
        rcases h1 : checkOne cfg P n s with ⟨t, r⟩
        rw [h1] at h
        simp only at h
        cases r with
        | error e => exact h
        | ok deps =>
          simp only
          exact (ih (pushNew deps t.parsed rest).2 { t with parsed := (pushNew deps t.parsed rest).1 }).trans h

theorem check_clean (cfg : Config) (hc : cfg.nestedRecBindsInFrame = false) (P : Pool) (d : Nat)
    (s : State) :
    (check cfg P d s).1.leaks = s.leaks ∧ (check cfg P d s).1.tracing = s.tracing := by
  unfold check
  simp only
  generalize hs1 : (if cfg.checkRestartsTmp = true then
      { (if cfg.checkResets = true then s.reset cfg else s) with tmpCtr := 0 }
    else (if cfg.checkResets = true then s.reset cfg else s)) = s1
  have e1 : s1.leaks = s.leaks ∧ s1.tracing = s.tracing := by
    subst hs1
    split <;> split <;> exact ⟨rfl, rfl⟩
  have hg := parseDef_frame cfg P d s1
  rcases h1 : parseDef cfg P d s1 with ⟨t, o⟩
  rw [h1] at hg
  simp only at hg
  cases o with
  | error e => exact ⟨hg.1.trans e1.1, hg.2.trans e1.2⟩
  | ok u =>
    have h2 := checkLoop_clean cfg hc P (fuelFor P) [d] t
    exact ⟨h2.1.trans (hg.1.trans e1.1), h2.2.trans (hg.2.trans e1.2)⟩

/-- a `check` — failing half-way (in a parse, too) included — leaves `parsing` empty if it was -/
theorem check_parsing (cfg : Config) (hc : cfg.nestedRecBindsInFrame = false)
    (hp : cfg.parseRestores = true) (P : Pool) (d : Nat) (s : State) (h0 : s.parsing = []) :
    (check cfg P d s).1.parsing = [] := by
  unfold check
  simp only
  generalize hs1 : (if cfg.checkRestartsTmp = true then
      { (if cfg.checkResets = true then s.reset cfg else s) with tmpCtr := 0 }
    else (if cfg.checkResets = true then s.reset cfg else s)) = s1
  have e1 : s1.parsing = [] := by
    subst hs1
    split <;> split <;> simp [State.reset, h0]
  have hg := parseDef_parsing cfg hp P d s1
  rcases h1 : parseDef cfg P d s1 with ⟨t, o⟩
  rw [h1] at hg
  simp only at hg
  subst hg
  cases o with
  | error e => exact e1
  | ok u => exact (checkLoop_parsing cfg hc hp P (fuelFor P) [d] t).trans e1

theorem ensureChecked_clean (cfg : Config) (hc : cfg.nestedRecBindsInFrame = false) (P : Pool)
    (n : Nat) (s : State) :
    (ensureChecked cfg P n s).1.leaks = s.leaks ∧ (ensureChecked cfg P n s).1.tracing = s.tracing := by
  unfold ensureChecked
  split
  · exact ⟨rfl, rfl⟩
  · have h := checkOne_clean cfg hc P n s
    rcases h1 : checkOne cfg P n s with ⟨t, r⟩
    rw [h1] at h
    cases r <;> exact h

theorem ensureChecked_parsing (cfg : Config) (hc : cfg.nestedRecBindsInFrame = false)
    (hp : cfg.parseRestores = true) (P : Pool) (n : Nat) (s : State) :
    (ensureChecked cfg P n s).1.parsing = s.parsing := by
  unfold ensureChecked
  split
  · rfl
  · have h := checkOne_parsing cfg hc hp P n s
    rcases h1 : checkOne cfg P n s with ⟨t, r⟩
    rw [h1] at h
    cases r <;> exact h

theorem ensureAll_clean (cfg : Config) (hc : cfg.nestedRecBindsInFrame = false) (P : Pool) :
    ∀ (ds : List Nat) (s : State),
      (ensureAll cfg P ds s).1.leaks = s.leaks ∧ (ensureAll cfg P ds s).1.tracing = s.tracing := by
  intro ds
  induction ds with
  | nil => intro s; exact ⟨rfl, rfl⟩
  | cons d ds ih =>
    intro s
    simp only [ensureAll]
    have h := ensureChecked_clean cfg hc P d s
    rcases h1 : ensureChecked cfg P d s with ⟨t, r⟩
    rw [h1] at h
    simp only at h
    cases r with
    | error e => exact h
    | ok u => exact ⟨(ih t).1.trans h.1, (ih t).2.trans h.2⟩

theorem ensureAll_parsing (cfg : Config) (hc : cfg.nestedRecBindsInFrame = false)
    (hp : cfg.parseRestores = true) (P : Pool) :
    ∀ (ds : List Nat) (s : State), (ensureAll cfg P ds s).1.parsing = s.parsing := by
  intro ds
  induction ds with
  | nil => intro s; rfl
  | cons d ds ih =>
    intro s
    simp only [ensureAll]
    have h := ensureChecked_parsing cfg hc hp P d s
    rcases h1 : ensureChecked cfg P d s with ⟨t, r⟩
    rw [h1] at h
    simp only at h
    cases r with
    | error e => exact h
    | ok u => exact (ih t).trans h

theorem compileOne_clean (cfg : Config) (hc : cfg.nestedRecBindsInFrame = false)
    (ht : cfg.tracingRestored = true) (lt : Nat → Nat → Bool)
    (P : Pool) (n : Nat) (s : State) :
    (compileOne cfg lt P n s).1.leaks = s.leaks ∧ (compileOne cfg lt P n s).1.tracing = s.tracing := by
  unfold compileOne
  split
  · simp only [ht, ↓reduceIte]
    rename_i r c _ _
    split
    · split
      · exact ⟨rfl, rfl⟩
      · split
        · exact ⟨rfl, rfl⟩
        · have ha := ensureAll_clean cfg hc P r.deps { s with tracing := true, tmpCtr := s.tmpCtr + r.ctmps }
          rcases q : ensureAll cfg P r.deps { s with tracing := true, tmpCtr := s.tmpCtr + r.ctmps } with ⟨t, o⟩
          rw [q] at ha
          simp only at ha
          cases o with
          | error e => exact ⟨ha.1, rfl⟩
          | ok u => exact ⟨ha.1, rfl⟩
    · generalize setRet (retAfter cfg c.core) = g
      have ha := ensureAll_clean cfg hc P r.deps { s with checked := updChecked n g s.checked }
      rcases q : ensureAll cfg P r.deps { s with checked := updChecked n g s.checked } with ⟨t, o⟩
      rw [q] at ha
      simp only at ha
      cases o with
      | error e => exact ha
      | ok u => exact ha
  · exact ⟨rfl, rfl⟩

theorem compileOne_parsing (cfg : Config) (hc : cfg.nestedRecBindsInFrame = false)
    (hp : cfg.parseRestores = true) (lt : Nat → Nat → Bool) (P : Pool) (n : Nat) (s : State) :
    (compileOne cfg lt P n s).1.parsing = s.parsing := by
  unfold compileOne
  split
  · simp only
    rename_i r c _ _
    split
    · split
      · rfl
      · split
        · rfl
        · have ha := ensureAll_parsing cfg hc hp P r.deps { s with tracing := true, tmpCtr := s.tmpCtr + r.ctmps }
          rcases q : ensureAll cfg P r.deps { s with tracing := true, tmpCtr := s.tmpCtr + r.ctmps } with ⟨t, o⟩
          rw [q] at ha
          simp only at ha
          cases o with
          | error e => exact ha
          | ok u => exact ha
    · generalize setRet (retAfter cfg c.core) = g
      have ha := ensureAll_parsing cfg hc hp P r.deps { s with checked := updChecked n g s.checked }
      rcases q : ensureAll cfg P r.deps { s with checked := updChecked n g s.checked } with ⟨t, o⟩
      rw [q] at ha
      simp only at ha
      cases o with
      | error e => exact ha
      | ok u => exact ha
  · rfl

theorem compileLoop_clean (cfg : Config) (hc : cfg.nestedRecBindsInFrame = false)
    (ht : cfg.tracingRestored = true) (lt : Nat → Nat → Bool) (P : Pool) (f : Nat) :
    ∀ (work done : List Nat) (acc : List OutEntry) (s : State),
      (compileLoop cfg lt P f work done s acc).1.leaks = s.leaks ∧
        (compileLoop cfg lt P f work done s acc).1.tracing = s.tracing := by
  induction f with
  | zero => intro work done acc s; cases work <;> exact ⟨rfl, rfl⟩
  | succ f ih =>
    intro work done acc s
    cases work with
    | nil => exact ⟨rfl, rfl⟩
    | cons n rest =>
      simp only [compileLoop]
      have h := ensureChecked_clean cfg hc P n s
      rcases h1 : ensureChecked cfg P n s with ⟨t, r⟩
      rw [h1] at h
      simp only at h
      cases r with
      | error e => exact h
      | ok u =>
        simp only
        have h2 := compileOne_clean cfg hc ht lt P n t
        rcases h3 : compileOne cfg lt P n t with ⟨u1, r1⟩
        rw [h3] at h2
        simp only at h2
        cases r1 with
        | error e => exact ⟨h2.1.trans h.1, h2.2.trans h.2⟩
        | ok e =>
          simp only
          have h4 := ih (pushNew (match P[n]? with | some r => r.deps | none => [])
            (n :: done ++ rest) rest).2 (n :: done) (acc ++ [e]) u1
          exact ⟨h4.1.trans (h2.1.trans h.1), h4.2.trans (h2.2.trans h.2)⟩

theorem compileLoop_parsing (cfg : Config) (hc : cfg.nestedRecBindsInFrame = false)
    (hp : cfg.parseRestores = true) (lt : Nat → Nat → Bool) (P : Pool) (f : Nat) :
    ∀ (work done : List Nat) (acc : List OutEntry) (s : State),
      (compileLoop cfg lt P f work done s acc).1.parsing = s.parsing := by
  induction f with
  | zero => intro work done acc s; cases work <;> rfl
  | succ f ih =>
    intro work done acc s
    cases work with
    | nil => rfl
    | cons n rest =>
      simp only [compileLoop]
      have h := ensureChecked_parsing cfg hc hp P n s
      rcases h1 : ensureChecked cfg P n s with ⟨t, r⟩
      rw [h1] at h
      simp only at h
      cases r with
      | error e => exact h
      | ok u =>
        simp only
        have h2 := compileOne_parsing cfg hc hp lt P n t
        rcases h3 : compileOne cfg lt P n t with ⟨u1, r1⟩
        rw [h3] at h2
        simp only at h2
        cases r1 with
        | error e => exact h2.trans h
        | ok e =>
          simp only
          exact (ih _ _ _ u1).trans (h2.trans h)

theorem step_clean (cfg : Config) (hc : cfg.nestedRecBindsInFrame = false)
    (ht : cfg.tracingRestored = true) (lt : Nat → Nat → Bool) (P : Pool) (o : Op) (s : State) :
    (step cfg lt P o s).leaks = s.leaks ∧ (step cfg lt P o s).tracing = s.tracing := by
  cases o with
  | check d => exact check_clean cfg hc P d s
  | lower d =>
    simp only [step, lower]
    have h := check_clean cfg hc P d s
    rcases h1 : check cfg P d s with ⟨t, r⟩
    rw [h1] at h
    simp only at h
    cases r with
    | error e => exact h
    | ok u =>
      simp only
      have h2 := compileLoop_clean cfg hc ht lt P (fuelFor P) [d] [] [] t
      exact ⟨h2.1.trans h.1, h2.2.trans h.2⟩
  | relower d =>
    simp only [step, relower]
    split
    · exact compileLoop_clean cfg hc ht lt P (fuelFor P) [d] [] [] s
    · exact ⟨rfl, rfl⟩

/-- every operation, failing ones included, leaves `parsing` empty if it was -/
theorem step_parsing (cfg : Config) (hc : cfg.nestedRecBindsInFrame = false)
    (hp : cfg.parseRestores = true) (lt : Nat → Nat → Bool) (P : Pool) (o : Op) (s : State)
    (h0 : s.parsing = []) : (step cfg lt P o s).parsing = [] := by
  cases o with
  | check d => exact check_parsing cfg hc hp P d s h0
  | lower d =>
    simp only [step, lower]
    have h := check_parsing cfg hc hp P d s h0
    rcases h1 : check cfg P d s with ⟨t, r⟩
    rw [h1] at h
    simp only at h
    cases r with
    | error e => exact h
    | ok u =>
      simp only
      exact (compileLoop_parsing cfg hc hp lt P (fuelFor P) [d] [] [] t).trans h
  | relower d =>
    simp only [step, relower]
    split
    · exact (compileLoop_parsing cfg hc hp lt P (fuelFor P) [d] [] [] s).trans h0
    · exact h0

theorem run_clean (cfg : Config) (hc : cfg.nestedRecBindsInFrame = false)
    (ht : cfg.tracingRestored = true) (lt : Nat → Nat → Bool) (P : Pool) (h : List Op) (s : State) :
    (run cfg lt P h s).leaks = s.leaks ∧ (run cfg lt P h s).tracing = s.tracing := by
  induction h generalizing s with
  | nil => exact ⟨rfl, rfl⟩
  | cons o os ih =>
    have h1 := step_clean cfg hc ht lt P o s
    have h2 := ih (step cfg lt P o s)
    exact ⟨h2.1.trans h1.1, h2.2.trans h1.2⟩

/-! ## glue between the model and the specification vocabulary -/

/-- the session system of the model: state, the three operations, observation of a target =
    (outcome of `d.check()`, outcome and abstract output of `compile d`) -/
def sys (cfg : Config) (lt : Nat → Nat → Bool) (P : Pool) :
    Sys Op State Nat (Except Err Unit × Except Err (List OutEntry)) where
  init := State.init
  step := step cfg lt P
  failsAt := fails cfg lt P
  observe := observe cfg lt P

/-- what the theorems need of the source -/
structure Config.Sound (cfg : Config) : Prop where
  resets : cfg.checkResets = true
  noFrameWrite : cfg.nestedRecBindsInFrame = false
  tracingRestored : cfg.tracingRestored = true
  parsingCleared : cfg.resetClearsParsing = true
  parseRestores : cfg.parseRestores = true

instance (cfg : Config) : Decidable cfg.Sound :=
  if h : cfg.checkResets = true ∧ cfg.nestedRecBindsInFrame = false ∧ cfg.tracingRestored = true ∧
      cfg.resetClearsParsing = true ∧ cfg.parseRestores = true then
    isTrue ⟨h.1, h.2.1, h.2.2.1, h.2.2.2.1, h.2.2.2.2⟩
  else isFalse (fun s => h ⟨s.resets, s.noFrameWrite, s.tracingRestored, s.parsingCleared, s.parseRestores⟩)

theorem exec_eq_run (cfg : Config) (lt : Nat → Nat → Bool) (P : Pool) (h : List Op) (s : State) :
    (sys cfg lt P).exec h s = run cfg lt P h s := by
  induction h generalizing s with
  | nil => rfl
  | cons o os ih => exact ih _

theorem findChecked_updChecked (n : Nat) (f : CfgCore → CfgCore) (hf : ∀ k, (f k).id = k.id)
    (l : List Checked) (c : Checked) (h : findChecked n l = some c) :
    findChecked n (updChecked n f l) = some { c with core := f c.core } := by
  induction l with
  | nil => simp [findChecked] at h
  | cons x xs ih =>
    simp only [findChecked] at h
    simp only [updChecked]
    split at h
    · rename_i hx
      injection h with h
      subst h
      simp only [hx, ↓reduceIte, findChecked, hf]
    · rename_i hx
      simp only [hx, Bool.false_eq_true, ↓reduceIte, findChecked]
      exact ih h

theorem any_id_updChecked (n m : Nat) (f : CfgCore → CfgCore) (hf : ∀ k, (f k).id = k.id) (l : List Checked) :
    (updChecked n f l).any (·.core.id == m) = l.any (·.core.id == m) := by
  induction l with
  | nil => rfl
  | cons x xs ih =>
    simp only [updChecked, List.any_cons, ih]
    split <;> simp [hf]

/-- looking up globals that all are in the cache changes nothing -/
theorem ensureAll_noop (cfg : Config) (P : Pool) :
    ∀ (ds : List Nat) (s : State), (∀ d ∈ ds, s.hasChecked d = true) → ensureAll cfg P ds s = (s, .ok ()) := by
  intro ds
  induction ds with
  | nil => intro s _; rfl
  | cons d ds ih =>
    intro s h
    have hd : s.hasChecked d = true := h d (by simp)
    simp only [ensureAll, ensureChecked, hd, ↓reduceIte]
    exact ih s (fun d' hd' => h d' (by simp [hd']))

theorem retAfter_stable (cfg : Config) (hg : cfg.returnVarsGuard = true) (c : CfgCore) (ext : Nat) :
    retAfter cfg (setExt ext (setRet (retAfter cfg c) c)) = retAfter cfg c := by
  simp only [retAfter, setExt, setRet, hg, Bool.true_and]
  split <;> simp_all

/-! ## sessions in which the program text changes between operations -/

/-- the session system over *versions*: the version of an operation is the pool (the text of the file as it
    is when the operation is issued); the state carries nothing of a version but what `State` has -/
def vsys (cfg : Config) (lt : Nat → Nat → Bool) :
    VSys Pool Op State Nat (Except Err Unit × Except Err (List OutEntry)) where
  init := State.init
  step := fun P o s => step cfg lt P o s
  observe := fun P s d => observe cfg lt P s d

theorem vexec_clean (cfg : Config) (hc : cfg.nestedRecBindsInFrame = false)
    (ht : cfg.tracingRestored = true) (lt : Nat → Nat → Bool) (h : List (Pool × Op)) (s : State) :
    ((vsys cfg lt).exec h s).leaks = s.leaks ∧ ((vsys cfg lt).exec h s).tracing = s.tracing := by
  induction h generalizing s with
  | nil => exact ⟨rfl, rfl⟩
  | cons po os ih =>
    obtain ⟨P, o⟩ := po
    have h1 := step_clean cfg hc ht lt P o s
    have h2 := ih (step cfg lt P o s)
    exact ⟨h2.1.trans h1.1, h2.2.trans h1.2⟩

end GuppyVerif.Session
