import GuppyVerif.Model.Session
import GuppyVerif.Spec.C11
/-! Helper lemmas for C11: a simulation between two runs of the session model that differ only in
    counters (`tmpCtr`, `defCtr`, `store`, the `base` of cached CFGs), and the session invariant
    (nothing leaked into the frame, tracing mode off). -/
namespace GuppyVerif.Session

/-! ## sorting is invariant under shifting the counters -/

theorem insertSorted_shift {lt : Nat → Nat → Bool} (h : ShiftInv lt) (b x : Nat) (l : List Nat) :
    insertSorted lt (b + x) (l.map (b + ·)) = (insertSorted lt x l).map (b + ·) := by
  induction l with
  | nil => rfl
  | cons y ys ih =>
    simp only [List.map_cons, insertSorted, h b x y]
    split
    · simp
    · simp [ih]

theorem isort_shift {lt : Nat → Nat → Bool} (h : ShiftInv lt) (b : Nat) (l : List Nat) :
    isort lt (l.map (b + ·)) = (isort lt l).map (b + ·) := by
  induction l with
  | nil => rfl
  | cons x xs ih => simp only [List.map_cons, isort, ih, insertSorted_shift h]

theorem sortRel_shift {lt : Nat → Nat → Bool} (h : ShiftInv lt) (b : Nat) (row : List Nat) :
    sortRel lt b row = isort lt row := by
  unfold sortRel
  rw [isort_shift h, List.map_map]
  conv => rhs; rw [← List.map_id (isort lt row)]
  apply List.map_congr_left
  intro a _
  simp

theorem natLt_shiftInv : ShiftInv natLt := by
  intro b i j
  simp [natLt]

/-! ## the simulation relation -/

inductive RelL : List Checked → List Checked → Prop
  | nil : RelL [] []
  | cons {c c' : Checked} {l l' : List Checked} : c.core = c'.core → RelL l l' → RelL (c :: l) (c' :: l')

structure Rel (s s' : State) : Prop where
  checked : RelL s.checked s'.checked
  parsed : s.parsed = s'.parsed
  leaks : s.leaks = s'.leaks
  tracing : s.tracing = s'.tracing

theorem RelL.any_id {l l' : List Checked} (h : RelL l l') (n : Nat) :
    l.any (·.core.id == n) = l'.any (·.core.id == n) := by
  induction h with
  | nil => rfl
  | cons hc _ ih => simp [List.any_cons, hc, ih]

theorem RelL.append {l l' m m' : List Checked} (h : RelL l l') (hm : RelL m m') :
    RelL (l ++ m) (l' ++ m') := by
  induction h with
  | nil => simpa using hm
  | cons hc _ ih => exact RelL.cons hc ih

theorem Rel.hasChecked {s s' : State} (h : Rel s s') : s.hasChecked = s'.hasChecked := by
  funext n
  exact h.checked.any_id n

theorem Rel.resolve {s s' : State} (h : Rel s s') (P : Pool) (d : Nat) :
    resolve P s d = resolve P s' d := by
  unfold Session.resolve
  rw [h.leaks]

/-! ## `bumpNested` when nothing is bound in the frame -/

theorem bumpNested_frame (cfg : Config) (hc : cfg.nestedRecBindsInFrame = false) (s : State)
    (ns : List Nested) :
    (bumpNested cfg s ns).checked = s.checked ∧ (bumpNested cfg s ns).leaks = s.leaks ∧
      (bumpNested cfg s ns).tracing = s.tracing ∧ (bumpNested cfg s ns).tmpCtr = s.tmpCtr ∧
      (bumpNested cfg s ns).parsed = s.parsed := by
  induction ns generalizing s with
  | nil => simp [bumpNested]
  | cons nd rest ih =>
    simp only [bumpNested, hc]
    split
    · have := ih { s with defCtr := s.defCtr + 1, store := s.store + 1 }
      simpa using this
    · have := ih { s with defCtr := s.defCtr + 1 }
      simpa using this

/-! ## checking -/

theorem checkOne_rel (cfg : Config) (hc : cfg.nestedRecBindsInFrame = false) (P : Pool) (n : Nat)
    {s s' : State} (h : Rel s s') :
    Rel (checkOne cfg P n s).1 (checkOne cfg P n s').1 ∧
      (checkOne cfg P n s).2 = (checkOne cfg P n s').2 := by
  unfold checkOne
  cases hp : P[n]? with
  | none => exact ⟨h, rfl⟩
  | some r =>
    simp only
    have e1 : ∀ d, Session.resolve P s d = Session.resolve P s' d := h.resolve P
    have b := bumpNested_frame cfg hc (s.beginCheck n r.tmps) r.nested
    have b' := bumpNested_frame cfg hc (s'.beginCheck n r.tmps) r.nested
    have hrel : Rel (bumpNested cfg (s.beginCheck n r.tmps) r.nested)
        (bumpNested cfg (s'.beginCheck n r.tmps) r.nested) :=
      ⟨by rw [b.1, b'.1]; exact h.checked,
       by rw [b.2.2.2.2, b'.2.2.2.2]; simp only [State.beginCheck, h.parsed],
       by rw [b.2.1, b'.2.1]; exact h.leaks,
       by rw [b.2.2.1, b'.2.2.1]; exact h.tracing⟩
    simp only [e1]
    split
    · refine ⟨⟨?_, hrel.parsed, hrel.leaks, hrel.tracing⟩, rfl⟩
      exact hrel.checked.append (RelL.cons rfl RelL.nil)
    · split
      · exact ⟨hrel, rfl⟩
      · split
        · exact ⟨hrel, rfl⟩
        · split
          · exact ⟨hrel, by rw [hrel.tracing]⟩
          · split
            · exact ⟨hrel, rfl⟩
            · refine ⟨⟨?_, hrel.parsed, hrel.leaks, hrel.tracing⟩, rfl⟩
              exact hrel.checked.append (RelL.cons rfl RelL.nil)

theorem checkLoop_rel (cfg : Config) (hc : cfg.nestedRecBindsInFrame = false) (P : Pool) (f : Nat) :
    ∀ (work : List Nat) {s s' : State}, Rel s s' →
      Rel (checkLoop cfg P f work s).1 (checkLoop cfg P f work s').1 ∧
        (checkLoop cfg P f work s).2 = (checkLoop cfg P f work s').2 := by
  induction f with
  | zero =>
    intro work s s' h
    cases work <;> exact ⟨h, rfl⟩
  | succ f ih =>
    intro work s s' h
    cases work with
    | nil => exact ⟨h, rfl⟩
    | cons n rest =>
      simp only [checkLoop]
      rw [h.hasChecked]
      split
      · exact ih rest h
      · have hr := checkOne_rel cfg hc P n h
        rcases h1 : checkOne cfg P n s with ⟨t, r⟩
        rcases h2 : checkOne cfg P n s' with ⟨t', r'⟩
        rw [h1, h2] at hr
        obtain ⟨hrel, hres⟩ := hr
        simp only at hrel hres
        subst hres
        cases r with
        | error e => exact ⟨hrel, rfl⟩
        | ok deps =>
          simp only
          rw [hrel.parsed]
          exact ih _ ⟨hrel.checked, rfl, hrel.leaks, hrel.tracing⟩

theorem check_rel (cfg : Config) (hc : cfg.nestedRecBindsInFrame = false) (hr : cfg.checkResets = true)
    (P : Pool) (d : Nat) {s s' : State} (hl : s.leaks = s'.leaks) (ht : s.tracing = s'.tracing) :
    Rel (check cfg P d s).1 (check cfg P d s').1 ∧ (check cfg P d s).2 = (check cfg P d s').2 := by
  unfold check
  simp only [hr, ↓reduceIte]
  exact checkLoop_rel cfg hc P _ _ ⟨RelL.nil, rfl, hl, ht⟩

/-! ## lowering -/

theorem findChecked_rel {l l' : List Checked} (h : RelL l l') (n : Nat) :
    (findChecked n l = none ∧ findChecked n l' = none) ∨
      ∃ c c', findChecked n l = some c ∧ findChecked n l' = some c' ∧ c.core = c'.core := by
  induction h with
  | nil => exact Or.inl ⟨rfl, rfl⟩
  | @cons c c' l l' hcc _ ih =>
    simp only [findChecked, hcc]
    split
    · exact Or.inr ⟨c, c', rfl, rfl, hcc⟩
    · exact ih

theorem updChecked_rel {l l' : List Checked} (h : RelL l l') (n : Nat) (f : CfgCore → CfgCore) :
    RelL (updChecked n f l) (updChecked n f l') := by
  induction h with
  | nil => exact RelL.nil
  | @cons c c' l l' hcc _ ih =>
    simp only [updChecked, hcc]
    split
    · exact RelL.cons (by simp) ih
    · exact RelL.cons hcc ih

theorem compileOne_rel (cfg : Config) {lt : Nat → Nat → Bool} (hlt : ShiftInv lt) (P : Pool) (n : Nat)
    {s s' : State} (h : Rel s s') :
    Rel (compileOne cfg lt P n s).1 (compileOne cfg lt P n s').1 ∧
      (compileOne cfg lt P n s).2 = (compileOne cfg lt P n s').2 := by
  unfold compileOne
  cases hp : P[n]? with
  | none => exact ⟨h, rfl⟩
  | some r =>
    rcases findChecked_rel h.checked n with ⟨e1, e2⟩ | ⟨c, c', e1, e2, hcc⟩
    · rw [e1, e2]; exact ⟨h, rfl⟩
    · rw [e1, e2]
      simp only
      have e1 : ∀ d, Session.resolve P s d = Session.resolve P s' d := h.resolve P
      simp only [e1]
      split
      · split
        · exact ⟨⟨h.checked, h.parsed, h.leaks, by simp [h.tracing]⟩, rfl⟩
        · split
          · exact ⟨⟨h.checked, h.parsed, h.leaks, by simp [h.tracing]⟩, rfl⟩
          · exact ⟨⟨h.checked, h.parsed, h.leaks, h.tracing⟩, rfl⟩
      · refine ⟨⟨?_, h.parsed, h.leaks, h.tracing⟩, ?_⟩
        · simp only [hcc]
          exact updChecked_rel h.checked n _
        · have e : ∀ b, sortRel lt b = isort lt := fun b => funext (sortRel_shift hlt b)
          simp only [hcc, e]

theorem ensureChecked_rel (cfg : Config) (hc : cfg.nestedRecBindsInFrame = false) (P : Pool) (n : Nat)
    {s s' : State} (h : Rel s s') :
    Rel (ensureChecked cfg P n s).1 (ensureChecked cfg P n s').1 ∧
      (ensureChecked cfg P n s).2 = (ensureChecked cfg P n s').2 := by
  unfold ensureChecked
  rw [h.hasChecked]
  split
  · exact ⟨h, rfl⟩
  · have hr := checkOne_rel cfg hc P n h
    rcases h1 : checkOne cfg P n s with ⟨t, r⟩
    rcases h2 : checkOne cfg P n s' with ⟨t', r'⟩
    rw [h1, h2] at hr
    obtain ⟨hrel, hres⟩ := hr
    simp only at hrel hres
    subst hres
    cases r with
    | error e => exact ⟨hrel, rfl⟩
    | ok deps =>
      simp only
      rw [hrel.parsed]
      exact ⟨⟨hrel.checked, rfl, hrel.leaks, hrel.tracing⟩, by trivial⟩

theorem compileLoop_rel (cfg : Config) (hc : cfg.nestedRecBindsInFrame = false)
    {lt : Nat → Nat → Bool} (hlt : ShiftInv lt) (P : Pool) (f : Nat) :
    ∀ (work done : List Nat) (acc : List OutEntry) {s s' : State}, Rel s s' →
      Rel (compileLoop cfg lt P f work done s acc).1 (compileLoop cfg lt P f work done s' acc).1 ∧
        (compileLoop cfg lt P f work done s acc).2 = (compileLoop cfg lt P f work done s' acc).2 := by
  induction f with
  | zero =>
    intro work done acc s s' h
    cases work <;> exact ⟨h, rfl⟩
  | succ f ih =>
    intro work done acc s s' h
    cases work with
    | nil => exact ⟨h, rfl⟩
    | cons n rest =>
      simp only [compileLoop]
      have hr := ensureChecked_rel cfg hc P n h
      rcases h1 : ensureChecked cfg P n s with ⟨t, r⟩
      rcases h2 : ensureChecked cfg P n s' with ⟨t', r'⟩
      rw [h1, h2] at hr
      obtain ⟨hrel, hres⟩ := hr
      simp only at hrel hres
      subst hres
      cases r with
      | error e => exact ⟨hrel, rfl⟩
      | ok u =>
        simp only
        have hr2 := compileOne_rel cfg hlt P n hrel
        rcases h3 : compileOne cfg lt P n t with ⟨u1, r1⟩
        rcases h4 : compileOne cfg lt P n t' with ⟨u1', r1'⟩
        rw [h3, h4] at hr2
        obtain ⟨hrel2, hres2⟩ := hr2
        simp only at hrel2 hres2
        subst hres2
        cases r1 with
        | error e => exact ⟨hrel2, rfl⟩
        | ok e => exact ih _ _ _ hrel2

theorem lower_rel (cfg : Config) (hc : cfg.nestedRecBindsInFrame = false) (hr : cfg.checkResets = true)
    {lt : Nat → Nat → Bool} (hlt : ShiftInv lt) (P : Pool) (d : Nat) {s s' : State}
    (hl : s.leaks = s'.leaks) (ht : s.tracing = s'.tracing) :
    (lower cfg lt P d s).2 = (lower cfg lt P d s').2 := by
  unfold lower
  have h := check_rel cfg hc hr P d hl ht
  rcases h1 : check cfg P d s with ⟨t, r⟩
  rcases h2 : check cfg P d s' with ⟨t', r'⟩
  rw [h1, h2] at h
  obtain ⟨hrel, hres⟩ := h
  simp only at hrel hres
  subst hres
  cases r with
  | error e => rfl
  | ok u => exact (compileLoop_rel cfg hc hlt P _ _ _ _ hrel).2

/-! ## the session invariant: nothing leaked, tracing off -/

def Clean (s : State) : Prop := s.leaks = [] ∧ s.tracing = false

theorem checkOne_clean (cfg : Config) (hc : cfg.nestedRecBindsInFrame = false) (P : Pool) (n : Nat)
    (s : State) :
    (checkOne cfg P n s).1.leaks = s.leaks ∧ (checkOne cfg P n s).1.tracing = s.tracing := by
  unfold checkOne
  cases hp : P[n]? with
  | none => exact ⟨rfl, rfl⟩
  | some r =>
    simp only
    have b := bumpNested_frame cfg hc (s.beginCheck n r.tmps) r.nested
    split
    · exact ⟨b.2.1, b.2.2.1⟩
    · split
      · exact ⟨b.2.1, b.2.2.1⟩
      · split
        · exact ⟨b.2.1, b.2.2.1⟩
        · split
          · exact ⟨b.2.1, b.2.2.1⟩
          · split
            · exact ⟨b.2.1, b.2.2.1⟩
            · exact ⟨b.2.1, b.2.2.1⟩

theorem checkLoop_clean (cfg : Config) (hc : cfg.nestedRecBindsInFrame = false) (P : Pool) (f : Nat) :
    ∀ (work : List Nat) (s : State),
      (checkLoop cfg P f work s).1.leaks = s.leaks ∧ (checkLoop cfg P f work s).1.tracing = s.tracing := by
  induction f with
  | zero => intro work s; cases work <;> exact ⟨rfl, rfl⟩
  | succ f ih =>
    intro work s
    cases work with
    | nil => exact ⟨rfl, rfl⟩
    | cons n rest =>
      simp only [checkLoop]
      split
      · exact ih rest s
      · have h := checkOne_clean cfg hc P n s
        rcases h1 : checkOne cfg P n s with ⟨t, r⟩
        rw [h1] at h
        simp only at h
        cases r with
        | error e => exact h
        | ok deps =>
          simp only
          have h2 := ih (pushNew deps t.parsed rest).2 { t with parsed := (pushNew deps t.parsed rest).1 }
          exact ⟨h2.1.trans h.1, h2.2.trans h.2⟩

theorem check_clean (cfg : Config) (hc : cfg.nestedRecBindsInFrame = false) (P : Pool) (d : Nat)
    (s : State) :
    (check cfg P d s).1.leaks = s.leaks ∧ (check cfg P d s).1.tracing = s.tracing := by
  unfold check
  split
  · exact checkLoop_clean cfg hc P _ _ s.reset
  · exact checkLoop_clean cfg hc P _ _ s

theorem compileOne_clean (cfg : Config) (ht : cfg.tracingRestored = true) (lt : Nat → Nat → Bool)
    (P : Pool) (n : Nat) (s : State) :
    (compileOne cfg lt P n s).1.leaks = s.leaks ∧ (compileOne cfg lt P n s).1.tracing = s.tracing := by
  unfold compileOne
  split
  · simp only [ht, ↓reduceIte]
    split
    · split
      · exact ⟨rfl, rfl⟩
      · split <;> exact ⟨rfl, rfl⟩
    · exact ⟨rfl, rfl⟩
  · exact ⟨rfl, rfl⟩

theorem ensureChecked_clean (cfg : Config) (hc : cfg.nestedRecBindsInFrame = false) (P : Pool)
    (n : Nat) (s : State) :
    (ensureChecked cfg P n s).1.leaks = s.leaks ∧ (ensureChecked cfg P n s).1.tracing = s.tracing := by
  unfold ensureChecked
  split
  · exact ⟨rfl, rfl⟩
  · have h := checkOne_clean cfg hc P n s
    rcases h1 : checkOne cfg P n s with ⟨t, r⟩
    rw [h1] at h
    cases r <;> exact h

theorem compileLoop_clean (cfg : Config) (hc : cfg.nestedRecBindsInFrame = false)
    (ht : cfg.tracingRestored = true) (lt : Nat → Nat → Bool) (P : Pool) (f : Nat) :
    ∀ (work done : List Nat) (acc : List OutEntry) (s : State),
      (compileLoop cfg lt P f work done s acc).1.leaks = s.leaks ∧
        (compileLoop cfg lt P f work done s acc).1.tracing = s.tracing := by
  induction f with
  | zero => intro work done acc s; cases work <;> exact ⟨rfl, rfl⟩
  | succ f ih =>
    intro work done acc s
    cases work with
    | nil => exact ⟨rfl, rfl⟩
    | cons n rest =>
      simp only [compileLoop]
      have h := ensureChecked_clean cfg hc P n s
      rcases h1 : ensureChecked cfg P n s with ⟨t, r⟩
      rw [h1] at h
      simp only at h
      cases r with
      | error e => exact h
      | ok u =>
        simp only
        have h2 := compileOne_clean cfg ht lt P n t
        rcases h3 : compileOne cfg lt P n t with ⟨u1, r1⟩
        rw [h3] at h2
        simp only at h2
        cases r1 with
        | error e => exact ⟨h2.1.trans h.1, h2.2.trans h.2⟩
        | ok e =>
          simp only
          have h4 := ih (pushNew (match P[n]? with | some r => r.deps | none => [])
            (n :: done ++ rest) rest).2 (n :: done) (acc ++ [e]) u1
          exact ⟨h4.1.trans (h2.1.trans h.1), h4.2.trans (h2.2.trans h.2)⟩

theorem step_clean (cfg : Config) (hc : cfg.nestedRecBindsInFrame = false)
    (ht : cfg.tracingRestored = true) (lt : Nat → Nat → Bool) (P : Pool) (o : Op) (s : State) :
    (step cfg lt P o s).leaks = s.leaks ∧ (step cfg lt P o s).tracing = s.tracing := by
  cases o with
  | check d => exact check_clean cfg hc P d s
  | lower d =>
    simp only [step, lower]
    have h := check_clean cfg hc P d s
    rcases h1 : check cfg P d s with ⟨t, r⟩
    rw [h1] at h
    simp only at h
    cases r with
    | error e => exact h
    | ok u =>
      simp only
      have h2 := compileLoop_clean cfg hc ht lt P (fuelFor P) [d] [] [] t
      exact ⟨h2.1.trans h.1, h2.2.trans h.2⟩
  | relower d =>
    simp only [step, relower]
    split
    · exact compileLoop_clean cfg hc ht lt P (fuelFor P) [d] [] [] s
    · exact ⟨rfl, rfl⟩

theorem run_clean (cfg : Config) (hc : cfg.nestedRecBindsInFrame = false)
    (ht : cfg.tracingRestored = true) (lt : Nat → Nat → Bool) (P : Pool) (h : List Op) (s : State) :
    (run cfg lt P h s).leaks = s.leaks ∧ (run cfg lt P h s).tracing = s.tracing := by
  induction h generalizing s with
  | nil => exact ⟨rfl, rfl⟩
  | cons o os ih =>
    have h1 := step_clean cfg hc ht lt P o s
    have h2 := ih (step cfg lt P o s)
    exact ⟨h2.1.trans h1.1, h2.2.trans h1.2⟩

/-! ## glue between the model and the specification vocabulary -/

/-- the session system of the model: state, the three operations, observation of a target =
    (outcome of `d.check()`, outcome and abstract output of `compile d`) -/
def sys (cfg : Config) (lt : Nat → Nat → Bool) (P : Pool) :
    Sys Op State Nat (Except Err Unit × Except Err (List OutEntry)) where
  init := State.init
  step := step cfg lt P
  failsAt := fails cfg lt P
  observe := observe cfg lt P

/-- what the theorems need of the source -/
structure Config.Sound (cfg : Config) : Prop where
  resets : cfg.checkResets = true
  noFrameWrite : cfg.nestedRecBindsInFrame = false
  tracingRestored : cfg.tracingRestored = true

instance (cfg : Config) : Decidable cfg.Sound :=
  if h : cfg.checkResets = true ∧ cfg.nestedRecBindsInFrame = false ∧ cfg.tracingRestored = true then
    isTrue ⟨h.1, h.2.1, h.2.2⟩
  else isFalse (fun s => h ⟨s.resets, s.noFrameWrite, s.tracingRestored⟩)

theorem exec_eq_run (cfg : Config) (lt : Nat → Nat → Bool) (P : Pool) (h : List Op) (s : State) :
    (sys cfg lt P).exec h s = run cfg lt P h s := by
  induction h generalizing s with
  | nil => rfl
  | cons o os ih => exact ih _

theorem findChecked_updChecked (n : Nat) (f : CfgCore → CfgCore) (hf : ∀ k, (f k).id = k.id)
    (l : List Checked) (c : Checked) (h : findChecked n l = some c) :
    findChecked n (updChecked n f l) = some { c with core := f c.core } := by
  induction l with
  | nil => simp [findChecked] at h
  | cons x xs ih =>
    simp only [findChecked] at h
    simp only [updChecked]
    split at h
    · rename_i hx
      injection h with h
      subst h
      simp only [hx, ↓reduceIte, findChecked, hf]
    · rename_i hx
      simp only [hx, Bool.false_eq_true, ↓reduceIte, findChecked]
      exact ih h

end GuppyVerif.Session
