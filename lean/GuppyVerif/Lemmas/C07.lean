import GuppyVerif.Model.Places
namespace GuppyVerif.Places

/-! ### the lens laws, for all paths (induction on the path) -/

theorem getP_append : ∀ (p q : List Step) (x : V),
    getP (p ++ q) x = (getP p x).bind (getP q)
  | [], q, x => by simp [getP]
  | .proj k :: r, q, x => by
    cases x <;> simp [getP]
    rename_i vs
    cases vs[k]? <;> simp [getP_append r q]
  | .idx i :: r, q, x => by
    cases x <;> simp [getP]
    rename_i cs
    cases cs[i]? <;> simp [getP_append r q]

theorem set_self {β} (vs : List β) (k : Nat) (c : β) (h : vs[k]? = some c) : vs.set k c = vs := by
  apply List.ext_getElem?
  intro j
  by_cases hj : k = j
  · subst hj
    obtain ⟨hlt, he⟩ := List.getElem?_eq_some_iff.mp h
    simp [hlt, he]
  · simp [hj]

/-- put-get -/
theorem getP_putP : ∀ (p : List Step) (new x x' : V), putP p new x = some x' → getP p x' = some new
  | [], new, x, x', h => by simp [putP] at h; simp [getP, h]
  | .proj k :: r, new, x, x', h => by
    cases x <;> simp [putP] at h
    rename_i vs
    cases hk : vs[k]? with
    | none => simp [hk] at h
    | some c =>
      simp [hk] at h
      cases hp : putP r new c with
      | none => simp [hp] at h
      | some c' =>
        simp [hp] at h; subst h
        have hlt : k < vs.length := by
          rcases Nat.lt_or_ge k vs.length with h' | h'
          · exact h'
          · rw [List.getElem?_eq_none h'] at hk; cases hk
        simp [getP, hlt, getP_putP r new c c' hp]
  | .idx i :: r, new, x, x', h => by
    cases x <;> simp [putP] at h
    rename_i vs
    cases hk : vs[i]? with
    | none => simp [hk] at h
    | some c =>
      simp [hk] at h
      cases hp : putP r new c with
      | none => simp [hp] at h
      | some c' =>
        simp [hp] at h; subst h
        have hlt : i < vs.length := by
          rcases Nat.lt_or_ge i vs.length with h' | h'
          · exact h'
          · rw [List.getElem?_eq_none h'] at hk; cases hk
        simp [getP, hlt, getP_putP r new c c' hp]

/-- get-put -/
theorem putP_getP : ∀ (p : List Step) (x v : V), getP p x = some v → putP p v x = some x
  | [], x, v, h => by simp [getP] at h; simp [putP, h]
  | .proj k :: r, x, v, h => by
    cases x <;> simp [getP] at h
    rename_i vs
    cases hk : vs[k]? with
    | none => simp [hk] at h
    | some c =>
      simp [hk] at h
      simp [putP, hk, putP_getP r c v h, set_self vs _ c hk]
  | .idx i :: r, x, v, h => by
    cases x <;> simp [getP] at h
    rename_i vs
    cases hk : vs[i]? with
    | none => simp [hk] at h
    | some c =>
      simp [hk] at h
      simp [putP, hk, putP_getP r c v h, set_self vs _ c hk]

/-- a put succeeds exactly where a get does -/
theorem putP_isSome_of_getP : ∀ (p : List Step) (new x v : V), getP p x = some v →
    ∃ x', putP p new x = some x'
  | [], new, x, v, _ => ⟨new, by simp [putP]⟩
  | .proj k :: r, new, x, v, h => by
    cases x <;> simp [getP] at h
    rename_i vs
    cases hk : vs[k]? with
    | none => simp [hk] at h
    | some c =>
      simp [hk] at h
      obtain ⟨c', hc⟩ := putP_isSome_of_getP r new c v h
      exact ⟨_, by simp only [putP, hk, hc]; rfl⟩
  | .idx i :: r, new, x, v, h => by
    cases x <;> simp [getP] at h
    rename_i vs
    cases hk : vs[i]? with
    | none => simp [hk] at h
    | some c =>
      simp [hk] at h
      obtain ⟨c', hc⟩ := putP_isSome_of_getP r new c v h
      exact ⟨_, by simp only [putP, hk, hc]; rfl⟩

/-- put-put -/
theorem putP_putP : ∀ (p : List Step) (a b x x1 : V), putP p a x = some x1 →
    putP p b x1 = putP p b x
  | [], a, b, x, x1, _ => by simp [putP]
  | .proj k :: r, a, b, x, x1, h => by
    cases x <;> simp [putP] at h
    rename_i vs
    cases hk : vs[k]? with
    | none => simp [hk] at h
    | some c =>
      simp [hk] at h
      cases hp : putP r a c with
      | none => simp [hp] at h
      | some c' =>
        simp [hp] at h; subst h
        have hlt : k < vs.length := by
          rcases Nat.lt_or_ge k vs.length with h' | h'
          · exact h'
          · rw [List.getElem?_eq_none h'] at hk; cases hk
        obtain ⟨_, hc⟩ := List.getElem?_eq_some_iff.mp hk
        simp [putP, hlt, putP_putP r a b c c' hp, hc]
  | .idx i :: r, a, b, x, x1, h => by
    cases x <;> simp [putP] at h
    rename_i vs
    cases hk : vs[i]? with
    | none => simp [hk] at h
    | some c =>
      simp [hk] at h
      cases hp : putP r a c with
      | none => simp [hp] at h
      | some c' =>
        simp [hp] at h; subst h
        have hlt : i < vs.length := by
          rcases Nat.lt_or_ge i vs.length with h' | h'
          · exact h'
          · rw [List.getElem?_eq_none h'] at hk; cases hk
        obtain ⟨_, hc⟩ := List.getElem?_eq_some_iff.mp hk
        simp [putP, hlt, putP_putP r a b c c' hp, hc]

/-- putting below `p ++ q` = putting at `q` inside the sub-value at `p`, then putting that back -/
theorem putP_append : ∀ (p q : List Step) (new x c : V), getP p x = some c →
    putP (p ++ q) new x = (putP q new c).bind (fun c' => putP p c' x)
  | [], q, new, x, c, h => by
    simp [getP] at h; subst h
    simp only [List.nil_append]
    cases hq : putP q new x <;> simp [putP]
  | .proj k :: r, q, new, x, c, h => by
    cases x <;> simp [getP] at h
    rename_i vs
    cases hk : vs[k]? with
    | none => simp [hk] at h
    | some d =>
      simp [hk] at h
      simp [putP, hk, putP_append r q new d c h]
      cases putP q new c <;> simp
  | .idx i :: r, q, new, x, c, h => by
    cases x <;> simp [getP] at h
    rename_i vs
    cases hk : vs[i]? with
    | none => simp [hk] at h
    | some d =>
      simp [hk] at h
      simp [putP, hk, putP_append r q new d c h]
      cases putP q new c <;> simp

theorem getP_hole_cons (s : Step) (r : List Step) : getP (s :: r) .hole = none := by
  cases s <;> simp [getP]



/-! ### the borrow / return cascade -/

theorem stepsOf_append (a b : List Chunk) : stepsOf (a ++ b) = stepsOf a ++ stepsOf b := by
  induction a with
  | nil => rfl
  | cons c cs ih => simp [stepsOf, ih]

/-- steps of the place `s_j` (the first `j` chunks) -/
def pathTo (cs : List Chunk) (j : Nat) : List Step := stepsOf (cs.take j)

theorem pathTo_succ (cs : List Chunk) (j : Nat) (c : Chunk) (h : cs[j]? = some c) :
    pathTo cs (j + 1) = pathTo cs j ++ c.steps := by
  unfold pathTo
  rw [List.take_add_one, h, stepsOf_append]
  simp [stepsOf]

theorem getP_chunk_hole (c : Chunk) : getP c.steps .hole = none := by
  unfold Chunk.steps
  cases c.projs with
  | nil => exact getP_hole_cons _ _
  | cons k r => exact getP_hole_cons _ _

theorem not_hole_of_getP_chunk (c : Chunk) (x e : V) (h : getP c.steps x = some e) :
    x.isHole = false := by
  cases x with
  | hole => rw [getP_chunk_hole] at h; cases h
  | _ => rfl

theorem runA_append (f : V → V) (p : CPath) (a b : List AOp) (s : Slots) :
    runA f p (a ++ b) s = (runA f p a s >>= runA f p b) := by
  induction a generalizing s with
  | nil => rfl
  | cons o os ih =>
    simp only [List.cons_append, runA]
    cases stepA f p s o with
    | error e => rfl
    | ok s' => exact ih s'

theorem load_succ (j : Nat) : load (j + 1) = load j ++ [.borrow (j + 1)] ++ store j := rfl
theorem store_succ (j : Nat) : store (j + 1) = load j ++ [.ret (j + 1)] ++ store j := rfl

section cascade
variable (f : V → V) (p : CPath)

/-- specification of `load j` -/
def LoadSpec (j : Nat) : Prop :=
  ∀ (s : Slots) (E : V), getP (pathTo p.chunks j) (s 0) = some E → (0 < j → E.isHole = false) →
    ∃ s', runA f p (load j) s = .ok s' ∧ s' j = E ∧ (j = 0 → s' = s) ∧
      (0 < j → putP (pathTo p.chunks j) .hole (s 0) = some (s' 0)) ∧ ∀ k, j < k → s' k = s k

/-- specification of `store j` -/
def StoreSpec (j : Nat) : Prop :=
  ∀ (s : Slots), (0 < j → getP (pathTo p.chunks j) (s 0) = some .hole) →
    ∃ s', runA f p (store j) s = .ok s' ∧ (j = 0 → s' = s) ∧
      (0 < j → putP (pathTo p.chunks j) (s j) (s 0) = some (s' 0)) ∧ ∀ k, j < k → s' k = s k

/-- after `load j` left a hole at `s_j` in the root (`s1`), and container `j` was updated to `C`
    (`s2`), `store j` puts `C` at `s_j` of the *original* root -/
theorem finish (j : Nat) (hst : StoreSpec f p j) (s s1 s2 : Slots) (C : V)
    (hroot1 : 0 < j → putP (pathTo p.chunks j) .hole (s 0) = some (s1 0))
    (hs2j : s2 j = C) (hs20 : 0 < j → s2 0 = s1 0) :
    ∃ s3, runA f p (store j) s2 = .ok s3 ∧ putP (pathTo p.chunks j) C (s 0) = some (s3 0) ∧
      ∀ k, j < k → s3 k = s2 k := by
  rcases Nat.eq_zero_or_pos j with hj | hj
  · subst hj
    obtain ⟨s3, hrun, h0, _, hk⟩ := hst s2 (fun h => absurd h (Nat.lt_irrefl 0))
    refine ⟨s3, hrun, ?_, hk⟩
    rw [h0 rfl]
    simp [pathTo, stepsOf, putP, hs2j]
  · have hpre : getP (pathTo p.chunks j) (s2 0) = some .hole := by
      rw [hs20 hj]; exact getP_putP _ _ _ _ (hroot1 hj)
    obtain ⟨s3, hrun, _, hroot3, hk⟩ := hst s2 (fun _ => hpre)
    refine ⟨s3, hrun, ?_, hk⟩
    have := hroot3 hj
    rw [hs2j, hs20 hj, putP_putP _ _ _ _ _ (hroot1 hj)] at this
    exact this

theorem upd_same (s : Slots) (j : Nat) (v : V) : upd s j v j = v := by simp [upd]
theorem upd_other (s : Slots) (j k : Nat) (v : V) (h : k ≠ j) : upd s j v k = s k := by simp [upd, h]

theorem loadStore_spec : ∀ j, j ≤ p.chunks.length → LoadSpec f p j ∧ StoreSpec f p j := by
  intro j
  induction j with
  | zero =>
    intro _
    constructor
    · intro s E hget _
      refine ⟨s, rfl, ?_, fun _ => rfl, fun h => absurd h (Nat.lt_irrefl 0), fun _ _ => rfl⟩
      simpa [pathTo, stepsOf, getP] using hget
    · intro s _
      exact ⟨s, rfl, fun _ => rfl, fun h => absurd h (Nat.lt_irrefl 0), fun _ _ => rfl⟩
  | succ j ih =>
    intro hle
    obtain ⟨ihL, ihS⟩ := ih (Nat.le_of_succ_le hle)
    have hjlt : j < p.chunks.length := hle
    have hc : p.chunks[j]? = some p.chunks[j] := List.getElem?_eq_getElem hjlt
    have hpath := pathTo_succ p.chunks j _ hc
    constructor
    · -- load (j+1)
      intro s E hget hnh
      rw [hpath, getP_append] at hget
      cases hEj : getP (pathTo p.chunks j) (s 0) with
      | none => simp [hEj] at hget
      | some Ej =>
        simp only [hEj, Option.bind_some] at hget
        have hEjn := not_hole_of_getP_chunk _ _ _ hget
        obtain ⟨s1, hrun1, hs1j, _, hroot1, hk1⟩ := ihL s Ej hEj (fun _ => hEjn)
        obtain ⟨Ej', hput⟩ := putP_isSome_of_getP _ .hole _ _ hget
        have hstep : stepA f p s1 (.borrow (j + 1)) = .ok (upd (upd s1 j Ej') (j + 1) E) := by
          simp [stepA, hc, hs1j, hget, hnh (Nat.succ_pos j), hput, pure, Except.pure]
        obtain ⟨s3, hrun3, hroot3, hk3⟩ := finish f p j ihS s s1 (upd (upd s1 j Ej') (j + 1) E) Ej'
          hroot1 (by rw [upd_other _ _ _ _ (by omega), upd_same])
          (fun h => by rw [upd_other _ _ _ _ (by omega), upd_other _ _ _ _ (by omega)])
        refine ⟨s3, ?_, ?_, fun h => by omega, fun _ => ?_, ?_⟩
        · rw [load_succ, runA_append, runA_append, hrun1]
          simp only [bind, Except.bind, runA, hstep, pure, Except.pure]
          exact hrun3
        · rw [hk3 (j + 1) (by omega), upd_same]
        · rw [hpath, putP_append _ _ _ _ _ hEj, hput]; exact hroot3
        · intro k hk
          rw [hk3 k (by omega), upd_other _ _ _ _ (by omega), upd_other _ _ _ _ (by omega),
            hk1 k (by omega)]
    · -- store (j+1)
      intro s hpre
      have hget := hpre (Nat.succ_pos j)
      rw [hpath, getP_append] at hget
      cases hEj : getP (pathTo p.chunks j) (s 0) with
      | none => simp [hEj] at hget
      | some Ej =>
        simp only [hEj, Option.bind_some] at hget
        have hEjn := not_hole_of_getP_chunk _ _ _ hget
        obtain ⟨s1, hrun1, hs1j, _, hroot1, hk1⟩ := ihL s Ej hEj (fun _ => hEjn)
        obtain ⟨Ej', hput⟩ := putP_isSome_of_getP _ (s (j + 1)) _ _ hget
        have hs1j1 : s1 (j + 1) = s (j + 1) := hk1 (j + 1) (by omega)
        have hstep : stepA f p s1 (.ret (j + 1)) = .ok (upd s1 j Ej') := by
          simp [stepA, hc, hs1j, hget, V.isHole, hs1j1, hput, pure, Except.pure]
        obtain ⟨s3, hrun3, hroot3, hk3⟩ := finish f p j ihS s s1 (upd s1 j Ej') Ej'
          hroot1 (upd_same _ _ _) (fun h => upd_other _ _ _ _ (by omega))
        refine ⟨s3, ?_, fun h => by omega, fun _ => ?_, ?_⟩
        · rw [store_succ, runA_append, runA_append, hrun1]
          simp only [bind, Except.bind, runA, hstep, pure, Except.pure]
          exact hrun3
        · rw [hpath, putP_append _ _ _ _ _ hEj, hput]; exact hroot3
        · intro k hk
          rw [hk3 k (by omega), upd_other _ _ _ _ (by omega), hk1 k (by omega)]

end cascade

/-! ### `_update_inout_ports` consumes what `to_hugr` produces -/

/-- reference: pair the borrowed parameters with the extra ports by RANK among all borrowed
    parameters, then keep the pairs whose argument is a place -/
def inoutBindings (ps : List Param) (ports : List Nat) : List (Nat × Nat) :=
  (((ps.filter (·.borrowed)).zip ports).filter (·.1.place)).map (fun q => (q.1.name, q.2))

theorem updateInoutPorts_spec : ∀ (ps : List Param) (ports extra : List Nat),
    ports.length = (ps.filter (·.borrowed)).length →
    updateInoutPorts ps (ports ++ extra) = some (inoutBindings ps ports, extra)
  | [], ports, extra, h => by
    have : ports = [] := List.eq_nil_of_length_eq_zero (by simpa using h)
    subst this; simp [updateInoutPorts, inoutBindings]
  | q :: ps, ports, extra, h => by
    by_cases hb : q.borrowed
    · cases ports with
      | nil => simp [hb] at h
      | cons w ws =>
        have h' : ws.length = (ps.filter (·.borrowed)).length := by simpa [hb] using h
        have ih := updateInoutPorts_spec ps ws extra h'
        by_cases hp : q.place <;>
          simp [updateInoutPorts, hb, ih, inoutBindings, hp]
    · have h' : ports.length = (ps.filter (·.borrowed)).length := by simpa [hb] using h
      simp [updateInoutPorts, hb, updateInoutPorts_spec ps ports extra h', inoutBindings]

end GuppyVerif.Places
