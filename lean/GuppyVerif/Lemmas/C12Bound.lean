import GuppyVerif.Lemmas.C12Star
/-! Lemmas for C12, part 8: `|σ|` passes of an acyclic substitution suffice (`applyStar`).
    The rank of an acyclic substitution is compressed to "number of keys of smaller rank", which is `< |σ|`. -/
namespace GuppyVerif.Unify

theorem filter_length_lt {α : Type} (p q : α → Bool) : ∀ l : List α, (∀ x ∈ l, p x = true → q x = true) →
    (∃ x ∈ l, q x = true ∧ p x = false) → (l.filter p).length < (l.filter q).length := by
  intro l
  induction l with
  | nil => intro _ h; obtain ⟨x, hx, _⟩ := h; cases hx
  | cons a l ih =>
    intro himp hex
    have hle : ∀ l' : List α, (∀ x ∈ l', p x = true → q x = true) → (l'.filter p).length ≤ (l'.filter q).length := by
      intro l'
      induction l' with
      | nil => intro _; simp
      | cons b l' ih' =>
        intro h
        have := ih' (fun x hx => h x (by simp [hx]))
        simp only [List.filter_cons]
        cases hp : p b with
        | true => simp [h b (by simp) hp]; omega
        | false => cases hq : q b <;> simp <;> omega
    simp only [List.filter_cons]
    obtain ⟨x, hx, hqx, hpx⟩ := hex
    have hl := hle l (fun y hy => himp y (by simp [hy]))
    cases hx with
    | head => simp [hqx, hpx]; omega
    | tail _ hx =>
      have := ih (fun y hy => himp y (by simp [hy])) ⟨x, hx, hqx, hpx⟩
      cases hp : p a with
      | true => simp [himp a (by simp) hp]; omega
      | false => cases hq : q a <;> simp <;> omega

/-- `passes_saturated` with the rank condition required only for bound variables -/
theorem passes_saturated' {σ : Subst} {r : V → Nat}
    (hr : ∀ v u, lookup σ v = some u → ∀ y ∈ u.vars, lookup σ y ≠ none → r y < r v) :
    ∀ (m : Nat) (x : V), r x ≤ m → ∀ n, m < n → Saturated σ (passes σ n x) := by
  have unb : ∀ y n, lookup σ y = none → Saturated σ (passes σ n y) := by
    intro y n hl z hz
    rw [passes_unbound hl] at hz
    simp [Tm.vars] at hz; subst hz; exact hl
  intro m
  induction m with
  | zero =>
    intro x hx n hn
    cases hl : lookup σ x with
    | none => exact unb x n hl
    | some u =>
      obtain ⟨n', rfl⟩ : ∃ n', n = n' + 1 := ⟨n - 1, by omega⟩
      rw [passes_succ']
      intro z hz
      obtain ⟨y, hy, hzy⟩ := mem_vars_inst _ hz
      simp only [asFun, hl] at hy
      cases hly : lookup σ y with
      | none => exact unb y n' hly z hzy
      | some w => have := hr x u hl y hy (by simp [hly]); omega
  | succ m ih =>
    intro x hx n hn
    cases hl : lookup σ x with
    | none => exact unb x n hl
    | some u =>
      obtain ⟨n', rfl⟩ : ∃ n', n = n' + 1 := ⟨n - 1, by omega⟩
      rw [passes_succ']
      intro z hz
      obtain ⟨y, hy, hzy⟩ := mem_vars_inst _ hz
      simp only [asFun, hl] at hy
      cases hly : lookup σ y with
      | none => exact unb y n' hly z hzy
      | some w =>
        have := hr x u hl y hy (by simp [hly])
        exact ih y (by omega) n' (by omega) z hzy

/-- compressed rank: number of keys of strictly smaller rank -/
def crank (σ : Subst) (r : V → Nat) (v : V) : Nat :=
  ((σ.map Prod.fst).filter (fun w => decide (r w < r v))).length

theorem crank_lt_length {σ : Subst} {r : V → Nat} {v : V} (hv : v ∈ σ.map Prod.fst) :
    crank σ r v < σ.length := by
  have := filter_length_lt (fun w => decide (r w < r v)) (fun _ => true) (σ.map Prod.fst)
    (fun _ _ _ => rfl) ⟨v, hv, rfl, by simp⟩
  have e : ((σ.map Prod.fst).filter (fun _ => true)).length = σ.length := by
    rw [List.filter_eq_self.mpr (fun _ _ => rfl)]; simp
  unfold crank; omega

theorem crank_lt {σ : Subst} {r : V → Nat} {y v : V} (hy : y ∈ σ.map Prod.fst) (h : r y < r v) :
    crank σ r y < crank σ r v := by
  apply filter_length_lt
  · intro x _ hx; simp only [decide_eq_true_eq] at hx ⊢; omega
  · exact ⟨y, hy, by simpa using h, by simp⟩

theorem crank_ok {σ : Subst} {r : V → Nat} (hr : ∀ v u, lookup σ v = some u → ∀ y ∈ u.vars, r y < r v) :
    ∀ v u, lookup σ v = some u → ∀ y ∈ u.vars, lookup σ y ≠ none → crank σ r y < crank σ r v := by
  intro v u hl y hy hby
  cases hly : lookup σ y with
  | none => exact absurd hly hby
  | some w => exact crank_lt (lookup_mem_keys hly) (hr v u hl y hy)

/-- `|σ|` passes saturate the image of every variable -/
theorem passes_len_saturated {σ : Subst} (ha : Acyclic σ) (n : Nat) (hn : σ.length ≤ n) (y : V) :
    Saturated σ (passes σ n y) := by
  obtain ⟨r, hr⟩ := ha
  cases hly : lookup σ y with
  | none => intro z hz; rw [passes_unbound hly] at hz; simp [Tm.vars] at hz; subst hz; exact hly
  | some w =>
    have := crank_lt_length (r := r) (lookup_mem_keys hly)
    exact passes_saturated' (crank_ok hr) (crank σ r y) y (Nat.le_refl _) n (by omega)

theorem applyN_len_saturated {σ : Subst} (ha : Acyclic σ) (n : Nat) (hn : σ.length ≤ n) (t : Tm) :
    Saturated σ (applyN σ n t) := by
  intro z hz
  rw [applyN_eq_inst] at hz
  obtain ⟨y, _, hzy⟩ := mem_vars_inst _ hz
  exact passes_len_saturated ha n hn y z hzy

/-- `|σ|` passes give an assignment that solves `σ` -/
theorem passes_len_solves {σ : Subst} (ha : Acyclic σ) (n : Nat) (hn : σ.length ≤ n) :
    ∀ v u, lookup σ v = some u → passes σ n v = inst (passes σ n) u := by
  intro v u hl
  have ha' := ha
  obtain ⟨r, hr⟩ := ha
  have hv := crank_lt_length (r := r) (lookup_mem_keys hl)
  obtain ⟨n', rfl⟩ : ∃ n', n = n' + 1 := ⟨n - 1, by omega⟩
  rw [passes_succ']
  simp only [asFun, hl]
  apply inst_congr
  intro y hy
  cases hly : lookup σ y with
  | none => rw [passes_unbound hly, passes_unbound hly]
  | some w =>
    have h1 := crank_ok hr v u hl y hy (by simp [hly])
    exact (passes_stable (passes_saturated' (crank_ok hr) (crank σ r y) y (Nat.le_refl _) n' (by omega))).symm

end GuppyVerif.Unify
