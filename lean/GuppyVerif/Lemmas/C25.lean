import GuppyVerif.Spec.C25
/-! Helper lemmas for C25. -/
namespace GuppyVerif.Modifier

theorem Equiv.append_right {a b : List Mod} (c : List Mod) (h : Equiv a b) : Equiv (a ++ c) (b ++ c) := by
  induction h with
  | refl l => exact .refl _
  | symm _ ih => exact .symm ih
  | trans _ _ ih1 ih2 => exact .trans ih1 ih2
  | daggerInv l r =>
    have := Equiv.daggerInv l (r ++ c)
    simpa [List.append_assoc] using this
  | swap l r a b h =>
    have := Equiv.swap l (r ++ c) a b h
    simpa [List.append_assoc] using this

theorem Equiv.append_left {a b : List Mod} (c : List Mod) (h : Equiv a b) : Equiv (c ++ a) (c ++ b) := by
  induction h with
  | refl l => exact .refl _
  | symm _ ih => exact .symm ih
  | trans _ _ ih1 ih2 => exact .trans ih1 ih2
  | daggerInv l r =>
    have := Equiv.daggerInv (c ++ l) r
    simpa [List.append_assoc] using this
  | swap l r a b h =>
    have := Equiv.swap (c ++ l) r a b h
    simpa [List.append_assoc] using this

/-- a modifier commutes leftwards past a block of modifiers of other kinds -/
theorem Equiv.move_left (x : Mod) :
    ∀ (c : List Mod), (∀ m, m ∈ c → m.kind ≠ x.kind) → Equiv (c ++ [x]) (x :: c)
  | [], _ => .refl _
  | m :: c, h => by
    have ih := Equiv.move_left x c (fun m' hm' => h m' (List.mem_cons_of_mem _ hm'))
    have h1 : Equiv (m :: (c ++ [x])) (m :: x :: c) := Equiv.append_left [m] ih
    have h2 : Equiv ([] ++ m :: x :: c) ([] ++ x :: m :: c) :=
      Equiv.swap [] c m x (h m List.mem_cons_self)
    exact .trans h1 h2

theorem powers_append (a b : List Mod) : powers (a ++ b) = powers a ++ powers b := by
  simp [powers, List.filterMap_append]
theorem controls_append (a b : List Mod) : controls (a ++ b) = controls a ++ controls b := by
  simp [controls, List.filterMap_append]

theorem powers_swap (a b : Mod) (h : a.kind ≠ b.kind) : powers [a, b] = powers [b, a] := by
  cases a <;> cases b <;> simp_all [powers, Mod.kind]
theorem controls_swap (a b : Mod) (h : a.kind ≠ b.kind) : controls [a, b] = controls [b, a] := by
  cases a <;> cases b <;> simp_all [controls, Mod.kind]
theorem count_swap (a b : Mod) : List.count Mod.dagger [a, b] = List.count Mod.dagger [b, a] := by
  simp [List.count_cons]; omega

theorem cons2 (l r : List Mod) (a b : Mod) : l ++ a :: b :: r = l ++ [a, b] ++ r := by simp

/-- the congruence preserves the three projections -/
theorem Equiv.invariants {a b : List Mod} (h : Equiv a b) :
    daggered a = daggered b ∧ powers a = powers b ∧ controls a = controls b := by
  induction h with
  | refl l => exact ⟨rfl, rfl, rfl⟩
  | symm _ ih => exact ⟨ih.1.symm, ih.2.1.symm, ih.2.2.symm⟩
  | trans _ _ ih1 ih2 => exact ⟨ih1.1.trans ih2.1, ih1.2.1.trans ih2.2.1, ih1.2.2.trans ih2.2.2⟩
  | daggerInv l r =>
    refine ⟨?_, ?_, ?_⟩
    · simp only [daggered, List.count_append, List.count_cons_self]
      congr 1; omega
    · simp [powers, List.filterMap_append]
    · simp [controls, List.filterMap_append]
  | swap l r a b h =>
    refine ⟨?_, ?_, ?_⟩
    · rw [cons2 l r a b, cons2 l r b a]
      simp only [daggered, List.count_append, count_swap a b]
    · rw [cons2 l r a b, cons2 l r b a]
      simp only [powers_append, powers_swap a b h]
    · rw [cons2 l r a b, cons2 l r b a]
      simp only [controls_append, controls_swap a b h]

/-- what `push_modifier` accumulates, from any starting state -/
theorem foldl_push (ms : List Mod) (p : Pushed) :
    ms.foldl push p =
      ⟨p.dagger + ms.count Mod.dagger, p.power ++ powers ms, p.control ++ controls ms⟩ := by
  induction ms generalizing p with
  | nil => simp [powers, controls]
  | cons m ms ih =>
    rw [List.foldl_cons, ih]
    cases m <;> simp [push, powers, controls, Nat.add_comm, Nat.add_left_comm]

theorem pushAll_eq (ms : List Mod) :
    pushAll ms = ⟨ms.count Mod.dagger, powers ms, controls ms⟩ := by
  simp [pushAll, foldl_push]

theorem kind_power_map (es : List Nat) (k : Kind) (hk : k ≠ .power) :
    ∀ m, m ∈ es.map Mod.power → m.kind ≠ k := by
  intro m hm
  simp only [List.mem_map] at hm
  rcases hm with ⟨e, _, rfl⟩
  simpa [Mod.kind] using hk.symm

theorem kind_control_map (cs : List (Nat × Nat)) (k : Kind) (hk : k ≠ .control) :
    ∀ m, m ∈ cs.map (fun c => Mod.control c.1 c.2) → m.kind ≠ k := by
  intro m hm
  simp only [List.mem_map] at hm
  rcases hm with ⟨e, _, rfl⟩
  simpa [Mod.kind] using hk.symm

/-- one more `with` item: appending it to the operations emitted so far is congruent to the
    operations emitted for the extended state -/
theorem step (p : Pushed) (m : Mod) : Equiv (emitPushed p ++ [m]) (emitPushed (push p m)) := by
  cases m with
  | control id n =>
    simp only [emitPushed, push, List.map_append, List.map_cons, List.map_nil, List.append_assoc]
    exact .refl _
  | power e =>
    simp only [emitPushed, push, List.map_append, List.map_cons, List.map_nil, List.append_assoc]
    apply Equiv.append_left
    apply Equiv.append_left
    have := Equiv.move_left (Mod.power e) (p.control.map (fun c => Mod.control c.1 c.2))
      (kind_control_map _ _ (by simp [Mod.kind]))
    simpa using this
  | dagger =>
    have hPC : ∀ m, m ∈ p.power.map Mod.power ++ p.control.map (fun c => Mod.control c.1 c.2) →
        m.kind ≠ Mod.dagger.kind := by
      intro m hm
      rcases List.mem_append.mp hm with h | h
      · exact kind_power_map _ _ (by simp [Mod.kind]) m h
      · exact kind_control_map _ _ (by simp [Mod.kind]) m h
    have mv := Equiv.move_left Mod.dagger _ hPC
    simp only [emitPushed, push, List.append_assoc]
    by_cases hd : p.dagger % 2 = 1
    · have hd' : ¬ (p.dagger + 1) % 2 = 1 := by omega
      simp only [hd, hd', ↓reduceIte, List.nil_append]
      have h1 := Equiv.append_left [Mod.dagger] mv
      have h2 := Equiv.daggerInv [] (p.power.map Mod.power ++ p.control.map (fun c => Mod.control c.1 c.2))
      simp only [List.nil_append] at h2
      simpa [List.append_assoc] using Equiv.trans h1 h2
    · have hd' : (p.dagger + 1) % 2 = 1 := by omega
      simp only [hd, hd', ↓reduceIte, List.nil_append]
      simpa [List.append_assoc] using mv

theorem emit_foldl (ms : List Mod) : ∀ p : Pushed, Equiv (emitPushed p ++ ms) (emitPushed (ms.foldl push p)) := by
  induction ms with
  | nil => intro p; simpa using Equiv.refl _
  | cons m ms ih =>
    intro p
    have h1 : Equiv (emitPushed p ++ [m] ++ ms) (emitPushed (push p m) ++ ms) :=
      Equiv.append_right ms (step p m)
    have h2 := ih (push p m)
    simpa [List.append_assoc] using Equiv.trans h1 h2

end GuppyVerif.Modifier
