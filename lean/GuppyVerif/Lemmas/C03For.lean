import GuppyVerif.Lemmas.C03Expr
set_option linter.unusedSimpArgs false
/-! # C03 helper lemmas: the blocks of the `for`-loop template -/
namespace GuppyVerif.Builder
open GuppyVerif.Surface

def eIterNext (it : Nat) : Expr := .un (.prim .iternext) (.var (.tmp it))
def eIsSome (rs : Nat) : Expr := .un (.prim .issome) (.var (.tmp rs))
def eUnwrapNothing (rs : Nat) : Expr := .un (.prim .unwrapnothing) (.var (.tmp rs))
def eUnwrap (rs : Nat) : Expr := .un (.prim .unwrap) (.var (.tmp rs))

/-- the template part of `visit_For` after `it = make_iter` was added to block `a` of state `s1`: loop head,
    body block with `res = iter_next` and the `is_some` branch, the `unwrap_nothing(); break` block, the tail,
    and the block `x, it = res.unwrap()` in which the user body starts -/
def forTpl (x : Var) (it rs a : Nat) (s1 : BState) : BState :=
  let hd := s1.len
  let σh := link a hd (newBB s1).2
  let σt := (newBB (newBB σh).2).2
  let σ2 := dummyLink hd (hd + 2) (link hd (hd + 1) σt)
  let σ3 := addStmt (hd + 1) (.assign (.tmp rs) (eIterNext it)) σ2
  let σe := (newBB (newBB σ3).2).2
  let σ4 := branchOn (hd + 1) (eIsSome rs) (hd + 4) (hd + 3) σe
  let σ5 := addStmt (hd + 3) (.expr (eUnwrapNothing rs)) σ4
  let σ6 := link (hd + 3) (hd + 2) σ5
  addStmt (hd + 4) (.assign2 x (.tmp it) (eUnwrap rs)) σ6

theorem forTpl_facts (x : Var) (it rs : Nat) {a : Nat} {s1 : BState} (ha : a < s1.len) (hao : (s1.blk a).succs = []) :
    (forTpl x it rs a s1).len = s1.len + 5 ∧ (forTpl x it rs a s1).nextTmp = s1.nextTmp ∧
    (forTpl x it rs a s1).blk a = { s1.blk a with succs := [s1.len] } ∧
    (forTpl x it rs a s1).blk s1.len = { succs := [s1.len + 1], dsuccs := [s1.len + 2] } ∧
    (forTpl x it rs a s1).blk (s1.len + 1) =
      { stmts := [.assign (.tmp rs) (eIterNext it)], pred := some (eIsSome rs), succs := [s1.len + 3, s1.len + 4] } ∧
    (forTpl x it rs a s1).blk (s1.len + 2) = {} ∧
    (forTpl x it rs a s1).blk (s1.len + 3) = { stmts := [.expr (eUnwrapNothing rs)], succs := [s1.len + 2] } ∧
    (forTpl x it rs a s1).blk (s1.len + 4) = { stmts := [.assign2 x (.tmp it) (eUnwrap rs)] } ∧
    (∀ i, i < s1.len → i ≠ a → (forTpl x it rs a s1).blk i = s1.blk i) := by
  have e0 : ∀ s : BState, s.blk s.len = {} := fun s => empty_of_ge s (Nat.le_refl _)
  refine ⟨by simp [forTpl], rfl, ?_, ?_, ?_, ?_, ?_, ?_, ?_⟩
  all_goals simp only [forTpl]
  · rw [blk_addStmt_other _ _ _ _ (by omega), blk_link_other _ _ _ _ (by omega), blk_addStmt_other _ _ _ _ (by omega),
      blk_branchOn_other _ _ _ _ _ _ (by omega), blk_newBB_old _ _ (by simp only [len_link, len_newBB, len_addStmt, len_dummyLink, len_branchOn]; omega), blk_newBB_old _ _ (by simp only [len_link, len_newBB, len_addStmt, len_dummyLink, len_branchOn]; omega),
      blk_addStmt_other _ _ _ _ (by omega), blk_dummyLink_other _ _ _ _ (by omega), blk_link_other _ _ _ _ (by omega),
      blk_newBB_old _ _ (by simp only [len_link, len_newBB, len_addStmt, len_dummyLink, len_branchOn]; omega), blk_newBB_old _ _ (by simp only [len_link, len_newBB, len_addStmt, len_dummyLink, len_branchOn]; omega), blk_link_same _ _ _ (by simp only [len_link, len_newBB, len_addStmt, len_dummyLink, len_branchOn]; omega),
      blk_newBB_old _ _ ha, hao]; rfl
  · rw [blk_addStmt_other _ _ _ _ (by omega), blk_link_other _ _ _ _ (by omega), blk_addStmt_other _ _ _ _ (by omega),
      blk_branchOn_other _ _ _ _ _ _ (by omega), blk_newBB_old _ _ (by simp only [len_link, len_newBB, len_addStmt, len_dummyLink, len_branchOn]; omega), blk_newBB_old _ _ (by simp only [len_link, len_newBB, len_addStmt, len_dummyLink, len_branchOn]; omega),
      blk_addStmt_other _ _ _ _ (by omega), blk_dummyLink_same _ _ _ (by simp only [len_link, len_newBB, len_addStmt, len_dummyLink, len_branchOn]; omega), blk_link_same _ _ _ (by simp only [len_link, len_newBB, len_addStmt, len_dummyLink, len_branchOn]; omega),
      blk_newBB_old _ _ (by simp only [len_link, len_newBB, len_addStmt, len_dummyLink, len_branchOn]; omega), blk_newBB_old _ _ (by simp only [len_link, len_newBB, len_addStmt, len_dummyLink, len_branchOn]; omega), blk_link_other _ _ _ _ (by omega),
      blk_newBB_new]; rfl
  · rw [blk_addStmt_other _ _ _ _ (by omega), blk_link_other _ _ _ _ (by omega), blk_addStmt_other _ _ _ _ (by omega),
      blk_branchOn_same _ _ _ _ _ (by simp only [len_link, len_newBB, len_addStmt, len_dummyLink, len_branchOn]; omega), blk_newBB_old _ _ (by simp only [len_link, len_newBB, len_addStmt, len_dummyLink, len_branchOn]; omega), blk_newBB_old _ _ (by simp only [len_link, len_newBB, len_addStmt, len_dummyLink, len_branchOn]; omega),
      blk_addStmt_same _ _ _ (by simp only [len_link, len_newBB, len_addStmt, len_dummyLink, len_branchOn]; omega), blk_dummyLink_other _ _ _ _ (by omega), blk_link_other _ _ _ _ (by omega),
      blk_newBB_old _ _ (by simp only [len_link, len_newBB, len_addStmt, len_dummyLink, len_branchOn]; omega)]
    have := blk_newBB_new (link a s1.len (newBB s1).2)
    simp only [len_link, len_newBB] at this
    rw [this]; rfl
  · rw [blk_addStmt_other _ _ _ _ (by omega), blk_link_other _ _ _ _ (by omega), blk_addStmt_other _ _ _ _ (by omega),
      blk_branchOn_other _ _ _ _ _ _ (by omega), blk_newBB_old _ _ (by simp only [len_link, len_newBB, len_addStmt, len_dummyLink, len_branchOn]; omega), blk_newBB_old _ _ (by simp only [len_link, len_newBB, len_addStmt, len_dummyLink, len_branchOn]; omega),
      blk_addStmt_other _ _ _ _ (by omega), blk_dummyLink_other _ _ _ _ (by omega), blk_link_other _ _ _ _ (by omega)]
    have := blk_newBB_new (newBB (link a s1.len (newBB s1).2)).2
    simp only [len_link, len_newBB] at this
    rw [this]
  · rw [blk_addStmt_other _ _ _ _ (by omega), blk_link_same _ _ _ (by simp only [len_link, len_newBB, len_addStmt, len_dummyLink, len_branchOn]; omega), blk_addStmt_same _ _ _ (by simp only [len_link, len_newBB, len_addStmt, len_dummyLink, len_branchOn]; omega),
      blk_branchOn_other _ _ _ _ _ _ (by omega), blk_newBB_old _ _ (by simp only [len_link, len_newBB, len_addStmt, len_dummyLink, len_branchOn]; omega)]
    have := blk_newBB_new (addStmt (s1.len + 1) (.assign (.tmp rs) (eIterNext it))
      (dummyLink s1.len (s1.len + 2) (link s1.len (s1.len + 1) (newBB (newBB (link a s1.len (newBB s1).2)).2).2)))
    simp only [len_addStmt, len_dummyLink, len_link, len_newBB] at this
    rw [this]; rfl
  · rw [blk_addStmt_same _ _ _ (by simp only [len_link, len_newBB, len_addStmt, len_dummyLink, len_branchOn]; omega), blk_link_other _ _ _ _ (by omega), blk_addStmt_other _ _ _ _ (by omega),
      blk_branchOn_other _ _ _ _ _ _ (by omega)]
    have := blk_newBB_new (newBB (addStmt (s1.len + 1) (.assign (.tmp rs) (eIterNext it))
      (dummyLink s1.len (s1.len + 2) (link s1.len (s1.len + 1) (newBB (newBB (link a s1.len (newBB s1).2)).2).2)))).2
    simp only [len_addStmt, len_dummyLink, len_link, len_newBB] at this
    rw [this]; rfl
  · intro i hi hne
    rw [blk_addStmt_other _ _ _ _ (by omega), blk_link_other _ _ _ _ (by omega), blk_addStmt_other _ _ _ _ (by omega),
      blk_branchOn_other _ _ _ _ _ _ (by omega), blk_newBB_old _ _ (by simp only [len_link, len_newBB, len_addStmt, len_dummyLink, len_branchOn]; omega), blk_newBB_old _ _ (by simp only [len_link, len_newBB, len_addStmt, len_dummyLink, len_branchOn]; omega),
      blk_addStmt_other _ _ _ _ (by omega), blk_dummyLink_other _ _ _ _ (by omega), blk_link_other _ _ _ _ (by omega),
      blk_newBB_old _ _ (by simp only [len_link, len_newBB, len_addStmt, len_dummyLink, len_branchOn]; omega), blk_newBB_old _ _ (by simp only [len_link, len_newBB, len_addStmt, len_dummyLink, len_branchOn]; omega), blk_link_other _ _ _ _ hne,
      blk_newBB_old _ _ hi]

/-- the iterable of a `for` loop built from block `b` after the two temporaries were drawn -/
def forA (e : Expr) (b : Nat) (σ : BState) : R := bld e .val b (freshTmp (freshTmp σ).2).2
/-- … and `it = make_iter` appended -/
def forS1 (e : Expr) (b : Nat) (σ : BState) : BState :=
  addStmt (forA e b σ).2.1 (.assign (.tmp σ.nextTmp) (.un (.prim .makeiter) (forA e b σ).1)) (forA e b σ).2.2
def forS7 (x : Var) (e : Expr) (b : Nat) (σ : BState) : BState :=
  forTpl x σ.nextTmp (σ.nextTmp + 1) (forA e b σ).2.1 (forS1 e b σ)
def forJ (J : Jumps) (e : Expr) (b : Nat) (σ : BState) : Jumps :=
  ⟨J.ret, some (forS1 e b σ).len, some ((forS1 e b σ).len + 2)⟩
def forRB (x : Var) (e : Expr) (body : Stmt) (b : Nat) (J : Jumps) (σ : BState) : BState × Option Nat :=
  build body ((forS1 e b σ).len + 4) (some ((forS1 e b σ).len + 4)) (forJ J e b σ) (forS7 x e b σ)

/-- the two shapes in which `visit_While` (and hence `visit_For`) ends -/
def loopFin (hd : Nat) (rb : BState × Option Nat) : BState × Option Nat :=
  match rb.2 with
  | some e => (link e hd rb.1, some (hd + 2))
  | none => (rb.1, some (hd + 2))

theorem build_for_eq (x : Var) (e : Expr) (body : Stmt) (prev b : Nat) (J : Jumps) (σ : BState) :
    build (.for x e body) prev (some b) J σ = loopFin (forS1 e b σ).len (forRB x e body b J σ) := by
  simp only [build, ensure, newBB1, fst_newBB, len_newBB, len_link, len_addStmt, len_dummyLink, len_branchOn,
    branchE, bld, foldNeg, finish, buildE, fst_freshTmp, tmp_freshTmp, loopFin, forRB, forJ, forS7, forTpl, forS1, forA,
    eIterNext, eIsSome, eUnwrapNothing, eUnwrap, if_true]
  rfl

end GuppyVerif.Builder
