import GuppyVerif.Spec.C06
/-! C06 helper lemmas, part 1: the per-block checker (pass 1) seen from a single leaf.

    `cstep`/`crun` is the checker's `Scope` bookkeeping projected on one linear leaf; every
    successful run of the list-based model projects onto a successful `crun` over the leaf's
    events (`checkBlock_proj`), and a successful `crun` simulates the ownership semantics
    `runEvs` (`sim`). -/
namespace GuppyVerif.Linearity

structure LSt where
  inVars : Bool
  usedLocal : Bool
  usedParent : Bool
  deriving DecidableEq, Repr

def Scope.proj (s : Scope) (l : Leaf) : LSt :=
  ⟨s.vars.contains l, s.usedLocal.contains l, s.usedParent.contains l⟩

/-- the checker's bookkeeping for one linear leaf under one event; `none` = some error -/
def cstep (inPar : Bool) (c : LSt) : Ev → Option LSt
  | .use =>
    if c.inVars then (if c.usedLocal then none else some { c with usedLocal := true })
    else if inPar then (if c.usedParent then none else some { c with usedParent := true })
    else none
  | .give => some { c with inVars := true, usedLocal := false }
  | .asg => if c.inVars && !c.usedLocal then none else some { c with inVars := true, usedLocal := false }

def crun (inPar : Bool) (c : LSt) : List Ev → Option LSt
  | [] => some c
  | e :: es => match cstep inPar c e with
    | none => none
    | some c' => crun inPar c' es

theorem crun_append (inPar : Bool) (c : LSt) (es fs : List Ev) :
    crun inPar c (es ++ fs) = (crun inPar c es).bind fun c' => crun inPar c' fs := by
  induction es generalizing c with
  | nil => simp [crun]
  | cons e es ih =>
    simp only [List.cons_append, crun]
    cases cstep inPar c e with
    | none => simp
    | some c' => simpa using ih c'

theorem runEvs_append (o : Bool) (es fs : List Ev) :
    runEvs o (es ++ fs) = (runEvs o es).bind fun o' => runEvs o' fs := by
  induction es generalizing o with
  | nil => simp [runEvs]
  | cons e es ih =>
    simp only [List.cons_append, runEvs]
    cases Ev.step o e with
    | none => simp
    | some o' => simpa using ih o'

/-! ### list-set bookkeeping -/

@[simp] theorem mem_ins (x y : Leaf) (l : List Leaf) : y ∈ ins x l ↔ y ∈ l ∨ y = x := by
  unfold ins
  by_cases h : l.contains x = true
  · simp only [h, if_true]
    constructor
    · exact Or.inl
    · rintro (h' | rfl)
      · exact h'
      · simpa using h
  · simp only [h]
    simp

@[simp] theorem mem_filter_ne (x y : Leaf) (l : List Leaf) : y ∈ l.filter (· != x) ↔ y ∈ l ∧ y ≠ x := by
  simp [List.mem_filter]

/-! ### pass 1 projected on one linear leaf -/

theorem useLeaf_ok {P : Prog} {s s' : Scope} {x : Leaf} (h : useLeaf P s x = .ok s') :
    (x ∈ s.vars ∧ ¬(x ∈ s.usedLocal ∧ P.lin x = true) ∧ s' = { s with usedLocal := ins x s.usedLocal }) ∨
    (x ∉ s.vars ∧ x ∈ s.parent ∧ ¬(x ∈ s.usedParent ∧ P.lin x = true) ∧
      s' = { s with usedParent := ins x s.usedParent }) := by
  unfold useLeaf Scope.used Scope.use at h
  by_cases hv : x ∈ s.vars
  · by_cases hc : x ∈ s.usedLocal ∧ P.lin x = true
    · simp [hv, hc.1, hc.2] at h
    · left
      refine ⟨hv, hc, ?_⟩
      by_cases hu : x ∈ s.usedLocal
      · have hl : P.lin x = false := by simpa using fun h' => hc ⟨hu, h'⟩
        simp [hv, hu, hl] at h
        exact h.symm
      · simp [hv, hu] at h
        exact h.symm
  · by_cases hp : x ∈ s.parent
    · by_cases hc : x ∈ s.usedParent ∧ P.lin x = true
      · simp [hv, hp, hc.1, hc.2] at h
      · right
        refine ⟨hv, hp, hc, ?_⟩
        by_cases hu : x ∈ s.usedParent
        · have hl : P.lin x = false := by simpa using fun h' => hc ⟨hu, h'⟩
          simp [hv, hp, hu, hl] at h
          exact h.symm
        · simp [hv, hp, hu] at h
          exact h.symm
    · simp [hv, hp] at h

theorem useLeaf_proj {P : Prog} {l : Leaf} (hl : P.lin l = true) {s s' : Scope} {x : Leaf}
    (h : useLeaf P s x = .ok s') :
    s'.parent = s.parent ∧
      (if x = l then cstep (s.parent.contains l) (s.proj l) .use = some (s'.proj l)
       else s'.proj l = s.proj l) := by
  rcases useLeaf_ok h with ⟨hv, hu, rfl⟩ | ⟨hv, hp, hu, rfl⟩
  · refine ⟨rfl, ?_⟩
    by_cases hxl : x = l
    · subst hxl
      have hu' : x ∉ s.usedLocal := fun h' => hu ⟨h', hl⟩
      simp [Scope.proj, cstep, hv, hu']
    · have : l ≠ x := fun e => hxl e.symm
      simp [Scope.proj, hxl, this]
  · refine ⟨rfl, ?_⟩
    by_cases hxl : x = l
    · subst hxl
      have hu' : x ∉ s.usedParent := fun h' => hu ⟨h', hl⟩
      simp [Scope.proj, cstep, hv, hp, hu']
    · have : l ≠ x := fun e => hxl e.symm
      simp [Scope.proj, hxl, this]

theorem assignLeaf_proj {P : Prog} {l : Leaf} (hl : P.lin l = true) {s s' : Scope} {x : Leaf}
    (h : assignLeaf P s x = .ok s') :
    s'.parent = s.parent ∧
      (if x = l then cstep (s.parent.contains l) (s.proj l) .asg = some (s'.proj l)
       else s'.proj l = s.proj l) := by
  unfold assignLeaf at h
  split at h
  · cases h
  · rename_i hc
    cases h
    refine ⟨rfl, ?_⟩
    by_cases hxl : x = l
    · subst hxl
      simp only [if_true]
      simp [hl] at hc
      by_cases hv : x ∈ s.vars
      · have := hc hv
        simp [Scope.proj, Scope.assign, cstep, hv, this]
      · simp [Scope.proj, Scope.assign, cstep, hv]
    · have : l ≠ x := fun e => hxl e.symm
      simp [Scope.proj, Scope.assign, hxl, this]

theorem assign_proj (l : Leaf) (s : Scope) (x : Leaf) :
    (s.assign x).parent = s.parent ∧
      (if x = l then cstep (s.parent.contains l) (s.proj l) .give = some ((s.assign x).proj l)
       else (s.assign x).proj l = s.proj l) := by
  refine ⟨rfl, ?_⟩
  by_cases hxl : x = l
  · subst hxl
    simp [Scope.proj, Scope.assign, cstep]
  · have : l ≠ x := fun e => hxl e.symm
    simp [Scope.proj, Scope.assign, hxl, this]

/-- a monadic fold whose steps project to event lists projects to their concatenation; the
    side conditions `Q` established by the steps hold for all elements -/
theorem foldlM_proj {α : Type} (l : Leaf) (f : Scope → α → R Scope) (ev : α → List Ev) (Q : α → Prop)
    (hf : ∀ s s' a, f s a = .ok s' →
      s'.parent = s.parent ∧ crun (s.parent.contains l) (s.proj l) (ev a) = some (s'.proj l) ∧ Q a) :
    ∀ (as : List α) (s s' : Scope), as.foldlM f s = .ok s' →
      s'.parent = s.parent ∧ crun (s.parent.contains l) (s.proj l) (as.flatMap ev) = some (s'.proj l) ∧
        ∀ a ∈ as, Q a := by
  intro as
  induction as with
  | nil =>
    intro s s' h
    simp [List.foldlM, pure, Except.pure] at h
    subst h
    simp [crun]
  | cons a as ih =>
    intro s s' h
    rw [List.foldlM_cons] at h
    cases h1 : f s a with
    | error e => rw [h1] at h; cases h
    | ok s1 =>
      rw [h1] at h
      obtain ⟨hp1, hc1, hq1⟩ := hf s s1 a h1
      obtain ⟨hp2, hc2, hq2⟩ := ih s1 s' h
      refine ⟨hp2.trans hp1, ?_, ?_⟩
      · rw [List.flatMap_cons, crun_append, hc1]
        simp only [Option.bind]
        rw [← hp1]; exact hc2
      · intro b hb
        rcases List.mem_cons.mp hb with rfl | hb
        · exact hq1
        · exact hq2 b hb

theorem foldl_proj {α : Type} (l : Leaf) (f : Scope → α → Scope) (ev : α → List Ev)
    (hf : ∀ s a, (f s a).parent = s.parent ∧ crun (s.parent.contains l) (s.proj l) (ev a) = some ((f s a).proj l)) :
    ∀ (as : List α) (s : Scope),
      (as.foldl f s).parent = s.parent ∧
        crun (s.parent.contains l) (s.proj l) (as.flatMap ev) = some ((as.foldl f s).proj l) := by
  intro as
  induction as with
  | nil => intro s; simp [crun]
  | cons a as ih =>
    intro s
    obtain ⟨hp1, hc1⟩ := hf s a
    obtain ⟨hp2, hc2⟩ := ih (f s a)
    refine ⟨by simpa using hp2.trans hp1, ?_⟩
    rw [List.flatMap_cons, crun_append, hc1]
    simp only [Option.bind, List.foldl_cons]
    rw [← hp1]; exact hc2

theorem crun_ite (inPar : Bool) (c c' : LSt) (e : Ev) (x l : Leaf)
    (h : if x = l then cstep inPar c e = some c' else c' = c) :
    crun inPar c (if x = l then [e] else []) = some c' := by
  by_cases hx : x = l
  · simp only [hx, if_true] at h ⊢
    simp [crun, h]
  · simp only [hx, if_false] at h ⊢
    simp [crun, h]

theorem visitPlace_proj {P : Prog} {l : Leaf} (hl : P.lin l = true) {borrow : Bool} {s s' : Scope} {p : Place}
    (h : visitPlace P borrow s p = .ok s') :
    s'.parent = s.parent ∧ crun (s.parent.contains l) (s.proj l) (leafEvs .use l p.leaves) = some (s'.proj l) ∧
      (borrow = false → isInoutVar P p = false) := by
  unfold visitPlace at h
  split at h
  · cases h
  · rename_i hc
    have := foldlM_proj l (useLeaf P) (fun x => if x = l then [Ev.use] else []) (fun _ => True)
      (fun s s' x hx => by
        obtain ⟨hp, hx'⟩ := useLeaf_proj hl hx
        exact ⟨hp, crun_ite _ _ _ _ _ _ hx', trivial⟩) p.leaves s s' h
    refine ⟨this.1, this.2.1, ?_⟩
    intro hb
    subst hb
    simpa using hc

theorem assignTarget_proj {P : Prog} {l : Leaf} (hl : P.lin l = true) {s s' : Scope} {t : Place}
    (h : assignTarget P s t = .ok s') :
    s'.parent = s.parent ∧ crun (s.parent.contains l) (s.proj l) (leafEvs .asg l t.leaves) = some (s'.proj l) := by
  unfold assignTarget at h
  split at h
  · cases h
  · have := foldlM_proj l (assignLeaf P) (fun x => if x = l then [Ev.asg] else []) (fun _ => True)
      (fun s s' x hx => by
        obtain ⟨hp, hx'⟩ := assignLeaf_proj hl hx
        exact ⟨hp, crun_ite _ _ _ _ _ _ hx', trivial⟩) t.leaves s s' h
    exact ⟨this.1, this.2.1⟩

theorem assignTargets_proj {P : Prog} {l : Leaf} (hl : P.lin l = true) {s s' : Scope} {tgts : List Place}
    (h : assignTargets P s tgts = .ok s') :
    s'.parent = s.parent ∧ crun (s.parent.contains l) (s.proj l) (placesEvs .asg l tgts) = some (s'.proj l) ∧
      ∀ t ∈ tgts, isInoutVar P t = false := by
  unfold assignTargets at h
  cases h1 : tgts.foldlM (assignTarget P) s with
  | error e => simp [h1, bind, Except.bind] at h
  | ok s1 =>
    simp only [h1, bind, Except.bind] at h
    split at h
    · cases h
    · rename_i hc
      obtain rfl : s1 = s' := by simpa using h
      have := foldlM_proj l (assignTarget P) (fun t => leafEvs .asg l t.leaves) (fun _ => True)
        (fun s s' t ht => by
          obtain ⟨hp, hx'⟩ := assignTarget_proj hl ht
          exact ⟨hp, hx', trivial⟩) tgts s s1 h1
      refine ⟨this.1, this.2.1, ?_⟩
      intro t ht
      simp only [List.any_eq_true, not_exists, not_and] at hc
      simpa using hc t ht

theorem giveEvs_eq (l : Leaf) (args : List Arg) :
    placesEvs .give l ((args.filter Arg.isInout).map Arg.place) =
      args.flatMap (fun a => if a.isInout then leafEvs .give l a.place.leaves else []) := by
  unfold placesEvs
  induction args with
  | nil => simp
  | cons a as ih =>
    by_cases ha : a.isInout = true
    · simp [List.filter_cons, ha, ih]
    · simp [List.filter_cons, ha, ih]

theorem reassignInout_proj (l : Leaf) (s : Scope) (args : List Arg) :
    (reassignInout s args).parent = s.parent ∧
      crun (s.parent.contains l) (s.proj l) (placesEvs .give l ((args.filter Arg.isInout).map Arg.place)) =
        some ((reassignInout s args).proj l) := by
  have h := foldl_proj l (fun s (a : Arg) => if a.isInout then a.place.leaves.foldl Scope.assign s else s)
    (fun a => if a.isInout then leafEvs .give l a.place.leaves else [])
    (fun s a => by
      by_cases ha : a.isInout = true
      · simp only [ha, if_true]
        have := foldl_proj l Scope.assign (fun x => if x = l then [Ev.give] else [])
          (fun s x => by
            obtain ⟨hp, hx⟩ := assign_proj l s x
            exact ⟨hp, crun_ite _ _ _ _ _ _ hx⟩) a.place.leaves s
        exact this
      · simp [ha, crun]) args s
  unfold reassignInout
  refine ⟨h.1, ?_⟩
  have he := giveEvs_eq l args
  rw [he]
  exact h.2

theorem checkStmt_proj {P : Prog} {l : Leaf} (hl : P.lin l = true) {s s' : Scope} {st : Stmt}
    (h : checkStmt P s st = .ok s') :
    s'.parent = s.parent ∧ crun (s.parent.contains l) (s.proj l) (st.evs l) = some (s'.proj l) ∧ st.StaticOK P := by
  cases st with
  | move tgts srcs =>
    simp only [checkStmt] at h
    cases h1 : srcs.foldlM (visitPlace P false) s with
    | error e => simp [h1, bind, Except.bind] at h
    | ok s1 =>
      simp only [h1, bind, Except.bind] at h
      have a := foldlM_proj l (visitPlace P false) (fun p => leafEvs .use l p.leaves)
        (fun p => isInoutVar P p = false)
        (fun s s' p hp => by
          obtain ⟨x, y, z⟩ := visitPlace_proj hl hp
          exact ⟨x, y, z rfl⟩) srcs s s1 h1
      obtain ⟨b1, b2, b3⟩ := assignTargets_proj hl h
      refine ⟨b1.trans a.1, ?_, a.2.2, b3⟩
      simp only [Stmt.evs, crun_append]
      unfold placesEvs
      rw [a.2.1]
      simp only [Option.bind]
      rw [← a.1]; exact b2
  | call tgts args d =>
    simp only [checkStmt] at h
    cases h1 : visitArgs P s args with
    | error e => simp [h1, bind, Except.bind] at h
    | ok s1 =>
      simp only [h1, bind, Except.bind] at h
      split at h
      · cases h
      · rename_i hd
        have a := foldlM_proj l (fun s (a : Arg) => visitPlace P a.isInout s a.place)
          (fun a => leafEvs .use l a.place.leaves)
          (fun a => a.isInout = false → isInoutVar P a.place = false)
          (fun s s' a hp => visitPlace_proj hl hp) args s s1 h1
        obtain ⟨r1, r2⟩ := reassignInout_proj l s1 args
        obtain ⟨b1, b2, b3⟩ := assignTargets_proj hl h
        refine ⟨(b1.trans r1).trans a.1, ?_, a.2.2, b3, by simpa using hd⟩
        simp only [Stmt.evs, crun_append]
        have he : placesEvs .use l (args.map Arg.place) = args.flatMap fun a => leafEvs .use l a.place.leaves := by
          unfold placesEvs
          simp [List.flatMap_map]
        rw [he, a.2.1]
        simp only [Option.bind]
        rw [← a.1, r2]
        simp only [Option.bind]
        rw [← r1]; exact b2
  | ret srcs =>
    simp only [checkStmt] at h
    have a := foldlM_proj l (visitPlace P false) (fun p => leafEvs .use l p.leaves)
      (fun p => isInoutVar P p = false)
      (fun s s' p hp => by
        obtain ⟨x, y, z⟩ := visitPlace_proj hl hp
        exact ⟨x, y, z rfl⟩) srcs s s' h
    exact ⟨a.1, a.2.1, a.2.2⟩

theorem checkBlock_proj {P : Prog} {l : Leaf} (hl : P.lin l = true) {b : Blk} {s : Scope}
    (h : checkBlock P b = .ok s) :
    s.parent = (initScope P b).parent ∧
      crun ((initScope P b).parent.contains l) ((initScope P b).proj l) ((P.stmts b).flatMap (Stmt.evs l)) =
        some (s.proj l) ∧
      ∀ st ∈ P.stmts b, st.StaticOK P := by
  unfold checkBlock at h
  exact foldlM_proj l (checkStmt P) (Stmt.evs l) (Stmt.StaticOK P) (fun s s' st hs => checkStmt_proj hl hs)
    (P.stmts b) (initScope P b) s h

/-! ### the path-independent rules, without reference to a leaf -/

theorem foldlM_all {α : Type} (f : Scope → α → R Scope) (Q : α → Prop)
    (hf : ∀ s s' a, f s a = .ok s' → Q a) :
    ∀ (as : List α) (s s' : Scope), as.foldlM f s = .ok s' → ∀ a ∈ as, Q a := by
  intro as
  induction as with
  | nil => intro s s' _ a ha; cases ha
  | cons a as ih =>
    intro s s' h
    rw [List.foldlM_cons] at h
    cases h1 : f s a with
    | error e => rw [h1] at h; cases h
    | ok s1 =>
      rw [h1] at h
      intro b hb
      rcases List.mem_cons.mp hb with rfl | hb
      · exact hf s s1 _ h1
      · exact ih s1 s' h b hb

theorem visitPlace_static {P : Prog} {borrow : Bool} {s s' : Scope} {p : Place}
    (h : visitPlace P borrow s p = .ok s') : borrow = false → isInoutVar P p = false := by
  unfold visitPlace at h
  split at h
  · cases h
  · rename_i hc
    intro hb
    subst hb
    simpa using hc

theorem assignTargets_static {P : Prog} {s s' : Scope} {tgts : List Place}
    (h : assignTargets P s tgts = .ok s') : ∀ t ∈ tgts, isInoutVar P t = false := by
  unfold assignTargets at h
  cases h1 : tgts.foldlM (assignTarget P) s with
  | error e => simp [h1, bind, Except.bind] at h
  | ok s1 =>
    simp only [h1, bind, Except.bind] at h
    split at h
    · cases h
    · rename_i hc
      intro t ht
      simp only [List.any_eq_true, not_exists, not_and] at hc
      simpa using hc t ht

theorem checkStmt_static {P : Prog} {s s' : Scope} {st : Stmt} (h : checkStmt P s st = .ok s') :
    st.StaticOK P := by
  cases st with
  | move tgts srcs =>
    simp only [checkStmt] at h
    cases h1 : srcs.foldlM (visitPlace P false) s with
    | error e => simp [h1, bind, Except.bind] at h
    | ok s1 =>
      simp only [h1, bind, Except.bind] at h
      exact ⟨foldlM_all _ _ (fun s s' p hp => visitPlace_static hp rfl) srcs s s1 h1, assignTargets_static h⟩
  | call tgts args d =>
    simp only [checkStmt] at h
    cases h1 : visitArgs P s args with
    | error e => simp [h1, bind, Except.bind] at h
    | ok s1 =>
      simp only [h1, bind, Except.bind] at h
      split at h
      · cases h
      · rename_i hd
        exact ⟨foldlM_all (fun s (a : Arg) => visitPlace P a.isInout s a.place)
            (fun a => a.isInout = false → isInoutVar P a.place = false)
            (fun s s' a hp => visitPlace_static hp) args s s1 h1,
          assignTargets_static h, by simpa using hd⟩
  | ret srcs =>
    simp only [checkStmt] at h
    exact foldlM_all _ _ (fun s s' p hp => visitPlace_static hp rfl) srcs s s' h

theorem checkBlock_static {P : Prog} {b : Blk} {s : Scope} (h : checkBlock P b = .ok s) :
    ∀ st ∈ P.stmts b, st.StaticOK P := by
  unfold checkBlock at h
  exact foldlM_all _ _ (fun s s' st hs => checkStmt_static hs) (P.stmts b) _ s h

/-! ### the bookkeeping simulates the ownership semantics -/

/-- how the bookkeeping `c` of a block determines the ownership state `o`, given that the leaf
    was owned (`o0`) on entering the block -/
def Rel (o0 : Bool) (c : LSt) (o : Bool) : Prop :=
  if c.inVars then o = !c.usedLocal else if c.usedParent then o = false else o = o0

theorem cstep_mono {inPar : Bool} {c c' : LSt} {e : Ev} (h : cstep inPar c e = some c') :
    (c.inVars = true → c'.inVars = true) ∧ (c.usedParent = true → c'.usedParent = true) ∧
      (c.inVars = true → c'.usedParent = c.usedParent) ∧ (inPar = false → c'.usedParent = c.usedParent) := by
  rcases c with ⟨a, b, d⟩
  cases e <;> cases a <;> cases b <;> cases d <;> cases inPar <;> simp [cstep] at h <;> subst h <;> simp

theorem crun_mono {inPar : Bool} {es : List Ev} {c c1 : LSt} (h : crun inPar c es = some c1) :
    (c.inVars = true → c1.inVars = true) ∧ (c.usedParent = true → c1.usedParent = true) ∧
      (c.inVars = true → c1.usedParent = c.usedParent) ∧ (inPar = false → c1.usedParent = c.usedParent) := by
  induction es generalizing c with
  | nil => simp [crun] at h; subst h; simp
  | cons e es ih =>
    simp only [crun] at h
    cases h1 : cstep inPar c e with
    | none => simp [h1] at h
    | some c' =>
      simp only [h1] at h
      obtain ⟨a1, a2, a3, a4⟩ := cstep_mono h1
      obtain ⟨b1, b2, b3, b4⟩ := ih h
      refine ⟨fun x => b1 (a1 x), fun x => b2 (a2 x), fun x => (b3 (a1 x)).trans (a3 x), fun x => (b4 x).trans (a4 x)⟩

theorem sim_step {inPar : Bool} {c c' : LSt} {e : Ev} {o o0 : Bool} (h : cstep inPar c e = some c')
    (hr : Rel o0 c o) (hA : c'.usedParent = true → c.usedParent = false → o0 = true)
    (hB : c'.inVars = true → c'.usedParent = false → c.inVars = false → e = Ev.asg → o0 = false) :
    ∃ o', Ev.step o e = some o' ∧ Rel o0 c' o' := by
  rcases c with ⟨a, b, d⟩
  cases e <;> cases a <;> cases b <;> cases d <;> cases inPar <;> simp [cstep] at h <;> subst h <;>
    cases o <;> cases o0 <;> simp_all [Rel, Ev.step]

theorem sim {inPar : Bool} {o0 : Bool} : ∀ (es : List Ev) (c c1 : LSt) (o : Bool),
    crun inPar c es = some c1 → Rel o0 c o →
    (c1.usedParent = true → c.usedParent = false → o0 = true) →
    (c1.inVars = true → c1.usedParent = false → c.inVars = false → o0 = false) →
    ∃ o1, runEvs o es = some o1 ∧ Rel o0 c1 o1 := by
  intro es
  induction es with
  | nil =>
    intro c c1 o h hr _ _
    simp [crun] at h
    subst h
    exact ⟨o, rfl, hr⟩
  | cons e es ih =>
    intro c c1 o h hr hA hB
    simp only [crun] at h
    cases h1 : cstep inPar c e with
    | none => simp [h1] at h
    | some c' =>
      simp only [h1] at h
      obtain ⟨a1, a2, a3, _⟩ := cstep_mono h1
      obtain ⟨b1, b2, b3, _⟩ := crun_mono h
      obtain ⟨o', ho', hr'⟩ := sim_step h1 hr
        (fun x y => hA (b2 x) y)
        (fun x y z _ => hB (b1 x) ((b3 x).trans y) z)
      obtain ⟨o1, ho1, hr1⟩ := ih c' c1 o' h hr'
        (fun x y => hA x (by
          cases hc : c.usedParent with
          | false => rfl
          | true => rw [a2 hc] at y; cases y))
        (fun x y z => hB x y (by
          cases hc : c.inVars with
          | false => rfl
          | true => rw [a1 hc] at z; cases z))
      exact ⟨o1, by simp [runEvs, ho', ho1], hr1⟩

/-- a leaf that ends up in `used_parent` was read before anything else happened to it -/
theorem crun_usedParent_head {inPar : Bool} {es : List Ev} {c c1 : LSt} (h : crun inPar c es = some c1)
    (hv : c.inVars = false) (hu : c.usedParent = false) (h1 : c1.usedParent = true) :
    es.head? = some Ev.use := by
  cases es with
  | nil => simp [crun] at h; subst h; rw [hu] at h1; cases h1
  | cons e es =>
    simp only [crun] at h
    cases hc : cstep inPar c e with
    | none => simp [hc] at h
    | some c' =>
      simp only [hc] at h
      cases e with
      | use => rfl
      | give =>
        simp [cstep] at hc
        have := (crun_mono h).2.2.1 (by rw [← hc])
        rw [this, ← hc] at h1
        simp [hu] at h1
      | asg =>
        simp [cstep, hv] at hc
        have := (crun_mono h).2.2.1 (by rw [← hc])
        rw [this, ← hc] at h1
        simp [hu] at h1

/-- a leaf that ends up neither assigned nor used from the parent was not touched at all -/
theorem crun_untouched {inPar : Bool} {es : List Ev} {c c1 : LSt} (h : crun inPar c es = some c1)
    (hv1 : c1.inVars = false) (hu1 : c1.usedParent = false) (hv : c.inVars = false) : es = [] := by
  cases es with
  | nil => rfl
  | cons e es =>
    exfalso
    simp only [crun] at h
    cases hc : cstep inPar c e with
    | none => simp [hc] at h
    | some c' =>
      simp only [hc] at h
      obtain ⟨b1, b2, _, _⟩ := crun_mono h
      cases e with
      | use =>
        simp [cstep, hv] at hc
        obtain ⟨_, _, hc⟩ := hc
        have := b2 (by rw [← hc])
        rw [hu1] at this; cases this
      | give =>
        simp [cstep] at hc
        have := b1 (by rw [← hc])
        rw [hv1] at this; cases this
      | asg =>
        simp [cstep, hv] at hc
        have := b1 (by rw [← hc])
        rw [hv1] at this; cases this

end GuppyVerif.Linearity
