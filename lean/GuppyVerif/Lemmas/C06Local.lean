import GuppyVerif.Spec.C06
/-! C06 helper lemmas, part 1: the per-block checker (pass 1) seen from a single leaf.

    `cstep`/`crun` is the checker's `Scope` bookkeeping projected on one leaf (in `vars`? kind
    of the stored place? in `used_local`? in `used_parent`?); every successful run of the
    list-based model projects onto a successful `crun` over the leaf's events
    (`checkBlock_proj`), and a successful `crun` over well-kinded events simulates the ownership
    semantics `runEvs` (`sim`). -/
namespace GuppyVerif.Linearity

structure LSt where
  inVars : Bool
  kLoc : Bool
  usedLocal : Bool
  usedParent : Bool
  deriving DecidableEq, Repr

def Scope.proj (s : Scope) (l : Leaf) : LSt :=
  ⟨s.vars.contains l, s.linVars.contains l, s.usedLocal.contains l, s.usedParent.contains l⟩

/-- the checker's bookkeeping for one leaf under one event; `none` = some error -/
def cstep (inPar : Bool) (c : LSt) (e : Ev) : Option LSt :=
  match e.op with
  | .use =>
    if c.inVars then (if c.usedLocal && e.lin then none else some { c with usedLocal := true })
    else if inPar then (if c.usedParent && e.lin then none else some { c with usedParent := true })
    else none
  | .give => some { c with inVars := true, kLoc := e.lin, usedLocal := false }
  | .asg =>
    if c.inVars && !c.usedLocal && c.kLoc then none
    else some { c with inVars := true, kLoc := e.lin, usedLocal := false }

def crun (inPar : Bool) (c : LSt) : List Ev → Option LSt
  | [] => some c
  | e :: es => match cstep inPar c e with
    | none => none
    | some c' => crun inPar c' es

theorem crun_append (inPar : Bool) (c : LSt) (es fs : List Ev) :
    crun inPar c (es ++ fs) = (crun inPar c es).bind fun c' => crun inPar c' fs := by
  induction es generalizing c with
  | nil => simp [crun]
  | cons e es ih =>
    simp only [List.cons_append, crun]
    cases cstep inPar c e with
    | none => simp
    | some c' => simpa using ih c'

theorem runEvs_append (o : Bool) (es fs : List Ev) :
    runEvs o (es ++ fs) = (runEvs o es).bind fun o' => runEvs o' fs := by
  induction es generalizing o with
  | nil => simp [runEvs]
  | cons e es ih =>
    simp only [List.cons_append, runEvs]
    cases Ev.step o e with
    | none => simp
    | some o' => simpa using ih o'

theorem krun_append (k : Option Bool) (es fs : List Ev) :
    krun k (es ++ fs) = (krun k es).bind fun k' => krun k' fs := by
  induction es generalizing k with
  | nil => simp [krun]
  | cons e es ih =>
    simp only [List.cons_append, krun]
    cases Ev.kstep k e with
    | none => simp
    | some k' => simpa using ih k'

/-! ### list-set bookkeeping -/

@[simp] theorem mem_ins (x y : Leaf) (l : List Leaf) : y ∈ ins x l ↔ y ∈ l ∨ y = x := by
  unfold ins
  by_cases h : l.contains x = true
  · simp only [h, if_true]
    constructor
    · exact Or.inl
    · rintro (h' | rfl)
      · exact h'
      · simpa using h
  · simp only [h]
    simp

@[simp] theorem mem_filter_ne (x y : Leaf) (l : List Leaf) : y ∈ l.filter (· != x) ↔ y ∈ l ∧ y ≠ x := by
  simp [List.mem_filter]

theorem assign_proj_eq (s : Scope) (x : Leaf) (k : Bool) :
    (s.assign (x, k)).proj x = ⟨true, k, false, s.usedParent.contains x⟩ := by
  cases k <;> simp [Scope.proj, Scope.assign]

theorem assign_proj_ne (s : Scope) {x l : Leaf} (k : Bool) (h : x ≠ l) :
    (s.assign (x, k)).proj l = s.proj l := by
  have : l ≠ x := fun e => h e.symm
  cases k <;> simp [Scope.proj, Scope.assign, this]

/-! ### pass 1 projected on one leaf -/

theorem useLeaf_ok {s s' : Scope} {xk : Leaf × Bool} (h : useLeaf s xk = .ok s') :
    (xk.1 ∈ s.vars ∧ ¬(xk.1 ∈ s.usedLocal ∧ xk.2 = true) ∧ s' = { s with usedLocal := ins xk.1 s.usedLocal }) ∨
    (xk.1 ∉ s.vars ∧ xk.1 ∈ s.parent ∧ ¬(xk.1 ∈ s.usedParent ∧ xk.2 = true) ∧
      s' = { s with usedParent := ins xk.1 s.usedParent }) := by
  obtain ⟨x, k⟩ := xk
  unfold useLeaf Scope.used Scope.use at h
  simp only at h ⊢
  by_cases hv : x ∈ s.vars
  · by_cases hc : x ∈ s.usedLocal ∧ k = true
    · simp [hv, hc.1, hc.2] at h
    · left
      refine ⟨hv, hc, ?_⟩
      by_cases hu : x ∈ s.usedLocal
      · have hl : k = false := by simpa using fun h' => hc ⟨hu, h'⟩
        simp [hv, hu, hl] at h
        exact h.symm
      · simp [hv, hu] at h
        exact h.symm
  · by_cases hp : x ∈ s.parent
    · by_cases hc : x ∈ s.usedParent ∧ k = true
      · simp [hv, hp, hc.1, hc.2] at h
      · right
        refine ⟨hv, hp, hc, ?_⟩
        by_cases hu : x ∈ s.usedParent
        · have hl : k = false := by simpa using fun h' => hc ⟨hu, h'⟩
          simp [hv, hp, hu, hl] at h
          exact h.symm
        · simp [hv, hp, hu] at h
          exact h.symm
    · simp [hv, hp] at h

theorem useLeaf_parent {s s' : Scope} {xk : Leaf × Bool} (h : useLeaf s xk = .ok s') :
    s'.parent = s.parent ∧ s'.linParent = s.linParent := by
  rcases useLeaf_ok h with ⟨_, _, rfl⟩ | ⟨_, _, _, rfl⟩ <;> exact ⟨rfl, rfl⟩

theorem useLeaf_proj {l : Leaf} {s s' : Scope} {xk : Leaf × Bool} (h : useLeaf s xk = .ok s') :
    if xk.1 = l then cstep (s.parent.contains l) (s.proj l) ⟨.use, xk.2⟩ = some (s'.proj l)
    else s'.proj l = s.proj l := by
  obtain ⟨x, k⟩ := xk
  rcases useLeaf_ok h with ⟨hv, hu, rfl⟩ | ⟨hv, hp, hu, rfl⟩
  · simp only at hv hu ⊢
    by_cases hxl : x = l
    · subst hxl
      by_cases hul : x ∈ s.usedLocal
      · have : k = false := by simpa using fun h' => hu ⟨hul, h'⟩
        simp [Scope.proj, cstep, hv, hul, this]
      · simp [Scope.proj, cstep, hv, hul]
    · have : l ≠ x := fun e => hxl e.symm
      simp [Scope.proj, hxl, this]
  · simp only at hv hp hu ⊢
    by_cases hxl : x = l
    · subst hxl
      by_cases hul : x ∈ s.usedParent
      · have : k = false := by simpa using fun h' => hu ⟨hul, h'⟩
        simp [Scope.proj, cstep, hv, hp, hul, this]
      · simp [Scope.proj, cstep, hv, hp, hul]
    · have : l ≠ x := fun e => hxl e.symm
      simp [Scope.proj, hxl, this]

theorem assignLeaf_parent {s s' : Scope} {xk : Leaf × Bool} (h : assignLeaf s xk = .ok s') :
    s'.parent = s.parent ∧ s'.linParent = s.linParent := by
  unfold assignLeaf at h
  split at h
  · cases h
  · cases h; exact ⟨rfl, rfl⟩

theorem assignLeaf_proj {l : Leaf} {s s' : Scope} {xk : Leaf × Bool} (h : assignLeaf s xk = .ok s') :
    if xk.1 = l then cstep (s.parent.contains l) (s.proj l) ⟨.asg, xk.2⟩ = some (s'.proj l)
    else s'.proj l = s.proj l := by
  obtain ⟨x, k⟩ := xk
  unfold assignLeaf at h
  split at h
  · cases h
  · rename_i hc
    cases h
    by_cases hxl : x = l
    · subst hxl
      simp only [if_true]
      rw [assign_proj_eq]
      simp only [Bool.and_eq_true, Bool.not_eq_true', List.contains_iff_mem, not_and,
        Bool.not_eq_true, and_imp] at hc
      by_cases hv : x ∈ s.vars
      · by_cases hu : x ∈ s.usedLocal
        · simp [Scope.proj, cstep, hv, hu]
        · have hk := hc hv (by simpa using hu)
          have hk' : x ∉ s.linVars := by simpa using hk
          simp [Scope.proj, cstep, hv, hu, hk']
      · simp [Scope.proj, cstep, hv]
    · simp only [hxl, if_false]
      exact assign_proj_ne s k hxl

theorem assign_proj (l : Leaf) (s : Scope) (xk : Leaf × Bool) :
    if xk.1 = l then cstep (s.parent.contains l) (s.proj l) ⟨.give, xk.2⟩ = some ((s.assign xk).proj l)
    else (s.assign xk).proj l = s.proj l := by
  obtain ⟨x, k⟩ := xk
  by_cases hxl : x = l
  · subst hxl
    simp only [if_true]
    rw [assign_proj_eq]
    simp [Scope.proj, cstep]
  · simp only [hxl, if_false]
    exact assign_proj_ne s k hxl

/-- a monadic fold whose steps project to event lists projects to their concatenation; the
    side conditions `Q` established by the steps hold for all elements -/
theorem foldlM_proj {α : Type} (l : Leaf) (f : Scope → α → R Scope) (ev : α → List Ev) (Q : α → Prop)
    (hf : ∀ s s' a, f s a = .ok s' →
      (s'.parent = s.parent ∧ s'.linParent = s.linParent) ∧
        crun (s.parent.contains l) (s.proj l) (ev a) = some (s'.proj l) ∧ Q a) :
    ∀ (as : List α) (s s' : Scope), as.foldlM f s = .ok s' →
      (s'.parent = s.parent ∧ s'.linParent = s.linParent) ∧
        crun (s.parent.contains l) (s.proj l) (as.flatMap ev) = some (s'.proj l) ∧ ∀ a ∈ as, Q a := by
  intro as
  induction as with
  | nil =>
    intro s s' h
    simp [List.foldlM, pure, Except.pure] at h
    subst h
    simp [crun]
  | cons a as ih =>
    intro s s' h
    rw [List.foldlM_cons] at h
    cases h1 : f s a with
    | error e => rw [h1] at h; cases h
    | ok s1 =>
      rw [h1] at h
      obtain ⟨hp1, hc1, hq1⟩ := hf s s1 a h1
      obtain ⟨hp2, hc2, hq2⟩ := ih s1 s' h
      refine ⟨⟨hp2.1.trans hp1.1, hp2.2.trans hp1.2⟩, ?_, ?_⟩
      · rw [List.flatMap_cons, crun_append, hc1]
        simp only [Option.bind]
        rw [← hp1.1]; exact hc2
      · intro b hb
        rcases List.mem_cons.mp hb with rfl | hb
        · exact hq1
        · exact hq2 b hb

theorem foldl_proj {α : Type} (l : Leaf) (f : Scope → α → Scope) (ev : α → List Ev)
    (hf : ∀ s a, ((f s a).parent = s.parent ∧ (f s a).linParent = s.linParent) ∧
      crun (s.parent.contains l) (s.proj l) (ev a) = some ((f s a).proj l)) :
    ∀ (as : List α) (s : Scope),
      ((as.foldl f s).parent = s.parent ∧ (as.foldl f s).linParent = s.linParent) ∧
        crun (s.parent.contains l) (s.proj l) (as.flatMap ev) = some ((as.foldl f s).proj l) := by
  intro as
  induction as with
  | nil => intro s; simp [crun]
  | cons a as ih =>
    intro s
    obtain ⟨hp1, hc1⟩ := hf s a
    obtain ⟨hp2, hc2⟩ := ih (f s a)
    refine ⟨⟨by simpa using hp2.1.trans hp1.1, by simpa using hp2.2.trans hp1.2⟩, ?_⟩
    rw [List.flatMap_cons, crun_append, hc1]
    simp only [Option.bind, List.foldl_cons]
    rw [← hp1.1]; exact hc2

theorem crun_ite (inPar : Bool) (c c' : LSt) (e : Ev) (x l : Leaf)
    (h : if x = l then cstep inPar c e = some c' else c' = c) :
    crun inPar c (if x = l then [e] else []) = some c' := by
  by_cases hx : x = l
  · simp only [hx, if_true] at h ⊢
    simp [crun, h]
  · simp only [hx, if_false] at h ⊢
    simp [crun, h]

theorem visitPlace_proj {P : Prog} {l : Leaf} {borrow : Bool} {s s' : Scope} {p : Place}
    (h : visitPlace P borrow s p = .ok s') :
    (s'.parent = s.parent ∧ s'.linParent = s.linParent) ∧
      crun (s.parent.contains l) (s.proj l) (leafEvs .use l p.leaves) = some (s'.proj l) ∧
      (borrow = false → isInoutVar P p = false) := by
  unfold visitPlace at h
  split at h
  · cases h
  · rename_i hc
    have := foldlM_proj l useLeaf (fun xk => if xk.1 = l then [⟨Op.use, xk.2⟩] else []) (fun _ => True)
      (fun s s' xk hx => ⟨useLeaf_parent hx, crun_ite _ _ _ _ _ _ (useLeaf_proj hx), trivial⟩) p.leaves s s' h
    refine ⟨this.1, this.2.1, ?_⟩
    intro hb
    subst hb
    simpa using hc

theorem givePlace_proj (l : Leaf) (s : Scope) (p : Place) :
    ((givePlace s p).parent = s.parent ∧ (givePlace s p).linParent = s.linParent) ∧
      crun (s.parent.contains l) (s.proj l) (leafEvs .give l p.leaves) = some ((givePlace s p).proj l) :=
  foldl_proj l Scope.assign (fun xk => if xk.1 = l then [⟨Op.give, xk.2⟩] else [])
    (fun s xk => ⟨⟨rfl, rfl⟩, crun_ite _ _ _ _ _ _ (assign_proj l s xk)⟩) p.leaves s

theorem doAct_proj {P : Prog} {l : Leaf} {s s' : Scope} {a : Act} (h : doAct P s a = .ok s') :
    (s'.parent = s.parent ∧ s'.linParent = s.linParent) ∧
      crun (s.parent.contains l) (s.proj l) (a.evs l) = some (s'.proj l) ∧ a.StaticOK P := by
  cases a with
  | use p borrow =>
    simp only [doAct] at h
    exact visitPlace_proj h
  | give p =>
    simp only [doAct] at h
    cases h
    exact ⟨(givePlace_proj l s p).1, (givePlace_proj l s p).2, trivial⟩
  | dropAfter => simp [doAct] at h
  | moveOut => simp [doAct] at h

theorem assignTarget_proj {P : Prog} {l : Leaf} {s s' : Scope} {t : Place}
    (h : assignTarget P s t = .ok s') :
    (s'.parent = s.parent ∧ s'.linParent = s.linParent) ∧
      crun (s.parent.contains l) (s.proj l) (leafEvs .asg l t.leaves) = some (s'.proj l) := by
  unfold assignTarget at h
  split at h
  · cases h
  · have := foldlM_proj l assignLeaf (fun xk => if xk.1 = l then [⟨Op.asg, xk.2⟩] else []) (fun _ => True)
      (fun s s' xk hx => ⟨assignLeaf_parent hx, crun_ite _ _ _ _ _ _ (assignLeaf_proj hx), trivial⟩) t.leaves s s' h
    exact ⟨this.1, this.2.1⟩

theorem assignTargets_proj {P : Prog} {l : Leaf} {s s' : Scope} {tgts : List Place}
    (h : assignTargets P s tgts = .ok s') :
    (s'.parent = s.parent ∧ s'.linParent = s.linParent) ∧
      crun (s.parent.contains l) (s.proj l) (tgts.flatMap fun t => leafEvs .asg l t.leaves) = some (s'.proj l) ∧
      ∀ t ∈ tgts, isInoutVar P t = false := by
  unfold assignTargets at h
  cases h1 : tgts.foldlM (assignTarget P) s with
  | error e => simp [h1, bind, Except.bind] at h
  | ok s1 =>
    simp only [h1, bind, Except.bind] at h
    split at h
    · cases h
    · rename_i hc
      obtain rfl : s1 = s' := by simpa using h
      have := foldlM_proj l (assignTarget P) (fun t => leafEvs .asg l t.leaves) (fun _ => True)
        (fun s s' t ht => by
          obtain ⟨hp, hx'⟩ := assignTarget_proj (l := l) ht
          exact ⟨hp, hx', trivial⟩) tgts s s1 h1
      refine ⟨this.1, this.2.1, ?_⟩
      intro t ht
      simp only [List.any_eq_true, not_exists, not_and] at hc
      simpa using hc t ht

theorem checkStmt_proj {P : Prog} {l : Leaf} {s s' : Scope} {st : Stmt} (h : checkStmt P s st = .ok s') :
    (s'.parent = s.parent ∧ s'.linParent = s.linParent) ∧
      crun (s.parent.contains l) (s.proj l) (st.evs l) = some (s'.proj l) ∧ st.StaticOK P := by
  unfold checkStmt at h
  cases h1 : st.acts.foldlM (doAct P) s with
  | error e => simp [h1, bind, Except.bind] at h
  | ok s1 =>
    simp only [h1, bind, Except.bind] at h
    split at h
    · cases h
    · rename_i hd
      have a := foldlM_proj l (doAct P) (Act.evs l) (Act.StaticOK P) (fun s s' a ha => doAct_proj ha) st.acts s s1 h1
      obtain ⟨b1, b2, b3⟩ := assignTargets_proj (l := l) h
      refine ⟨⟨b1.1.trans a.1.1, b1.2.trans a.1.2⟩, ?_, a.2.2, b3, by simpa using hd⟩
      unfold Stmt.evs
      rw [crun_append, a.2.1]
      simp only [Option.bind]
      rw [← a.1.1]; exact b2

theorem checkBlock_proj {P : Prog} {l : Leaf} {b : Blk} {s : Scope} (h : checkBlock P b = .ok s) :
    (s.parent = (initScope P b).parent ∧ s.linParent = (initScope P b).linParent) ∧
      crun ((initScope P b).parent.contains l) ((initScope P b).proj l) ((P.stmts b).flatMap (Stmt.evs l)) =
        some (s.proj l) ∧
      ∀ st ∈ P.stmts b, st.StaticOK P := by
  unfold checkBlock at h
  exact foldlM_proj l (checkStmt P) (Stmt.evs l) (Stmt.StaticOK P) (fun s s' st hs => checkStmt_proj hs)
    (P.stmts b) (initScope P b) s h

/-! ### the bookkeeping simulates the ownership semantics (on well-kinded events) -/

/-- the kind of the current binding, read off the bookkeeping; `k0` = kind in the input row -/
def KInv (k0 : Option Bool) (c : LSt) (k : Option Bool) : Prop :=
  if c.inVars then k = some c.kLoc else k = k0

/-- how the bookkeeping `c` of a block determines whether a linear value is held (`o`), given
    the state `o0` on entering the block and the kind `k0` of the leaf in the input row -/
def Rel (o0 : Bool) (k0 : Option Bool) (c : LSt) (o : Bool) : Prop :=
  if c.inVars then o = (c.kLoc && !c.usedLocal)
  else if c.usedParent && (k0 == some true) then o = false else o = o0

theorem cstep_mono {inPar : Bool} {c c' : LSt} {e : Ev} (h : cstep inPar c e = some c') :
    (c.inVars = true → c'.inVars = true) ∧ (c.usedParent = true → c'.usedParent = true) ∧
      (c.inVars = true → c'.usedParent = c.usedParent) ∧ (inPar = false → c'.usedParent = c.usedParent) := by
  rcases c with ⟨a, k, b, d⟩
  rcases e with ⟨op, el⟩
  cases op <;> cases a <;> cases b <;> cases d <;> cases inPar <;> cases el <;> cases k <;>
    simp [cstep] at h <;> subst h <;> simp

theorem crun_mono {inPar : Bool} {es : List Ev} {c c1 : LSt} (h : crun inPar c es = some c1) :
    (c.inVars = true → c1.inVars = true) ∧ (c.usedParent = true → c1.usedParent = true) ∧
      (c.inVars = true → c1.usedParent = c.usedParent) ∧ (inPar = false → c1.usedParent = c.usedParent) := by
  induction es generalizing c with
  | nil => simp [crun] at h; subst h; simp
  | cons e es ih =>
    simp only [crun] at h
    cases h1 : cstep inPar c e with
    | none => simp [h1] at h
    | some c' =>
      simp only [h1] at h
      obtain ⟨a1, a2, a3, a4⟩ := cstep_mono h1
      obtain ⟨b1, b2, b3, b4⟩ := ih h
      refine ⟨fun x => b1 (a1 x), fun x => b2 (a2 x), fun x => (b3 (a1 x)).trans (a3 x), fun x => (b4 x).trans (a4 x)⟩

theorem sim_step {inPar : Bool} {c c' : LSt} {e : Ev} {o o0 : Bool} {k k' k0 : Option Bool}
    (h : cstep inPar c e = some c') (hk : Ev.kstep k e = some k') (hi : KInv k0 c k) (hr : Rel o0 k0 c o)
    (hK : k0 ≠ some true → o0 = false)
    (hA : c'.usedParent = true → c.usedParent = false → k0 = some true → o0 = true)
    (hB : c'.inVars = true → c'.usedParent = false → c.inVars = false → e.op = Op.asg → o0 = false) :
    ∃ o', Ev.step o e = some o' ∧ KInv k0 c' k' ∧ Rel o0 k0 c' o' := by
  rcases c with ⟨a, kl, b, d⟩
  rcases e with ⟨op, el⟩
  cases a
  · -- not in `vars`: the binding is the one of the input row
    simp only [KInv, Bool.false_eq_true, if_false] at hi
    subst hi
    cases op <;> cases b <;> cases d <;> cases inPar <;> cases el <;> simp [cstep] at h <;> subst h <;>
      cases o <;> cases o0 <;> rcases k with _ | _ | _ <;>
      simp_all [Rel, KInv, Ev.step, Ev.kstep]
  · simp only [KInv, if_true] at hi
    subst hi
    cases op <;> cases b <;> cases d <;> cases inPar <;> cases el <;> cases kl <;> simp [cstep] at h <;>
      subst h <;> cases o <;> simp_all [Rel, KInv, Ev.step, Ev.kstep]

theorem sim {inPar : Bool} {o0 : Bool} {k0 : Option Bool} (hK : k0 ≠ some true → o0 = false) :
    ∀ (es : List Ev) (c c1 : LSt) (o : Bool) (k k1 : Option Bool),
    crun inPar c es = some c1 → krun k es = some k1 → KInv k0 c k → Rel o0 k0 c o →
    (c1.usedParent = true → c.usedParent = false → k0 = some true → o0 = true) →
    (c1.inVars = true → c1.usedParent = false → c.inVars = false → o0 = false) →
    ∃ o1, runEvs o es = some o1 ∧ KInv k0 c1 k1 ∧ Rel o0 k0 c1 o1 := by
  intro es
  induction es with
  | nil =>
    intro c c1 o k k1 h hk hi hr _ _
    simp [crun] at h
    simp [krun] at hk
    subst h; subst hk
    exact ⟨o, rfl, hi, hr⟩
  | cons e es ih =>
    intro c c1 o k k1 h hk hi hr hA hB
    simp only [crun] at h
    simp only [krun] at hk
    cases h1 : cstep inPar c e with
    | none => simp [h1] at h
    | some c' =>
      cases h2 : Ev.kstep k e with
      | none => simp [h2] at hk
      | some k' =>
        simp only [h1] at h
        simp only [h2] at hk
        obtain ⟨a1, a2, a3, _⟩ := cstep_mono h1
        obtain ⟨b1, b2, b3, _⟩ := crun_mono h
        obtain ⟨o', ho', hi', hr'⟩ := sim_step h1 h2 hi hr hK
          (fun x y z => hA (b2 x) y z)
          (fun x y z _ => hB (b1 x) ((b3 x).trans y) z)
        obtain ⟨o1, ho1, hi1, hr1⟩ := ih c' c1 o' k' k1 h hk hi' hr'
          (fun x y z => hA x (by
            cases hc : c.usedParent with
            | false => rfl
            | true => rw [a2 hc] at y; cases y) z)
          (fun x y z => hB x y (by
            cases hc : c.inVars with
            | false => rfl
            | true => rw [a1 hc] at z; cases z))
        exact ⟨o1, by simp [runEvs, ho', ho1], hi1, hr1⟩

def Ev.isUse' (e : Ev) : Prop := e.op = Op.use

/-- a leaf that ends up in `used_parent` was read before anything else happened to it -/
theorem crun_usedParent_head {inPar : Bool} {es : List Ev} {c c1 : LSt} (h : crun inPar c es = some c1)
    (hv : c.inVars = false) (hu : c.usedParent = false) (h1 : c1.usedParent = true) :
    es.head?.map Ev.isUse = some true := by
  cases es with
  | nil => simp [crun] at h; subst h; rw [hu] at h1; cases h1
  | cons e es =>
    simp only [crun] at h
    cases hc : cstep inPar c e with
    | none => simp [hc] at h
    | some c' =>
      simp only [hc] at h
      rcases e with ⟨op, el⟩
      cases op with
      | use => rfl
      | give =>
        simp [cstep] at hc
        have := (crun_mono h).2.2.1 (by rw [← hc])
        rw [this, ← hc] at h1
        simp [hu] at h1
      | asg =>
        simp [cstep, hv] at hc
        have := (crun_mono h).2.2.1 (by rw [← hc])
        rw [this, ← hc] at h1
        simp [hu] at h1

/-- a leaf that ends up neither assigned nor used from the parent was not touched at all -/
theorem crun_untouched {inPar : Bool} {es : List Ev} {c c1 : LSt} (h : crun inPar c es = some c1)
    (hv1 : c1.inVars = false) (hu1 : c1.usedParent = false) (hv : c.inVars = false) : es = [] := by
  cases es with
  | nil => rfl
  | cons e es =>
    exfalso
    simp only [crun] at h
    cases hc : cstep inPar c e with
    | none => simp [hc] at h
    | some c' =>
      simp only [hc] at h
      obtain ⟨b1, b2, _, _⟩ := crun_mono h
      rcases e with ⟨op, el⟩
      cases op with
      | use =>
        simp [cstep, hv] at hc
        obtain ⟨_, _, hc⟩ := hc
        have := b2 (by rw [← hc])
        rw [hu1] at this; cases this
      | give =>
        simp [cstep] at hc
        have := b1 (by rw [← hc])
        rw [hv1] at this; cases this
      | asg =>
        simp [cstep, hv] at hc
        have := b1 (by rw [← hc])
        rw [hv1] at this; cases this

end GuppyVerif.Linearity
