import GuppyVerif.Model.DFVarIdx
/-! Helper lemmas for the variable-scoping theorem of C01. -/
namespace GuppyVerif.DFVarIdx

theorem remainingFrom_length (i : Nat) (mono : List Bool) :
    (remainingFrom i mono).length = countKept mono := by
  induction mono generalizing i with
  | nil => rfl
  | cons b bs ih => cases b <;> simp [remainingFrom, countKept, ih] <;> omega

/-- the kept parameter at position `idx` sits at position `countKept (take idx)` of the remaining list -/
theorem remainingFrom_get (mono : List Bool) : ∀ (i idx : Nat), mono[idx]? = some false →
    (remainingFrom i mono)[countKept (mono.take idx)]? = some (i + idx) := by
  induction mono with
  | nil => intro i idx h; simp at h
  | cons b bs ih =>
    intro i idx h
    cases idx with
    | zero =>
      simp only [List.getElem?_cons_zero, Option.some.injEq] at h
      subst h
      simp [remainingFrom, countKept]
    | succ k =>
      simp only [List.getElem?_cons_succ] at h
      have := ih (i + 1) k h
      cases b with
      | true =>
        simp only [remainingFrom, List.take_succ_cons, countKept, ↓reduceIte, Nat.zero_add]
        rw [this]; congr 1; omega
      | false =>
        simp only [remainingFrom, List.take_succ_cons, countKept, Bool.false_eq_true, ↓reduceIte]
        rw [show 1 + countKept (List.take k bs) = countKept (List.take k bs) + 1 by omega,
          List.getElem?_cons_succ, this]
        congr 1; omega

end GuppyVerif.DFVarIdx
