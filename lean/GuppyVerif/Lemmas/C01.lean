import GuppyVerif.Spec.C01
/-! Helper lemmas for C01: locals algebra, place-id geometry, evaluation of op lists, the
    `Holds` invariant (a place is stored as leaves only and denotes a value). -/
namespace GuppyVerif.DFWiring

/-! ## locals -/
@[simp] theorem Locals.set_apply (L : Locals) (p q : PlaceId) (w : Wire) :
    (L.set p w) q = if q = p then some w else L q := rfl
@[simp] theorem Locals.pop_apply (L : Locals) (p q : PlaceId) :
    (L.pop p) q = if q = p then none else L q := rfl

theorem foldl_pop_apply (ps : List PlaceId) (L : Locals) (q : PlaceId) :
    (ps.foldl Locals.pop L) q = if q ∈ ps then none else L q := by
  induction ps generalizing L with
  | nil => simp
  | cons a ps ih =>
    simp only [List.foldl_cons, ih, Locals.pop_apply, List.mem_cons]
    by_cases h1 : q ∈ ps <;> by_cases h2 : q = a <;> simp [h1, h2]

theorem popEnclosing_apply (L : Locals) (p q : PlaceId) :
    (popEnclosing L p) q = if q ∈ enclosing p then none else L q := foldl_pop_apply _ _ _

/-! ## geometry of place ids (`p <:+ q`: `q` lies in the subtree of `p`) -/
theorem mem_enclosing {p q : PlaceId} (h : q ∈ enclosing p) : q <:+ p ∧ q.length < p.length := by
  induction p with
  | nil => simp [enclosing] at h
  | cons a p ih =>
    cases p with
    | nil => simp [enclosing] at h
    | cons r rest =>
      simp only [enclosing, List.mem_cons] at h
      rcases h with h | h
      · subst h; exact ⟨List.suffix_cons _ _, by simp⟩
      · have := ih h
        exact ⟨this.1.trans (List.suffix_cons _ _), by simp at this ⊢; omega⟩

theorem enclosing_cons {i : Nat} {p q : PlaceId} (h : q ∈ enclosing (i :: p)) :
    q = p ∨ q ∈ enclosing p := by
  cases p with
  | nil => simp [enclosing] at h
  | cons r rest => simpa [enclosing] using h

theorem under_child_trans {i : Nat} {p q : PlaceId} (h : (i :: p) <:+ q) : p <:+ q :=
  (List.suffix_cons i p).trans h

theorem under_child_ne {i : Nat} {p q : PlaceId} (h : (i :: p) <:+ q) : q ≠ p := by
  intro e; subst e
  have := h.length_le; simp at this; omega

theorem under_child_not_enclosing {i : Nat} {p q : PlaceId} (h : (i :: p) <:+ q) :
    q ∉ enclosing p := by
  intro e
  have h1 := (mem_enclosing e).2
  have h2 := h.length_le
  simp at h2; omega

theorem under_not_enclosing {p q : PlaceId} (h : p <:+ q) : q ∉ enclosing p := by
  intro e
  have h1 := (mem_enclosing e).2
  have h2 := h.length_le
  omega

theorem under_child_inj {i j : Nat} {p q : PlaceId} (h1 : (i :: p) <:+ q) (h2 : (j :: p) <:+ q) :
    i = j := by
  obtain ⟨a, ha⟩ := h1
  obtain ⟨b, hb⟩ := h2
  have := List.append_inj' (ha.trans hb.symm) (by simp)
  simpa using this.2

/-! ## evaluation -/
theorem evalOps_append (e : Env) (o1 o2 : List Op) :
    evalOps e (o1 ++ o2) = match evalOps e o1 with
      | some e1 => evalOps e1 o2
      | none => none := by
  induction o1 generalizing e with
  | nil => simp [evalOps]
  | cons o os ih =>
    simp only [List.cons_append, evalOps]
    cases evalOp e o with
    | none => rfl
    | some e' => exact ih e'

@[simp] theorem Env.set_apply (e : Env) (w x : Wire) (v : Val) :
    (e.set w v) x = if x = w then some v else e x := rfl

theorem bindOuts_other (e : Env) (u i : Nat) (vs : List Val) (x : Wire)
    (h : x.node ≠ u ∨ x.port < i) : (e.bindOuts u i vs) x = e x := by
  induction vs generalizing e i with
  | nil => simp [Env.bindOuts]
  | cons v vs ih =>
    simp only [Env.bindOuts]
    rw [ih _ _ (by omega)]
    have hx : x ≠ ⟨u, i⟩ := by
      intro e; subst e; simp at h
    simp [hx]

theorem bindOuts_port (e : Env) (u i : Nat) (vs : List Val) (j : Nat) (hj : j < vs.length) :
    (e.bindOuts u i vs) ⟨u, i + j⟩ = some vs[j] := by
  induction vs generalizing e i j with
  | nil => simp at hj
  | cons v vs ih =>
    simp only [Env.bindOuts]
    cases j with
    | zero => rw [bindOuts_other _ _ _ _ _ (by simp)]; simp
    | succ j =>
      have := ih (e.set ⟨u, i⟩ v) (i + 1) j (by simpa using hj)
      rw [show i + 1 + j = i + (j + 1) by omega] at this
      simpa using this

/-! ## the invariant: place `p : t` is stored as leaves only and denotes `v` under `env` -/
mutual
def Holds (n : Nat) (L : Locals) (env : Env) (p : PlaceId) : Ty → Val → Prop
  | .leaf _ _, v => ∃ w, L p = some w ∧ w.node < n ∧ env w = some v
  | .node _ cs, .tup vs => L p = none ∧ HoldsList n L env p 0 cs vs
  | .node _ _, .atom _ => False
def HoldsList (n : Nat) (L : Locals) (env : Env) (p : PlaceId) (i : Nat) :
    List Ty → List Val → Prop
  | [], [] => True
  | t :: ts, v :: vs => Holds n L env (i :: p) t v ∧ HoldsList n L env p (i + 1) ts vs
  | [], _ :: _ => False
  | _ :: _, [] => False
end

mutual
theorem Holds.frame {n n' : Nat} {L L' : Locals} {env env' : Env} (hn : n ≤ n')
    (henv : ∀ w : Wire, w.node < n → env' w = env w) :
    ∀ (t : Ty) (p : PlaceId) (v : Val), (∀ q, p <:+ q → L' q = L q) →
      Holds n L env p t v → Holds n' L' env' p t v
  | .leaf _ _, p, v, hL, h => by
    simp only [Holds] at h ⊢
    obtain ⟨w, h1, h2, h3⟩ := h
    exact ⟨w, by rw [hL p (List.suffix_refl p)]; exact h1, by omega, by rw [henv w h2]; exact h3⟩
  | .node _ cs, p, .tup vs, hL, h => by
    simp only [Holds] at h ⊢
    refine ⟨by rw [hL p (List.suffix_refl p)]; exact h.1, ?_⟩
    exact HoldsList.frame hn henv cs p 0 vs (fun j q _ hq => hL q (under_child_trans hq)) h.2
  | .node _ _, _, .atom _, _, h => by simp [Holds] at h
theorem HoldsList.frame {n n' : Nat} {L L' : Locals} {env env' : Env} (hn : n ≤ n')
    (henv : ∀ w : Wire, w.node < n → env' w = env w) :
    ∀ (ts : List Ty) (p : PlaceId) (i : Nat) (vs : List Val),
      (∀ j q, i ≤ j → (j :: p) <:+ q → L' q = L q) →
      HoldsList n L env p i ts vs → HoldsList n' L' env' p i ts vs
  | [], _, _, [], _, _ => by simp [HoldsList]
  | t :: ts, p, i, v :: vs, hL, h => by
    simp only [HoldsList] at h ⊢
    exact ⟨Holds.frame hn henv t (i :: p) v (fun q hq => hL i q (Nat.le_refl i) hq) h.1,
      HoldsList.frame hn henv ts p (i + 1) vs (fun j q hj hq => hL j q (by omega) hq) h.2⟩
  | [], _, _, _ :: _, _, h => by simp [HoldsList] at h
  | _ :: _, _, _, [], _, h => by simp [HoldsList] at h
end

theorem HoldsList.length {n : Nat} {L : Locals} {env : Env} {p : PlaceId} :
    ∀ (ts : List Ty) (i : Nat) (vs : List Val), HoldsList n L env p i ts vs → vs.length = ts.length
  | [], _, [], _ => rfl
  | t :: ts, i, v :: vs, h => by
    simp only [HoldsList] at h
    simp [HoldsList.length ts (i + 1) vs h.2]
  | [], _, _ :: _, h => by simp [HoldsList] at h
  | _ :: _, _, [], h => by simp [HoldsList] at h

theorem HasShapes.length : ∀ (vs : List Val) (ts : List Ty), HasShapes vs ts → vs.length = ts.length
  | [], [], _ => rfl
  | v :: vs, t :: ts, h => by
    simp only [HasShapes] at h
    simp [HasShapes.length vs ts h.2]
  | [], _ :: _, h => by simp [HasShapes] at h
  | _ :: _, [], h => by simp [HasShapes] at h

end GuppyVerif.DFWiring
