import GuppyVerif.Lemmas.C12Shape
import GuppyVerif.Lemmas.C12Sound
/-! Lemmas for C12, part 5: termination of `unify` on acyclic priors.
    Measure: (number of unbound variables of a fixed finite universe, then — for the current substitution
    and one of its rank functions — the sum of the maximal ranks of both sides, then the sum of sizes). -/
namespace GuppyVerif.Unify

theorem size_le_sizeList {a : Tm} {as : List Tm} (h : a ∈ as) : a.size ≤ sizeList as := by
  induction as with
  | nil => cases h
  | cons b as ih =>
    simp only [sizeList]
    cases h with
    | head => omega
    | tail _ h => have := ih h; omega

def VarsIn (U : List V) (t : Tm) : Prop := ∀ y ∈ t.vars, y ∈ U
def RngIn (U : List V) (σ : Subst) : Prop := ∀ v u, lookup σ v = some u → VarsIn U u
/-- number of positions of `U` holding a variable not bound by `σ` -/
def cnt (U : List V) (σ : Subst) : Nat := (U.filter (fun v => (lookup σ v).isNone)).length

theorem VarsIn.arg {U : List V} {h : Head} {as : List Tm} (hv : VarsIn U (.node h as)) :
    ∀ a ∈ as, VarsIn U a := fun a ha y hy => hv y (by simp only [Tm.vars]; exact mem_varsList.mpr ⟨a, ha, hy⟩)

theorem cnt_le {U : List V} {σ σ' : Subst} (h : Extends σ σ') : cnt U σ' ≤ cnt U σ := by
  unfold cnt
  induction U with
  | nil => simp
  | cons x U ih =>
    simp only [List.filter_cons]
    cases h1 : lookup σ x with
    | none => cases h2 : lookup σ' x <;> simp <;> omega
    | some u => rw [h x u h1]; simpa using ih

theorem cnt_lt {U : List V} {σ σ' : Subst} (h : Extends σ σ') {v : V} (hv : v ∈ U)
    (h1 : lookup σ v = none) (h2 : lookup σ' v ≠ none) : cnt U σ' < cnt U σ := by
  induction U with
  | nil => cases hv
  | cons x U ih =>
    have hle : cnt U σ' ≤ cnt U σ := cnt_le h
    unfold cnt at *
    simp only [List.filter_cons]
    cases hv with
    | head =>
      rw [h1]
      cases h3 : lookup σ' v with
      | none => exact absurd h3 h2
      | some u => simp; omega
    | tail _ hv =>
      have := ih hv
      cases h4 : lookup σ x with
      | none => cases h5 : lookup σ' x <;> simp <;> omega
      | some u => rw [h x u h4]; simpa using this

/-! ### progress: new bindings bind universe variables, images stay in the universe -/

structure Prog (U : List V) (σ σ' : Subst) : Prop where
  rng : RngIn U σ'
  grew : σ' = σ ∨ ∃ v ∈ U, lookup σ v = none ∧ lookup σ' v ≠ none
  keys : ∀ v, lookup σ' v ≠ none → lookup σ v ≠ none ∨ v ∈ U

def ProgFn (U : List V) (u : Tm → Tm → Subst → Res) : Prop :=
  ∀ x y σ σ', u x y σ = .ok σ' → VarsIn U x → VarsIn U y → RngIn U σ → Prog U σ σ' ∧ Extends σ σ'

theorem Prog.trans {U : List V} {a b c : Subst} (h₁ : Prog U a b) (h₂ : Prog U b c) (e₂ : Extends b c) :
    Prog U a c := by
  refine ⟨h₂.rng, ?_, ?_⟩
  · cases h₁.grew with
    | inl e => subst e; exact h₂.grew
    | inr hw =>
      obtain ⟨v, hv, h1, h2⟩ := hw
      refine Or.inr ⟨v, hv, h1, ?_⟩
      cases h3 : lookup b v with
      | none => exact absurd h3 h2
      | some u => rw [e₂ v u h3]; simp
  · intro v hv
    cases h₂.keys v hv with
    | inl h => exact h₁.keys v h
    | inr h => exact Or.inr h

theorem loop_prog {U : List V} {u : Tm → Tm → Subst → Res} (hu : ProgFn U u) :
    ∀ (as bs : List Tm) (σ σ' : Subst), unifyArgsLoop u as bs σ = .ok σ' →
      (∀ a ∈ as, VarsIn U a) → (∀ b ∈ bs, VarsIn U b) → RngIn U σ → Prog U σ σ' ∧ Extends σ σ' := by
  intro as
  induction as with
  | nil =>
    intro bs σ σ' h _ _ hr
    cases bs with
    | nil => simp only [unifyArgsLoop, Res.ok.injEq] at h; subst h; exact ⟨⟨hr, Or.inl rfl, fun _ h => Or.inl h⟩, Extends.refl _⟩
    | cons b bs => simp [unifyArgsLoop] at h
  | cons a as ih =>
    intro bs σ σ' h ha hb hr
    cases bs with
    | nil => simp [unifyArgsLoop] at h
    | cons b bs =>
      cases a <;> cases b <;> simp only [unifyArgsLoop] at h <;> try (exact absurd h (by simp))
      all_goals
        rename_i x y
        cases hres : u x y σ with
        | oof => simp [hres] at h
        | fail => simp [hres] at h
        | ok σ₁ =>
          simp only [hres] at h
          have hx : VarsIn U x := fun z hz => ha _ (List.mem_cons_self ..) z (by simpa [Tm.vars] using hz)
          have hy : VarsIn U y := fun z hz => hb _ (List.mem_cons_self ..) z (by simpa [Tm.vars] using hz)
          obtain ⟨p₁, e₁⟩ := hu x y σ σ₁ hres hx hy hr
          obtain ⟨p₂, e₂⟩ := ih bs σ₁ σ' h (fun a h' => ha a (by simp [h'])) (fun b h' => hb b (by simp [h'])) p₁.rng
          exact ⟨p₁.trans p₂ e₂, e₁.trans e₂⟩

theorem var_prog {U : List V} {u : Tm → Tm → Subst → Res} {o : Subst → V → Tm → Option Bool} (hu : ProgFn U u)
    {v : V} {t : Tm} {σ σ' : Subst} (h : unifyVarWith u o v t σ = .ok σ')
    (hv : v ∈ U) (ht : VarsIn U t) (hr : RngIn U σ) : Prog U σ σ' ∧ Extends σ σ' := by
  have bindCase : lookup σ v = none →
      (match o σ v t with
        | none => Res.oof
        | some true => Res.fail
        | some false => Res.ok ((v, t) :: σ)) = .ok σ' → Prog U σ σ' ∧ Extends σ σ' := by
    intro hl hb
    cases ho : o σ v t with
    | none => simp [ho] at hb
    | some b =>
      cases b with
      | true => simp [ho] at hb
      | false =>
        simp only [ho, Res.ok.injEq] at hb
        subst hb
        refine ⟨⟨?_, Or.inr ⟨v, hv, hl, by simp [lookup_cons]⟩, ?_⟩, Extends.cons t hl⟩
        · intro x w hx
          rw [lookup_cons] at hx
          by_cases e : v = x
          · simp only [e, if_true, Option.some.injEq] at hx; subst hx; exact ht
          · simp only [e, if_false] at hx; exact hr x w hx
        · intro x hx
          rw [lookup_cons] at hx
          by_cases e : v = x
          · subst e; exact Or.inr hv
          · simp only [e, if_false] at hx; exact Or.inl hx
  have hvv : VarsIn U (.var v) := fun y hy => by simp [Tm.vars] at hy; subst hy; exact hv
  unfold unifyVarWith at h
  cases hl : lookup σ v with
  | some sv => simp only [hl] at h; exact hu _ _ _ _ h (hr v sv hl) ht hr
  | none =>
    simp only [hl] at h
    cases t with
    | var w =>
      simp only at h
      cases hw : lookup σ w with
      | some tw => simp only [hw] at h; exact hu _ _ _ _ h hvv (hr w tw hw) hr
      | none => simp only [hw] at h; exact bindCase hl h
    | atom a => exact bindCase hl h
    | node hd as => exact bindCase hl h
    | targ x => exact bindCase hl h
    | carg x => exact bindCase hl h

theorem unify_prog (E : Env) (U : List V) : ∀ n, ProgFn U (unify E n) := by
  intro n
  induction n with
  | zero => intro x y σ σ' h; simp [unify] at h
  | succ n ih =>
    intro s t σ σ' h hs ht hr
    rw [unify_succ] at h
    cases hsh : shape E s t with
    | same => simp only [hsh, runShape, Res.ok.injEq] at h; subst h; exact ⟨⟨hr, Or.inl rfl, fun _ h => Or.inl h⟩, Extends.refl _⟩
    | fail => simp [hsh, runShape] at h
    | viaVar v t' =>
      simp only [hsh, runShape] at h
      obtain ⟨_, hc⟩ := shape_viaVar hsh
      have hv : v ∈ U ∧ VarsIn U t' := by
        cases hc with
        | inl e => obtain ⟨rfl, rfl⟩ := e; exact ⟨hs v (by simp [Tm.vars]), ht⟩
        | inr e => obtain ⟨rfl, rfl⟩ := e; exact ⟨ht v (by simp [Tm.vars]), hs⟩
      exact var_prog ih h hv.1 hv.2 hr
    | viaArgs as bs =>
      simp only [hsh, runShape] at h
      obtain ⟨h₁, h₂, rfl, rfl, _⟩ := shape_viaArgs hsh
      unfold unifyArgsWith at h
      split at h
      · cases h
      · exact loop_prog ih as bs σ σ' h hs.arg ht.arg hr

/-! ### ranks -/

def maxL : List Nat → Nat
  | [] => 0
  | a :: as => max a (maxL as)

theorem le_maxL {a : Nat} {l : List Nat} (h : a ∈ l) : a ≤ maxL l := by
  induction l with
  | nil => cases h
  | cons b l ih =>
    simp only [maxL]
    cases h with
    | head => omega
    | tail _ h => have := ih h; omega

theorem maxL_le {k : Nat} {l : List Nat} (h : ∀ a ∈ l, a ≤ k) : maxL l ≤ k := by
  induction l with
  | nil => simp [maxL]
  | cons b l ih =>
    simp only [maxL]
    have := h b (by simp)
    have := ih (fun a ha => h a (by simp [ha]))
    omega

/-- one more than the largest rank of a variable of `t` (0 if there is none) -/
def mr (r : V → Nat) (t : Tm) : Nat := maxL (t.vars.map (fun y => r y + 1))

theorem le_mr {r : V → Nat} {t : Tm} {y : V} (h : y ∈ t.vars) : r y + 1 ≤ mr r t :=
  le_maxL (List.mem_map.mpr ⟨y, h, rfl⟩)

theorem mr_le {r : V → Nat} {t : Tm} {k : Nat} (h : ∀ y ∈ t.vars, r y + 1 ≤ k) : mr r t ≤ k := by
  apply maxL_le
  intro a ha
  obtain ⟨y, hy, rfl⟩ := List.mem_map.mp ha
  exact h y hy

theorem mr_var (r : V → Nat) (v : V) : mr r (.var v) = r v + 1 := by simp [mr, Tm.vars, maxL]

theorem mr_mono {r : V → Nat} {a b : Tm} (h : ∀ y ∈ a.vars, y ∈ b.vars) : mr r a ≤ mr r b :=
  mr_le (fun y hy => le_mr (h y hy))

theorem firstM_ne_none {f : V → Option Bool} : ∀ {ys : List V}, (∀ y ∈ ys, f y ≠ none) → firstM f ys ≠ none := by
  intro ys
  induction ys with
  | nil => intro _; simp [firstM]
  | cons a as ih =>
    intro h
    simp only [firstM]
    cases hfa : f a with
    | none => exact absurd hfa (h a (by simp))
    | some b =>
      cases b with
      | true => simp
      | false => exact ih (fun y hy => h y (by simp [hy]))

theorem occurs_term {σ : Subst} {r : V → Nat} (hr : ∀ v u, lookup σ v = some u → ∀ y ∈ u.vars, r y < r v)
    (v : V) : ∀ (m : Nat) (t : Tm), mr r t ≤ m → occurs (m + 1) σ v t ≠ none := by
  intro m
  induction m with
  | zero =>
    intro t ht
    simp only [occurs]
    apply firstM_ne_none
    intro y hy
    have := le_mr (r := r) hy
    omega
  | succ m ih =>
    intro t ht
    simp only [occurs]
    apply firstM_ne_none
    intro y hy
    by_cases e : y = v
    · simp [e]
    · simp only [e, if_false]
      cases hl : lookup σ y with
      | none => simp
      | some u =>
        simp only []
        apply ih u
        have h1 := le_mr (r := r) hy
        have h2 : mr r u ≤ r y := mr_le (fun z hz => hr y u hl z hz)
        omega

/-! ### termination -/

def TermAt (E : Env) (σ : Subst) (s t : Tm) : Prop := ∃ n, unify E n s t σ ≠ .oof
def TermArgsAt (E : Env) (σ : Subst) (as bs : List Tm) : Prop := ∃ n, unifyArgsLoop (unify E n) as bs σ ≠ .oof

/-- what the induction over the number of unbound variables provides for strictly larger substitutions -/
def Smaller (E : Env) (U : List V) (σ : Subst) : Prop :=
  ∀ σ₁, Acyclic σ₁ → RngIn U σ₁ → cnt U σ₁ < cnt U σ →
    ∀ as bs, (∀ a ∈ as, VarsIn U a) → (∀ b ∈ bs, VarsIn U b) → TermArgsAt E σ₁ as bs

theorem loop_term (E : Env) (U : List V) (σ : Subst) (ha : Acyclic σ) (hrng : RngIn U σ) (P2 : Smaller E U σ) :
    ∀ as bs, (∀ a ∈ as, VarsIn U a) → (∀ b ∈ bs, VarsIn U b) →
      (∀ a ∈ as, ∀ b ∈ bs, ∀ x y, (a = .targ x ∧ b = .targ y) ∨ (a = .carg x ∧ b = .carg y) → TermAt E σ x y) →
      TermArgsAt E σ as bs := by
  intro as
  induction as with
  | nil => intro bs _ _ _; cases bs <;> exact ⟨0, by simp [unifyArgsLoop]⟩
  | cons a as ih =>
    intro bs hva hvb P1
    cases bs with
    | nil => exact ⟨0, by simp [unifyArgsLoop]⟩
    | cons b bs =>
      have key : ∀ x y, VarsIn U x → VarsIn U y → TermAt E σ x y →
          (∀ u : Tm → Tm → Subst → Res, unifyArgsLoop u (a :: as) (b :: bs) σ =
            match u x y σ with
            | .ok σ' => unifyArgsLoop u as bs σ'
            | r => r) → TermArgsAt E σ (a :: as) (b :: bs) := by
        intro x y hx hy hterm heq
        obtain ⟨n₁, h₁⟩ := hterm
        cases hres : unify E n₁ x y σ with
        | oof => exact absurd hres h₁
        | fail => exact ⟨n₁, by rw [heq, hres]; simp⟩
        | ok σ₁ =>
          have g := unify_good E n₁ x y σ σ₁ hres
          obtain ⟨p, _⟩ := unify_prog E U n₁ x y σ σ₁ hres hx hy hrng
          have tail : TermArgsAt E σ₁ as bs := by
            cases p.grew with
            | inl e =>
              subst e
              exact ih bs (fun a h' => hva a (by simp [h'])) (fun b h' => hvb b (by simp [h']))
                (fun a' ha' b' hb' => P1 a' (by simp [ha']) b' (by simp [hb']))
            | inr hw =>
              obtain ⟨v, hv, hl1, hl2⟩ := hw
              exact P2 σ₁ (g.acyc ha) p.rng (cnt_lt g.ext hv hl1 hl2) as bs
                (fun a h' => hva a (by simp [h'])) (fun b h' => hvb b (by simp [h']))
          obtain ⟨n₂, h₂⟩ := tail
          refine ⟨max n₁ n₂, ?_⟩
          rw [heq, unify_mono E (Nat.le_max_left n₁ n₂) x y σ (by rw [hres]; simp), hres]
          simp only []
          rw [loop_mono (unify_mono E (Nat.le_max_right n₁ n₂)) as bs σ₁ h₂]
          exact h₂
      cases a <;> cases b <;> (try (refine ⟨0, ?_⟩; simp [unifyArgsLoop]; done))
      · rename_i x y
        exact key x y (fun z hz => hva _ (List.mem_cons_self ..) z (by simpa [Tm.vars] using hz))
          (fun z hz => hvb _ (List.mem_cons_self ..) z (by simpa [Tm.vars] using hz))
          (P1 _ (List.mem_cons_self ..) _ (List.mem_cons_self ..) x y (Or.inl ⟨rfl, rfl⟩)) (fun u => by simp only [unifyArgsLoop]; rfl)
      · rename_i x y
        exact key x y (fun z hz => hva _ (List.mem_cons_self ..) z (by simpa [Tm.vars] using hz))
          (fun z hz => hvb _ (List.mem_cons_self ..) z (by simpa [Tm.vars] using hz))
          (P1 _ (List.mem_cons_self ..) _ (List.mem_cons_self ..) x y (Or.inr ⟨rfl, rfl⟩)) (fun u => by simp only [unifyArgsLoop]; rfl)

theorem var_term (E : Env) {σ : Subst} {v : V} {t : Tm}
    (h1 : ∀ sv, lookup σ v = some sv → TermAt E σ sv t)
    (h2 : ∀ w tw, t = .var w → lookup σ w = some tw → TermAt E σ (.var v) tw)
    (h3 : ∃ n, occurs n σ v t ≠ none) :
    ∃ n, unifyVarWith (unify E n) (occurs n) v t σ ≠ .oof := by
  have bindCase : ∃ n, (match occurs n σ v t with
        | none => Res.oof
        | some true => Res.fail
        | some false => Res.ok ((v, t) :: σ)) ≠ .oof := by
    obtain ⟨n, hn⟩ := h3
    refine ⟨n, ?_⟩
    cases ho : occurs n σ v t with
    | none => exact absurd ho hn
    | some b => cases b <;> simp
  unfold unifyVarWith
  cases hl : lookup σ v with
  | some sv => simp only []; exact h1 sv hl
  | none =>
    simp only []
    cases t with
    | var w =>
      simp only
      cases hw : lookup σ w with
      | some tw => simp only []; exact h2 w tw rfl hw
      | none => simp only []; exact bindCase
    | atom a => exact bindCase
    | node hd as => exact bindCase
    | targ x => exact bindCase
    | carg x => exact bindCase

theorem term_inner (E : Env) (U : List V) (σ : Subst) (r : V → Nat)
    (hr : ∀ v u, lookup σ v = some u → ∀ y ∈ u.vars, r y < r v) (hrng : RngIn U σ) (P2 : Smaller E U σ) :
    ∀ M Z s t, VarsIn U s → VarsIn U t → mr r s + mr r t < M → s.size + t.size < Z → TermAt E σ s t := by
  have ha : Acyclic σ := ⟨r, hr⟩
  intro M
  induction M with
  | zero => intro Z s t _ _ h; omega
  | succ M ihM =>
    intro Z
    induction Z with
    | zero => intro s t _ _ _ h; omega
    | succ Z ihZ =>
      intro s t hs ht hM hZ
      suffices h : ∃ n, runShape (unify E n) (occurs n) σ (shape E s t) ≠ .oof by
        obtain ⟨n, hn⟩ := h
        exact ⟨n + 1, by rw [unify_succ]; exact hn⟩
      cases hsh : shape E s t with
      | same => exact ⟨0, by simp [runShape]⟩
      | fail => exact ⟨0, by simp [runShape]⟩
      | viaVar v t' =>
        simp only [runShape]
        obtain ⟨_, hc⟩ := shape_viaVar hsh
        have hv : v ∈ U ∧ VarsIn U t' ∧ mr r (.var v) + mr r t' < M + 1 := by
          cases hc with
          | inl e => obtain ⟨rfl, rfl⟩ := e; exact ⟨hs v (by simp [Tm.vars]), ht, hM⟩
          | inr e => obtain ⟨rfl, rfl⟩ := e; exact ⟨ht v (by simp [Tm.vars]), hs, by omega⟩
        obtain ⟨hvU, ht', hm⟩ := hv
        rw [mr_var] at hm
        have hvv : VarsIn U (.var v) := fun y hy => by simp [Tm.vars] at hy; subst hy; exact hvU
        apply var_term E
        · intro sv hl
          have : mr r sv ≤ r v := mr_le (fun z hz => hr v sv hl z hz)
          exact ihM (sv.size + t'.size + 1) sv t' (hrng v sv hl) ht' (by omega) (by omega)
        · intro w tw e hw
          subst e
          have : mr r tw ≤ r w := mr_le (fun z hz => hr w tw hw z hz)
          rw [mr_var] at hm
          exact ihM ((Tm.var v).size + tw.size + 1) (.var v) tw hvv (hrng w tw hw) (by rw [mr_var]; omega) (by omega)
        · exact ⟨mr r t' + 1, occurs_term hr v (mr r t') t' (Nat.le_refl _)⟩
      | viaArgs as bs =>
        simp only [runShape]
        obtain ⟨h₁, h₂, rfl, rfl, _⟩ := shape_viaArgs hsh
        unfold unifyArgsWith
        by_cases hlen : as.length ≠ bs.length
        · exact ⟨0, by simp [hlen]⟩
        · simp only [hlen, if_false]
          apply loop_term E U σ ha hrng P2 as bs hs.arg ht.arg
          intro a ha' b hb' x y hxy
          have hsub : ∀ (c : Tm) (l : List Tm) (hd : Head) (z : Tm), c ∈ l → (c = .targ z ∨ c = .carg z) →
              (∀ w ∈ z.vars, w ∈ (Tm.node hd l).vars) ∧ z.size < (Tm.node hd l).size := by
            intro c l hd z hc hz
            have hsz := size_le_sizeList hc
            constructor
            · intro w hw
              simp only [Tm.vars]
              refine mem_varsList.mpr ⟨c, hc, ?_⟩
              cases hz with
              | inl e => subst e; simpa [Tm.vars] using hw
              | inr e => subst e; simpa [Tm.vars] using hw
            · simp only [Tm.size]
              cases hz with
              | inl e => subst e; simp only [Tm.size] at hsz; omega
              | inr e => subst e; simp only [Tm.size] at hsz; omega
          have hx := hsub a as h₁ x ha' (by cases hxy with | inl e => exact Or.inl e.1 | inr e => exact Or.inr e.1)
          have hy := hsub b bs h₂ y hb' (by cases hxy with | inl e => exact Or.inl e.2 | inr e => exact Or.inr e.2)
          have m1 := mr_mono (r := r) hx.1
          have m2 := mr_mono (r := r) hy.1
          exact ihZ x y (fun w hw => hs w (hx.1 w hw)) (fun w hw => ht w (hy.1 w hw)) (by omega) (by omega)

theorem term_all (E : Env) (U : List V) : ∀ c σ, cnt U σ < c → Acyclic σ → RngIn U σ →
    (∀ s t, VarsIn U s → VarsIn U t → TermAt E σ s t) ∧
    (∀ as bs, (∀ a ∈ as, VarsIn U a) → (∀ b ∈ bs, VarsIn U b) → TermArgsAt E σ as bs) := by
  intro c
  induction c with
  | zero => intro σ h; omega
  | succ c ih =>
    intro σ hc ha hrng
    have P2 : Smaller E U σ := fun σ₁ ha₁ hr₁ hlt as bs hva hvb => (ih σ₁ (by omega) ha₁ hr₁).2 as bs hva hvb
    obtain ⟨r, hr⟩ := ha
    have T : ∀ s t, VarsIn U s → VarsIn U t → TermAt E σ s t := fun s t hs ht =>
      term_inner E U σ r hr hrng P2 (mr r s + mr r t + 1) (s.size + t.size + 1) s t hs ht (by omega) (by omega)
    exact ⟨T, fun as bs hva hvb => loop_term E U σ ⟨r, hr⟩ hrng P2 as bs hva hvb
      (fun a ha' b hb' x y hxy => T x y
        (fun w hw => hva a ha' w (by cases hxy with
          | inl e => rw [e.1]; simpa [Tm.vars] using hw
          | inr e => rw [e.1]; simpa [Tm.vars] using hw))
        (fun w hw => hvb b hb' w (by cases hxy with
          | inl e => rw [e.2]; simpa [Tm.vars] using hw
          | inr e => rw [e.2]; simpa [Tm.vars] using hw)))⟩

theorem lookup_mem {σ : Subst} {v : V} {u : Tm} (h : lookup σ v = some u) : (v, u) ∈ σ := by
  induction σ with
  | nil => simp [lookup] at h
  | cons p σ ih =>
    obtain ⟨w, t⟩ := p
    rw [lookup_cons] at h
    by_cases e : w = v
    · simp only [e, if_true, Option.some.injEq] at h; subst h; subst e; simp
    · simp only [e, if_false] at h; simp [ih h]

/-- termination: some fuel suffices, and from then on the result does not change -/
theorem unify_terminates_aux (E : Env) (s t : Tm) (σ : Subst) (ha : Acyclic σ) :
    ∃ n, unify E n s t σ ≠ .oof ∧ ∀ m, n ≤ m → unify E m s t σ = unify E n s t σ := by
  let U : List V := s.vars ++ t.vars ++ σ.flatMap (fun p => p.2.vars)
  have hrng : RngIn U σ := by
    intro v u hl y hy
    simp only [U, List.mem_append, List.mem_flatMap]
    exact Or.inr ⟨(v, u), lookup_mem hl, hy⟩
  obtain ⟨n, hn⟩ := (term_all E U (cnt U σ + 1) σ (by omega) ha hrng).1 s t
    (fun y hy => by simp [U, hy]) (fun y hy => by simp [U, hy])
  exact ⟨n, hn, fun m hm => unify_mono E hm s t σ hn⟩

end GuppyVerif.Unify
