import GuppyVerif.Lemmas.C03Sem
/-! # C03 helper lemmas, part 7: reachability, pruning, and the end-to-end statement about `buildCfg` -/
namespace GuppyVerif.Builder
open GuppyVerif.Surface

/-! ### the reachable set is closed under successors -/

theorem addAll_mono (acc xs : List Nat) : ∀ x ∈ acc, x ∈ addAll acc xs := by
  induction xs generalizing acc with
  | nil => intro x hx; exact hx
  | cons y ys ih =>
    intro x hx
    simp only [addAll, List.foldl_cons]
    apply ih
    split
    · exact hx
    · exact List.mem_append.mpr (Or.inl hx)

theorem addAll_mem (acc xs : List Nat) : ∀ x ∈ xs, x ∈ addAll acc xs := by
  induction xs generalizing acc with
  | nil => intro x hx; cases hx
  | cons y ys ih =>
    intro x hx
    simp only [addAll, List.foldl_cons]
    rcases List.mem_cons.mp hx with rfl | hx
    · apply addAll_mono
      split
      · rename_i h; exact List.contains_iff_mem.mp h
      · exact List.mem_append.mpr (Or.inr (List.mem_singleton.mpr rfl))
    · exact ih _ x hx

theorem foldl_reach_mono (blocks : List Block) (l acc : List Nat) :
    ∀ x ∈ acc, x ∈ l.foldl (fun acc b => addAll acc (blocks[b]?.getD {}).succs) acc := by
  induction l generalizing acc with
  | nil => intro x hx; exact hx
  | cons y ys ih => intro x hx; simp only [List.foldl_cons]; exact ih _ x (addAll_mono _ _ x hx)

theorem foldl_reach_succ (blocks : List Block) (l acc : List Nat) :
    ∀ b ∈ l, ∀ s ∈ (blocks[b]?.getD {}).succs,
      s ∈ l.foldl (fun acc b => addAll acc (blocks[b]?.getD {}).succs) acc := by
  induction l generalizing acc with
  | nil => intro b hb; cases hb
  | cons y ys ih =>
    intro b hb s hs
    simp only [List.foldl_cons]
    rcases List.mem_cons.mp hb with rfl | hb
    · exact foldl_reach_mono _ _ _ s (addAll_mem _ _ s hs)
    · exact ih _ b hb s hs

theorem reachStep_mono (blocks : List Block) (seen : List Nat) : ∀ x ∈ seen, x ∈ reachStep blocks seen :=
  foldl_reach_mono blocks seen seen

theorem reachIter_mono (blocks : List Block) (n : Nat) (seen : List Nat) :
    ∀ x ∈ seen, x ∈ reachIter blocks n seen := by
  induction n generalizing seen with
  | zero => intro x hx; exact hx
  | succ n ih => intro x hx; exact ih _ x (reachStep_mono _ _ x hx)

/-- what `reachable` returns contains the entry and is closed under successors -/
theorem reachable_spec {blocks : List Block} {rs : List Nat} (h : reachable blocks = some rs) :
    0 ∈ rs ∧ ∀ b ∈ rs, ∀ s ∈ (blkL blocks b).succs, s ∈ rs := by
  simp only [reachable] at h
  split at h
  · rename_i hfix
    cases h
    refine ⟨reachIter_mono _ _ _ 0 (List.mem_singleton.mpr rfl), ?_⟩
    intro b hb s hs
    have := foldl_reach_succ blocks _ (reachIter blocks blocks.length [0]) b hb s hs
    have hfix' : reachStep blocks (reachIter blocks blocks.length [0]) = reachIter blocks blocks.length [0] := by
      simpa using hfix
    rw [← hfix']; exact this
  · cases h

/-! ### `update_reachable` computes exactly graph reachability from the entry -/

/-- there is a path over real edges -/
inductive Path (blocks : List Block) : Nat → Nat → Prop where
  | refl (a : Nat) : Path blocks a a
  | step {a b c : Nat} : Path blocks a b → c ∈ (blkL blocks b).succs → Path blocks a c

theorem addAll_sub (acc xs : List Nat) : ∀ x ∈ addAll acc xs, x ∈ acc ∨ x ∈ xs := by
  induction xs generalizing acc with
  | nil => intro x hx; exact Or.inl hx
  | cons y ys ih =>
    intro x hx
    simp only [addAll, List.foldl_cons] at hx
    have := ih _ x hx
    rcases this with h | h
    · split at h
      · exact Or.inl h
      · rcases List.mem_append.mp h with h | h
        · exact Or.inl h
        · simp only [List.mem_singleton] at h; subst h; exact Or.inr (List.mem_cons_self ..)
    · exact Or.inr (List.mem_cons_of_mem _ h)

theorem foldl_reach_sub (blocks : List Block) (l acc : List Nat) :
    ∀ x ∈ l.foldl (fun acc b => addAll acc (blocks[b]?.getD {}).succs) acc,
      x ∈ acc ∨ ∃ b ∈ l, x ∈ (blocks[b]?.getD {}).succs := by
  induction l generalizing acc with
  | nil => intro x hx; exact Or.inl hx
  | cons y ys ih =>
    intro x hx
    simp only [List.foldl_cons] at hx
    rcases ih _ x hx with h | ⟨b, hb, hxb⟩
    · rcases addAll_sub _ _ x h with h | h
      · exact Or.inl h
      · exact Or.inr ⟨y, List.mem_cons_self .., h⟩
    · exact Or.inr ⟨b, List.mem_cons_of_mem _ hb, hxb⟩

theorem reachIter_sound (blocks : List Block) (n : Nat) (seen : List Nat) (h : ∀ x ∈ seen, Path blocks 0 x) :
    ∀ x ∈ reachIter blocks n seen, Path blocks 0 x := by
  induction n generalizing seen with
  | zero => exact h
  | succ n ih =>
    apply ih
    intro x hx
    rcases foldl_reach_sub blocks seen seen x hx with h1 | ⟨b, hb, hxb⟩
    · exact h x h1
    · exact Path.step (h b hb) hxb

/-- **the blocks `update_reachable` marks are exactly the blocks reachable from the entry over real edges** -/
theorem reachable_iff_path {blocks : List Block} {rs : List Nat} (h : reachable blocks = some rs) (b : Nat) :
    b ∈ rs ↔ Path blocks 0 b := by
  obtain ⟨h0, hcl⟩ := reachable_spec h
  constructor
  · intro hb
    simp only [reachable] at h
    split at h
    · cases h
      exact reachIter_sound blocks _ [0] (fun x hx => by simp only [List.mem_singleton] at hx; subst hx; exact Path.refl 0) b hb
    · cases h
  · intro hp
    induction hp with
    | refl => exact h0
    | step _ hc ih => exact hcl _ ih _ hc

/-! ### blocks after `setReach` / `prune` -/

theorem blkL_setReach (rs : List Nat) (bl : List Block) (i : Nat) (hi : i < bl.length) :
    blkL (setReach rs bl) i = { blkL bl i with reach := rs.contains i } := by
  simp [blkL, setReach, List.getElem?_map, List.getElem?_zipIdx, List.getElem?_eq_getElem hi]

theorem length_setReach (rs : List Nat) (bl : List Block) : (setReach rs bl).length = bl.length := by
  simp [setReach]

theorem blkL_prune (bl : List Block) (i : Nat) (hi : i < bl.length) :
    blkL (prune bl) i =
      { blkL bl i with
        succs := if (blkL bl i).reach then (blkL bl i).succs else (blkL bl i).succs.filter fun s => !(blkL bl s).reach
        dsuccs := (blkL bl i).dsuccs.filter fun s => !(blkL bl s).reach } := by
  simp [blkL, prune, List.getElem?_map, List.getElem?_eq_getElem hi]

theorem length_prune (bl : List Block) : (prune bl).length = bl.length := by simp [prune]

/-- **after pruning no real edge leads from unreachable into reachable code, and dummy edges only point
    to unreachable blocks** -/
theorem prune_edges (bl : List Block) (i : Nat) (hi : i < bl.length) :
    ((blkL (prune bl) i).reach = false → ∀ s ∈ (blkL (prune bl) i).succs, (blkL bl s).reach = false) ∧
    (∀ s ∈ (blkL (prune bl) i).dsuccs, (blkL bl s).reach = false) := by
  rw [blkL_prune bl i hi]
  constructor
  · intro h s hs
    simp only at h
    simp only [h, Bool.false_eq_true, if_false, List.mem_filter] at hs
    simpa using hs.2
  · intro s hs
    simp only [List.mem_filter] at hs
    simpa using hs.2

/-! ### transfer of executions to a CFG that agrees on the blocks visited -/

theorem stepB_core {env : Env} {B B' : Block} (h : B'.core = B.core) (c : Config) :
    stepB env B' c = stepB env B c := by
  simp only [stepB, core_stmts h, core_succs h, core_pred h]

theorem stepB_target {env : Env} {B : Block} {c c' : Config} (h : stepB env B c = some c') :
    c'.b = c.b ∨ c'.b ∈ B.succs := by
  simp only [stepB] at h
  split at h
  · rename_i st _
    simp only [Option.some.injEq] at h; subst h
    left
    cases st <;> simp only [execB] <;> first | rfl | (split <;> rfl)
  · split at h
    · rename_i t ht
      simp only [Option.some.injEq] at h; subst h
      right; rw [ht]; simp
    · rename_i f t ht
      split at h
      · simp only [Option.some.injEq] at h; subst h
        right; rw [ht]; simp only
        split <;> simp
      · cases h
    · cases h

theorem step_transfer {env : Env} {bl bl' : List Block} {c c' : Config} (R : Nat → Prop)
    (hlen : bl.length = bl'.length)
    (hcore : ∀ b, R b → (blkL bl' b).core = (blkL bl b).core)
    (hclosed : ∀ b, R b → ∀ s ∈ (blkL bl b).succs, R s)
    (hR : R c.b) (hs : step env bl c = some c') : step env bl' c = some c' ∧ R c'.b := by
  have hc := hcore c.b hR
  simp only [step] at hs ⊢
  by_cases hb : c.b < bl.length
  · rw [blkL_some hb] at hs
    rw [blkL_some (hlen ▸ hb)]
    simp only at hs ⊢
    rw [stepB_core hc]
    refine ⟨hs, ?_⟩
    rcases stepB_target hs with h | h
    · rw [h]; exact hR
    · exact hclosed c.b hR _ h
  · rw [List.getElem?_eq_none (Nat.le_of_not_lt hb)] at hs; cases hs

theorem steps_transfer {env : Env} {bl bl' : List Block} {c c' : Config} (R : Nat → Prop)
    (hlen : bl.length = bl'.length)
    (hcore : ∀ b, R b → (blkL bl' b).core = (blkL bl b).core)
    (hclosed : ∀ b, R b → ∀ s ∈ (blkL bl b).succs, R s)
    (hR : R c.b) (hs : Steps env bl c c') : Steps env bl' c c' ∧ R c'.b := by
  induction hs with
  | refl _ => exact ⟨.refl _, hR⟩
  | head h _ ih =>
    obtain ⟨h1, h2⟩ := step_transfer R hlen hcore hclosed hR h
    obtain ⟨h3, h4⟩ := ih h2
    exact ⟨.head h1 h3, h4⟩

theorem run_of_steps {env : Env} {bl : List Block} {c c' : Config} (hs : Steps env bl c c')
    (hh : step env bl c' = none) : ∃ n, run env bl n c = some c' := by
  induction hs with
  | refl _ => exact ⟨1, by simp [run, hh]⟩
  | head h _ ih =>
    obtain ⟨n, hn⟩ := ih hh
    exact ⟨n + 1, by simp [run, h, hn]⟩

/-! ### end to end -/

theorem core_default : ({} : Block).core = ([], none, []) := rfl

theorem halt_of_core {env : Env} {bl : List Block} {b : Nat} (h : (blkL bl b).core = ([], none, []))
    (s : S) (rv : Option Val) : step env bl ⟨b, 0, s, rv⟩ = none := by
  simp only [step]
  cases hb : bl[b]? with
  | none => rfl
  | some B =>
    have : blkL bl b = B := by simp [blkL, hb]
    rw [this] at h
    have h1 : B.stmts = [] := congrArg (·.1) h
    have h2 : B.succs = [] := congrArg (·.2.2) h
    simp [stepB, h1, h2]

/-- core of a block after setting reachability flags and pruning, when the block is flagged reachable -/
theorem core_prune_reach (bl : List Block) (b : Nat) (hr : (blkL bl b).reach = true) :
    (blkL (prune bl) b).core = (blkL bl b).core := by
  by_cases hb : b < bl.length
  · rw [blkL_prune bl b hb]; simp [Block.core, hr]
  · have h1 : blkL bl b = {} := by simp [blkL, List.getElem?_eq_none (Nat.le_of_not_lt hb)]
    rw [h1] at hr; cases hr

theorem blk_setReach_state (σ : BState) (rs : List Nat) (i : Nat) :
    (({ σ with blocks := setReach rs σ.blocks } : BState).blk i).core = (σ.blk i).core ∧
    (i < σ.len → (({ σ with blocks := setReach rs σ.blocks } : BState).blk i).reach = rs.contains i) := by
  by_cases hi : i < σ.len
  · have := blkL_setReach rs σ.blocks i hi
    exact ⟨by show (blkL (setReach rs σ.blocks) i).core = _; rw [this]; rfl,
      fun _ => by show (blkL (setReach rs σ.blocks) i).reach = _; rw [this]⟩
  · refine ⟨?_, fun h => absurd h hi⟩
    have h1 : σ.blk i = {} := empty_of_ge σ (Nat.le_of_not_lt hi)
    have h2 : blkL (setReach rs σ.blocks) i = {} := by
      simp [blkL, List.getElem?_eq_none (show (setReach rs σ.blocks).length ≤ i by rw [length_setReach]; exact Nat.le_of_not_lt hi)]
    show (blkL (setReach rs σ.blocks) i).core = _
    rw [h1, h2]

/-- blocks of the state in which `build` links the final block to the exit, with and without the
    reachability flags -/
theorem core_link_setReach (σ : BState) (rs : List Nat) (fin t i : Nat) :
    ((link fin t ({ σ with blocks := setReach rs σ.blocks } : BState)).blk i).core = ((link fin t σ).blk i).core ∧
    (i < σ.len → ((link fin t ({ σ with blocks := setReach rs σ.blocks } : BState)).blk i).reach = rs.contains i) := by
  have hlen : ({ σ with blocks := setReach rs σ.blocks } : BState).len = σ.len := length_setReach rs σ.blocks
  obtain ⟨c1, c2⟩ := blk_setReach_state σ rs i
  by_cases hi : i = fin
  · subst hi
    by_cases hl : i < σ.len
    · rw [blk_link_same _ _ _ (by rw [hlen]; exact hl), blk_link_same _ _ _ hl]
      refine ⟨?_, fun _ => c2 hl⟩
      simp only [Block.core]
      rw [core_stmts c1, core_pred c1, core_succs c1]
    · refine ⟨?_, fun h => absurd h hl⟩
      rw [empty_of_ge _ (by simp only [len_link]; omega), empty_of_ge _ (by simp only [len_link]; omega)]
  · rw [blk_link_other _ _ _ _ hi, blk_link_other _ _ _ _ hi]
    exact ⟨c1, c2⟩

theorem core_upd_reach (σ : BState) (i j : Nat) :
    ((σ.upd j fun B => { B with reach := true }).blk i).core = (σ.blk i).core ∧
    ((σ.blk i).reach = true → ((σ.upd j fun B => { B with reach := true }).blk i).reach = true) ∧
    (j < σ.len → ((σ.upd j fun B => { B with reach := true }).blk j).reach = true) := by
  by_cases hij : i = j
  · subst hij
    by_cases hl : i < σ.len
    · rw [blk_upd_same _ _ _ hl]; exact ⟨rfl, fun _ => rfl, fun _ => rfl⟩
    · have e1 := empty_of_ge σ (Nat.le_of_not_lt hl)
      have e2 := empty_of_ge (σ.upd i fun B => { B with reach := true }) (i := i) (by simp only [len_upd]; omega)
      rw [e1, e2]; exact ⟨rfl, fun h => h, fun h => absurd h hl⟩
  · rw [blk_upd_other _ _ _ _ hij]
    refine ⟨rfl, fun h => h, fun hl => ?_⟩
    rw [blk_upd_same _ _ _ hl]

theorem buildCfg_correct {env : Env} {p : Stmt} {rn : Bool} {g : Cfg} {st0 : Store} {o : Outcome} {st' : S}
    (hu : userS p = true) (hsc : loopScoped p false = true)
    (hb : buildCfg rn p = .ok g) (hex : Exec env p (st0, []) o st') :
    ∃ (n : Nat) (c : Config), run env g.blocks n ⟨0, 0, (st0, []), none⟩ = some c ∧ c.b = 1 ∧
      c.s.2 = st'.2 ∧ agreeU c.s.1 st'.1 ∧
      ((∃ v, o = .ret v ∧ c.ret = some v) ∨ (o = .normal ∧ c.ret = none ∧ rn = true)) := by
  have h02 : (0 : Nat) < initState.len := by decide
  have ho0 : (initState.blk 0).succs = [] := by decide
  have gr := build_good p 0 0 ⟨1, none, none⟩ initState h02 ho0
  have hJ : JOk ⟨1, none, none⟩ false := fun h => by cases h
  have hexit : ((build p 0 (some 0) ⟨1, none, none⟩ initState).1.blk 1).core = ([], none, []) := by
    rw [gr.touch.frame 1 (by decide) (by decide)]; rfl
  have hlen2 : 2 ≤ (build p 0 (some 0) ⟨1, none, none⟩ initState).1.len := gr.touch.len
  have semf : ∀ bl, Ext (build p 0 (some 0) ⟨1, none, none⟩ initState).1 bl →
      PostS env bl ⟨1, none, none⟩ (build p 0 (some 0) ⟨1, none, none⟩ initState) o ⟨0, 0, (st0, []), none⟩ 0 st' :=
    fun bl hx => ((sem_stmt hex).1 0 0 ⟨1, none, none⟩ initState bl false (st0, []) none hu hsc hJ h02 ho0
      hx (agreeU.refl _) rfl).1
  simp only [buildCfg] at hb
  generalize build p 0 (some 0) ⟨1, none, none⟩ initState = r at *
  split at hb
  · cases hb
  split at hb
  · cases hb
  cases hreach : reachable r.1.blocks with
  | none => rw [hreach] at hb; cases hb
  | some rs =>
    rw [hreach] at hb
    obtain ⟨h0, hcl⟩ := reachable_spec hreach
    simp only at hb
    cases hr2 : r.2 with
    | none =>
      rw [hr2] at hb
      simp only [Except.ok.injEq] at hb
      subst hb
      obtain ⟨stc, q1, q2, _, q3⟩ := semf _ (Ext.refl _)
      cases o with
      | normal => obtain ⟨b', e1, _⟩ := q3; rw [hr2] at e1; cases e1
      | brk => obtain ⟨t, e1, _⟩ := q3; cases e1
      | cont => obtain ⟨t, e1, _⟩ := q3; cases e1
      | ret v =>
        have hcore : ∀ b, b ∈ rs → (blkL (prune (setReach rs r.1.blocks)) b).core = (blkL r.1.blocks b).core := by
          intro b hbr
          by_cases hbl : b < r.1.len
          · rw [core_prune_reach _ _ (by rw [blkL_setReach _ _ _ hbl]; exact List.contains_iff_mem.mpr hbr),
              blkL_setReach _ _ _ hbl]; rfl
          · have e1 : blkL r.1.blocks b = {} := empty_of_ge _ (Nat.le_of_not_lt hbl)
            have e2 : blkL (prune (setReach rs r.1.blocks)) b = {} := by
              simp [blkL, List.getElem?_eq_none (show (prune (setReach rs r.1.blocks)).length ≤ b by
                rw [length_prune, length_setReach]; exact Nat.le_of_not_lt hbl)]
            rw [e1, e2]
        obtain ⟨t1, t2⟩ := steps_transfer (fun b => b ∈ rs) (by rw [length_prune, length_setReach]) hcore hcl h0 q3
        have hh := halt_of_core (env := env) (by rw [hcore 1 t2]; exact hexit) stc (some v)
        obtain ⟨n, hn⟩ := run_of_steps t1 hh
        exact ⟨n, _, hn, rfl, q2, q1, Or.inl ⟨v, rfl, rfl⟩⟩
    | some fin =>
      rw [hr2] at hb
      simp only at hb
      obtain ⟨f1, f2, f3⟩ := gr.cur fin hr2
      have hi2 : initState.len = 2 := rfl
      have hfin1 : fin ≠ 1 := by rcases f1 with h | h <;> omega
      have hxl : Ext r.1 (link fin 1 r.1).blocks := (touch_link fin 1 r.1).ext f3
      obtain ⟨stc, q1, q2, _, q3⟩ := semf _ hxl
      have hgo : ∀ (s : S) (rv : Option Val), step env (link fin 1 r.1).blocks ⟨fin, (r.1.blk fin).stmts.length, s, rv⟩ =
          some ⟨1, 0, s, rv⟩ := fun s rv => step_linked f2 f3 (Ext.refl _) s rv
      have hexit' : ((link fin 1 r.1).blk 1).core = ([], none, []) := by
        rw [blk_link_other _ _ _ _ (Ne.symm hfin1)]; exact hexit
      have hsfin : ((link fin 1 r.1).blk fin).succs = [1] := by rw [blk_link_same _ _ _ f2, f3]; rfl
      have hsoth : ∀ b, b ≠ fin → ((link fin 1 r.1).blk b).succs = (r.1.blk b).succs :=
        fun b hb => by rw [blk_link_other _ _ _ _ hb]
      -- the run in the unpruned CFG, ending at the exit
      have hrun : ∃ rvf, Steps env (link fin 1 r.1).blocks ⟨0, 0, (st0, []), none⟩ ⟨1, 0, stc, rvf⟩ ∧
          ((∃ v, o = .ret v ∧ rvf = some v) ∨ (o = .normal ∧ rvf = none ∧
            Steps env (link fin 1 r.1).blocks ⟨0, 0, (st0, []), none⟩ ⟨fin, (r.1.blk fin).stmts.length, stc, none⟩)) := by
        cases o with
        | normal =>
          obtain ⟨b', e1, e2⟩ := q3
          rw [hr2] at e1; cases e1
          exact ⟨none, e2.trans (Steps.single (hgo stc none)), Or.inr ⟨rfl, rfl, e2⟩⟩
        | brk => obtain ⟨t, e1, _⟩ := q3; cases e1
        | cont => obtain ⟨t, e1, _⟩ := q3; cases e1
        | ret v => exact ⟨some v, q3, Or.inl ⟨v, rfl, rfl⟩⟩
      obtain ⟨rvf, hst, hout⟩ := hrun
      have hlenM : (link fin 1 ({ r.1 with blocks := setReach rs r.1.blocks } : BState)).len = r.1.len := by
        simp only [len_link]; exact length_setReach rs r.1.blocks
      cases hc : rs.contains fin with
      | true =>
        rw [hc] at hb
        simp only [if_true] at hb
        cases hrn : rn with
        | false => rw [hrn] at hb; cases hb
        | true =>
          rw [hrn] at hb
          simp only [if_true, Except.ok.injEq] at hb
          subst hb
          have hfr : fin ∈ rs := List.contains_iff_mem.mp hc
          have hclosed : ∀ b, (b ∈ rs ∨ b = 1) → ∀ s ∈ ((link fin 1 r.1).blk b).succs, (s ∈ rs ∨ s = 1) := by
            intro b hb s hs
            by_cases hbf : b = fin
            · subst hbf; rw [hsfin] at hs; right; simpa using hs
            · rw [hsoth b hbf] at hs
              rcases hb with hb | rfl
              · exact Or.inl (hcl b hb s hs)
              · rw [show (r.1.blk 1).succs = [] from congrArg (·.2.2) hexit] at hs; cases hs
          have hcore : ∀ b, (b ∈ rs ∨ b = 1) →
              (blkL (prune (((link fin 1 ({ r.1 with blocks := setReach rs r.1.blocks } : BState)).upd 1
                fun B => { B with reach := true }).blocks)) b).core = ((link fin 1 r.1).blk b).core := by
            intro b hb
            obtain ⟨u1, u2, u3⟩ := core_upd_reach (link fin 1 ({ r.1 with blocks := setReach rs r.1.blocks } : BState)) b 1
            obtain ⟨l1, l2⟩ := core_link_setReach r.1 rs fin 1 b
            by_cases hbl : b < r.1.len
            · have hr : ((((link fin 1 ({ r.1 with blocks := setReach rs r.1.blocks } : BState)).upd 1
                  fun B => { B with reach := true })).blk b).reach = true := by
                rcases hb with hb | rfl
                · exact u2 (by rw [l2 hbl]; exact List.contains_iff_mem.mpr hb)
                · exact u3 (by rw [hlenM]; exact hbl)
              rw [core_prune_reach _ _ hr]
              exact u1.trans l1
            · have e1 : (link fin 1 r.1).blk b = {} := empty_of_ge _ (by simp; omega)
              have e2 : blkL (prune (((link fin 1 ({ r.1 with blocks := setReach rs r.1.blocks } : BState)).upd 1
                  fun B => { B with reach := true }).blocks)) b = {} := by
                simp [blkL, List.getElem?_eq_none (show (prune (((link fin 1 ({ r.1 with blocks := setReach rs r.1.blocks } : BState)).upd 1
                  fun B => { B with reach := true }).blocks)).length ≤ b by
                    rw [length_prune]
                    have : ((link fin 1 ({ r.1 with blocks := setReach rs r.1.blocks } : BState)).upd 1
                      fun B => { B with reach := true }).len = r.1.len := by rw [len_upd, hlenM]
                    show ((link fin 1 ({ r.1 with blocks := setReach rs r.1.blocks } : BState)).upd 1
                      fun B => { B with reach := true }).len ≤ b
                    omega)]
              rw [e1, e2]
          have hlen : (link fin 1 r.1).blocks.length = (prune (((link fin 1 ({ r.1 with blocks := setReach rs r.1.blocks } : BState)).upd 1
              fun B => { B with reach := true }).blocks)).length := by
            rw [length_prune]
            show (link fin 1 r.1).len = ((link fin 1 ({ r.1 with blocks := setReach rs r.1.blocks } : BState)).upd 1
              fun B => { B with reach := true }).len
            rw [len_upd, hlenM, len_link]
          obtain ⟨t1, t2⟩ := steps_transfer (fun b => b ∈ rs ∨ b = 1) hlen hcore hclosed (Or.inl h0) hst
          have hh := halt_of_core (env := env) (by rw [hcore 1 (Or.inr rfl)]; exact hexit') stc rvf
          obtain ⟨n, hn⟩ := run_of_steps t1 hh
          refine ⟨n, _, hn, rfl, q2, q1, ?_⟩
          rcases hout with ⟨v, e1, e2⟩ | ⟨e1, e2, _⟩
          · exact Or.inl ⟨v, e1, e2⟩
          · exact Or.inr ⟨e1, e2, rfl⟩
      | false =>
        rw [hc] at hb
        simp only [Bool.false_eq_true, if_false, Except.ok.injEq] at hb
        subst hb
        have hfr : fin ∉ rs := fun h => by rw [List.contains_iff_mem.mpr h] at hc; cases hc
        have hclosed : ∀ b, b ∈ rs → ∀ s ∈ ((link fin 1 r.1).blk b).succs, s ∈ rs := by
          intro b hb s hs
          have hbf : b ≠ fin := fun h => hfr (h ▸ hb)
          rw [hsoth b hbf] at hs
          exact hcl b hb s hs
        have hcore : ∀ b, b ∈ rs →
            (blkL (prune (link fin 1 ({ r.1 with blocks := setReach rs r.1.blocks } : BState)).blocks) b).core =
              ((link fin 1 r.1).blk b).core := by
          intro b hb
          obtain ⟨l1, l2⟩ := core_link_setReach r.1 rs fin 1 b
          by_cases hbl : b < r.1.len
          · rw [core_prune_reach _ _ (by
              show ((link fin 1 ({ r.1 with blocks := setReach rs r.1.blocks } : BState)).blk b).reach = true
              rw [l2 hbl]; exact List.contains_iff_mem.mpr hb)]
            exact l1
          · have e1 : (link fin 1 r.1).blk b = {} := empty_of_ge _ (by simp; omega)
            have e2 : blkL (prune (link fin 1 ({ r.1 with blocks := setReach rs r.1.blocks } : BState)).blocks) b = {} := by
              simp [blkL, List.getElem?_eq_none (show (prune (link fin 1 ({ r.1 with blocks := setReach rs r.1.blocks } : BState)).blocks).length ≤ b by
                rw [length_prune]
                show (link fin 1 ({ r.1 with blocks := setReach rs r.1.blocks } : BState)).len ≤ b
                rw [hlenM]; omega)]
            rw [e1, e2]
        have hlen : (link fin 1 r.1).blocks.length =
            (prune (link fin 1 ({ r.1 with blocks := setReach rs r.1.blocks } : BState)).blocks).length := by
          rw [length_prune]
          show (link fin 1 r.1).len = (link fin 1 ({ r.1 with blocks := setReach rs r.1.blocks } : BState)).len
          rw [hlenM, len_link]
        rcases hout with ⟨v, e1, e2⟩ | ⟨_, _, e3⟩
        · obtain ⟨t1, t2⟩ := steps_transfer (fun b => b ∈ rs) hlen hcore hclosed h0 hst
          have hh := halt_of_core (env := env) (by rw [hcore 1 t2]; exact hexit') stc rvf
          obtain ⟨n, hn⟩ := run_of_steps t1 hh
          exact ⟨n, _, hn, rfl, q2, q1, Or.inl ⟨v, e1, e2⟩⟩
        · -- falling off the end means the final block is reachable: contradiction
          exact absurd (steps_transfer (fun b => b ∈ rs) hlen hcore hclosed h0 e3).2 hfr

end GuppyVerif.Builder
