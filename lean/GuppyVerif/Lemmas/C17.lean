import GuppyVerif.Spec.C17
/-! Helper lemmas for C17. -/
namespace GuppyVerif.IntLit
open GuppyVerif.IntSem

theorem boundsOk_signed (v : Int) : boundsOk v true = true ↔ InIntRange v := by
  simp [boundsOk, INT_WIDTH, InIntRange]

theorem boundsOk_unsigned (v : Int) : boundsOk v false = true ↔ InNatRange v := by
  simp [boundsOk, INT_WIDTH, InNatRange]

theorem valueType_nat_hint (v : Int) :
    valueType v true = (if 0 ≤ v then (if InNatRange v then some Kind.nat else none)
                        else (if InIntRange v then some Kind.int else none)) := by
  unfold valueType
  by_cases h : 0 ≤ v
  · by_cases hb : InNatRange v
    · simp [h, hb, (boundsOk_unsigned v).mpr hb]
    · have : boundsOk v false = false := by
        cases hh : boundsOk v false
        · rfl
        · exact absurd ((boundsOk_unsigned v).mp hh) hb
      simp [h, hb, this]
  · by_cases hb : InIntRange v
    · simp [h, hb, (boundsOk_signed v).mpr hb]
    · have : boundsOk v true = false := by
        cases hh : boundsOk v true
        · rfl
        · exact absurd ((boundsOk_signed v).mp hh) hb
      simp [h, hb, this]

theorem valueType_no_hint (v : Int) :
    valueType v false = (if InIntRange v then some Kind.int else none) := by
  unfold valueType
  by_cases hb : InIntRange v
  · simp [hb, (boundsOk_signed v).mpr hb]
  · have : boundsOk v true = false := by
      cases hh : boundsOk v true
      · rfl
      · exact absurd ((boundsOk_signed v).mp hh) hb
    simp [hb, this]

/-! realise the unfolding lemmas here so that they are not counted among the property theorems -/
theorem unf1 : True := by have := @checkComptimeTuple.eq_def; trivial
theorem unf2 : True := by have := @listType.eq_def; trivial
theorem unf3 : True := by have := @evalFolded.eq_def; trivial
theorem unf4 : True := by have := @AllAccept.eq_def; trivial

end GuppyVerif.IntLit
