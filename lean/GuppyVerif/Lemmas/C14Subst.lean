import GuppyVerif.Model.CopyDrop
/-! Substitution lemma for the flag computation: evaluating the definition's field types under the
    environment of argument flags equals evaluating the instantiated field types (what Python does). -/
namespace GuppyVerif.CopyDrop
open GuppyVerif

theorem flagEnvArgs_length (D : List OpaqueDef) (u : Bool) (s : Sel) (ρ : List Bool) :
    ∀ as : List Arg, (flagEnvArgs D u s ρ as).length = as.length
  | [] => by simp [flagEnvArgs]
  | .ty t :: r => by simp [flagEnvArgs, flagEnvArgs_length D u s ρ r]
  | .const c :: r => by simp [flagEnvArgs, flagEnvArgs_length D u s ρ r]

theorem flagEnvArgs_get_ty (D : List OpaqueDef) (u : Bool) (s : Sel) (ρ : List Bool) :
    ∀ (as : List Arg) (i : Nat) (t : Ty), as[i]? = some (.ty t) →
      (flagEnvArgs D u s ρ as)[i]? = some (flagG D u s ρ t)
  | [], i, t, h => by simp at h
  | .ty t0 :: r, 0, t, h => by
      simp at h; subst h; simp [flagEnvArgs]
  | .ty t0 :: r, i + 1, t, h => by
      simp at h; simp [flagEnvArgs, flagEnvArgs_get_ty D u s ρ r i t h]
  | .const c :: r, 0, t, h => by simp at h
  | .const c :: r, i + 1, t, h => by
      simp at h; simp [flagEnvArgs, flagEnvArgs_get_ty D u s ρ r i t h]

/-- lookup in `flagEnvArgs σ ++ ρ` -/
theorem lookup_append_lt {α} (a b : List α) (i : Nat) (h : i < a.length) : (a ++ b)[i]? = a[i]? := by
  simp [List.getElem?_append_left h]

theorem lookup_append_ge {α} (a b : List α) (i : Nat) (h : ¬ i < a.length) :
    (a ++ b)[i]? = b[i - a.length]? := by
  simp [List.getElem?_append_right (Nat.le_of_not_lt h)]

theorem instVar_some {σ : List Arg} {n : String} {i : Nat} {c d : Bool} {t' : Ty}
    (h : instVar σ n i c d = some t') :
    (i < σ.length ∧ σ[i]? = some (.ty t')) ∨ (¬ i < σ.length ∧ t' = .bvar n (i - σ.length) c d) := by
  unfold instVar at h
  split at h
  · rename_i hlt
    left
    refine ⟨hlt, ?_⟩
    split at h
    · rename_i t heq; simp at h; subst h; exact heq
    · simp at h
  · rename_i hge
    right
    simp at h
    exact ⟨hge, h.symm⟩

mutual
theorem flagG_subst (D : List OpaqueDef) (u : Bool) (s : Sel) :
    ∀ (t : Ty) (σ : List Arg) (ρ : List Bool) (t' : Ty), Ty.inst σ t = some t' →
      flagG D u s ρ t' = flagG D u s (flagEnvArgs D u s ρ σ ++ ρ) t
  | .num k, σ, ρ, t', h => by simp [Ty.inst] at h; subst h; simp [flagG]
  | .none p, σ, ρ, t', h => by simp [Ty.inst] at h; subst h; simp [flagG]
  | .evar n i c d, σ, ρ, t', h => by simp [Ty.inst] at h; subst h; simp [flagG]
  | .bvar n i c d, σ, ρ, t', h => by
      simp only [Ty.inst] at h
      rcases instVar_some h with ⟨hlt, hs⟩ | ⟨hge, rfl⟩
      · have hl : i < (flagEnvArgs D u s ρ σ).length := by rw [flagEnvArgs_length]; exact hlt
        simp only [flagG, lookup_append_lt _ _ _ hl, flagEnvArgs_get_ty D u s ρ σ i t' hs]
      · have hl : ¬ i < (flagEnvArgs D u s ρ σ).length := by rw [flagEnvArgs_length]; exact hge
        simp only [flagG, lookup_append_ge _ _ _ hl, flagEnvArgs_length]
  | .tuple ts p, σ, ρ, t', h => by
      simp only [Ty.inst, Option.bind_eq_bind] at h
      cases hts : Ty.instList σ ts with
      | none => simp [hts] at h
      | some ts' =>
        simp [hts] at h; subst h
        simp only [flagG]
        exact flagGList_subst D u s ts σ ρ ts' hts
  | .func ins o ps cs, σ, ρ, t', h => by
      simp only [Ty.inst] at h
      split at h
      · cases h1 : FuncIn.instList σ ins <;> cases h2 : Ty.inst σ o <;> cases h3 : Const.instList σ cs <;>
          simp [h1, h2, h3] at h
        subst h; simp [flagG]
      · simp at h
  | .opaque n as, σ, ρ, t', h => by
      simp only [Ty.inst, Option.bind_eq_bind] at h
      cases has : Arg.instList σ as with
      | none => simp [has] at h
      | some as' =>
        simp [has] at h; subst h
        simp only [flagG]
        rw [(flagGArgs_subst D u s as σ ρ as' has).1]
  | .struct n as fs, σ, ρ, t', h => by
      simp only [Ty.inst, Option.bind_eq_bind] at h
      cases has : Arg.instList σ as with
      | none => simp [has] at h
      | some as' =>
        simp [has] at h; subst h
        simp only [flagG]
        rw [(flagGArgs_subst D u s as σ ρ as' has).1, (flagGArgs_subst D u s as σ ρ as' has).2]
theorem flagGList_subst (D : List OpaqueDef) (u : Bool) (s : Sel) :
    ∀ (ts : List Ty) (σ : List Arg) (ρ : List Bool) (ts' : List Ty), Ty.instList σ ts = some ts' →
      flagGList D u s ρ ts' = flagGList D u s (flagEnvArgs D u s ρ σ ++ ρ) ts
  | [], σ, ρ, ts', h => by simp [Ty.instList] at h; subst h; simp [flagGList]
  | t :: r, σ, ρ, ts', h => by
      simp only [Ty.instList, Option.bind_eq_bind] at h
      cases h1 : Ty.inst σ t <;> cases h2 : Ty.instList σ r <;> simp [h1, h2] at h
      subst h
      simp only [flagGList]
      rw [flagG_subst D u s t σ ρ _ h1, flagGList_subst D u s r σ ρ _ h2]
theorem flagGArgs_subst (D : List OpaqueDef) (u : Bool) (s : Sel) :
    ∀ (as : List Arg) (σ : List Arg) (ρ : List Bool) (as' : List Arg), Arg.instList σ as = some as' →
      flagGArgs D u s ρ as' = flagGArgs D u s (flagEnvArgs D u s ρ σ ++ ρ) as ∧
      flagEnvArgs D u s ρ as' = flagEnvArgs D u s (flagEnvArgs D u s ρ σ ++ ρ) as
  | [], σ, ρ, as', h => by simp [Arg.instList] at h; subst h; simp [flagGArgs, flagEnvArgs]
  | .ty t :: r, σ, ρ, as', h => by
      simp only [Arg.instList, Arg.inst, Option.bind_eq_bind] at h
      cases h1 : Ty.inst σ t <;> cases h2 : Arg.instList σ r <;> simp [h1, h2] at h
      subst h
      simp only [flagGArgs, flagEnvArgs]
      rw [flagG_subst D u s t σ ρ _ h1, (flagGArgs_subst D u s r σ ρ _ h2).1,
        (flagGArgs_subst D u s r σ ρ _ h2).2]
      exact ⟨rfl, rfl⟩
  | .const c :: r, σ, ρ, as', h => by
      simp only [Arg.instList, Arg.inst, Option.bind_eq_bind] at h
      cases h1 : Const.inst σ c <;> cases h2 : Arg.instList σ r <;> simp [h1, h2] at h
      subst h
      simp only [flagGArgs, flagEnvArgs]
      rw [(flagGArgs_subst D u s r σ ρ _ h2).1, (flagGArgs_subst D u s r σ ρ _ h2).2]
      exact ⟨rfl, rfl⟩
end

end GuppyVerif.CopyDrop
