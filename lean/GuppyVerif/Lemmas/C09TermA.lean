import GuppyVerif.Lemmas.C09Term
/-! Termination of the assignment worklist (forward analysis with cache) under every
    scheduler.  The cached definite sets only shrink; cached maybe sets only grow for variables
    not maybe-assigned before the entry and only shrink for the others. -/
namespace GuppyVerif.Dataflow

def assUniv (g : Cfg) (P : AParams) : List Var := allVars g P ++ P.entryMaybe

def assPairs (g : Cfg) (P : AParams) : List (Blk × Var) :=
  g.blocks.flatMap fun b => (assUniv g P).map fun x => (b, x)

def pendD (aftD : Blk → List Var) (p : Blk × Var) : Bool := (aftD p.1).contains p.2
def pendM (P : AParams) (aftM : Blk → List Var) (p : Blk × Var) : Bool :=
  if P.entryMaybe.contains p.2 then (aftM p.1).contains p.2 else !(aftM p.1).contains p.2

def assPot (g : Cfg) (P : AParams) (s : ASt) : Nat :=
  ((assPairs g P).countP (pendD s.aftD) + (assPairs g P).countP (pendM P s.aftM)) * (g.blocks.length + 1) +
    g.blocks.countP (fun b => s.queue.contains b)

structure ATInv (g : Cfg) (P : AParams) (s : ASt) : Prop where
  qsub : ∀ c ∈ s.queue, c ∈ g.blocks
  univD : ∀ b ∈ g.blocks, ∀ x, x ∈ s.aftD b → x ∈ assUniv g P
  univM : ∀ b ∈ g.blocks, ∀ x, x ∈ s.aftM b → x ∈ assUniv g P
  decD : ∀ b ∈ g.blocks, ∀ x, x ∈ jD g P s.aftD b ++ g.assigned b → x ∈ s.aftD b
  incM : ∀ b ∈ g.blocks, ∀ x, x ∉ P.entryMaybe → x ∈ s.aftM b → x ∈ jM g P s.aftM b ++ g.assigned b
  decM : ∀ b ∈ g.blocks, ∀ x, x ∈ P.entryMaybe → x ∈ jM g P s.aftM b ++ g.assigned b → x ∈ s.aftM b

theorem allVars_sub_univ {g : Cfg} {P : AParams} {x : Var} (h : x ∈ allVars g P) : x ∈ assUniv g P :=
  List.mem_append_left _ h

theorem jD_mono_var {g : Cfg} {P : AParams} {v w : Blk → List Var} {x : Var}
    (h : ∀ c, x ∈ v c → x ∈ w c) {b : Blk} (hx : x ∈ jD g P v b) : x ∈ jD g P w b := by
  rw [mem_jD] at hx ⊢
  rcases hx with h1 | ⟨hp, hall⟩
  · exact Or.inl h1
  · exact Or.inr ⟨hp, fun p hpe => h p (hall p hpe)⟩

theorem jM_mono_var {g : Cfg} {P : AParams} {v w : Blk → List Var} {x : Var}
    (h : ∀ c, x ∈ v c → x ∈ w c) {b : Blk} (hx : x ∈ jM g P v b) : x ∈ jM g P w b := by
  rw [mem_jM] at hx ⊢
  rcases hx with h1 | ⟨p, hpe, hp⟩
  · exact Or.inl h1
  · exact Or.inr ⟨p, hpe, h p hp⟩

theorem app_mono {a a' c : List Var} {x : Var} (h : x ∈ a → x ∈ a') (hx : x ∈ a ++ c) : x ∈ a' ++ c := by
  rw [List.mem_append] at hx ⊢; exact hx.imp h id

theorem atinv_init (g : Cfg) (hg : g.WF) (P : AParams) : ATInv g P (assInit g P) := by
  refine ⟨fun c hc => hc, ?_, ?_, ?_, ?_, ?_⟩
  · intro b hb x hx
    simp only [assInit, List.mem_append] at hx
    rcases hx with h | h
    · exact allVars_sub_univ h
    · exact allVars_sub_univ (assigned_sub_allVars hb h)
  · intro b hb x hx
    simp only [assInit, List.mem_append] at hx
    rcases hx with h | h
    · exact List.mem_append_right _ h
    · exact allVars_sub_univ (assigned_sub_allVars hb h)
  · intro b hb x hx
    simp only [assInit]
    rw [List.mem_append] at hx ⊢
    rcases hx with h | h
    · left
      rw [mem_jD] at h
      rcases h with ⟨_, he⟩ | ⟨hp, hall⟩
      · exact List.mem_append_right _ he
      · obtain ⟨p, hp'⟩ := List.exists_mem_of_ne_nil _ hp
        have hpe : PEdge g p b := hp'
        have := hall p hpe
        simp only [assInit, List.mem_append] at this
        rcases this with h1 | h1
        · exact h1
        · exact assigned_sub_allVars (hg.pclosed b hb p hpe) h1
    · exact Or.inr h
  · intro b _ x hn hx
    simp only [assInit, List.mem_append] at hx
    rcases hx with h | h
    · exact absurd h hn
    · exact List.mem_append_right _ h
  · intro b _ x hx _
    simp only [assInit]
    exact List.mem_append_left _ hx

theorem atinv_step (g : Cfg) (hg : g.WF) (P : AParams) (s : ASt) (b : Blk) (hbq : b ∈ s.queue)
    (hi : ATInv g P s) : ATInv g P (assStep g P s b) := by
  have hb : b ∈ g.blocks := hi.qsub b hbq
  unfold assStep
  simp only [assJoin_eq]
  by_cases e : (sameSet (jD g P s.aftD b ++ g.assigned b) (s.aftD b) &&
      sameSet (jM g P s.aftM b ++ g.assigned b) (s.aftM b)) = true
  · simp only [e, ↓reduceIte]
    exact ⟨fun c hc => hi.qsub c (mem_filter_ne.mp hc).1, hi.univD, hi.univM, hi.decD, hi.incM, hi.decM⟩
  · simp only [e, Bool.false_eq_true, ↓reduceIte]
    have dD : ∀ x c, x ∈ upd s.aftD b (jD g P s.aftD b ++ g.assigned b) c → x ∈ s.aftD c := by
      intro x c hc
      by_cases hcb : c = b
      · subst hcb; simp only [upd, ↓reduceIte] at hc; exact hi.decD _ hb x hc
      · simpa [upd, hcb] using hc
    have uM : ∀ x, x ∉ P.entryMaybe → ∀ c, x ∈ s.aftM c →
        x ∈ upd s.aftM b (jM g P s.aftM b ++ g.assigned b) c := by
      intro x hx c hc
      by_cases hcb : c = b
      · subst hcb; simp only [upd, ↓reduceIte]; exact hi.incM _ hb x hx hc
      · simpa [upd, hcb] using hc
    have dM : ∀ x, x ∈ P.entryMaybe → ∀ c, x ∈ upd s.aftM b (jM g P s.aftM b ++ g.assigned b) c →
        x ∈ s.aftM c := by
      intro x hx c hc
      by_cases hcb : c = b
      · subst hcb; simp only [upd, ↓reduceIte] at hc; exact hi.decM _ hb x hx hc
      · simpa [upd, hcb] using hc
    refine ⟨?_, ?_, ?_, ?_, ?_, ?_⟩
    · intro c hc
      rw [List.mem_append] at hc
      rcases hc with hc | hc
      · exact hi.qsub c (mem_filter_ne.mp hc).1
      · exact hg.closed b hb c hc
    · intro c hc x hx; exact hi.univD c hc x (dD x c hx)
    · intro c hc x hx
      by_cases hcb : c = b
      · subst hcb
        simp only [upd, ↓reduceIte, List.mem_append] at hx
        rcases hx with h | h
        · rw [mem_jM] at h
          rcases h with ⟨_, he⟩ | ⟨p, hpe, hp⟩
          · exact List.mem_append_right _ he
          · exact hi.univM p (hg.pclosed _ hc p hpe) x hp
        · exact allVars_sub_univ (assigned_sub_allVars hc h)
      · simp only [upd, hcb, ↓reduceIte] at hx; exact hi.univM c hc x hx
    · intro c hc x hx
      have hx' : x ∈ jD g P s.aftD c ++ g.assigned c := app_mono (jD_mono_var (dD x)) hx
      by_cases hcb : c = b
      · subst hcb; simp only [upd, ↓reduceIte]; exact hx'
      · simp only [upd, hcb, ↓reduceIte]; exact hi.decD c hc x hx'
    · intro c hc x hn hx
      apply app_mono (jM_mono_var (uM x hn))
      by_cases hcb : c = b
      · subst hcb; simp only [upd, ↓reduceIte] at hx; exact hx
      · simp only [upd, hcb, ↓reduceIte] at hx; exact hi.incM c hc x hn hx
    · intro c hc x hx hf
      have hf' : x ∈ jM g P s.aftM c ++ g.assigned c := app_mono (jM_mono_var (dM x hx)) hf
      by_cases hcb : c = b
      · subst hcb; simp only [upd, ↓reduceIte]; exact hf'
      · simp only [upd, hcb, ↓reduceIte]; exact hi.decM c hc x hx hf'

theorem mem_assPairs {g : Cfg} {P : AParams} {b : Blk} {x : Var} (hb : b ∈ g.blocks)
    (hx : x ∈ assUniv g P) : (b, x) ∈ assPairs g P :=
  List.mem_flatMap.mpr ⟨b, hb, List.mem_map.mpr ⟨x, hx, rfl⟩⟩

theorem assPot_step (g : Cfg) (hg : g.WF) (P : AParams) (s : ASt) (b : Blk) (hbq : b ∈ s.queue)
    (hi : ATInv g P s) : assPot g P (assStep g P s b) < assPot g P s := by
  have hb : b ∈ g.blocks := hi.qsub b hbq
  unfold assPot assStep
  simp only [assJoin_eq]
  by_cases e : (sameSet (jD g P s.aftD b ++ g.assigned b) (s.aftD b) &&
      sameSet (jM g P s.aftM b ++ g.assigned b) (s.aftM b)) = true
  · simp only [e, ↓reduceIte]
    have : g.blocks.countP (fun c => (s.queue.filter (· != b)).contains c) <
        g.blocks.countP (fun c => s.queue.contains c) := by
      apply countP_lt_of_imp
      · intro c _ hc
        simp only [List.contains_iff_mem] at hc ⊢
        exact (mem_filter_ne.mp hc).1
      · refine ⟨b, hb, by simpa using hbq, ?_⟩
        simp [List.mem_filter]
    omega
  · simp only [e, Bool.false_eq_true, ↓reduceIte]
    -- monotonicity of both counters
    have hD : ∀ a ∈ assPairs g P, pendD (upd s.aftD b (jD g P s.aftD b ++ g.assigned b)) a = true →
        pendD s.aftD a = true := by
      rintro ⟨c, x⟩ _ hp
      unfold pendD at hp ⊢
      simp only [List.contains_iff_mem] at hp ⊢
      by_cases hcb : c = b
      · subst hcb; simp only [upd, ↓reduceIte] at hp; exact hi.decD _ hb x hp
      · simpa [upd, hcb] using hp
    have hM : ∀ a ∈ assPairs g P, pendM P (upd s.aftM b (jM g P s.aftM b ++ g.assigned b)) a = true →
        pendM P s.aftM a = true := by
      rintro ⟨c, x⟩ _ hp
      unfold pendM at hp ⊢
      simp only at hp ⊢
      by_cases hx : x ∈ P.entryMaybe
      · have hc : P.entryMaybe.contains x = true := by simpa using hx
        simp only [hc, ↓reduceIte, List.contains_iff_mem] at hp ⊢
        by_cases hcb : c = b
        · subst hcb; simp only [upd, ↓reduceIte] at hp; exact hi.decM _ hb x hx hp
        · simpa [upd, hcb] using hp
      · have hc : P.entryMaybe.contains x = false := by simpa using hx
        simp only [hc, Bool.false_eq_true, ↓reduceIte, Bool.not_eq_true', List.contains_eq_mem,
          decide_eq_false_iff_not] at hp ⊢
        by_cases hcb : c = b
        · subst hcb; simp only [upd, ↓reduceIte] at hp
          exact fun h => hp (hi.incM _ hb x hx h)
        · simpa [upd, hcb] using hp
    have hleD := List.countP_mono_left hD
    have hleM := List.countP_mono_left hM
    -- one of them is strict
    have hstrict : (assPairs g P).countP (pendD (upd s.aftD b (jD g P s.aftD b ++ g.assigned b))) +
        (assPairs g P).countP (pendM P (upd s.aftM b (jM g P s.aftM b ++ g.assigned b))) <
        (assPairs g P).countP (pendD s.aftD) + (assPairs g P).countP (pendM P s.aftM) := by
      rw [Bool.and_eq_true] at e
      have e : ¬ sameSet (jD g P s.aftD b ++ g.assigned b) (s.aftD b) = true ∨
          ¬ sameSet (jM g P s.aftM b ++ g.assigned b) (s.aftM b) = true := by
        by_cases h1 : sameSet (jD g P s.aftD b ++ g.assigned b) (s.aftD b) = true
        · exact Or.inr fun h2 => e ⟨h1, h2⟩
        · exact Or.inl h1
      rcases e with e | e
      · have hne : ¬ SetEq (jD g P s.aftD b ++ g.assigned b) (s.aftD b) :=
          fun h => e ((sameSet_iff _ _).mpr h)
        obtain ⟨x, hx⟩ := Classical.not_forall.mp hne
        have h1 : x ∈ s.aftD b := Classical.not_not.mp fun h1 =>
          hx ⟨fun h => absurd (hi.decD b hb x h) h1, fun h => absurd h h1⟩
        have h2 : x ∉ jD g P s.aftD b ++ g.assigned b := fun h2 => hx ⟨fun _ => h1, fun _ => h2⟩
        have : (assPairs g P).countP (pendD (upd s.aftD b (jD g P s.aftD b ++ g.assigned b))) <
            (assPairs g P).countP (pendD s.aftD) := by
          apply countP_lt_of_imp _ _ _ hD
          refine ⟨(b, x), mem_assPairs hb (hi.univD b hb x h1), ?_, ?_⟩
          · simpa [pendD] using h1
          · simpa [pendD, upd] using h2
        omega
      · have hne : ¬ SetEq (jM g P s.aftM b ++ g.assigned b) (s.aftM b) :=
          fun h => e ((sameSet_iff _ _).mpr h)
        obtain ⟨x, hx⟩ := Classical.not_forall.mp hne
        have : (assPairs g P).countP (pendM P (upd s.aftM b (jM g P s.aftM b ++ g.assigned b))) <
            (assPairs g P).countP (pendM P s.aftM) := by
          apply countP_lt_of_imp _ _ _ hM
          by_cases hxm : x ∈ P.entryMaybe
          · have hc : P.entryMaybe.contains x = true := by simpa using hxm
            have h1 : x ∈ s.aftM b := Classical.not_not.mp fun h1 =>
              hx ⟨fun h => absurd (hi.decM b hb x hxm h) h1, fun h => absurd h h1⟩
            have h2 : x ∉ jM g P s.aftM b ++ g.assigned b := fun h2 => hx ⟨fun _ => h1, fun _ => h2⟩
            refine ⟨(b, x), mem_assPairs hb (List.mem_append_right _ hxm), ?_, ?_⟩
            · simpa [pendM, hxm] using h1
            · simpa [pendM, hxm, upd] using h2
          · have hc : P.entryMaybe.contains x = false := by simpa using hxm
            have h1 : x ∉ s.aftM b := fun h1 => hx ⟨fun _ => h1, fun _ => hi.incM b hb x hxm h1⟩
            have h2 : x ∈ jM g P s.aftM b ++ g.assigned b := Classical.not_not.mp fun h2 =>
              hx ⟨fun h => absurd h h2, fun h => absurd h h1⟩
            have hxu : x ∈ assUniv g P := by
              rw [List.mem_append] at h2
              rcases h2 with h | h
              · rw [mem_jM] at h
                rcases h with ⟨_, he⟩ | ⟨p, hpe, hp⟩
                · exact List.mem_append_right _ he
                · exact hi.univM p (hg.pclosed _ hb p hpe) x hp
              · exact allVars_sub_univ (assigned_sub_allVars hb h)
            refine ⟨(b, x), mem_assPairs hb hxu, ?_, ?_⟩
            · simpa [pendM, hxm] using h1
            · simp only [pendM, upd, ↓reduceIte, hc, Bool.false_eq_true, Bool.not_eq_false',
                List.contains_iff_mem]; exact h2
        omega
    have hq := countP_queue_le g (s.queue.filter (· != b) ++ (g.succ b ++ g.dsucc b))
    generalize (assPairs g P).countP (pendD (upd s.aftD b (jD g P s.aftD b ++ g.assigned b))) +
        (assPairs g P).countP (pendM P (upd s.aftM b (jM g P s.aftM b ++ g.assigned b))) = A at hstrict ⊢
    generalize (assPairs g P).countP (pendD s.aftD) + (assPairs g P).countP (pendM P s.aftM) = B at hstrict ⊢
    have : A + 1 ≤ B := hstrict
    calc _ ≤ A * (g.blocks.length + 1) + g.blocks.length := by omega
      _ < (A + 1) * (g.blocks.length + 1) := by rw [Nat.add_mul]; omega
      _ ≤ B * (g.blocks.length + 1) := Nat.mul_le_mul_right _ this
      _ ≤ _ := Nat.le_add_right _ _

theorem assRun_isSome (g : Cfg) (hg : g.WF) (P : AParams) (sched : List Blk → Blk) :
    ∀ (fuel : Nat) (s : ASt), ATInv g P s → assPot g P s ≤ fuel →
      (assRun g P sched fuel s).isSome = true := by
  intro fuel
  induction fuel with
  | zero =>
    intro s hi hp
    unfold assRun
    cases hq : s.queue with
    | nil => simp
    | cons c q =>
      exfalso
      have hc : c ∈ s.queue := by rw [hq]; exact List.mem_cons_self
      have hcb := hi.qsub c hc
      have : 0 < g.blocks.countP (fun b => s.queue.contains b) :=
        List.countP_pos_iff.mpr ⟨c, hcb, by simpa using hc⟩
      unfold assPot at hp; omega
  | succ n ih =>
    intro s hi hp
    unfold assRun
    cases hq : s.queue with
    | nil => simp
    | cons c q =>
      simp only
      have hmem : (if (c :: q).contains (sched (c :: q)) = true then sched (c :: q) else c) ∈ s.queue := by
        rw [hq]
        split
        · rename_i h; simpa using h
        · exact List.mem_cons_self
      apply ih _ (atinv_step g hg P s _ hmem hi)
      have := assPot_step g hg P s _ hmem hi
      omega

end GuppyVerif.Dataflow
