import GuppyVerif.Lemmas.C01Store
/-! `getitem` in an arbitrary `Good` state (cached struct/tuple wires allowed): returns the
    reference value and leaves a `Good` state for the moved-out reference value. -/
namespace GuppyVerif.DFWiring

theorem moveds_get : ∀ (ts : List Ty) (ps : List PVal) (k : Nat) (tk : Ty) (pk' : PVal),
    ts[k]? = some tk → (moveds ts ps)[k]? = some pk' → ∃ pk, ps[k]? = some pk ∧ pk' = moved tk pk
  | [], _, _, _, _, h, _ => by simp at h
  | _ :: _, [], _, _, _, _, h => by simp [moveds] at h
  | t :: ts, q :: qs, 0, tk, pk', h1, h2 => by
    simp only [List.getElem?_cons_zero, Option.some.injEq, moveds] at h1 h2
    subst h1; exact ⟨q, by simp, h2.symm⟩
  | t :: ts, q :: qs, k + 1, tk, pk', h1, h2 => by
    simp only [List.getElem?_cons_succ, moveds] at h1 h2
    simpa using moveds_get ts qs k tk pk' h1 h2

theorem linear_leaf_not_copyable {c d : Bool} (h : (Ty.leaf c d).linear = true) : c = false := by
  cases c <;> simp [Ty.linear, Ty.copyable] at h ⊢

def GoodGetPost (L : Locals) (n : Nat) (p : PlaceId) (env : Env) (t : Ty) (pv : PVal) (v : Val)
    (r : Except Err (Wire × Locals × Nat × List Op)) : Prop :=
  ∃ w' L2 n2 ops, r = .ok (w', L2, n2, ops) ∧ n ≤ n2 ∧ w'.node < n2 ∧ L2 p = some w' ∧
    (∀ q, ¬ p <:+ q → L2 q = L q) ∧
    ∃ env2, evalOps env ops = some env2 ∧ env2 w' = some v ∧
      (∀ x : Wire, x.node < n → env2 x = env x) ∧ Good n2 L2 env2 p t (moved t pv)

def GoodGetListPost (L : Locals) (n : Nat) (p : PlaceId) (i : Nat) (env : Env) (ts : List Ty)
    (ps : List PVal) (vs : List Val) (r : Except Err (List Wire × Locals × Nat × List Op)) : Prop :=
  ∃ ws L2 n2 ops, r = .ok (ws, L2, n2, ops) ∧ n ≤ n2 ∧ (∀ w ∈ ws, w.node < n2) ∧
    (∀ j t, i ≤ j → ts[j - i]? = some t → (L2 (j :: p)).isSome) ∧
    (∀ q, (∀ j, i ≤ j → ¬ (j :: p) <:+ q) → L2 q = L q) ∧
    ∃ env2, evalOps env ops = some env2 ∧ env2.all ws = some vs ∧
      (∀ x : Wire, x.node < n → env2 x = env x) ∧ GoodList n2 L2 env2 p i ts (moveds ts ps)

theorem totals_cons {q : PVal} {qs : List PVal} {vs : List Val}
    (h : PVal.totals (q :: qs) = some vs) :
    ∃ v vs', vs = v :: vs' ∧ q.total = some v ∧ PVal.totals qs = some vs' := by
  simp only [PVal.totals] at h
  cases h1 : q.total with
  | none => simp [h1] at h
  | some v =>
    cases h2 : PVal.totals qs with
    | none => simp [h1, h2] at h
    | some vs' => exact ⟨v, vs', by simpa [h1, h2] using h.symm, rfl, rfl⟩

mutual
theorem getitem_good : ∀ (t : Ty) (L : Locals) (n : Nat) (p : PlaceId) (env : Env) (pv : PVal)
    (v : Val), Good n L env p t pv → pv.total = some v →
    GoodGetPost L n p env t pv v (getitem L n p t)
  | .leaf c d, L, n, p, env, .val v', v, h, hv => by
    simp only [PVal.total, Option.some.injEq] at hv
    subst hv
    have hg := h
    simp only [Good] at h
    obtain ⟨w, h1, h2, h3⟩ := h
    simp only [getitem, h1]
    exact ⟨w, L, n, [], rfl, Nat.le_refl n, h2, h1, fun _ _ => rfl, env, rfl, h3, fun _ _ => rfl,
      Good.moved _ p _ hg⟩
  | .leaf _ _, _, _, _, _, .hole, _, _, hv => by simp [PVal.total] at hv
  | .leaf _ _, _, _, _, _, .tup _, _, h, _ => by simp [Good] at h
  | .node k cs, L, n, p, env, .tup ps, v, h, hv => by
    have hg := h
    simp only [Good] at h
    obtain ⟨hcache, hl⟩ := h
    cases hLp : L p with
    | some w =>
      obtain ⟨hw1, hw2⟩ := hcache w v hLp hv
      simp only [getitem, hLp]
      exact ⟨w, L, n, [], rfl, Nat.le_refl n, hw1, hLp, fun _ _ => rfl, env, rfl, hw2,
        fun _ _ => rfl, Good.moved _ p _ hg⟩
    | none =>
      have hv' := hv
      simp only [PVal.total] at hv'
      cases hts : PVal.totals ps with
      | none => simp [hts] at hv'
      | some vs =>
        have hveq : v = .tup vs := by simpa [hts] using hv'.symm
        obtain ⟨ws, L1, n1, ops1, e1, a1, a2, a3, a4, env1, a5, a6, a7, a8⟩ :=
          getitemList_good cs L n p 0 env ps vs hl hts
        obtain ⟨L2, b1, b2, b3⟩ := popLinear_spec cs L1 p 0 a3
        simp only [getitem, hLp, e1, b1]
        refine ⟨⟨n1, 0⟩, L2.set p ⟨n1, 0⟩, n1 + 1, ops1 ++ [.make n1 ws], rfl, by omega, by simp,
          by simp, ?_, (env1.set ⟨n1, 0⟩ (.tup vs)), ?_, by simp [hveq], ?_, ?_⟩
        · intro q hq
          have hne : q ≠ p := by intro e; subst e; exact hq (List.suffix_refl _)
          simp only [Locals.set_apply, hne, ↓reduceIte]
          rw [b3 q (fun j _ _ _ _ e => hq (by rw [e]; exact List.suffix_cons _ _)),
            a4 q (fun j _ hj => hq (under_child_trans hj))]
        · simp only [evalOps_append, a5, evalOps, evalOp, a6]
        · intro x hx
          have : x ≠ ⟨n1, 0⟩ := by intro e; subst e; simp at hx; omega
          simp only [Env.set_apply, this, ↓reduceIte]
          exact a7 x hx
        · have henv : ∀ x : Wire, x.node < n1 → (env1.set ⟨n1, 0⟩ (.tup vs)) x = env1 x := by
            intro x hx
            have : x ≠ ⟨n1, 0⟩ := by intro e; subst e; simp at hx
            simp [this]
          simp only [moved, Good]
          refine ⟨?_, ?_⟩
          · intro w v' hw hv''
            simp only [Locals.set_apply, ↓reduceIte, Option.some.injEq] at hw
            subst hw
            have := total_moved (.node k cs) (.tup ps) v' (by simpa [moved] using hv'')
            rw [hv] at this
            simp only [Option.some.injEq] at this
            subst this
            exact ⟨by simp, by simp [hveq]⟩
          · apply GoodList.map cs 0 (moveds cs ps) _ a8
            intro j tj pj' _ htj hpj' hgood
            simp only [Nat.sub_zero] at htj hpj'
            apply Good.transport (Nat.le_succ n1) henv tj (j :: p) pj' _ _ hgood
            · intro q hq hne
              have hlen : ∀ j', q ≠ j' :: p := by
                intro j' e
                obtain ⟨a, ha⟩ := hq
                subst e
                have := congrArg List.length ha
                simp only [List.length_append, List.length_cons] at this
                have ha0 : a = [] := List.eq_nil_of_length_eq_zero (by omega)
                subst ha0
                simp only [List.nil_append, List.cons.injEq, and_true] at ha
                subst ha
                exact hne rfl
              have hqp : q ≠ p := under_child_ne hq
              simp only [Locals.set_apply, hqp, ↓reduceIte]
              exact b3 q (fun j' _ _ _ _ => hlen j')
            · have hjp : j :: p ≠ p := under_child_ne (List.suffix_refl _)
              simp only [Locals.set_apply, hjp, ↓reduceIte]
              by_cases hlin : tj.linear = true
              · right
                refine ⟨b2 j tj (Nat.zero_le j) (by simpa using htj) hlin, fun hleaf => ?_⟩
                obtain ⟨pj, _, hpj⟩ := moveds_get cs ps j tj pj' htj hpj'
                cases tj with
                | leaf c d =>
                  have := linear_leaf_not_copyable hlin
                  subst this
                  simp [hpj, moved]
                | node k' cs' => simp [Ty.isLeaf] at hleaf
              · left
                apply b3
                intro j' t' _ hj' hlin' e
                simp only [List.cons.injEq, and_true] at e
                subst e
                simp only [Nat.sub_zero] at hj'
                rw [htj] at hj'
                simp only [Option.some.injEq] at hj'
                subst hj'
                exact hlin hlin'
  | .node _ _, _, _, _, _, .hole, _, h, _ => by simp [Good] at h
  | .node _ _, _, _, _, _, .val _, _, h, _ => by simp [Good] at h
theorem getitemList_good : ∀ (ts : List Ty) (L : Locals) (n : Nat) (p : PlaceId) (i : Nat)
    (env : Env) (ps : List PVal) (vs : List Val), GoodList n L env p i ts ps →
    PVal.totals ps = some vs → GoodGetListPost L n p i env ts ps vs (getitemList L n p i ts)
  | [], L, n, p, i, env, [], vs, _, hts => by
    simp only [PVal.totals, Option.some.injEq] at hts
    subst hts
    simp only [getitemList]
    exact ⟨[], L, n, [], rfl, Nat.le_refl n, by simp, by simp, fun _ _ => rfl, env, rfl, rfl,
      fun _ _ => rfl, by simp [GoodList, moveds]⟩
  | t :: ts, L, n, p, i, env, q :: qs, vs, h, hts => by
    simp only [GoodList] at h
    obtain ⟨v, vs', hvs, hq, hqs⟩ := totals_cons hts
    subst hvs
    obtain ⟨w1, L1, n1, o1, e1, a1, a2, a3, a4, env1, a5, a6, a7, a8⟩ :=
      getitem_good t L n (i :: p) env q v h.1 hq
    have hrest : GoodList n1 L1 env1 p (i + 1) ts qs :=
      GoodList.transport a1 a7 ts p (i + 1) qs (fun j x hj hx => a4 x (fun hx' => by
        have := under_child_inj hx hx'; omega)) h.2
    obtain ⟨ws, L2, n2, o2, e2, b1, b2, b3, b4, env2, b5, b6, b7, b8⟩ :=
      getitemList_good ts L1 n1 p (i + 1) env1 qs vs' hrest hqs
    simp only [getitemList, e1, e2]
    refine ⟨w1 :: ws, L2, n2, o1 ++ o2, rfl, by omega, ?_, ?_, ?_, env2, ?_, ?_, ?_, ?_⟩
    · intro w hw
      simp only [List.mem_cons] at hw
      rcases hw with hw | hw
      · subst hw; omega
      · exact b2 w hw
    · intro j t' hj ht'
      by_cases hji : j = i
      · subst hji
        rw [b4 (j :: p) (fun j' hj' hs => by have := child_suffix_child hs; omega), a3]
        rfl
      · exact b3 j t' (by omega) (by rw [← getElem?_shift t ts (by omega)]; exact ht')
    · intro x hx
      rw [b4 x (fun j hj => hx j (by omega)), a4 x (hx i (Nat.le_refl i))]
    · simp only [evalOps_append, a5]; exact b5
    · simp only [Env.all, b7 w1 a2, a6, b6]
    · intro x hx
      rw [b7 x (by omega), a7 x hx]
    · simp only [moveds, GoodList]
      refine ⟨?_, b8⟩
      have hfr : ∀ x, (i :: p) <:+ x → L2 x = L1 x := fun x hx =>
        b4 x (fun j' hj' hx' => by have := under_child_inj hx hx'; omega)
      exact Good.transport b1 b7 t (i :: p) _ (fun x hx _ => hfr x hx)
        (Or.inl (hfr _ (List.suffix_refl _))) a8
  | [], _, _, _, _, _, _ :: _, _, h, _ => by simp [GoodList] at h
  | _ :: _, _, _, _, _, _, [], _, h, _ => by simp [GoodList] at h
end

end GuppyVerif.DFWiring
