import GuppyVerif.Lemmas.C14Inv
/-! A "logical relation" lemma: any relation `R cp dr h` between the two flags of a Guppy type and its
    HUGR type that is closed under the type constructors holds for every type (structural induction over
    all nested types, with the struct-parameter environment generalised). -/
namespace GuppyVerif.CopyDrop
open GuppyVerif

structure Closed (D : List OpaqueDef) (u : Bool) (R : Bool → Bool → HTy → Prop) : Prop where
  num : ∀ k, R true true (numT k)
  var : ∀ i c d, R c d (.var i (flagB c))
  func : ∀ is os, R true true (.func is os)
  nil : R true true (tupleOf [])
  cons : ∀ {c d h cs ds hs}, R c d h → R cs ds (tupleOf hs) → R (c && cs) (d && ds) (tupleOf (h :: hs))
  structArgs : ∀ {c d hs} (ca da : Bool), R c d (tupleOf hs) →
      R (c && (!u || ca)) (d && (!u || da)) (tupleOf hs)
  static : ∀ {d h}, d ∈ D → d.shape = .static h → R (!d.neverCopyable) (!d.neverDroppable) h
  listOpt : ∀ {d e r c dd h} (lin : Bool), d ∈ D → d.shape = .listOpt e r → R c dd h →
      R (!d.neverCopyable && c) (!d.neverDroppable && dd) (.ext e r [.ty (if lin then optionOf h else h)])
  array : ∀ {d e r c dd h} (a : HArg), d ∈ D → d.shape = .array e r → R c dd h →
      R (!d.neverCopyable && c) (!d.neverDroppable && dd) (.ext e r [a, .ty h])
  staticArray : ∀ {d e r c dd h}, d ∈ D → d.shape = .staticArray e r → R c dd h →
      typeBound h = .copyable → R (!d.neverCopyable && c) (!d.neverDroppable && dd) (.ext e r [.ty h])
  underlying : ∀ {d c dd h}, d ∈ D → d.shape = .underlying → R c dd h →
      R (!d.neverCopyable && c) (!d.neverDroppable && dd) h
  option : ∀ {d c dd h}, d ∈ D → d.shape = .option → R c dd h →
      R (!d.neverCopyable && c) (!d.neverDroppable && dd) (optionOf h)
  either : ∀ {d cl dl ls cr dr rs}, d ∈ D → d.shape = .either → R cl dl (tupleOf ls) →
      R cr dr (tupleOf rs) →
      R (!d.neverCopyable && (cl && cr)) (!d.neverDroppable && (dl && dr)) (.sum [.mk ls, .mk rs])
  ext1 : ∀ {d e r c dd h}, d ∈ D → d.shape = .ext1 e r → R c dd h →
      R (!d.neverCopyable && c) (!d.neverDroppable && dd) (.ext e r [.ty h])

/-- the environment entries are related to the parallel lists of flags -/
inductive EnvRel (R : Bool → Bool → HTy → Prop) : List EnvE → List Bool → List Bool → Prop
  | nil : EnvRel R [] [] []
  | ty {c0 d0 : Bool} {h : Option HTy} {row : Option (List HTy)} {c d : Bool} {ρ : List EnvE}
      {κc κd : List Bool} :
      (∀ h', h = some h' → R c d h') → (∀ r, row = some r → R c d (tupleOf r)) →
      EnvRel R ρ κc κd → EnvRel R (.ty c0 d0 h row :: ρ) (c :: κc) (d :: κd)
  | const {a : Option HArg} {ρ : List EnvE} {κc κd : List Bool} :
      EnvRel R ρ κc κd → EnvRel R (.const a :: ρ) (true :: κc) (true :: κd)

theorem EnvRel.lookup {R : Bool → Bool → HTy → Prop} {ρ : List EnvE} {κc κd : List Bool}
    (he : EnvRel R ρ κc κd) : ∀ i : Nat,
    match ρ[i]? with
    | none => κc[i]? = none ∧ κd[i]? = none
    | some (.const _) => True
    | some (.ty _ _ h row) => ∃ c d, κc[i]? = some c ∧ κd[i]? = some d ∧
        (∀ h', h = some h' → R c d h') ∧ (∀ r, row = some r → R c d (tupleOf r)) := by
  induction he with
  | nil => intro i; simp
  | ty h1 h2 _ ih =>
    intro i
    cases i with
    | zero => simp; exact ⟨h1, h2⟩
    | succ j => simpa using ih j
  | const _ ih =>
    intro i
    cases i with
    | zero => simp
    | succ j => simpa using ih j

variable {D : List OpaqueDef} {u : Bool} {R : Bool → Bool → HTy → Prop}

abbrev Goal (D : List OpaqueDef) (u : Bool) (R : Bool → Bool → HTy → Prop) (ρ : List EnvE)
    (κc κd : List Bool) (t : Ty) : Prop :=
  (∀ h, toHugrE D ρ t = some h → R (flagG D u .copy κc t) (flagG D u .drop κd t) h) ∧
  (∀ r, toRowE D ρ t = some r → R (flagG D u .copy κc t) (flagG D u .drop κd t) (tupleOf r))

theorem single_row (hC : Closed D u R) {c d : Bool} {h : HTy} (hr : R c d h) : R c d (tupleOf [h]) := by
  have := hC.cons hr hC.nil
  simpa using this

theorem goal_row (hC : Closed D u R) {ρ : List EnvE} {c d : Bool} (t : Ty)
    (hnb : ∀ n i c d, t ≠ .bvar n i c d)
    (h1 : ∀ h, toHugrE D ρ t = some h → R c d h) :
    ∀ r, toRowE D ρ t = some r → R c d (tupleOf r) := by
  intro r hr
  obtain ⟨h, hh, hc⟩ := toRowE_cases hnb hr
  rcases hc with rfl | rfl
  · exact h1 _ hh
  · exact single_row hC (h1 _ hh)

mutual
theorem rel_ty (hC : Closed D u R) :
    ∀ (t : Ty) (ρ : List EnvE) (κc κd : List Bool), EnvRel R ρ κc κd → Goal D u R ρ κc κd t
  | .num k, ρ, κc, κd, _ => by
      have h1 : ∀ h, toHugrE D ρ (.num k) = some h →
          R (flagG D u .copy κc (.num k)) (flagG D u .drop κd (.num k)) h := by
        intro h hh; simp [toHugrE] at hh; subst hh; simp only [flagG]; exact hC.num k
      exact ⟨h1, goal_row hC _ (by intro n i c d hc; cases hc) h1⟩
  | .none p, ρ, κc, κd, _ => by
      have h1 : ∀ h, toHugrE D ρ (.none p) = some h →
          R (flagG D u .copy κc (.none p)) (flagG D u .drop κd (.none p)) h := by
        intro h hh; simp [toHugrE] at hh; subst hh; simp only [flagG]; exact hC.nil
      exact ⟨h1, goal_row hC _ (by intro n i c d hc; cases hc) h1⟩
  | .evar n i c d, ρ, κc, κd, _ => by
      have h1 : ∀ h, toHugrE D ρ (.evar n i c d) = some h →
          R (flagG D u .copy κc (.evar n i c d)) (flagG D u .drop κd (.evar n i c d)) h := by
        intro h hh; simp [toHugrE] at hh
      exact ⟨h1, goal_row hC _ (by intro n i c d hc; cases hc) h1⟩
  | .bvar n i c d, ρ, κc, κd, he => by
      have hl := he.lookup i
      constructor
      · intro h hh
        simp only [toHugrE, varH] at hh
        simp only [flagG]
        cases hρ : ρ[i]? with
        | none =>
          rw [hρ] at hl hh
          simp at hh; subst hh
          simp only [hl.1, hl.2, selFlag]
          exact hC.var _ c d
        | some e =>
          cases e with
          | const a => rw [hρ] at hh; simp at hh
          | ty c0 d0 ho row =>
            rw [hρ] at hl hh
            obtain ⟨c', d', hc, hd, hr1, _⟩ := hl
            simp only [hc, hd]
            exact hr1 h hh
      · intro r hr
        simp only [toRowE, rowOf, varRow] at hr
        simp only [flagG]
        cases hρ : ρ[i]? with
        | none =>
          rw [hρ] at hl hr
          simp at hr; subst hr
          simp only [hl.1, hl.2, selFlag]
          exact single_row hC (hC.var _ c d)
        | some e =>
          cases e with
          | const a => rw [hρ] at hr; simp at hr
          | ty c0 d0 ho row =>
            rw [hρ] at hl hr
            obtain ⟨c', d', hc, hd, _, hr2⟩ := hl
            simp only [hc, hd]
            exact hr2 r hr
  | .tuple ts p, ρ, κc, κd, he => by
      have h1 : ∀ h, toHugrE D ρ (.tuple ts p) = some h →
          R (flagG D u .copy κc (.tuple ts p)) (flagG D u .drop κd (.tuple ts p)) h := by
        intro h hh
        simp [toHugrE, Option.bind_eq_some_iff] at hh
        obtain ⟨hs, hhs, rfl⟩ := hh
        simp only [flagG]
        exact rel_list hC ts ρ κc κd he hs hhs
      exact ⟨h1, goal_row hC _ (by intro n i c d hc; cases hc) h1⟩
  | .func ins o ps cs, ρ, κc, κd, _ => by
      have h1 : ∀ h, toHugrE D ρ (.func ins o ps cs) = some h →
          R (flagG D u .copy κc (.func ins o ps cs)) (flagG D u .drop κd (.func ins o ps cs)) h := by
        intro h hh
        simp only [toHugrE] at hh
        split at hh
        · simp [Option.bind_eq_some_iff] at hh
          obtain ⟨is, _, os, _, bs, _, rfl⟩ := hh
          simp only [flagG]
          exact hC.func _ _
        · simp at hh
      exact ⟨h1, goal_row hC _ (by intro n i c d hc; cases hc) h1⟩
  | .struct n as fs, ρ, κc, κd, he => by
      have h1 : ∀ h, toHugrE D ρ (.struct n as fs) = some h →
          R (flagG D u .copy κc (.struct n as fs)) (flagG D u .drop κd (.struct n as fs)) h := by
        intro h hh
        simp [toHugrE, Option.bind_eq_some_iff] at hh
        obtain ⟨hs, hhs, rfl⟩ := hh
        simp only [flagG]
        have he' := rel_env hC as ρ κc κd he
        exact hC.structArgs _ _ (rel_list hC fs _ _ _ he' hs hhs)
      exact ⟨h1, goal_row hC _ (by intro n i c d hc; cases hc) h1⟩
  | .opaque n as, ρ, κc, κd, he => by
      have hargs := rel_args hC as ρ κc κd he
      have h1 : ∀ h, toHugrE D ρ (.opaque n as) = some h →
          R (flagG D u .copy κc (.opaque n as)) (flagG D u .drop κd (.opaque n as)) h := by
        intro h hh
        obtain ⟨d, hl⟩ := inv_lookup hh
        have hd := lookup_mem hl
        have hint : ∀ s, intrinsic D s n = !d.never s := by intro s; simp [intrinsic, hl]
        simp only [flagG, hint, OpaqueDef.never]
        cases hs : d.shape with
        | static h0 =>
          obtain ⟨rfl, rfl⟩ := inv_static hl hs hh
          simp only [flagGArgs, Bool.and_true]
          exact hC.static hd hs
        | listOpt e r =>
          obtain ⟨t, ht, lin, rfl, hht, rfl⟩ := inv_listOpt hl hs hh
          simp only [flagGArgs, Bool.and_true]
          exact hC.listOpt lin hd hs ((hargs t (by simp)).1 ht hht)
        | array e r =>
          obtain ⟨t, c, ht, a, rfl, hht, rfl⟩ := inv_array hl hs hh
          simp only [flagGArgs, Bool.and_true]
          exact hC.array a hd hs ((hargs t (by simp)).1 ht hht)
        | staticArray e r =>
          obtain ⟨t, c, ht, rfl, hht, hb, rfl⟩ := inv_staticArray hl hs hh
          simp only [flagGArgs, Bool.and_true]
          exact hC.staticArray hd hs ((hargs t (by simp)).1 ht hht) hb
        | underlying =>
          obtain ⟨t, c, rfl, hht⟩ := inv_underlying hl hs hh
          simp only [flagGArgs, Bool.and_true]
          exact hC.underlying hd hs ((hargs t (by simp)).1 h hht)
        | option =>
          obtain ⟨t, ht, rfl, hht, rfl⟩ := inv_option hl hs hh
          simp only [flagGArgs, Bool.and_true]
          exact hC.option hd hs ((hargs t (by simp)).1 ht hht)
        | either =>
          obtain ⟨l, r, ls, rs, rfl, hl1, hr1, rfl⟩ := inv_either hl hs hh
          simp only [flagGArgs, Bool.and_true]
          exact hC.either hd hs ((hargs l (by simp)).2 ls hl1) ((hargs r (by simp)).2 rs hr1)
        | ext1 e r =>
          obtain ⟨t, ht, rfl, hht, rfl⟩ := inv_ext1 hl hs hh
          simp only [flagGArgs, Bool.and_true]
          exact hC.ext1 hd hs ((hargs t (by simp)).1 ht hht)
        | unknown => exact (inv_unknown hl hs hh).elim
      exact ⟨h1, goal_row hC _ (by intro n i c d hc; cases hc) h1⟩
theorem rel_list (hC : Closed D u R) :
    ∀ (ts : List Ty) (ρ : List EnvE) (κc κd : List Bool), EnvRel R ρ κc κd →
      ∀ hs, toHugrEList D ρ ts = some hs →
        R (flagGList D u .copy κc ts) (flagGList D u .drop κd ts) (tupleOf hs)
  | [], ρ, κc, κd, _ => by
      intro hs hh; simp [toHugrEList] at hh; subst hh; simp only [flagGList]; exact hC.nil
  | t :: r, ρ, κc, κd, he => by
      intro hs hh
      simp [toHugrEList, Option.bind_eq_some_iff] at hh
      obtain ⟨h, hh1, hs', hh2, rfl⟩ := hh
      simp only [flagGList]
      exact hC.cons ((rel_ty hC t ρ κc κd he).1 h hh1) (rel_list hC r ρ κc κd he hs' hh2)
theorem rel_env (hC : Closed D u R) :
    ∀ (as : List Arg) (ρ : List EnvE) (κc κd : List Bool), EnvRel R ρ κc κd →
      EnvRel R (envArgs D ρ as) (flagEnvArgs D u .copy κc as) (flagEnvArgs D u .drop κd as)
  | [], ρ, κc, κd, _ => by simp only [envArgs, flagEnvArgs]; exact EnvRel.nil
  | .ty t :: r, ρ, κc, κd, he => by
      simp only [envArgs, flagEnvArgs]
      refine EnvRel.ty (fun h' hh => (rel_ty hC t ρ κc κd he).1 h' hh) ?_ (rel_env hC r ρ κc κd he)
      intro r' hr
      exact (rel_ty hC t ρ κc κd he).2 r' hr
  | .const c :: r, ρ, κc, κd, he => by
      simp only [envArgs, flagEnvArgs]
      exact EnvRel.const (rel_env hC r ρ κc κd he)
theorem rel_args (hC : Closed D u R) :
    ∀ (as : List Arg) (ρ : List EnvE) (κc κd : List Bool), EnvRel R ρ κc κd →
      ∀ t, Arg.ty t ∈ as → Goal D u R ρ κc κd t
  | [], ρ, κc, κd, _ => by intro t hm; simp at hm
  | .ty t0 :: r, ρ, κc, κd, he => by
      intro t hm
      simp at hm
      rcases hm with rfl | hm
      · exact rel_ty hC t ρ κc κd he
      · exact rel_args hC r ρ κc κd he t hm
  | .const c :: r, ρ, κc, κd, he => by
      intro t hm
      simp at hm
      exact rel_args hC r ρ κc κd he t hm
end

/-- top level: empty environment -/
theorem rel_top (hC : Closed D u R) (t : Ty) (h : HTy) (hh : toHugr D t = some h) :
    R (flagG D u .copy [] t) (flagG D u .drop [] t) h :=
  (rel_ty hC t [] [] [] EnvRel.nil).1 h hh

end GuppyVerif.CopyDrop
