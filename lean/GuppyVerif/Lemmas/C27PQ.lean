import GuppyVerif.Lemmas.C27Heap
/-! Helper lemmas for C27 (PriorityQueue), invariant level: the documented `Slots` invariant
    determines the represented entry list; heap order / minimum / multiset facts of the pure
    `pushP` / `popP`. -/
namespace GuppyVerif.Coll
variable {α : Type} {β : Type}

theorem all_some_eq_map {L : List (Option β)} (h : ∀ o ∈ L, ∃ x, o = some x) :
    L = (L.filterMap id).map some := by
  induction L with
  | nil => rfl
  | cons o L ih =>
    obtain ⟨x, rfl⟩ := h o (by simp)
    have := ih (fun o ho => h o (by simp [ho]))
    simp [List.filterMap_cons, ← this]

theorem all_none_eq_replicate {L : List (Option β)} (h : ∀ o ∈ L, o = none) :
    L = List.replicate L.length none := by
  induction L with
  | nil => rfl
  | cons o L ih =>
    have h1 := h o (by simp)
    subst h1
    have := ih (fun o ho => h o (by simp [ho]))
    simp [List.replicate_succ, ← this]

/-- the documented invariant determines the representation: the buffer represents its own
    entries -/
theorem Slots.rep {cap : Nat} {buf : List (Option β)} {size : Nat} (h : Slots cap buf size) :
    Rep cap buf (entries buf) ∧ (entries buf).length = size := by
  obtain ⟨h1, h2, h3, h4⟩ := h
  have hT : ∀ o ∈ buf.take size, ∃ x, o = some x := by
    intro o ho
    obtain ⟨j, hj, rfl⟩ := List.mem_iff_getElem.mp ho
    simp at hj
    have hjs : j < size := by omega
    obtain ⟨x, hx⟩ := h3 j hjs
    refine ⟨x, ?_⟩
    have : (buf.take size)[j]? = some (some x) := by rw [List.getElem?_take]; simp [hjs, hx]
    rw [List.getElem?_eq_getElem (by simp; omega)] at this
    exact Option.some.inj this
  have hD : ∀ o ∈ buf.drop size, o = none := by
    intro o ho
    obtain ⟨j, hj, rfl⟩ := List.mem_iff_getElem.mp ho
    simp at hj
    have := h4 (size + j) (by omega) (by omega)
    have h' : (buf.drop size)[j]? = some none := by rw [List.getElem?_drop]; exact this
    rw [List.getElem?_eq_getElem (by simp; omega)] at h'
    exact Option.some.inj h'
  have e1 := all_some_eq_map hT
  have e2 := all_none_eq_replicate hD
  have hent : entries buf = (buf.take size).filterMap id := by
    conv => lhs; rw [entries, ← List.take_append_drop size buf, List.filterMap_append]
    rw [e2]; simp
  have hlen : (entries buf).length = size := by
    rw [hent]
    have := congrArg List.length e1
    simp at this
    omega
  refine ⟨⟨h1, by omega, fun j hj => ?_⟩, hlen⟩
  by_cases hjs : j < size
  · have : buf[j]? = (buf.take size)[j]? := by rw [List.getElem?_take]; simp [hjs]
    rw [this, e1, ← hent, List.getElem?_map]
    have hjl : j < (entries buf).length := by omega
    simp [List.getElem?_eq_getElem hjl]
  · rw [h4 j (by omega) hj, List.getElem?_eq_none (by omega)]

theorem heapOrdered_iff {cap : Nat} {buf : List (Option (Int × α))} {a : List (Int × α)}
    (h : Rep cap buf a) : HeapOrdered buf a.length ↔ IsHeap a := by
  obtain ⟨h1, h2, h3⟩ := h
  constructor
  · intro ho j hj0 hjl
    have hp : (j - 1) / 2 < a.length := by omega
    have := ho j hj0 hjl a[(j - 1) / 2] a[j] (by rw [h3 _ (by omega)]; simp [hp]) (by rw [h3 _ (by omega)]; simp [hjl])
    rw [pr_of_get (List.getElem?_eq_getElem hp), pr_of_get (List.getElem?_eq_getElem hjl)]
    exact this
  · intro hh j hj0 hjl x y hx hy
    have hp : (j - 1) / 2 < a.length := by omega
    rw [h3 _ (by omega)] at hx hy
    have hx' : a[(j - 1) / 2]? = some x := Option.some.inj hx
    have hy' : a[j]? = some y := Option.some.inj hy
    have := hh j hj0 hjl
    rw [pr_of_get hx', pr_of_get hy'] at this
    exact this

/-- the spec-level invariant is exactly: the buffer represents its entries and they are a heap -/
theorem inv_iff {cap : Nat} {q : PQ α} :
    PQ.Inv cap q ↔ PQRep cap q (entries q.buf) ∧ IsHeap (entries q.buf) := by
  constructor
  · rintro ⟨hs, ho⟩
    obtain ⟨hr, hl⟩ := hs.rep
    refine ⟨⟨hl.symm, hr⟩, ?_⟩
    rw [← hl] at ho
    exact (heapOrdered_iff hr).mp ho
  · rintro ⟨⟨hs, hr⟩, hh⟩
    refine ⟨?_, ?_⟩
    · rw [hs]; exact hr.slots
    · rw [hs]; exact (heapOrdered_iff hr).mpr hh

theorem PQRep.inv {cap : Nat} {q : PQ α} {a : List (Int × α)} (h : PQRep cap q a) (hh : IsHeap a) :
    PQ.Inv cap q ∧ entries q.buf = a := by
  have := h.2.entries_eq
  refine ⟨inv_iff.mpr ?_, this⟩
  rw [this]; exact ⟨h, hh⟩

/-! ### the pure operations: heap order, minimum, multiset -/

theorem pushP_heap {a : List (Int × α)} (h : IsHeap a) (v : α) (p : Int) : IsHeap (pushP a v p) :=
  siftUpP_heap _ _ _ (heapExcept_snoc h (p, v)) (by simp) (by omega)

theorem pushP_perm (a : List (Int × α)) (v : α) (p : Int) : (pushP a v p).Perm ((p, v) :: a) :=
  (siftUpP_perm _ _ _).trans (List.perm_append_singleton _ _)

theorem root_isMin {a : List (Int × α)} {r : Int × α} (h : IsHeap a) (hr : a[0]? = some r) : IsMinOf r a := by
  refine ⟨List.mem_of_getElem? hr, fun x hx => ?_⟩
  obtain ⟨j, hj, rfl⟩ := List.mem_iff_getElem.mp hx
  have := h.root_min j hj
  rw [pr_of_get hr, pr_of_get (List.getElem?_eq_getElem hj)] at this
  exact this

theorem popP_heap {a : List (Int × α)} (h : IsHeap a) : IsHeap (popP a) := by
  unfold popP
  split
  · intro j _ hj; exact absurd hj (by simp)
  · rename_i hn
    split
    · rename_i de hd
      exact (siftDownP_heap a.length a.dropLast de.1 0 de rfl (holeInv_root h.dropLast _) (by simp; omega)
        (by simp)).1
    · intro j _ hj; exact absurd hj (by simp)

theorem popP_perm {a : List (Int × α)} {r : Int × α} (hr : a[0]? = some r) : a.Perm (r :: popP a) := by
  unfold popP
  have hl : 0 < a.length := (List.getElem?_eq_some_iff.mp hr).1
  split
  · rename_i hn
    match a, hr with
    | [x], hr => simp at hr; subst hr; exact List.Perm.refl _
    | x :: y :: t, _ => simp at hn
  · rename_i hn
    have hlast : a.length - 1 < a.length := by omega
    rw [List.getElem?_eq_getElem hlast]
    simp only
    have hdl : 0 < a.dropLast.length := by simp; omega
    refine List.Perm.trans ?_ (List.Perm.cons r (siftDownP_perm a.length a.dropLast _ 0 _ hdl).symm)
    -- a ~ r :: (a.dropLast.set 0 last)
    match a, hr with
    | [x], _ => simp at hn
    | x :: y :: t, hr =>
      simp at hr; subst hr
      have e : (x :: y :: t).dropLast = x :: (y :: t).dropLast := by simp [List.dropLast]
      rw [e, List.set_cons_zero]
      have hne : y :: t ≠ [] := by simp
      have hlast' : (x :: y :: t)[(x :: y :: t).length - 1] = (y :: t).getLast hne := by
        simp [List.getLast_eq_getElem]
      rw [hlast']
      refine List.Perm.cons x ?_
      have := List.dropLast_concat_getLast hne
      exact (List.Perm.of_eq this.symm).trans (List.perm_append_singleton _ _)

theorem PQRep.next_ok {cap : Nat} {q q' : PQ α} {a : List (Int × α)} {p : Int} {v : α}
    (h : PQRep cap q a) (hl : 0 < a.length) (hp : q.pop = .ok (p, v, q')) :
    q.next = .ok (some ((p, v), q')) := by
  have : (q.len == 0) = false := by simp [PQ.len, h.1]; intro h0; simp [h0] at hl
  simp [PQ.next, this, hp, bind, Except.bind, pure, Except.pure]

theorem isMinOf_perm {e : Int × α} {l l' : List (Int × α)} (h : IsMinOf e l) (hp : l.Perm l') : IsMinOf e l' :=
  ⟨hp.mem_iff.mp h.1, fun x hx => h.2 x (hp.mem_iff.mpr hx)⟩

/-- simulation of the multiset reference model from any represented heap state -/
theorem runPQ_spec (cap : Nat) (ops : List (Op α)) :
    ∀ (q : PQ α) (a m : List (Int × α)), PQRep cap q a → IsHeap a → a.Perm m →
      SpecPQ cap m ops (runPQ cap q ops) := by
  induction ops with
  | nil => intro q a m _ _ _; exact .nil
  | cons op ops ih =>
    intro q a m hr hh hp
    have hlen := hp.length_eq
    cases op with
    | push v p =>
      by_cases hl : cap ≤ a.length
      · simp only [runPQ, hr.push_full hl v p]
        exact .pushFull (by omega)
      · obtain ⟨q', hpush, hr'⟩ := hr.push_ok (Nat.lt_of_not_le hl) v p
        simp only [runPQ, hpush]
        exact .push (by omega) (ih q' _ _ hr' (pushP_heap hh v p) ((pushP_perm a v p).trans (hp.cons _)))
    | pop =>
      match a, hr, hh, hp, hlen with
      | [], hr, _, hp, _ =>
        have : m = [] := List.Perm.eq_nil (hp.symm)
        subst this
        simp only [runPQ, hr.pop_empty.1]
        exact .popEmpty
      | r :: t, hr, hh, hp, _ =>
        obtain ⟨q', hpop, hr'⟩ := hr.pop_ok (r := r) (by simp)
        simp only [runPQ, hpop]
        exact .pop (e := r) (isMinOf_perm (root_isMin hh (by simp)) hp)
          (hp.symm.trans (popP_perm (by simp))) (ih q' _ _ hr' (popP_heap hh) (List.Perm.refl _))
    | peek =>
      match a, hr, hh, hp, hlen with
      | [], hr, _, hp, _ =>
        have : m = [] := List.Perm.eq_nil (hp.symm)
        subst this
        simp only [runPQ, hr.pop_empty.2.1]
        exact .peekEmpty
      | r :: t, hr, hh, hp, _ =>
        have hpk := hr.peek_ok (r := r) (by simp)
        simp only [runPQ, hpk]
        exact .peek (e := r) (isMinOf_perm (root_isMin hh (by simp)) hp) (ih q _ _ hr hh hp)
    | len =>
      simp only [runPQ, PQ.len, hr.1, hlen]
      exact .len (ih q _ _ hr hh hp)
    | next =>
      match a, hr, hh, hp, hlen with
      | [], hr, _, hp, _ =>
        have : m = [] := List.Perm.eq_nil (hp.symm)
        subst this
        simp only [runPQ, hr.pop_empty.2.2]
        exact .nextEmpty
      | r :: t, hr, hh, hp, _ =>
        obtain ⟨q', hpop, hr'⟩ := hr.pop_ok (r := r) (by simp)
        have hn := hr.next_ok (by simp) hpop
        simp only [runPQ, hn]
        exact .next (e := r) (isMinOf_perm (root_isMin hh (by simp)) hp)
          (hp.symm.trans (popP_perm (by simp))) (ih q' _ _ hr' (popP_heap hh) (List.Perm.refl _))

theorem iterAll_succ (f : Nat) (q : PQ α) : PQ.iterAll (f + 1) q = (do
    match ← q.next with
    | none => pure []
    | some (e, q') =>
      let l ← PQ.iterAll f q'
      pure (e :: l)) := by
  rw [PQ.iterAll]; rfl

/-! ### fuel: unconditional termination of the loops -/
section Fuel
variable {γ : Type}


theorem bind_ne_fuel {x : M β} {k : β → M γ} (hx : x ≠ .error .fuel)
    (hk : ∀ a, x = .ok a → k a ≠ .error .fuel) : (x >>= k) ≠ .error .fuel := by
  cases x with
  | error e => simp only [bind, Except.bind]; intro h; cases h; exact hx rfl
  | ok a => simpa [bind, Except.bind] using hk a rfl

theorem swap_ne_fuel (buf : List (Option β)) (i : Nat) (o : Option β) : swap buf i o ≠ .error .fuel := by
  unfold swap; split <;> simp [pure, Except.pure, throw, throwThe, MonadExceptOf.throw]

theorem takeUnwrap_ne_fuel (buf : List (Option β)) (i : Nat) : takeUnwrap buf i ≠ .error .fuel := by
  unfold takeUnwrap take
  refine bind_ne_fuel (swap_ne_fuel _ _ _) ?_
  rintro ⟨o, b⟩ _
  refine bind_ne_fuel ?_ ?_
  · cases o <;> simp [unwrap, pure, Except.pure, throw, throwThe, MonadExceptOf.throw]
  · intro a _; simp [pure, Except.pure]

theorem put_ne_fuel (buf : List (Option β)) (i : Nat) (x : β) : put buf i x ≠ .error .fuel := by
  unfold put
  refine bind_ne_fuel (swap_ne_fuel _ _ _) ?_
  rintro ⟨o, b⟩ _
  refine bind_ne_fuel ?_ ?_
  · cases o <;> simp [unwrapNothing, pure, Except.pure, throw, throwThe, MonadExceptOf.throw]
  · intro a _; simp [pure, Except.pure]

/-- **fuel suffices, unconditionally**: on ANY buffer the sift-up loop started at `i` ends (normally
    or with a genuine panic) within `i + 1` iterations. -/
theorem siftUp_ne_fuel (f : Nat) : ∀ (buf : List (Option (Int × α))) (i : Nat), i < f →
    PQ.siftUp f buf i ≠ .error .fuel := by
  induction f with
  | zero => intro _ i h; omega
  | succ f ih =>
    intro buf i hf
    unfold PQ.siftUp
    split
    · refine bind_ne_fuel (takeUnwrap_ne_fuel _ _) ?_
      rintro ⟨⟨p, v⟩, b1⟩ _
      refine bind_ne_fuel (takeUnwrap_ne_fuel _ _) ?_
      rintro ⟨⟨pp, pv⟩, b2⟩ _
      simp only
      split
      · refine bind_ne_fuel (put_ne_fuel _ _ _) ?_
        intro b3 _
        exact put_ne_fuel _ _ _
      · refine bind_ne_fuel (put_ne_fuel _ _ _) ?_
        intro b3 _
        refine bind_ne_fuel (put_ne_fuel _ _ _) ?_
        intro b4 _
        exact ih _ _ (by omega)
    · simp [pure, Except.pure]

theorem pickChild_ok {buf : List (Option (Int × α))} {n left : Nat} {c : Nat} {e : Int × α}
    {b : List (Option (Int × α))} (h : PQ.pickChild buf n left = .ok (c, e, b)) :
    (c = left ∨ c = left + 1) ∧ PQ.pickChild buf n left ≠ .error .fuel := by
  refine ⟨?_, by rw [h]; intro h; cases h⟩
  unfold PQ.pickChild at h
  simp only at h
  split at h
  · cases h1 : takeUnwrap buf left with
    | error e => simp [h1, bind, Except.bind] at h
    | ok r1 =>
      obtain ⟨⟨lp, lv⟩, b1⟩ := r1
      simp only [h1, bind, Except.bind] at h
      cases h2 : takeUnwrap b1 (left + 1) with
      | error e => simp [h2] at h
      | ok r2 =>
        obtain ⟨⟨rp, rv⟩, b2⟩ := r2
        simp only [h2] at h
        split at h
        · cases h3 : put b2 left (lp, lv) with
          | error e => simp [h3] at h
          | ok b3 => simp [h3, pure, Except.pure] at h; exact Or.inr h.1.symm
        · cases h3 : put b2 (left + 1) (rp, rv) with
          | error e => simp [h3] at h
          | ok b3 => simp [h3, pure, Except.pure] at h; exact Or.inl h.1.symm
  · cases h1 : takeUnwrap buf left with
    | error e => simp [h1, bind, Except.bind] at h
    | ok r1 =>
      obtain ⟨c', b1⟩ := r1
      simp [h1, bind, Except.bind, pure, Except.pure] at h
      exact Or.inl h.1.symm

theorem pickChild_ne_fuel (buf : List (Option (Int × α))) (n left : Nat) :
    PQ.pickChild buf n left ≠ .error .fuel := by
  unfold PQ.pickChild
  simp only
  split
  · refine bind_ne_fuel (takeUnwrap_ne_fuel _ _) ?_
    rintro ⟨⟨p, v⟩, b1⟩ _
    refine bind_ne_fuel (takeUnwrap_ne_fuel _ _) ?_
    rintro ⟨⟨pp, pv⟩, b2⟩ _
    simp only
    split
    · refine bind_ne_fuel (put_ne_fuel _ _ _) ?_
      intro b3 _; simp [pure, Except.pure]
    · refine bind_ne_fuel (put_ne_fuel _ _ _) ?_
      intro b3 _; simp [pure, Except.pure]
  · refine bind_ne_fuel (takeUnwrap_ne_fuel _ _) ?_
    rintro ⟨c, b1⟩ _; simp [pure, Except.pure]

/-- **fuel suffices, unconditionally**: on ANY buffer the sift-down loop started at hole `i` ends
    within `newSize - i + 1` iterations (the hole index strictly increases). -/
theorem siftDown_ne_fuel (f : Nat) : ∀ (buf : List (Option (Int × α))) (n : Nat) (d : Int) (i : Nat),
    n - i < f → PQ.siftDown f buf n d i ≠ .error .fuel := by
  induction f with
  | zero => intro _ n _ i h; omega
  | succ f ih =>
    intro buf n d i hf
    unfold PQ.siftDown
    simp only
    split
    · simp [pure, Except.pure]
    · rename_i hleaf
      refine bind_ne_fuel (pickChild_ne_fuel _ _ _) ?_
      rintro ⟨c, ⟨cp, cv⟩, b1⟩ hpk
      have hc := (pickChild_ok hpk).1
      simp only
      split
      · refine bind_ne_fuel (put_ne_fuel _ _ _) ?_
        intro b2 _; simp [pure, Except.pure]
      · refine bind_ne_fuel (put_ne_fuel _ _ _) ?_
        intro b2 _
        exact ih _ _ _ _ (by omega)

theorem push_ne_fuel (cap : Nat) (q : PQ α) (v : α) (p : Int) : q.push cap v p ≠ .error .fuel := by
  unfold PQ.push
  by_cases hc : q.size ≥ cap
  · simp [hc, bind, Except.bind, throw, throwThe, MonadExceptOf.throw]
  · simp only [hc, if_false]
    refine bind_ne_fuel (put_ne_fuel _ _ _) ?_
    intro b1 _
    refine bind_ne_fuel (siftUp_ne_fuel _ _ _ (by omega)) ?_
    intro b2 _; simp [pure, Except.pure]

theorem pop_ne_fuel (q : PQ α) : q.pop ≠ .error .fuel := by
  unfold PQ.pop
  by_cases hc : q.size ≤ 0
  · simp [hc, bind, Except.bind, throw, throwThe, MonadExceptOf.throw]
  · simp only [hc, if_false]
    refine bind_ne_fuel (takeUnwrap_ne_fuel _ _) ?_
    rintro ⟨⟨rp, rv⟩, b1⟩ _
    simp only
    split
    · simp [pure, Except.pure]
    · refine bind_ne_fuel (takeUnwrap_ne_fuel _ _) ?_
      rintro ⟨⟨dp, dv⟩, b2⟩ _
      refine bind_ne_fuel (siftDown_ne_fuel _ _ _ _ _ (by omega)) ?_
      rintro ⟨b3, i⟩ _
      refine bind_ne_fuel (put_ne_fuel _ _ _) ?_
      intro b4 _; simp [pure, Except.pure]
end Fuel
end GuppyVerif.Coll
