import GuppyVerif.Model.Surface
/-! # The executable big-step interpreter `execFuel` (used by the driver) is sound for `Exec` -/
namespace GuppyVerif.Surface

theorem execFuel_sound (env : Env) : ∀ (n : Nat) (s : Stmt) (st : S) (o : Outcome) (st' : S),
    execFuel env n s st = some (o, st') → Exec env s st o st' := by
  intro n
  induction n with
  | zero => intro s st o st' h; simp [execFuel] at h
  | succ n ih =>
    intro s st o st' h
    cases s with
    | nil => simp only [execFuel, Option.some.injEq, Prod.mk.injEq] at h; obtain ⟨rfl, rfl⟩ := h; exact .nil
    | cons a rest =>
      simp only [execFuel] at h
      cases ha : execFuel env n a st with
      | none => rw [ha] at h; cases h
      | some r =>
        obtain ⟨oa, s1⟩ := r
        rw [ha] at h
        cases oa with
        | normal => exact .consN (ih _ _ _ _ ha) (ih _ _ _ _ h)
        | brk => simp only [Option.some.injEq, Prod.mk.injEq] at h; obtain ⟨rfl, rfl⟩ := h; exact .consJ (ih _ _ _ _ ha) (by simp)
        | cont => simp only [Option.some.injEq, Prod.mk.injEq] at h; obtain ⟨rfl, rfl⟩ := h; exact .consJ (ih _ _ _ _ ha) (by simp)
        | ret v => simp only [Option.some.injEq, Prod.mk.injEq] at h; obtain ⟨rfl, rfl⟩ := h; exact .consJ (ih _ _ _ _ ha) (by simp)
    | assign x e =>
      simp only [execFuel, Option.some.injEq, Prod.mk.injEq] at h; obtain ⟨rfl, rfl⟩ := h
      exact .assign (v := (eval env e st).1) (s1 := (eval env e st).2) rfl
    | aug x op e =>
      simp only [execFuel, Option.some.injEq, Prod.mk.injEq] at h; obtain ⟨rfl, rfl⟩ := h
      exact .aug (v := (eval env e st).1) (s1 := (eval env e st).2) rfl
    | expr e =>
      simp only [execFuel, Option.some.injEq, Prod.mk.injEq] at h; obtain ⟨rfl, rfl⟩ := h
      exact .expr (v := (eval env e st).1) (s1 := (eval env e st).2) rfl
    | pass => simp only [execFuel, Option.some.injEq, Prod.mk.injEq] at h; obtain ⟨rfl, rfl⟩ := h; exact .pass
    | brk => simp only [execFuel, Option.some.injEq, Prod.mk.injEq] at h; obtain ⟨rfl, rfl⟩ := h; exact .brk
    | cont => simp only [execFuel, Option.some.injEq, Prod.mk.injEq] at h; obtain ⟨rfl, rfl⟩ := h; exact .cont
    | ret e =>
      simp only [execFuel, Option.some.injEq, Prod.mk.injEq] at h; obtain ⟨rfl, rfl⟩ := h
      exact .ret (v := (eval env e st).1) (s1 := (eval env e st).2) rfl
    | ret0 => simp only [execFuel, Option.some.injEq, Prod.mk.injEq] at h; obtain ⟨rfl, rfl⟩ := h; exact .ret0
    | ite c t e =>
      simp only [execFuel] at h
      cases hv : (eval env c st).1.truthy with
      | true => rw [hv] at h; exact .iteT (v := (eval env c st).1) (s1 := (eval env c st).2) rfl hv (ih _ _ _ _ h)
      | false => rw [hv] at h; exact .iteF (v := (eval env c st).1) (s1 := (eval env c st).2) rfl hv (ih _ _ _ _ h)
    | «while» c b =>
      simp only [execFuel] at h
      cases hv : (eval env c st).1.truthy with
      | false =>
        rw [hv] at h
        simp only [Bool.false_eq_true, if_false, Option.some.injEq, Prod.mk.injEq] at h
        obtain ⟨rfl, rfl⟩ := h
        exact .whileF (v := (eval env c st).1) (s1 := (eval env c st).2) rfl hv
      | true =>
        rw [hv] at h
        simp only [if_true] at h
        cases hb : execFuel env n b (eval env c st).2 with
        | none => rw [hb] at h; cases h
        | some r =>
          obtain ⟨ob, s2⟩ := r
          rw [hb] at h
          cases ob with
          | normal => exact .whileT (v := (eval env c st).1) rfl hv (ih _ _ _ _ hb) (Or.inl rfl) (ih _ _ _ _ h)
          | cont => exact .whileT (v := (eval env c st).1) rfl hv (ih _ _ _ _ hb) (Or.inr rfl) (ih _ _ _ _ h)
          | brk =>
            simp only [Option.some.injEq, Prod.mk.injEq] at h; obtain ⟨rfl, rfl⟩ := h
            exact .whileB (v := (eval env c st).1) rfl hv (ih _ _ _ _ hb)
          | ret w =>
            simp only [Option.some.injEq, Prod.mk.injEq] at h; obtain ⟨rfl, rfl⟩ := h
            exact .whileR (v := (eval env c st).1) rfl hv (ih _ _ _ _ hb)
    | «for» x e b =>
      simp only [execFuel] at h
      cases hv : (eval env e st).1 with
      | iter lo hi =>
        rw [hv] at h
        exact .for (n := lo) (m := hi) (s1 := (eval env e st).2) (by rw [← hv]) (ih _ _ _ _ h)
      | int _ => rw [hv] at h; cases h
      | bool _ => rw [hv] at h; cases h
      | none => rw [hv] at h; cases h
      | some _ _ _ => rw [hv] at h; cases h
    | forFrom x lo hi b =>
      simp only [execFuel] at h
      by_cases hlt : lo < hi
      · simp only [hlt, if_true] at h
        cases hb : execFuel env n b (st.1.set x (.int lo), st.2) with
        | none => rw [hb] at h; cases h
        | some r =>
          obtain ⟨ob, s2⟩ := r
          rw [hb] at h
          cases ob with
          | normal => exact .forStep hlt (ih _ _ _ _ hb) (Or.inl rfl) (ih _ _ _ _ h)
          | cont => exact .forStep hlt (ih _ _ _ _ hb) (Or.inr rfl) (ih _ _ _ _ h)
          | brk =>
            simp only [Option.some.injEq, Prod.mk.injEq] at h; obtain ⟨rfl, rfl⟩ := h
            exact .forB hlt (ih _ _ _ _ hb)
          | ret w =>
            simp only [Option.some.injEq, Prod.mk.injEq] at h; obtain ⟨rfl, rfl⟩ := h
            exact .forR hlt (ih _ _ _ _ hb)
      · simp only [hlt, if_false, Option.some.injEq, Prod.mk.injEq] at h
        obtain ⟨rfl, rfl⟩ := h
        exact .forDone hlt

end GuppyVerif.Surface
