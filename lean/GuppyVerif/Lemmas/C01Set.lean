import GuppyVerif.Lemmas.C01
/-! `setitem` establishes `Holds` (Lemma A) -/
namespace GuppyVerif.DFWiring

/-- post-condition of `setitem` on place `p : t` with a wire denoting `v` -/
def SetPost (L : Locals) (n : Nat) (p : PlaceId) (env : Env) (t : Ty) (v : Val)
    (r : Locals × Nat × List Op) : Prop :=
  n ≤ r.2.1 ∧ (∀ q, ¬ p <:+ q → q ∉ enclosing p → r.1 q = L q) ∧
  ∃ env1, evalOps env r.2.2 = some env1 ∧ Holds r.2.1 r.1 env1 p t v ∧
    (∀ x : Wire, x.node < n → env1 x = env x)

def SetListPost (L : Locals) (n : Nat) (p : PlaceId) (i : Nat) (env : Env) (ts : List Ty)
    (vs : List Val) (r : Locals × Nat × List Op) : Prop :=
  n ≤ r.2.1 ∧
  (∀ q, (∀ j, i ≤ j → ¬ (j :: p) <:+ q) → q ≠ p → q ∉ enclosing p → r.1 q = L q) ∧
  ∃ env1, evalOps env r.2.2 = some env1 ∧ HoldsList r.2.1 r.1 env1 p i ts vs ∧
    (∀ x : Wire, x.node < n → env1 x = env x)

mutual
theorem setitem_post : ∀ (t : Ty) (L : Locals) (n : Nat) (p : PlaceId) (w : Wire) (env : Env)
    (v : Val), env w = some v → w.node < n → v.HasShape t →
    SetPost L n p env t v (setitem L n p false w t)
  | .leaf _ _, L, n, p, w, env, v, hw, hlt, _ => by
    simp only [setitem, SetPost]
    refine ⟨Nat.le_refl n, ?_, env, rfl, ?_, fun _ _ => rfl⟩
    · intro q hq he
      have : q ≠ p := by intro e; subst e; exact hq (List.suffix_refl _)
      simp [this, popEnclosing_apply, he]
    · simp only [Holds]
      exact ⟨w, by simp, hlt, hw⟩
  | .node _ cs, L, n, p, w, env, .tup vs, hw, hlt, hs => by
    simp only [Val.HasShape] at hs
    have hlen := HasShapes.length vs cs hs
    have hrec := setitemList_post cs (popEnclosing L p) (n + 1) p 0 n (env.bindOuts n 0 vs) vs
      (Nat.lt_succ_self n)
      (fun j hj => by simpa using bindOuts_port env n 0 vs j hj) hs
    simp only [setitem, Bool.false_eq_true, ↓reduceIte]
    rcases hr : setitemList (popEnclosing L p) (n + 1) p 0 n cs with ⟨L1, n1, o1⟩
    rw [hr] at hrec
    obtain ⟨h1, h2, env1, h3, h4, h5⟩ := hrec
    simp only at h1 h2 h3 h4 h5
    refine ⟨by simp only; omega, ?_, env1, ?_, ?_, ?_⟩
    · intro q hq he
      have hne : q ≠ p := by intro e; subst e; exact hq (List.suffix_refl _)
      simp only [Locals.pop_apply, hne, ↓reduceIte]
      rw [h2 q (fun j _ hj => hq (under_child_trans hj)) hne he, popEnclosing_apply]
      simp [he]
    · simp only [evalOps, evalOp, hw, hlen, ↓reduceIte]
      exact h3
    · simp only [Holds]
      refine ⟨by simp, ?_⟩
      exact HoldsList.frame (Nat.le_refl _) (fun _ _ => rfl) cs p 0 vs
        (fun j q _ hq => by simp [under_child_ne hq]) h4
    · intro x hx
      rw [h5 x (by omega), bindOuts_other _ _ _ _ _ (Or.inl (by omega))]
  | .node _ _, _, _, _, _, _, .atom _, _, _, hs => by simp [Val.HasShape] at hs
theorem setitemList_post : ∀ (ts : List Ty) (L : Locals) (n : Nat) (p : PlaceId) (i u : Nat)
    (env : Env) (vs : List Val), u < n →
    (∀ j (hj : j < vs.length), env ⟨u, i + j⟩ = some vs[j]) → HasShapes vs ts →
    SetListPost L n p i env ts vs (setitemList L n p i u ts)
  | [], L, n, p, i, u, env, [], _, _, _ => by
    simp only [setitemList]
    unfold SetListPost
    exact ⟨Nat.le_refl n, fun _ _ _ _ => rfl, env, rfl, by simp [HoldsList], fun _ _ => rfl⟩
  | t :: ts, L, n, p, i, u, env, v :: vs, hu, hport, hs => by
    simp only [HasShapes] at hs
    have hA := setitem_post t L n (i :: p) ⟨u, i⟩ env v
      (by have := hport 0 (by simp); simpa using this) hu hs.1
    simp only [setitemList]
    rcases hr1 : setitem L n (i :: p) false ⟨u, i⟩ t with ⟨L1, n1, o1⟩
    rw [hr1] at hA
    obtain ⟨a1, a2, env1, a3, a4, a5⟩ := hA
    simp only at a1 a2 a3 a4 a5
    have hB := setitemList_post ts L1 n1 p (i + 1) u env1 vs (by omega)
      (fun j hj => by
        rw [a5 _ hu]
        have := hport (j + 1) (by simpa using hj)
        rw [show i + 1 + j = i + (j + 1) by omega]
        simpa using this) hs.2
    rcases hr2 : setitemList L1 n1 p (i + 1) u ts with ⟨L2, n2, o2⟩
    rw [hr2] at hB
    obtain ⟨b1, b2, env2, b3, b4, b5⟩ := hB
    simp only at b1 b2 b3 b4 b5
    refine ⟨by simp only; omega, ?_, env2, ?_, ?_, ?_⟩
    · intro q hq hne he
      simp only
      rw [b2 q (fun j hj => hq j (by omega)) hne he]
      apply a2 q (hq i (Nat.le_refl i))
      intro hin
      rcases enclosing_cons hin with h | h
      · exact hne h
      · exact he h
    · simp only [evalOps_append, a3]; exact b3
    · simp only [HoldsList]
      refine ⟨?_, b4⟩
      apply Holds.frame b1 (fun x hx => b5 x hx) t (i :: p) v _ a4
      intro q hq
      apply b2 q _ (under_child_ne hq) (under_child_not_enclosing hq)
      intro j hj hq'
      have := under_child_inj hq hq'
      omega
    · intro x hx
      rw [b5 x (by omega), a5 x hx]
  | [], _, _, _, _, _, _, _ :: _, _, _, hs => by simp [HasShapes] at hs
  | _ :: _, _, _, _, _, _, _, [], _, _, hs => by simp [HasShapes] at hs
end

end GuppyVerif.DFWiring
