import GuppyVerif.Spec.C08
/-! Event-level meaning of the `VariableVisitor` model: a variable is *used* by a block iff the
    block reads it before any assignment to it inside the block. -/
namespace GuppyVerif.UseDef
open GuppyVerif.Dataflow

def ReadBeforeWrite (x : Var) (es : List Ev) : Prop :=
  ∃ pre post, es = pre ++ Ev.use x :: post ∧ x ∉ assignedOf pre

theorem assignedOf_cons_use (y : Var) (es : List Ev) : assignedOf (Ev.use y :: es) = assignedOf es := by
  simp [assignedOf]
theorem assignedOf_cons_asg (y : Var) (t : Ty) (es : List Ev) :
    assignedOf (Ev.asg y t :: es) = y :: assignedOf es := by
  simp [assignedOf]

theorem mem_usedOf_gen (x : Var) : ∀ (es : List Ev) (asgd acc : List Var),
    x ∈ usedOf es asgd acc ↔ x ∈ acc ∨ (x ∉ asgd ∧ ReadBeforeWrite x es) := by
  intro es
  induction es with
  | nil =>
    intro asgd acc
    simp only [usedOf, List.mem_reverse]
    constructor
    · exact Or.inl
    · rintro (h | ⟨_, pre, post, h, _⟩)
      · exact h
      · cases pre <;> cases h
  | cons e es ih =>
    intro asgd acc
    cases e with
    | use y =>
      have key : ReadBeforeWrite x (Ev.use y :: es) ↔ x = y ∨ ReadBeforeWrite x es := by
        constructor
        · rintro ⟨pre, post, h, hn⟩
          cases pre with
          | nil => left; cases h; rfl
          | cons p pre =>
            right
            cases h
            exact ⟨pre, post, rfl, by simpa [assignedOf_cons_use] using hn⟩
        · rintro (rfl | ⟨pre, post, h, hn⟩)
          · exact ⟨[], es, rfl, by simp [assignedOf]⟩
          · exact ⟨Ev.use y :: pre, post, by rw [h]; rfl, by simpa [assignedOf_cons_use] using hn⟩
      simp only [usedOf]
      split
      · rename_i hc
        rw [ih, key]
        simp only [Bool.or_eq_true, List.contains_iff_mem] at hc
        constructor
        · rintro (h | ⟨hn, h⟩)
          · exact Or.inl h
          · exact Or.inr ⟨hn, Or.inr h⟩
        · rintro (h | ⟨hn, rfl | h⟩)
          · exact Or.inl h
          · rcases hc with hc | hc
            · exact absurd hc hn
            · exact Or.inl hc
          · exact Or.inr ⟨hn, h⟩
      · rename_i hc
        rw [ih, key]
        simp only [Bool.or_eq_true, List.contains_iff_mem, not_or] at hc
        simp only [List.mem_cons]
        constructor
        · rintro ((rfl | h) | ⟨hn, h⟩)
          · exact Or.inr ⟨hc.1, Or.inl rfl⟩
          · exact Or.inl h
          · exact Or.inr ⟨hn, Or.inr h⟩
        · rintro (h | ⟨hn, rfl | h⟩)
          · exact Or.inl (Or.inr h)
          · exact Or.inl (Or.inl rfl)
          · exact Or.inr ⟨hn, h⟩
    | asg y t =>
      have key : ReadBeforeWrite x (Ev.asg y t :: es) ↔ x ≠ y ∧ ReadBeforeWrite x es := by
        constructor
        · rintro ⟨pre, post, h, hn⟩
          cases pre with
          | nil => cases h
          | cons p pre =>
            cases h
            rw [assignedOf_cons_asg] at hn
            simp only [List.mem_cons, not_or] at hn
            exact ⟨hn.1, pre, post, rfl, hn.2⟩
        · rintro ⟨hne, pre, post, h, hn⟩
          refine ⟨Ev.asg y t :: pre, post, by rw [h]; rfl, ?_⟩
          rw [assignedOf_cons_asg]
          simp only [List.mem_cons, not_or]
          exact ⟨hne, hn⟩
      simp only [usedOf]
      rw [ih, key]
      simp only [List.mem_cons, not_or]
      constructor
      · rintro (h | ⟨⟨hne, hn⟩, h⟩)
        · exact Or.inl h
        · exact Or.inr ⟨hn, hne, h⟩
      · rintro (h | ⟨hn, hne, h⟩)
        · exact Or.inl h
        · exact Or.inr ⟨⟨hne, hn⟩, h⟩

end GuppyVerif.UseDef
