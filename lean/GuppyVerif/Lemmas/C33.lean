import GuppyVerif.Spec.C33
/-! Helper lemmas for C33. -/
namespace GuppyVerif.FeatureGate

open Spec

theorem exit_flag (o : Obj) (s : State) : (exit o s).flag = o.original := by
  unfold exit; cases o.kind <;> rfl

theorem exit_env (o : Obj) (s : State) : (exit o s).env = s.env := by
  unfold exit; cases o.kind <;> rfl

theorem gate_eq_verdict (f : Feature) (s : State) : gate f s = verdict f s.flag := by
  unfold gate verdict; cases s.flag <;> rfl

theorem savedOf_cons (x : Nat) (o : Obj) (env : List (Nat × Obj)) :
    savedOf ((x, o) :: env) = upd (savedOf env) x o.original := by
  funext y
  by_cases h : y = x <;> simp [savedOf, upd, lookup, h]

/-- full simulation statement, proved by structural induction -/
theorem exec_sim (p : Prog) : ∀ s : State,
    (exec p s).trace = (run p s.flag (savedOf s.env)).trace ∧
    (exec p s).state.flag = (run p s.flag (savedOf s.env)).flag ∧
    savedOf (exec p s).state.env = (run p s.flag (savedOf s.env)).saved ∧
    (exec p s).raised = (run p s.flag (savedOf s.env)).raised := by
  induction p with
  | skip => intro s; simp [exec, run]
  | seq p q ihp ihq =>
    intro s
    obtain ⟨h1, h2, h3, h4⟩ := ihp s
    simp only [exec, run]
    cases hr : (exec p s).raised
    · have hr' : (run p s.flag (savedOf s.env)).raised = false := by rw [← h4]; exact hr
      obtain ⟨g1, g2, g3, g4⟩ := ihq (exec p s).state
      rw [h2, h3] at g1 g2 g3 g4
      simp [hr', h1, g1, g2, g3, g4]
    · have hr' : (run p s.flag (savedOf s.env)).raised = true := by rw [← h4]; exact hr
      simp [hr', h1, h2, h3, h4]
  | call k => intro s; simp [exec, run, construct]
  | withNew k body ih =>
    intro s
    obtain ⟨h1, h2, h3, h4⟩ := ih ⟨k.target, s.env⟩
    simp only [exec, run, construct, withObj, enter, exitSwallows, exit_flag, exit_env]
    simp only at h1 h2 h3 h4
    simp [h1, h3, h4]
  | bind x k =>
    intro s
    simp [exec, run, construct, savedOf_cons]
  | withVar x body ih =>
    intro s
    obtain ⟨h1, h2, h3, h4⟩ := ih s
    simp only [exec, run]
    cases hl : lookup x s.env with
    | none =>
      have : savedOf s.env x = none := by simp [savedOf, hl]
      simp [this]
    | some o =>
      have : savedOf s.env x = some o.original := by simp [savedOf, hl]
      simp only [this, withObj, enter, exitSwallows, exit_flag, exit_env]
      simp [h1, h3, h4]
  | check f => intro s; simp [exec, run, gate_eq_verdict]
  | raise => intro s; simp [exec, run]
  | tryCatch body ih =>
    intro s
    obtain ⟨h1, h2, h3, h4⟩ := ih s
    simp [exec, run, h1, h2, h3]

/-- isInline programs: lexical reading agrees with the scoping interpreter and the flag is
    unchanged at the end, whatever exceptions were raised and caught -/
theorem run_lex (p : Prog) : ∀ (b : Bool) (sv : Nat → Option Bool), isInline p = true →
    (run p b sv).trace = (lex b p).1 ∧ (run p b sv).raised = (lex b p).2 ∧
    (run p b sv).flag = b ∧ (run p b sv).saved = sv := by
  induction p with
  | skip => intro b sv _; simp [run, lex]
  | seq p q ihp ihq =>
    intro b sv h
    simp only [isInline, Bool.and_eq_true] at h
    obtain ⟨h1, h2, h3, h4⟩ := ihp b sv h.1
    obtain ⟨g1, g2, g3, g4⟩ := ihq b sv h.2
    simp only [run, lex]
    cases hr : (run p b sv).raised
    · have hl : (lex b p).2 = false := by rw [← h2]; exact hr
      have : lex b p = ((lex b p).1, false) := by rw [← hl]
      rw [this]
      simp [h1, h3, h4, g1, g2, g3, g4]
    · have hl : (lex b p).2 = true := by rw [← h2]; exact hr
      have : lex b p = ((lex b p).1, true) := by rw [← hl]
      rw [this]
      simp [h1, h3, h4, hr]
  | call k => intro b sv h; simp [isInline] at h
  | withNew k body ih =>
    intro b sv h
    simp only [isInline] at h
    obtain ⟨h1, h2, _, h4⟩ := ih k.target sv h
    simp [run, lex, h1, h2, h4]
  | bind x k => intro b sv h; simp [isInline] at h
  | withVar x body _ => intro b sv h; simp [isInline] at h
  | check f => intro b sv _; simp [run, lex]
  | raise => intro b sv _; simp [run, lex]
  | tryCatch body ih =>
    intro b sv h
    simp only [isInline] at h
    obtain ⟨h1, _, h3, h4⟩ := ih b sv h
    simp [run, lex, h1, h3, h4]

end GuppyVerif.FeatureGate
