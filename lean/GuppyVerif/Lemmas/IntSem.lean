import GuppyVerif.Model.IntSem
/-! Lemmas about `Model/IntSem.lean`: each HUGR integer op against Python's semantics on `Int`
    (used by C04; C16/C17 use the range facts). Core Lean only. -/
namespace GuppyVerif.IntSem

/-! ### ranges and the two readings -/
theorem toInt_range (a : W) : -9223372036854775808 ≤ a.toInt ∧ a.toInt ≤ 9223372036854775807 := by
  have h1 := BitVec.le_toInt a
  have h2 := BitVec.toInt_lt (x := a)
  simp at h1 h2; omega

theorem toNat_range (a : W) : a.toNat < 18446744073709551616 := a.isLt

theorem toInt_cases (a : W) :
    (a.toNat < 9223372036854775808 ∧ a.toInt = a.toNat) ∨
    (9223372036854775808 ≤ a.toNat ∧ a.toInt = (a.toNat : Int) - 18446744073709551616) := by
  have h := BitVec.toInt_eq_toNat_cond a
  have hl := a.isLt
  simp only [Nat.reducePow] at h hl
  split at h <;> omega

theorem wrapS_def (x : Int) : wrapS x =
    (if x % 18446744073709551616 < 9223372036854775808 then x % 18446744073709551616
     else x % 18446744073709551616 - 18446744073709551616) := by
  unfold wrapS; rw [Int.bmod_def]; simp only [Nat.reducePow, Int.cast_ofNat_Int]; rfl

theorem wrapU_def (x : Int) : wrapU x = x % 18446744073709551616 := by
  unfold wrapU; rfl

/-- `wrapS` only depends on the residue modulo 2^64 -/
theorem wrapS_congr {x y : Int} (h : x % 18446744073709551616 = y % 18446744073709551616) : wrapS x = wrapS y := by
  rw [wrapS_def, wrapS_def, h]

theorem wrapS_of_range {x : Int} (h1 : -9223372036854775808 ≤ x) (h2 : x ≤ 9223372036854775807) : wrapS x = x := by
  rw [wrapS_def]; omega

theorem wrapU_of_range {x : Int} (h1 : 0 ≤ x) (h2 : x < 18446744073709551616) : wrapU x = x := by
  rw [wrapU_def]; omega

/-! ### ring operations -/
theorem iadd_toInt (a b : W) : (iadd a b).toInt = wrapS (a.toInt + b.toInt) := by
  simp [iadd, wrapS, BitVec.toInt_add]
theorem isub_toInt (a b : W) : (isub a b).toInt = wrapS (a.toInt - b.toInt) := by
  simp [isub, wrapS, BitVec.toInt_sub]
theorem imul_toInt (a b : W) : (imul a b).toInt = wrapS (a.toInt * b.toInt) := by
  simp [imul, wrapS, BitVec.toInt_mul]
theorem ineg_toInt (a : W) : (ineg a).toInt = wrapS (-a.toInt) := by
  simp [ineg, wrapS, BitVec.toInt_neg]

theorem iadd_toNat (a b : W) : ((iadd a b).toNat : Int) = wrapU ((a.toNat : Int) + b.toNat) := by
  simp only [iadd, BitVec.toNat_add, wrapU_def]; omega
theorem isub_toNat (a b : W) : ((isub a b).toNat : Int) = wrapU ((a.toNat : Int) - b.toNat) := by
  have := a.isLt; have := b.isLt
  simp only [isub, BitVec.toNat_sub, wrapU_def]; omega
theorem imul_toNat (a b : W) : ((imul a b).toNat : Int) = wrapU ((a.toNat : Int) * b.toNat) := by
  simp only [imul, BitVec.toNat_mul, wrapU_def]
  rw [← Int.natCast_mul]; omega

/-- reading an operand unsigned instead of signed does not change a wrapped ring operation -/
theorem toNat_emod_eq_toInt_emod (a : W) : (a.toNat : Int) % 18446744073709551616 = a.toInt % 18446744073709551616 := by
  rcases toInt_cases a with ⟨_, h⟩ | ⟨_, h⟩ <;> omega


/-! ### bits -/
theorem two_pow_cast (i : Nat) : (2 : Int) ^ i = ((2 ^ i : Nat) : Int) := by
  rw [Int.natCast_pow]; rfl

theorem pyBit_natCast (n i : Nat) : pyBit (n : Int) i = n.testBit i := by
  unfold pyBit
  rw [Int.fdiv_eq_ediv_of_nonneg _ (by exact Int.le_of_lt (Int.pow_pos (by decide)))]
  rw [Nat.testBit_eq_decide_div_mod_eq, two_pow_cast, Int.ofNat_ediv_ofNat]
  simp only [decide_eq_decide]
  omega

theorem pyBit_negSucc (n i : Nat) : pyBit (Int.negSucc n) i = !n.testBit i := by
  unfold pyBit
  rw [Int.fdiv_eq_ediv_of_nonneg _ (by exact Int.le_of_lt (Int.pow_pos (by decide)))]
  obtain ⟨k, hk⟩ : ∃ k, 2 ^ i = k + 1 := ⟨2 ^ i - 1, by have := Nat.two_pow_pos i; omega⟩
  rw [Nat.testBit_eq_decide_div_mod_eq, two_pow_cast, hk, Int.negSucc_ediv_ofNat_succ, Int.negSucc_eq]
  generalize n / (k + 1) = q
  by_cases h : q % 2 = 1
  · simp only [h, decide_true, Bool.not_true, decide_eq_false_iff_not]; omega
  · simp only [h, decide_false, Bool.not_false, decide_eq_true_eq]; omega

/-- bit `i` of the signed reading: the stored bit below 64, the sign bit above -/
theorem pyBit_toInt (a : W) (i : Nat) : pyBit a.toInt i = if i < 64 then a.getLsbD i else a.msb := by
  rcases toInt_cases a with ⟨hlt, h⟩ | ⟨hge, h⟩
  · have hmsb : a.msb = false := (BitVec.msb_eq_false_iff_two_mul_lt).mpr (by omega)
    rw [h, pyBit_natCast, hmsb]
    split
    · rfl
    · rename_i hi
      exact Nat.testBit_lt_two_pow (Nat.lt_of_lt_of_le a.isLt (Nat.pow_le_pow_right (by decide) (by omega)))
  · have hmsb : a.msb = true := by
      rw [BitVec.msb_eq_decide]; simp; omega
    have e : a.toInt = Int.negSucc (18446744073709551615 - a.toNat) := by
      rw [h, Int.negSucc_eq]; have := a.isLt; omega
    rw [e, pyBit_negSucc, hmsb]
    have hnot : (18446744073709551615 - a.toNat) = (~~~a).toNat := by
      rw [BitVec.toNat_not]
    rw [hnot]
    split
    · rename_i hi
      rw [← BitVec.getLsbD, BitVec.getLsbD_not]; simp [hi]
    · rename_i hi
      have : (~~~a).toNat.testBit i = false :=
        Nat.testBit_lt_two_pow (Nat.lt_of_lt_of_le (~~~a).isLt (Nat.pow_le_pow_right (by decide) (by omega)))
      rw [this]; rfl

theorem pyBit_toNat (a : W) (i : Nat) : pyBit (a.toNat : Int) i = a.getLsbD i := by
  rw [pyBit_natCast]; rfl

theorem iand_isPyAnd (a b : W) : IsPyAnd (iand a b).toInt a.toInt b.toInt := by
  intro i; simp only [pyBit_toInt, iand]; split <;> simp
theorem ior_isPyOr (a b : W) : IsPyOr (ior a b).toInt a.toInt b.toInt := by
  intro i; simp only [pyBit_toInt, ior]; split <;> simp
theorem ixor_isPyXor (a b : W) : IsPyXor (ixor a b).toInt a.toInt b.toInt := by
  intro i; simp only [pyBit_toInt, ixor]; split <;> simp

theorem iand_isPyAnd_nat (a b : W) : IsPyAnd (iand a b).toNat a.toNat b.toNat := by
  intro i; simp only [pyBit_toNat, iand, BitVec.getLsbD_and]
theorem ior_isPyOr_nat (a b : W) : IsPyOr (ior a b).toNat a.toNat b.toNat := by
  intro i; simp only [pyBit_toNat, ior, BitVec.getLsbD_or]
theorem ixor_isPyXor_nat (a b : W) : IsPyXor (ixor a b).toNat a.toNat b.toNat := by
  intro i; simp only [pyBit_toNat, ixor, BitVec.getLsbD_xor, bne]

theorem inot_toInt (a : W) : (inot a).toInt = pyInvert a.toInt := by
  have hn : (inot a).toNat = 18446744073709551615 - a.toNat := by simp [inot, BitVec.toNat_not]
  have := a.isLt
  unfold pyInvert
  rcases toInt_cases a with ⟨_, h⟩ | ⟨_, h⟩ <;> rcases toInt_cases (inot a) with ⟨_, h'⟩ | ⟨_, h'⟩ <;> omega

theorem inot_toNat (a : W) : ((inot a).toNat : Int) = wrapU (pyInvert (a.toNat : Int)) := by
  have hn : (inot a).toNat = 18446744073709551615 - a.toNat := by simp [inot, BitVec.toNat_not]
  have := a.isLt
  rw [wrapU_def]; unfold pyInvert; omega



theorem emod_mul_congr {x y : Int} (c : Int) (h : x % 18446744073709551616 = y % 18446744073709551616) :
    (x * c) % 18446744073709551616 = (y * c) % 18446744073709551616 := by
  rw [Int.mul_emod, h, ← Int.mul_emod]

/-! ### shifts -/
theorem shift_count (b : W) (h0 : 0 ≤ b.toInt) : b.toNat = b.toInt.toNat := by
  rcases toInt_cases b with ⟨_, h⟩ | ⟨_, h⟩ <;> omega

theorem toInt_shl (a : W) (k : Nat) : (a <<< k).toInt = wrapS (pyShl a.toInt k) := by
  rw [BitVec.toInt_shiftLeft]
  have : ((a.toNat <<< k : Nat) : Int).bmod (2 ^ 64) = wrapS ((a.toNat : Int) * 2 ^ k) := by
    unfold wrapS; rw [Nat.shiftLeft_eq, Int.natCast_mul, Int.natCast_pow]; rfl
  rw [this]
  exact wrapS_congr (emod_mul_congr _ (toNat_emod_eq_toInt_emod a))

/-- the guard in `ishl` (which keeps the executable model from building a 2^64-bit natural) changes nothing -/
theorem ishl_eq (a b : W) : ishl a b = a <<< b.toNat := by
  unfold ishl
  split
  · rename_i h; exact (BitVec.shiftLeft_eq_zero h).symm
  · rfl

theorem ishl_toInt (a b : W) (h0 : 0 ≤ b.toInt) :
    (ishl a b).toInt = wrapS (pyShl a.toInt b.toInt.toNat) := by
  rw [ishl_eq, shift_count b h0]; exact toInt_shl a _

theorem ishl_toNat (a b : W) :
    ((ishl a b).toNat : Int) = wrapU (pyShl a.toNat b.toNat) := by
  rw [ishl_eq]; unfold pyShl
  rw [BitVec.toNat_shiftLeft, Nat.shiftLeft_eq, wrapU_def, Int.natCast_emod, Int.natCast_mul, Int.natCast_pow]
  rfl

/-- logical shift right of the unsigned reading is Python's `>>` -/
theorem ishr_toNat (a b : W) : ((ishr a b).toNat : Int) = pyShr a.toNat b.toNat := by
  unfold ishr pyShr
  rw [BitVec.toNat_ushiftRight, Nat.shiftRight_eq_div_pow,
    Int.fdiv_eq_ediv_of_nonneg _ (by exact Int.le_of_lt (Int.pow_pos (by decide))), two_pow_cast, Int.ofNat_ediv_ofNat]

/-- … and of the signed reading only when the left operand is non-negative -/
theorem ishr_toInt_nonneg (a b : W) (ha : 0 ≤ a.toInt) :
    (ishr a b).toInt = pyShr a.toInt b.toNat := by
  have e1 : a.toInt = a.toNat := by rcases toInt_cases a with ⟨_, h⟩ | ⟨_, h⟩ <;> omega
  have hlt : a.toNat < 9223372036854775808 := by rcases toInt_cases a with ⟨_, h⟩ | ⟨_, h⟩ <;> omega
  have hle : (ishr a b).toNat ≤ a.toNat := by
    unfold ishr; rw [BitVec.toNat_ushiftRight]; exact Nat.shiftRight_le _ _
  have e2 : (ishr a b).toInt = (ishr a b).toNat := by
    rcases toInt_cases (ishr a b) with ⟨_, h⟩ | ⟨_, h⟩ <;> omega
  rw [e2, e1]; exact ishr_toNat a b

/-! ### division -/
theorem idivmod_s_zero (a : W) : idivmod_s a 0 = none := by simp [idivmod_s]
theorem idivmod_u_zero (a : W) : idivmod_u a 0 = none := by simp [idivmod_u]

theorem pos_divisor (b : W) (hb : 0 < b.toInt) : (b.toNat : Int) = b.toInt ∧ b.toNat ≠ 0 := by
  rcases toInt_cases b with ⟨_, h⟩ | ⟨_, h⟩ <;> omega

theorem ofInt_toInt_of_range {x : Int} (h1 : -9223372036854775808 ≤ x) (h2 : x ≤ 9223372036854775807) :
    (BitVec.ofInt 64 x).toInt = x := by
  rw [BitVec.toInt_ofInt]; exact wrapS_of_range h1 h2

/-- with a positive divisor `idivmod_s` is Python's `divmod` -/
theorem idivmod_s_pos (a b : W) (hb : 0 < b.toInt) :
    ∃ q r, idivmod_s a b = some (q, r) ∧ q.toInt = pyFloorDiv a.toInt b.toInt ∧ r.toInt = pyMod a.toInt b.toInt := by
  obtain ⟨hm, hnz⟩ := pos_divisor b hb
  have ⟨ha1, ha2⟩ := toInt_range a
  have ⟨_, hb2⟩ := toInt_range b
  refine ⟨BitVec.ofInt 64 (a.toInt / (b.toNat : Int)), BitVec.ofInt 64 (a.toInt % (b.toNat : Int)), by simp [idivmod_s, hnz], ?_, ?_⟩
  · unfold pyFloorDiv
    rw [Int.fdiv_eq_ediv_of_nonneg _ (Int.le_of_lt hb), hm]
    apply ofInt_toInt_of_range
    · by_cases hneg : a.toInt < 0
      · have : a.toInt ≤ a.toInt / b.toInt := by
          apply Int.le_ediv_of_mul_le hb
          have : a.toInt * b.toInt ≤ a.toInt * 1 := Int.mul_le_mul_of_nonpos_left (by omega) (by omega)
          omega
        omega
      · have := Int.ediv_nonneg (a := a.toInt) (b := b.toInt) (by omega) (by omega); omega
    · by_cases hneg : a.toInt < 0
      · have := Int.ediv_neg_of_neg_of_pos hneg hb; omega
      · have := Int.ediv_le_self (a := a.toInt) b.toInt (by omega); omega
  · unfold pyMod
    rw [Int.fmod_eq_emod_of_nonneg _ (Int.le_of_lt hb), hm]
    apply ofInt_toInt_of_range
    · have := Int.emod_nonneg a.toInt (b := b.toInt) (by omega); omega
    · have := Int.emod_lt_of_pos a.toInt hb; omega

theorem idivmod_u_ne (a b : W) (hb : b.toNat ≠ 0) :
    ∃ q r, idivmod_u a b = some (q, r) ∧ (q.toNat : Int) = pyFloorDiv a.toNat b.toNat ∧
      (r.toNat : Int) = pyMod a.toNat b.toNat := by
  have := a.isLt
  refine ⟨BitVec.ofNat 64 (a.toNat / b.toNat), BitVec.ofNat 64 (a.toNat % b.toNat), by simp [idivmod_u, hb], ?_, ?_⟩
  · unfold pyFloorDiv
    rw [Int.fdiv_eq_ediv_of_nonneg _ (by omega), Int.ofNat_ediv_ofNat, BitVec.toNat_ofNat,
      Nat.mod_eq_of_lt (Nat.lt_of_le_of_lt (Nat.div_le_self _ _) a.isLt)]
  · unfold pyMod
    rw [Int.fmod_eq_emod_of_nonneg _ (by omega), ← Int.natCast_emod, BitVec.toNat_ofNat,
      Nat.mod_eq_of_lt (Nat.lt_of_le_of_lt (Nat.mod_le _ _) a.isLt)]



/-! ### power -/
theorem sq_pow (a : W) (k : Nat) : (a * a) ^ k = a ^ (2 * k) := by
  induction k with
  | zero => rfl
  | succ k ih =>
    rw [BitVec.pow_succ, ih, show 2 * (k + 1) = 2 * k + 1 + 1 by omega, BitVec.pow_succ, BitVec.pow_succ, BitVec.mul_assoc]

theorem powFast_eq (fuel : Nat) : ∀ (a : W) (n : Nat), n < 2 ^ fuel → powFast a fuel n = a ^ n := by
  induction fuel with
  | zero => intro a n h; have : n = 0 := by simpa using h
            subst this; rfl
  | succ fuel ih =>
    intro a n h
    unfold powFast
    by_cases h0 : n = 0
    · subst h0; rfl
    · have hlt : n / 2 < 2 ^ fuel := by rw [Nat.pow_succ] at h; omega
      simp only [h0, ↓reduceIte, ih (a * a) (n / 2) hlt, sq_pow]
      by_cases hodd : n % 2 = 1
      · simp only [hodd, ↓reduceIte]
        rw [← BitVec.pow_succ]; congr 1; omega
      · simp only [hodd, ↓reduceIte]; congr 1; omega

theorem ipow_eq (a b : W) : ipow a b = a ^ b.toNat :=
  powFast_eq 65 a b.toNat (Nat.lt_trans b.isLt (by decide))

theorem toInt_pow (a : W) (n : Nat) : (a ^ n).toInt = wrapS (pyPow a.toInt n) := by
  unfold pyPow wrapS
  induction n with
  | zero => simp
  | succ n ih =>
    rw [BitVec.pow_succ, BitVec.toInt_mul, ih, Int.pow_succ, Int.bmod_mul_bmod]

theorem ipow_toInt (a b : W) (h0 : 0 ≤ b.toInt) : (ipow a b).toInt = wrapS (pyPow a.toInt b.toInt.toNat) := by
  rw [ipow_eq, shift_count b h0]; exact toInt_pow a _

theorem toNat_pow' (a : W) (n : Nat) : ((a ^ n).toNat : Int) = wrapU (pyPow a.toNat n) := by
  unfold pyPow
  rw [wrapU_def]
  induction n with
  | zero => simp
  | succ n ih =>
    rw [BitVec.pow_succ, BitVec.toNat_mul, Int.natCast_emod, Int.natCast_mul, ih, Int.pow_succ]
    simp only [Nat.reducePow, Int.cast_ofNat_Int]
    rw [Int.mul_emod, Int.emod_emod_of_dvd _ (Int.dvd_refl _), ← Int.mul_emod]

theorem ipow_toNat (a b : W) : ((ipow a b).toNat : Int) = wrapU (pyPow a.toNat b.toNat) := by
  rw [ipow_eq]; exact toNat_pow' a _

/-! ### abs -/
theorem iabs_toInt (a : W) : (iabs a).toInt = wrapS (pyAbs a.toInt) := by
  unfold iabs pyAbs
  rw [BitVec.toInt_ofNat', wrapS]
  congr 1
  split <;> omega

/-! ### comparisons -/
theorem ilt_s_iff (a b : W) : ilt_s a b = decide (a.toInt < b.toInt) := rfl
theorem ile_s_iff (a b : W) : ile_s a b = decide (a.toInt ≤ b.toInt) := rfl
theorem igt_s_iff (a b : W) : igt_s a b = decide (a.toInt > b.toInt) := rfl
theorem ige_s_iff (a b : W) : ige_s a b = decide (a.toInt ≥ b.toInt) := rfl
theorem ilt_u_iff (a b : W) : ilt_u a b = decide (a.toNat < b.toNat) := rfl
theorem ile_u_iff (a b : W) : ile_u a b = decide (a.toNat ≤ b.toNat) := rfl
theorem igt_u_iff (a b : W) : igt_u a b = decide (a.toNat > b.toNat) := rfl
theorem ige_u_iff (a b : W) : ige_u a b = decide (a.toNat ≥ b.toNat) := rfl
theorem ieq_iff_toInt (a b : W) : ieq a b = decide (a.toInt = b.toInt) := by
  unfold ieq; by_cases h : a = b
  · simp [h]
  · have : a.toInt ≠ b.toInt := fun e => h (BitVec.toInt_inj.mp e)
    simp [h, this]
theorem ieq_iff_toNat (a b : W) : ieq a b = decide (a.toNat = b.toNat) := by
  unfold ieq; by_cases h : a = b
  · simp [h]
  · have : a.toNat ≠ b.toNat := fun e => h (BitVec.eq_of_toNat_eq e)
    simp [h, this]
theorem ine_iff_toInt (a b : W) : ine a b = decide (a.toInt ≠ b.toInt) := by
  have := ieq_iff_toInt a b; unfold ieq at this; unfold ine
  simp only [bne, this]; by_cases h : a.toInt = b.toInt <;> simp [h]
theorem ine_iff_toNat (a b : W) : ine a b = decide (a.toNat ≠ b.toNat) := by
  have := ieq_iff_toNat a b; unfold ieq at this; unfold ine
  simp only [bne, this]; by_cases h : a.toNat = b.toNat <;> simp [h]

/-! ### conversions -/
theorem is_to_u_nonneg (a : W) (h : 0 ≤ a.toInt) : is_to_u a = some a ∧ (a.toNat : Int) = a.toInt := by
  have hm : a.msb = false := by
    apply (BitVec.msb_eq_false_iff_two_mul_lt).mpr
    rcases toInt_cases a with ⟨_, h'⟩ | ⟨_, h'⟩ <;> omega
  refine ⟨by simp [is_to_u, hm], ?_⟩
  rcases toInt_cases a with ⟨_, h'⟩ | ⟨_, h'⟩ <;> omega

/-! ### the model of `idivmod_s` meets the shipped description
    ("signed q and unsigned r where q*m+r=n, 0<=r<m", divisor `m` read unsigned) -/
theorem idivmod_s_meets_description (n m q r : W) (h : idivmod_s n m = some (q, r)) :
    ∃ q' r' : Int, q' * (m.toNat : Int) + r' = n.toInt ∧ 0 ≤ r' ∧ r' < m.toNat ∧
      q = BitVec.ofInt 64 q' ∧ r = BitVec.ofInt 64 r' := by
  unfold idivmod_s at h
  by_cases hm : m.toNat = 0
  · simp [hm] at h
  · simp only [hm, ↓reduceIte, Option.some.injEq, Prod.mk.injEq] at h
    have hpos : (0 : Int) < m.toNat := by omega
    refine ⟨n.toInt / m.toNat, n.toInt % m.toNat, ?_, Int.emod_nonneg _ (by omega), Int.emod_lt_of_pos _ hpos, h.1.symm, h.2.symm⟩
    rw [Int.mul_comm]; exact Int.mul_ediv_add_emod _ _

/-! ### an integer is determined by its bits -/
theorem pyBit_zero (x : Int) : pyBit x 0 = decide (x % 2 = 1) := by
  unfold pyBit; simp [Int.fdiv_eq_ediv_of_nonneg]

theorem pyBit_succ (x : Int) (i : Nat) : pyBit x (i + 1) = pyBit (x / 2) i := by
  unfold pyBit
  rw [Int.fdiv_eq_ediv_of_nonneg _ (by exact Int.le_of_lt (Int.pow_pos (by decide))),
      Int.fdiv_eq_ediv_of_nonneg _ (by exact Int.le_of_lt (Int.pow_pos (by decide))),
      Int.pow_succ, Int.mul_comm, ← Int.ediv_ediv_of_nonneg (by decide)]

theorem pyBit_ext_aux : ∀ (n : Nat) (x y : Int), -(n : Int) - 1 ≤ x → x ≤ n → -(n : Int) - 1 ≤ y → y ≤ n →
    (∀ i, pyBit x i = pyBit y i) → x = y := by
  intro n
  induction n using Nat.strongRecOn with
  | _ n ih =>
    intro x y hx1 hx2 hy1 hy2 h
    have h0 := h 0
    rw [pyBit_zero, pyBit_zero] at h0
    have hpar : x % 2 = y % 2 := by
      by_cases hx : x % 2 = 1 <;> by_cases hy : y % 2 = 1 <;> simp [hx, hy] at h0 <;> omega
    by_cases hn : n = 0
    · subst hn; omega
    · have hrec : x / 2 = y / 2 := by
        apply ih (n / 2) (by omega) (x / 2) (y / 2) <;> try omega
        intro i
        rw [← pyBit_succ, ← pyBit_succ]; exact h (i + 1)
      omega

/-- two integers with the same bits at every position are equal: `IsPyAnd z x y` etc. characterise `z` uniquely -/
theorem pyBit_ext (x y : Int) (h : ∀ i, pyBit x i = pyBit y i) : x = y :=
  pyBit_ext_aux (x.natAbs + y.natAbs) x y (by omega) (by omega) (by omega) (by omega) h


end GuppyVerif.IntSem
