import GuppyVerif.Spec.C12
/-! Lemmas for C12, part 1: basic facts and soundness of `unify`. -/
namespace GuppyVerif.Unify

theorem Tm.induct {P : Tm → Prop} (var : ∀ v, P (.var v)) (atom : ∀ a, P (.atom a))
    (node : ∀ h as, (∀ a ∈ as, P a) → P (.node h as)) (targ : ∀ t, P t → P (.targ t))
    (carg : ∀ c, P c → P (.carg c)) : ∀ t, P t := by
  intro t
  refine Tm.rec (motive_1 := P) (motive_2 := fun as => ∀ a ∈ as, P a) var atom ?_ targ carg ?_ ?_ t
  · intro h as ih; exact node h as ih
  · intro a ha; cases ha
  · intro a as iha ihas b hb
    cases hb with
    | head => exact iha
    | tail _ h => exact ihas b h

theorem varsList_eq (as : List Tm) : varsList as = as.flatMap Tm.vars := by
  induction as with
  | nil => simp [varsList]
  | cons a as ih => simp [varsList, ih]

theorem instList_eq (θ : V → Tm) (as : List Tm) : instList θ as = as.map (inst θ) := by
  induction as with
  | nil => simp [instList]
  | cons a as ih => simp [instList, ih]

theorem eraseList_eq (as : List Tm) : eraseList as = as.map erase := by
  induction as with
  | nil => simp [eraseList]
  | cons a as ih => simp [eraseList, ih]

theorem mem_varsList {y : V} {as : List Tm} : y ∈ varsList as ↔ ∃ a ∈ as, y ∈ a.vars := by
  simp [varsList_eq]

theorem lookup_cons (v w : V) (t : Tm) (σ : Subst) :
    lookup ((v, t) :: σ) w = if v = w then some t else lookup σ w := rfl

/-! ### substitution algebra -/

theorem inst_congr {θ θ' : V → Tm} : ∀ t : Tm, (∀ y ∈ t.vars, θ y = θ' y) → inst θ t = inst θ' t := by
  intro t
  induction t using Tm.induct with
  | var v => intro h; simpa [inst] using h v (by simp [Tm.vars])
  | atom a => intro _; simp [inst]
  | node h as ih =>
    intro hv
    simp only [inst, instList_eq]
    congr 1
    apply List.map_congr_left
    intro a ha
    exact ih a ha (fun y hy => hv y (by simp only [Tm.vars]; exact mem_varsList.mpr ⟨a, ha, hy⟩))
  | targ t ih => intro hv; simp only [inst]; rw [ih (fun y hy => hv y (by simpa [Tm.vars] using hy))]
  | carg t ih => intro hv; simp only [inst]; rw [ih (fun y hy => hv y (by simpa [Tm.vars] using hy))]

theorem inst_id_of : ∀ t : Tm, ∀ θ : V → Tm, (∀ y ∈ t.vars, θ y = .var y) → inst θ t = t := by
  intro t
  induction t using Tm.induct with
  | var v => intro θ h; simpa [inst] using h v (by simp [Tm.vars])
  | atom a => intro _ _; simp [inst]
  | node h as ih =>
    intro θ hv
    simp only [inst, instList_eq]
    congr 1
    conv => rhs; rw [← List.map_id as]
    apply List.map_congr_left
    intro a ha
    exact ih a ha θ (fun y hy => hv y (by simp only [Tm.vars]; exact mem_varsList.mpr ⟨a, ha, hy⟩))
  | targ t ih => intro θ hv; simp only [inst]; rw [ih θ (fun y hy => hv y (by simpa [Tm.vars] using hy))]
  | carg t ih => intro θ hv; simp only [inst]; rw [ih θ (fun y hy => hv y (by simpa [Tm.vars] using hy))]

theorem inst_inst (θ ρ : V → Tm) : ∀ t : Tm, inst ρ (inst θ t) = inst (fun v => inst ρ (θ v)) t := by
  intro t
  induction t using Tm.induct with
  | var v => simp [inst]
  | atom a => simp [inst]
  | node h as ih =>
    simp only [inst, instList_eq, List.map_map]
    congr 1
    apply List.map_congr_left
    intro a ha
    exact ih a ha
  | targ t ih => simp only [inst]; rw [ih]
  | carg t ih => simp only [inst]; rw [ih]

theorem mem_vars_inst {θ : V → Tm} {z : V} : ∀ t : Tm, z ∈ (inst θ t).vars → ∃ y ∈ t.vars, z ∈ (θ y).vars := by
  intro t
  induction t using Tm.induct with
  | var v => intro h; exact ⟨v, by simp [Tm.vars], by simpa [inst] using h⟩
  | atom a => intro h; simp [inst, Tm.vars] at h
  | node h as ih =>
    intro hz
    simp only [inst, Tm.vars, instList_eq] at hz
    obtain ⟨b, hb, hzb⟩ := mem_varsList.mp hz
    obtain ⟨a, ha, rfl⟩ := List.mem_map.mp hb
    obtain ⟨y, hy, hzy⟩ := ih a ha hzb
    exact ⟨y, by simp only [Tm.vars]; exact mem_varsList.mpr ⟨a, ha, hy⟩, hzy⟩
  | targ t ih => intro hz; simpa [Tm.vars] using ih (by simpa [inst, Tm.vars] using hz)
  | carg t ih => intro hz; simpa [Tm.vars] using ih (by simpa [inst, Tm.vars] using hz)

/-- erasing flags commutes with instantiation -/
theorem erase_inst (θ : V → Tm) : ∀ t : Tm, erase (inst θ t) = inst (fun v => erase (θ v)) (erase t) := by
  intro t
  induction t using Tm.induct with
  | var v => simp [inst, erase]
  | atom a => simp [inst, erase]
  | node h as ih =>
    simp only [inst, erase, instList_eq, eraseList_eq, List.map_map]
    congr 1
    apply List.map_congr_left
    intro a ha
    exact ih a ha
  | targ t ih => simp only [inst, erase]; rw [ih]
  | carg t ih => simp only [inst, erase]; rw [ih]

/-- instantiation respects identity-up-to-flags, in the term … -/
theorem FlagEq.inst {θ : V → Tm} {s t : Tm} (h : FlagEq s t) : FlagEq (inst θ s) (inst θ t) := by
  unfold FlagEq at *
  rw [erase_inst, erase_inst, h]

theorem varsList_map_congr (f : Tm → Tm) : ∀ as : List Tm, (∀ a ∈ as, (f a).vars = a.vars) →
    varsList (as.map f) = varsList as := by
  intro as
  induction as with
  | nil => intro _; rfl
  | cons a as ih =>
    intro h
    simp only [List.map, varsList]
    rw [h a (by simp), ih (fun b hb => h b (by simp [hb]))]

theorem vars_erase : ∀ t : Tm, (erase t).vars = t.vars := by
  intro t
  induction t using Tm.induct with
  | var v => simp [erase, Tm.vars]
  | atom a => simp [erase, Tm.vars]
  | node h as ih =>
    simp only [erase, Tm.vars, eraseList_eq]
    exact varsList_map_congr erase as ih
  | targ t ih => simpa [erase, Tm.vars] using ih
  | carg t ih => simpa [erase, Tm.vars] using ih

theorem mem_le_sum_map (r : V → Nat) : ∀ (l : List V) (y : V), y ∈ l → r y ≤ (l.map r).sum := by
  intro l
  induction l with
  | nil => intro y h; cases h
  | cons a l ih =>
    intro y h
    simp only [List.map, List.sum_cons]
    cases h with
    | head => omega
    | tail _ h => have := ih y h; omega

/-- … and in the assignment -/
theorem erase_inst_congr {θ θ' : V → Tm} (t : Tm) (h : ∀ y ∈ t.vars, erase (θ y) = erase (θ' y)) :
    erase (inst θ t) = erase (inst θ' t) := by
  rw [erase_inst, erase_inst]
  apply inst_congr
  intro y hy
  exact h y (by rw [← vars_erase t]; exact hy)

/-! ### solutions -/

theorem Extends.refl (σ : Subst) : Extends σ σ := fun _ _ h => h
theorem Extends.trans {a b c : Subst} (h₁ : Extends a b) (h₂ : Extends b c) : Extends a c :=
  fun v u h => h₂ v u (h₁ v u h)
theorem Solves.of_extends {θ : V → Tm} {σ σ' : Subst} (h : Solves θ σ') (e : Extends σ σ') : Solves θ σ :=
  fun v u hv => h v u (e v u hv)

theorem Extends.cons {σ : Subst} {v : V} (t : Tm) (h : lookup σ v = none) : Extends σ ((v, t) :: σ) := by
  intro w u hw
  rw [lookup_cons]
  by_cases e : v = w
  · subst e; rw [h] at hw; cases hw
  · simp [e, hw]

/-! ### reachability, occurs check, acyclicity -/

/-- `Reach σ x z`: from `x` one gets to `z` following bindings (`x ↦ u`, then a variable of `u`) -/
inductive Reach (σ : Subst) : V → V → Prop
  | refl (x : V) : Reach σ x x
  | step {x y z : V} {u : Tm} : lookup σ x = some u → y ∈ u.vars → Reach σ y z → Reach σ x z

theorem firstM_false {f : V → Option Bool} : ∀ {ys : List V}, firstM f ys = some false → ∀ y ∈ ys, f y = some false := by
  intro ys
  induction ys with
  | nil => intro _ y hy; cases hy
  | cons a as ih =>
    intro h y hy
    simp only [firstM] at h
    cases hfa : f a with
    | none => simp [hfa] at h
    | some b =>
      cases b with
      | true => simp [hfa] at h
      | false =>
        simp only [hfa] at h
        cases hy with
        | head => exact hfa
        | tail _ hy => exact ih h y hy

/-- a negative occurs check means the variable cannot be reached from the term -/
theorem occurs_false {σ : Subst} {v : V} : ∀ (n : Nat) (t : Tm), occurs n σ v t = some false →
    ∀ y ∈ t.vars, ¬ Reach σ y v := by
  intro n
  induction n with
  | zero => intro t h; simp [occurs] at h
  | succ n ih =>
    intro t h y hy hr
    simp only [occurs] at h
    have hy' := firstM_false h y hy
    cases hr with
    | refl => simp at hy'
    | step hl hm hr' =>
      rename_i z u
      by_cases e : y = v
      · simp [e] at hy'
      · simp only [e, if_false, hl] at hy'
        exact ih u hy' z hm hr'

/-- binding an unbound variable to a term from which it cannot be reached keeps the substitution acyclic -/
theorem Acyclic.cons {σ : Subst} {v : V} {t : Tm} (ha : Acyclic σ)
    (hno : ∀ y ∈ t.vars, ¬ Reach σ y v) : Acyclic ((v, t) :: σ) := by
  obtain ⟨r, hr⟩ := ha
  classical
  let K := 1 + (t.vars.map r).sum
  refine ⟨fun x => r x + (if Reach σ x v then K else 0), ?_⟩
  intro x u hx y hy
  rw [lookup_cons] at hx
  by_cases e : v = x
  · subst e
    simp only [if_true, Option.some.injEq] at hx
    subst hx
    have h1 : ¬ Reach σ y v := hno y hy
    have h2 : Reach σ v v := Reach.refl v
    have h3 : r y < K := by
      have : r y ≤ (t.vars.map r).sum := mem_le_sum_map r _ y hy
      omega
    simp only [h1, h2, if_true, if_false]
    omega
  · simp only [e, if_false] at hx
    have h1 := hr x u hx y hy
    by_cases hyv : Reach σ y v
    · have hxv : Reach σ x v := Reach.step hx hy hyv
      simp only [hyv, hxv, if_true]
      omega
    · simp only [hyv, if_false]
      omega

end GuppyVerif.Unify
