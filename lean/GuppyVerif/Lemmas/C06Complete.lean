import GuppyVerif.Lemmas.C06Sound
import GuppyVerif.Lemmas.C06Fail
import GuppyVerif.Lemmas.C06TermFlow
/-! C06 helper lemmas, part 5: completeness.  If every path is good (`Good P`) then no step of
    `checkCfg` can raise a user error: a pass-1 error would be a bookkeeping failure and hence a
    bad path (C06Fail); a pass-2 error would be a leaf that is absent but read later, or owned but
    dead, on the walk that reaches the block. -/
namespace GuppyVerif.Linearity

open GuppyVerif.Dataflow (LiveSpec LivePath InfPath Edge)

/-- the exit can be reached from this block -/
inductive ReachExit (P : Prog) : Blk → Prop
  | exit : ReachExit P P.exit
  | step {b c : Blk} : c ∈ P.succ b → ReachExit P c → ReachExit P b

/-- the shape outside the two known completeness gaps of the code (G1, G2: borrowed arguments
    in functions with non-terminating regions): no borrowed linear leaf at all, or the exit is
    reachable from every block (and flagged so) -/
def NoGap (P : Prog) : Prop :=
  P.borrowedLeaves = [] ∨ (P.exitReachable = true ∧ ∀ b ∈ P.blocks, ReachExit P b)

/-! ### monadic list helpers (error side) -/

theorem bind_err_unit {x y : R Unit} {e : Err} (h : (x >>= fun _ => y) = .error e) :
    x = .error e ∨ (x = .ok () ∧ y = .error e) := by
  cases x with
  | error e' => simp [bind, Except.bind] at h; exact Or.inl (by rw [h])
  | ok u => cases u; simp [bind, Except.bind] at h; exact Or.inr ⟨rfl, h⟩

theorem forM_err {α : Type} (f : α → R Unit) {e : Err} : ∀ (l : List α), l.forM f = .error e →
    ∃ a ∈ l, f a = .error e := by
  intro l
  induction l with
  | nil => intro h; simp [pure, Except.pure] at h
  | cons a l ih =>
    intro h
    have : (a :: l).forM f = (f a >>= fun _ => l.forM f) := rfl
    rw [this] at h
    rcases bind_err_unit h with h | ⟨_, h⟩
    · exact ⟨a, List.mem_cons_self, h⟩
    · obtain ⟨b, hb, hf⟩ := ih h
      exact ⟨b, List.mem_cons_of_mem _ hb, hf⟩

theorem mapM_err {α β : Type} (f : α → R β) {e : Err} : ∀ (l : List α), l.mapM f = .error e →
    ∃ a ∈ l, f a = .error e := by
  intro l
  induction l with
  | nil => intro h; simp [pure, Except.pure] at h
  | cons a l ih =>
    intro h
    rw [List.mapM_cons] at h
    cases h1 : f a with
    | error e1 =>
      simp [h1, bind, Except.bind] at h
      exact ⟨a, List.mem_cons_self, by rw [h1, h]⟩
    | ok b =>
      cases h2 : l.mapM f with
      | error e2 =>
        simp [h1, h2, bind, Except.bind] at h
        obtain ⟨c, hc, hf⟩ := ih (by rw [h2, h])
        exact ⟨c, List.mem_cons_of_mem _ hc, hf⟩
      | ok bs => simp [h1, h2, bind, Except.bind, pure, Except.pure] at h

theorem foldlM_use_err : ∀ (ls : List Leaf) (s : Scope) (e : Err), ls.foldlM Scope.use s = .error e → e = .crash := by
  intro ls
  induction ls with
  | nil => intro s e h; simp [pure, Except.pure] at h
  | cons x ls ih =>
    intro s e h
    rw [List.foldlM_cons] at h
    cases h1 : s.use x with
    | error e1 =>
      rw [h1] at h
      simp only [bind, Except.bind] at h
      cases h
      unfold Scope.use at h1
      split at h1
      · cases h1
      · split at h1
        · cases h1
        · cases h1; rfl
    | ok s1 => rw [h1] at h; exact ih s1 e h

theorem crun_use_first {inPar : Bool} {es : List Ev} {c1 : LSt}
    (h : crun inPar ⟨false, false, false⟩ (Ev.use :: es) = some c1) : c1.usedParent = true := by
  cases inPar with
  | false => simp [crun, cstep] at h
  | true =>
    simp only [crun, cstep] at h
    exact (crun_mono h).2.1 rfl

/-! ### walks and the ownership state -/

theorem walk_entry' {P : Prog} (hw : P.WF) {bs : List Blk} {b : Blk} (h : Walk P bs b) :
    b = P.entry → bs = [] := by
  cases h with
  | entry => exact fun _ => rfl
  | @step bs b c hwk hcb => exact fun e => absurd (e ▸ hcb) (hw.entryNoPred b (walk_blocks hw hwk))

theorem trace_snoc (P : Prog) (l : Leaf) (bs : List Blk) (b : Blk) :
    P.trace l (bs ++ [b]) = P.trace l bs ++ P.blockEvs l b := by
  unfold Prog.trace; simp

/-- the bookkeeping a block starts from is related to whatever ownership state a walk arrives with -/
theorem rel_init {P : Prog} (hw : P.WF) {l : Leaf} {bs : List Blk} {b : Blk} (hwk : Walk P bs b) {o : Bool}
    (ho : runEvs (P.initOwned l) (P.trace l bs) = some o) : Rel o ((initScope P b).proj l) o := by
  by_cases he : b = P.entry
  · have := walk_entry' hw hwk he
    subst this
    subst he
    simp [Prog.trace, runEvs] at ho
    subst ho
    unfold Rel initScope Scope.proj Prog.initOwned
    by_cases hr : (P.row P.entry).contains l = true <;> simp [hr]
  · simp [Rel, initScope, Scope.proj, he]

section
variable {P : Prog} (hw : P.WF) (hg : Good P) {l : Leaf} (hl : P.lin l = true)
include hw hg hl

/-- a good program runs through every walk: state before and after the last block -/
theorem good_run {bs : List Blk} {b : Blk} (hwk : Walk P bs b) :
    ∃ o o1, runEvs (P.initOwned l) (P.trace l bs) = some o ∧ runEvs o (P.blockEvs l b) = some o1 ∧
      runEvs (P.initOwned l) (P.trace l (bs ++ [b])) = some o1 := by
  have h := (hg.leaves l hl).noBadUse bs b hwk
  rw [trace_snoc, runEvs_append] at h
  cases ho : runEvs (P.initOwned l) (P.trace l bs) with
  | none => simp [ho] at h
  | some o =>
    simp only [ho, Option.bind] at h
    cases ho1 : runEvs o (P.blockEvs l b) with
    | none => exact absurd ho1 h
    | some o1 =>
      refine ⟨o, o1, rfl, ho1, ?_⟩
      rw [trace_snoc, runEvs_append, ho]
      simpa using ho1

/-- absent, but some continuation reads it: impossible in a good program -/
theorem absent_willUse {bs : List Blk} {b : Blk} (hwk : Walk P bs b)
    (ho : runEvs (P.initOwned l) (P.trace l bs) = some false) (hu : WillUse P l b) : False := by
  induction hu generalizing bs with
  | @here b hh =>
    obtain ⟨o, o1, h1, h2, _⟩ := good_run hw hg hl hwk
    rw [ho] at h1
    cases h1
    cases hev : P.blockEvs l b with
    | nil => simp [hev] at hh
    | cons e es =>
      simp [hev] at hh
      subst hh
      simp [hev, runEvs, Ev.step] at h2
  | @later b c hev hcb _ ih =>
    refine ih (Walk.step hwk hcb) ?_
    rw [trace_snoc, hev, List.append_nil]
    exact ho

/-- an owned borrowed leaf from where the exit can be reached is read on the way (at the latest
    when it is handed back) -/
theorem present_reachExit {bs : List Blk} {b : Blk} (hwk : Walk P bs b)
    (ho : runEvs (P.initOwned l) (P.trace l bs) = some true) (hb : l ∈ P.borrowedLeaves)
    (hre : ReachExit P b) : WillUse P l b := by
  induction hre generalizing bs with
  | exit =>
    refine .here ?_
    unfold Prog.blockEvs
    rw [hw.exitStmts]
    simp [hb]
  | @step b c hcb _ ih =>
    cases hev : P.blockEvs l b with
    | nil =>
      refine .later hev hcb (ih (Walk.step hwk hcb) ?_)
      rw [trace_snoc, hev, List.append_nil]
      exact ho
    | cons e es =>
      cases e with
      | use => exact .here (by rw [hev]; rfl)
      | give => exact absurd (by rw [hev]; rfl) (blockEvs_head_ne_give P l b)
      | asg =>
        obtain ⟨o, o1, h1, h2, _⟩ := good_run hw hg hl hwk
        rw [ho] at h1
        cases h1
        simp [hev, runEvs, Ev.step] at h2

end

/-! ### pass 1 cannot raise a user error on a good program -/

theorem checkBlock_no_user_err {P : Prog} (hw : P.WF) (hg : Good P)
    (hr : ∀ b ∈ P.blocks, b ≠ P.exit → Reachable P b) {b : Blk} (hb : b ∈ P.blocks) {e : Err}
    (h : checkBlock P b = .error e) : e = .crash := by
  by_cases hbe : b = P.exit
  · subst hbe
    unfold checkBlock at h
    rw [hw.exitStmts] at h
    simp [pure, Except.pure] at h
  · obtain ⟨bs, hwk⟩ := hr b hb hbe
    rcases checkBlock_err h with h' | ⟨st, hst, hs⟩ | ⟨l, hl, hf⟩
    · exact h'
    · exact absurd (hg.rules b ⟨bs, hwk⟩ st hst) hs
    · exfalso
      obtain ⟨o, o1, h1, h2, _⟩ := good_run hw hg hl hwk
      have := fails_sem (more := if b = P.exit ∧ l ∈ P.borrowedLeaves then [Ev.use] else []) hf (rel_init hw hwk h1)
      unfold Prog.blockEvs at h2
      rw [this] at h2
      cases h2

theorem scopes_no_user_err {P : Prog} (hw : P.WF) (hg : Good P)
    (hr : ∀ b ∈ P.blocks, b ≠ P.exit → Reachable P b) {e : Err} (h : scopes P = .error e) : e = .crash := by
  unfold scopes at h
  cases h1 : pass1 P with
  | error e1 =>
    simp only [h1, bind, Except.bind] at h
    cases h
    unfold pass1 at h1
    obtain ⟨b, hb, hf⟩ := mapM_err _ _ h1
    cases h2 : checkBlock P b with
    | error e2 =>
      simp [h2, Except.map] at hf
      subst hf
      exact checkBlock_no_user_err hw hg hr hb h2
    | ok s => simp [h2, Except.map] at hf
  | ok tbl1 =>
    simp only [h1, bind, Except.bind] at h
    obtain ⟨q, _, hf⟩ := mapM_err _ _ h
    unfold amendExit at hf
    split at hf
    · cases h2 : exitUse P q.2 with
      | error e2 =>
        simp [h2, Except.map] at hf
        subst hf
        exact foldlM_use_err _ _ _ h2
      | ok s => simp [h2, Except.map] at hf
    · cases hf

/-! ### pass 2 cannot raise a user error on a good program -/

section
variable {P : Prog} (hw : P.WF) (hg : Good P) (C : PreCert P) (hi : C.init = []) {l : Leaf} (hl : P.lin l = true)
include hw hg C hi hl

theorem live_willUse {b : Blk} (hb : b ∈ P.blocks) (h : l ∈ C.live b) : WillUse P l b := by
  rcases (C.liveOK b hb l).mp h with h | ⟨h, _⟩
  · exact willUse_of_livePath hw C hl hb h
  · rw [hi] at h; cases h

theorem willUse_live {b : Blk} (hb : b ∈ P.blocks) (hbe : b ≠ P.entry) (h : WillUse P l b) : l ∈ C.live b := by
  induction h with
  | @here b hh =>
    obtain ⟨_, h2⟩ := blk_run hw C hl hb
    rw [(c0_other hw hl hbe).1] at h2
    cases hev : P.blockEvs l b with
    | nil => simp [hev] at hh
    | cons e es =>
      simp [hev] at hh
      subst hh
      rw [hev] at h2
      exact live_of_used C.liveOK hb (by simpa [Scope.proj] using crun_use_first h2)
  | @later b c hev hcb _ ih =>
    have hc : c ∈ P.blocks := hw.closed b hb c hcb
    have hce : c ≠ P.entry := fun e => hw.entryNoPred b hb (e ▸ hcb)
    obtain ⟨_, h2⟩ := blk_run hw C hl hb
    rw [(c0_other hw hl hbe).1, hev] at h2
    simp [crun] at h2
    refine live_of_succ C.liveOK hw.closed hb hcb (ih hc hce) ?_
    intro hv
    have : ((C.sc b).proj l).inVars = true := by simp [Scope.proj, hv]
    rw [← h2] at this
    cases this

/-- the ownership state after block `b` on a walk, related to the bookkeeping of `b` -/
theorem good_after {bs : List Blk} {b : Blk} (hwk : Walk P bs b) :
    ∃ o o1, runEvs (P.initOwned l) (P.trace l bs) = some o ∧
      runEvs (P.initOwned l) (P.trace l (bs ++ [b])) = some o1 ∧ Rel o ((C.sc b).proj l) o1 := by
  obtain ⟨o, o1, h1, h2, h3⟩ := good_run hw hg hl hwk
  obtain ⟨_, hc⟩ := blk_run hw C hl (walk_blocks hw hwk)
  exact ⟨o, o1, h1, h3, rel_run _ _ _ _ _ hc h2 (rel_init hw hwk h1)⟩

theorem no_usedThenLive {b c : Blk} (hb : b ∈ P.blocks) (hrb : Reachable P b) (hcb : c ∈ P.succ b)
    (hlc : l ∈ C.live c) (hu : (C.sc b).used l = some true) : False := by
  obtain ⟨bs, hwk⟩ := hrb
  obtain ⟨o, o1, _, h2, hr⟩ := good_after hw hg C hi hl hwk
  have ho1 : o1 = false := by
    rw [used_proj hw hl] at hu
    unfold Rel at hr
    cases hv : ((C.sc b).proj l).inVars with
    | true =>
      simp only [hv, if_true] at hr hu
      simp at hu
      simp [hr, hu]
    | false =>
      simp only [hv, Bool.false_eq_true, if_false] at hr hu
      split at hu
      · simp at hu
        simpa [hu] using hr
      · cases hu
  subst ho1
  exact absurd_willUse hw hg hl (Walk.step hwk hcb) h2
    (live_willUse hw hg C hi hl (hw.closed b hb c hcb) hlc)
where
  absurd_willUse {P : Prog} (hw : P.WF) (hg : Good P) {l : Leaf} (hl : P.lin l = true) {bs : List Blk} {b : Blk}
      (hwk : Walk P bs b) (ho : runEvs (P.initOwned l) (P.trace l bs) = some false) (hu : WillUse P l b) : False :=
    absent_willUse hw hg hl hwk ho hu

theorem no_leak_err (hgap : NoGap P) {b c : Blk} (hb : b ∈ P.blocks) (hrb : Reachable P b) (hcb : c ∈ P.succ b)
    (hlive : l ∈ C.live b ∨ l ∈ (C.sc b).vars) (hu : (C.sc b).used l = some false) : l ∈ C.live c := by
  obtain ⟨bs, hwk⟩ := hrb
  obtain ⟨o, o1, h1, h2, hr⟩ := good_after hw hg C hi hl hwk
  have hc : c ∈ P.blocks := hw.closed b hb c hcb
  have hce : c ≠ P.entry := fun e => hw.entryNoPred b hb (e ▸ hcb)
  have ho1 : o1 = true := by
    rw [used_proj hw hl] at hu
    unfold Rel at hr
    cases hv : ((C.sc b).proj l).inVars with
    | true =>
      simp only [hv, if_true] at hr hu
      simp at hu
      simp [hr, hu]
    | false =>
      simp only [hv, Bool.false_eq_true, if_false] at hr hu
      split at hu
      · simp at hu
        simp only [hu, Bool.false_eq_true, if_false] at hr
        subst hr
        cases ho : o1 with
        | true => rfl
        | false =>
          exfalso
          subst ho
          have hlb : l ∈ C.live b := by
            rcases hlive with h | h
            · exact h
            · simp [Scope.proj, h] at hv
          exact absent_willUse hw hg hl hwk h1 (live_willUse hw hg C hi hl hb hlb)
      · cases hu
  subst ho1
  rcases (hg.leaves l hl).noLeak _ c (Walk.step hwk hcb) h2 with h | ⟨hbl, _⟩
  · exact willUse_live hw hg C hi hl hc hce h
  · rcases hgap with h | ⟨_, h⟩
    · rw [h] at hbl; cases hbl
    · exact willUse_live hw hg C hi hl hc hce
        (present_reachExit hw hg hl (Walk.step hwk hcb) h2 hbl (h c hc))

end

theorem checkLiveUsed_err {P : Prog} {s : Scope} {x : Leaf} {e : Err} (h : checkLiveUsed P s x = .error e) :
    e = .crash ∨ (P.lin x = true ∧ s.used x = some true) := by
  unfold checkLiveUsed at h
  split at h
  · rename_i hl
    cases hu : s.used x with
    | none => simp [hu] at h; exact Or.inl h.symm
    | some u => cases u with
      | true => exact Or.inr ⟨hl, rfl⟩
      | false => simp [hu] at h
  · cases h

theorem checkLeak_err {P : Prog} {live : Blk → List Leaf} {b : Blk} {s : Scope} {x : Leaf} {e : Err}
    (h : checkLeak P live b s x = .error e) :
    e = .crash ∨ (P.lin x = true ∧ (x ∈ live b ∨ x ∈ s.vars) ∧ s.used x = some false ∧
      ∃ c ∈ P.succ b, x ∉ live c) := by
  unfold checkLeak at h
  split at h
  · cases h
  · rename_i hskip
    cases hu : s.used x with
    | none => simp [hu] at h; exact Or.inl h.symm
    | some u =>
      simp only [hu] at h
      split at h
      · rename_i hc
        simp only [Bool.and_eq_true, Bool.not_eq_true', List.all_eq_false] at hc
        obtain ⟨⟨hl, hu'⟩, c, hc1, hc2⟩ := hc
        subst hu'
        refine Or.inr ⟨hl, ?_, rfl, c, hc1, by simpa using hc2⟩
        simp only [Bool.and_eq_true, Bool.not_eq_true', not_and, Bool.not_eq_false] at hskip
        by_cases hlv : x ∈ live b
        · exact Or.inl hlv
        · right
          have := hskip (by simpa using hlv)
          simpa using this
      · cases h

theorem checkEdges_no_user_err {P : Prog} (hw : P.WF) (hg : Good P) (C : PreCert P) (hi : C.init = [])
    (hgap : NoGap P) (hr : ∀ b ∈ P.blocks, b ≠ P.exit → Reachable P b) {b : Blk} (hb : b ∈ P.blocks) {e : Err}
    (h : checkEdges P C.live b (C.sc b) = .error e) : e = .crash := by
  have hreach : ∀ c, c ∈ P.succ b → Reachable P b := by
    intro c hc
    refine hr b hb ?_
    intro he
    rw [he, hw.exitSucc] at hc
    cases hc
  unfold checkEdges at h
  rcases bind_err_unit h with h | ⟨_, h⟩
  · obtain ⟨c, hc, h⟩ := forM_err _ _ h
    obtain ⟨x, hx, h⟩ := forM_err _ _ h
    rcases checkLiveUsed_err h with h | ⟨hl, hu⟩
    · exact h
    · exact (no_usedThenLive hw hg C hi hl hb (hreach c hc) hc hx hu).elim
  · rcases bind_err_unit h with h | ⟨_, h⟩
    · obtain ⟨x, _, h⟩ := forM_err _ _ h
      rcases checkLeak_err h with h | ⟨hl, hlive, hu, c, hc, hx⟩
      · exact h
      · exact absurd (no_leak_err hw hg C hi hl hgap hb (hreach c hc) hc hlive hu) hx
    · rcases bind_err_unit h with h | ⟨_, h⟩
      · unfold checkInRow at h
        split at h
        · cases h
        · obtain ⟨x, _, h⟩ := forM_err _ _ h
          split at h
          · cases h
          · cases h; rfl
      · unfold checkOutRows at h
        obtain ⟨c, _, h⟩ := forM_err _ _ h
        split at h
        · cases h
        · obtain ⟨x, _, h⟩ := forM_err _ _ h
          split at h
          · cases h
          · cases h; rfl

theorem liveDefault_nil {P : Prog} (hgap : NoGap P) : liveDefault P = [] := by
  unfold liveDefault
  rcases hgap with h | ⟨h, _⟩
  · simp [h]
  · simp [h]

/-- no user error anywhere in `checkCfg` on a good program outside the known gaps -/
theorem checkCfg_no_user_err {P : Prog} (hw : P.WF) (hr : ∀ b ∈ P.blocks, b ≠ P.exit → Reachable P b)
    (hgap : NoGap P) (hg : Good P) {e : Err} (h : checkCfg P = .error e) : e = .crash := by
  unfold checkCfg at h
  cases h1 : scopes P with
  | error e1 =>
    simp only [h1, bind, Except.bind] at h
    cases h
    exact scopes_no_user_err hw hg hr h1
  | ok tbl =>
    simp only [h1, bind, Except.bind] at h
    obtain ⟨s1, s2, _⟩ := scopes_ok h1
    cases h2 : Dataflow.liveRun (flowCfg P (lookup tbl)) headSched
        (liveFuel (flowCfg P (lookup tbl)) (liveDefault P))
        (Dataflow.liveInit (flowCfg P (lookup tbl)) (liveDefault P)) with
    | none =>
      have := liveRun_flow_isSome P (lookup tbl) (liveDefault P) headSched
      rw [h2] at this
      cases this
    | some t =>
      simp only [h2] at h
      obtain ⟨q, hq, h⟩ := forM_err _ _ h
      let C : PreCert P := ⟨lookup tbl, t.vals, liveDefault P, s1, liveOK_of_run hw.closed _ _ _ _ _ h2,
        by rw [liveDefault_nil hgap]; intro x hx; cases hx⟩
      have h' : checkEdges P C.live q.1 (C.sc q.1) = .error e := by
        show checkEdges P t.vals q.1 (lookup tbl q.1) = .error e
        rw [← (s2 q hq).2]; exact h
      exact checkEdges_no_user_err hw hg C (liveDefault_nil hgap) hgap hr (s2 q hq).1 h'

end GuppyVerif.Linearity
