import GuppyVerif.Lemmas.C06Sound
import GuppyVerif.Lemmas.C06Fail
import GuppyVerif.Lemmas.C06TermFlow
/-! C06 helper lemmas, part 5: completeness.  If every path is good (`Good P`) and the CFG is
    well-kinded, no step of `checkCfg` can raise a user error: a pass-1 error would be a
    bookkeeping failure and hence a bad path (C06Fail); a pass-2 error would be a leaf that is
    absent but read later, or held but dead, on the walk that reaches the block. -/
namespace GuppyVerif.Linearity

open GuppyVerif.Dataflow (LiveSpec LivePath InfPath Edge)

/-- the exit can be reached from this block -/
inductive ReachExit (P : Prog) : Blk → Prop
  | exit : ReachExit P P.exit
  | step {b c : Blk} : c ∈ P.succ b → ReachExit P c → ReachExit P b

/-- the shape outside the two known completeness gaps of the code (G1, G2: borrowed arguments
    in functions with non-terminating regions): no borrowed leaf at all, or the exit is
    reachable from every block (and flagged so) -/
def NoGap (P : Prog) : Prop :=
  P.borrowedLeaves = [] ∨ (P.exitReachable = true ∧ ∀ b ∈ P.blocks, ReachExit P b)

/-! ### monadic list helpers (error side) -/

theorem bind_err_unit {x y : R Unit} {e : Err} (h : (x >>= fun _ => y) = .error e) :
    x = .error e ∨ (x = .ok () ∧ y = .error e) := by
  cases x with
  | error e' => simp [bind, Except.bind] at h; exact Or.inl (by rw [h])
  | ok u => cases u; simp [bind, Except.bind] at h; exact Or.inr ⟨rfl, h⟩

theorem forM_err {α : Type} (f : α → R Unit) {e : Err} : ∀ (l : List α), l.forM f = .error e →
    ∃ a ∈ l, f a = .error e := by
  intro l
  induction l with
  | nil => intro h; simp [pure, Except.pure] at h
  | cons a l ih =>
    intro h
    have : (a :: l).forM f = (f a >>= fun _ => l.forM f) := rfl
    rw [this] at h
    rcases bind_err_unit h with h | ⟨_, h⟩
    · exact ⟨a, List.mem_cons_self, h⟩
    · obtain ⟨b, hb, hf⟩ := ih h
      exact ⟨b, List.mem_cons_of_mem _ hb, hf⟩

theorem mapM_err {α β : Type} (f : α → R β) {e : Err} : ∀ (l : List α), l.mapM f = .error e →
    ∃ a ∈ l, f a = .error e := by
  intro l
  induction l with
  | nil => intro h; simp [pure, Except.pure] at h
  | cons a l ih =>
    intro h
    rw [List.mapM_cons] at h
    cases h1 : f a with
    | error e1 =>
      simp [h1, bind, Except.bind] at h
      exact ⟨a, List.mem_cons_self, by rw [h1, h]⟩
    | ok b =>
      cases h2 : l.mapM f with
      | error e2 =>
        simp [h1, h2, bind, Except.bind] at h
        obtain ⟨c, hc, hf⟩ := ih (by rw [h2, h])
        exact ⟨c, List.mem_cons_of_mem _ hc, hf⟩
      | ok bs => simp [h1, h2, bind, Except.bind, pure, Except.pure] at h

theorem foldlM_use_err : ∀ (ls : List Leaf) (s : Scope) (e : Err), ls.foldlM Scope.use s = .error e → e = .crash := by
  intro ls
  induction ls with
  | nil => intro s e h; simp [pure, Except.pure] at h
  | cons x ls ih =>
    intro s e h
    rw [List.foldlM_cons] at h
    cases h1 : s.use x with
    | error e1 =>
      rw [h1] at h
      simp only [bind, Except.bind] at h
      cases h
      unfold Scope.use at h1
      split at h1
      · cases h1
      · split at h1
        · cases h1
        · cases h1; rfl
    | ok s1 => rw [h1] at h; exact ih s1 e h

theorem crun_use_first {inPar : Bool} {es : List Ev} {c1 : LSt} {k : Bool}
    (h : crun inPar ⟨false, false, false, false⟩ (⟨Op.use, k⟩ :: es) = some c1) : c1.usedParent = true := by
  cases inPar with
  | false => simp [crun, cstep] at h
  | true =>
    simp only [crun, cstep] at h
    exact (crun_mono h).2.1 rfl

theorem trace_snoc (P : Prog) (l : Leaf) (bs : List Blk) (b : Blk) :
    P.trace l (bs ++ [b]) = P.trace l bs ++ P.blockEvs l b := by
  unfold Prog.trace; simp

/-! ### well-kinded CFGs: the rows cover what is read -/

theorem rowKind_some {P : Prog} {b : Blk} {l : Leaf} {k : Bool} (h : P.rowKind b l = some k) : l ∈ P.row b := by
  unfold Prog.rowKind at h
  by_cases hr : l ∈ P.row b
  · exact hr
  · simp [hr] at h

theorem rowKind_of_mem {P : Prog} {b : Blk} {l : Leaf} (h : l ∈ P.row b) : ∃ k, P.rowKind b l = some k := by
  unfold Prog.rowKind
  simp [h]

/-- a leaf that some continuation reads before redefining it is in the block's input row, at the
    kind of the reading occurrence -/
theorem willUse_row {P : Prog} (hw : P.WF) (hk : P.KindsOK) {l : Leaf} {b : Blk} (hb : b ∈ P.blocks)
    (h : WillUse P l b) : l ∈ P.row b := by
  induction h with
  | @here b hh =>
    obtain ⟨k1, hk1, _⟩ := hk.blocks l b hb
    cases hev : P.blockEvs l b with
    | nil => simp [hev] at hh
    | cons e es =>
      rw [hev] at hk1 hh
      simp at hh
      simp only [krun] at hk1
      cases hke : Ev.kstep (P.rowKind b l) e with
      | none => simp [hke] at hk1
      | some k' =>
        unfold Ev.kstep at hke
        have hop : e.op = Op.use := by
          rcases e with ⟨op, el⟩
          cases op <;> simp [Ev.isUse] at hh ⊢
        simp only [hop] at hke
        split at hke
        · rename_i hc
          exact rowKind_some hc
        · cases hke
  | @later b c hev hcb _ ih =>
    obtain ⟨k1, hk1, hs⟩ := hk.blocks l b hb
    rw [hev] at hk1
    simp [krun] at hk1
    have hc := ih (hw.closed b hb c hcb)
    have := hs c hcb hc
    rw [← hk1] at this
    obtain ⟨k, hkc⟩ := rowKind_of_mem (b := c) hc
    rw [hkc] at this
    exact rowKind_some this.symm

section
variable {P : Prog} (hw : P.WF) (hk : P.KindsOK) (hg : Good P) {l : Leaf}
include hw hg

/-- a good program runs through every walk: state before and after the last block -/
theorem good_run {bs : List Blk} {b : Blk} (hwk : Walk P bs b) :
    ∃ o o1, runEvs (P.initOwned l) (P.trace l bs) = some o ∧ runEvs o (P.blockEvs l b) = some o1 ∧
      runEvs (P.initOwned l) (P.trace l (bs ++ [b])) = some o1 := by
  have h := (hg.leaves l).noBadUse bs b hwk
  rw [trace_snoc, runEvs_append] at h
  cases ho : runEvs (P.initOwned l) (P.trace l bs) with
  | none => simp [ho] at h
  | some o =>
    simp only [ho, Option.bind] at h
    cases ho1 : runEvs o (P.blockEvs l b) with
    | none => exact absurd ho1 h
    | some o1 =>
      refine ⟨o, o1, rfl, ho1, ?_⟩
      rw [trace_snoc, runEvs_append, ho]
      simpa using ho1

/-- a held borrowed leaf from where the exit can be reached is read on the way (at the latest
    when it is handed back) -/
theorem present_reachExit {bs : List Blk} {b : Blk} (hwk : Walk P bs b)
    (ho : runEvs (P.initOwned l) (P.trace l bs) = some true) (hb : l ∈ P.borrowedLeaves)
    (hre : ReachExit P b) : WillUse P l b := by
  induction hre generalizing bs with
  | exit =>
    refine .here ?_
    unfold Prog.blockEvs
    rw [hw.exitStmts]
    simp [hb, Ev.isUse]
  | @step b c hcb _ ih =>
    cases hev : P.blockEvs l b with
    | nil =>
      refine .later hev hcb (ih (Walk.step hwk hcb) ?_)
      rw [trace_snoc, hev, List.append_nil]
      exact ho
    | cons e es =>
      rcases e with ⟨op, el⟩
      cases op with
      | use => exact .here (by rw [hev]; rfl)
      | give =>
        have hri : l ∈ P.rowIds := by unfold Prog.rowIds; exact List.mem_append_left _ hb
        exact absurd rfl (blockEvs_notGive hw l hri (walk_blocks hw hwk) ⟨Op.give, el⟩ (by rw [hev]; rfl))
      | asg =>
        obtain ⟨o, o1, h1, h2, _⟩ := good_run hw hg (l := l) hwk
        rw [ho] at h1
        cases h1
        simp [hev, runEvs, Ev.step] at h2

include hk

/-- when a linear value is held under a leaf on entering a block, the block's row has the leaf
    at a linear kind -/
theorem held_kind (hgap : NoGap P) {bs : List Blk} {b : Blk} (hwk : Walk P bs b)
    (ho : runEvs (P.initOwned l) (P.trace l bs) = some true) : P.rowKind b l = some true := by
  induction hwk with
  | entry =>
    simp [Prog.trace, runEvs, Prog.initOwned] at ho
    exact rowKind_true.mpr ⟨hk.rows _ hw.entryIn _ ho, ho⟩
  | @step bs b c hwk hcb ih =>
    have hb := walk_blocks hw hwk
    obtain ⟨o, o1, h1, h2, h3⟩ := good_run hw hg (l := l) hwk
    rw [h3] at ho
    cases ho
    obtain ⟨k1, hk1, hs⟩ := hk.blocks l b hb
    -- through the block: held ⇒ the current binding is linear
    have hinv : ∀ (es : List Ev) (o o' : Bool) (k k' : Option Bool), runEvs o es = some o' → krun k es = some k' →
        (o = true → k = some true) → (o' = true → k' = some true) := by
      intro es
      induction es with
      | nil => intro o o' k k' h1 h2 hi; simp [runEvs] at h1; simp [krun] at h2; subst h1; subst h2; exact hi
      | cons e es ihe =>
        intro o o' k k' h1 h2 hi
        simp only [runEvs] at h1
        simp only [krun] at h2
        cases hs1 : Ev.step o e with
        | none => simp [hs1] at h1
        | some o2 =>
          cases hs2 : Ev.kstep k e with
          | none => simp [hs2] at h2
          | some k2 =>
            simp only [hs1] at h1
            simp only [hs2] at h2
            refine ihe o2 o' k2 k' h1 h2 ?_
            rcases e with ⟨op, el⟩
            cases op <;> cases el <;> cases o <;> rcases k with _ | _ | _ <;>
              simp_all [Ev.step, Ev.kstep]
    have hk1t : k1 = some true := hinv _ o true _ _ h2 hk1 (fun ho' => ih (by rw [h1, ho'])) rfl
    have hcB := hw.closed b hb c hcb
    have hrow : l ∈ P.row c := by
      rcases (hg.leaves l).noLeak _ c (Walk.step hwk hcb) h3 with h | ⟨hbl, _⟩
      · exact willUse_row hw hk hcB h
      · rcases hgap with h | ⟨_, h⟩
        · rw [h] at hbl; cases hbl
        · exact willUse_row hw hk hcB (present_reachExit hw hg (Walk.step hwk hcb) h3 hbl (h c hcB))
    rw [hs c hcb hrow, hk1t]

/-- absent, but some continuation reads it at a linear kind: impossible in a good program -/
theorem absent_willUse {bs : List Blk} {b : Blk} (hwk : Walk P bs b)
    (ho : runEvs (P.initOwned l) (P.trace l bs) = some false) (hkind : P.rowKind b l = some true)
    (hu : WillUse P l b) : False := by
  induction hu generalizing bs with
  | @here b hh =>
    obtain ⟨o, o1, h1, h2, _⟩ := good_run hw hg (l := l) hwk
    rw [ho] at h1
    cases h1
    obtain ⟨k1, hk1, _⟩ := hk.blocks l b (walk_blocks hw hwk)
    cases hev : P.blockEvs l b with
    | nil => simp [hev] at hh
    | cons e es =>
      rw [hev] at hh h2 hk1
      rcases e with ⟨op, el⟩
      cases op <;> simp [Ev.isUse] at hh
      simp only [krun, Ev.kstep, hkind] at hk1
      cases el with
      | true => simp [runEvs, Ev.step] at h2
      | false => simp at hk1
  | @later b c hev hcb hu' ih =>
    have hb := walk_blocks hw hwk
    obtain ⟨k1, hk1, hs⟩ := hk.blocks l b hb
    rw [hev] at hk1
    simp [krun] at hk1
    refine ih (Walk.step hwk hcb) ?_ ?_
    · rw [trace_snoc, hev, List.append_nil]
      exact ho
    · rw [hs c hcb (willUse_row hw hk (hw.closed b hb c hcb) hu'), ← hk1, hkind]

end

/-! ### pass 1 cannot raise a user error on a good program -/

theorem rel_init {P : Prog} (hw : P.WF) {l : Leaf} {bs : List Blk} {b : Blk} (hwk : Walk P bs b) {o : Bool}
    (ho : runEvs (P.initOwned l) (P.trace l bs) = some o) :
    Rel o (P.rowKind b l) ((initScope P b).proj l) o := by
  by_cases he : b = P.entry
  · have := walk_entry' hw hwk he
    subst this
    subst he
    simp [Prog.trace, runEvs] at ho
    subst ho
    rw [(c0_entry hw).1]
    unfold Rel Prog.initOwned
    by_cases hr : (P.row P.entry).contains l = true
    · simp [hr]
    · simp only [hr]; simp
  · rw [(c0_other hw he).1]
    simp [Rel]

theorem checkBlock_no_user_err {P : Prog} (hw : P.WF) (hk : P.KindsOK) (hg : Good P) (hgap : NoGap P)
    (hr : ∀ b ∈ P.blocks, b ≠ P.exit → Reachable P b) {b : Blk} (hb : b ∈ P.blocks) {e : Err}
    (h : checkBlock P b = .error e) : e = .crash := by
  by_cases hbe : b = P.exit
  · subst hbe
    unfold checkBlock at h
    rw [hw.exitStmts] at h
    simp [pure, Except.pure] at h
  · obtain ⟨bs, hwk⟩ := hr b hb hbe
    rcases checkBlock_err h with h' | ⟨st, hst, hs⟩ | ⟨l, hf⟩
    · exact h'
    · exact absurd (hg.rules b ⟨bs, hwk⟩ st hst) hs
    · exfalso
      obtain ⟨o, o1, h1, h2, _⟩ := good_run hw hg (l := l) hwk
      obtain ⟨k1, hk1, _⟩ := hk.blocks l b hb
      have hK : P.rowKind b l ≠ some true → o = false := by
        intro hne
        cases ho : o with
        | false => rfl
        | true => exact absurd (held_kind hw hk hg hgap hwk (by rw [h1, ho])) hne
      unfold Prog.blockEvs at h2 hk1
      have := fails_sem hf hK (kinv_init hw hk b) (rel_init hw hwk h1) hk1
      rw [this] at h2
      cases h2

theorem scopes_no_user_err {P : Prog} (hw : P.WF) (hk : P.KindsOK) (hg : Good P) (hgap : NoGap P)
    (hr : ∀ b ∈ P.blocks, b ≠ P.exit → Reachable P b) {e : Err} (h : scopes P = .error e) : e = .crash := by
  unfold scopes at h
  cases h1 : pass1 P with
  | error e1 =>
    simp only [h1, bind, Except.bind] at h
    cases h
    unfold pass1 at h1
    obtain ⟨b, hb, hf⟩ := mapM_err _ _ h1
    cases h2 : checkBlock P b with
    | error e2 =>
      simp [h2, Except.map] at hf
      subst hf
      exact checkBlock_no_user_err hw hk hg hgap hr hb h2
    | ok s => simp [h2, Except.map] at hf
  | ok tbl1 =>
    simp only [h1, bind, Except.bind] at h
    obtain ⟨q, _, hf⟩ := mapM_err _ _ h
    unfold amendExit at hf
    split at hf
    · cases h2 : exitUse P q.2 with
      | error e2 =>
        simp [h2, Except.map] at hf
        subst hf
        exact foldlM_use_err _ _ _ h2
      | ok s => simp [h2, Except.map] at hf
    · cases hf

/-! ### pass 2 cannot raise a user error on a good program -/

section
variable {P : Prog} (hw : P.WF) (hk : P.KindsOK) (hg : Good P) (hgap : NoGap P) (C : PreCert P)
  (hi : C.init = []) {l : Leaf}
include hw hk hg hgap C hi

theorem live_willUse {b : Blk} (hb : b ∈ P.blocks) (h : l ∈ C.live b) : WillUse P l b := by
  rcases (C.liveOK b hb l).mp h with h | ⟨h, _⟩
  · exact willUse_of_livePath hw C hb h
  · rw [hi] at h; cases h

theorem willUse_live {b : Blk} (hb : b ∈ P.blocks) (hbe : b ≠ P.entry) (h : WillUse P l b) : l ∈ C.live b := by
  induction h with
  | @here b hh =>
    obtain ⟨_, h2⟩ := blk_run hw C (l := l) hb
    rw [(c0_other hw hbe).1] at h2
    cases hev : P.blockEvs l b with
    | nil => simp [hev] at hh
    | cons e es =>
      rw [hev] at hh h2
      rcases e with ⟨op, el⟩
      cases op <;> simp [Ev.isUse] at hh
      exact live_of_used C.liveOK hb (by simpa [Scope.proj] using crun_use_first h2)
  | @later b c hev hcb _ ih =>
    have hc : c ∈ P.blocks := hw.closed b hb c hcb
    have hce : c ≠ P.entry := fun e => hw.entryNoPred b hb (e ▸ hcb)
    obtain ⟨_, h2⟩ := blk_run hw C (l := l) hb
    rw [(c0_other hw hbe).1, hev] at h2
    simp [crun] at h2
    refine live_of_succ C.liveOK hw.closed hb hcb (ih hc hce) ?_
    intro hv
    have : ((C.sc b).proj l).inVars = true := by simp [Scope.proj, hv]
    rw [← h2] at this
    cases this

/-- the state after block `b` on a walk, related to the bookkeeping of `b` -/
theorem good_after {bs : List Blk} {b : Blk} (hwk : Walk P bs b) :
    ∃ o o1 k1, runEvs (P.initOwned l) (P.trace l bs) = some o ∧
      runEvs (P.initOwned l) (P.trace l (bs ++ [b])) = some o1 ∧
      (∀ c ∈ P.succ b, l ∈ P.row c → P.rowKind c l = k1) ∧
      KInv (P.rowKind b l) ((C.sc b).proj l) k1 ∧ Rel o (P.rowKind b l) ((C.sc b).proj l) o1 := by
  obtain ⟨o, o1, h1, h2, h3⟩ := good_run hw hg (l := l) hwk
  have hb := walk_blocks hw hwk
  obtain ⟨_, hc⟩ := blk_run hw C (l := l) hb
  obtain ⟨k1, hk1, hs⟩ := hk.blocks l b hb
  have hK : P.rowKind b l ≠ some true → o = false := by
    intro hne
    cases ho : o with
    | false => rfl
    | true => exact absurd (held_kind hw hk hg hgap hwk (by rw [h1, ho])) hne
  obtain ⟨hi', hr'⟩ := rel_run hK _ _ _ _ _ _ _ hc h2 hk1 (kinv_init hw hk b) (rel_init hw hwk h1)
  exact ⟨o, o1, k1, h1, h3, hs, hi', hr'⟩

theorem no_usedThenLive {b c : Blk} (hb : b ∈ P.blocks) (hrb : Reachable P b) (hcb : c ∈ P.succ b)
    (hlc : l ∈ C.live c) (hlin : l ∈ P.rowLin c) (hu : (C.sc b).used l = some true) : False := by
  obtain ⟨bs, hwk⟩ := hrb
  obtain ⟨o, o1, k1, _, h2, hs, hki, hr⟩ := good_after hw hk hg hgap C hi (l := l) hwk
  have hrowc := hk.rows _ (hw.closed b hb c hcb) _ hlin
  have hkc : P.rowKind c l = some true := rowKind_true.mpr ⟨hrowc, hlin⟩
  have hk1 : k1 = some true := by rw [← hs c hcb hrowc]; exact hkc
  have ho1 : o1 = false := by
    rw [used_proj hw] at hu
    unfold Rel at hr
    unfold KInv at hki
    cases hv : ((C.sc b).proj l).inVars with
    | true =>
      simp only [hv, if_true] at hr hu
      simp at hu
      simp [hr, hu]
    | false =>
      simp only [hv, Bool.false_eq_true, if_false] at hr hu hki
      split at hu
      · simp at hu
        rw [← hki, hk1] at hr
        simpa [hu] using hr
      · cases hu
  subst ho1
  exact absurd_willUse' hw hk hg (Walk.step hwk hcb) h2 hkc
    (live_willUse hw hk hg hgap C hi (hw.closed b hb c hcb) hlc)
where
  absurd_willUse' {P : Prog} (hw : P.WF) (hk : P.KindsOK) (hg : Good P) {l : Leaf} {bs : List Blk} {b : Blk}
      (hwk : Walk P bs b) (ho : runEvs (P.initOwned l) (P.trace l bs) = some false)
      (hkind : P.rowKind b l = some true) (hu : WillUse P l b) : False :=
    absent_willUse hw hk hg hwk ho hkind hu

/-- a held value at the end of `b` is live in every successor -/
theorem held_live_succ {bs : List Blk} {b c : Blk} (hwk : Walk P bs b) (hcb : c ∈ P.succ b)
    (h2 : runEvs (P.initOwned l) (P.trace l (bs ++ [b])) = some true) : l ∈ C.live c := by
  have hb := walk_blocks hw hwk
  have hc : c ∈ P.blocks := hw.closed b hb c hcb
  have hce : c ≠ P.entry := fun e => hw.entryNoPred b hb (e ▸ hcb)
  rcases (hg.leaves l).noLeak _ c (Walk.step hwk hcb) h2 with h | ⟨hbl, _⟩
  · exact willUse_live hw hk hg hgap C hi hc hce h
  · rcases hgap with h | ⟨_, h⟩
    · rw [h] at hbl; cases hbl
    · exact willUse_live hw hk hg (Or.inr ⟨‹_›, h⟩) C hi hc hce
        (present_reachExit hw hg (Walk.step hwk hcb) h2 hbl (h c hc))

theorem no_leak_local {b c : Blk} (hrb : Reachable P b) (hcb : c ∈ P.succ b)
    (hv : l ∈ (C.sc b).vars) (hlv : l ∈ (C.sc b).linVars) (hu : (C.sc b).used l = some false) : l ∈ C.live c := by
  obtain ⟨bs, hwk⟩ := hrb
  obtain ⟨o, o1, k1, _, h2, _, _, hr⟩ := good_after hw hk hg hgap C hi (l := l) hwk
  have ho1 : o1 = true := by
    rw [used_proj hw] at hu
    unfold Rel at hr
    have hv' : ((C.sc b).proj l).inVars = true := by simp [Scope.proj, hv]
    have hk' : ((C.sc b).proj l).kLoc = true := by simp [Scope.proj, hlv]
    simp only [hv', if_true] at hr hu
    simp at hu
    simp [hr, hu, hk']
  subst ho1
  exact held_live_succ hw hk hg hgap C hi hwk hcb h2

theorem no_leak_parent {b c : Blk} (hb : b ∈ P.blocks) (hrb : Reachable P b) (hcb : c ∈ P.succ b)
    (hp : l ∈ (C.sc b).parent) (hv : l ∉ (C.sc b).vars) (hlp : l ∈ (C.sc b).linParent) (hlb : l ∈ C.live b)
    (hu : (C.sc b).used l = some false) : l ∈ C.live c := by
  obtain ⟨bs, hwk⟩ := hrb
  obtain ⟨o, o1, k1, h1, h2, _, _, hr⟩ := good_after hw hk hg hgap C hi (l := l) hwk
  obtain ⟨hpar, _⟩ := blk_run hw C (l := l) hb
  have hbe : b ≠ P.entry := by
    intro e; subst e
    rw [hpar.1, (c0_entry hw (l := l)).2] at hp; cases hp
  have hkb : P.rowKind b l = some true := by
    rw [hpar.1, (c0_other hw (l := l) hbe).2.1] at hp
    rw [hpar.2, (c0_other hw (l := l) hbe).2.2] at hlp
    exact rowKind_true.mpr ⟨hp, hlp⟩
  have ho1 : o1 = true := by
    rw [used_proj hw] at hu
    unfold Rel at hr
    have hv' : ((C.sc b).proj l).inVars = false := by simp [Scope.proj, hv]
    simp only [hv', Bool.false_eq_true, if_false, hp, if_true] at hr hu
    simp at hu
    simp only [hu, Bool.false_and, Bool.false_eq_true, if_false] at hr
    subst hr
    cases ho : o1 with
    | true => rfl
    | false =>
      exfalso
      subst ho
      exact absent_willUse hw hk hg hwk h1 hkb (live_willUse hw hk hg hgap C hi hb hlb)
  subst ho1
  exact held_live_succ hw hk hg hgap C hi hwk hcb h2

end

theorem checkLiveUsed_err {P : Prog} {c : Blk} {s : Scope} {x : Leaf} {e : Err}
    (h : checkLiveUsed P c s x = .error e) : e = .crash ∨ (x ∈ P.rowLin c ∧ s.used x = some true) := by
  unfold checkLiveUsed at h
  split at h
  · rename_i hl
    cases hu : s.used x with
    | none => simp [hu] at h; exact Or.inl h.symm
    | some u => cases u with
      | true => exact Or.inr ⟨by simpa using hl, rfl⟩
      | false => simp [hu] at h
  · cases h

theorem checkLeak_err {P : Prog} {live : Blk → List Leaf} {b : Blk} {s : Scope} {x : Leaf} {lin : Bool} {e : Err}
    (h : checkLeak P live b s lin x = .error e) :
    e = .crash ∨ (lin = true ∧ (x ∈ live b ∨ x ∈ s.vars) ∧ s.used x = some false ∧
      ∃ c ∈ P.succ b, x ∉ live c) := by
  unfold checkLeak at h
  split at h
  · cases h
  · rename_i hskip
    cases hu : s.used x with
    | none => simp [hu] at h; exact Or.inl h.symm
    | some u =>
      simp only [hu] at h
      split at h
      · rename_i hc
        simp only [Bool.and_eq_true, Bool.not_eq_true', List.all_eq_false] at hc
        obtain ⟨⟨hl, hu'⟩, c, hc1, hc2⟩ := hc
        subst hu'
        refine Or.inr ⟨hl, ?_, rfl, c, hc1, by simpa using hc2⟩
        simp only [Bool.and_eq_true, Bool.not_eq_true', not_and, Bool.not_eq_false] at hskip
        by_cases hlv : x ∈ live b
        · exact Or.inl hlv
        · right
          have := hskip (by simpa using hlv)
          simpa using this
      · cases h

theorem checkEdges_no_user_err {P : Prog} (hw : P.WF) (hk : P.KindsOK) (hg : Good P) (C : PreCert P)
    (hi : C.init = []) (hgap : NoGap P) (hr : ∀ b ∈ P.blocks, b ≠ P.exit → Reachable P b) {b : Blk}
    (hb : b ∈ P.blocks) {e : Err} (h : checkEdges P C.live b (C.sc b) = .error e) : e = .crash := by
  have hreach : ∀ c, c ∈ P.succ b → Reachable P b := by
    intro c hc
    refine hr b hb ?_
    intro he
    rw [he, hw.exitSucc] at hc
    cases hc
  unfold checkEdges at h
  rcases bind_err_unit h with h | ⟨_, h⟩
  · obtain ⟨c, hc, h⟩ := forM_err _ _ h
    obtain ⟨x, hx, h⟩ := forM_err _ _ h
    rcases checkLiveUsed_err h with h | ⟨hl, hu⟩
    · exact h
    · exact (no_usedThenLive hw hk hg hgap C hi hb (hreach c hc) hc hx hl hu).elim
  · rcases bind_err_unit h with h | ⟨_, h⟩
    · obtain ⟨x, hx, h⟩ := forM_err _ _ h
      rcases checkLeak_err h with h | ⟨hl, _, hu, c, hc, hxc⟩
      · exact h
      · exact absurd (no_leak_local hw hk hg hgap C hi (hreach c hc) hc hx (by simpa using hl) hu) hxc
    · rcases bind_err_unit h with h | ⟨_, h⟩
      · obtain ⟨x, hx, h⟩ := forM_err _ _ h
        obtain ⟨hxp, hxv⟩ := List.mem_filter.mp hx
        rcases checkLeak_err h with h | ⟨hl, hlive, hu, c, hc, hxc⟩
        · exact h
        · have hxv' : x ∉ (C.sc b).vars := by simpa using hxv
          have hlb : x ∈ C.live b := hlive.elim id (fun h' => absurd h' hxv')
          exact absurd (no_leak_parent hw hk hg hgap C hi hb (hreach c hc) hc hxp hxv' (by simpa using hl) hlb hu) hxc
      · rcases bind_err_unit h with h | ⟨_, h⟩
        · unfold checkInRow at h
          split at h
          · cases h
          · obtain ⟨x, _, h⟩ := forM_err _ _ h
            split at h
            · cases h
            · cases h; rfl
        · unfold checkOutRows at h
          obtain ⟨c, _, h⟩ := forM_err _ _ h
          split at h
          · cases h
          · obtain ⟨x, _, h⟩ := forM_err _ _ h
            split at h
            · cases h
            · cases h; rfl

theorem liveDefault_nil {P : Prog} (hgap : NoGap P) : liveDefault P = [] := by
  unfold liveDefault
  rcases hgap with h | ⟨h, _⟩
  · simp [h]
  · simp [h]

/-- no user error anywhere in `checkCfg` on a good, well-kinded program outside the known gaps -/
theorem checkCfg_no_user_err {P : Prog} (hw : P.WF) (hk : P.KindsOK)
    (hr : ∀ b ∈ P.blocks, b ≠ P.exit → Reachable P b)
    (hgap : NoGap P) (hg : Good P) {e : Err} (h : checkCfg P = .error e) : e = .crash := by
  unfold checkCfg at h
  cases h1 : scopes P with
  | error e1 =>
    simp only [h1, bind, Except.bind] at h
    cases h
    exact scopes_no_user_err hw hk hg hgap hr h1
  | ok tbl =>
    simp only [h1, bind, Except.bind] at h
    obtain ⟨s1, s2, _⟩ := scopes_ok h1
    cases h2 : Dataflow.liveRun (flowCfg P (lookup tbl)) headSched
        (liveFuel (flowCfg P (lookup tbl)) (liveDefault P))
        (Dataflow.liveInit (flowCfg P (lookup tbl)) (liveDefault P)) with
    | none =>
      have := liveRun_flow_isSome P hw.closed (lookup tbl) (liveDefault P) headSched
      rw [h2] at this
      cases this
    | some t =>
      simp only [h2] at h
      obtain ⟨q, hq, h⟩ := forM_err _ _ h
      let C : PreCert P := ⟨lookup tbl, t.vals, liveDefault P, s1, liveOK_of_run hw.closed _ _ _ _ _ h2,
        by rw [liveDefault_nil hgap]; intro x hx; cases hx⟩
      have h' : checkEdges P C.live q.1 (C.sc q.1) = .error e := by
        show checkEdges P t.vals q.1 (lookup tbl q.1) = .error e
        rw [← (s2 q hq).2]; exact h
      exact checkEdges_no_user_err hw hk hg C (liveDefault_nil hgap) hgap hr (s2 q hq).1 h'

end GuppyVerif.Linearity
