import GuppyVerif.Spec.C09
/-! Invariants of the liveness worklist (backward analysis), for every visiting order. -/
namespace GuppyVerif.Dataflow

theorem sameSet_iff (a b : List Nat) : sameSet a b = true ↔ SetEq a b := by
  unfold sameSet SetEq
  simp only [Bool.and_eq_true, List.all_eq_true, List.contains_iff_mem]
  constructor
  · rintro ⟨h1, h2⟩ x; exact ⟨h1 x, h2 x⟩
  · intro h; exact ⟨fun x hx => (h x).mp hx, fun x hx => (h x).mpr hx⟩

theorem mem_filter_ne {q : List Blk} {b c : Blk} : c ∈ q.filter (· != b) ↔ c ∈ q ∧ c ≠ b := by
  simp [List.mem_filter]

theorem mem_liveF {g : Cfg} {vals : Blk → List Var} {b : Blk} {x : Var} :
    x ∈ liveF g vals b ↔ x ∈ g.used b ∨ (x ∉ g.assigned b ∧ ∃ c, Edge g b c ∧ x ∈ vals c) := by
  unfold liveF liveApply liveOut Edge
  simp only [List.mem_append, List.mem_filter, List.mem_flatMap, Bool.not_eq_true',
    List.contains_eq_mem, decide_eq_false_iff_not]
  constructor
  · rintro (h | ⟨⟨c, hc, hx⟩, hn⟩)
    · exact Or.inl h
    · exact Or.inr ⟨hn, c, hc, hx⟩
  · rintro (h | ⟨hn, c, hc, hx⟩)
    · exact Or.inl h
    · exact Or.inr ⟨⟨c, hc, hx⟩, hn⟩

/-- `liveF` at `c` does not change when the value of a block `c` does not read is updated -/
theorem liveF_upd_of_not_edge {g : Cfg} {vals : Blk → List Var} {b c : Blk} {v : List Var}
    (h : ¬ Edge g c b) : liveF g (upd vals b v) c = liveF g vals c := by
  unfold liveF liveOut
  congr 1
  have : ∀ l : List Blk, (∀ d ∈ l, d ≠ b) → l.flatMap (upd vals b v) = l.flatMap vals := by
    intro l
    induction l with
    | nil => intro _; rfl
    | cons d l ih =>
      intro hl
      have hd : d ≠ b := hl d (List.mem_cons_self)
      simp only [List.flatMap_cons, upd, hd, ↓reduceIte]
      rw [ih (fun e he => hl e (List.mem_cons_of_mem _ he))]
  exact this _ (fun d hd e => h (e ▸ hd))

/-- The invariants of the worklist, relative to the initial live set `init`. -/
structure LInv (g : Cfg) (init : List Var) (s : LSt) : Prop where
  /-- B: every block that is not queued is stable -/
  stab : ∀ c ∈ g.blocks, c ∉ s.queue → SetEq (s.vals c) (liveF g s.vals c)
  /-- S: whatever is live is justified by a path (or was declared live initially) -/
  sound : ∀ b x, x ∈ s.vals b → x ∈ init ∨ LivePath g x b
  /-- A: initially-live variables stay live wherever the specification says so -/
  above : ∀ b x, x ∈ init → (LivePath g x b ∨ InfPath g x b) → x ∈ s.vals b

theorem linv_init (g : Cfg) (init : List Var) : LInv g init (liveInit g init) := by
  refine ⟨?_, ?_, ?_⟩
  · intro c hc hq; exact absurd hc hq
  · intro b x hx; exact Or.inl hx
  · intro b x hx _; exact hx

theorem infPath_tail {g : Cfg} {x : Var} {b : Blk} (h : InfPath g x b) :
    x ∉ g.assigned b ∧ ∃ c, Edge g b c ∧ InfPath g x c := by
  obtain ⟨f, f0, hf⟩ := h
  refine ⟨f0 ▸ (hf 0).1, f 1, f0 ▸ (hf 0).2, fun i => f (i + 1), rfl, fun i => hf (i + 1)⟩

theorem mem_liveF_of_spec {g : Cfg} {init : List Var} {s : LSt} (hi : LInv g init s)
    {b : Blk} {x : Var} (hx : x ∈ init) (h : LivePath g x b ∨ InfPath g x b) :
    x ∈ liveF g s.vals b := by
  rw [mem_liveF]
  rcases h with h | h
  · cases h with
    | use hu => exact Or.inl hu
    | step hn he hp => exact Or.inr ⟨hn, _, he, hi.above _ x hx (Or.inl hp)⟩
  · obtain ⟨hn, c, he, hc⟩ := infPath_tail h
    exact Or.inr ⟨hn, c, he, hi.above _ x hx (Or.inr hc)⟩

theorem livePath_of_mem_liveF {g : Cfg} {init : List Var} {s : LSt} (hi : LInv g init s)
    {b : Blk} {x : Var} (h : x ∈ liveF g s.vals b) : x ∈ init ∨ LivePath g x b := by
  rw [mem_liveF] at h
  rcases h with h | ⟨hn, c, he, hc⟩
  · exact Or.inr (.use h)
  · rcases hi.sound c x hc with h | h
    · exact Or.inl h
    · exact Or.inr (.step hn he h)

theorem linv_step (g : Cfg) (hg : g.WF) (init : List Var) (s : LSt) (b : Blk)
    (hi : LInv g init s) : LInv g init (liveStep g s b) := by
  unfold liveStep
  by_cases e : sameSet (s.vals b) (liveF g s.vals b) = true
  · simp only [e, ↓reduceIte]
    refine ⟨?_, hi.sound, hi.above⟩
    intro c hc hq
    by_cases hcb : c = b
    · subst hcb; exact (sameSet_iff _ _).mp e
    · exact hi.stab c hc (fun h => hq (mem_filter_ne.mpr ⟨h, hcb⟩))
  · simp only [e, Bool.false_eq_true, ↓reduceIte]
    refine ⟨?_, ?_, ?_⟩
    · intro c hc hq
      simp only [List.mem_append, not_or] at hq
      have hne : ¬ Edge g c b := fun he => by
        have := (hg.conv c b).mp he
        unfold PEdge at this
        simp only [List.mem_append] at this
        exact this.elim hq.2.1 hq.2.2
      rw [liveF_upd_of_not_edge hne]
      by_cases hcb : c = b
      · subst hcb; simp only [upd, ↓reduceIte]; intro x; exact Iff.rfl
      · have hq1 : c ∉ s.queue := fun h => hq.1 (mem_filter_ne.mpr ⟨h, hcb⟩)
        simp only [upd, hcb, ↓reduceIte]
        exact hi.stab c hc hq1
    · intro c x hx
      by_cases hcb : c = b
      · subst hcb
        simp only [upd, ↓reduceIte] at hx
        exact livePath_of_mem_liveF hi hx
      · simp only [upd, hcb, ↓reduceIte] at hx
        exact hi.sound c x hx
    · intro c x hx hsp
      by_cases hcb : c = b
      · subst hcb
        simp only [upd, ↓reduceIte]
        exact mem_liveF_of_spec hi hx hsp
      · simp only [upd, hcb, ↓reduceIte]
        exact hi.above c x hx hsp

theorem linv_reach (g : Cfg) (hg : g.WF) (init : List Var) {s t : LSt} (h : LReach g s t)
    (hi : LInv g init s) : LInv g init t := by
  induction h with
  | refl => exact hi
  | step b _ _ ih => exact ih (linv_step g hg init _ b hi)

/-- at a state where no block is queued, live variables follow paths -/
theorem mem_of_livePath {g : Cfg} (hg : g.WF) {init : List Var} {s : LSt} (hi : LInv g init s)
    (hq : ∀ c ∈ g.blocks, c ∉ s.queue) {x : Var} {b : Blk} (hb : b ∈ g.blocks)
    (h : LivePath g x b) : x ∈ s.vals b := by
  induction h with
  | use hu => exact (hi.stab _ hb (hq _ hb) x).mpr (mem_liveF.mpr (Or.inl hu))
  | step hn he _ ih =>
    exact (hi.stab _ hb (hq _ hb) x).mpr
      (mem_liveF.mpr (Or.inr ⟨hn, _, he, ih (hg.closed _ hb _ he)⟩))

/-- from a stable state, a live variable with no finite justification has an infinite one -/
theorem infPath_of_stable {g : Cfg} (hg : g.WF) {init : List Var} {s : LSt} (hi : LInv g init s)
    (hq : ∀ c ∈ g.blocks, c ∉ s.queue) {x : Var} {b : Blk} (hb : b ∈ g.blocks)
    (hx : x ∈ s.vals b) (hn : ¬ LivePath g x b) : InfPath g x b := by
  -- the set of blocks where x is live without finite justification is closed under "next"
  let S : Blk → Prop := fun c => c ∈ g.blocks ∧ x ∈ s.vals c ∧ ¬ LivePath g x c
  have next : ∀ c, S c → x ∉ g.assigned c ∧ ∃ d, Edge g c d ∧ S d := by
    rintro c ⟨hc, hxc, hnc⟩
    have := (hi.stab c hc (hq c hc) x).mp hxc
    rw [mem_liveF] at this
    rcases this with hu | ⟨hna, d, he, hd⟩
    · exact absurd (LivePath.use hu) hnc
    · exact ⟨hna, d, he, hg.closed c hc d he, hd, fun hp => hnc (.step hna he hp)⟩
  let nx : {c // S c} → {c // S c} := fun c =>
    ⟨Classical.choose (next c.1 c.2).2, (Classical.choose_spec (next c.1 c.2).2).2⟩
  let f : Nat → {c // S c} := fun i => Nat.rec ⟨b, hb, hx, hn⟩ (fun _ c => nx c) i
  refine ⟨fun i => (f i).1, rfl, fun i => ⟨(next (f i).1 (f i).2).1, ?_⟩⟩
  exact (Classical.choose_spec (next (f i).1 (f i).2).2).1

end GuppyVerif.Dataflow
