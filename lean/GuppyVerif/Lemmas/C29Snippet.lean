import GuppyVerif.Lemmas.C29
/-! Helper lemmas for C29: decimal numerals, gutter parsing, `prepare`, the shape of a snippet. -/
namespace GuppyVerif.Render

/-! ### decimal numerals -/

theorem digitChar_toNat : ∀ d : Nat, d < 10 → (Char.ofNat (48 + d)).toNat = 48 + d := by decide

theorem digitChar_ne : ∀ d : Nat, d < 10 → Char.ofNat (48 + d) ≠ '|' ∧ Char.ofNat (48 + d) ≠ ' ' := by decide

theorem decVal_concat (a : Str) (c : Char) : decVal (a ++ [c]) = 10 * decVal a + (c.toNat - 48) := by
  simp [decVal, List.foldl_append]

theorem decVal_digits (n : Nat) : decVal (digits n) = n := by
  induction n using Nat.strongRecOn with
  | _ n ih =>
    rw [digits]
    split
    · rename_i h
      simp [decVal, digitChar_toNat n h]
    · rename_i h
      rw [decVal_concat, ih (n / 10) (by omega), digitChar_toNat _ (Nat.mod_lt _ (by omega))]
      omega

theorem digits_ne_nil (n : Nat) : digits n ≠ [] := by
  rw [digits]; split <;> simp

theorem digits_chars (n : Nat) : ∀ c ∈ digits n, c ≠ '|' ∧ c ≠ ' ' := by
  induction n using Nat.strongRecOn with
  | _ n ih =>
    rw [digits]
    split
    · rename_i h
      intro c hc
      simp only [List.mem_singleton] at hc
      subst hc; exact digitChar_ne n h
    · rename_i h
      intro c hc
      simp only [List.mem_append, List.mem_singleton] at hc
      rcases hc with hc | rfl
      · exact ih (n / 10) (by omega) c hc
      · exact digitChar_ne _ (Nat.mod_lt _ (by omega))

/-! ### reading back a rendered line -/

theorem takeWhile_gutter (k : Nat) (g line : Str) (hg : ∀ c ∈ g, c ≠ '|') :
    (List.replicate k ' ' ++ g ++ [' ', '|', ' '] ++ line).takeWhile (· != '|')
      = List.replicate k ' ' ++ g ++ [' '] := by
  have h1 : ∀ c ∈ List.replicate k ' ' ++ g ++ [' '], (c != '|') = true := by
    intro c hc
    simp only [List.mem_append, List.mem_replicate, List.mem_singleton] at hc
    rcases hc with (⟨_, rfl⟩ | hc) | rfl
    · decide
    · simpa using hg c hc
    · decide
  have : List.replicate k ' ' ++ g ++ [' ', '|', ' '] ++ line
      = (List.replicate k ' ' ++ g ++ [' ']) ++ ('|' :: ' ' :: line) := by simp
  rw [this, List.takeWhile_append_of_pos h1]
  simp

theorem parseLine_renderLine_some (ll : Nat) (body : Str) (n : Nat) :
    parseLine (renderLine ll body (some n)) = ⟨some n, body⟩ := by
  unfold parseLine renderLine
  simp only
  rw [takeWhile_gutter _ _ _ (fun c hc => (digits_chars n c hc).1)]
  have hf : (List.replicate (ll - (digits n).length) ' ' ++ digits n ++ [' ']).filter (· != ' ') = digits n := by
    rw [List.filter_append, List.filter_append]
    have h1 : (List.replicate (ll - (digits n).length) ' ').filter (· != ' ') = [] := by
      rw [List.filter_eq_nil_iff]; intro c hc; rw [List.eq_of_mem_replicate hc]; decide
    have h2 : (digits n).filter (· != ' ') = digits n := by
      rw [List.filter_eq_self]; intro c hc; simpa using (digits_chars n c hc).2
    rw [h1, h2]; simp
  rw [hf]
  have hne : (digits n).isEmpty = false := by
    cases h : digits n with
    | nil => exact absurd h (digits_ne_nil n)
    | cons _ _ => rfl
  simp only [hne, Bool.false_eq_true, ↓reduceIte, decVal_digits]
  congr 1
  have : List.replicate (ll - (digits n).length) ' ' ++ digits n ++ [' ', '|', ' '] ++ body
      = (List.replicate (ll - (digits n).length) ' ' ++ digits n ++ [' ', '|', ' ']) ++ body := by simp
  rw [this, List.drop_left']
  simp only [List.length_append, List.length_replicate, List.length_cons, List.length_nil]
  try omega

theorem parseLine_renderLine_none (ll : Nat) (body : Str) :
    parseLine (renderLine ll body none) = ⟨none, body⟩ := by
  unfold parseLine renderLine
  simp only
  rw [takeWhile_gutter _ [] _ (by simp)]
  have hf : (List.replicate (ll - ([] : Str).length) ' ' ++ [] ++ [' ']).filter (· != ' ') = [] := by
    rw [List.filter_eq_nil_iff]
    intro c hc
    simp only [List.append_nil, List.mem_append, List.mem_replicate, List.mem_singleton] at hc
    rcases hc with ⟨_, rfl⟩ | rfl <;> decide
  rw [hf]
  simp only [List.isEmpty_nil, ↓reduceIte]
  congr 1
  have : List.replicate (ll - ([] : Str).length) ' ' ++ [] ++ [' ', '|', ' '] ++ body
      = (List.replicate (ll - ([] : Str).length) ' ' ++ [] ++ [' ', '|', ' ']) ++ body := by simp
  rw [this, List.drop_left']
  simp only [List.length_append, List.length_replicate, List.length_cons, List.length_nil]
  try omega

/-! ### slices, minima -/

theorem take_drop_eq_range (src : List Str) (a b : Nat) (hab : a ≤ b) (hb : b ≤ src.length) :
    (src.take b).drop a = (List.range (b - a)).map (fun i => src.getD (a + i) []) := by
  apply List.ext_getElem
  · simp [List.length_drop, List.length_take]; omega
  · intro i h1 h2
    simp only [List.length_drop, List.length_take] at h1
    have : a + i < src.length := by omega
    simp [List.getD_eq_getElem?_getD, this]

theorem minList_eq_none (l : List Nat) : minList l = none ↔ l = [] := by
  cases l with
  | nil => simp [minList]
  | cons x xs => simp only [minList]; split <;> simp

theorem minList_le (l : List Nat) (m : Nat) (h : minList l = some m) : ∀ x ∈ l, m ≤ x := by
  induction l generalizing m with
  | nil => simp
  | cons y ys ih =>
    simp only [minList] at h
    intro x hx
    split at h
    · rename_i hn
      have : ys = [] := (minList_eq_none ys).mp hn
      subst this
      simp at hx; simp at h; omega
    · rename_i m' hm
      simp only [Option.some.injEq] at h
      simp only [List.mem_cons] at hx
      rcases hx with rfl | hx
      · split at h <;> omega
      · have := ih m' hm x hx
        split at h <;> omega

/-! ### labels -/

theorem orEmptyLine_ne_nil (ls : List Str) : orEmptyLine ls ≠ [] := by
  unfold orEmptyLine; split <;> simp_all

theorem wrapLines_ne_nil (text : Str) (w : Nat) : wrapLines text w ≠ [] := by
  unfold wrapLines
  cases h : orEmptyLine (splitlines text) with
  | nil => exact absurd h (orEmptyLine_ne_nil _)
  | cons p ps =>
    rw [List.flatMap_cons]
    cases h2 : orEmptyLine (textwrap w p) with
    | nil => exact absurd h2 (orEmptyLine_ne_nil _)
    | cons a b => simp

theorem wrap_ok (text : Str) (w : Nat) (ii si : Str) :
    ∃ f r, wrapLines text w = f :: r ∧ wrap text w ii si = .ok ((ii ++ f) :: r.map (si ++ ·)) := by
  cases h : wrapLines text w with
  | nil => exact absurd h (wrapLines_ne_nil _ _)
  | cons f r => exact ⟨f, r, rfl, by simp [wrap, h]⟩

/-- what `renderLabel` appends after the highlight: nothing, or a space and the wrapped label -/
def LabelSpec (label : Option Str) (hlen : Nat) (tail : Str) (rest : List Str) : Prop :=
  (truthy label = none → tail = [] ∧ rest = []) ∧
  (∀ l, truthy label = some l → ∃ f r0, wrapLines l MAX_LABEL_LINE_LEN = f :: r0 ∧ tail = ' ' :: f ∧
      rest = r0.map (List.replicate (hlen + 1) ' ' ++ ·))

theorem renderLabel_ok (ll : Nat) (h : Str) (label : Option Str) :
    ∃ tail rest, renderLabel ll h label = .ok (renderLine ll (h ++ tail) none :: rest.map (renderLine ll · none))
      ∧ LabelSpec label h.length tail rest := by
  unfold renderLabel
  split
  · rename_i c cs
    obtain ⟨f, r, hw, hok⟩ := wrap_ok (c :: cs) MAX_LABEL_LINE_LEN [' '] (List.replicate (h.length + 1) ' ')
    refine ⟨' ' :: f, r.map (List.replicate (h.length + 1) ' ' ++ ·), ?_, ?_⟩
    · simp [hok, bind, Except.bind]
    · constructor
      · intro hn; simp [truthy] at hn
      · intro l hl
        simp only [truthy, Option.some.injEq] at hl
        subst hl
        exact ⟨f, r, hw, rfl, rfl⟩
  · rename_i hne
    refine ⟨[], [], by simp, ?_⟩
    constructor
    · intro _; exact ⟨rfl, rfl⟩
    · intro l hl
      exfalso
      cases label with
      | none => simp [truthy] at hl
      | some x =>
        cases x with
        | nil => simp [truthy] at hl
        | cons c cs => exact hne c cs rfl

/-! ### `prepare` -/

theorem ctxLines_lt (s : Span) (pfx : Nat) (h : 1 ≤ s.start.line) : ctxLines s pfx < s.start.line := by
  unfold ctxLines; omega

/-- the block as an explicit list of source lines -/
theorem block_eq (src : List Str) (s : Span) (pfx : Nat) (hin : InSource src s)
    (hle : s.start.line ≤ s.stop.line) :
    block src s pfx = (List.range (ctxLines s pfx + (s.stop.line - s.start.line + 1))).map
      (fun i => srcLine src (s.start.line - ctxLines s pfx + i)) := by
  have hc := ctxLines_lt s pfx hin.1
  unfold block
  rw [take_drop_eq_range src _ _ (by omega) hin.2.1]
  have : s.stop.line - (s.start.line - ctxLines s pfx - 1) = ctxLines s pfx + (s.stop.line - s.start.line + 1) := by omega
  rw [this]
  apply List.map_congr_left
  intro i _
  unfold srcLine
  congr 1
  omega

theorem block_ne_nil (src : List Str) (s : Span) (pfx : Nat) (hin : InSource src s)
    (hle : s.start.line ≤ s.stop.line) : block src s pfx ≠ [] := by
  rw [block_eq src s pfx hin hle]
  intro h
  have := congrArg List.length h
  simp at this

theorem Span.Valid.le {s : Span} (h : s.Valid) : s.start.line ≤ s.stop.line := by
  rcases h with h | h <;> omega

/-- `prepare` under the preconditions -/
theorem prepare_eq (src : List Str) (s : Span) (pfx : Nat) (hin : InSource src s) (hv : s.Valid) :
    prepare src s pfx =
      if ShiftSafe src s pfx then
        .ok ⟨ctxLines s pfx, removed src s pfx, (block src s pfx).map (·.drop (removed src s pfx)),
          ⟨⟨s.start.line, s.start.col - removed src s pfx⟩, ⟨s.stop.line, s.stop.col - removed src s pfx⟩⟩⟩
      else .error .assertion := by
  have hne := block_ne_nil src s pfx hin hv.le
  obtain ⟨lw, hm⟩ : ∃ lw, minList (List.map leadingWs (block src s pfx)) = some lw := by
    cases hm : minList (List.map leadingWs (block src s pfx)) with
    | none =>
      have := (minList_eq_none _).mp hm
      simp at this; exact absurd this hne
    | some lw => exact ⟨lw, rfl⟩
  have hr : removed src s pfx = if lw > 12 then lw - 4 else 0 := by unfold removed; rw [hm]
  have hm' : minList (List.map leadingWs (pySlice src (s.start.line - min pfx (s.start.line - 1) - 1) s.stop.line)) = some lw := hm
  have hb : pySlice src (s.start.line - min pfx (s.start.line - 1) - 1) s.stop.line = block src s pfx := rfl
  have hL : prepare src s pfx =
      if lw > 12 then
        if s.start.col < lw - 4 then .error .assertion
        else if s.stop.col < lw - 4 then .error .assertion
        else .ok ⟨ctxLines s pfx, lw - 4, (block src s pfx).map (·.drop (lw - 4)),
              ⟨⟨s.start.line, s.start.col - (lw - 4)⟩, ⟨s.stop.line, s.stop.col - (lw - 4)⟩⟩⟩
      else .ok ⟨ctxLines s pfx, 0, block src s pfx, s⟩ := by
    unfold prepare
    simp only [hb, MAX_LEADING_WHITESPACE, OPTIMAL_LEADING_WHITESPACE, ctxLines]
    rw [hm]
  rw [hL]
  by_cases hS : ShiftSafe src s pfx
  · rw [if_pos hS]
    unfold ShiftSafe at hS
    rw [hr] at hS ⊢
    by_cases hlw : lw > 12
    · simp only [hlw, ↓reduceIte] at hS ⊢
      have h1 : ¬ s.start.col < lw - 4 := by omega
      have h2 : ¬ s.stop.col < lw - 4 := by omega
      simp [h1, h2]
    · simp only [hlw, ↓reduceIte]
      simp
  · rw [if_neg hS]
    unfold ShiftSafe at hS
    rw [hr] at hS
    by_cases hlw : lw > 12
    · simp only [hlw, ↓reduceIte] at hS ⊢
      by_cases h1 : s.start.col < lw - 4
      · simp [h1]
      · have h2 : s.stop.col < lw - 4 := by omega
        simp [h1, h2]
    · simp [hlw] at hS

/-! ### the shape of a rendered snippet -/

/-- source line `k` after trimming `r` columns -/
def tline (src : List Str) (r k : Nat) : Str := (srcLine src k).drop r

theorem renderPrefix_range' (ll L pl : Nat) (g : Nat → Str) (n i : Nat) :
    renderPrefix ll L pl ((List.range' i n).map g) i
      = (List.range' i n).map (fun j => renderLine ll (g j) (some (L - pl + j))) := by
  induction n generalizing i with
  | zero => simp [renderPrefix]
  | succ n ih => simp only [List.range'_succ, List.map_cons, renderPrefix]; rw [ih]

theorem map_range'_two (F : Nat → Str) (a d : Nat) :
    (List.range' a (d + 2)).map F = F a :: F (a + 1) :: (List.range' (a + 2) d).map F := by
  simp [List.range'_succ]

theorem getLast_map_range' (F : Nat → Str) (a n : Nat) (h : (List.range' a (n + 1)).map F ≠ []) :
    ((List.range' a (n + 1)).map F).getLast h = F (a + n) := by
  rw [List.getLast_map, List.getLast_range']
  congr 1

theorem getLast_cons_map_range' (F : Nat → Str) (a d : Nat) (h) :
    (F a :: (List.range' (a + 1) d).map F).getLast h = F (a + d) := by
  induction d generalizing a with
  | zero => simp
  | succ d ih =>
    simp only [List.range'_succ, List.map_cons]
    rw [List.getLast_cons_cons]
    rw [ih (a + 1)]
    congr 1; omega

theorem dropLast_cons_map_range'_isEmpty (x : Str) (F : Nat → Str) (a d : Nat) :
    (x :: (List.range' a d).map F).dropLast.isEmpty = decide (d = 0) := by
  cases d with
  | zero => simp
  | succ d => simp [List.range'_succ]

/-- the rows of a rendered snippet, written out -/
def snippetRows (src : List Str) (s : Span) (ll : Nat) (hl : Char) (pfx r : Nat) (tail : Str) (rest : List Str) :
    List Str :=
  let pl := ctxLines s pfx
  [renderLine ll [] none] ++
  (List.range' 0 pl).map (fun i => renderLine ll (tline src r (s.start.line - pl + i)) (some (s.start.line - pl + i))) ++
  (if s.start.line = s.stop.line then
      [renderLine ll (tline src r s.stop.line) (some s.stop.line),
       renderLine ll (highlight hl (s.start.col - r) (s.stop.col - r) ++ tail) none]
    else
      [renderLine ll (tline src r s.start.line) (some s.start.line),
       renderLine ll (highlight hl (s.start.col - r) (tline src r s.start.line).length) none] ++
      (if s.stop.line = s.start.line + 1 then [] else [renderLine ll ['.', '.', '.'] none]) ++
      [renderLine ll (tline src r s.stop.line) (some s.stop.line),
       renderLine ll (highlight hl 0 (s.stop.col - r) ++ tail) none]) ++
  rest.map (renderLine ll · none)

/-- the highlight under the last span line -/
def lastHighlight (s : Span) (hl : Char) (r : Nat) : Str :=
  if s.start.line = s.stop.line then highlight hl (s.start.col - r) (s.stop.col - r)
  else highlight hl 0 (s.stop.col - r)

theorem renderSnippet_shape (src : List Str) (s : Span) (label : Option Str) (maxLn : Nat) (prim : Bool)
    (pfx : Nat) (hin : InSource src s) (hv : s.Valid) (hsafe : ShiftSafe src s pfx) :
    ∃ tail rest,
      renderSnippet src s label maxLn prim pfx
        = .ok (snippetRows src s (digits maxLn).length (if prim then '^' else '-') pfx (removed src s pfx) tail rest)
      ∧ LabelSpec label (lastHighlight s (if prim then '^' else '-') (removed src s pfx)).length tail rest := by
  have hc := ctxLines_lt s pfx hin.1
  have hle := hv.le
  generalize hr : removed src s pfx = r at *
  generalize hhl : (if prim then '^' else '-') = hl
  generalize hll : (digits maxLn).length = ll
  -- the trimmed block
  have hall : (block src s pfx).map (·.drop r)
      = (List.range' 0 (ctxLines s pfx)).map (fun i => tline src r (s.start.line - ctxLines s pfx + i))
        ++ (List.range' (ctxLines s pfx) (s.stop.line - s.start.line + 1)).map
            (fun i => tline src r (s.start.line - ctxLines s pfx + i)) := by
    rw [block_eq src s pfx hin hle, List.range_eq_range', ← List.range'_append, List.map_append, List.map_append]
    simp [tline, Function.comp_def]
  have hlen : ((List.range' 0 (ctxLines s pfx)).map (fun i => tline src r (s.start.line - ctxLines s pfx + i))).length
      = ctxLines s pfx := by simp
  unfold renderSnippet
  rw [prepare_eq src s pfx hin hv, if_pos hsafe]
  simp only [bind, Except.bind, hr, hhl, hll, hall]
  rw [List.take_left' hlen, List.drop_left' hlen, renderPrefix_range']
  by_cases hsingle : s.start.line = s.stop.line
  · -- single line
    have hd : s.stop.line - s.start.line + 1 = 1 := by omega
    simp only [hsingle, ne_eq, not_true_eq_false, ↓reduceIte, hd, List.range'_one, List.map_cons, List.map_nil]
    obtain ⟨tail, rest, hok, hspec⟩ := renderLabel_ok ll (highlight hl (s.start.col - r) (s.stop.col - r)) label
    refine ⟨tail, rest, ?_, ?_⟩
    · rw [hok]
      simp only [snippetRows, hsingle, ↓reduceIte]
      have : s.stop.line - ctxLines s pfx + ctxLines s pfx = s.stop.line := by omega
      simp [this]
    · simpa [lastHighlight, hsingle] using hspec
  · -- multi line
    obtain ⟨d, hd⟩ : ∃ d, s.stop.line - s.start.line + 1 = d + 2 := ⟨s.stop.line - s.start.line - 1, by omega⟩
    simp only [ne_eq, hsingle, not_false_eq_true, ↓reduceIte, hd, map_range'_two]
    have hfirst : s.start.line - ctxLines s pfx + ctxLines s pfx = s.start.line := by omega
    have hcol : ¬ (tline src r s.start.line).length < s.start.col - r := by
      have h1 := hin.2.2.1
      have h2 := hsafe.1
      simp only [tline, List.length_drop]
      omega
    simp only [hfirst, hcol, ↓reduceIte]
    obtain ⟨tail, rest, hok, hspec⟩ := renderLabel_ok ll (highlight hl 0 (s.stop.col - r)) label
    refine ⟨tail, rest, ?_, ?_⟩
    · rw [hok]
      simp only [snippetRows, hsingle, ↓reduceIte]
      have hlast : s.start.line - ctxLines s pfx + (ctxLines s pfx + 1 + d) = s.stop.line := by omega
      have h1 := getLast_cons_map_range' (fun i => tline src r (s.start.line - ctxLines s pfx + i)) (ctxLines s pfx + 1) d
      simp only [hlast] at h1
      rw [h1, dropLast_cons_map_range'_isEmpty]
      have hd0 : (d = 0) ↔ (s.stop.line = s.start.line + 1) := by omega
      simp only [decide_eq_true_eq, hd0]
      simp
    · simpa [lastHighlight, hsingle] using hspec

theorem renderSnippet_unsafe (src : List Str) (s : Span) (label : Option Str) (maxLn : Nat) (prim : Bool)
    (pfx : Nat) (hin : InSource src s) (hv : s.Valid) (hsafe : ¬ ShiftSafe src s pfx) :
    renderSnippet src s label maxLn prim pfx = .error .assertion := by
  unfold renderSnippet
  rw [prepare_eq src s pfx hin hv, if_neg hsafe]
  rfl

/-- numbered lines of the written-out rows -/
theorem numbered_snippetRows (src : List Str) (s : Span) (ll : Nat) (hl : Char) (pfx r : Nat) (tail : Str)
    (rest : List Str) (h1 : 1 ≤ s.start.line) :
    numbered (snippetRows src s ll hl pfx r tail rest) = (shown s pfx).map (fun k => (k, tline src r k)) := by
  have hc := ctxLines_lt s pfx h1
  have hnone : ∀ (ls : List Str), numbered (ls.map (renderLine ll · none)) = [] := by
    intro ls
    unfold numbered
    rw [List.filterMap_eq_nil_iff]
    intro l hl
    obtain ⟨b, _, rfl⟩ := List.mem_map.mp hl
    simp [parseLine_renderLine_none]
  have hsome : ∀ (ks : List Nat), numbered (ks.map (fun k => renderLine ll (tline src r k) (some k)))
      = ks.map (fun k => (k, tline src r k)) := by
    intro ks
    induction ks with
    | nil => rfl
    | cons k ks ih =>
      unfold numbered at ih ⊢
      simp only [List.map_cons, List.filterMap_cons, parseLine_renderLine_some, ih]
  have happ : ∀ a b : List Str, numbered (a ++ b) = numbered a ++ numbered b := by
    intro a b; simp [numbered, List.filterMap_append]
  have h1n : ∀ b : Str, numbered [renderLine ll b none] = [] := fun b => hnone [b]
  have h1s : ∀ k : Nat, numbered [renderLine ll (tline src r k) (some k)] = [(k, tline src r k)] := fun k => hsome [k]
  unfold snippetRows shown
  simp only [happ]
  rw [h1n, hnone, List.nil_append, List.append_nil]
  have hpre : (List.range' 0 (ctxLines s pfx)).map
        (fun i => renderLine ll (tline src r (s.start.line - ctxLines s pfx + i)) (some (s.start.line - ctxLines s pfx + i)))
      = ((List.range' 0 (ctxLines s pfx)).map (fun i => s.start.line - ctxLines s pfx + i)).map
          (fun k => renderLine ll (tline src r k) (some k)) := by
    simp [List.map_map, Function.comp_def]
  rw [hpre, hsome, List.range_eq_range', List.range'_concat]
  simp only [List.map_append, List.map_map, List.map_cons, List.map_nil]
  have hfirst : s.start.line - ctxLines s pfx + (0 + 1 * ctxLines s pfx) = s.start.line := by omega
  rw [hfirst]
  by_cases hsingle : s.start.line = s.stop.line
  · simp only [hsingle, ↓reduceIte]
    have : ∀ a b : Str, numbered [renderLine ll (tline src r s.stop.line) (some s.stop.line), renderLine ll b none]
        = [(s.stop.line, tline src r s.stop.line)] := by
      intro a b
      have := happ [renderLine ll (tline src r s.stop.line) (some s.stop.line)] [renderLine ll b none]
      simp only [List.cons_append, List.nil_append] at this
      rw [this, h1s, h1n]; rfl
    rw [this []]
    simp [Function.comp_def]
  · simp only [hsingle, ↓reduceIte]
    have two : ∀ (k : Nat) (b : Str), numbered [renderLine ll (tline src r k) (some k), renderLine ll b none]
        = [(k, tline src r k)] := by
      intro k b
      have := happ [renderLine ll (tline src r k) (some k)] [renderLine ll b none]
      simp only [List.cons_append, List.nil_append] at this
      rw [this, h1s, h1n]; rfl
    have hdots : numbered (if s.stop.line = s.start.line + 1 then [] else [renderLine ll ['.', '.', '.'] none]) = [] := by
      split
      · rfl
      · exact h1n _
    simp only [happ]
    rw [two, two, hdots]
    simp [Function.comp_def]

theorem LabelSpec.tail_shape {label : Option Str} {n : Nat} {tail : Str} {rest : List Str}
    (h : LabelSpec label n tail rest) : tail = [] ∨ ∃ t, tail = ' ' :: t := by
  cases ht : truthy label with
  | none => exact Or.inl (h.1 ht).1
  | some l =>
    obtain ⟨f, r0, _, h2, _⟩ := h.2 l ht
    exact Or.inr ⟨f, h2⟩

theorem highlight_eq (hl : Char) (a b : Nat) :
    highlight hl a b = List.replicate a ' ' ++ List.replicate (b - a) hl := rfl


/-! ### content -/

theorem sublist_renderLine (ll : Nat) (b : Str) (n : Option Nat) : b.Sublist (renderLine ll b n) := by
  unfold renderLine; exact List.sublist_append_right _ _

theorem flatten_sublist_map_renderLine (ll : Nat) (ind : Str) (r0 : List Str) :
    r0.flatten.Sublist ((r0.map (ind ++ ·)).map (renderLine ll · none)).flatten := by
  induction r0 with
  | nil => simp
  | cons x xs ih =>
    simp only [List.map_cons, List.flatten_cons]
    exact List.Sublist.append ((List.sublist_append_right _ _).trans (sublist_renderLine _ _ _)) ih

/-- the visible characters of a label appear, in order, in the label rows -/
theorem label_sublist (ll : Nat) (H : Str) (label : Option Str) (n : Nat) (tail : Str) (rest : List Str) (l : Str)
    (hl : truthy label = some l) (hspec : LabelSpec label n tail rest) :
    (vis l).Sublist (renderLine ll (H ++ tail) none :: rest.map (renderLine ll · none)).flatten := by
  obtain ⟨f, r0, hw, rfl, rfl⟩ := hspec.2 l hl
  have hv := vis_wrapLines l MAX_LABEL_LINE_LEN
  rw [hw] at hv
  rw [← hv]
  refine (List.filter_sublist (l := (f :: r0).flatten)).trans ?_
  simp only [List.flatten_cons]
  refine List.Sublist.append ?_ (flatten_sublist_map_renderLine ll _ r0)
  exact ((List.sublist_cons_self _ _).trans (List.sublist_append_right _ _)).trans (sublist_renderLine _ _ _)

theorem snippetRows_last (src : List Str) (s : Span) (ll : Nat) (hl : Char) (pfx r : Nat) (tail : Str)
    (rest : List Str) :
    ∃ A, snippetRows src s ll hl pfx r tail rest
      = A ++ (renderLine ll (lastHighlight s hl r ++ tail) none :: rest.map (renderLine ll · none)) := by
  by_cases hsingle : s.start.line = s.stop.line
  · refine ⟨[renderLine ll [] none] ++ (List.range' 0 (ctxLines s pfx)).map (fun i =>
        renderLine ll (tline src r (s.start.line - ctxLines s pfx + i)) (some (s.start.line - ctxLines s pfx + i)))
        ++ [renderLine ll (tline src r s.stop.line) (some s.stop.line)], ?_⟩
    simp only [snippetRows, lastHighlight, hsingle, ↓reduceIte]
    simp only [List.append_assoc, List.cons_append, List.nil_append]
  · refine ⟨[renderLine ll [] none] ++ (List.range' 0 (ctxLines s pfx)).map (fun i =>
        renderLine ll (tline src r (s.start.line - ctxLines s pfx + i)) (some (s.start.line - ctxLines s pfx + i)))
        ++ [renderLine ll (tline src r s.start.line) (some s.start.line),
            renderLine ll (highlight hl (s.start.col - r) (tline src r s.start.line).length) none]
        ++ (if s.stop.line = s.start.line + 1 then [] else [renderLine ll ['.', '.', '.'] none])
        ++ [renderLine ll (tline src r s.stop.line) (some s.stop.line)], ?_⟩
    simp only [snippetRows, lastHighlight, hsingle, ↓reduceIte]
    simp only [List.append_assoc, List.cons_append, List.nil_append]

theorem snippet_content (src : List Str) (s : Span) (label : Option Str) (maxLn : Nat) (prim : Bool)
    (pfx : Nat) (out : List Str) (hin : InSource src s) (hv : s.Valid)
    (h : renderSnippet src s label maxLn prim pfx = .ok out) (l : Str) (hl : truthy label = some l) :
    (vis l).Sublist out.flatten := by
  by_cases hsafe : ShiftSafe src s pfx
  · obtain ⟨tail, rest, h', hspec⟩ := renderSnippet_shape src s label maxLn prim pfx hin hv hsafe
    rw [h'] at h
    injection h with h
    subst h
    obtain ⟨A, hA⟩ := snippetRows_last src s (digits maxLn).length (if prim then '^' else '-') pfx
      (removed src s pfx) tail rest
    rw [hA, List.flatten_append]
    exact (label_sublist _ _ label _ tail rest l hl hspec).trans (List.sublist_append_right _ _)
  · rw [renderSnippet_unsafe src s label maxLn prim pfx hin hv hsafe] at h
    cases h

theorem vis_sublist (s : Str) : (vis s).Sublist s := List.filter_sublist

theorem flatten_sublist_map_append (ind : Str) (r : List Str) :
    r.flatten.Sublist (r.map (ind ++ ·)).flatten := by
  induction r with
  | nil => simp
  | cons x xs ih =>
    simp only [List.map_cons, List.flatten_cons]
    exact List.Sublist.append (List.sublist_append_right _ _) ih

/-- the visible characters of a wrapped text appear, in order, in the wrapped lines -/
theorem wrap_content (text : Str) (w : Nat) (ii si : Str) (out : List Str) (h : wrap text w ii si = .ok out) :
    (vis text).Sublist out.flatten := by
  obtain ⟨f, r, hw, hok⟩ := wrap_ok text w ii si
  rw [hok] at h
  injection h with h
  subst h
  have hv := vis_wrapLines text w
  rw [hw] at hv
  rw [← hv]
  refine (vis_sublist _).trans ?_
  simp only [List.flatten_cons]
  exact List.Sublist.append (List.sublist_append_right _ _) (flatten_sublist_map_append si r)

theorem renderChildMessages_ok (cs : List SubDiag) :
    ∃ out, renderChildMessages cs = .ok out ∧
      ∀ c ∈ cs, ∀ m, truthy c.message = some m → (vis m).Sublist out.flatten := by
  induction cs with
  | nil => exact ⟨[], rfl, by simp⟩
  | cons c cs ih =>
    obtain ⟨b, hb, hbc⟩ := ih
    unfold renderChildMessages
    cases hm : truthy c.message with
    | none =>
      refine ⟨b, by simp [hb], ?_⟩
      intro c' hc' m hm'
      simp only [List.mem_cons] at hc'
      rcases hc' with rfl | hc'
      · rw [hm] at hm'; cases hm'
      · exact hbc c' hc' m hm'
    | some m =>
      obtain ⟨f, r, hw, hok⟩ := wrap_ok (levelStr c.level ++ [':', ' '] ++ m) MAX_MESSAGE_LINE_LEN [] []
      refine ⟨[] :: ((([] : Str) ++ f) :: r.map (([] : Str) ++ ·)) ++ b, by simp only [hok, hb, bind, Except.bind], ?_⟩
      intro c' hc' m' hm'
      simp only [List.mem_cons] at hc'
      rcases hc' with rfl | hc'
      · rw [hm] at hm'
        injection hm' with hm'
        subst hm'
        have := wrap_content _ _ _ _ _ hok
        rw [vis_append] at this
        refine ((List.sublist_append_right _ _).trans this).trans ?_
        simp only [List.flatten_cons, List.nil_append, List.flatten_append]
        exact List.sublist_append_left _ _
      · refine (hbc c' hc' m' hm').trans ?_
        simp only [List.flatten_cons, List.nil_append, List.flatten_append]
        exact (List.sublist_append_right _ _)

theorem renderChildSnippets_ok (src : List Str) (maxLn : Nat) (cs : List SubDiag)
    (hok : ∀ c ∈ cs, ∀ sp, c.span = some sp → InSource src sp ∧ sp.Valid ∧ ShiftSafe src sp 0) :
    ∃ out, renderChildSnippets src maxLn cs = .ok out ∧
      ∀ c ∈ cs, ∀ sp l, c.span = some sp → truthy c.label = some l → (vis l).Sublist out.flatten := by
  induction cs with
  | nil => exact ⟨[], rfl, by simp⟩
  | cons c cs ih =>
    obtain ⟨b, hb, hbc⟩ := ih (fun c' hc' => hok c' (by simp [hc']))
    unfold renderChildSnippets
    cases hs : c.span with
    | none =>
      refine ⟨b, by simp [hb], ?_⟩
      intro c' hc' sp l hsp hl
      simp only [List.mem_cons] at hc'
      rcases hc' with rfl | hc'
      · rw [hs] at hsp; cases hsp
      · exact hbc c' hc' sp l hsp hl
    | some sp =>
      obtain ⟨hin, hv, hsafe⟩ := hok c (by simp) sp hs
      obtain ⟨tail, rest, h', _⟩ := renderSnippet_shape src sp c.label maxLn false 0 hin hv hsafe
      refine ⟨snippetRows src sp (digits maxLn).length (if false = true then '^' else '-') 0 (removed src sp 0) tail rest ++ b,
        by simp only [h', hb, bind, Except.bind], ?_⟩
      intro c' hc' sp' l hsp hl
      simp only [List.mem_cons] at hc'
      rw [List.flatten_append]
      rcases hc' with rfl | hc'
      · rw [hs] at hsp
        injection hsp with hsp
        subst hsp
        exact (snippet_content src sp c'.label maxLn false 0 _ hin hv h' l hl).trans (List.sublist_append_left _ _)
      · exact (hbc c' hc' sp' l hsp hl).trans (List.sublist_append_right _ _)

/-! ### `render_diagnostic` -/

theorem sub_r {x y a : Str} (h : x.Sublist y) : x.Sublist (a ++ y) := h.trans (List.sublist_append_right _ _)
theorem sub_l {x y a : Str} (h : x.Sublist y) : x.Sublist (y ++ a) := h.trans (List.sublist_append_left _ _)

theorem renderDiagnostic_ok (file : Str) (src : List Str) (d : Diag) (hd : DiagOK src d) :
    ∃ out, renderDiagnostic file src d = .ok out ∧ ∀ t ∈ diagTexts d, (vis t).Sublist out.flatten := by
  obtain ⟨tl, htl, htlc⟩ := renderChildMessages_ok d.children
  cases hsp : d.span with
  | none =>
    obtain ⟨f, r, hw, hok⟩ := wrap_ok (levelStr d.level ++ [':', ' '] ++
      (truthy d.message).getD d.title) MAX_MESSAGE_LINE_LEN [] []
    refine ⟨((([] : Str) ++ f) :: r.map (([] : Str) ++ ·)) ++ tl, ?_, ?_⟩
    · unfold renderDiagnostic
      simp only [hsp, hok, htl, bind, Except.bind]
    · intro t ht
      unfold diagTexts at ht
      simp only [hsp, List.mem_append, List.mem_singleton, List.mem_flatMap, Option.mem_toList] at ht
      rw [List.flatten_append]
      rcases ht with rfl | ⟨c, hc, hm⟩
      · have := wrap_content _ _ _ _ _ hok
        rw [vis_append] at this
        exact ((List.sublist_append_right _ _).trans this).trans (List.sublist_append_left _ _)
      · exact (htlc c hc t hm).trans (List.sublist_append_right _ _)
  | some sp =>
    obtain ⟨⟨hin, hv, hsafe⟩, hch⟩ := hd sp hsp
    generalize hml : maxList ((sp :: d.children.filterMap (·.span)).map (·.stop.line)) = maxLn
    obtain ⟨tail, rest, hmain, _⟩ := renderSnippet_shape src sp d.label maxLn true PREFIX_CONTEXT_LINES hin hv hsafe
    obtain ⟨subs, hsubs, hsubsc⟩ := renderChildSnippets_ok src maxLn d.children hch
    generalize htitle : levelStr d.level ++ [':', ' '] ++ d.title ++ " (at ".toList ++ file ++ [':']
        ++ digits sp.start.line ++ [':'] ++ digits sp.start.col ++ [')'] = titleLine
    have htitle_sub : (vis d.title).Sublist titleLine := by
      rw [← htitle]
      refine (vis_sublist _).trans ?_
      simp only [List.append_assoc]
      exact (List.sublist_append_left _ _).trans ((List.sublist_append_right _ _).trans (List.sublist_append_right _ _))
    cases hmsg : truthy d.message with
    | none =>
      refine ⟨(titleLine :: snippetRows src sp (digits maxLn).length (if true = true then '^' else '-')
          PREFIX_CONTEXT_LINES (removed src sp PREFIX_CONTEXT_LINES) tail rest ++ subs ++ []) ++ tl, ?_, ?_⟩
      · unfold renderDiagnostic
        simp only [hsp, hml, hmain, hsubs, hmsg, htl, htitle, bind, Except.bind]
      · intro t ht
        unfold diagTexts at ht
        simp only [hsp, hmsg, List.mem_append, List.mem_singleton, List.mem_flatMap, Option.mem_toList,
          Option.toList_none, List.not_mem_nil, or_false] at ht
        simp only [List.flatten_append, List.flatten_cons, List.flatten_nil, List.append_nil, List.append_assoc]
        rcases ht with ((rfl | hl) | ⟨c, hc, hcl⟩) | ⟨c, hc, hm⟩
        · exact htitle_sub.trans (List.sublist_append_left _ _)
        · refine (snippet_content src sp d.label maxLn true PREFIX_CONTEXT_LINES _ hin hv hmain t hl).trans ?_
          exact (List.sublist_append_left _ _).trans (List.sublist_append_right _ _)
        · cases hcs : c.span with
          | none => simp [hcs] at hcl
          | some csp =>
            simp only [hcs, Option.mem_toList] at hcl
            refine (hsubsc c hc csp t hcs hcl).trans ?_
            exact (List.sublist_append_left _ _).trans
              ((List.sublist_append_right _ _).trans (List.sublist_append_right _ _))
        · refine (htlc c hc t hm).trans ?_
          exact (List.sublist_append_right _ _).trans
              ((List.sublist_append_right _ _).trans (List.sublist_append_right _ _))
    | some m =>
      obtain ⟨f, r, hw, hok⟩ := wrap_ok m MAX_MESSAGE_LINE_LEN [] []
      refine ⟨(titleLine :: snippetRows src sp (digits maxLn).length (if true = true then '^' else '-')
          PREFIX_CONTEXT_LINES (removed src sp PREFIX_CONTEXT_LINES) tail rest ++ subs ++
          ([] :: ((([] : Str) ++ f) :: r.map (([] : Str) ++ ·)))) ++ tl, ?_, ?_⟩
      · unfold renderDiagnostic
        simp only [hsp, hml, hmain, hsubs, hmsg, hok, htl, htitle, bind, Except.bind]
      · intro t ht
        unfold diagTexts at ht
        simp only [hsp, hmsg, List.mem_append, List.mem_singleton, List.mem_flatMap, Option.mem_toList,
          Option.toList_some, List.mem_cons, List.not_mem_nil, or_false] at ht
        have hmsgsub := wrap_content _ _ _ _ _ hok
        simp only [List.flatten_append, List.flatten_cons, List.flatten_nil, List.nil_append, List.append_assoc] at hmsgsub ⊢
        rcases ht with (((rfl | hl) | rfl) | ⟨c, hc, hcl⟩) | ⟨c, hc, hm⟩
        · exact htitle_sub.trans (List.sublist_append_left _ _)
        · refine (snippet_content src sp d.label maxLn true PREFIX_CONTEXT_LINES _ hin hv hmain t hl).trans ?_
          exact (List.sublist_append_left _ _).trans (List.sublist_append_right _ _)
        · have := sub_l (a := tl.flatten) hmsgsub
          simp only [List.append_assoc] at this
          exact sub_r (sub_r (sub_r this))
        · cases hcs : c.span with
          | none => simp [hcs] at hcl
          | some csp =>
            simp only [hcs, Option.mem_toList] at hcl
            refine (hsubsc c hc csp t hcs hcl).trans ?_
            exact (List.sublist_append_left _ _).trans
              ((List.sublist_append_right _ _).trans (List.sublist_append_right _ _))
        · exact sub_r (sub_r (sub_r (sub_r (sub_r (htlc c hc t hm)))))

/-! ### `to_span`: UTF-8 byte offsets to character columns -/

theorem utf8Len_pos (c : Char) : 0 < utf8Len c := by
  unfold utf8Len; split <;> (try split) <;> (try split) <;> omega

theorem utf8Bytes_append (a b : Str) : utf8Bytes (a ++ b) = utf8Bytes a + utf8Bytes b := by
  induction a with
  | nil => simp [utf8Bytes]
  | cons c cs ih => simp [utf8Bytes, ih]; omega

theorem prefixChars_boundary (pre post : Str) : prefixChars (pre ++ post) (utf8Bytes pre) = pre.length := by
  induction pre with
  | nil =>
    cases post with
    | nil => simp [prefixChars]
    | cons c cs =>
      have := utf8Len_pos c
      simp only [List.nil_append, utf8Bytes, prefixChars, List.length_nil]
      rw [if_neg (by omega)]
  | cons c cs ih =>
    simp only [List.cons_append, utf8Bytes, prefixChars, List.length_cons]
    rw [if_pos (by omega)]
    have : utf8Len c + utf8Bytes cs - utf8Len c = utf8Bytes cs := by omega
    rw [this, ih]; omega

theorem utf8Bytes_ascii (s : Str) (h : isAscii s = true) : utf8Bytes s = s.length := by
  induction s with
  | nil => rfl
  | cons c cs ih =>
    unfold isAscii at h ih
    simp only [List.all_cons, Bool.and_eq_true, decide_eq_true_eq] at h
    simp only [utf8Bytes, List.length_cons, ih h.2, utf8Len, h.1, ↓reduceIte]
    omega

theorem isAscii_append (a b : Str) : isAscii (a ++ b) = (isAscii a && isAscii b) := by
  simp [isAscii]

/-- on a character boundary the converted column is the number of characters before it -/
theorem charColumn_boundary (pre post : Str) : charColumn (pre ++ post) (utf8Bytes pre) = pre.length := by
  unfold charColumn
  split
  · rename_i h
    rw [isAscii_append, Bool.and_eq_true] at h
    exact utf8Bytes_ascii pre h.1
  · rw [if_neg (by rw [utf8Bytes_append]; omega)]
    exact prefixChars_boundary pre post

theorem utf8Len_eq (c : Char) : utf8Len c = c.utf8Size := by
  unfold utf8Len Char.utf8Size
  simp only [UInt32.lt_iff_toNat_lt, UInt32.le_iff_toNat_le]
  have : (0x80 : UInt32).toNat = 128 := rfl
  have : (0x800 : UInt32).toNat = 2048 := rfl
  have : (0x10000 : UInt32).toNat = 65536 := rfl
  simp only [UInt32.toNat_ofNatLT]
  split <;> split <;> (try split) <;> (try split) <;> (try split) <;> (try split) <;> omega

theorem utf8Bytes_eq (s : Str) : utf8Bytes s = byteLen s := by
  induction s with
  | nil => rfl
  | cons c cs ih => simp [utf8Bytes, byteLen, utf8Len_eq] at ih ⊢; omega

end GuppyVerif.Render
