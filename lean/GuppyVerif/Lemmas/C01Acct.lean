import GuppyVerif.Lemmas.C01Get
/-! Wire accounting for `getitem` on a place stored as leaves: every leaf wire is consumed by
    exactly one `MakeTuple`, linear sub-places are forgotten afterwards. -/
namespace GuppyVerif.DFWiring

mutual
/-- wires of the leaf sub-places, left to right (recursive form) -/
def leafWs (L : Locals) (p : PlaceId) : Ty → List Wire
  | .leaf _ _ => (L p).toList
  | .node _ cs => leafWsList L p 0 cs
def leafWsList (L : Locals) (p : PlaceId) (i : Nat) : List Ty → List Wire
  | [] => []
  | t :: ts => leafWs L (i :: p) t ++ leafWsList L p (i + 1) ts
end

mutual
theorem leafWs_congr {L L' : Locals} : ∀ (t : Ty) (p : PlaceId),
    (∀ q, p <:+ q → L' q = L q) → leafWs L' p t = leafWs L p t
  | .leaf _ _, p, h => by simp [leafWs, h p (List.suffix_refl p)]
  | .node _ cs, p, h => by
    simp only [leafWs]
    exact leafWsList_congr cs p 0 (fun j q _ hq => h q (under_child_trans hq))
theorem leafWsList_congr {L L' : Locals} : ∀ (ts : List Ty) (p : PlaceId) (i : Nat),
    (∀ j q, i ≤ j → (j :: p) <:+ q → L' q = L q) → leafWsList L' p i ts = leafWsList L p i ts
  | [], _, _, _ => by simp [leafWsList]
  | t :: ts, p, i, h => by
    simp only [leafWsList]
    rw [leafWs_congr t (i :: p) (fun q hq => h i q (Nat.le_refl i) hq),
      leafWsList_congr ts p (i + 1) (fun j q hj hq => h j q (by omega) hq)]
end

theorem consumed_append (a b : List Op) : consumed (a ++ b) = consumed a ++ consumed b := by
  induction a with
  | nil => simp [consumed]
  | cons o os ih => cases o <;> simp [consumed, ih]

theorem produced_append (a b : List Op) : produced (a ++ b) = produced a ++ produced b := by
  induction a with
  | nil => simp [produced]
  | cons o os ih => cases o <;> simp [produced, ih]

theorem sub_cons (p : PlaceId) (j : Nat) (s : List Nat) : sub p (j :: s) = sub (j :: p) s := by
  simp [sub]

theorem sub_length (p : PlaceId) (s : List Nat) : (sub p s).length = s.length + p.length := by
  simp [sub]

theorem under_sub (p : PlaceId) (s : List Nat) : p <:+ sub p s := List.suffix_append _ _

/-- what `getitem` leaves in `locals` strictly below `p` -/
def AfterP (L L2 : Locals) (p : PlaceId) (t : Ty) : Prop :=
  ∀ s t', s ≠ [] → t.at s = some t' →
    (t'.linear = true → L2 (sub p s) = none) ∧
    (t'.linear = false → t'.isLeaf = true → L2 (sub p s) = L (sub p s))

def AcctPost (L : Locals) (n : Nat) (p : PlaceId) (t : Ty)
    (r : Wire × Locals × Nat × List Op) : Prop :=
  (∀ x, (consumed r.2.2.2).count x + [r.1].count x
      = (leafWs L p t).count x + (produced r.2.2.2).count x) ∧
  (∀ x ∈ produced r.2.2.2, n ≤ x.node ∧ x.node < r.2.2.1) ∧
  (∀ op ∈ r.2.2.2, ∃ u ins, op = Op.make u ins) ∧
  (t.isLeaf = true → r.2.1 p = L p) ∧
  (t.isLeaf = false → n ≤ r.1.node) ∧
  AfterP L r.2.1 p t

def AcctListPost (L : Locals) (n : Nat) (p : PlaceId) (i : Nat) (ts : List Ty)
    (r : List Wire × Locals × Nat × List Op) : Prop :=
  (∀ x, (consumed r.2.2.2).count x + r.1.count x
      = (leafWsList L p i ts).count x + (produced r.2.2.2).count x) ∧
  (∀ x ∈ produced r.2.2.2, n ≤ x.node ∧ x.node < r.2.2.1) ∧
  (∀ op ∈ r.2.2.2, ∃ u ins, op = Op.make u ins) ∧
  (∀ j t, i ≤ j → ts[j - i]? = some t →
    AfterP L r.2.1 (j :: p) t ∧ (t.isLeaf = true → r.2.1 (j :: p) = L (j :: p)))

theorem at_node_cons {k : Kind} {cs : List Ty} {j : Nat} {s : List Nat} {t' : Ty}
    (h : (Ty.node k cs).at (j :: s) = some t') : ∃ tj, cs[j]? = some tj ∧ tj.at s = some t' := by
  simp only [Ty.at] at h
  cases hc : cs[j]? with
  | none => simp [hc] at h
  | some tj => exact ⟨tj, rfl, by simpa [hc] using h⟩

theorem at_nil {t t' : Ty} (h : t.at [] = some t') : t' = t := by
  cases t <;> simp [Ty.at] at h <;> exact h.symm

mutual
theorem getitem_acct : ∀ (t : Ty) (L : Locals) (n : Nat) (p : PlaceId) (env : Env) (v : Val)
    (r : Wire × Locals × Nat × List Op),
    Holds n L env p t v → getitem L n p t = .ok r → AcctPost L n p t r
  | .leaf _ _, L, n, p, env, v, r, h, hr => by
    simp only [Holds] at h
    obtain ⟨w, h1, _, _⟩ := h
    simp only [getitem, h1, Except.ok.injEq] at hr
    subst hr
    refine ⟨by simp [consumed, produced, leafWs, h1], by simp [produced], by simp,
      fun _ => rfl, by simp [Ty.isLeaf], ?_⟩
    intro s t' hs hat
    cases s with
    | nil => exact absurd rfl hs
    | cons j s => simp [Ty.at] at hat
  | .node k cs, L, n, p, env, .tup vs, r, h, hr => by
    have hh := h
    simp only [Holds] at h
    obtain ⟨hLp, hl⟩ := h
    obtain ⟨ws, L1, n1, ops1, e1, a1, a2, a3, a4, env1, a5, a6, a7⟩ :=
      getitemList_post cs L n p 0 env vs hl
    obtain ⟨L2, b1, b2, b3⟩ := popLinear_spec cs L1 p 0 a3
    obtain ⟨c1, c2, c3, c4⟩ := getitemList_acct cs L n p 0 env vs _ hl e1
    simp only at c1 c2 c3 c4
    simp only [getitem, hLp, e1, b1, Except.ok.injEq] at hr
    subst hr
    refine ⟨?_, ?_, ?_, by simp [Ty.isLeaf], fun _ => a1, ?_⟩
    · intro x
      have := c1 x
      simp only [consumed_append, produced_append, consumed, produced, List.append_nil,
        List.count_append, leafWs]
      omega
    · intro x hx
      simp only [produced_append, produced, List.mem_append, List.mem_cons, List.not_mem_nil,
        or_false] at hx
      rcases hx with hx | hx
      · have := c2 x hx; simp only; omega
      · subst hx; simp only; omega
    · intro op hop
      simp only [List.mem_append, List.mem_cons, List.not_mem_nil, or_false] at hop
      rcases hop with hop | hop
      · exact c3 op hop
      · exact ⟨n1, ws, hop⟩
    · intro s t' hs hat
      cases s with
      | nil => exact absurd rfl hs
      | cons j s =>
        obtain ⟨tj, hj, hat'⟩ := at_node_cons hat
        have hc := c4 j tj (Nat.zero_le j) (by simpa using hj)
        rw [sub_cons]
        have hne : sub (j :: p) s ≠ p := under_child_ne (under_sub (j :: p) s)
        simp only [Locals.set_apply, hne, ↓reduceIte]
        cases s with
        | nil =>
          have := at_nil hat'; subst this
          simp only [sub, List.reverse_nil, List.nil_append]
          refine ⟨fun hlin => b2 j _ (Nat.zero_le j) (by simpa using hj) hlin, fun hnl hleaf => ?_⟩
          rw [b3 (j :: p) (fun j' t'' _ hj' hlin e => by
            simp only [List.cons.injEq, and_true] at e
            subst e
            simp only [Nat.sub_zero] at hj'
            rw [hj] at hj'
            simp only [Option.some.injEq] at hj'
            subst hj'
            rw [hnl] at hlin
            exact Bool.false_ne_true hlin)]
          exact hc.2 hleaf
        | cons j' s' =>
          have hlen : ∀ j'', sub (j :: p) (j' :: s') ≠ j'' :: p := by
            intro j'' e
            have := congrArg List.length e
            simp [sub_length] at this
          rw [b3 _ (fun j'' _ _ _ _ => hlen j'')]
          exact hc.1 (j' :: s') t' (by simp) hat'
  | .node _ _, _, _, _, _, .atom _, _, h, _ => by simp [Holds] at h
theorem getitemList_acct : ∀ (ts : List Ty) (L : Locals) (n : Nat) (p : PlaceId) (i : Nat)
    (env : Env) (vs : List Val) (r : List Wire × Locals × Nat × List Op),
    HoldsList n L env p i ts vs → getitemList L n p i ts = .ok r → AcctListPost L n p i ts r
  | [], L, n, p, i, env, [], r, _, hr => by
    simp only [getitemList, Except.ok.injEq] at hr
    subst hr
    exact ⟨by simp [consumed, produced, leafWsList], by simp [produced], by simp, by simp⟩
  | t :: ts, L, n, p, i, env, v :: vs, r, h, hr => by
    simp only [HoldsList] at h
    obtain ⟨w1, L1, n1, o1, e1, a1, a2, a3, a4, env1, a5, a6, a7⟩ :=
      getitem_post t L n (i :: p) env v h.1
    have hrest : HoldsList n1 L1 env1 p (i + 1) ts vs :=
      HoldsList.frame a1 a7 ts p (i + 1) vs (fun j q hj hq => a4 q (fun hq' => by
        have := under_child_inj hq hq'; omega)) h.2
    obtain ⟨ws, L2, n2, o2, e2, b1, b2, b3, b4, env2, b5, b6, b7⟩ :=
      getitemList_post ts L1 n1 p (i + 1) env1 vs hrest
    obtain ⟨c1, c2, c3, c4, c5, c6⟩ := getitem_acct t L n (i :: p) env v _ h.1 e1
    obtain ⟨d1, d2, d3, d4⟩ := getitemList_acct ts L1 n1 p (i + 1) env1 vs _ hrest e2
    simp only at c1 c2 c3 c4 c5 c6 d1 d2 d3 d4
    simp only [getitemList, e1, e2, Except.ok.injEq] at hr
    subst hr
    have hL1 : ∀ j q, i + 1 ≤ j → (j :: p) <:+ q → L1 q = L q := fun j q hj hq =>
      a4 q (fun hq' => by have := under_child_inj hq hq'; omega)
    refine ⟨?_, ?_, ?_, ?_⟩
    · intro x
      have h1 := c1 x
      have h2 := d1 x
      rw [leafWsList_congr ts p (i + 1) hL1] at h2
      simp only [consumed_append, produced_append, List.count_append, leafWsList]
      rw [show w1 :: ws = [w1] ++ ws from rfl, List.count_append]
      omega
    · intro x hx
      simp only [produced_append, List.mem_append] at hx
      rcases hx with hx | hx
      · have := c2 x hx; simp only; omega
      · have := d2 x hx; simp only; omega
    · intro op hop
      simp only [List.mem_append] at hop
      rcases hop with hop | hop
      · exact c3 op hop
      · exact d3 op hop
    · intro j t' hj ht'
      simp only
      by_cases hji : j = i
      · subst hji
        simp only [Nat.sub_self, List.getElem?_cons_zero, Option.some.injEq] at ht'
        subst ht'
        have hfr : ∀ q, (j :: p) <:+ q → L2 q = L1 q := fun q hq =>
          b4 q (fun j' hj' hq' => by have := under_child_inj hq hq'; omega)
        refine ⟨?_, fun hleaf => by rw [hfr _ (List.suffix_refl _)]; exact c4 hleaf⟩
        intro s t'' hs hat
        rw [hfr _ (under_sub _ _)]
        exact c6 s t'' hs hat
      · have hj' : i + 1 ≤ j := by omega
        have ht'' : ts[j - (i + 1)]? = some t' := by rw [← getElem?_shift t ts hj']; exact ht'
        obtain ⟨e1', e2'⟩ := d4 j t' hj' ht''
        refine ⟨?_, fun hleaf => by rw [e2' hleaf]; exact hL1 j _ hj' (List.suffix_refl _)⟩
        intro s t'' hs hat
        have := e1' s t'' hs hat
        rw [hL1 j _ hj' (under_sub _ _)] at this
        exact this
  | [], _, _, _, _, _, _ :: _, _, h, _ => by simp [HoldsList] at h
  | _ :: _, _, _, _, _, _, [], _, h, _ => by simp [HoldsList] at h
end

end GuppyVerif.DFWiring
