import GuppyVerif.Lemmas.C08Bfs
/-! Completeness of the type-join check: when `check_cfg` succeeds, every control-flow edge the
    BFS follows has been compared, so no live variable reaches a block with two types. -/
namespace GuppyVerif.UseDef
open GuppyVerif.Dataflow

/-- the successor list whose edges `check_cfg` enqueues for block `b` -/
def followed (U : UCfg) (b : Blk) : List Blk :=
  U.succ b ++ U.dsucc b

theorem enumFrom_mem {p : Blk} {k i : Nat} {s : Blk} {ss : List Blk} (h : ss[i]? = some s) :
    (p, k + i, s) ∈ enumFrom p k ss := by
  induction ss generalizing k i with
  | nil => simp at h
  | cons a ss ih =>
    cases i with
    | zero => simp at h; subst h; simp [enumFrom]
    | succ i =>
      simp only [List.getElem?_cons_succ] at h
      have := ih (k := k + 1) h
      simp only [enumFrom, List.mem_cons]
      right
      have e : k + (i + 1) = k + 1 + i := by omega
      rw [e]; exact this

theorem revEnum_mem {p : Blk} {i : Nat} {s : Blk} {ss : List Blk} (h : ss[i]? = some s) :
    (p, i, s) ∈ revEnum p ss := by
  unfold revEnum
  rw [List.mem_reverse]
  have := enumFrom_mem (p := p) (k := 0) h
  simpa using this

theorem rowsMatch_self (r : Row) : rowsMatch r r = [] := by
  unfold rowsMatch
  rw [List.filterMap_eq_nil_iff]
  intro x hx
  have hx' : x ∈ r.map (·.1) := by
    simp only [List.mem_append, List.mem_filter] at hx
    exact hx.elim id (·.1)
  have := (lookup_isSome_iff_mem x r).mpr hx'
  cases h : lookup x r with
  | none => rw [h] at this; cases this
  | some t => simp

/-- every followed edge out of a compiled block is still queued or has been compared -/
def EdgeDone (U : UCfg) (comp : Compiled) (q : List (Blk × Nat × Blk)) : Prop :=
  ∀ b row outs, findC b comp = some (row, outs) → ∀ i s, (followed U b)[i]? = some s →
    (b, i, s) ∈ q ∨ ∃ rs os r, findC s comp = some (rs, os) ∧ outs[i]? = some r ∧ rowsMatch r rs = []

theorem bfs_complete {U : UCfg} (hU : U.WF) {A : Ana} (hA : AnaOK U A) :
    ∀ (fuel : Nat) (q : List (Blk × Nat × Blk)) (comp c : Compiled),
      CompOK U A comp → QOK U q comp → EdgeDone U comp q → bfs U A fuel q comp = some (.ok c) →
      CompOK U A c ∧ EdgeDone U c [] ∧ ∀ b r, findC b comp = some r → findC b c = some r := by
  intro fuel
  induction fuel with
  | zero =>
    intro q comp c hc _ he h
    cases q with
    | nil => simp only [bfs] at h; cases h; exact ⟨hc, he, fun _ _ h => h⟩
    | cons a q => simp [bfs] at h
  | succ n ih =>
    intro q comp c hc hq he h
    cases q with
    | nil => simp only [bfs] at h; cases h; exact ⟨hc, he, fun _ _ h => h⟩
    | cons a q =>
      obtain ⟨p, i, b⟩ := a
      obtain ⟨rowp, outsp, hfp, hidx, hedge⟩ := hq p i b List.mem_cons_self
      obtain ⟨hpb, hrp, houts, hsucc, htyp⟩ := hc p rowp outsp hfp
      have hbs : b ∈ U.succ p ++ U.dsucc p := List.mem_of_getElem? hidx
      have hbb : b ∈ U.blocks := hU.cfg.closed p hpb b hbs
      have hbne : b ≠ U.entry := by
        intro e
        have : p ∈ U.pred b ++ U.dpred b := (hU.cfg.conv p b).mp hbs
        rw [e, hU.entry_root] at this
        exact absurd this List.not_mem_nil
      let env := runEvents rowp (U.events p)
      have hout : outsp[i]? = some (rowFor A env b) := by
        rw [houts]; simp only [outsOf, List.getElem?_map, hidx, Option.map_some]; rfl
      have hin : ((findC p comp).bind fun r => r.2[i]?) = some (rowFor A env b) := by
        rw [hfp]; simp only [Option.bind_some]; exact hout
      have hrow : RowOK U A b (rowFor A env b) := hsucc b hbs
      have htyb : ∀ x, ∃ o, TyAt U x b o ∧ ∀ t, lookup x (rowFor A env b) = some t → o = some t := by
        intro x
        obtain ⟨o, hty, ho⟩ := htyp x
        obtain ⟨o', hty', ho'⟩ := tyAt_step hty ho hedge
        refine ⟨o', hty', fun t ht => ho' t ?_⟩
        rw [lookup_rowFor] at ht
        split at ht
        · exact ht
        · cases ht
      have hqtail : ∀ comp', (∀ c r, findC c comp = some r → findC c comp' = some r) →
          QOK U q comp' := by
        intro comp' hmono p' i' b' hm
        obtain ⟨row', outs', hf', rest⟩ := hq p' i' b' (List.mem_cons_of_mem _ hm)
        exact ⟨row', outs', hmono _ _ hf', rest⟩
      simp only [bfs, hin] at h
      cases hfb : findC b comp with
      | some rb =>
        obtain ⟨rowb, outsb⟩ := rb
        simp only [hfb] at h
        cases hrm : rowsMatch (rowFor A env b) rowb with
        | cons e es => simp [hrm] at h
        | nil =>
          simp only [hrm] at h
          refine ih q comp c hc (hqtail comp fun _ _ h => h) ?_ h
          intro b' row' outs' hf' i' s' hs'
          rcases he b' row' outs' hf' i' s' hs' with hm | hd
          · rw [List.mem_cons] at hm
            rcases hm with hm | hm
            · cases hm
              rw [hfp] at hf'; cases hf'
              exact Or.inr ⟨rowb, outsb, _, hfb, hout, hrm⟩
            · exact Or.inl hm
          · exact Or.inr hd
      | none =>
        simp only [hfb] at h
        obtain ⟨hck, hnext⟩ := checkBB_ok hU hA hbb hbne hrow
        simp only [hck] at h
        have hmono : ∀ c r, findC c comp = some r →
            findC c ((b, rowFor A env b, outsOf U A b (rowFor A env b)) :: comp) = some r := by
          intro c r hf
          rw [findC_cons]
          split
          · rename_i hcb; subst hcb; rw [hfb] at hf; cases hf
          · exact hf
        have := ih _ _ c ?_ ?_ ?_ h
        · exact ⟨this.1, this.2.1, fun b' r hf => this.2.2 b' r (hmono b' r hf)⟩
        · intro c' row outs hf
          rw [findC_cons] at hf
          split at hf
          · rename_i hcb
            cases hf; subst hcb
            exact ⟨hbb, hrow, rfl, hnext, htyb⟩
          · exact hc c' row outs hf
        · intro p' i' b' hm
          rw [List.mem_append] at hm
          rcases hm with hm | hm
          · exact hqtail _ hmono p' i' b' hm
          · obtain ⟨hp', hs'⟩ := mem_revEnum hm
            subst hp'
            refine ⟨rowFor A env p', outsOf U A p' (rowFor A env p'), by rw [findC_cons]; simp, ?_, ?_⟩
            · exact hs'
            · exact List.mem_of_getElem? hs'
        · intro b' row' outs' hf' i' s' hs'
          rw [findC_cons] at hf'
          split at hf'
          · rename_i hb'
            cases hf'; subst hb'
            left
            rw [List.mem_append]; right
            exact revEnum_mem hs'
          · rcases he b' row' outs' hf' i' s' hs' with hm | ⟨rs, os, r, hfs, hr, hmm⟩
            · rw [List.mem_cons] at hm
              rcases hm with hm | hm
              · cases hm
                rw [hfp] at hf'; cases hf'
                refine Or.inr ⟨rowFor A env b, outsOf U A b (rowFor A env b), _, ?_, hout, rowsMatch_self _⟩
                rw [findC_cons]; simp
              · exact Or.inl (List.mem_append_left _ hm)
            · exact Or.inr ⟨rs, os, r, hmono _ _ hfs, hr, hmm⟩

theorem rowsMatch_nil_lookup {r1 r2 : Row} (h : rowsMatch r1 r2 = []) {x : Var} {t : Ty}
    (h1 : lookup x r1 = some t) (h2 : (lookup x r2).isSome) : lookup x r2 = some t := by
  unfold rowsMatch at h
  rw [List.filterMap_eq_nil_iff] at h
  have hx : x ∈ r1.map (·.1) ++ (r2.map (·.1)).filter (fun x => !(r1.map (·.1)).contains x) :=
    List.mem_append_left _ ((lookup_isSome_iff_mem x r1).mp (by rw [h1]; rfl))
  have := h x hx
  rw [h1] at this
  cases h3 : lookup x r2 with
  | none => rw [h3] at h2; cases h2
  | some t2 =>
    rw [h3] at this
    simp only at this
    split at this
    · rename_i e; rw [e]
    · cases this

theorem tyAt_mem {U : UCfg} (hU : U.WF) {x : Var} {b : Blk} {o : Option Ty} (h : TyAt U x b o) :
    b ∈ U.blocks ∧ (o.isSome → x ∈ U.assignedSomewhere) := by
  induction h with
  | entry => exact ⟨hU.entry_mem, fun h => args_sub_AS ((args_lookup_isSome U x).mp h)⟩
  | @edge p s o _ he ih =>
    have hs : s ∈ U.succ p ++ U.dsucc p := he
    refine ⟨hU.cfg.closed _ ih.1 _ hs, fun h => ?_⟩
    unfold exitTy at h
    cases hl : lastAsg x (U.events p) with
    | some t => exact assigned_sub_AS ih.1 ((lastAsg_isSome_iff x _).mp (by rw [hl]; rfl))
    | none => rw [hl] at h; exact ih.2 h

/-- at a successful end, every typed path agrees with the compiled signature -/
theorem tyAt_agrees {U : UCfg} (hU : U.WF) {A : Ana} (hA : AnaOK U A) {c : Compiled}
    (hc : CompOK U A c) (he : EdgeDone U c []) {outs0 : List Row}
    (hentry : findC U.entry c = some (U.args, outs0)) {x : Var} {b : Blk} {o : Option Ty}
    (h : TyAt U x b o) :
    ∃ row outs, findC b c = some (row, outs) ∧
      (x ∈ A.live b → x ∈ U.assignedSomewhere → lookup x row = o) := by
  induction h with
  | entry => exact ⟨U.args, outs0, hentry, fun _ _ => rfl⟩
  | @edge p s o hty hedge ih =>
    obtain ⟨rowp, outsp, hfp, hagree⟩ := ih
    obtain ⟨hpb, hrp, houts, hsucc, _⟩ := hc p rowp outsp hfp
    -- index of the edge
    have hs : s ∈ followed U p := hedge
    obtain ⟨i, hi⟩ := List.getElem?_of_mem hs
    have hidx : (U.succ p ++ U.dsucc p)[i]? = some s := hi
    rcases he p rowp outsp hfp i s hi with hm | ⟨rs, os, r, hfs, hr, hmm⟩
    · cases hm
    · refine ⟨rs, os, hfs, fun hl hAS => ?_⟩
      have hsb : s ∈ U.succ p ++ U.dsucc p := List.mem_of_getElem? hidx
      have hr' : r = rowFor A (runEvents rowp (U.events p)) s := by
        rw [houts] at hr
        simp only [outsOf, List.getElem?_map, hidx, Option.map_some] at hr
        exact (Option.some.inj hr).symm
      obtain ⟨hsbl, hrs, _, _, _⟩ := hc s rs os hfs
      have hsome : (lookup x rs).isSome := hrs.locals x hl hAS
      have hrow := hsucc s hsb
      have h1 : (lookup x r).isSome := by rw [hr']; exact hrow.locals x hl hAS
      obtain ⟨t, ht⟩ := Option.isSome_iff_exists.mp h1
      rw [rowsMatch_nil_lookup hmm ht hsome]
      -- lookup x r = exitTy …
      rw [hr', lookup_rowFor] at ht
      simp only [hl, ↓reduceIte] at ht
      rw [lookup_runEvents] at ht
      rw [← ht]
      unfold exitTy
      cases hla : lastAsg x (U.events p) with
      | some t' => rfl
      | none =>
        simp only
        have hna : x ∉ assignedOf (U.events p) := fun h => by
          have := (lastAsg_isSome_iff x _).mpr h
          rw [hla] at this; cases this
        exact hagree (live_of_succ hU hA hpb hsb hl hna) hAS

end GuppyVerif.UseDef
