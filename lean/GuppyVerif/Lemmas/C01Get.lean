import GuppyVerif.Lemmas.C01
/-! `getitem` on a place stored as leaves (Lemma B): succeeds, returns a wire denoting the stored
    value, touches only the subtree of the place. -/
namespace GuppyVerif.DFWiring

theorem child_suffix_child {i j : Nat} {p : PlaceId} (h : (j :: p) <:+ (i :: p)) : j = i :=
  under_child_inj h (List.suffix_refl _)

theorem getElem?_shift {α : Type} (t : α) (ts : List α) {i j : Nat} (h : i + 1 ≤ j) :
    (t :: ts)[j - i]? = ts[j - (i + 1)]? := by
  rw [show j - i = (j - (i + 1)) + 1 by omega, List.getElem?_cons_succ]

/-- `popLinear` succeeds when all children are present; it removes exactly the linear children -/
theorem popLinear_spec : ∀ (ts : List Ty) (L : Locals) (p : PlaceId) (i : Nat),
    (∀ j t, i ≤ j → ts[j - i]? = some t → (L (j :: p)).isSome) →
    ∃ L2, popLinear L p i ts = .ok L2 ∧
      (∀ j t, i ≤ j → ts[j - i]? = some t → t.linear = true → L2 (j :: p) = none) ∧
      (∀ q, (∀ j t, i ≤ j → ts[j - i]? = some t → t.linear = true → q ≠ j :: p) → L2 q = L q)
  | [], L, p, i, _ => ⟨L, rfl, by simp, fun _ _ => rfl⟩
  | t :: ts, L, p, i, hpres => by
    have hi := hpres i t (Nat.le_refl i) (by simp)
    by_cases hl : t.linear = true
    · obtain ⟨w, hw⟩ := Option.isSome_iff_exists.mp hi
      have ih := popLinear_spec ts (L.pop (i :: p)) p (i + 1) (fun j t' hj ht' => by
        have := hpres j t' (by omega) (by rw [getElem?_shift t ts hj]; exact ht')
        have hne : j :: p ≠ i :: p := by intro e; simp at e; omega
        simpa [hne] using this)
      obtain ⟨L2, h1, h2, h3⟩ := ih
      refine ⟨L2, by simp only [popLinear, hl, ↓reduceIte, hw]; exact h1, ?_, ?_⟩
      · intro j t' hj ht' hlin
        by_cases hji : j = i
        · subst hji
          rw [h3 (j :: p) (fun j' _ hj' _ _ => by intro e; simp at e; omega)]
          simp
        · exact h2 j t' (by omega) (by rw [← getElem?_shift t ts (by omega)]; exact ht') hlin
      · intro q hq
        rw [h3 q (fun j t' hj ht' hlin => hq j t' (by omega)
          (by rw [getElem?_shift t ts hj]; exact ht') hlin)]
        have : q ≠ i :: p := hq i t (Nat.le_refl i) (by simp) hl
        simp [this]
    · have ih := popLinear_spec ts L p (i + 1) (fun j t' hj ht' =>
        hpres j t' (by omega) (by rw [getElem?_shift t ts hj]; exact ht'))
      obtain ⟨L2, h1, h2, h3⟩ := ih
      refine ⟨L2, by simp only [popLinear, hl]; exact h1, ?_, ?_⟩
      · intro j t' hj ht' hlin
        by_cases hji : j = i
        · subst hji
          simp at ht'; subst ht'; exact absurd hlin hl
        · exact h2 j t' (by omega) (by rw [← getElem?_shift t ts (by omega)]; exact ht') hlin
      · intro q hq
        exact h3 q (fun j t' hj ht' hlin => hq j t' (by omega)
          (by rw [getElem?_shift t ts hj]; exact ht') hlin)

def GetPost (L : Locals) (n : Nat) (p : PlaceId) (env : Env) (v : Val)
    (r : Except Err (Wire × Locals × Nat × List Op)) : Prop :=
  ∃ w' L2 n2 ops, r = .ok (w', L2, n2, ops) ∧ n ≤ n2 ∧ w'.node < n2 ∧ L2 p = some w' ∧
    (∀ q, ¬ p <:+ q → L2 q = L q) ∧
    ∃ env2, evalOps env ops = some env2 ∧ env2 w' = some v ∧ ∀ x : Wire, x.node < n → env2 x = env x

def GetListPost (L : Locals) (n : Nat) (p : PlaceId) (i : Nat) (env : Env) (ts : List Ty)
    (vs : List Val) (r : Except Err (List Wire × Locals × Nat × List Op)) : Prop :=
  ∃ ws L2 n2 ops, r = .ok (ws, L2, n2, ops) ∧ n ≤ n2 ∧ (∀ w ∈ ws, w.node < n2) ∧
    (∀ j t, i ≤ j → ts[j - i]? = some t → (L2 (j :: p)).isSome) ∧
    (∀ q, (∀ j, i ≤ j → ¬ (j :: p) <:+ q) → L2 q = L q) ∧
    ∃ env2, evalOps env ops = some env2 ∧ env2.all ws = some vs ∧
      ∀ x : Wire, x.node < n → env2 x = env x

mutual
theorem getitem_post : ∀ (t : Ty) (L : Locals) (n : Nat) (p : PlaceId) (env : Env) (v : Val),
    Holds n L env p t v → GetPost L n p env v (getitem L n p t)
  | .leaf _ _, L, n, p, env, v, h => by
    simp only [Holds] at h
    obtain ⟨w, h1, h2, h3⟩ := h
    simp only [getitem, h1]
    exact ⟨w, L, n, [], rfl, Nat.le_refl n, h2, h1, fun _ _ => rfl, env, rfl, h3, fun _ _ => rfl⟩
  | .node _ cs, L, n, p, env, .tup vs, h => by
    simp only [Holds] at h
    obtain ⟨hLp, hl⟩ := h
    obtain ⟨ws, L1, n1, ops1, e1, a1, a2, a3, a4, env1, a5, a6, a7⟩ :=
      getitemList_post cs L n p 0 env vs hl
    obtain ⟨L2, b1, b2, b3⟩ := popLinear_spec cs L1 p 0 a3
    simp only [getitem, hLp, e1, b1]
    refine ⟨⟨n1, 0⟩, L2.set p ⟨n1, 0⟩, n1 + 1, ops1 ++ [.make n1 ws], rfl, by omega, by simp,
      by simp, ?_, (env1.set ⟨n1, 0⟩ (.tup vs)), ?_, by simp, ?_⟩
    · intro q hq
      have hne : q ≠ p := by intro e; subst e; exact hq (List.suffix_refl _)
      simp only [Locals.set_apply, hne, ↓reduceIte]
      rw [b3 q (fun j _ _ _ _ e => hq (by rw [e]; exact List.suffix_cons _ _)),
        a4 q (fun j _ hj => hq (under_child_trans hj))]
    · simp only [evalOps_append, a5, evalOps, evalOp, a6]
    · intro x hx
      have : x ≠ ⟨n1, 0⟩ := by intro e; subst e; simp at hx; omega
      simp only [Env.set_apply, this, ↓reduceIte]
      exact a7 x hx
  | .node _ _, _, _, _, _, .atom _, h => by simp [Holds] at h
theorem getitemList_post : ∀ (ts : List Ty) (L : Locals) (n : Nat) (p : PlaceId) (i : Nat)
    (env : Env) (vs : List Val), HoldsList n L env p i ts vs →
    GetListPost L n p i env ts vs (getitemList L n p i ts)
  | [], L, n, p, i, env, [], _ => by
    simp only [getitemList]
    exact ⟨[], L, n, [], rfl, Nat.le_refl n, by simp, by simp, fun _ _ => rfl, env, rfl, rfl,
      fun _ _ => rfl⟩
  | t :: ts, L, n, p, i, env, v :: vs, h => by
    simp only [HoldsList] at h
    obtain ⟨w1, L1, n1, o1, e1, a1, a2, a3, a4, env1, a5, a6, a7⟩ :=
      getitem_post t L n (i :: p) env v h.1
    have hrest : HoldsList n1 L1 env1 p (i + 1) ts vs :=
      HoldsList.frame a1 a7 ts p (i + 1) vs (fun j q hj hq => a4 q (fun hq' => by
        have := under_child_inj hq hq'; omega)) h.2
    obtain ⟨ws, L2, n2, o2, e2, b1, b2, b3, b4, env2, b5, b6, b7⟩ :=
      getitemList_post ts L1 n1 p (i + 1) env1 vs hrest
    simp only [getitemList, e1, e2]
    refine ⟨w1 :: ws, L2, n2, o1 ++ o2, rfl, by omega, ?_, ?_, ?_, env2, ?_, ?_, ?_⟩
    · intro w hw
      simp only [List.mem_cons] at hw
      rcases hw with hw | hw
      · subst hw; omega
      · exact b2 w hw
    · intro j t' hj ht'
      by_cases hji : j = i
      · subst hji
        rw [b4 (j :: p) (fun j' hj' hs => by have := child_suffix_child hs; omega), a3]
        rfl
      · exact b3 j t' (by omega) (by rw [← getElem?_shift t ts (by omega)]; exact ht')
    · intro q hq
      rw [b4 q (fun j hj => hq j (by omega)), a4 q (hq i (Nat.le_refl i))]
    · simp only [evalOps_append, a5]; exact b5
    · simp only [Env.all, b7 w1 a2, a6, b6]
    · intro x hx
      rw [b7 x (by omega), a7 x hx]
  | [], _, _, _, _, _, _ :: _, h => by simp [HoldsList] at h
  | _ :: _, _, _, _, _, _, [], h => by simp [HoldsList] at h
end

end GuppyVerif.DFWiring
