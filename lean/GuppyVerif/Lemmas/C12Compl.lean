import GuppyVerif.Lemmas.C12Term
/-! Lemmas for C12, part 6: completeness and most-generality (for well-sorted inputs, with the ownership
    flag rule switched off by `NoLinear E`). -/
namespace GuppyVerif.Unify

theorem sizeList_eq (as : List Tm) : sizeList as = (as.map Tm.size).sum := by
  induction as with
  | nil => rfl
  | cons a as ih => simp [sizeList, ih]

/-- the image of a variable of `t` is no larger than the instance of `t`, and smaller unless `t` is that variable -/
theorem size_inst_var {θ : V → Tm} {y : V} : ∀ t : Tm, y ∈ t.vars →
    (θ y).size ≤ (inst θ t).size ∧ ((∀ w, t ≠ .var w) → (θ y).size < (inst θ t).size) := by
  intro t
  induction t using Tm.induct with
  | var v => intro h; simp [Tm.vars] at h; subst h; exact ⟨by simp [inst], fun hw => absurd rfl (hw y)⟩
  | atom a => intro h; simp [Tm.vars] at h
  | node hd as ih =>
    intro h
    simp only [Tm.vars] at h
    obtain ⟨a, ha, hy⟩ := mem_varsList.mp h
    have h1 := (ih a ha hy).1
    have h2 : (inst θ a).size ≤ sizeList (instList θ as) := by
      apply size_le_sizeList
      rw [instList_eq]
      exact List.mem_map.mpr ⟨a, ha, rfl⟩
    simp only [inst, Tm.size]
    exact ⟨by omega, fun _ => by omega⟩
  | targ t ih =>
    intro h
    have h1 := (ih (by simpa [Tm.vars] using h)).1
    simp only [inst, Tm.size]
    exact ⟨by omega, fun _ => by omega⟩
  | carg t ih =>
    intro h
    have h1 := (ih (by simpa [Tm.vars] using h)).1
    simp only [inst, Tm.size]
    exact ⟨by omega, fun _ => by omega⟩

theorem erase_not_var {t : Tm} (h : ∀ w, t ≠ .var w) : ∀ w, erase t ≠ .var w := by
  intro w
  cases t <;> simp [erase] <;> (rename_i v; exact fun e => h v (by rw [e]))

/-- erased-size version -/
theorem esize_inst_var {θ : V → Tm} {y : V} (t : Tm) (hy : y ∈ t.vars) :
    (erase (θ y)).size ≤ (erase (inst θ t)).size ∧
    ((∀ w, t ≠ .var w) → (erase (θ y)).size < (erase (inst θ t)).size) := by
  rw [erase_inst]
  have := size_inst_var (θ := fun v => erase (θ v)) (y := y) (erase t) (by rw [vars_erase]; exact hy)
  exact ⟨this.1, fun h => this.2 (erase_not_var h)⟩

theorem firstM_true {f : V → Option Bool} : ∀ {ys : List V}, firstM f ys = some true → ∃ y ∈ ys, f y = some true := by
  intro ys
  induction ys with
  | nil => intro h; simp [firstM] at h
  | cons a as ih =>
    intro h
    simp only [firstM] at h
    cases hfa : f a with
    | none => simp [hfa] at h
    | some b =>
      cases b with
      | true => exact ⟨a, by simp, hfa⟩
      | false =>
        simp only [hfa] at h
        obtain ⟨y, hy, hfy⟩ := ih h
        exact ⟨y, by simp [hy], hfy⟩

/-- a positive occurs check: the variable's image is embedded in the term's instance, for every solution -/
theorem occurs_true {θ : V → Tm} {σ : Subst} {v : V} (hθ : Solves θ σ) : ∀ (n : Nat) (t : Tm),
    occurs n σ v t = some true →
    ∃ y ∈ t.vars, (erase (θ v)).size ≤ (erase (θ y)).size := by
  intro n
  induction n with
  | zero => intro t h; simp [occurs] at h
  | succ n ih =>
    intro t h
    simp only [occurs] at h
    obtain ⟨y, hy, hfy⟩ := firstM_true h
    refine ⟨y, hy, ?_⟩
    by_cases e : y = v
    · rw [e]; exact Nat.le_refl _
    · simp only [e, if_false] at hfy
      cases hl : lookup σ y with
      | none => simp [hl] at hfy
      | some u =>
        simp only [hl] at hfy
        obtain ⟨z, hz, hle⟩ := ih u hfy
        have h1 := (esize_inst_var (θ := θ) u hz).1
        have h2 : erase (θ y) = erase (inst θ u) := hθ y u hl
        rw [h2]
        omega

theorem flagsClash_noLinear {E : Env} (hE : NoLinear E) : ∀ (f₁ f₂ : List Nat) (as bs : List Tm),
    flagsClash E f₁ f₂ as bs = false := by
  intro f₁
  induction f₁ with
  | nil => intro f₂ as bs; simp [flagsClash]
  | cons a f₁ ih =>
    intro f₂ as bs
    cases f₂ with
    | nil => simp [flagsClash]
    | cons b f₂ =>
      cases as with
      | nil => simp [flagsClash]
      | cons x as =>
        cases bs with
        | nil => simp [flagsClash]
        | cons y bs => simp [flagsClash, hE x, ih]

theorem unifies_node {θ : V → Tm} {h₁ h₂ : Head} {as bs : List Tm} (h : Unifies θ (.node h₁ as) (.node h₂ bs)) :
    eraseH h₁ = eraseH h₂ ∧ as.map (fun a => erase (inst θ a)) = bs.map (fun a => erase (inst θ a)) := by
  unfold Unifies FlagEq at h
  simp only [inst, erase, instList_eq, eraseList_eq, List.map_map, Tm.node.injEq] at h
  exact h

theorem shape_fail {E : Env} {s t : Tm} (hE : NoLinear E) (h : shape E s t = .fail)
    (hs : s.wf = true) (ht : t.wf = true) (θ : V → Tm) : ¬ Unifies θ s t := by
  intro hu
  cases s with
  | var a => cases t <;> simp only [shape] at h <;> (try split at h) <;> cases h
  | targ x => simp [Tm.wf] at hs
  | carg x => simp [Tm.wf] at hs
  | atom a =>
    cases t with
    | var b => simp only [shape] at h; cases h
    | atom b =>
      simp only [shape] at h
      split at h
      · cases h
      · rename_i hne
        unfold Unifies FlagEq at hu
        simp only [inst, erase, Tm.atom.injEq] at hu
        subst hu
        exact hne (atomEq_refl a)
    | node h₂ bs => unfold Unifies FlagEq at hu; simp [inst, erase] at hu
    | targ y => simp [Tm.wf] at ht
    | carg y => simp [Tm.wf] at ht
  | node h₁ as =>
    cases t with
    | var b => simp only [shape] at h; cases h
    | atom b => unfold Unifies FlagEq at hu; simp [inst, erase] at hu
    | targ y => simp [Tm.wf] at ht
    | carg y => simp [Tm.wf] at ht
    | node h₂ bs =>
      simp only [shape] at h
      obtain ⟨hh, hl⟩ := unifies_node hu
      cases h₁ <;> cases h₂ <;> simp only [eraseH] at hh <;> (try (cases hh; done)) <;> simp only [] at h
      · rename_i fl₁ p₁ fl₂ p₂
        simp only [Head.func.injEq] at hh
        obtain ⟨hr, hp⟩ := hh
        have hfl : fl₁.length = fl₂.length := by simpa using congrArg List.length hr
        simp [hp, hfl, flagsClash_noLinear hE] at h
      · cases h
      · simp only [Head.opaque.injEq] at hh; simp [hh] at h
      · simp only [Head.struct.injEq] at hh; simp [hh] at h

/-! ### completeness -/

def ComplFn (θ : V → Tm) (u : Tm → Tm → Subst → Res) : Prop :=
  ∀ x y σ, x.wf = true → y.wf = true → WfSubst σ → Solves θ σ → Unifies θ x y →
    u x y σ ≠ .fail ∧ ∀ σ', u x y σ = .ok σ' → Solves θ σ' ∧ WfSubst σ'

theorem loop_compl {θ : V → Tm} {u : Tm → Tm → Subst → Res} (hu : ComplFn θ u) :
    ∀ (as bs : List Tm) (σ : Subst), wfArgs as = true → wfArgs bs = true → WfSubst σ → Solves θ σ →
      as.map (fun a => erase (inst θ a)) = bs.map (fun a => erase (inst θ a)) →
      unifyArgsLoop u as bs σ ≠ .fail ∧ ∀ σ', unifyArgsLoop u as bs σ = .ok σ' → Solves θ σ' ∧ WfSubst σ' := by
  intro as
  induction as with
  | nil =>
    intro bs σ _ _ hw hθ he
    cases bs with
    | nil => simp only [unifyArgsLoop]; exact ⟨by simp, fun σ' h => by cases h; exact ⟨hθ, hw⟩⟩
    | cons b bs => simp at he
  | cons a as ih =>
    intro bs σ hwa hwb hw hθ he
    cases bs with
    | nil => simp at he
    | cons b bs =>
      simp only [List.map_cons, List.cons.injEq] at he
      obtain ⟨he1, he2⟩ := he
      have key : ∀ x y, x.wf = true → y.wf = true → wfArgs as = true → wfArgs bs = true → Unifies θ x y →
          (unifyArgsLoop u (a :: as) (b :: bs) σ =
            match u x y σ with
            | .ok σ' => unifyArgsLoop u as bs σ'
            | r => r) →
          unifyArgsLoop u (a :: as) (b :: bs) σ ≠ .fail ∧
            ∀ σ', unifyArgsLoop u (a :: as) (b :: bs) σ = .ok σ' → Solves θ σ' ∧ WfSubst σ' := by
        intro x y hx hy hwa' hwb' hxy heq
        obtain ⟨h1, h2⟩ := hu x y σ hx hy hw hθ hxy
        rw [heq]
        cases hres : u x y σ with
        | oof => simp
        | fail => exact absurd hres h1
        | ok σ₁ =>
          obtain ⟨hθ₁, hw₁⟩ := h2 σ₁ hres
          exact ih bs σ₁ hwa' hwb' hw₁ hθ₁ he2
      cases a <;> cases b <;> simp only [wfArgs, Bool.and_eq_true] at hwa hwb <;>
        (try (exact Bool.noConfusion hwa)) <;> (try (exact Bool.noConfusion hwb)) <;>
        simp only [inst, erase] at he1 <;> (try (cases he1; done))
      · rename_i x y
        exact key x y hwa.1 hwb.1 hwa.2 hwb.2 (by simpa [Unifies, FlagEq] using he1) (by simp only [unifyArgsLoop]; rfl)
      · rename_i x y
        exact key x y hwa.1 hwb.1 hwa.2 hwb.2 (by simpa [Unifies, FlagEq] using he1) (by simp only [unifyArgsLoop]; rfl)

theorem var_compl {θ : V → Tm} {u : Tm → Tm → Subst → Res} (hu : ComplFn θ u) (n : Nat)
    {v : V} {t : Tm} {σ : Subst} (hne : t ≠ .var v) (ht : t.wf = true) (hw : WfSubst σ) (hθ : Solves θ σ)
    (hvt : Unifies θ (.var v) t) :
    unifyVarWith u (occurs n) v t σ ≠ .fail ∧
      ∀ σ', unifyVarWith u (occurs n) v t σ = .ok σ' → Solves θ σ' ∧ WfSubst σ' := by
  have hvt' : erase (θ v) = erase (inst θ t) := by simpa [Unifies, FlagEq, inst] using hvt
  have bindOk : lookup σ v = none → Solves θ ((v, t) :: σ) ∧ WfSubst ((v, t) :: σ) := by
    intro _
    constructor
    · intro x w hx
      rw [lookup_cons] at hx
      by_cases e : v = x
      · simp only [e, if_true, Option.some.injEq] at hx; subst hx; subst e; exact hvt'
      · simp only [e, if_false] at hx; exact hθ x w hx
    · intro x w hx
      rw [lookup_cons] at hx
      by_cases e : v = x
      · simp only [e, if_true, Option.some.injEq] at hx; subst hx; exact ht
      · simp only [e, if_false] at hx; exact hw x w hx
  have bindCase : lookup σ v = none → (∀ w, t = .var w → lookup σ w = none) →
      (match occurs n σ v t with
        | none => Res.oof
        | some true => Res.fail
        | some false => Res.ok ((v, t) :: σ)) ≠ .fail ∧
      ∀ σ', (match occurs n σ v t with
        | none => Res.oof
        | some true => Res.fail
        | some false => Res.ok ((v, t) :: σ)) = .ok σ' → Solves θ σ' ∧ WfSubst σ' := by
    intro hl hvar
    cases ho : occurs n σ v t with
    | none => simp
    | some b =>
      cases b with
      | false => simp only []; exact ⟨by simp, fun σ' h => by cases h; exact bindOk hl⟩
      | true =>
        exfalso
        obtain ⟨y, hy, hle⟩ := occurs_true hθ n t ho
        by_cases hv : ∀ w, t ≠ .var w
        · have := (esize_inst_var (θ := θ) t hy).2 hv
          rw [hvt'] at hle
          omega
        · have : ∃ w, t = .var w := by
            cases t with
            | var w => exact ⟨w, rfl⟩
            | _ => exact absurd (fun w => by simp) hv
          obtain ⟨w, rfl⟩ := this
          have hwn := hvar w rfl
          cases n with
          | zero => simp [occurs] at ho
          | succ n =>
            have hwv : w ≠ v := fun e => hne (by rw [e])
            simp [occurs, Tm.vars, firstM, hwv, hwn] at ho
  unfold unifyVarWith
  cases hl : lookup σ v with
  | some sv =>
    simp only []
    apply hu sv t σ (hw v sv hl) ht hw hθ
    unfold Unifies FlagEq
    rw [← hθ v sv hl]; exact hvt'
  | none =>
    simp only []
    cases t with
    | var w =>
      simp only
      cases hwl : lookup σ w with
      | some tw =>
        simp only []
        apply hu (.var v) tw σ (by simp [Tm.wf]) (hw w tw hwl) hw hθ
        unfold Unifies FlagEq
        rw [← hθ w tw hwl]; simpa [inst] using hvt'
      | none => simp only []; exact bindCase hl (fun w' e => by cases e; exact hwl)
    | atom a => exact bindCase hl (fun w e => by cases e)
    | node hd as => exact bindCase hl (fun w e => by cases e)
    | targ x => exact bindCase hl (fun w e => by cases e)
    | carg x => exact bindCase hl (fun w e => by cases e)

theorem unify_compl (E : Env) (hE : NoLinear E) (θ : V → Tm) : ∀ n, ComplFn θ (unify E n) := by
  intro n
  induction n with
  | zero => intro x y σ _ _ _ _ _; simp [unify]
  | succ n ih =>
    intro s t σ hs ht hw hθ hst
    rw [unify_succ]
    cases hsh : shape E s t with
    | same => simp only [runShape]; exact ⟨by simp, fun σ' h => by cases h; exact ⟨hθ, hw⟩⟩
    | fail => exact absurd hst (shape_fail hE hsh hs ht θ)
    | viaVar v t' =>
      simp only [runShape]
      obtain ⟨hne, hc⟩ := shape_viaVar hsh
      have h' : t'.wf = true ∧ Unifies θ (.var v) t' := by
        cases hc with
        | inl e => obtain ⟨rfl, rfl⟩ := e; exact ⟨ht, hst⟩
        | inr e => obtain ⟨rfl, rfl⟩ := e; exact ⟨hs, hst.symm⟩
      exact var_compl ih n hne h'.1 hw hθ h'.2
    | viaArgs as bs =>
      simp only [runShape]
      obtain ⟨h₁, h₂, rfl, rfl, _⟩ := shape_viaArgs hsh
      obtain ⟨_, hl⟩ := unifies_node hst
      have hlen : as.length = bs.length := by simpa using congrArg List.length hl
      unfold unifyArgsWith
      simp only [hlen, ne_eq, not_true_eq_false, if_false]
      exact loop_compl ih as bs σ (by simpa [Tm.wf] using hs) (by simpa [Tm.wf] using ht) hw hθ hl

/-- a solution of `σ` is unchanged (up to flags) by pre-composing passes of `σ` -/
theorem solves_apply {θ : V → Tm} {σ : Subst} (hθ : Solves θ σ) (x : Tm) :
    FlagEq (inst θ (apply σ x)) (inst θ x) := by
  unfold FlagEq apply
  rw [inst_inst]
  apply erase_inst_congr
  intro y _
  unfold asFun
  cases hl : lookup σ y with
  | none => simp [inst]
  | some u => simp only []; exact (hθ y u hl).symm

theorem solves_applyN {θ : V → Tm} {σ : Subst} (hθ : Solves θ σ) : ∀ (n : Nat) (x : Tm),
    FlagEq (inst θ (applyN σ n x)) (inst θ x) := by
  intro n
  induction n with
  | zero => intro x; rfl
  | succ n ih =>
    intro x
    simp only [applyN]
    exact (ih (apply σ x)).trans (solves_apply hθ x)

theorem copyableArgs_default : ∀ as : List Tm, (∀ a ∈ as, copyable {} a = true) → copyableArgs {} as = true := by
  intro as
  induction as with
  | nil => intro _; rfl
  | cons a as ih => intro h; simp only [copyableArgs, h a (by simp), ih (fun b hb => h b (by simp [hb])), Bool.and_self]

/-- with the default environment (everything copyable and droppable) nothing is linear -/
theorem noLinear_default : NoLinear {} := by
  have hc : ∀ t : Tm, copyable {} t = true := by
    intro t
    induction t using Tm.induct with
    | var v => simp [copyable]
    | atom a => cases a <;> simp [copyable]
    | node h as ih => cases h <;> simp [copyable, copyableArgs_default as ih]
    | targ t ih => simpa [copyable] using ih
    | carg t _ => simp [copyable]
  intro t
  simp [linear, hc t]

end GuppyVerif.Unify
