import GuppyVerif.Lemmas.C12Call
import GuppyVerif.Lemmas.C12Compl
/-! Lemmas for C12, part 12: generic function value against a *closed* expected type — accepted exactly when
    an instantiation of the parameters fits. -/
namespace GuppyVerif.Unify

theorem wfArgs_iff : ∀ as : List Tm, wfArgs as = true ↔
    ∀ a ∈ as, ∃ x, (a = .targ x ∨ a = .carg x) ∧ x.wf = true := by
  intro as
  induction as with
  | nil => simp [wfArgs]
  | cons a as ih =>
    cases a with
    | targ x =>
      simp only [wfArgs, Bool.and_eq_true, ih, List.mem_cons, forall_eq_or_imp]
      constructor
      · rintro ⟨h1, h2⟩; exact ⟨⟨x, Or.inl rfl, h1⟩, h2⟩
      · rintro ⟨⟨y, hy, hw⟩, h2⟩
        cases hy with
        | inl e => cases e; exact ⟨hw, h2⟩
        | inr e => cases e
    | carg x =>
      simp only [wfArgs, Bool.and_eq_true, ih, List.mem_cons, forall_eq_or_imp]
      constructor
      · rintro ⟨h1, h2⟩; exact ⟨⟨x, Or.inr rfl, h1⟩, h2⟩
      · rintro ⟨⟨y, hy, hw⟩, h2⟩
        cases hy with
        | inl e => cases e
        | inr e => cases e; exact ⟨hw, h2⟩
    | var v =>
      simp only [wfArgs, List.mem_cons, forall_eq_or_imp]
      constructor
      · intro h; cases h
      · rintro ⟨⟨y, hy, _⟩, _⟩; cases hy with | inl e => cases e | inr e => cases e
    | atom b =>
      simp only [wfArgs, List.mem_cons, forall_eq_or_imp]
      constructor
      · intro h; cases h
      · rintro ⟨⟨y, hy, _⟩, _⟩; cases hy with | inl e => cases e | inr e => cases e
    | node h bs =>
      simp only [wfArgs, List.mem_cons, forall_eq_or_imp]
      constructor
      · intro h; cases h
      · rintro ⟨⟨y, hy, _⟩, _⟩; cases hy with | inl e => cases e | inr e => cases e

theorem wf_instB_aux (ρ : List Tm) (hρ : ∀ r ∈ ρ, r.wf = true) : ∀ t : Tm,
    (t.wf = true → (instB ρ t).wf = true) ∧
    (∀ x, (t = .targ x ∨ t = .carg x) → x.wf = true → (instB ρ x).wf = true) := by
  intro t
  induction t using Tm.induct with
  | var v => exact ⟨fun _ => rfl, fun x h => by cases h with | inl e => cases e | inr e => cases e⟩
  | atom a =>
    refine ⟨fun _ => ?_, fun x h => by cases h with | inl e => cases e | inr e => cases e⟩
    cases a with
    | bvar i => simp only [instB]; split <;> first | exact hρ _ (List.getElem_mem _) | rfl
    | cbvar i => simp only [instB]; split <;> first | exact hρ _ (List.getElem_mem _) | rfl
    | num k => rfl
    | none => rfl
    | cval a b => rfl
  | node h as ih =>
    refine ⟨fun hw => ?_, fun x h => by cases h with | inl e => cases e | inr e => cases e⟩
    simp only [Tm.wf] at hw
    simp only [instB, Tm.wf, instBList_eq]
    rw [wfArgs_iff] at hw ⊢
    intro b hb
    obtain ⟨a, ha, rfl⟩ := List.mem_map.mp hb
    obtain ⟨x, hx, hxw⟩ := hw a ha
    have hx' := (ih a ha).2 x hx hxw
    cases hx with
    | inl e => subst e; exact ⟨instB ρ x, Or.inl (by simp [instB]), hx'⟩
    | inr e => subst e; exact ⟨instB ρ x, Or.inr (by simp [instB]), hx'⟩
  | targ t ih =>
    refine ⟨fun h => by simp [Tm.wf] at h, fun x h hw => ?_⟩
    cases h with
    | inl e => cases e; exact ih.1 hw
    | inr e => cases e
  | carg t ih =>
    refine ⟨fun h => by simp [Tm.wf] at h, fun x h hw => ?_⟩
    cases h with
    | inl e => cases e
    | inr e => cases e; exact ih.1 hw

theorem wfArgs_instB (ρ : List Tm) (hρ : ∀ r ∈ ρ, r.wf = true) (as : List Tm) (h : wfArgs as = true) :
    wfArgs (instBList ρ as) = true := by
  have := (wf_instB_aux ρ hρ (.node .tuple as)).1 (by simpa [Tm.wf] using h)
  simpa [instB, Tm.wf] using this

/-- `z` occurs in the instance of `t` whenever it occurs in the image of a variable of `t` -/
theorem mem_vars_inst' {θ : V → Tm} {z y : V} : ∀ t : Tm, y ∈ t.vars → z ∈ (θ y).vars → z ∈ (inst θ t).vars := by
  intro t
  induction t using Tm.induct with
  | var v => intro h hz; simp [Tm.vars] at h; subst h; simpa [inst] using hz
  | atom a => intro h; simp [Tm.vars] at h
  | node h as ih =>
    intro hy hz
    simp only [Tm.vars] at hy
    obtain ⟨a, ha, hya⟩ := mem_varsList.mp hy
    simp only [inst, Tm.vars, instList_eq]
    exact mem_varsList.mpr ⟨inst θ a, List.mem_map.mpr ⟨a, ha, rfl⟩, ih a ha hya hz⟩
  | targ t ih => intro hy hz; simpa [inst, Tm.vars] using ih (by simpa [Tm.vars] using hy) hz
  | carg t ih => intro hy hz; simpa [inst, Tm.vars] using ih (by simpa [Tm.vars] using hy) hz

/-- the assignment `fresh[i] ↦ ρ[i]` -/
theorem map_asFun_zip : ∀ (fresh : List V) (ρ : List Tm), fresh.Nodup → ρ.length = fresh.length →
    fresh.map (asFun (fresh.zip ρ)) = ρ := by
  intro fresh
  induction fresh with
  | nil => intro ρ _ h; cases ρ with | nil => rfl | cons _ _ => simp at h
  | cons f fresh ih =>
    intro ρ hnd hl
    cases ρ with
    | nil => simp at hl
    | cons r ρ =>
      simp only [List.length_cons, Nat.add_right_cancel_iff] at hl
      have hnd' := List.nodup_cons.mp hnd
      simp only [List.zip_cons_cons, List.map_cons, List.cons.injEq]
      constructor
      · simp [asFun, lookup_cons]
      · rw [← ih ρ hnd'.2 hl]
        apply List.map_congr_left
        intro g hg
        have : f ≠ g := fun e => hnd'.1 (e ▸ hg)
        simp only [asFun, lookup_cons, this, if_false]
        rw [ih ρ hnd'.2 hl]

theorem firstBad_none_of {σ : Subst} : ∀ (fresh : List V) (i : Nat),
    (∀ f ∈ fresh, ∃ u, lookup σ f = some u ∧ u.vars = []) → firstBad σ i fresh = none := by
  intro fresh
  induction fresh with
  | nil => intro _ _; rfl
  | cons g fresh ih =>
    intro i h
    obtain ⟨u, hl, hv⟩ := h g (by simp)
    simp only [firstBad, hl, hv, List.isEmpty_nil, if_true]
    exact ih (i + 1) (fun f hf => h f (by simp [hf]))

/-- completeness of `check_type_against` against a closed expected type (flag rule vacuous) -/
theorem checkAgainst_complete_closed (E : Env) (hE : NoLinear E) (p0 : Nat) (exp : Tm) (fresh : List V)
    (fl : List Nat) (p : Nat) (args : List Tm)
    (hexp : exp.vars = []) (hexpwf : exp.wf = true) (hact : ∀ a ∈ args, a.vars = []) (hactwf : wfArgs args = true)
    (hfresh : fresh.Nodup)
    (hocc : ∀ f ∈ fresh, f ∈ (Tm.node (.func fl p0) (instBList (fresh.map .var) args)).vars)
    (ρ : List Tm) (hρl : ρ.length = fresh.length)
    (hfit : FlagEq exp (.node (.func fl p0) (instBList ρ args))) :
    ∃ n ins, ∀ m, n ≤ m → checkAgainst E m p0 exp fresh (.node (.func fl p) args) = .ok ins [] := by
  let unq : Tm := .node (.func fl p0) (instBList (fresh.map .var) args)
  let θ : V → Tm := asFun (fresh.zip ρ)
  have hθexp : inst θ exp = exp := inst_id_of exp θ (fun y hy => by rw [hexp] at hy; cases hy)
  have hθunq : inst θ unq = .node (.func fl p0) (instBList ρ args) := by
    show inst θ (.node (.func fl p0) (instBList (fresh.map .var) args)) = _
    simp only [inst, instList_eq, instBList_eq, List.map_map]
    congr 1
    apply List.map_congr_left
    intro a ha
    show inst θ (instB (fresh.map .var) a) = instB ρ a
    rw [inst_instB θ fresh a (hact a ha), map_asFun_zip fresh ρ hfresh hρl]
  have hunif : Unifies θ exp unq := by
    unfold Unifies; rw [hθexp, hθunq]; exact hfit
  have hunqwf : unq.wf = true := by
    show (Tm.node (.func fl p0) (instBList (fresh.map .var) args)).wf = true
    simp only [Tm.wf]
    exact wfArgs_instB _ (fun r hr => by obtain ⟨v, _, rfl⟩ := List.mem_map.mp hr; rfl) args hactwf
  obtain ⟨n, hn, hst⟩ := unify_terminates_aux E exp unq [] acyclic_nil
  have hc := (unify_compl E hE θ n exp unq [] hexpwf hunqwf (fun _ _ h => by simp [lookup] at h)
    (fun _ _ h => by simp [lookup] at h) hunif).1
  cases hres : unify E n exp unq [] with
  | oof => exact absurd hres hn
  | fail => exact absurd hres hc
  | ok σ =>
    have g := unify_good E n exp unq [] σ hres
    have ha : Acyclic σ := g.acyc acyclic_nil
    have hsol : Solves (passes σ (σ.length + 1)) σ := fun v u hv => by
      unfold FlagEq; rw [passes_len_solves ha (σ.length + 1) (by omega) v u hv]
    have hfe := g.eq _ hsol
    have hexp' : inst (passes σ (σ.length + 1)) exp = exp :=
      inst_id_of exp _ (fun y hy => by rw [hexp] at hy; cases hy)
    have hclosed : (inst (passes σ (σ.length + 1)) unq).vars = [] := by
      unfold FlagEq at hfe
      rw [hexp'] at hfe
      rw [← vars_erase, ← hfe, vars_erase, hexp]
    have hall : ∀ f ∈ fresh, ∃ u, lookup (resolve σ) f = some u ∧ u.vars = [] := by
      intro f hf
      have hfv : (passes σ (σ.length + 1) f).vars = [] := by
        cases hv : (passes σ (σ.length + 1) f).vars with
        | nil => rfl
        | cons z zs =>
          have := mem_vars_inst' (θ := passes σ (σ.length + 1)) (z := z) unq (hocc f hf) (by rw [hv]; simp)
          rw [hclosed] at this; cases this
      rw [passes_eq_resolve] at hfv
      unfold asFun at hfv
      cases hl : lookup (resolve σ) f with
      | none => rw [hl] at hfv; simp [Tm.vars] at hfv
      | some u => rw [hl] at hfv; exact ⟨u, rfl, hfv⟩
    refine ⟨n, fresh.map (fun f => match lookup (resolve σ) f with | some u => u | none => .var f), ?_⟩
    intro m hm
    simp only [checkAgainst]
    have hm' : unify E m exp (.node (.func fl p0) (instBList (fresh.map .var) args)) [] = .ok σ := by
      rw [hst m hm]; exact hres
    rw [hm']
    simp only [firstBad_none_of fresh 0 hall, CallRes.ok.injEq]
    refine ⟨?_, ?_⟩
    · apply List.map_congr_left; intro a _; rfl
    · rw [hexp]; simp

end GuppyVerif.Unify
