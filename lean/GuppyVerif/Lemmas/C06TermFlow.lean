import GuppyVerif.Lemmas.C06Term
import GuppyVerif.Model.Linearity
/-! C06 helper lemmas, part 7: the fuel `liveFuel` of the model's liveness run always suffices. -/
namespace GuppyVerif.Linearity

open GuppyVerif.Dataflow (liveRun liveInit)

/-! ### the model's fuel suffices -/

theorem length_flatMap_eq {α β : Type} (f : α → List β) : ∀ l : List α,
    (l.flatMap f).length = (l.map fun a => (f a).length).sum := by
  intro l
  induction l with
  | nil => simp
  | cons a l ih => simp [List.flatMap_cons, ih]

/-- the liveness worklist inside `checkCfg` never runs out of fuel, whatever the scheduler -/
theorem liveRun_flow_isSome (P : Prog) (sc : Blk → Scope) (init : List Leaf) (sched : List Blk → Blk) :
    (liveRun (flowCfg P sc) sched (liveFuel (flowCfg P sc) init) (liveInit (flowCfg P sc) init)).isSome = true := by
  let g := flowCfg P sc
  let U := init ++ g.blocks.flatMap g.used
  have hU : ∀ b ∈ g.blocks, ∀ x ∈ g.used b, x ∈ U := fun b hb x hx =>
    List.mem_append_right _ (List.mem_flatMap.mpr ⟨b, hb, hx⟩)
  have hp : ∀ b ∈ g.blocks, ∀ c ∈ g.pred b ++ g.dpred b, c ∈ g.blocks := by
    intro b _ c hc
    have : c ∈ P.blocks.filter (fun p => (P.succ p).contains b) ++ [] := hc
    rw [List.append_nil] at this
    exact (List.mem_filter.mp this).1
  have hK : ∀ b ∈ g.blocks, (g.pred b ++ g.dpred b).length ≤ g.blocks.length := by
    intro b _
    show (P.blocks.filter (fun p => (P.succ p).contains b) ++ []).length ≤ P.blocks.length
    rw [List.append_nil]
    exact List.length_filter_le _ _
  apply liveRun_isSome (U := U) (K := g.blocks.length) hU hp hK sched
  · exact tinv_init g init U fun x hx => List.mem_append_left _ hx
  · intro b hb; exact hb
  · have hmu := mu_le g init U (fun _ => init)
    have hlen : U.length = init.length + (g.blocks.map fun b => (g.used b).length).sum := by
      show (init ++ g.blocks.flatMap g.used).length = _
      rw [List.length_append, length_flatMap_eq]
    unfold phi liveFuel liveInit
    simp only
    generalize hB : g.blocks.length = B at *
    generalize hS : (g.blocks.map fun b => (g.used b).length).sum = S at *
    generalize hu : U.length = u at *
    generalize hm : mu g init U (fun _ => init) = m at *
    have h1 : m ≤ (B + 1) * (u + 1) := Nat.le_trans hmu (Nat.mul_le_mul (Nat.le_succ B) (Nat.le_succ u))
    have h2 : m * (B + 1) ≤ (B + 1) * (u + 1) * (B + 1) := Nat.mul_le_mul_right _ h1
    have h3 : (B + 1) * (u + 1) * (B + 1) = (B + 1) * (B + 1) * (u + 1) := Nat.mul_right_comm _ _ _
    have h4 : u + 1 = S + init.length + 1 := by omega
    rw [h3, h4] at h2
    omega

end GuppyVerif.Linearity
