import GuppyVerif.Lemmas.C06Flow
/-! C06 helper lemmas, part 7: the fuel `liveFuel` of the model's liveness run always suffices —
    an instance of the C09 theorem `liveRun_terminates` (the model cannot import `liveBound`,
    which lives with the C09 theorems, so it carries its own, larger, bound). -/
namespace GuppyVerif.Linearity

open GuppyVerif.Dataflow (liveRun liveInit liveRun_terminates liveBound livePairs liveUniv)

theorem length_pairs {α β : Type} (u : List β) : ∀ l : List α,
    (l.flatMap fun b => u.map fun x => (b, x)).length = l.length * u.length := by
  intro l
  induction l with
  | nil => simp
  | cons a l ih => simp [List.flatMap_cons, ih, Nat.add_mul, Nat.add_comm]

theorem length_flatMap_eq {α β : Type} (f : α → List β) : ∀ l : List α,
    (l.flatMap f).length = (l.map fun a => (f a).length).sum := by
  intro l
  induction l with
  | nil => simp
  | cons a l ih => simp [List.flatMap_cons, ih]

theorem liveBound_le_liveFuel (g : Dataflow.Cfg) (init : List Leaf) : liveBound g init ≤ liveFuel g init := by
  unfold liveBound liveFuel livePairs
  rw [length_pairs]
  have hlen : (liveUniv g init).length = init.length + (g.blocks.map fun b => (g.used b).length).sum := by
    unfold liveUniv
    rw [List.length_append, length_flatMap_eq]
  simp only
  generalize g.blocks.length = B at *
  generalize (g.blocks.map fun b => (g.used b).length).sum = S at *
  generalize (liveUniv g init).length = u at *
  subst hlen
  have h1 : B * (init.length + S) + 1 ≤ (B + 1) * (S + init.length + 1) := by
    rw [Nat.add_mul, Nat.mul_add, Nat.mul_add, Nat.mul_add]
    have : B * (init.length + S) = B * S + B * init.length := by rw [Nat.mul_add, Nat.add_comm]
    omega
  calc (B * (init.length + S) + 1) * (B + 1)
      ≤ (B + 1) * (S + init.length + 1) * (B + 1) := Nat.mul_le_mul_right _ h1
    _ = (B + 1) * (B + 1) * (S + init.length + 1) := Nat.mul_right_comm _ _ _
    _ ≤ _ := Nat.le_add_right _ _

/-- the liveness worklist inside `checkCfg` never runs out of fuel, whatever the scheduler -/
theorem liveRun_flow_isSome (P : Prog) (hc : ∀ b ∈ P.blocks, ∀ c ∈ P.succ b, c ∈ P.blocks)
    (sc : Blk → Scope) (init : List Leaf) (sched : List Blk → Blk) :
    (liveRun (flowCfg P sc) sched (liveFuel (flowCfg P sc) init) (liveInit (flowCfg P sc) init)).isSome = true :=
  liveRun_terminates (flowCfg P sc) (flowCfg_wf P hc sc) init sched _ (liveBound_le_liveFuel _ _)

end GuppyVerif.Linearity
