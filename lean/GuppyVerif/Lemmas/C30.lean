import GuppyVerif.Spec.C30
/-! Helper lemmas for C30. -/
namespace GuppyVerif.Span

theorem le_iff_of_file {a b : Loc} (h : a.file = b.file) :
    Loc.le a b = true ↔ PosLe a.line a.col b.line b.col := by
  unfold Loc.le PosLe
  simp only [h, ne_eq, not_true_eq_false, ↓reduceIte]
  by_cases hl : a.line = b.line
  · simp [hl]
  · simp only [hl, not_false_eq_true, ↓reduceIte, decide_eq_true_eq, false_and, or_false]

theorem lt_iff_of_file {a b : Loc} (h : a.file = b.file) :
    Loc.lt a b = true ↔ ¬ PosLe b.line b.col a.line a.col := by
  unfold Loc.lt PosLe
  simp only [h, ne_eq, not_true_eq_false, ↓reduceIte]
  by_cases hl : a.line = b.line
  · simp [hl]
  · simp only [hl, not_false_eq_true, ↓reduceIte, decide_eq_true_eq]; omega

/-- `Span.__post_init__` accepts exactly the well-formed spans. -/
theorem mk?_iff (s e : Loc) :
    (∃ sp, Span.mk? s e = some sp) ↔ Span.WF ⟨s, e⟩ := by
  unfold Span.mk? Span.WF
  by_cases hf : s.file = e.file
  · have := lt_iff_of_file (a := e) (b := s) hf.symm
    by_cases hlt : Loc.lt e s = true
    · simp [hf, hlt]; exact this.mp hlt
    · simp only [hf, ne_eq, not_true_eq_false, ↓reduceIte, hlt, Bool.false_eq_true,
        Option.some.injEq, exists_eq', true_and, true_iff]
      exact Classical.not_not.mp (fun h => hlt (this.mpr h))
  · simp [hf]

theorem PosLe.trans {a b c d e f : Nat} (h₁ : PosLe a b c d) (h₂ : PosLe c d e f) :
    PosLe a b e f := by unfold PosLe at *; omega

theorem PosLe.refl (a b : Nat) : PosLe a b a b := by unfold PosLe; omega

theorem max_cases (a b : Loc) (h : a.file = b.file) :
    (Loc.max a b = a ∧ PosLe b.line b.col a.line a.col) ∨
    (Loc.max a b = b ∧ PosLe a.line a.col b.line b.col) := by
  unfold Loc.max
  have := lt_iff_of_file (a := a) (b := b) h
  by_cases hlt : Loc.lt a b = true
  · right; simp only [hlt, ↓reduceIte, true_and]
    have := this.mp hlt; unfold PosLe at *; omega
  · left; simp only [hlt, Bool.false_eq_true, ↓reduceIte, true_and]
    exact Classical.not_not.mp (fun h => hlt (this.mpr h))

theorem min_cases (a b : Loc) (h : a.file = b.file) :
    (Loc.min a b = a ∧ PosLe a.line a.col b.line b.col) ∨
    (Loc.min a b = b ∧ PosLe b.line b.col a.line a.col) := by
  unfold Loc.min
  have := lt_iff_of_file (a := b) (b := a) h.symm
  by_cases hlt : Loc.lt b a = true
  · right; simp only [hlt, ↓reduceIte, true_and]
    have := this.mp hlt; unfold PosLe at *; omega
  · left; simp only [hlt, Bool.false_eq_true, ↓reduceIte, true_and]
    exact Classical.not_not.mp (fun h => hlt (this.mpr h))

end GuppyVerif.Span
