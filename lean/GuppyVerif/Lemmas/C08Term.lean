import GuppyVerif.Lemmas.C08Complete
import GuppyVerif.Props.C09
/-! Termination of the model of `check_cfg`: the BFS pops every queued edge once and compiles every
    block at most once, so an explicit amount of fuel always suffices. -/
namespace GuppyVerif.UseDef
open GuppyVerif.Dataflow

/-- total number of outgoing (real and dummy) edges of the listed blocks that are not compiled yet -/
def pendingW (U : UCfg) (comp : Compiled) : List Blk → Nat
  | [] => 0
  | c :: cs => (if (findC c comp).isNone then (U.succ c ++ U.dsucc c).length else 0) + pendingW U comp cs

theorem pendingW_cons_le (U : UCfg) (b : Blk) (r : Row × List Row) (comp : Compiled) :
    ∀ l, pendingW U ((b, r) :: comp) l ≤ pendingW U comp l := by
  intro l
  induction l with
  | nil => simp [pendingW]
  | cons c cs ih =>
    simp only [pendingW, findC_cons]
    by_cases hcb : c = b
    · simp only [hcb, ↓reduceIte, Option.isNone_some, Bool.false_eq_true]
      omega
    · simp only [hcb, ↓reduceIte]
      omega

theorem pendingW_cons_lt (U : UCfg) (b : Blk) (r : Row × List Row) (comp : Compiled)
    (hn : findC b comp = none) :
    ∀ l, b ∈ l → pendingW U ((b, r) :: comp) l + (U.succ b ++ U.dsucc b).length ≤ pendingW U comp l := by
  intro l
  induction l with
  | nil => intro h; cases h
  | cons c cs ih =>
    intro hm
    simp only [pendingW, findC_cons]
    by_cases hcb : c = b
    · subst hcb
      simp only [↓reduceIte, Option.isNone_some, Bool.false_eq_true, hn, Option.isNone_none]
      have := pendingW_cons_le U c r comp cs
      omega
    · have hm' : b ∈ cs := by
        rcases List.mem_cons.mp hm with h | h
        · exact absurd h.symm hcb
        · exact h
      have := ih hm'
      simp only [hcb, ↓reduceIte]
      omega

theorem length_enumFrom (p : Blk) (k : Nat) (ss : List Blk) : (enumFrom p k ss).length = ss.length := by
  induction ss generalizing k with
  | nil => rfl
  | cons a ss ih => simp [enumFrom, ih]

theorem length_revEnum (p : Blk) (ss : List Blk) : (revEnum p ss).length = ss.length := by
  simp [revEnum, length_enumFrom]

theorem mem_revEnum_succ {p q : Blk} {i : Nat} {s : Blk} {ss : List Blk}
    (h : (q, i, s) ∈ revEnum p ss) : s ∈ ss :=
  List.mem_of_getElem? (mem_revEnum h).2

/-- with at least `|queue| + pending edges` fuel the BFS returns (a verdict, not "out of fuel") -/
theorem bfs_isSome (U : UCfg) (A : Ana)
    (hcl : ∀ b ∈ U.blocks, ∀ s ∈ U.succ b ++ U.dsucc b, s ∈ U.blocks) :
    ∀ (fuel : Nat) (q : List (Blk × Nat × Blk)) (comp : Compiled),
      (∀ e ∈ q, e.2.2 ∈ U.blocks) → q.length + pendingW U comp U.blocks ≤ fuel →
      (bfs U A fuel q comp).isSome = true := by
  intro fuel
  induction fuel with
  | zero =>
    intro q comp _ hle
    cases q with
    | nil => simp [bfs]
    | cons a q => simp at hle
  | succ n ih =>
    intro q comp hq hle
    cases q with
    | nil => simp [bfs]
    | cons a q =>
      obtain ⟨p, i, b⟩ := a
      simp only [bfs]
      have hb : b ∈ U.blocks := hq (p, i, b) List.mem_cons_self
      have hq' : ∀ e ∈ q, e.2.2 ∈ U.blocks := fun e he => hq e (List.mem_cons_of_mem _ he)
      simp only [List.length_cons] at hle
      split
      · rfl
      · split
        · split
          · exact ih q comp hq' (by omega)
          · rfl
        · rename_i hfb
          split
          · rfl
          · rename_i inputRow _ _ _ outs _
            apply ih
            · intro e he
              rw [List.mem_append] at he
              rcases he with he | he
              · exact hq' e he
              · obtain ⟨q1, i1, s1⟩ := e
                exact hcl b hb s1 (mem_revEnum_succ he)
            · have := pendingW_cons_lt U b (inputRow, outs) comp hfb U.blocks hb
              simp only [List.length_append, length_revEnum] at this ⊢
              omega

/-- fuel that always suffices for `check_cfg`'s BFS -/
def bfsBound (U : UCfg) : Nat :=
  (U.succ U.entry ++ U.dsucc U.entry).length + pendingW U [] U.blocks

theorem checkCfg_isSome (U : UCfg) (hU : U.WF) (A : Ana) (fuel : Nat) (hf : bfsBound U ≤ fuel) :
    (checkCfg U A fuel).isSome = true := by
  unfold checkCfg
  split
  · rfl
  · rename_i outs _
    apply bfs_isSome U A
    · intro b hb s hs
      exact hU.cfg.closed b hb s hs
    · intro e he
      obtain ⟨q1, i1, s1⟩ := e
      exact hU.cfg.closed _ hU.entry_mem s1 (mem_revEnum_succ he)
    · have := pendingW_cons_le U U.entry (U.args, outs) [] U.blocks
      simp only [length_revEnum]
      unfold bfsBound at hf
      omega

/-- fuel that always suffices for analyses + check -/
def checkBound (U : UCfg) : Nat :=
  max (bfsBound U) (max (liveBound U.cfg []) (assBound U.cfg ⟨U.argNames, U.argNames⟩))

theorem check_isSome (U : UCfg) (hU : U.WF) (fuel : Nat) (hf : checkBound U ≤ fuel) :
    (check U fuel).isSome = true := by
  unfold checkBound at hf
  have h1 : bfsBound U ≤ fuel := by omega
  have h2 : liveBound U.cfg [] ≤ fuel := by omega
  have h3 : assBound U.cfg ⟨U.argNames, U.argNames⟩ ≤ fuel := by omega
  have hl := liveRun_terminates U.cfg hU.cfg [] (fun q => q.headD 0) fuel h2
  have ha := assRun_terminates U.cfg hU.cfg ⟨U.argNames, U.argNames⟩ (fun q => q.headD 0) fuel h3
  obtain ⟨l, hl⟩ := Option.isSome_iff_exists.mp hl
  obtain ⟨a, ha⟩ := Option.isSome_iff_exists.mp ha
  unfold check
  simp only
  have hl' : liveRun U.cfg (fun q => q.headD 0) fuel (liveInit U.cfg []) = some l := hl
  have ha' : assRun U.cfg ⟨U.args.map (·.1), U.args.map (·.1)⟩ (fun q => q.headD 0) fuel
      (assInit U.cfg ⟨U.args.map (·.1), U.args.map (·.1)⟩) = some a := ha
  rw [hl', ha']
  exact checkCfg_isSome U hU _ fuel h1

end GuppyVerif.UseDef
