import GuppyVerif.Spec.C03
/-! # C03 helper lemmas, part 1: facts about Python's expression semantics `eval`
    (which variables an evaluation can change, what it depends on, when it is pure). -/
namespace GuppyVerif.Builder
open GuppyVerif.Surface

/-- stores that agree on user variables -/
def agreeU (a b : Store) : Prop := ∀ x, a (.user x) = b (.user x)

theorem agreeU.refl (a : Store) : agreeU a a := fun _ => rfl
theorem agreeU.symm {a b : Store} (h : agreeU a b) : agreeU b a := fun x => (h x).symm
theorem agreeU.trans {a b c : Store} (h : agreeU a b) (h' : agreeU b c) : agreeU a c :=
  fun x => (h x).trans (h' x)

theorem agreeU_set {a b : Store} (h : agreeU a b) (x : Var) (v : Val) : agreeU (a.set x v) (b.set x v) := by
  intro y; simp only [Store.set]; split <;> simp_all [h y]

theorem set_tmp_agreeU (a : Store) (k : Nat) (v : Val) : agreeU (a.set (.tmp k) v) a := by
  intro y; simp [Store.set]

@[simp] theorem set_same (a : Store) (x : Var) (v : Val) : (a.set x v) x = v := by simp [Store.set]
theorem set_other (a : Store) {x y : Var} (v : Val) (h : y ≠ x) : (a.set x v) y = a y := by simp [Store.set, h]

theorem applyUn_store (env : Env) (o : UnOp) (v : Val) (s : S) : (applyUn env o v s).2.1 = s.1 := by
  cases o <;> simp [applyUn, callExt]
theorem applyBi_store (env : Env) (o : BiOp) (a b : Val) (s : S) : (applyBi env o a b s).2.1 = s.1 := by
  cases o <;> simp [applyBi, callExt]

/-- an evaluation only changes walrus targets -/
theorem eval_writes (env : Env) (e : Expr) : ∀ (s : S) (x : Var), x ∉ writes e → (eval env e s).2.1 x = s.1 x := by
  induction e with
  | var y => intro s x _; rfl
  | num n => intro s x _; rfl
  | bool b => intro s x _; rfl
  | call0 f => intro s x _; rfl
  | un o e ih => intro s x h; simp only [eval, applyUn_store]; exact ih s x h
  | bi o l r ihl ihr =>
    intro s x h; simp only [writes, List.mem_append, not_or] at h
    simp only [eval, applyBi_store]; rw [ihr _ x h.2, ihl s x h.1]
  | cmp2 o1 o2 l m r ihl ihm ihr =>
    intro s x h; simp only [writes, List.mem_append, not_or] at h
    simp only [eval]; split
    · simp only; rw [ihr _ x h.2, ihm _ x h.1.2, ihl s x h.1.1]
    · simp only; rw [ihm _ x h.1.2, ihl s x h.1.1]
  | and l r ihl ihr =>
    intro s x h; simp only [writes, List.mem_append, not_or] at h
    simp only [eval]; split
    · simp only; rw [ihr _ x h.2, ihl s x h.1]
    · simp only; rw [ihl s x h.1]
  | or l r ihl ihr =>
    intro s x h; simp only [writes, List.mem_append, not_or] at h
    simp only [eval]; split
    · simp only; rw [ihl s x h.1]
    · simp only; rw [ihr _ x h.2, ihl s x h.1]
  | ite t b o iht ihb iho =>
    intro s x h; simp only [writes, List.mem_append, not_or] at h
    simp only [eval]; split
    · rw [ihb _ x h.1.2, iht s x h.1.1]
    · rw [iho _ x h.2, iht s x h.1.1]
  | walrus y e ih =>
    intro s x h; simp only [writes, List.mem_cons, not_or] at h
    simp only [eval]; rw [set_other _ _ h.1]; exact ih s x h.2

theorem writes_nil_of_not_lifts (e : Expr) (h : lifts e = false) : writes e = [] := by
  induction e with
  | un o e ih => exact ih h
  | bi o l r ihl ihr => simp only [lifts, Bool.or_eq_false_iff] at h; simp [writes, ihl h.1, ihr h.2]
  | _ => first | rfl | simp [lifts] at h

/-- without lifted constructs (no walrus) the store is unchanged -/
theorem eval_store_of_not_lifts (env : Env) (e : Expr) (h : lifts e = false) (s : S) :
    (eval env e s).2.1 = s.1 := by
  funext x; apply eval_writes; simp [writes_nil_of_not_lifts e h]

theorem user_writes (e : Expr) (h : userE e = true) (k : Nat) : Var.tmp k ∉ writes e := by
  induction e with
  | un o e ih => exact ih h
  | bi o l r ihl ihr =>
    simp only [userE, Bool.and_eq_true] at h; simp [writes, ihl h.1, ihr h.2]
  | cmp2 o1 o2 l m r ihl ihm ihr =>
    simp only [userE, Bool.and_eq_true] at h; simp [writes, ihl h.1.1, ihm h.1.2, ihr h.2]
  | and l r ihl ihr => simp only [userE, Bool.and_eq_true] at h; simp [writes, ihl h.1, ihr h.2]
  | or l r ihl ihr => simp only [userE, Bool.and_eq_true] at h; simp [writes, ihl h.1, ihr h.2]
  | ite t b o iht ihb iho =>
    simp only [userE, Bool.and_eq_true] at h; simp [writes, iht h.1.1, ihb h.1.2, iho h.2]
  | walrus y e ih =>
    cases y with
    | user s => simp only [userE] at h; simp [writes, ih h]
    | tmp n => simp [userE] at h
  | _ => simp [writes]

/-- a surface expression never touches temporaries -/
theorem eval_tmp (env : Env) (e : Expr) (h : userE e = true) (s : S) (k : Nat) :
    (eval env e s).2.1 (.tmp k) = s.1 (.tmp k) := eval_writes env e s _ (user_writes e h k)

theorem applyUn_congr (env : Env) (o : UnOp) (v : Val) (a b : Store) (tr : Trace) :
    (applyUn env o v (a, tr)).1 = (applyUn env o v (b, tr)).1 ∧
    (applyUn env o v (a, tr)).2.2 = (applyUn env o v (b, tr)).2.2 := by
  cases o <;> simp [applyUn, callExt]
theorem applyBi_congr (env : Env) (o : BiOp) (v w : Val) (a b : Store) (tr : Trace) :
    (applyBi env o v w (a, tr)).1 = (applyBi env o v w (b, tr)).1 ∧
    (applyBi env o v w (a, tr)).2.2 = (applyBi env o v w (b, tr)).2.2 := by
  cases o <;> simp [applyBi, callExt]

/-- evaluation of a surface expression only depends on the user part of the store -/
theorem eval_congr (env : Env) (e : Expr) (h : userE e = true) :
    ∀ (a b : Store) (tr : Trace), agreeU a b →
      (eval env e (a, tr)).1 = (eval env e (b, tr)).1 ∧
      (eval env e (a, tr)).2.2 = (eval env e (b, tr)).2.2 ∧
      agreeU (eval env e (a, tr)).2.1 (eval env e (b, tr)).2.1 := by
  induction e with
  | var y =>
    intro a b tr hab
    cases y with
    | user s => exact ⟨hab s, rfl, hab⟩
    | tmp n => simp [userE] at h
  | num n => intro a b tr hab; exact ⟨rfl, rfl, hab⟩
  | bool v => intro a b tr hab; exact ⟨rfl, rfl, hab⟩
  | call0 f => intro a b tr hab; exact ⟨rfl, rfl, hab⟩
  | un o e ih =>
    intro a b tr hab
    obtain ⟨h1, h2, h3⟩ := ih h a b tr hab
    simp only [eval, applyUn_store]
    generalize eval env e (a, tr) = ra at *
    generalize eval env e (b, tr) = rb at *
    obtain ⟨va, sa, ta⟩ := ra; obtain ⟨vb, sb, tb⟩ := rb
    simp only at h1 h2 h3; subst h1; subst h2
    exact ⟨(applyUn_congr env o va sa sb ta).1, (applyUn_congr env o va sa sb ta).2, h3⟩
  | bi o l r ihl ihr =>
    intro a b tr hab
    simp only [userE, Bool.and_eq_true] at h
    obtain ⟨h1, h2, h3⟩ := ihl h.1 a b tr hab
    simp only [eval, applyBi_store]
    generalize eval env l (a, tr) = ra at *
    generalize eval env l (b, tr) = rb at *
    obtain ⟨va, sa, ta⟩ := ra; obtain ⟨vb, sb, tb⟩ := rb
    simp only at h1 h2 h3; subst h1; subst h2
    obtain ⟨g1, g2, g3⟩ := ihr h.2 sa sb ta h3
    generalize eval env r (sa, ta) = qa at *
    generalize eval env r (sb, ta) = qb at *
    obtain ⟨wa, ua, xa⟩ := qa; obtain ⟨wb, ub, xb⟩ := qb
    simp only at g1 g2 g3; subst g1; subst g2
    exact ⟨(applyBi_congr env o va wa ua ub xa).1, (applyBi_congr env o va wa ua ub xa).2, g3⟩
  | cmp2 o1 o2 l m r ihl ihm ihr =>
    intro a b tr hab
    simp only [userE, Bool.and_eq_true] at h
    obtain ⟨h1, h2, h3⟩ := ihl h.1.1 a b tr hab
    simp only [eval]
    generalize eval env l (a, tr) = ra at *
    generalize eval env l (b, tr) = rb at *
    obtain ⟨va, sa, ta⟩ := ra; obtain ⟨vb, sb, tb⟩ := rb
    simp only at h1 h2 h3; subst h1; subst h2
    obtain ⟨g1, g2, g3⟩ := ihm h.1.2 sa sb ta h3
    generalize eval env m (sa, ta) = qa at *
    generalize eval env m (sb, ta) = qb at *
    obtain ⟨wa, ua, xa⟩ := qa; obtain ⟨wb, ub, xb⟩ := qb
    simp only at g1 g2 g3; subst g1; subst g2
    by_cases hc : compare o1 va wa = true
    · simp only [hc, if_true]
      obtain ⟨k1, k2, k3⟩ := ihr h.2 ua ub xa g3
      exact ⟨by rw [k1], k2, k3⟩
    · simp only [hc]; exact ⟨rfl, rfl, g3⟩
  | and l r ihl ihr =>
    intro a b tr hab
    simp only [userE, Bool.and_eq_true] at h
    obtain ⟨h1, h2, h3⟩ := ihl h.1 a b tr hab
    simp only [eval]
    generalize eval env l (a, tr) = ra at *
    generalize eval env l (b, tr) = rb at *
    obtain ⟨va, sa, ta⟩ := ra; obtain ⟨vb, sb, tb⟩ := rb
    simp only at h1 h2 h3; subst h1; subst h2
    by_cases hc : va.truthy = true
    · simp only [hc, if_true]
      obtain ⟨k1, k2, k3⟩ := ihr h.2 sa sb ta h3
      exact ⟨by rw [k1], k2, k3⟩
    · simp only [hc]; exact ⟨rfl, rfl, h3⟩
  | or l r ihl ihr =>
    intro a b tr hab
    simp only [userE, Bool.and_eq_true] at h
    obtain ⟨h1, h2, h3⟩ := ihl h.1 a b tr hab
    simp only [eval]
    generalize eval env l (a, tr) = ra at *
    generalize eval env l (b, tr) = rb at *
    obtain ⟨va, sa, ta⟩ := ra; obtain ⟨vb, sb, tb⟩ := rb
    simp only at h1 h2 h3; subst h1; subst h2
    cases hc : va.truthy
    · simp only [Bool.false_eq_true, if_false]
      obtain ⟨k1, k2, k3⟩ := ihr h.2 sa sb ta h3
      exact ⟨by rw [k1], k2, k3⟩
    · simp only [if_true]; exact ⟨trivial, trivial, h3⟩
  | ite t x y iht ihx ihy =>
    intro a b tr hab
    simp only [userE, Bool.and_eq_true] at h
    obtain ⟨h1, h2, h3⟩ := iht h.1.1 a b tr hab
    simp only [eval]
    generalize eval env t (a, tr) = ra at *
    generalize eval env t (b, tr) = rb at *
    obtain ⟨va, sa, ta⟩ := ra; obtain ⟨vb, sb, tb⟩ := rb
    simp only at h1 h2 h3; subst h1; subst h2
    by_cases hc : va.truthy = true
    · simp only [hc, if_true]; exact ihx h.1.2 sa sb ta h3
    · simp only [hc]; exact ihy h.2 sa sb ta h3
  | walrus y e ih =>
    intro a b tr hab
    cases y with
    | tmp n => simp [userE] at h
    | user s =>
      simp only [userE] at h
      obtain ⟨h1, h2, h3⟩ := ih h a b tr hab
      simp only [eval]
      refine ⟨h1, h2, ?_⟩
      rw [h1]; exact agreeU_set h3 _ _

theorem applyUn_pure (env : Env) (o : UnOp) (hc : (match o with | .call1 _ => true | _ => false) = false)
    (v : Val) (s s' : S) : applyUn env o v s = ((applyUn env o v s').1, s) := by
  cases o <;> simp_all [applyUn]
theorem applyBi_pure (env : Env) (o : BiOp) (hc : (match o with | .call2 _ => true | _ => false) = false)
    (v w : Val) (s s' : S) : applyBi env o v w s = ((applyBi env o v w s').1, s) := by
  cases o <;> simp_all [applyBi]

/-- a call-free, lift-free expression is pure: no state change, value determined by the variables it reads -/
theorem eval_pure (env : Env) (e : Expr) (hl : lifts e = false) (hc : anyCall e = false) :
    ∀ (s s' : S), (∀ x ∈ vars e, s.1 x = s'.1 x) → eval env e s = ((eval env e s').1, s) := by
  induction e with
  | var y => intro s s' h; simp [eval, h y (by simp [vars])]
  | num n => intro s s' _; rfl
  | bool b => intro s s' _; rfl
  | call0 f => simp [anyCall] at hc
  | un o e ih =>
    intro s s' h
    simp only [anyCall, Bool.or_eq_false_iff] at hc
    simp only [eval]; rw [ih hl hc.2 s s' h]
    exact applyUn_pure env o hc.1 _ _ _
  | bi o l r ihl ihr =>
    intro s s' h
    simp only [anyCall, Bool.or_eq_false_iff] at hc
    simp only [lifts, Bool.or_eq_false_iff] at hl
    simp only [vars, List.mem_append] at h
    simp only [eval]
    rw [ihl hl.1 hc.1.2 s s' (fun x hx => h x (Or.inl hx))]
    simp only
    rw [ihr hl.2 hc.2 s (eval env l s').2 (fun x hx => by
      rw [h x (Or.inr hx)]; exact (congrFun (eval_store_of_not_lifts env l hl.1 s') x).symm)]
    exact applyBi_pure env o hc.1.1 _ _ _ _
  | _ => simp [lifts] at hl

/-- call-free expressions leave the trace alone -/
theorem eval_trace_of_no_call (env : Env) (e : Expr) (hc : anyCall e = false) :
    ∀ s : S, (eval env e s).2.2 = s.2 := by
  induction e with
  | var y => intro s; rfl
  | num n => intro s; rfl
  | bool b => intro s; rfl
  | call0 f => simp [anyCall] at hc
  | un o e ih =>
    intro s; simp only [anyCall, Bool.or_eq_false_iff] at hc
    simp only [eval]; rw [applyUn_pure env o hc.1 _ _ (eval env e s).2]; exact ih hc.2 s
  | bi o l r ihl ihr =>
    intro s; simp only [anyCall, Bool.or_eq_false_iff] at hc
    simp only [eval]; rw [applyBi_pure env o hc.1.1 _ _ _ (eval env r (eval env l s).2).2]
    simp only; rw [ihr hc.2, ihl hc.1.2]
  | cmp2 o1 o2 l m r ihl ihm ihr =>
    intro s; simp only [anyCall, Bool.or_eq_false_iff] at hc
    simp only [eval]; split
    · simp only; rw [ihr hc.2, ihm hc.1.2, ihl hc.1.1]
    · simp only; rw [ihm hc.1.2, ihl hc.1.1]
  | and l r ihl ihr =>
    intro s; simp only [anyCall, Bool.or_eq_false_iff] at hc
    simp only [eval]; split
    · simp only; rw [ihr hc.2, ihl hc.1]
    · simp only; rw [ihl hc.1]
  | or l r ihl ihr =>
    intro s; simp only [anyCall, Bool.or_eq_false_iff] at hc
    simp only [eval]; split
    · simp only; rw [ihl hc.1]
    · simp only; rw [ihr hc.2, ihl hc.1]
  | ite t b o iht ihb iho =>
    intro s; simp only [anyCall, Bool.or_eq_false_iff] at hc
    simp only [eval]; split
    · rw [ihb hc.1.2, iht hc.1.1]
    · rw [iho hc.2, iht hc.1.1]
  | walrus y e ih => intro s; simp only [anyCall] at hc; simp only [eval]; exact ih hc s

theorem applyUn_swap' (env : Env) (o : UnOp) (v : Val) (a b : Store) (tr : Trace) :
    applyUn env o v (a, tr) = ((applyUn env o v (b, tr)).1, (a, (applyUn env o v (b, tr)).2.2)) := by
  cases o <;> simp [applyUn, callExt]
theorem applyBi_swap' (env : Env) (o : BiOp) (v w : Val) (a b : Store) (tr : Trace) :
    applyBi env o v w (a, tr) = ((applyBi env o v w (b, tr)).1, (a, (applyBi env o v w (b, tr)).2.2)) := by
  cases o <;> simp [applyBi, callExt]

/-- a lift-free expression (a residual; it may contain calls) evaluated in two states with the same trace whose
    stores agree on its variables: same value, same resulting trace, store untouched -/
theorem eval_resid_congr (env : Env) (e : Expr) (hl : lifts e = false) :
    ∀ (s s' : S), (∀ x ∈ vars e, s.1 x = s'.1 x) → s.2 = s'.2 →
      eval env e s = ((eval env e s').1, (s.1, (eval env e s').2.2)) := by
  induction e with
  | var y =>
    intro s s' h ht
    show (s.1 y, s) = (s'.1 y, (s.1, s'.2))
    rw [h y (by simp [vars]), ← ht]
  | num n => intro s s' _ ht; show (Val.int n, s) = (Val.int n, (s.1, s'.2)); rw [← ht]
  | bool b => intro s s' _ ht; show (Val.bool b, s) = (Val.bool b, (s.1, s'.2)); rw [← ht]
  | call0 f =>
    intro s s' _ ht
    simp only [eval, callExt, ht]
  | un o e ih =>
    intro s s' h ht
    have h1 := ih hl s s' h ht
    have hs' := eval_store_of_not_lifts env e hl s'
    simp only [eval]
    rw [h1]
    have : (eval env e s').2 = (s'.1, (eval env e s').2.2) := by rw [← hs']
    rw [this]
    exact applyUn_swap' env o _ _ _ _
  | bi o l r ihl ihr =>
    intro s s' h ht
    simp only [lifts, Bool.or_eq_false_iff] at hl
    simp only [vars, List.mem_append] at h
    have h1 := ihl hl.1 s s' (fun x hx => h x (Or.inl hx)) ht
    have hsl := eval_store_of_not_lifts env l hl.1 s'
    have h2 := ihr hl.2 (s.1, (eval env l s').2.2) (eval env l s').2
      (fun x hx => by rw [hsl]; exact h x (Or.inr hx)) rfl
    have hsr := eval_store_of_not_lifts env r hl.2 (eval env l s').2
    simp only [eval]
    rw [h1]
    simp only
    rw [h2]
    have : (eval env r (eval env l s').2).2 = (s'.1, (eval env r (eval env l s').2).2.2) := by
      rw [← hsl, ← hsr]
    rw [this]
    exact applyBi_swap' env o _ _ _ _ _
  | _ => simp [lifts] at hl

/-- a call-free expression does not look at the trace: value and store are the same from any trace -/
theorem eval_nocall_indep (env : Env) (e : Expr) (hc : anyCall e = false) :
    ∀ (st : Store) (T T' : Trace), (eval env e (st, T)).1 = (eval env e (st, T')).1 ∧
      (eval env e (st, T)).2.1 = (eval env e (st, T')).2.1 := by
  induction e with
  | var y => intro st T T'; exact ⟨rfl, rfl⟩
  | num n => intro st T T'; exact ⟨rfl, rfl⟩
  | bool b => intro st T T'; exact ⟨rfl, rfl⟩
  | call0 f => simp [anyCall] at hc
  | un o e ih =>
    intro st T T'
    simp only [anyCall, Bool.or_eq_false_iff] at hc
    obtain ⟨h1, h2⟩ := ih hc.2 st T T'
    simp only [eval, applyUn_store]
    refine ⟨?_, h2⟩
    rw [applyUn_pure env o hc.1 _ _ (eval env e (st, T')).2, h1]
  | bi o l r ihl ihr =>
    intro st T T'
    simp only [anyCall, Bool.or_eq_false_iff] at hc
    obtain ⟨h1, h2⟩ := ihl hc.1.2 st T T'
    have tl := eval_trace_of_no_call env l hc.1.2 (st, T)
    have tl' := eval_trace_of_no_call env l hc.1.2 (st, T')
    have e1 : (eval env l (st, T)).2 = ((eval env l (st, T')).2.1, T) := Prod.ext h2 tl
    have e2 : (eval env l (st, T')).2 = ((eval env l (st, T')).2.1, T') := Prod.ext rfl tl'
    obtain ⟨g1, g2⟩ := ihr hc.2 (eval env l (st, T')).2.1 T T'
    simp only [eval, applyBi_store]
    rw [e1, h1]
    refine ⟨?_, by rw [g2, ← e2]⟩
    rw [applyBi_pure env o hc.1.1 _ _ _ (eval env r (eval env l (st, T')).2).2, g1, ← e2]
  | cmp2 o1 o2 l m r ihl ihm ihr =>
    intro st T T'
    simp only [anyCall, Bool.or_eq_false_iff] at hc
    obtain ⟨h1, h2⟩ := ihl hc.1.1 st T T'
    have e1 : (eval env l (st, T)).2 = ((eval env l (st, T')).2.1, T) :=
      Prod.ext h2 (eval_trace_of_no_call env l hc.1.1 (st, T))
    have e2 : (eval env l (st, T')).2 = ((eval env l (st, T')).2.1, T') :=
      Prod.ext rfl (eval_trace_of_no_call env l hc.1.1 (st, T'))
    obtain ⟨g1, g2⟩ := ihm hc.1.2 (eval env l (st, T')).2.1 T T'
    have f1 : (eval env m ((eval env l (st, T')).2.1, T)).2 = ((eval env m ((eval env l (st, T')).2.1, T')).2.1, T) :=
      Prod.ext g2 (eval_trace_of_no_call env m hc.1.2 _)
    have f2 : (eval env m ((eval env l (st, T')).2.1, T')).2 = ((eval env m ((eval env l (st, T')).2.1, T')).2.1, T') :=
      Prod.ext rfl (eval_trace_of_no_call env m hc.1.2 _)
    obtain ⟨k1, k2⟩ := ihr hc.2 (eval env m ((eval env l (st, T')).2.1, T')).2.1 T T'
    simp only [eval]
    rw [e1, h1, g1, f1]
    rw [e2] at *
    rw [f2]
    split
    · exact ⟨by simp only; rw [k1], k2⟩
    · exact ⟨rfl, rfl⟩
  | and l r ihl ihr =>
    intro st T T'
    simp only [anyCall, Bool.or_eq_false_iff] at hc
    obtain ⟨h1, h2⟩ := ihl hc.1 st T T'
    have e1 : (eval env l (st, T)).2 = ((eval env l (st, T')).2.1, T) :=
      Prod.ext h2 (eval_trace_of_no_call env l hc.1 (st, T))
    have e2 : (eval env l (st, T')).2 = ((eval env l (st, T')).2.1, T') :=
      Prod.ext rfl (eval_trace_of_no_call env l hc.1 (st, T'))
    obtain ⟨g1, g2⟩ := ihr hc.2 (eval env l (st, T')).2.1 T T'
    simp only [eval]
    rw [e1, h1]
    rw [e2]
    split
    · exact ⟨by simp only; rw [g1], g2⟩
    · exact ⟨rfl, rfl⟩
  | or l r ihl ihr =>
    intro st T T'
    simp only [anyCall, Bool.or_eq_false_iff] at hc
    obtain ⟨h1, h2⟩ := ihl hc.1 st T T'
    have e1 : (eval env l (st, T)).2 = ((eval env l (st, T')).2.1, T) :=
      Prod.ext h2 (eval_trace_of_no_call env l hc.1 (st, T))
    have e2 : (eval env l (st, T')).2 = ((eval env l (st, T')).2.1, T') :=
      Prod.ext rfl (eval_trace_of_no_call env l hc.1 (st, T'))
    obtain ⟨g1, g2⟩ := ihr hc.2 (eval env l (st, T')).2.1 T T'
    simp only [eval]
    rw [e1, h1]
    rw [e2]
    split
    · exact ⟨rfl, rfl⟩
    · exact ⟨by simp only; rw [g1], g2⟩
  | ite t x y iht ihx ihy =>
    intro st T T'
    simp only [anyCall, Bool.or_eq_false_iff] at hc
    obtain ⟨h1, h2⟩ := iht hc.1.1 st T T'
    have e1 : (eval env t (st, T)).2 = ((eval env t (st, T')).2.1, T) :=
      Prod.ext h2 (eval_trace_of_no_call env t hc.1.1 (st, T))
    have e2 : (eval env t (st, T')).2 = ((eval env t (st, T')).2.1, T') :=
      Prod.ext rfl (eval_trace_of_no_call env t hc.1.1 (st, T'))
    simp only [eval]
    rw [e1, h1]
    rw [e2]
    split
    · exact ihx hc.1.2 _ T T'
    · exact ihy hc.2 _ T T'
  | walrus y e ih =>
    intro st T T'
    simp only [anyCall] at hc
    obtain ⟨h1, h2⟩ := ih hc st T T'
    simp only [eval]
    exact ⟨h1, by rw [h1, h2]⟩

end GuppyVerif.Builder
