import GuppyVerif.Lemmas.C01Set
import GuppyVerif.Lemmas.C01Acct
/-! Bridges between the recursive invariant `Holds` and the path-based vocabulary of
    `Spec/C01.lean` (`LeavesOnly`, `leafWires`, `Ty.at`, `sub`). -/
namespace GuppyVerif.DFWiring

theorem HoldsList.get {n : Nat} {L : Locals} {env : Env} {p : PlaceId} :
    ∀ (ts : List Ty) (i : Nat) (vs : List Val) (j : Nat) (tj : Ty),
      HoldsList n L env p i ts vs → i ≤ j → ts[j - i]? = some tj →
      ∃ vj, Holds n L env (j :: p) tj vj
  | [], _, [], _, _, _, _, h => by simp at h
  | t :: ts, i, v :: vs, j, tj, hh, hj, h => by
    simp only [HoldsList] at hh
    by_cases hji : j = i
    · subst hji
      simp only [Nat.sub_self, List.getElem?_cons_zero, Option.some.injEq] at h
      subst h
      exact ⟨v, hh.1⟩
    · exact HoldsList.get ts (i + 1) vs j tj hh.2 (by omega)
        (by rw [← getElem?_shift t ts (by omega)]; exact h)
  | [], _, _ :: _, _, _, h, _, _ => by simp [HoldsList] at h
  | _ :: _, _, [], _, _, h, _, _ => by simp [HoldsList] at h

/-- `Holds` implies the path-based `LeavesOnly` -/
theorem Holds.leavesOnly {n : Nat} {L : Locals} {env : Env} :
    ∀ (s : List Nat) (t : Ty) (p : PlaceId) (v : Val), Holds n L env p t v →
      ∀ t', t.at s = some t' →
        if t'.isLeaf then ∃ w, L (sub p s) = some w ∧ w.node < n else L (sub p s) = none
  | [], t, p, v, h, t', hat => by
    have := at_nil hat; subst this
    cases t' with
    | leaf c d =>
      simp only [Holds] at h
      obtain ⟨w, h1, h2, _⟩ := h
      simp only [Ty.isLeaf, ↓reduceIte, sub, List.reverse_nil, List.nil_append]
      exact ⟨w, h1, h2⟩
    | node k cs =>
      cases v with
      | atom a => simp [Holds] at h
      | tup vs =>
        simp only [Holds] at h
        simp [Ty.isLeaf, sub, h.1]
  | j :: s, .leaf _ _, _, _, _, _, hat => by simp [Ty.at] at hat
  | j :: s, .node k cs, p, .tup vs, h, t', hat => by
    obtain ⟨tj, hj, hat'⟩ := at_node_cons hat
    simp only [Holds] at h
    obtain ⟨vj, hv⟩ := HoldsList.get cs 0 vs j tj h.2 (Nat.zero_le j) (by simpa using hj)
    rw [sub_cons]
    exact Holds.leavesOnly s tj (j :: p) vj hv t' hat'
  | _ :: _, .node _ _, _, .atom _, h, _, _ => by simp [Holds] at h

mutual
def unitVal : Ty → Val
  | .leaf _ _ => .atom 0
  | .node _ cs => .tup (unitVals cs)
def unitVals : List Ty → List Val
  | [] => []
  | t :: ts => unitVal t :: unitVals ts
end

def unitEnv : Env := fun _ => some (.atom 0)

theorem LeavesOnly.child {n : Nat} {L : Locals} {p : PlaceId} {k : Kind} {cs : List Ty}
    (h : LeavesOnly n L p (.node k cs)) {j : Nat} {tj : Ty} (hj : cs[j]? = some tj) :
    LeavesOnly n L (j :: p) tj := by
  intro s t' hat
  have := h (j :: s) t' (by simp [Ty.at, hj, hat])
  rwa [sub_cons] at this

mutual
theorem LeavesOnly.holds {n : Nat} {L : Locals} : ∀ (t : Ty) (p : PlaceId),
    LeavesOnly n L p t → Holds n L unitEnv p t (unitVal t)
  | .leaf c d, p, h => by
    have := h [] (.leaf c d) rfl
    simp only [Ty.isLeaf, ↓reduceIte, sub, List.reverse_nil, List.nil_append] at this
    obtain ⟨w, h1, h2⟩ := this
    simp only [Holds, unitVal]
    exact ⟨w, h1, h2, rfl⟩
  | .node k cs, p, h => by
    have h0 := h [] (.node k cs) rfl
    simp only [Ty.isLeaf, Bool.false_eq_true, ↓reduceIte, sub, List.reverse_nil,
      List.nil_append] at h0
    simp only [Holds, unitVal]
    exact ⟨h0, LeavesOnly.holdsList cs p 0 (fun j tj _ hj => h.child (by simpa using hj))⟩
theorem LeavesOnly.holdsList {n : Nat} {L : Locals} : ∀ (ts : List Ty) (p : PlaceId) (i : Nat),
    (∀ j tj, i ≤ j → ts[j - i]? = some tj → LeavesOnly n L (j :: p) tj) →
    HoldsList n L unitEnv p i ts (unitVals ts)
  | [], _, _, _ => by simp [HoldsList, unitVals]
  | t :: ts, p, i, h => by
    simp only [HoldsList, unitVals]
    exact ⟨LeavesOnly.holds t (i :: p) (h i t (Nat.le_refl i) (by simp)),
      LeavesOnly.holdsList ts p (i + 1) (fun j tj hj hh =>
        h j tj (by omega) (by rw [getElem?_shift t ts hj]; exact hh))⟩
end

mutual
theorem Holds.leafWs_eq {n : Nat} {L : Locals} {env : Env} : ∀ (t : Ty) (p : PlaceId) (v : Val),
    Holds n L env p t v → leafWs L p t = leafWires L p t
  | .leaf _ _, p, v, h => by
    simp only [Holds] at h
    obtain ⟨w, h1, _, _⟩ := h
    simp [leafWs, leafWires, places, h1]
  | .node _ cs, p, .tup vs, h => by
    simp only [Holds] at h
    simp only [leafWs, leafWires, places, List.filterMap_cons, h.1]
    exact HoldsList.leafWs_eq cs p 0 vs h.2
  | .node _ _, _, .atom _, h => by simp [Holds] at h
theorem HoldsList.leafWs_eq {n : Nat} {L : Locals} {env : Env} :
    ∀ (ts : List Ty) (p : PlaceId) (i : Nat) (vs : List Val),
      HoldsList n L env p i ts vs → leafWsList L p i ts = (placesList p i ts).filterMap L
  | [], _, _, [], _ => by simp [leafWsList, placesList]
  | t :: ts, p, i, v :: vs, h => by
    simp only [HoldsList] at h
    simp only [leafWsList, placesList, List.filterMap_append]
    rw [Holds.leafWs_eq t (i :: p) v h.1, HoldsList.leafWs_eq ts p (i + 1) vs h.2]
    rfl
  | [], _, _, _ :: _, h => by simp [HoldsList] at h
  | _ :: _, _, _, [], h => by simp [HoldsList] at h
end

theorem self_mem_places (p : PlaceId) (t : Ty) : p ∈ places p t := by
  cases t <;> simp [places]

theorem places_sub_placesList : ∀ (ts : List Ty) (p : PlaceId) (i j : Nat) (tj : Ty),
    i ≤ j → ts[j - i]? = some tj → ∀ q ∈ places (j :: p) tj, q ∈ placesList p i ts
  | [], _, _, _, _, _, h => by simp at h
  | t :: ts, p, i, j, tj, hj, h => by
    intro q hq
    simp only [placesList, List.mem_append]
    by_cases hji : j = i
    · subst hji
      simp only [Nat.sub_self, List.getElem?_cons_zero, Option.some.injEq] at h
      subst h
      exact Or.inl hq
    · exact Or.inr (places_sub_placesList ts p (i + 1) j tj (by omega)
        (by rw [← getElem?_shift t ts (by omega)]; exact h) q hq)

theorem sub_mem_places : ∀ (s : List Nat) (t : Ty) (p : PlaceId) (t' : Ty),
    t.at s = some t' → sub p s ∈ places p t
  | [], t, p, _, _ => by simpa [sub] using self_mem_places p t
  | _ :: _, .leaf _ _, _, _, hat => by simp [Ty.at] at hat
  | j :: s, .node k cs, p, t', hat => by
    obtain ⟨tj, hj, hat'⟩ := at_node_cons hat
    rw [sub_cons]
    simp only [places, List.mem_cons]
    exact Or.inr (places_sub_placesList cs p 0 j tj (Nat.zero_le j) (by simpa using hj) _
      (sub_mem_places s tj (j :: p) t' hat'))

mutual
theorem unitVal_hasShape : ∀ t : Ty, (unitVal t).HasShape t
  | .leaf _ _ => by simp [unitVal, Val.HasShape]
  | .node _ cs => by simp only [unitVal, Val.HasShape]; exact unitVals_hasShapes cs
theorem unitVals_hasShapes : ∀ ts : List Ty, HasShapes (unitVals ts) ts
  | [] => by simp [unitVals, HasShapes]
  | t :: ts => by simp only [unitVals, HasShapes]; exact ⟨unitVal_hasShape t, unitVals_hasShapes ts⟩
end

mutual
/-- `setitem` never creates an entry outside the subtree of the assigned place -/
theorem setitem_none_outside : ∀ (t : Ty) (L : Locals) (n : Nat) (p : PlaceId) (r : Bool)
    (w : Wire) (q : PlaceId), ¬ p <:+ q → L q = none → (setitem L n p r w t).1 q = none
  | .leaf _ _, L, n, p, r, w, q, hq, hL => by
    have hne : q ≠ p := by intro e; subst e; exact hq (List.suffix_refl _)
    simp only [setitem, Locals.set_apply, hne, ↓reduceIte, popEnclosing_apply, hL]
    split <;> rfl
  | .node _ cs, L, n, p, r, w, q, hq, hL => by
    have hne : q ≠ p := by intro e; subst e; exact hq (List.suffix_refl _)
    have hpe : popEnclosing L p q = none := by
      simp only [popEnclosing_apply, hL]; split <;> rfl
    simp only [setitem]
    cases r with
    | true => simp [hne, hpe]
    | false =>
      simp only [Bool.false_eq_true, ↓reduceIte, Locals.pop_apply, hne]
      exact setitemList_none_outside cs (popEnclosing L p) (n + 1) p 0 n q hq hpe
theorem setitemList_none_outside : ∀ (ts : List Ty) (L : Locals) (n : Nat) (p : PlaceId)
    (i u : Nat) (q : PlaceId), ¬ p <:+ q → L q = none → (setitemList L n p i u ts).1 q = none
  | [], L, n, p, i, u, q, _, hL => by simpa [setitemList] using hL
  | t :: ts, L, n, p, i, u, q, hq, hL => by
    simp only [setitemList]
    exact setitemList_none_outside ts _ _ p (i + 1) u q hq
      (setitem_none_outside t L n (i :: p) false ⟨u, i⟩ q
        (fun h => hq (under_child_trans h)) hL)
end

/-- after any `setitem` at `p` no place enclosing `p` is in `locals` -/
theorem setitem_enclosing_none (t : Ty) (L : Locals) (n : Nat) (p : PlaceId) (w : Wire)
    (isRet : Bool) : ∀ q ∈ enclosing p, (setitem L n p isRet w t).1 q = none := by
  intro q hq
  have hlen := (mem_enclosing hq).2
  have hnu : ¬ p <:+ q := fun hs => by have := hs.length_le; omega
  have : (setitem (popEnclosing L p) n p isRet w t).1 q = none :=
    setitem_none_outside t _ n p isRet w q hnu (by simp [popEnclosing_apply, hq])
  have hidem : popEnclosing (popEnclosing L p) p = popEnclosing L p := by
    funext x; simp only [popEnclosing_apply]; split <;> rfl
  cases t with
  | leaf c d => simpa [setitem, hidem] using this
  | node k cs => cases isRet <;> simpa [setitem, hidem] using this

end GuppyVerif.DFWiring
