import GuppyVerif.Model.Range
import GuppyVerif.Spec.C18
/-! Helper lemmas for C18. -/
namespace GuppyVerif.Range

theorem wrap_id {x : Int} (h : I64 x) : wrap x = x := by
  unfold I64 at h; unfold wrap; omega

/-- `[cur, cur+step, …, cur+(n-1)*step]`, built the way the iteration builds it -/
def arith (cur step : Int) : Nat → List Int
  | 0 => []
  | n + 1 => cur :: arith (cur + step) step n

theorem arith_length (cur step : Int) (n : Nat) : (arith cur step n).length = n := by
  induction n generalizing cur with
  | zero => rfl
  | succ n ih => simp [arith, ih]

theorem arith_eq_map (cur step : Int) (n : Nat) :
    arith cur step n = (List.range n).map (fun (i : Nat) => cur + (i : Int) * step) := by
  induction n generalizing cur with
  | zero => rfl
  | succ n ih =>
    rw [arith, ih, List.range_succ_eq_map, List.map_cons, List.map_map]
    congr 1
    · simp
    · apply List.map_congr_left
      intro i _
      simp only [Function.comp, Nat.succ_eq_add_one, Int.natCast_add, Int.cast_ofNat_Int]
      rw [Int.add_mul, Int.one_mul]; omega

theorem run_of_none {r : Range} (h : r.next? = none) (fuel : Nat) : run fuel r = ([], r) := by
  cases fuel with
  | zero => rfl
  | succ f => simp [run, h]

theorem run_succ_of_some {r r' : Range} {v : Int} (h : r.next? = some (v, r')) (fuel : Nat) :
    run (fuel + 1) r = (v :: (run fuel r').1, (run fuel r').2) := by
  simp [run, h]

/-! ### Ascending ranges (`step > 0`) -/

theorem next_up_some {cur stop step : Int} (hs : 0 < step) (h : cur < stop) :
    (Range.mk cur stop step).next? = some (cur, ⟨wrap (cur + step), stop, step⟩) := by
  unfold Range.next?
  have h1 : step ≥ 0 := by omega
  have h2 : ¬ (cur ≥ stop) := by omega
  simp [h1, h2]

theorem next_up_none {cur stop step : Int} (hs : 0 ≤ step) (h : stop ≤ cur) :
    (Range.mk cur stop step).next? = none := by
  unfold Range.next?
  have h1 : step ≥ 0 := hs
  have h2 : cur ≥ stop := h
  simp [h1, h2]

/-- `m+1` values are yielded as long as the `m`-th one is still below `stop`; the state
    afterwards holds the (possibly wrapped) `cur + (m+1)*step`. -/
theorem run_yield_up (stop step : Int) (hs : 0 < step) (hstop : stop ≤ 9223372036854775808) :
    ∀ (m : Nat) (cur : Int) (fuel : Nat), -9223372036854775808 ≤ cur →
      cur + (m : Int) * step < stop →
      run (m + 1 + fuel) ⟨cur, stop, step⟩ =
        (arith cur step (m + 1) ++ (run fuel ⟨wrap (cur + ((m : Int) + 1) * step), stop, step⟩).1,
         (run fuel ⟨wrap (cur + ((m : Int) + 1) * step), stop, step⟩).2) := by
  intro m
  induction m with
  | zero =>
    intro cur fuel _ h
    have hc : cur < stop := by simpa using h
    rw [show 0 + 1 + fuel = fuel + 1 by omega, run_succ_of_some (next_up_some hs hc)]
    simp [arith]
  | succ j ih =>
    intro cur fuel hlo h
    have hj : (0 : Int) ≤ (j : Int) * step := Int.mul_nonneg (Int.natCast_nonneg j) (Int.le_of_lt hs)
    have e1 : ((j + 1 : Nat) : Int) * step = (j : Int) * step + step := by
      rw [Int.natCast_add, Int.add_mul]; simp
    rw [e1] at h
    have hc : cur < stop := by omega
    rw [show j + 1 + 1 + fuel = (j + 1 + fuel) + 1 by omega, run_succ_of_some (next_up_some hs hc)]
    have hw : wrap (cur + step) = cur + step := wrap_id ⟨by omega, by omega⟩
    rw [hw, ih (cur + step) fuel (by omega) (by omega)]
    have e2 : cur + step + ((j : Int) + 1) * step = cur + (((j + 1 : Nat) : Int) + 1) * step := by
      rw [Int.natCast_add, Int.add_mul, Int.add_mul, Int.add_mul]; simp; omega
    rw [e2]
    simp [arith]

/-- shape of Python's length for a non-empty ascending range -/
theorem pyLen_up {start stop step : Int} (hs : 0 < step) (h : start < stop) :
    ∃ m : Nat, pyLen start stop step = m + 1 ∧ start + (m : Int) * step < stop ∧
      stop ≤ start + ((m : Int) + 1) * step := by
  have hlen : pyLen start stop step = ((stop - start + step - 1) / step).toNat := by
    simp [pyLen, hs, h]
  have hq1 : 1 ≤ (stop - start + step - 1) / step :=
    Int.le_ediv_of_mul_le hs (by omega)
  have hdm := Int.emod_add_mul_ediv (stop - start + step - 1) step
  have hm0 := Int.emod_nonneg (stop - start + step - 1) (Int.ne_of_gt hs)
  have hm1 := Int.emod_lt_of_pos (stop - start + step - 1) hs
  generalize (stop - start + step - 1) / step = q at *
  generalize (stop - start + step - 1) % step = r at *
  refine ⟨(q - 1).toNat, by omega, ?_, ?_⟩
  · have e : ((q - 1).toNat : Int) = q - 1 := Int.toNat_of_nonneg (by omega)
    rw [e, Int.sub_mul, Int.mul_comm q step]; omega
  · have e : ((q - 1).toNat : Int) + 1 = q := by omega
    rw [e, Int.mul_comm q step]; omega

/-! ### Descending ranges (`step < 0`) -/

theorem next_down_some {cur stop step : Int} (hs : step < 0) (h : stop < cur) :
    (Range.mk cur stop step).next? = some (cur, ⟨wrap (cur + step), stop, step⟩) := by
  unfold Range.next?
  have h1 : ¬ (step ≥ 0) := by omega
  have h2 : ¬ (cur ≤ stop) := by omega
  simp [h1, h2]

theorem next_down_none {cur stop step : Int} (hs : step < 0) (h : cur ≤ stop) :
    (Range.mk cur stop step).next? = none := by
  unfold Range.next?
  have h1 : ¬ (step ≥ 0) := by omega
  simp [h1, h]

theorem run_yield_down (stop step : Int) (hs : step < 0) (hstop : -9223372036854775809 ≤ stop) :
    ∀ (m : Nat) (cur : Int) (fuel : Nat), cur < 9223372036854775808 →
      stop < cur + (m : Int) * step →
      run (m + 1 + fuel) ⟨cur, stop, step⟩ =
        (arith cur step (m + 1) ++ (run fuel ⟨wrap (cur + ((m : Int) + 1) * step), stop, step⟩).1,
         (run fuel ⟨wrap (cur + ((m : Int) + 1) * step), stop, step⟩).2) := by
  intro m
  induction m with
  | zero =>
    intro cur fuel _ h
    have hc : stop < cur := by simpa using h
    rw [show 0 + 1 + fuel = fuel + 1 by omega, run_succ_of_some (next_down_some hs hc)]
    simp [arith]
  | succ j ih =>
    intro cur fuel hhi h
    have hj : (j : Int) * step ≤ 0 :=
      Int.mul_nonpos_of_nonneg_of_nonpos (Int.natCast_nonneg j) (Int.le_of_lt hs)
    have e1 : ((j + 1 : Nat) : Int) * step = (j : Int) * step + step := by
      rw [Int.natCast_add, Int.add_mul]; simp
    rw [e1] at h
    have hc : stop < cur := by omega
    rw [show j + 1 + 1 + fuel = (j + 1 + fuel) + 1 by omega, run_succ_of_some (next_down_some hs hc)]
    have hw : wrap (cur + step) = cur + step := wrap_id ⟨by omega, by omega⟩
    rw [hw, ih (cur + step) fuel (by omega) (by omega)]
    have e2 : cur + step + ((j : Int) + 1) * step = cur + (((j + 1 : Nat) : Int) + 1) * step := by
      rw [Int.natCast_add, Int.add_mul, Int.add_mul, Int.add_mul]; simp; omega
    rw [e2]
    simp [arith]

/-- shape of Python's length for a non-empty descending range -/
theorem pyLen_down {start stop step : Int} (hs : step < 0) (h : stop < start) :
    ∃ m : Nat, pyLen start stop step = m + 1 ∧ stop < start + (m : Int) * step ∧
      start + ((m : Int) + 1) * step ≤ stop := by
  have hns : ¬ (0 < step) := by omega
  have hlen : pyLen start stop step = ((start - stop + (-step) - 1) / (-step)).toNat := by
    simp [pyLen, hs, hns, h]
  have hp : 0 < -step := by omega
  have hq1 : 1 ≤ (start - stop + (-step) - 1) / (-step) :=
    Int.le_ediv_of_mul_le hp (by omega)
  have hdm := Int.emod_add_mul_ediv (start - stop + (-step) - 1) (-step)
  have hm0 := Int.emod_nonneg (start - stop + (-step) - 1) (Int.ne_of_gt hp)
  have hm1 := Int.emod_lt_of_pos (start - stop + (-step) - 1) hp
  generalize (start - stop + (-step) - 1) / (-step) = q at *
  generalize (start - stop + (-step) - 1) % (-step) = r at *
  have hmul : -step * q = -(step * q) := Int.neg_mul step q
  refine ⟨(q - 1).toNat, by omega, ?_, ?_⟩
  · have e : ((q - 1).toNat : Int) = q - 1 := Int.toNat_of_nonneg (by omega)
    rw [e, Int.sub_mul, Int.mul_comm q step]; omega
  · have e : ((q - 1).toNat : Int) + 1 = q := by omega
    rw [e, Int.mul_comm q step]; omega

theorem pyLen_up_empty {start stop step : Int} (hs : 0 < step) (h : stop ≤ start) :
    pyLen start stop step = 0 := by
  have : ¬ (start < stop) := by omega
  simp [pyLen, hs, this]

theorem pyLen_down_empty {start stop step : Int} (hs : step < 0) (h : start ≤ stop) :
    pyLen start stop step = 0 := by
  have h1 : ¬ (0 < step) := by omega
  have : ¬ (stop < start) := by omega
  simp [pyLen, hs, h1, this]

end GuppyVerif.Range
