import GuppyVerif.Spec.C24
/-! Helper lemmas for C24. -/
namespace GuppyVerif.Unitary

theorem Flags.inn_iff (F g : Flags) : F.inn g = true ↔ g.Includes F := by
  rcases F with ⟨a, b, c⟩; rcases g with ⟨x, y, z⟩
  unfold Flags.inn Flags.and Flags.Includes
  constructor
  · intro h k
    simp only [decide_eq_true_eq, Flags.mk.injEq] at h
    cases k <;> simp only [Flags.has] <;> intro hk <;> simp_all
  · intro h
    have h1 := h .control; have h2 := h .dagger; have h3 := h .power
    simp only [Flags.has] at h1 h2 h3
    simp only [decide_eq_true_eq, Flags.mk.injEq]
    refine ⟨?_, ?_, ?_⟩
    · cases a <;> simp_all
    · cases b <;> simp_all
    · cases c <;> simp_all

theorem Args.anyQubit_iff : (as : Args) → (as.anyQubit = true ↔ as.PassesQubit)
  | .nil => by simp only [Args.anyQubit, Bool.false_eq_true, false_iff]; rintro ⟨a, h, _⟩; cases h
  | .cons e r => by
    simp only [Args.anyQubit, Bool.or_eq_true, Args.anyQubit_iff r]
    constructor
    · rintro (h | ⟨a, ha, hq⟩)
      · exact ⟨e, .head, h⟩
      · exact ⟨a, .tail ha, hq⟩
    · rintro ⟨a, ha, hq⟩
      cases ha with
      | head => exact .inl hq
      | tail h => exact .inr ⟨a, h, hq⟩

theorem Args.mem_cons_iff {x e : Expr} {r : Args} : Args.Mem x (.cons e r) ↔ x = e ∨ Args.Mem x r := by
  constructor
  · intro h; cases h with
    | head => exact .inl rfl
    | tail h => exact .inr h
  · rintro (rfl | h)
    · exact .head
    · exact .tail h

theorem Args.not_mem_nil {x : Expr} : ¬ Args.Mem x .nil := by intro h; cases h

theorem sub_call_iff {x : Expr} {g args r} :
    Sub x (.call g args r) ↔ x = .call g args r ∨ ∃ a, Args.Mem a args ∧ Sub x a := by
  constructor
  · intro h; cases h with
    | refl => exact .inl rfl
    | call hm hs => exact .inr ⟨_, hm, hs⟩
  · rintro (rfl | ⟨a, hm, hs⟩)
    · exact .refl
    · exact .call hm hs

theorem sub_node_iff {x : Expr} {cs q} :
    Sub x (.node cs q) ↔ x = .node cs q ∨ ∃ a, Args.Mem a cs ∧ Sub x a := by
  constructor
  · intro h; cases h with
    | refl => exact .inl rfl
    | node hm hs => exact .inr ⟨_, hm, hs⟩
  · rintro (rfl | ⟨a, hm, hs⟩)
    · exact .refl
    · exact .node hm hs

theorem sub_leaf_iff {x : Expr} : Sub x .leaf ↔ x = .leaf := by
  constructor
  · intro h; cases h; rfl
  · rintro rfl; exact .refl

theorem sub_place_iff {x : Expr} {q s} : Sub x (.place q s) ↔ x = .place q s := by
  constructor
  · intro h; cases h; rfl
  · rintro rfl; exact .refl

theorem sub_exempt_iff {x : Expr} {as} : Sub x (.exempt as) ↔ x = .exempt as := by
  constructor
  · intro h; cases h; rfl
  · rintro rfl; exact .refl

/-- what makes a single expression position bad under context flags `F` -/
def BadE (F : Flags) (e : Expr) : Prop :=
  (∃ g args r, Sub (.call g args r) e ∧ args.PassesQubit ∧ ¬ g.Includes F) ∨
    (F.dagger = true ∧ ∃ q, Sub (.place q true) e)

theorem badE_leaf (F) : ¬ BadE F .leaf := by
  rintro (⟨g, a, r, h, _⟩ | ⟨_, q, h⟩) <;> · rw [sub_leaf_iff] at h; cases h

theorem badE_exempt (F as) : ¬ BadE F (.exempt as) := by
  rintro (⟨g, a, r, h, _⟩ | ⟨_, q, h⟩) <;> · rw [sub_exempt_iff] at h; cases h

theorem badE_place (F q s) : BadE F (.place q s) ↔ (F.dagger = true ∧ s = true) := by
  constructor
  · rintro (⟨g, a, r, h, _⟩ | ⟨hd, q', h⟩)
    · rw [sub_place_iff] at h; cases h
    · rw [sub_place_iff] at h; cases h; exact ⟨hd, rfl⟩
  · rintro ⟨hd, rfl⟩; exact .inr ⟨hd, q, .refl⟩

theorem badE_call (F g args r) :
    BadE F (.call g args r) ↔
      (∃ a, Args.Mem a args ∧ BadE F a) ∨ (args.PassesQubit ∧ ¬ g.Includes F) := by
  constructor
  · rintro (⟨g', a', r', h, hq, hi⟩ | ⟨hd, q, h⟩)
    · rw [sub_call_iff] at h
      rcases h with h | ⟨a, hm, hs⟩
      · cases h; exact .inr ⟨hq, hi⟩
      · exact .inl ⟨a, hm, .inl ⟨g', a', r', hs, hq, hi⟩⟩
    · rw [sub_call_iff] at h
      rcases h with h | ⟨a, hm, hs⟩
      · cases h
      · exact .inl ⟨a, hm, .inr ⟨hd, q, hs⟩⟩
  · rintro (⟨a, hm, (⟨g', a', r', hs, hq, hi⟩ | ⟨hd, q, hs⟩)⟩ | ⟨hq, hi⟩)
    · exact .inl ⟨g', a', r', .call hm hs, hq, hi⟩
    · exact .inr ⟨hd, q, .call hm hs⟩
    · exact .inl ⟨g, args, r, .refl, hq, hi⟩

theorem badE_node (F cs q) :
    BadE F (.node cs q) ↔ ∃ a, Args.Mem a cs ∧ BadE F a := by
  constructor
  · rintro (⟨g', a', r', h, hq, hi⟩ | ⟨hd, q', h⟩)
    · rw [sub_node_iff] at h
      rcases h with h | ⟨a, hm, hs⟩
      · cases h
      · exact ⟨a, hm, .inl ⟨g', a', r', hs, hq, hi⟩⟩
    · rw [sub_node_iff] at h
      rcases h with h | ⟨a, hm, hs⟩
      · cases h
      · exact ⟨a, hm, .inr ⟨hd, q', hs⟩⟩
  · rintro ⟨a, hm, (⟨g', a', r', hs, hq, hi⟩ | ⟨hd, q', hs⟩)⟩
    · exact .inl ⟨g', a', r', .node hm hs, hq, hi⟩
    · exact .inr ⟨hd, q', .node hm hs⟩

theorem append_ne_nil_iff {α} (a b : List α) : a ++ b ≠ [] ↔ a ≠ [] ∨ b ≠ [] := by
  cases a <;> simp

mutual
theorem errsExpr_ne_nil (F : Flags) : (e : Expr) → (errsExpr F e ≠ [] ↔ BadE F e)
  | .leaf => by simp only [errsExpr, ne_eq, not_true_eq_false, false_iff]; exact badE_leaf F
  | .place q s => by
    rw [badE_place]
    cases hd : F.dagger <;> cases s <;> simp [errsExpr, hd]
  | .call g args r => by
    rw [badE_call, errsExpr, append_ne_nil_iff, errsArgs_ne_nil F args, ← Args.anyQubit_iff,
      ← Flags.inn_iff]
    cases args.anyQubit <;> cases F.inn g <;> simp
  | .exempt as => by
    simp only [errsExpr, ne_eq, not_true_eq_false, false_iff]; exact badE_exempt F as
  | .node cs q => by rw [badE_node, errsExpr, errsArgs_ne_nil F cs]
theorem errsArgs_ne_nil (F : Flags) : (as : Args) → (errsArgs F as ≠ [] ↔ ∃ a, Args.Mem a as ∧ BadE F a)
  | .nil => by
    simp only [errsArgs, ne_eq, not_true_eq_false, false_iff]
    rintro ⟨a, h, _⟩; exact Args.not_mem_nil h
  | .cons e r => by
    rw [errsArgs, append_ne_nil_iff, errsExpr_ne_nil F e, errsArgs_ne_nil F r]
    constructor
    · rintro (h | ⟨a, hm, hb⟩)
      · exact ⟨e, .head, h⟩
      · exact ⟨a, .tail hm, hb⟩
    · rintro ⟨a, hm, hb⟩
      rcases Args.mem_cons_iff.mp hm with rfl | hm
      · exact .inl hb
      · exact .inr ⟨a, hm, hb⟩
end

mutual
theorem hasLoopS_iff : (s : Stmt) → (s.hasLoop = true ↔ LoopInS s)
  | .expr _ => by simp only [Stmt.hasLoop, Bool.false_eq_true, false_iff]; intro h; cases h
  | .assign _ => by simp only [Stmt.hasLoop, Bool.false_eq_true, false_iff]; intro h; cases h
  | .ite c t f => by
    simp only [Stmt.hasLoop, Bool.or_eq_true, hasLoopB_iff t, hasLoopB_iff f]
    constructor
    · rintro (h | h)
      · exact .iteT h
      · exact .iteF h
    · intro h; cases h with
      | iteT h => exact .inl h
      | iteF h => exact .inr h
  | .while _ _ => by simp only [Stmt.hasLoop, true_iff]; exact .here
theorem hasLoopB_iff : (b : Block) → (b.hasLoop = true ↔ LoopInB b)
  | .nil => by simp only [Block.hasLoop, Bool.false_eq_true, false_iff]; intro h; cases h
  | .cons s r => by
    simp only [Block.hasLoop, Bool.or_eq_true, hasLoopS_iff s, hasLoopB_iff r]
    constructor
    · rintro (h | h)
      · exact .head h
      · exact .tail h
    · intro h; cases h with
      | head h => exact .inl h
      | tail h => exact .inr h
end

mutual
theorem hasAssignS_iff : (s : Stmt) → (s.hasAssign = true ↔ AssignInS s)
  | .expr _ => by simp only [Stmt.hasAssign, Bool.false_eq_true, false_iff]; intro h; cases h
  | .assign _ => by simp only [Stmt.hasAssign, true_iff]; exact .here
  | .ite c t f => by
    simp only [Stmt.hasAssign, Bool.or_eq_true, hasAssignB_iff t, hasAssignB_iff f]
    constructor
    · rintro (h | h)
      · exact .iteT h
      · exact .iteF h
    · intro h; cases h with
      | iteT h => exact .inl h
      | iteF h => exact .inr h
  | .while _ b => by
    simp only [Stmt.hasAssign, hasAssignB_iff b]
    constructor
    · intro h; exact .whileB h
    · intro h; cases h with
      | whileB h => exact h
theorem hasAssignB_iff : (b : Block) → (b.hasAssign = true ↔ AssignInB b)
  | .nil => by simp only [Block.hasAssign, Bool.false_eq_true, false_iff]; intro h; cases h
  | .cons s r => by
    simp only [Block.hasAssign, Bool.or_eq_true, hasAssignS_iff s, hasAssignB_iff r]
    constructor
    · rintro (h | h)
      · exact .head h
      · exact .tail h
    · intro h; cases h with
      | head h => exact .inl h
      | tail h => exact .inr h
end

/-- some expression position of the block is bad -/
def BadB (F : Flags) (b : Block) : Prop := ∃ e, SiteB e b ∧ BadE F e
def BadS (F : Flags) (s : Stmt) : Prop := ∃ e, SiteS e s ∧ BadE F e

mutual
/-- the per-block visit reports something iff a position is bad or (dagger) an assignment
    occurs -/
theorem errsStmt_ne_nil (F : Flags) :
    (s : Stmt) → (errsStmt F s ≠ [] ↔ BadS F s ∨ (F.dagger = true ∧ AssignInS s))
  | .expr e => by
    rw [errsStmt, errsExpr_ne_nil]
    constructor
    · intro h; exact .inl ⟨e, .expr, h⟩
    · rintro (⟨e', hs, hb⟩ | ⟨_, ha⟩)
      · cases hs; exact hb
      · cases ha
  | .assign v => by
    simp only [errsStmt]
    cases hd : F.dagger
    · simp only [Bool.false_eq_true, ↓reduceIte, false_and, or_false]
      cases v with
      | none =>
        simp only [ne_eq, not_true_eq_false, false_iff]
        rintro ⟨e, hs, _⟩; cases hs
      | some e =>
        simp only [errsExpr_ne_nil]
        constructor
        · intro h; exact ⟨e, .assign, h⟩
        · rintro ⟨e', hs, hb⟩; cases hs; exact hb
    · simp only [↓reduceIte, ne_eq, List.cons_ne_self, not_false_eq_true, true_and, true_iff]
      exact .inr .here
  | .ite c t f => by
    rw [errsStmt, append_ne_nil_iff, append_ne_nil_iff, errsExpr_ne_nil, errsBlock_ne_nil F t,
      errsBlock_ne_nil F f]
    constructor
    · rintro ((h | (⟨e, hs, hb⟩ | ⟨hd, ha⟩)) | (⟨e, hs, hb⟩ | ⟨hd, ha⟩))
      · exact .inl ⟨c, .iteC, h⟩
      · exact .inl ⟨e, .iteT hs, hb⟩
      · exact .inr ⟨hd, .iteT ha⟩
      · exact .inl ⟨e, .iteF hs, hb⟩
      · exact .inr ⟨hd, .iteF ha⟩
    · rintro (⟨e, hs, hb⟩ | ⟨hd, ha⟩)
      · cases hs with
        | iteC => exact .inl (.inl hb)
        | iteT h => exact .inl (.inr (.inl ⟨e, h, hb⟩))
        | iteF h => exact .inr (.inl ⟨e, h, hb⟩)
      · cases ha with
        | iteT h => exact .inl (.inr (.inr ⟨hd, h⟩))
        | iteF h => exact .inr (.inr ⟨hd, h⟩)
  | .while c b => by
    rw [errsStmt, append_ne_nil_iff, errsExpr_ne_nil, errsBlock_ne_nil F b]
    constructor
    · rintro (h | (⟨e, hs, hb⟩ | ⟨hd, ha⟩))
      · exact .inl ⟨c, .whileC, h⟩
      · exact .inl ⟨e, .whileB hs, hb⟩
      · exact .inr ⟨hd, .whileB ha⟩
    · rintro (⟨e, hs, hb⟩ | ⟨hd, ha⟩)
      · cases hs with
        | whileC => exact .inl hb
        | whileB h => exact .inr (.inl ⟨e, h, hb⟩)
      · cases ha with
        | whileB h => exact .inr (.inr ⟨hd, h⟩)
theorem errsBlock_ne_nil (F : Flags) :
    (b : Block) → (errsBlock F b ≠ [] ↔ BadB F b ∨ (F.dagger = true ∧ AssignInB b))
  | .nil => by
    simp only [errsBlock, ne_eq, not_true_eq_false, false_iff]
    rintro (⟨e, hs, _⟩ | ⟨_, ha⟩)
    · cases hs
    · cases ha
  | .cons s r => by
    rw [errsBlock, append_ne_nil_iff, errsStmt_ne_nil F s, errsBlock_ne_nil F r]
    constructor
    · rintro ((⟨e, hs, hb⟩ | ⟨hd, ha⟩) | (⟨e, hs, hb⟩ | ⟨hd, ha⟩))
      · exact .inl ⟨e, .head hs, hb⟩
      · exact .inr ⟨hd, .head ha⟩
      · exact .inl ⟨e, .tail hs, hb⟩
      · exact .inr ⟨hd, .tail ha⟩
    · rintro (⟨e, hs, hb⟩ | ⟨hd, ha⟩)
      · cases hs with
        | head h => exact .inl (.inl ⟨e, h, hb⟩)
        | tail h => exact .inr (.inl ⟨e, h, hb⟩)
      · cases ha with
        | head h => exact .inl (.inr ⟨hd, h⟩)
        | tail h => exact .inr (.inr ⟨hd, h⟩)
end

theorem badB_iff (F : Flags) (b : Block) :
    BadB F b ↔ BadCall F b ∨ (F.dagger = true ∧ SubscriptIn b) := by
  unfold BadB BadE BadCall SubscriptIn
  constructor
  · rintro ⟨e, hs, (⟨g, a, r, h1, h2, h3⟩ | ⟨hd, q, h⟩)⟩
    · exact .inl ⟨e, g, a, r, hs, h1, h2, h3⟩
    · exact .inr ⟨hd, e, q, hs, h⟩
  · rintro (⟨e, g, a, r, hs, h1, h2, h3⟩ | ⟨hd, e, q, hs, h⟩)
    · exact ⟨e, hs, .inl ⟨g, a, r, h1, h2, h3⟩⟩
    · exact ⟨e, hs, .inr ⟨hd, q, h⟩⟩

theorem prepassFn_go_none :
    (b : Block) → (prepassFn.go b = none ↔ (¬ LoopInB b ∧ ¬ AssignInB b))
  | .nil => by
    simp only [prepassFn.go, true_iff]
    exact And.intro (fun h => nomatch h) (fun h => nomatch h)
  | .cons s r => by
    have ih := prepassFn_go_none r
    unfold prepassFn.go
    by_cases hl : s.hasLoop = true
    · simp only [hl, ↓reduceIte, reduceCtorEq, false_iff, not_and]
      intro h; exact absurd (.head ((hasLoopS_iff s).mp hl)) h
    · by_cases ha : s.hasAssign = true
      · simp only [hl, Bool.false_eq_true, ↓reduceIte, ha, reduceCtorEq, false_iff, not_and]
        intro _ h; exact h (.head ((hasAssignS_iff s).mp ha))
      · simp only [hl, Bool.false_eq_true, ↓reduceIte, ha, ih]
        have hl' : ¬ LoopInS s := fun h => hl ((hasLoopS_iff s).mpr h)
        have ha' : ¬ AssignInS s := fun h => ha ((hasAssignS_iff s).mpr h)
        constructor
        · rintro ⟨h1, h2⟩
          refine ⟨fun h => ?_, fun h => ?_⟩
          · cases h with
            | head h => exact hl' h
            | tail h => exact h1 h
          · cases h with
            | head h => exact ha' h
            | tail h => exact h2 h
        · rintro ⟨h1, h2⟩
          exact ⟨fun h => h1 (.tail h), fun h => h2 (.tail h)⟩

theorem prepass_none (k : Kind) (F : Flags) (b : Block) :
    prepass k F b = none ↔
      ¬ (F.dagger = true ∧ (LoopInB b ∨ AssignInB b)) := by
  cases k
  · simp only [prepass, prepassFn]
    cases hd : F.dagger
    · simp
    · simp only [Bool.not_true, Bool.false_eq_true, ↓reduceIte, prepassFn_go_none, true_and, not_or]
  · simp only [prepass, prepassWith]
    cases hd : F.dagger
    · simp
    · simp only [Bool.not_true, Bool.false_eq_true, ↓reduceIte, true_and, not_or,
        ← hasLoopB_iff, ← hasAssignB_iff]
      cases b.hasLoop <;> cases b.hasAssign <;> simp

end GuppyVerif.Unitary
